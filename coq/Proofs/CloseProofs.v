(* C02 on Model/LoopCore.v (timer / idle / prepare / check / async handles):
   uv_close never runs a callback; close_cb exactly once, in a closing phase;
   nothing for the handle after its close_cb.

   Uses the accounting invariant LInvG of Proofs/LoopCoreInv.v (closing list =
   the closing-and-not-closed handles, once each; closing -> inactive) and
   adds the queue-membership invariant QInv below: a closing handle is in
   no watcher queue, no async list and not in the ready list of the timers. *)
From UV Require Import Lib.Base Model.Heap Model.Timer Model.LoopCore
  Proofs.HeapProofs Proofs.TimerProofs Proofs.LoopCoreInv Proofs.UvRunAlt.
Local Open Scope Z_scope.

Ltac splits := repeat match goal with |- _ /\ _ => split end.

(* ------------------------------------------------------------------ *)
(* state access                                                       *)
(* ------------------------------------------------------------------ *)
Lemma nth_upd_gen {A} (l : list A) i j f d :
  nth j (upd i f l) d = if Nat.eqb i j && Nat.ltb i (length l) then f (nth i l d) else nth j l d.
Proof.
  revert i j. induction l as [|x l IH]; intros i j.
  - simpl. rewrite andb_false_r. destruct i; reflexivity.
  - destruct i as [|i], j as [|j]; simpl; try reflexivity.
    rewrite IH. reflexivity.
Qed.

Lemma hget_upd_h s i f j :
  hget (upd_h s i f) j = if Nat.eqb i j && Nat.ltb i (length (hs s)) then f (hget s i) else hget s j.
Proof. unfold hget, upd_h, set_hs. cbn [hs]. apply nth_upd_gen. Qed.

Lemma len_upd_h s i f : length (hs (upd_h s i f)) = length (hs s).
Proof. unfold upd_h, set_hs. cbn [hs]. apply upd_length. Qed.

Lemma lvalid_lt s i : lvalid s i = true <-> (i < length (hs s))%nat.
Proof. unfold lvalid. apply Nat.ltb_lt. Qed.

Lemma usable_facts s i : usable s i = true -> (i < length (hs s))%nat /\ h_closed (hget s i) = false.
Proof.
  unfold usable. intros H. apply andb_prop in H. destruct H as [A B].
  apply lvalid_lt in A. apply negb_true_iff in B. auto.
Qed.

(* the flags the close protocol looks at *)
Definition fl (h : hrec) := (h_kind h, h_active h, h_closing h, h_closed h).

(* ------------------------------------------------------------------ *)
(* kinds never change, handles never disappear; [KF]: CLOSED flags unchanged
   and new handles are not closed (every step but the closing phase);
   [KFw]: CLOSED is never reset *)
(* ------------------------------------------------------------------ *)
Definition KF (s s' : lstate) : Prop :=
  (length (hs s) <= length (hs s'))%nat /\
  (forall i, (i < length (hs s))%nat ->
    h_kind (hget s' i) = h_kind (hget s i) /\ h_closed (hget s' i) = h_closed (hget s i)) /\
  (forall i, (length (hs s) <= i)%nat -> (i < length (hs s'))%nat -> h_closed (hget s' i) = false).

Definition KFw (s s' : lstate) : Prop :=
  (length (hs s) <= length (hs s'))%nat /\
  forall i, (i < length (hs s))%nat ->
    h_kind (hget s' i) = h_kind (hget s i) /\
    (h_closed (hget s i) = true -> h_closed (hget s' i) = true).

Lemma KF_KFw s s' : KF s s' -> KFw s s'.
Proof. intros (A & B & _). split; [exact A|]. intros i Hi. destruct (B i Hi) as (K & C). split; [exact K|congruence]. Qed.

Lemma KFw_refl s : KFw s s.
Proof. split; [lia|auto]. Qed.

Lemma KFw_trans a b c : KFw a b -> KFw b c -> KFw a c.
Proof.
  intros [A1 A2] [B1 B2]. split; [lia|]. intros i Hi.
  destruct (A2 i Hi) as (K1 & C1). destruct (B2 i ltac:(lia)) as (K2 & C2).
  split; [congruence|auto].
Qed.

Lemma KF_refl s : KF s s.
Proof. split; [lia|]. split; [auto|]. intros i A B. lia. Qed.

Lemma KF_trans a b c : KF a b -> KF b c -> KF a c.
Proof.
  intros (A1 & A2 & A3) (B1 & B2 & B3). split; [lia|]. split.
  - intros i Hi. destruct (A2 i Hi) as (K1 & C1). destruct (B2 i ltac:(lia)) as (K2 & C2).
    split; congruence.
  - intros i Hi Hi'. destruct (Nat.lt_ge_cases i (length (hs b))) as [L|G].
    + destruct (B2 i L) as (_ & C2). rewrite C2. apply A3; auto.
    + apply B3; auto.
Qed.

Lemma KF_hs s s' : hs s' = hs s -> KF s s'.
Proof.
  intros E. split; [rewrite E; lia|]. split.
  - intros i _. unfold hget. rewrite E. auto.
  - intros i A B. rewrite E in B. lia.
Qed.

Lemma KF_upd s i f :
  h_kind (f (hget s i)) = h_kind (hget s i) ->
  h_closed (f (hget s i)) = h_closed (hget s i) ->
  KF s (upd_h s i f).
Proof.
  intros A B. split; [rewrite len_upd_h; lia|]. split.
  - intros j Hj. rewrite hget_upd_h.
    destruct (Nat.eqb i j && Nat.ltb i (length (hs s))) eqn:E; [|auto].
    apply andb_prop in E. destruct E as [E _]. apply Nat.eqb_eq in E. subst j. auto.
  - intros j Hj Hj'. rewrite len_upd_h in Hj'. lia.
Qed.

(* ------------------------------------------------------------------ *)
(* queue membership                                                   *)
(* ------------------------------------------------------------------ *)
Record QInv (s : lstate) : Prop := {
  q_w : forall k i, In i (wq_get s k) ->
        (i < length (hs s))%nat /\ h_active (hget s i) = true /\ h_kind (hget s i) = k;
  q_lq : forall i, In i (lq s) ->
        (i < length (hs s))%nat /\ h_active (hget s i) = true /\ is_watcher s i = true;
  q_as : forall i, In i (async_q s ++ alq s) ->
        (i < length (hs s))%nat /\ h_kind (hget s i) = KAsync /\ h_closing (hget s i) = false;
  q_rd : forall i, In i (ready (ts s)) -> h_closing (hget s i) = false
}.

Lemma QInv_init t0 m : QInv (linit t0 m).
Proof. constructor; cbn; try (intros; contradiction). intros k i. destruct k; cbn; contradiction. Qed.

Definition queues (s : lstate) := (idle_q s, prepare_q s, check_q s, lq s, async_q s, alq s).

Lemma queues_proj s s' : queues s' = queues s ->
  lq s' = lq s /\ async_q s' = async_q s /\ alq s' = alq s.
Proof. unfold queues. intros E. inversion E. auto. Qed.

Lemma wq_get_queues s s' k : queues s' = queues s -> wq_get s' k = wq_get s k.
Proof. unfold queues. intros E. inversion E. destruct k; cbn; congruence. Qed.

Lemma is_watcher_kind s i :
  is_watcher s i = true <->
  (h_kind (hget s i) = KIdle \/ h_kind (hget s i) = KPrepare \/ h_kind (hget s i) = KCheck).
Proof.
  unfold is_watcher, kind_is. destruct (h_kind (hget s i)); cbn; split; intros H;
    try discriminate; auto; destruct H as [H|[H|H]]; discriminate.
Qed.

(* the handle table keeps its flags except ACTIVE of handle i, which is not a
   watcher (or keeps ACTIVE too); queues unchanged; the ready list shrinks *)
Lemma QInv_frame s s' i :
  QInv s -> length (hs s') = length (hs s) -> queues s' = queues s ->
  (forall j, h_kind (hget s' j) = h_kind (hget s j) /\ h_closing (hget s' j) = h_closing (hget s j)) ->
  (forall j, j <> i -> h_active (hget s' j) = h_active (hget s j)) ->
  (is_watcher s i = false \/ h_active (hget s' i) = h_active (hget s i)) ->
  (forall j, In j (ready (ts s')) -> In j (ready (ts s))) ->
  QInv s'.
Proof.
  intros Q L E F A W R. destruct Q.
  assert (ACT : forall j, is_watcher s j = true -> h_active (hget s' j) = h_active (hget s j)).
  { intros j Hw. destruct (Nat.eq_dec j i) as [->|Hne]; [|auto]. destruct W as [W|W]; congruence. }
  assert (Eq := E). unfold queues in Eq. inversion Eq.
  constructor.
  - intros k j Hj. rewrite (wq_get_queues s s' k E) in Hj. destruct (q_w0 k j Hj) as (A1 & A2 & A3).
    destruct (F j) as (F1 & F2). splits; try congruence; try lia.
    rewrite ACT; auto. apply is_watcher_kind. destruct k; cbn in Hj; try contradiction; auto.
  - intros j Hj. rewrite H3 in Hj. destruct (q_lq0 j Hj) as (A1 & A2 & A3).
    splits; try lia.
    + rewrite ACT; auto.
    + apply is_watcher_kind. apply is_watcher_kind in A3. destruct (F j) as (F1 & _). rewrite F1. exact A3.
  - intros j Hj. rewrite H4, H5 in Hj. destruct (q_as0 j Hj) as (A1 & A2 & A3).
    destruct (F j) as (F1 & F2). splits; try congruence; lia.
  - intros j Hj. destruct (F j) as (_ & F2). rewrite F2. apply q_rd0. apply R. exact Hj.
Qed.

(* ------------------------------------------------------------------ *)
(* steps that touch one handle's ACTIVE/REF flags and the timers      *)
(* ------------------------------------------------------------------ *)
Definition Shape (s s' : lstate) (i : nat) : Prop :=
  length (hs s') = length (hs s) /\ queues s' = queues s /\
  (forall j, h_kind (hget s' j) = h_kind (hget s j) /\ h_closing (hget s' j) = h_closing (hget s j) /\
             h_closed (hget s' j) = h_closed (hget s j)) /\
  (forall j, j <> i -> h_active (hget s' j) = h_active (hget s j)) /\
  (forall j, In j (ready (ts s')) -> In j (ready (ts s))).

Lemma Shape_refl s i : Shape s s i.
Proof. unfold Shape. splits; auto. Qed.

Lemma Shape_trans a b c i : Shape a b i -> Shape b c i -> Shape a c i.
Proof.
  intros (A1 & A2 & A3 & A4 & A5) (B1 & B2 & B3 & B4 & B5). unfold Shape. splits.
  - congruence.
  - congruence.
  - intros j. destruct (A3 j) as (X1 & X2 & X3). destruct (B3 j) as (Y1 & Y2 & Y3). splits; congruence.
  - intros j Hj. rewrite B4, A4; auto.
  - auto.
Qed.

Lemma Shape_KF s s' i : Shape s s' i -> KF s s'.
Proof.
  intros (A1 & _ & A3 & _). split; [lia|]. split.
  - intros j _. destruct (A3 j) as (X1 & _ & X3). split; [exact X1|exact X3].
  - intros j Hj Hj'. lia.
Qed.

Lemma Shape_QInv s s' i :
  QInv s -> Shape s s' i ->
  (is_watcher s i = false \/ h_active (hget s' i) = h_active (hget s i)) -> QInv s'.
Proof.
  intros Q (A1 & A2 & A3 & A4 & A5) W. eapply QInv_frame; eauto.
  intros j. destruct (A3 j) as (X1 & X2 & _). auto.
Qed.

(* a flag update of handle i that keeps kind, closing, closed *)
Lemma Shape_upd s i f :
  (h_kind (f (hget s i)) = h_kind (hget s i)) ->
  (h_closing (f (hget s i)) = h_closing (hget s i)) ->
  (h_closed (f (hget s i)) = h_closed (hget s i)) ->
  Shape s (upd_h s i f) i.
Proof.
  intros A B C. unfold Shape. splits; auto.
  - apply len_upd_h.
  - intros j. rewrite hget_upd_h.
    destruct (Nat.eqb i j && Nat.ltb i (length (hs s))) eqn:E; [|auto].
    apply andb_prop in E. destruct E as [E _]. apply Nat.eqb_eq in E. subst j. auto.
  - intros j Hj. rewrite hget_upd_h. apply Nat.eqb_neq in Hj. rewrite Nat.eqb_sym in Hj.
    rewrite Hj. reflexivity.
Qed.

Lemma Shape_fields s s' i :
  hs s' = hs s -> queues s' = queues s -> ready (ts s') = ready (ts s) -> Shape s s' i.
Proof.
  intros A B C. unfold Shape, hget. rewrite A, C. splits; auto.
Qed.

Lemma upd_h_active_same s i f :
  h_active (f (hget s i)) = h_active (hget s i) ->
  h_active (hget (upd_h s i f) i) = h_active (hget s i).
Proof.
  intros A. rewrite hget_upd_h. destruct (Nat.eqb i i && Nat.ltb i (length (hs s))); auto.
Qed.

Lemma Shape_handle_start s i : Shape s (handle_start s i) i.
Proof.
  unfold handle_start. destruct (h_active (hget s i)); [apply Shape_refl|].
  destruct (h_ref (hget s i)).
  - apply Shape_trans with (b := upd_h s i (with_active true));
      [apply Shape_upd; reflexivity|apply Shape_fields; reflexivity].
  - apply Shape_upd; reflexivity.
Qed.

Lemma Shape_handle_stop s i : Shape s (handle_stop s i) i.
Proof.
  unfold handle_stop. destruct (h_active (hget s i)); [|apply Shape_refl].
  destruct (h_ref (hget s i)).
  - apply Shape_trans with (b := upd_h s i (with_active false));
      [apply Shape_upd; reflexivity|apply Shape_fields; reflexivity].
  - apply Shape_upd; reflexivity.
Qed.

Lemma Shape_handle_ref s i :
  Shape s (handle_ref s i) i /\ h_active (hget (handle_ref s i) i) = h_active (hget s i).
Proof.
  unfold handle_ref. destruct (h_ref (hget s i)); [split; [apply Shape_refl|reflexivity]|].
  assert (A : Shape s (upd_h s i (with_ref true)) i) by (apply Shape_upd; reflexivity).
  assert (B : h_active (hget (upd_h s i (with_ref true)) i) = h_active (hget s i))
    by (apply upd_h_active_same; reflexivity).
  destruct (h_closing (hget s i)); [auto|].
  destruct (h_active (hget s i)); [|auto].
  split; [eapply Shape_trans; [exact A|apply Shape_fields; reflexivity]|exact B].
Qed.

Lemma Shape_handle_unref s i :
  Shape s (handle_unref s i) i /\ h_active (hget (handle_unref s i) i) = h_active (hget s i).
Proof.
  unfold handle_unref. destruct (h_ref (hget s i)); [|split; [apply Shape_refl|reflexivity]].
  assert (A : Shape s (upd_h s i (with_ref false)) i) by (apply Shape_upd; reflexivity).
  assert (B : h_active (hget (upd_h s i (with_ref false)) i) = h_active (hget s i))
    by (apply upd_h_active_same; reflexivity).
  destruct (h_closing (hget s i)); [auto|].
  destruct (h_active (hget s i)); [|auto].
  split; [eapply Shape_trans; [exact A|apply Shape_fields; reflexivity]|exact B].
Qed.

Lemma ts_handle_stop s i : ts (handle_stop s i) = ts s.
Proof. unfold handle_stop. destruct (h_active (hget s i)), (h_ref (hget s i)); reflexivity. Qed.

Lemma Shape_set_ts s t i :
  (forall j, In j (ready t) -> In j (ready (ts s))) -> Shape s (set_ts s t) i.
Proof. intros R. unfold Shape. splits; auto. Qed.

Lemma Shape_sync s i : Shape s (sync_timer_active s i) i.
Proof. unfold sync_timer_active. destruct (t_active (get (ts s) i)); [apply Shape_handle_start|apply Shape_handle_stop]. Qed.

Section timers.
Variables (s : lstate) (pend wpend : list nat) (i : nat).
Hypothesis Hinv : LInvG s pend wpend.
Hypothesis Hi : (i < length (hs s))%nat.

Let T : TI (ts s) := hi_ti _ _ (proj1 Hinv).
Let Hit : (i < length (tms (ts s)))%nat.
Proof. rewrite (hi_len _ _ (proj1 Hinv)). exact Hi. Qed.

Lemma Shape_l_timer_stop : Shape s (l_timer_stop s i) i.
Proof.
  unfold l_timer_stop. destruct (tframe_stop (ts s) i T Hit) as ((_ & _ & R & _) & _).
  eapply Shape_trans; [apply Shape_set_ts; exact R|apply Shape_sync].
Qed.

Lemma Shape_l_timer_start cb t r : Shape s (fst (l_timer_start s i cb t r)) i.
Proof.
  unfold l_timer_start. destruct (tframe_start (ts s) i cb t r T Hit) as ((_ & _ & R & _) & _).
  destruct (timer_start (ts s) i cb t r) as [ts' c]. cbn [fst] in *.
  eapply Shape_trans; [|apply Shape_sync].
  destruct (Z.eqb c 0).
  - eapply Shape_trans; [apply Shape_handle_stop|]. apply Shape_set_ts. rewrite ts_handle_stop. exact R.
  - apply Shape_set_ts. exact R.
Qed.

Lemma Shape_l_timer_again : Shape s (fst (l_timer_again s i)) i.
Proof.
  unfold l_timer_again. destruct (tframe_again (ts s) i T Hit) as ((_ & _ & R & _) & _).
  destruct (timer_again (ts s) i) as [ts' c]. cbn [fst] in *.
  eapply Shape_trans; [|apply Shape_sync].
  match goal with |- Shape s (set_ts (if ?b then _ else _) _) i => destruct b end.
  - eapply Shape_trans; [apply Shape_handle_stop|]. apply Shape_set_ts. rewrite ts_handle_stop. exact R.
  - apply Shape_set_ts. exact R.
Qed.
End timers.

(* ------------------------------------------------------------------ *)
(* steps that take handle i out of queues                             *)
(* ------------------------------------------------------------------ *)
Definition OnlyAt (s s' : lstate) (i : nat) : Prop :=
  length (hs s') = length (hs s) /\ forall j, j <> i -> hget s' j = hget s j.

Lemma OnlyAt_refl s i : OnlyAt s s i.
Proof. split; auto. Qed.

Lemma OnlyAt_trans a b c i : OnlyAt a b i -> OnlyAt b c i -> OnlyAt a c i.
Proof. intros [A1 A2] [B1 B2]. split; [congruence|]. intros j Hj. rewrite B2, A2; auto. Qed.

Lemma OnlyAt_upd s i f : OnlyAt s (upd_h s i f) i.
Proof.
  split; [apply len_upd_h|]. intros j Hj. rewrite hget_upd_h.
  apply Nat.eqb_neq in Hj. rewrite Nat.eqb_sym in Hj. rewrite Hj. reflexivity.
Qed.

Lemma OnlyAt_hs s s' i : hs s' = hs s -> OnlyAt s s' i.
Proof. intros E. unfold OnlyAt, hget. rewrite E. auto. Qed.

Lemma OnlyAt_handle_stop s i : OnlyAt s (handle_stop s i) i.
Proof.
  unfold handle_stop. destruct (h_active (hget s i)); [|apply OnlyAt_refl].
  destruct (h_ref (hget s i)).
  - apply OnlyAt_trans with (b := upd_h s i (with_active false)); [apply OnlyAt_upd|apply OnlyAt_hs; reflexivity].
  - apply OnlyAt_upd.
Qed.

Lemma OnlyAt_handle_start s i : OnlyAt s (handle_start s i) i.
Proof.
  unfold handle_start. destruct (h_active (hget s i)); [apply OnlyAt_refl|].
  destruct (h_ref (hget s i)).
  - apply OnlyAt_trans with (b := upd_h s i (with_active true)); [apply OnlyAt_upd|apply OnlyAt_hs; reflexivity].
  - apply OnlyAt_upd.
Qed.

Lemma OnlyAt_KF s s' i :
  OnlyAt s s' i -> h_kind (hget s' i) = h_kind (hget s i) ->
  h_closed (hget s' i) = h_closed (hget s i) -> KF s s'.
Proof.
  intros [A B] C D. split; [lia|]. split.
  - intros j _. destruct (Nat.eq_dec j i) as [->|Hne]; [auto|]. rewrite B by exact Hne. auto.
  - intros j Hj Hj'. lia.
Qed.

Lemma OnlyAt_KFw s s' i :
  OnlyAt s s' i -> h_kind (hget s' i) = h_kind (hget s i) ->
  (h_closed (hget s i) = true -> h_closed (hget s' i) = true) -> KFw s s'.
Proof.
  intros [A B] C D. split; [lia|]. intros j _. destruct (Nat.eq_dec j i) as [->|Hne]; [auto|].
  rewrite B by exact Hne. auto.
Qed.

Lemma QInv_sub s s' i :
  QInv s -> OnlyAt s s' i ->
  (forall k j, In j (wq_get s' k) -> In j (wq_get s k) /\ j <> i) ->
  (forall j, In j (lq s') -> In j (lq s) /\ j <> i) ->
  (forall j, In j (async_q s' ++ alq s') -> In j (async_q s ++ alq s) /\ j <> i) ->
  (forall j, In j (ready (ts s')) -> In j (ready (ts s)) /\ j <> i) ->
  QInv s'.
Proof.
  intros Q [L O] A B C D. destruct Q. constructor.
  - intros k j Hj. destruct (A k j Hj) as (H1 & H2). rewrite O, L by exact H2. apply q_w0. exact H1.
  - intros j Hj. destruct (B j Hj) as (H1 & H2). unfold is_watcher, kind_is. rewrite O, L by exact H2.
    apply q_lq0. exact H1.
  - intros j Hj. destruct (C j Hj) as (H1 & H2). rewrite O, L by exact H2. apply q_as0. exact H1.
  - intros j Hj. destruct (D j Hj) as (H1 & H2). rewrite O by exact H2. apply q_rd0. exact H1.
Qed.

Lemma in_remove_q i j l : In j (remove_q i l) <-> In j l /\ i <> j.
Proof. unfold remove_q. apply remove_id_in. Qed.

Lemma queues_handle_stop s i : queues (handle_stop s i) = queues s.
Proof. apply (Shape_handle_stop s i). Qed.

Lemma wq_get_handle_stop s i k : wq_get (handle_stop s i) k = wq_get s k.
Proof. apply wq_get_queues. apply queues_handle_stop. Qed.

Lemma ts_handle_start s i : ts (handle_start s i) = ts s.
Proof. unfold handle_start. destruct (h_active (hget s i)), (h_ref (hget s i)); reflexivity. Qed.

Lemma kind_not_watcher s i : h_kind (hget s i) = KTimer \/ h_kind (hget s i) = KAsync -> is_watcher s i = false.
Proof. unfold is_watcher, kind_is. intros [H|H]; rewrite H; reflexivity. Qed.

Lemma wq_kind_watcher s k j : In j (wq_get s k) -> k = KIdle \/ k = KPrepare \/ k = KCheck.
Proof. destruct k; cbn; auto; contradiction. Qed.

Lemma hget_upd_h_same s i f : (i < length (hs s))%nat -> hget (upd_h s i f) i = f (hget s i).
Proof. intros H. rewrite hget_upd_h, Nat.eqb_refl. apply Nat.ltb_lt in H. rewrite H. reflexivity. Qed.

Lemma handle_stop_fl s i : (i < length (hs s))%nat ->
  fl (hget (handle_stop s i) i) =
  (h_kind (hget s i), false, h_closing (hget s i), h_closed (hget s i)).
Proof.
  intros Hi. unfold handle_stop. destruct (h_active (hget s i)) eqn:Ea.
  - destruct (h_ref (hget s i));
      [change (hget (set_nact (upd_h s i (with_active false)) (nact (upd_h s i (with_active false)) - 1)) i)
         with (hget (upd_h s i (with_active false)) i)|];
      rewrite hget_upd_h_same by exact Hi; reflexivity.
  - unfold fl. rewrite Ea. reflexivity.
Qed.

Lemma handle_start_fl s i : (i < length (hs s))%nat ->
  fl (hget (handle_start s i) i) =
  (h_kind (hget s i), true, h_closing (hget s i), h_closed (hget s i)).
Proof.
  intros Hi. unfold handle_start. destruct (h_active (hget s i)) eqn:Ea.
  - unfold fl. rewrite Ea. reflexivity.
  - destruct (h_ref (hget s i));
      [change (hget (set_nact (upd_h s i (with_active true)) (nact (upd_h s i (with_active true)) + 1)) i)
         with (hget (upd_h s i (with_active true)) i)|];
      rewrite hget_upd_h_same by exact Hi; reflexivity.
Qed.

(* uv_{idle,prepare,check}_stop *)
Definition RT (s : lstate) : Prop := forall j, In j (ready (ts s)) -> is_timer (hget s j) = true.

Lemma watcher_stop_spec s i :
  RT s -> QInv s -> (i < length (hs s))%nat -> is_watcher s i = true ->
  QInv (watcher_stop s i) /\ OnlyAt s (watcher_stop s i) i /\
  fl (hget (watcher_stop s i) i) = (h_kind (hget s i), false, h_closing (hget s i), h_closed (hget s i)) /\
  ~ In i (lq (watcher_stop s i)) /\ (forall j, In j (lq (watcher_stop s i)) -> In j (lq s)) /\
  (forall k, ~ In i (wq_get (watcher_stop s i) k)) /\
  async_q (watcher_stop s i) = async_q s /\ alq (watcher_stop s i) = alq s /\
  ts (watcher_stop s i) = ts s /\ closing (watcher_stop s i) = closing s.
Proof.
  intros HI Q Hi Hw. unfold watcher_stop.
  destruct (h_active (hget s i)) eqn:Ea.
  2:{ splits; auto.
      - apply OnlyAt_refl.
      - unfold fl. rewrite Ea. reflexivity.
      - intros H. destruct (q_lq _ Q i H) as (_ & A & _). congruence.
      - intros k H. destruct (q_w _ Q k i H) as (_ & A & _). congruence. }
  assert (LQS0 : True) by exact I.
  set (k := h_kind (hget s i)).
  set (s1 := wq_set s k (remove_q i (wq_get s k))).
  set (s2 := set_lq s1 (remove_q i (lq s1))).
  assert (H1 : hs s2 = hs s) by (unfold s2, s1; destruct k; reflexivity).
  assert (G2 : forall j, hget s2 j = hget s j) by (intros j; unfold hget; rewrite H1; reflexivity).
  assert (O : OnlyAt s (handle_stop s2 i) i).
  { apply OnlyAt_trans with (b := s2); [apply OnlyAt_hs; exact H1|apply OnlyAt_handle_stop]. }
  assert (WQ : forall k' j, In j (wq_get s2 k') -> In j (wq_get s k') /\ j <> i).
  { intros k' j Hj. pose proof (wq_kind_watcher _ _ _ Hj) as Hk'.
    assert (Hold : In j (wq_get s k')).
    { unfold s2, s1 in Hj. apply is_watcher_kind in Hw. fold k in Hw.
      destruct k, k'; cbn in Hj |- *; try apply in_remove_q in Hj; try tauto;
        destruct Hw as [Hw|[Hw|Hw]]; discriminate. }
    split; [exact Hold|]. intros ->.
    destruct (q_w _ Q k' i Hold) as (_ & _ & Hk). fold k in Hk. subst k'.
    unfold s2, s1 in Hj. destruct k; cbn in Hj; try apply in_remove_q in Hj; try tauto;
      destruct Hk' as [?|[?|?]]; discriminate. }
  assert (LQ : forall j, In j (lq s2) -> In j (lq s) /\ j <> i).
  { intros j Hj. unfold s2 in Hj. cbn [lq set_lq] in Hj. apply in_remove_q in Hj.
    destruct Hj as [Hj Hne]. split; [|auto]. unfold s1 in Hj. destruct k; exact Hj. }
  assert (AS : async_q s2 = async_q s /\ alq s2 = alq s /\ ts s2 = ts s /\ closing s2 = closing s)
    by (unfold s2, s1; destruct k; auto).
  destruct AS as (AS1 & AS2 & AS3 & AS4).
  destruct (Shape_handle_stop s2 i) as (_ & SQ & _).
  destruct (queues_proj _ _ SQ) as (E4 & E5 & E6).
  assert (NT : is_timer (hget s i) = false).
  { unfold is_timer. apply is_watcher_kind in Hw. destruct Hw as [H|[H|H]]; rewrite H; reflexivity. }
  splits.
  - apply QInv_sub with (s := s) (i := i); auto.
    + intros k' j Hj. rewrite wq_get_handle_stop in Hj. auto.
    + intros j Hj. rewrite E4 in Hj. auto.
    + intros j Hj. rewrite E5, E6, AS1, AS2 in Hj. split; [exact Hj|]. intros ->.
      destruct (q_as _ Q i Hj) as (_ & Hk & _). apply is_watcher_kind in Hw. rewrite Hk in Hw.
      destruct Hw as [H|[H|H]]; discriminate.
    + intros j Hj. rewrite ts_handle_stop, AS3 in Hj. split; [exact Hj|]. intros ->.
      pose proof (HI i Hj). congruence.
  - exact O.
  - rewrite handle_stop_fl by (rewrite H1; exact Hi). rewrite G2. reflexivity.
  - rewrite E4. intros H. destruct (LQ i H). congruence.
  - intros j Hj. rewrite E4 in Hj. apply (LQ j Hj).
  - intros k' H. rewrite wq_get_handle_stop in H. destruct (WQ k' i H). congruence.
  - congruence.
  - congruence.
  - rewrite ts_handle_stop. exact AS3.
  - unfold handle_stop. destruct (h_active (hget s2 i)), (h_ref (hget s2 i)); exact AS4.
Qed.

Lemma LInvG_RT s pend wpend : LInvG s pend wpend -> RT s.
Proof. intros [HI _] j Hj. apply (hi_ready _ _ HI j Hj). Qed.

Lemma is_timer_kind h : is_timer h = true <-> h_kind h = KTimer.
Proof. unfold is_timer. destruct (h_kind h); cbn; split; intros H; auto; discriminate. Qed.

(* UV_HANDLE_CLOSING is set on a handle that sits in no async list and not in
   the ready list *)
Lemma QInv_closing_flag s i :
  QInv s -> ~ In i (async_q s ++ alq s) -> ~ In i (ready (ts s)) ->
  QInv (upd_h s i (with_closing true)).
Proof.
  intros Q A R. destruct Q.
  assert (G : forall j, h_kind (hget (upd_h s i (with_closing true)) j) = h_kind (hget s j) /\
                        h_active (hget (upd_h s i (with_closing true)) j) = h_active (hget s j) /\
                        (j <> i -> h_closing (hget (upd_h s i (with_closing true)) j) = h_closing (hget s j))).
  { intros j. rewrite hget_upd_h. destruct (Nat.eqb i j && Nat.ltb i (length (hs s))) eqn:E; [|auto].
    apply andb_prop in E. destruct E as [E _]. apply Nat.eqb_eq in E. subst j. splits; auto. congruence. }
  constructor.
  - intros k j Hj. change (wq_get (upd_h s i (with_closing true)) k) with (wq_get s k) in Hj.
    destruct (q_w0 k j Hj) as (A1 & A2 & A3). destruct (G j) as (G1 & G2 & _).
    rewrite len_upd_h. splits; congruence.
  - intros j Hj. change (lq (upd_h s i (with_closing true))) with (lq s) in Hj.
    destruct (q_lq0 j Hj) as (A1 & A2 & A3). destruct (G j) as (G1 & G2 & _).
    rewrite len_upd_h. splits; try congruence.
    apply is_watcher_kind. apply is_watcher_kind in A3. rewrite G1. exact A3.
  - intros j Hj. change (async_q (upd_h s i (with_closing true)) ++ alq (upd_h s i (with_closing true)))
      with (async_q s ++ alq s) in Hj.
    destruct (q_as0 j Hj) as (A1 & A2 & A3). destruct (G j) as (G1 & _ & G3).
    rewrite len_upd_h. splits; try congruence. rewrite G3; [exact A3|]. intros ->. auto.
  - intros j Hj. change (ready (ts (upd_h s i (with_closing true)))) with (ready (ts s)) in Hj.
    destruct (G j) as (_ & _ & G3). rewrite G3; [auto|]. intros ->. auto.
Qed.

Lemma set_closing_QInv s v : QInv s -> QInv (set_closing s v).
Proof. intros [A B C D]. constructor; auto. Qed.

Lemma KF_set_closing s v : KF s (set_closing s v).
Proof. apply KF_hs. reflexivity. Qed.

(* uv_close *)
Lemma l_close_spec s pend wpend i :
  LInvG s pend wpend -> QInv s -> (i < length (hs s))%nat ->
  h_closing (hget s i) = false ->
  QInv (l_close s i) /\ KF s (l_close s i).
Proof.
  intros Hinv Q Hi Hc. pose proof Hinv as [HI _]. pose proof (LInvG_RT _ _ _ Hinv) as HR.
  unfold l_close. rewrite Hc.
  set (s1 := upd_h s i (with_closing true)).
  assert (G1 : hget s1 i = with_closing true (hget s i)) by (apply hget_upd_h_same; exact Hi).
  assert (L1 : length (hs s1) = length (hs s)) by apply len_upd_h.
  assert (O1 : OnlyAt s s1 i) by apply OnlyAt_upd.
  destruct (h_kind (hget s i)) eqn:Ek.
  - (* timer *)
    set (s2 := set_ts s1 (timer_close (ts s1) i)).
    assert (Hit : (i < length (tms (ts s)))%nat) by (rewrite (hi_len _ _ HI); exact Hi).
    destruct (timer_stop_effect (ts s) i (hi_ti _ _ HI) Hit) as (_ & Hnr & _ & _ & _ & Hrd & _).
    assert (O : OnlyAt s (handle_stop s2 i) i).
    { apply OnlyAt_trans with (b := s2); [|apply OnlyAt_handle_stop].
      apply OnlyAt_trans with (b := s1); [exact O1|apply OnlyAt_hs; reflexivity]. }
    assert (F : fl (hget (handle_stop s2 i) i) = (KTimer, false, true, h_closed (hget s i))).
    { rewrite handle_stop_fl by (cbn [hs set_ts s2]; rewrite L1; exact Hi).
      change (hget s2 i) with (hget s1 i). rewrite G1. cbn. rewrite Ek. reflexivity. }
    unfold fl in F. inversion F as [[F1 F2 F3 F4]].
    destruct (queues_proj _ _ (queues_handle_stop s2 i)) as (E4 & E5 & E6).
    split.
    + apply set_closing_QInv. apply QInv_sub with (s := s) (i := i); auto.
      * intros k j Hj. rewrite wq_get_handle_stop in Hj. change (wq_get s2 k) with (wq_get s k) in Hj.
        split; [exact Hj|]. intros ->. destruct (q_w _ Q k i Hj) as (_ & _ & K).
        apply wq_kind_watcher in Hj. rewrite Ek in K. subst k. destruct Hj as [?|[?|?]]; discriminate.
      * intros j Hj. rewrite E4 in Hj. change (lq s2) with (lq s) in Hj.
        split; [exact Hj|]. intros ->. destruct (q_lq _ Q i Hj) as (_ & _ & K).
        apply is_watcher_kind in K. rewrite Ek in K. destruct K as [?|[?|?]]; discriminate.
      * intros j Hj. rewrite E5, E6 in Hj. change (async_q s2 ++ alq s2) with (async_q s ++ alq s) in Hj.
        split; [exact Hj|]. intros ->. destruct (q_as _ Q i Hj) as (_ & K & _). congruence.
      * intros j Hj. rewrite ts_handle_stop in Hj. unfold s2 in Hj. cbn [ts set_ts] in Hj.
        change (ts s1) with (ts s) in Hj. unfold timer_close in Hj. rewrite ready_set in Hj.
        split; [apply Hrd; exact Hj|]. intros ->. auto.
    + eapply KF_trans; [|apply KF_set_closing]. apply OnlyAt_KF with (i := i); auto; congruence.
  - (* idle *)
    assert (W : is_watcher s1 i = true) by (apply is_watcher_kind; rewrite G1; cbn; auto).
    assert (Q1 : QInv s1).
    { apply QInv_closing_flag; auto.
      - intros H. destruct (q_as _ Q i H) as (_ & K & _). congruence.
      - intros H. pose proof (HR i H) as K. apply is_timer_kind in K. congruence. }
    assert (R1 : RT s1).
    { intros j Hj. change (ready (ts s1)) with (ready (ts s)) in Hj. pose proof (HR j Hj) as K.
      apply is_timer_kind. apply is_timer_kind in K. unfold s1. rewrite hget_upd_h.
      destruct (Nat.eqb i j && Nat.ltb i (length (hs s))) eqn:E; [|exact K].
      apply andb_prop in E. destruct E as [E _]. apply Nat.eqb_eq in E. subst j. exact K. }
    destruct (watcher_stop_spec s1 i R1 Q1 ltac:(lia) W) as (Q2 & O2 & F2 & _).
    split; [apply set_closing_QInv; exact Q2|].
    eapply KF_trans; [|apply KF_set_closing]. unfold fl in F2. inversion F2 as [[F21 F22 F23 F24]].
    apply OnlyAt_KF with (i := i); [eapply OnlyAt_trans; eauto| |]; rewrite ?F21, ?F24, G1; auto.
  - (* prepare *)
    assert (W : is_watcher s1 i = true) by (apply is_watcher_kind; rewrite G1; cbn; auto).
    assert (Q1 : QInv s1).
    { apply QInv_closing_flag; auto.
      - intros H. destruct (q_as _ Q i H) as (_ & K & _). congruence.
      - intros H. pose proof (HR i H) as K. apply is_timer_kind in K. congruence. }
    assert (R1 : RT s1).
    { intros j Hj. change (ready (ts s1)) with (ready (ts s)) in Hj. pose proof (HR j Hj) as K.
      apply is_timer_kind. apply is_timer_kind in K. unfold s1. rewrite hget_upd_h.
      destruct (Nat.eqb i j && Nat.ltb i (length (hs s))) eqn:E; [|exact K].
      apply andb_prop in E. destruct E as [E _]. apply Nat.eqb_eq in E. subst j. exact K. }
    destruct (watcher_stop_spec s1 i R1 Q1 ltac:(lia) W) as (Q2 & O2 & F2 & _).
    split; [apply set_closing_QInv; exact Q2|].
    eapply KF_trans; [|apply KF_set_closing]. unfold fl in F2. inversion F2 as [[F21 F22 F23 F24]].
    apply OnlyAt_KF with (i := i); [eapply OnlyAt_trans; eauto| |]; rewrite ?F21, ?F24, G1; auto.
  - (* check *)
    assert (W : is_watcher s1 i = true) by (apply is_watcher_kind; rewrite G1; cbn; auto).
    assert (Q1 : QInv s1).
    { apply QInv_closing_flag; auto.
      - intros H. destruct (q_as _ Q i H) as (_ & K & _). congruence.
      - intros H. pose proof (HR i H) as K. apply is_timer_kind in K. congruence. }
    assert (R1 : RT s1).
    { intros j Hj. change (ready (ts s1)) with (ready (ts s)) in Hj. pose proof (HR j Hj) as K.
      apply is_timer_kind. apply is_timer_kind in K. unfold s1. rewrite hget_upd_h.
      destruct (Nat.eqb i j && Nat.ltb i (length (hs s))) eqn:E; [|exact K].
      apply andb_prop in E. destruct E as [E _]. apply Nat.eqb_eq in E. subst j. exact K. }
    destruct (watcher_stop_spec s1 i R1 Q1 ltac:(lia) W) as (Q2 & O2 & F2 & _).
    split; [apply set_closing_QInv; exact Q2|].
    eapply KF_trans; [|apply KF_set_closing]. unfold fl in F2. inversion F2 as [[F21 F22 F23 F24]].
    apply OnlyAt_KF with (i := i); [eapply OnlyAt_trans; eauto| |]; rewrite ?F21, ?F24, G1; auto.
  - (* async *)
    set (s2 := upd_h s1 i (with_pending true)).
    set (s3 := set_async s2 (remove_q i (async_q s2))).
    set (s4 := set_alq s3 (remove_q i (alq s3))).
    assert (G4 : hget s4 i = with_pending true (with_closing true (hget s i))).
    { change (hget s4 i) with (hget s2 i). unfold s2. rewrite hget_upd_h_same by lia. rewrite G1. reflexivity. }
    assert (L4 : length (hs s4) = length (hs s)).
    { change (hs s4) with (hs s2). unfold s2. rewrite len_upd_h. exact L1. }
    assert (O : OnlyAt s (handle_stop s4 i) i).
    { apply OnlyAt_trans with (b := s4); [|apply OnlyAt_handle_stop].
      apply OnlyAt_trans with (b := s1); [exact O1|].
      apply OnlyAt_trans with (b := s2); [apply OnlyAt_upd|apply OnlyAt_hs; reflexivity]. }
    assert (F : fl (hget (handle_stop s4 i) i) = (KAsync, false, true, h_closed (hget s i))).
    { rewrite handle_stop_fl by (rewrite L4; exact Hi). rewrite G4. cbn. rewrite Ek. reflexivity. }
    unfold fl in F. inversion F as [[F1 F2 F3 F4]].
    destruct (queues_proj _ _ (queues_handle_stop s4 i)) as (E4 & E5 & E6).
    split.
    + apply set_closing_QInv. apply QInv_sub with (s := s) (i := i); auto.
      * intros k j Hj. rewrite wq_get_handle_stop in Hj. change (wq_get s4 k) with (wq_get s k) in Hj.
        split; [exact Hj|]. intros ->. destruct (q_w _ Q k i Hj) as (_ & _ & K).
        apply wq_kind_watcher in Hj. rewrite Ek in K. subst k. destruct Hj as [?|[?|?]]; discriminate.
      * intros j Hj. rewrite E4 in Hj. change (lq s4) with (lq s) in Hj.
        split; [exact Hj|]. intros ->. destruct (q_lq _ Q i Hj) as (_ & _ & K).
        apply is_watcher_kind in K. rewrite Ek in K. destruct K as [?|[?|?]]; discriminate.
      * intros j Hj. rewrite E5, E6 in Hj.
        change (async_q s4) with (remove_q i (async_q s)) in Hj.
        change (alq s4) with (remove_q i (alq s)) in Hj.
        apply in_app_or in Hj. destruct Hj as [Hj|Hj]; apply in_remove_q in Hj; destruct Hj as [Hj Hne];
          (split; [apply in_or_app; auto|auto]).
      * intros j Hj. rewrite ts_handle_stop in Hj. change (ts s4) with (ts s) in Hj.
        split; [exact Hj|]. intros ->. pose proof (HR i Hj) as K. apply is_timer_kind in K. congruence.
    + eapply KF_trans; [|apply KF_set_closing]. apply OnlyAt_KF with (i := i); auto; congruence.
Qed.

(* uv_{idle,prepare,check}_start *)
Lemma wq_get_set_same s k v :
  (k = KIdle \/ k = KPrepare \/ k = KCheck) -> wq_get (wq_set s k v) k = v.
Proof. intros [H|[H|H]]; subst k; reflexivity. Qed.

Lemma wq_get_set_other s k k' v : k <> k' -> wq_get (wq_set s k v) k' = wq_get s k'.
Proof. intros H. destruct k, k'; try reflexivity; congruence. Qed.

Lemma watcher_start_spec s i hascb :
  QInv s -> (i < length (hs s))%nat -> is_watcher s i = true ->
  QInv (fst (watcher_start s i hascb)) /\ KF s (fst (watcher_start s i hascb)).
Proof.
  intros Q Hi Hw. unfold watcher_start.
  destruct (h_active (hget s i)) eqn:Ea; [split; [exact Q|apply KF_refl]|].
  destruct hascb; cbn [negb fst]; [|split; [exact Q|apply KF_refl]].
  set (k := h_kind (hget s i)).
  assert (Hk : k = KIdle \/ k = KPrepare \/ k = KCheck) by (apply is_watcher_kind; exact Hw).
  set (s1 := wq_set s k (i :: wq_get s k)).
  set (s2 := upd_h s1 i (with_hascb true)).
  assert (H1 : hs s1 = hs s) by (unfold s1; destruct k; reflexivity).
  assert (G1 : forall j, hget s1 j = hget s j) by (intros j; unfold hget; rewrite H1; reflexivity).
  assert (L2 : length (hs s2) = length (hs s)) by (unfold s2; rewrite len_upd_h, H1; reflexivity).
  assert (G2 : hget s2 i = with_hascb true (hget s i)).
  { unfold s2. rewrite hget_upd_h_same by (rewrite H1; exact Hi). rewrite G1. reflexivity. }
  assert (O : OnlyAt s (handle_start s2 i) i).
  { apply OnlyAt_trans with (b := s2); [|apply OnlyAt_handle_start].
    apply OnlyAt_trans with (b := s1); [apply OnlyAt_hs; exact H1|apply OnlyAt_upd]. }
  assert (F : fl (hget (handle_start s2 i) i) = (k, true, h_closing (hget s i), h_closed (hget s i))).
  { rewrite handle_start_fl by (rewrite L2; exact Hi). rewrite G2. reflexivity. }
  unfold fl in F. inversion F as [[F1 F2 F3 F4]].
  destruct (Shape_handle_start s2 i) as (_ & SQ & _).
  destruct (queues_proj _ _ SQ) as (E4 & E5 & E6).
  destruct O as [OL OO].
  assert (AQ : lq s2 = lq s /\ async_q s2 = async_q s /\ alq s2 = alq s /\ ts s2 = ts s)
    by (unfold s2, s1; destruct k; auto).
  destruct AQ as (AQ1 & AQ2 & AQ3 & AQ4).
  split.
  - destruct Q. constructor.
    + intros k' j Hj. rewrite (wq_get_queues _ _ k' SQ) in Hj.
      change (wq_get s2 k') with (wq_get s1 k') in Hj.
      destruct (Nat.eq_dec j i) as [->|Hne].
      * rewrite OL. split; [exact Hi|]. split; [exact F2|].
        destruct (hkind_eqb k k') eqn:Ekk.
        -- rewrite F1. destruct k, k'; try discriminate; reflexivity.
        -- assert (k <> k') by (intros <-; destruct k; discriminate).
           unfold s1 in Hj. rewrite wq_get_set_other in Hj by assumption.
           destruct (q_w0 k' i Hj) as (_ & A & _). congruence.
      * rewrite OO, OL by exact Hne. apply q_w0.
        destruct (hkind_eqb k k') eqn:Ekk.
        -- assert (k = k') by (destruct k, k'; try discriminate; reflexivity). subst k'.
           unfold s1 in Hj. rewrite wq_get_set_same in Hj by exact Hk.
           destruct Hj as [->|Hj]; [congruence|exact Hj].
        -- assert (k <> k') by (intros <-; destruct k; discriminate).
           unfold s1 in Hj. rewrite wq_get_set_other in Hj by assumption. exact Hj.
    + intros j Hj. rewrite E4, AQ1 in Hj. destruct (q_lq0 j Hj) as (A1 & A2 & A3).
      assert (j <> i) by (intros ->; congruence).
      unfold is_watcher, kind_is. rewrite OO, OL by assumption. auto.
    + intros j Hj. rewrite E5, E6, AQ2, AQ3 in Hj. destruct (q_as0 j Hj) as (A1 & A2 & A3).
      assert (j <> i).
      { intros ->. apply is_watcher_kind in Hw. rewrite A2 in Hw. destruct Hw as [?|[?|?]]; discriminate. }
      rewrite OO, OL by assumption. auto.
    + intros j Hj. rewrite ts_handle_start, AQ4 in Hj.
      destruct (Nat.eq_dec j i) as [->|Hne]; [rewrite F3|rewrite OO by exact Hne]; auto.
  - apply OnlyAt_KF with (i := i); [split; assumption|rewrite F1; reflexivity|rewrite F4; auto].
Qed.

(* uv__handle_init (+ uv_async_init) *)
Lemma hget_init_old s k j : (j < length (hs s))%nat -> hget (handle_init s k) j = hget s j.
Proof. intros H. unfold hget, handle_init. cbn [hs set_ts set_hs]. apply app_nth1. exact H. Qed.

Lemma hget_init_new s k :
  hget (handle_init s k) (length (hs s)) = mkH k false true false false false false.
Proof.
  unfold hget, handle_init. cbn [hs set_ts set_hs]. rewrite app_nth2 by lia.
  rewrite Nat.sub_diag. reflexivity.
Qed.

Lemma len_init s k : length (hs (handle_init s k)) = S (length (hs s)).
Proof. unfold handle_init. cbn [hs set_ts set_hs]. rewrite app_length. simpl. lia. Qed.

Lemma init_QInv s k : QInv s -> QInv (handle_init s k) /\ KF s (handle_init s k).
Proof.
  intros Q. split.
  - destruct Q. constructor.
    + intros k' j Hj. change (wq_get (handle_init s k) k') with (wq_get s k') in Hj.
      destruct (q_w0 k' j Hj) as (A1 & A2 & A3). rewrite len_init, hget_init_old by exact A1. splits; auto.
    + intros j Hj. change (lq (handle_init s k)) with (lq s) in Hj.
      destruct (q_lq0 j Hj) as (A1 & A2 & A3). unfold is_watcher, kind_is.
      rewrite len_init, hget_init_old by exact A1. splits; auto.
    + intros j Hj. change (async_q (handle_init s k) ++ alq (handle_init s k)) with (async_q s ++ alq s) in Hj.
      destruct (q_as0 j Hj) as (A1 & A2 & A3). rewrite len_init, hget_init_old by exact A1. splits; auto.
    + intros j Hj. change (ready (ts (handle_init s k))) with (ready (ts s)) in Hj.
      destruct (Nat.lt_ge_cases j (length (hs s))) as [L|G].
      * rewrite hget_init_old by exact L. auto.
      * destruct (Nat.eq_dec j (length (hs s))) as [->|Hne].
        -- rewrite hget_init_new. reflexivity.
        -- rewrite hget_overflow by (rewrite len_init; lia). reflexivity.
  - split; [rewrite len_init; lia|]. split.
    + intros j Hj. rewrite hget_init_old by exact Hj. auto.
    + intros j Hj Hj'. rewrite len_init in Hj'. assert (j = length (hs s)) by lia. subst j.
      rewrite hget_init_new. reflexivity.
Qed.

(* ------------------------------------------------------------------ *)
(* one API call                                                       *)
(* ------------------------------------------------------------------ *)
Definition is_cb (e : levent) : bool := match e with VCb _ _ _ => true | _ => false end.

Lemma lapi_no_cb s o : forallb (fun e => negb (is_cb e)) (snd (lapi s o)) = true.
Proof.
  destruct o; cbn [lapi];
    repeat match goal with
    | |- context [if ?c then _ else _] => destruct c
    | |- context [let '(_, _) := ?p in _] => destruct p
    | |- context [match ?k with KTimer => _ | _ => _ end] => destruct k
    end; reflexivity.
Qed.

Lemma QInv_fields s s' :
  QInv s -> hs s' = hs s -> queues s' = queues s -> ready (ts s') = ready (ts s) -> QInv s'.
Proof.
  intros Q A B C. apply Shape_QInv with (s := s) (i := O); auto.
  - apply Shape_fields; auto.
  - right. unfold hget. rewrite A. reflexivity.
Qed.

Lemma kind_is_true s i k : kind_is s i k = true -> h_kind (hget s i) = k.
Proof. unfold kind_is. destruct (h_kind (hget s i)), k; cbn; intros; try discriminate; reflexivity. Qed.

Lemma lapi_spec s pend wpend o :
  LInvG s pend wpend -> QInv s -> QInv (fst (lapi s o)) /\ KF s (fst (lapi s o)).
Proof.
  intros Hinv Q. pose proof Hinv as [HI _].
  assert (Same : QInv s /\ KF s s) by (split; [exact Q|apply KF_refl]).
  destruct o; cbn [lapi]; try exact Same.
  - (* LInit *)
    destruct (init_QInv s k Q) as (Q1 & K1).
    destruct k; cbn [fst]; try (split; assumption).
    set (i := length (hs s)). set (s1 := handle_init s KAsync) in *.
    assert (Hi1 : (i < length (hs s1))%nat) by (unfold s1; rewrite len_init; unfold i; lia).
    assert (Gi : hget s1 i = mkH KAsync false true false false false false) by apply hget_init_new.
    set (s2 := upd_h s1 i (with_hascb hascb)).
    assert (S2 : Shape s1 s2 i) by (apply Shape_upd; reflexivity).
    assert (Q2 : QInv s2).
    { apply Shape_QInv with (s := s1) (i := i); auto. right. apply upd_h_active_same. reflexivity. }
    assert (G2 : hget s2 i = with_hascb hascb (hget s1 i)) by (apply hget_upd_h_same; exact Hi1).
    set (s3 := set_async s2 (async_q s2 ++ [i])).
    assert (Q3 : QInv s3).
    { destruct Q2. constructor; auto.
      intros j Hj. change (async_q s3 ++ alq s3) with ((async_q s2 ++ [i]) ++ alq s2) in Hj.
      assert (Hj' : In j (async_q s2 ++ alq s2) \/ j = i).
      { rewrite !in_app_iff in Hj. rewrite in_app_iff. simpl in Hj. intuition (subst; auto). }
      destruct Hj' as [Hj' | ->]; [apply q_as0; exact Hj'|].
      change (hs s3) with (hs s2). change (hget s3 i) with (hget s2 i).
      destruct S2 as (L2 & _). rewrite L2, G2, Gi. splits; auto. }
    split.
    + apply Shape_QInv with (s := s3) (i := i); auto; [apply Shape_handle_start|].
      left. apply kind_not_watcher. right. change (hget s3 i) with (hget s2 i). rewrite G2, Gi. reflexivity.
    + eapply KF_trans; [exact K1|]. eapply KF_trans; [apply (Shape_KF _ _ _ S2)|].
      eapply KF_trans; [apply KF_hs; reflexivity|]. apply (Shape_KF _ _ _ (Shape_handle_start s3 i)).
  - (* LTStart *)
    destruct (usable s i && kind_is s i KTimer) eqn:U; [|exact Same].
    apply andb_prop in U. destruct U as [U K]. apply usable_facts in U. destruct U as [Hi _].
    apply kind_is_true in K.
    pose proof (Shape_l_timer_start s pend wpend i Hinv Hi cb t r) as S.
    destruct (l_timer_start s i cb t r) as [s' c]. cbn [fst] in *.
    split; [|apply (Shape_KF _ _ _ S)].
    apply Shape_QInv with (s := s) (i := i); auto. left. apply kind_not_watcher. auto.
  - (* LTAgain *)
    destruct (usable s i && kind_is s i KTimer) eqn:U; [|exact Same].
    apply andb_prop in U. destruct U as [U K]. apply usable_facts in U. destruct U as [Hi _].
    apply kind_is_true in K.
    pose proof (Shape_l_timer_again s pend wpend i Hinv Hi) as S.
    destruct (l_timer_again s i) as [s' c]. cbn [fst] in *.
    split; [|apply (Shape_KF _ _ _ S)].
    apply Shape_QInv with (s := s) (i := i); auto. left. apply kind_not_watcher. auto.
  - (* LTSetRepeat *)
    destruct (usable s i && kind_is s i KTimer) eqn:U; [|exact Same].
    cbn [fst]. split; [|apply KF_hs; reflexivity].
    apply QInv_fields with (s := s); auto.
  - (* LStart *)
    destruct (usable s i && is_watcher s i && negb (h_closing (hget s i))) eqn:U; [|exact Same].
    apply andb_prop in U. destruct U as [U _]. apply andb_prop in U. destruct U as [U W].
    apply usable_facts in U. destruct U as [Hi _].
    pose proof (watcher_start_spec s i hascb Q Hi W) as S.
    destruct (watcher_start s i hascb) as [s' c]. exact S.
  - (* LStop *)
    destruct (usable s i) eqn:U; [|exact Same].
    apply usable_facts in U. destruct U as [Hi _].
    destruct (kind_is s i KTimer) eqn:K.
    + apply kind_is_true in K. cbn [fst].
      pose proof (Shape_l_timer_stop s pend wpend i Hinv Hi) as S.
      split; [|apply (Shape_KF _ _ _ S)].
      apply Shape_QInv with (s := s) (i := i); auto. left. apply kind_not_watcher. auto.
    + destruct (is_watcher s i) eqn:W; [|exact Same]. cbn [fst].
      destruct (watcher_stop_spec s i (LInvG_RT _ _ _ Hinv) Q Hi W) as (Q2 & O2 & F2 & _).
      split; [exact Q2|]. unfold fl in F2. inversion F2 as [[F21 F22 F23 F24]].
      apply OnlyAt_KF with (i := i); auto.
  - (* LRef *)
    destruct (usable s i); [|exact Same]. cbn [fst].
    destruct (Shape_handle_ref s i) as (S & A).
    split; [apply Shape_QInv with (s := s) (i := i); auto|apply (Shape_KF _ _ _ S)].
  - (* LUnref *)
    destruct (usable s i); [|exact Same]. cbn [fst].
    destruct (Shape_handle_unref s i) as (S & A).
    split; [apply Shape_QInv with (s := s) (i := i); auto|apply (Shape_KF _ _ _ S)].
  - (* LClose *)
    destruct (usable s i && negb (h_closing (hget s i))) eqn:U; [|exact Same].
    apply andb_prop in U. destruct U as [U C]. apply usable_facts in U. destruct U as [Hi _].
    apply negb_true_iff in C. cbn [fst]. apply l_close_spec with (pend := pend) (wpend := wpend); auto.
  - (* LSend *)
    destruct (usable s i && kind_is s i KAsync); [|exact Same]. cbn [fst].
    unfold async_send. destruct (h_pending (hget s i)); [exact Same|].
    assert (S : Shape s (upd_h s i (with_pending true)) i) by (apply Shape_upd; reflexivity).
    split.
    + apply QInv_fields with (s := upd_h s i (with_pending true)); auto.
      apply Shape_QInv with (s := s) (i := i); auto. right. apply upd_h_active_same. reflexivity.
    + eapply KF_trans; [apply (Shape_KF _ _ _ S)|apply KF_hs; reflexivity].
  - (* LWork *)
    cbn [fst]. unfold work_submit.
    match goal with |- context [if ?c then _ else _] => destruct c end;
      (split; [apply QInv_fields with (s := s); auto|apply KF_hs; reflexivity]).
  - (* LStopLoop *)
    cbn [fst]. split; [apply QInv_fields with (s := s); auto|apply KF_hs; reflexivity].
  - (* LAdv *)
    cbn [fst]. split; [apply QInv_fields with (s := s); auto|apply KF_hs; reflexivity].
Qed.

(* the detached watcher queue only shrinks during API calls *)
Definition LQS (s s' : lstate) : Prop := forall j, In j (lq s') -> In j (lq s).

Lemma LQS_eq s s' : lq s' = lq s -> LQS s s'.
Proof. intros E j. rewrite E. auto. Qed.

Lemma LQS_trans a b c : LQS a b -> LQS b c -> LQS a c.
Proof. intros A B j H. auto. Qed.

Lemma lq_handle_start s i : lq (handle_start s i) = lq s.
Proof. unfold handle_start. destruct (h_active (hget s i)), (h_ref (hget s i)); reflexivity. Qed.
Lemma lq_handle_stop s i : lq (handle_stop s i) = lq s.
Proof. unfold handle_stop. destruct (h_active (hget s i)), (h_ref (hget s i)); reflexivity. Qed.
Lemma lq_handle_ref s i : lq (handle_ref s i) = lq s.
Proof. unfold handle_ref. destruct (h_ref (hget s i)), (h_closing (hget s i)), (h_active (hget s i)); reflexivity. Qed.
Lemma lq_handle_unref s i : lq (handle_unref s i) = lq s.
Proof. unfold handle_unref. destruct (h_ref (hget s i)), (h_closing (hget s i)), (h_active (hget s i)); reflexivity. Qed.
Lemma lq_sync s i : lq (sync_timer_active s i) = lq s.
Proof. unfold sync_timer_active. destruct (t_active (get (ts s) i)); [apply lq_handle_start|apply lq_handle_stop]. Qed.
Lemma lq_wq_set s k v : lq (wq_set s k v) = lq s.
Proof. destruct k; reflexivity. Qed.

Lemma LQS_watcher_stop s i : LQS s (watcher_stop s i).
Proof.
  unfold watcher_stop. destruct (h_active (hget s i)); [|apply LQS_eq; reflexivity].
  intros j Hj. rewrite lq_handle_stop in Hj. cbn [lq set_lq] in Hj.
  apply in_remove_q in Hj. destruct Hj as [Hj _]. rewrite lq_wq_set in Hj. exact Hj.
Qed.

Lemma LQS_l_close s i : LQS s (l_close s i).
Proof.
  unfold l_close. destruct (h_closing (hget s i)); [apply LQS_eq; reflexivity|].
  intros j Hj. cbn [lq set_closing] in Hj.
  destruct (h_kind (hget s i)).
  - rewrite lq_handle_stop in Hj. exact Hj.
  - apply LQS_watcher_stop in Hj. exact Hj.
  - apply LQS_watcher_stop in Hj. exact Hj.
  - apply LQS_watcher_stop in Hj. exact Hj.
  - rewrite lq_handle_stop in Hj. exact Hj.
Qed.

Lemma LQS_lapi s o : LQS s (fst (lapi s o)).
Proof.
  destruct o; cbn [lapi];
    repeat match goal with
    | |- context [if ?c then _ else _] => destruct c
    end; cbn [fst]; try (apply LQS_eq; reflexivity).
  - destruct k; cbn [fst]; apply LQS_eq; try reflexivity.
    rewrite lq_handle_start. reflexivity.
  - unfold l_timer_start. destruct (timer_start (ts s) i cb t r) as [t' c]. cbn [fst].
    apply LQS_eq. rewrite lq_sync. cbn [lq set_ts]. destruct (Z.eqb c 0); [apply lq_handle_stop|reflexivity].
  - unfold l_timer_again. destruct (timer_again (ts s) i) as [t' c]. cbn [fst].
    apply LQS_eq. rewrite lq_sync. cbn [lq set_ts].
    match goal with |- lq (if ?b then _ else _) = _ => destruct b end; [apply lq_handle_stop|reflexivity].
  - unfold watcher_start. destruct (h_active (hget s i)); [apply LQS_eq; reflexivity|].
    destruct hascb; cbn [negb fst]; apply LQS_eq; [|reflexivity].
    rewrite lq_handle_start. cbn [lq upd_h set_hs]. apply lq_wq_set.
  - apply LQS_eq. unfold l_timer_stop. rewrite lq_sync. reflexivity.
  - apply LQS_watcher_stop.
  - apply LQS_eq. apply lq_handle_ref.
  - apply LQS_eq. apply lq_handle_unref.
  - apply LQS_l_close.
  - apply LQS_eq. unfold async_send. destruct (h_pending (hget s i)); reflexivity.
  - apply LQS_eq. unfold work_submit. match goal with |- context [if ?c then _ else _] => destruct c end; reflexivity.
Qed.

(* ------------------------------------------------------------------ *)
(* traces                                                             *)
(* ------------------------------------------------------------------ *)
(* evs is what a step from s to s' emitted:
   - kinds stay, CLOSED is never reset;
   - every callback for handle i (tags 0-4 timer/idle/prepare/check/async and
     6 close; tag 5 carries a work id) finds i not yet CLOSED at s;
   - after a close callback for i, i is CLOSED at s';
   - inside evs, no callback for i comes after a close callback for i. *)
Definition TrOK (s : lstate) (evs : list levent) (s' : lstate) : Prop :=
  KFw s s' /\
  (forall i, (i < length (hs s'))%nat -> h_closed (hget s' i) = true ->
             ((i < length (hs s))%nat /\ h_closed (hget s i) = true) \/ exists nw, In (VCb 6 i nw) evs) /\
  (forall tag i nw, In (VCb tag i nw) evs -> tag <> 5%nat -> (i < length (hs s))%nat ->
                    h_closed (hget s i) = false) /\
  (forall i nw, In (VCb 6 i nw) evs -> (i < length (hs s'))%nat /\ h_closed (hget s' i) = true) /\
  (forall pre tag i nw post, evs = pre ++ VCb tag i nw :: post -> tag <> 5%nat ->
                             forall nw', ~ In (VCb 6 i nw') pre).

Lemma TrOK_nocb s evs s' :
  KF s s' -> forallb (fun e => negb (is_cb e)) evs = true -> TrOK s evs s'.
Proof.
  intros K N. rewrite forallb_forall in N.
  assert (NC : forall tag i nw, ~ In (VCb tag i nw) evs).
  { intros tag i nw H. specialize (N _ H). discriminate. }
  unfold TrOK. splits; auto.
  - apply KF_KFw. exact K.
  - intros i Hi Hc. left. destruct K as (L & K1 & K2).
    destruct (Nat.lt_ge_cases i (length (hs s))) as [Lt|Ge].
    + destruct (K1 i Lt) as (_ & C). split; [exact Lt|congruence].
    + rewrite (K2 i Ge Hi) in Hc. discriminate.
  - intros tag i nw H. exfalso. eapply NC; eauto.
  - intros i nw H. exfalso. eapply NC; eauto.
  - intros pre tag i nw post E. exfalso. apply (NC tag i nw). rewrite E. apply in_or_app. right. left. reflexivity.
Qed.

Lemma TrOK_rebase s s1 evs s' : hs s1 = hs s -> TrOK s1 evs s' -> TrOK s evs s'.
Proof. intros H T. unfold TrOK, KFw, hget in *. rewrite H in T. exact T. Qed.

Lemma list_eq_app_split {A} (a b c d : list A) :
  a ++ b = c ++ d ->
  (exists m, a = c ++ m /\ d = m ++ b) \/ (exists m, c = a ++ m /\ b = m ++ d).
Proof.
  revert c. induction a as [|x a IH]; intros c E.
  - right. exists c. simpl in E. auto.
  - destruct c as [|y c].
    + left. exists (x :: a). simpl in *. auto.
    + simpl in E. inversion E; subst. destruct (IH c H1) as [(m & E1 & E2)|(m & E1 & E2)].
      * left. exists m. subst. auto.
      * right. exists m. subst. auto.
Qed.

Lemma TrOK_nil s s' : KF s s' -> TrOK s [] s'.
Proof. intros K. apply TrOK_nocb; auto. Qed.

Lemma TrOK_app s e1 s1 e2 s2 : TrOK s e1 s1 -> TrOK s1 e2 s2 -> TrOK s (e1 ++ e2) s2.
Proof.
  intros (K1 & X1 & B1 & C1 & D1) (K2 & X2 & B2 & C2 & D2). unfold TrOK. splits.
  - eapply KFw_trans; eauto.
  - intros i Hi Hc. destruct (X2 i Hi Hc) as [(V1 & H1)|(nw & H)].
    + destruct (X1 i V1 H1) as [H0|(nw & H)]; [left; exact H0|].
      right. exists nw. apply in_or_app. auto.
    + right. exists nw. apply in_or_app. auto.
  - intros tag i nw H Ht Hi. apply in_app_or in H. destruct H as [H|H]; [eauto|].
    destruct (h_closed (hget s i)) eqn:E; [|reflexivity].
    destruct K1 as [L1 K1]. destruct (K1 i Hi) as (_ & M). specialize (M E).
    rewrite (B2 tag i nw H Ht ltac:(lia)) in M. discriminate.
  - intros i nw H. apply in_app_or in H. destruct H as [H|H]; [|eauto].
    destruct (C1 i nw H) as (V & C). destruct K2 as [L2 K2]. destruct (K2 i V) as (_ & M). split; [lia|auto].
  - intros pre tag i nw post E Ht nw' Hin.
    (* where does the split fall? *)
    destruct (list_eq_app_split e1 e2 pre (VCb tag i nw :: post) E) as [(m & E1 & E2)|(m & E1 & E2)].
    + (* event in e1... or at the boundary *)
      destruct m as [|x m].
      * simpl in E2. rewrite app_nil_r in E1. subst pre.
        destruct (C1 i nw' Hin) as (V & C).
        assert (Hev : In (VCb tag i nw) e2) by (rewrite <- E2; left; reflexivity).
        rewrite (B2 tag i nw Hev Ht V) in C. discriminate.
      * simpl in E2. inversion E2; subst x. subst e1.
        eapply (D1 pre tag i nw m); eauto.
    + (* event in e2 *)
      subst pre. apply in_app_or in Hin. destruct Hin as [Hin|Hin].
      * destruct (C1 i nw' Hin) as (V & C).
        assert (Hev : In (VCb tag i nw) e2) by (rewrite E2; apply in_or_app; right; left; reflexivity).
        rewrite (B2 tag i nw Hev Ht V) in C. discriminate.
      * eapply (D2 m tag i nw post); eauto.
Qed.

(* ------------------------------------------------------------------ *)
(* callbacks and phases                                               *)
(* ------------------------------------------------------------------ *)
Definition Good (s : lstate) (p w : list nat) : Prop := LInvG s p w /\ QInv s.

Lemma lapis_spec os : forall s p w,
  Good s p w ->
  Good (fst (lapis s os)) p w /\ TrOK s (snd (lapis s os)) (fst (lapis s os)) /\ LQS s (fst (lapis s os)).
Proof.
  induction os as [|o os IH]; intros s p w [Hinv Q]; cbn [lapis].
  - splits; auto. + split; auto. + apply TrOK_nil. apply KF_refl. + apply LQS_eq. reflexivity.
  - pose proof (LInvG_lapi s p w o Hinv) as I1.
    destruct (lapi_spec s p w o Hinv Q) as (Q1 & K1).
    pose proof (lapi_no_cb s o) as N1. pose proof (LQS_lapi s o) as L1.
    destruct (lapi s o) as [s1 e1]. cbn [fst snd] in *.
    destruct (IH s1 p w (conj I1 Q1)) as (G2 & T2 & L2).
    destruct (lapis s1 os) as [s2 e2]. cbn [fst snd] in *.
    splits; auto.
    + apply TrOK_app with (s1 := s1); auto. apply TrOK_nocb; auto.
    + eapply LQS_trans; eauto.
Qed.

Lemma callback_gen s0 s p w beh tag i :
  Good s p w -> KFw s0 s ->
  (forall j, (j < length (hs s))%nat -> h_closed (hget s j) = true ->
             ((j < length (hs s0))%nat /\ h_closed (hget s0 j) = true) \/ (tag = 6%nat /\ j = i)) ->
  (tag <> 5%nat -> (i < length (hs s0))%nat -> h_closed (hget s0 i) = false) ->
  (tag = 6%nat -> (i < length (hs s))%nat /\ h_closed (hget s i) = true) ->
  Good (fst (callback s beh tag i)) p w /\
  TrOK s0 (snd (callback s beh tag i)) (fst (callback s beh tag i)) /\
  LQS s (fst (callback s beh tag i)).
Proof.
  intros [Hinv Q] K0 E0 B C. unfold callback.
  set (s1 := set_cbcount s (S (cbcount s))).
  set (ops := if Nat.eqb (cbcount s) cap then LStopLoop :: close_all s1
              else if Nat.ltb cap (cbcount s) then [] else beh (cbcount s)).
  assert (G1 : Good s1 p w).
  { split; [eapply LInvG_core; [|exact Hinv]; reflexivity|apply QInv_fields with (s := s); auto]. }
  destruct (lapis_spec ops s1 p w G1) as (G2 & T2 & L2).
  destruct (lapis s1 ops) as [s2 evs]. cbn [fst snd] in *.
  splits; auto.
  change (VCb tag i (now (ts s)) :: VAlive (loop_alive s) :: evs)
    with ([VCb tag i (now (ts s)); VAlive (loop_alive s)] ++ evs).
  apply TrOK_app with (s1 := s1); auto.
  unfold TrOK. splits.
  - exact K0.
  - intros j Hj Hc. destruct (E0 j Hj Hc) as [H|(-> & ->)]; [left; exact H|].
    right. exists (now (ts s)). left. reflexivity.
  - intros tag' i' nw H Ht Hi. destruct H as [H|[H|[]]]; [|discriminate]. inversion H; subst. auto.
  - intros i' nw H. destruct H as [H|[H|[]]]; [|discriminate]. inversion H; subst. apply C. reflexivity.
  - intros pre tag' i' nw post E Ht nw' Hin.
    destruct pre as [|x pre]; [destruct Hin|]. simpl in E. inversion E; subst x.
    destruct pre as [|y pre]; simpl in H1; [discriminate|]. inversion H1; subst y.
    destruct pre; discriminate.
Qed.

Lemma callback_spec s0 s p w beh tag i :
  Good s p w -> KF s0 s ->
  (tag <> 5%nat -> (i < length (hs s0))%nat -> h_closed (hget s0 i) = false) ->
  tag <> 6%nat ->
  Good (fst (callback s beh tag i)) p w /\
  TrOK s0 (snd (callback s beh tag i)) (fst (callback s beh tag i)) /\
  LQS s (fst (callback s beh tag i)).
Proof.
  intros G K0 B T6. apply callback_gen; auto.
  - apply KF_KFw. exact K0.
  - intros j Hj Hc. left. destruct K0 as (L & K1 & K2).
    destruct (Nat.lt_ge_cases j (length (hs s0))) as [Lt|Ge].
    + destruct (K1 j Lt) as (_ & C). split; [exact Lt|congruence].
    + rewrite (K2 j Ge Hj) in Hc. discriminate.
  - intros E. congruence.
Qed.

Lemma Good_core s s' p w :
  Good s p w -> hcore s' = hcore s -> queues s' = queues s -> Good s' p w.
Proof.
  intros [Hinv Q] C E. split; [eapply LInvG_core; eauto|].
  unfold hcore in C. inversion C. apply QInv_fields with (s := s); auto. congruence.
Qed.

Lemma closed_false_of_active s p w i :
  LInvG s p w -> (i < length (hs s))%nat -> h_active (hget s i) = true -> h_closed (hget s i) = false.
Proof.
  intros [HI _] Hi Ha. destruct (hi_hok _ _ HI i Hi) as (A & B).
  destruct (h_closed (hget s i)) eqn:E; [|reflexivity].
  specialize (A (B eq_refl)). congruence.
Qed.

Lemma closed_false_of_not_closing s p w i :
  LInvG s p w -> (i < length (hs s))%nat -> h_closing (hget s i) = false -> h_closed (hget s i) = false.
Proof.
  intros [HI _] Hi Hc. destruct (hi_hok _ _ HI i Hi) as (_ & B).
  destruct (h_closed (hget s i)) eqn:E; [|reflexivity]. specialize (B eq_refl). congruence.
Qed.

Lemma KF_kind s s' i : KFw s s' -> (i < length (hs s))%nat -> h_kind (hget s' i) = h_kind (hget s i).
Proof. intros [_ K] Hi. apply (K i Hi). Qed.

(* uv__run_idle / prepare / check *)
Lemma run_lq_spec fuel : forall s p w beh k tag,
  Good s p w -> (k = KIdle \/ k = KPrepare \/ k = KCheck) -> tag <> 5%nat -> tag <> 6%nat ->
  (forall j, In j (lq s) -> h_kind (hget s j) = k) ->
  Good (fst (run_lq fuel s beh k tag)) p w /\
  TrOK s (snd (run_lq fuel s beh k tag)) (fst (run_lq fuel s beh k tag)).
Proof.
  induction fuel as [|f IH]; intros s p w beh k tag G Hk T5 T6 LK; cbn [run_lq].
  - split; [exact G|apply TrOK_nil; apply KF_refl].
  - destruct (lq s) as [|i rest] eqn:El; [split; [exact G|apply TrOK_nil; apply KF_refl]|].
    destruct G as [Hinv Q].
    assert (Hin : In i (lq s)) by (rewrite El; left; reflexivity).
    destruct (q_lq _ Q i Hin) as (Hi & Ha & Hw).
    set (s1 := set_lq s rest).
    set (s2 := wq_set s1 k (wq_get s1 k ++ [i])).
    assert (H2 : hs s2 = hs s) by (unfold s2, s1; destruct k; reflexivity).
    assert (G2h : forall j, hget s2 j = hget s j) by (intros j; unfold hget; rewrite H2; reflexivity).
    assert (I2 : LInvG s2 p w).
    { eapply LInvG_core; [|exact Hinv]. unfold s2. rewrite hcore_wq_set. reflexivity. }
    assert (Q2 : QInv s2).
    { destruct Q. constructor.
      - intros k' j Hj. rewrite H2, G2h.
        destruct (hkind_eqb k k') eqn:Ekk.
        + assert (k = k') by (destruct k, k'; try discriminate; reflexivity). subst k'.
          unfold s2 in Hj. rewrite wq_get_set_same in Hj by exact Hk.
          apply in_app_or in Hj. destruct Hj as [Hj|[<-|[]]].
          * apply q_w0. unfold s1 in Hj. destruct k; exact Hj.
          * splits; auto. apply LK. left. reflexivity.
        + assert (k <> k') by (intros <-; destruct k; discriminate).
          unfold s2 in Hj. rewrite wq_get_set_other in Hj by assumption.
          apply q_w0. unfold s1 in Hj. destruct k'; exact Hj.
      - intros j Hj. unfold s2 in Hj. rewrite lq_wq_set in Hj. cbn [lq set_lq s1] in Hj.
        unfold is_watcher, kind_is. rewrite H2, G2h. apply q_lq0. rewrite El. right. exact Hj.
      - intros j Hj. rewrite H2, G2h. apply q_as0. unfold s2, s1 in Hj. destruct k; exact Hj.
      - intros j Hj. rewrite G2h. apply q_rd0. unfold s2, s1 in Hj. destruct k; exact Hj. }
    assert (K2 : KF s s2) by (apply KF_hs; exact H2).
    destruct (callback_spec s s2 p w beh tag i (conj I2 Q2) K2) as (G3 & T3 & L3).
    { intros _ _. eapply closed_false_of_active; eauto. }
    { exact T6. }
    destruct (callback s2 beh tag i) as [s3 e1]. cbn [fst snd] in *.
    assert (LK3 : forall j, In j (lq s3) -> h_kind (hget s3 j) = k).
    { intros j Hj. apply L3 in Hj. unfold s2 in Hj. rewrite lq_wq_set in Hj. cbn [lq set_lq s1] in Hj.
      assert (Hjs : In j (lq s)) by (rewrite El; right; exact Hj).
      destruct (q_lq _ Q j Hjs) as (Hj1 & _).
      destruct T3 as (K3 & _). rewrite (KF_kind _ _ j K3 Hj1). apply LK. right. exact Hj. }
    destruct (IH s3 p w beh k tag G3 Hk T5 T6 LK3) as (G4 & T4).
    destruct (run_lq f s3 beh k tag) as [s4 e2]. cbn [fst snd] in *.
    split; [exact G4|]. apply TrOK_app with (s1 := s3); auto.
Qed.

Lemma run_watchers_spec s p w beh k tag :
  Good s p w -> (k = KIdle \/ k = KPrepare \/ k = KCheck) -> tag <> 5%nat -> tag <> 6%nat ->
  Good (fst (run_watchers s beh k tag)) p w /\
  TrOK s (snd (run_watchers s beh k tag)) (fst (run_watchers s beh k tag)).
Proof.
  intros [Hinv Q] Hk T5 T6. unfold run_watchers.
  set (s1 := set_lq (wq_set s k []) (wq_get s k)).
  assert (H1 : hs s1 = hs s) by (unfold s1; destruct k; reflexivity).
  assert (G1h : forall j, hget s1 j = hget s j) by (intros j; unfold hget; rewrite H1; reflexivity).
  assert (I1 : LInvG s1 p w).
  { eapply LInvG_core; [|exact Hinv].
    change (hcore s1) with (hcore (wq_set s k [])). apply hcore_wq_set. }
  assert (Q1 : QInv s1).
  { destruct Q. constructor.
    - intros k' j Hj. rewrite H1, G1h.
      destruct (hkind_eqb k k') eqn:Ekk.
      + assert (k = k') by (destruct k, k'; try discriminate; reflexivity). subst k'.
        change (wq_get s1 k) with (wq_get (wq_set s k []) k) in Hj.
        rewrite wq_get_set_same in Hj by exact Hk. destruct Hj.
      + assert (k <> k') by (intros <-; destruct k; discriminate).
        change (wq_get s1 k') with (wq_get (wq_set s k []) k') in Hj.
        rewrite wq_get_set_other in Hj by assumption. apply q_w0. exact Hj.
    - intros j Hj. cbn [lq set_lq s1] in Hj. destruct (q_w0 k j Hj) as (A1 & A2 & A3).
      unfold is_watcher, kind_is. rewrite H1, G1h. splits; auto.
      change (is_watcher s j = true). apply is_watcher_kind. rewrite A3. tauto.
    - intros j Hj. rewrite H1, G1h. apply q_as0. unfold s1 in Hj. destruct k; exact Hj.
    - intros j Hj. rewrite G1h. apply q_rd0. unfold s1 in Hj. destruct k; exact Hj. }
  assert (LK : forall j, In j (lq s1) -> h_kind (hget s1 j) = k).
  { intros j Hj. cbn [lq set_lq s1] in Hj. rewrite G1h. apply (q_w _ Q k j Hj). }
  destruct (run_lq_spec (length (wq_get s k)) s1 p w beh k tag (conj I1 Q1) Hk T5 T6 LK) as (G2 & T2).
  split; [exact G2|]. apply TrOK_rebase with (s1 := s1); auto.
Qed.

(* uv__work_done: tag 5 carries a work id, not a handle *)
Lemma run_wq_spec l : forall s p w beh,
  Good s p (l ++ w) ->
  Good (fst (run_wq l s beh)) p w /\ TrOK s (snd (run_wq l s beh)) (fst (run_wq l s beh)).
Proof.
  induction l as [|x rest IH]; intros s p w beh G; cbn [run_wq].
  - split; [exact G|apply TrOK_nil; apply KF_refl].
  - destruct G as [Hinv Q].
    pose proof (LInvG_wq_deliver s p x (rest ++ w) Hinv) as I2.
    set (s2 := set_works (set_nreq s (nreq s - 1)) _) in *.
    assert (Q2 : QInv s2) by (apply QInv_fields with (s := s); auto).
    assert (K2 : KF s s2) by (apply KF_hs; reflexivity).
    assert (S3 : let r := (if w_has_after (nth x (works s) (mkW false false))
                           then callback s2 beh 5 x else (s2, [])) in
                 Good (fst r) p (rest ++ w) /\ TrOK s (snd r) (fst r)).
    { destruct (w_has_after (nth x (works s) (mkW false false))); cbn zeta.
      - destruct (callback_spec s s2 p (rest ++ w) beh 5 x (conj I2 Q2) K2) as (G3 & T3 & _).
        + intros H. congruence.
        + discriminate.
        + split; assumption.
      - split; [split; assumption|apply TrOK_nil; exact K2]. }
    cbn zeta in S3.
    destruct (if w_has_after (nth x (works s) (mkW false false)) then callback s2 beh 5 x else (s2, []))
      as [s3 e1]. cbn [fst snd] in S3. destruct S3 as (G3 & T3).
    destruct (IH s3 p w beh G3) as (G4 & T4).
    destruct (run_wq rest s3 beh) as [s4 e2]. cbn [fst snd] in *.
    split; [exact G4|apply TrOK_app with (s1 := s3); auto].
Qed.

(* the scan of uv__async_io *)
Lemma run_alq_spec fuel : forall s p w beh,
  Good s p w ->
  Good (fst (run_alq fuel s beh)) p w /\ TrOK s (snd (run_alq fuel s beh)) (fst (run_alq fuel s beh)).
Proof.
  induction fuel as [|f IH]; intros s p w beh G; cbn [run_alq].
  - split; [exact G|apply TrOK_nil; apply KF_refl].
  - destruct (alq s) as [|i rest] eqn:El; [split; [exact G|apply TrOK_nil; apply KF_refl]|].
    destruct G as [Hinv Q].
    assert (Hin : In i (async_q s ++ alq s)) by (apply in_or_app; right; rewrite El; left; reflexivity).
    destruct (q_as _ Q i Hin) as (Hi & Hk & Hc).
    set (s1 := set_alq s rest). set (s2 := set_async s1 (async_q s1 ++ [i])).
    assert (I2 : LInvG s2 p w) by (eapply LInvG_core; [|exact Hinv]; reflexivity).
    assert (Q2 : QInv s2).
    { destruct Q. constructor; auto.
      intros j Hj. change (async_q s2 ++ alq s2) with ((async_q s ++ [i]) ++ rest) in Hj.
      apply q_as0. rewrite El. rewrite !in_app_iff in *. simpl in *. intuition (subst; auto). }
    assert (K2 : KF s s2) by (apply KF_hs; reflexivity).
    assert (S4 : let r := (if h_pending (hget s2 i)
                           then (if h_hascb (hget s2 i)
                                 then callback (upd_h s2 i (with_pending false)) beh 4 i
                                 else (upd_h s2 i (with_pending false), []))
                           else (s2, [])) in
                 Good (fst r) p w /\ TrOK s (snd r) (fst r)).
    { destruct (h_pending (hget s2 i)); cbn zeta; [|split; [split; assumption|apply TrOK_nil; exact K2]].
      set (s3 := upd_h s2 i (with_pending false)).
      assert (S3 : Shape s2 s3 i) by (apply Shape_upd; reflexivity).
      assert (I3 : LInvG s3 p w) by (apply LInvG_upd_h_inert; [apply flags_same_pending|exact I2]).
      assert (Q3 : QInv s3).
      { apply Shape_QInv with (s := s2) (i := i); auto. right. apply upd_h_active_same. reflexivity. }
      assert (K3 : KF s s3) by (eapply KF_trans; [exact K2|apply (Shape_KF _ _ _ S3)]).
      destruct (h_hascb (hget s2 i)).
      - destruct (callback_spec s s3 p w beh 4 i (conj I3 Q3) K3) as (G4 & T4 & _).
        + intros _ _. eapply closed_false_of_not_closing; eauto.
        + discriminate.
        + split; assumption.
      - split; [split; assumption|apply TrOK_nil; exact K3]. }
    cbn zeta in S4.
    match goal with |- context [let '(s4, e1) := ?x in _] => destruct x as [s4 e1] end.
    cbn [fst snd] in S4. destruct S4 as (G4 & T4).
    destruct (IH s4 p w beh G4) as (G5 & T5).
    destruct (run_alq f s4 beh) as [s5 e2]. cbn [fst snd] in *.
    split; [exact G5|apply TrOK_app with (s1 := s4); auto].
Qed.

Lemma Good_update_time s p w : Good s p w -> Good (update_time s) p w.
Proof.
  intros [Hinv Q]. split; [apply LInvG_update_time; exact Hinv|].
  apply QInv_fields with (s := s); auto.
Qed.

Lemma KF_update_time s : KF s (update_time s).
Proof. apply KF_hs. reflexivity. Qed.

(* uv__io_poll *)
Lemma io_poll_spec s p beh timeout :
  Good s p [] ->
  Good (fst (io_poll s beh timeout)) p [] /\
  TrOK s (snd (io_poll s beh timeout)) (fst (io_poll s beh timeout)).
Proof.
  intros G. pose proof (LInvG_io_poll s p beh timeout (proj1 G)) as IP.
  unfold io_poll in *. destruct (efd s).
  - set (s1 := set_efd (update_time s) false) in *.
    assert (G1 : Good s1 p []).
    { eapply Good_core with (s := update_time s); [apply Good_update_time; exact G| |]; reflexivity. }
    assert (K1 : KF s s1) by (apply KF_hs; reflexivity).
    assert (S2 : let r := (if wq_pending s1 then run_wq (wq (set_wqp s1 false)) (set_wq (set_wqp s1 false) []) beh
                           else (s1, [])) in
                 Good (fst r) p [] /\ TrOK s (snd r) (fst r)).
    { destruct (wq_pending s1); cbn zeta; [|split; [exact G1|apply TrOK_nil; exact K1]].
      set (s' := set_wqp s1 false).
      assert (G' : Good (set_wq s' []) p (wq s' ++ [])).
      { destruct G1 as [I1 Q1]. split.
        - apply LInvG_detach_wq. eapply LInvG_core; [|exact I1]. reflexivity.
        - apply QInv_fields with (s := s1); auto. }
      destruct (run_wq_spec (wq s') (set_wq s' []) p [] beh G') as (G2 & T2).
      split; [exact G2|]. apply TrOK_rebase with (s1 := set_wq s' []); [reflexivity|exact T2]. }
    cbn zeta in S2.
    match goal with |- context [let '(s2, e1) := ?x in _] => destruct x as [s2 e1] end.
    cbn [fst snd] in S2. destruct S2 as (G2 & T2).
    set (s3 := set_alq (set_async s2 []) (async_q s2)).
    assert (G3 : Good s3 p []).
    { destruct G2 as [I2 Q2]. split; [eapply LInvG_core; [|exact I2]; reflexivity|].
      destruct Q2. constructor; auto.
      intros j Hj. apply q_as0. cbn [async_q alq set_alq set_async s3] in Hj. simpl in Hj.
      apply in_or_app. left. exact Hj. }
    destruct (run_alq_spec (length (async_q s2)) s3 p [] beh G3) as (G4 & T4).
    destruct (run_alq (length (async_q s2)) s3 beh) as [s4 e2]. cbn [fst snd] in *.
    split; [exact G4|].
    change (vpoll s (if metrics s then 0 else timeout) :: e1 ++ e2)
      with ([vpoll s (if metrics s then 0 else timeout)] ++ (e1 ++ e2)).
    apply TrOK_app with (s1 := s); [apply TrOK_nocb; [apply KF_refl|reflexivity]|].
    apply TrOK_app with (s1 := s2); auto.
  - assert (U : Good (update_time s) p [] /\ KF s (update_time s))
      by (split; [apply Good_update_time; exact G|apply KF_update_time]).
    destruct U as (GU & KU).
    destruct (timeout =? 0); [cbn [fst snd]; split; [exact GU|apply TrOK_nocb; [exact KU|reflexivity]]|].
    destruct (timeout <? 0).
    + cbn [fst snd] in *. split; [|apply TrOK_nocb; [apply KF_hs; reflexivity|reflexivity]].
      split; [exact IP|]. apply QInv_fields with (s := s); auto. apply G.
    + destruct (metrics s).
      * destruct (timeout - (clock s - now (ts s)) <=? 0); cbn [fst snd] in *.
        -- split; [exact GU|apply TrOK_nocb; [exact KU|reflexivity]].
        -- split; [|apply TrOK_nocb; [apply KF_hs; reflexivity|reflexivity]].
           split; [exact IP|]. apply QInv_fields with (s := s); auto. apply G.
      * cbn [fst snd] in *. split; [|apply TrOK_nocb; [apply KF_hs; reflexivity|reflexivity]].
        split; [exact IP|]. apply QInv_fields with (s := s); auto. apply G.
Qed.

(* uv__run_closing_handles: the only place close callbacks come from *)
Lemma run_closing_spec l : forall s p w beh,
  Good s (l ++ p) w ->
  Good (fst (run_closing l s beh)) p w /\ TrOK s (snd (run_closing l s beh)) (fst (run_closing l s beh)).
Proof.
  induction l as [|i rest IH]; intros s p w beh G; cbn [run_closing].
  - split; [exact G|apply TrOK_nil; apply KF_refl].
  - destruct G as [Hinv Q]. pose proof Hinv as [HI _].
    assert (Hin : In i (closing s ++ (i :: rest) ++ p)).
    { apply in_or_app. right. left. reflexivity. }
    apply (hi_cl _ _ HI) in Hin. destruct Hin as (Hi & Hcl & Hcd).
    pose proof (LInvG_finish_close s i (rest ++ p) w Hinv) as I2.
    set (s1 := upd_h s i (with_closed true)) in *.
    set (s2 := handle_unref s1 i) in *.
    assert (G1 : hget s1 i = with_closed true (hget s i)) by (apply hget_upd_h_same; exact Hi).
    assert (O1 : OnlyAt s s1 i) by apply OnlyAt_upd.
    destruct (Shape_handle_unref s1 i) as (S2 & A2).
    assert (Q1 : QInv s1).
    { destruct O1 as [L1 O1].
      apply QInv_frame with (s := s) (i := i); auto.
      - intros j. destruct (Nat.eq_dec j i) as [->|Hne]; [rewrite G1; auto|rewrite O1 by exact Hne; auto].
      - intros j Hne. rewrite O1 by exact Hne. reflexivity.
      - right. rewrite G1. reflexivity. }
    assert (Q2 : QInv s2) by (apply Shape_QInv with (s := s1) (i := i); auto).
    assert (K2 : KFw s s2).
    { eapply KFw_trans; [|apply KF_KFw; apply (Shape_KF _ _ _ S2)].
      apply OnlyAt_KFw with (i := i); auto; rewrite G1; auto. }
    assert (C2 : (i < length (hs s2))%nat /\ h_closed (hget s2 i) = true).
    { destruct S2 as (L2 & _ & F2 & _). destruct (F2 i) as (_ & _ & F23).
      unfold s2. rewrite L2, F23, G1. split; [unfold s1; rewrite len_upd_h; exact Hi|reflexivity]. }
    assert (E2 : forall j, (j < length (hs s2))%nat -> h_closed (hget s2 j) = true ->
                 ((j < length (hs s))%nat /\ h_closed (hget s j) = true) \/ (6%nat = 6%nat /\ j = i)).
    { intros j Hj Hc. destruct (Nat.eq_dec j i) as [->|Hne]; [right; auto|left].
      destruct S2 as (L2 & _ & F2 & _). destruct (F2 j) as (_ & _ & F23).
      destruct O1 as [L1 O1]. unfold s2 in Hc, Hj. rewrite F23, O1 in Hc by exact Hne. split; [|exact Hc].
      rewrite L2, L1 in Hj. exact Hj. }
    destruct (callback_gen s s2 (rest ++ p) w beh 6 i (conj I2 Q2) K2 E2) as (G3 & T3 & _).
    { intros _ _. exact Hcd. }
    { intros _. exact C2. }
    destruct (callback s2 beh 6 i) as [s3 e1]. cbn [fst snd] in *.
    destruct (IH s3 p w beh G3) as (G4 & T4).
    destruct (run_closing rest s3 beh) as [s4 e2]. cbn [fst snd] in *.
    split; [exact G4|apply TrOK_app with (s1 := s3); auto].
Qed.

(* uv__run_timers *)
Lemma l_collect_Q fuel : forall s p w, Good s p w -> QInv (l_collect fuel s) /\ KF s (l_collect fuel s).
Proof.
  induction fuel as [|f IH]; intros s p w G; cbn [l_collect]; [split; [apply G|apply KF_refl]|].
  destruct (heap_min (hp (ts s))) as [k|] eqn:Em; [|split; [apply G|apply KF_refl]].
  destruct (Z.ltb_spec (now (ts s)) (k_timeout k)); [split; [apply G|apply KF_refl]|].
  destruct G as [Hinv Q]. pose proof Hinv as [HI _]. pose proof (hi_ti _ _ HI) as T.
  assert (Hk : In k (els (ts s))).
  { unfold heap_min in Em. destruct (h_tree (hp (ts s))); simpl in *; [discriminate|].
    inversion Em; subst. left; reflexivity. }
  destruct (ti_e1 _ T k Hk) as (Hit & Ha & _).
  assert (Hi : (k_id k < length (hs s))%nat) by (rewrite <- (hi_len _ _ HI); exact Hit).
  destruct (hi_sync _ _ HI (k_id k) Hi) as (S1 & _). rewrite Ha in S1. symmetry in S1.
  apply andb_prop in S1. destruct S1 as [Kt Hact].
  pose proof (Shape_l_timer_stop s p w (k_id k) Hinv Hi) as S.
  set (s1 := l_timer_stop s (k_id k)) in *.
  assert (Q1 : QInv s1).
  { apply Shape_QInv with (s := s) (i := k_id k); auto. left. apply kind_not_watcher. left.
    apply is_timer_kind. exact Kt. }
  set (s2 := set_ts s1 (mkT (now (ts s1)) (counter (ts s1)) (hp (ts s1)) (tms (ts s1)) (ready (ts s1) ++ [k_id k]))).
  assert (I2 : LInvG s2 p w).
  { pose proof (LInvG_l_collect 1 s p w Hinv) as X. cbn [l_collect] in X. rewrite Em in X.
    destruct (Z.ltb_spec (now (ts s)) (k_timeout k)); [lia|]. exact X. }
  assert (Q2 : QInv s2).
  { destruct Q1. constructor; auto.
    intros j Hj. cbn [ready ts set_ts s2] in Hj. apply in_app_or in Hj. destruct Hj as [Hj|[<-|[]]].
    - apply q_rd0. exact Hj.
    - change (hget s2 (k_id k)) with (hget s1 (k_id k)).
      destruct S as (_ & _ & F & _). destruct (F (k_id k)) as (_ & F2 & _). rewrite F2.
      destruct (h_closing (hget s (k_id k))) eqn:E; [|reflexivity].
      pose proof (LInvG_closing_inactive s p w (k_id k) Hinv E). congruence. }
  destruct (IH s2 p w (conj I2 Q2)) as (Q3 & K3).
  split; [exact Q3|].
  eapply KF_trans; [apply (Shape_KF _ _ _ S)|]. eapply KF_trans; [apply KF_hs; reflexivity|exact K3].
Qed.

Lemma l_fire_spec fuel : forall s p w beh,
  Good s p w ->
  Good (fst (l_fire fuel s beh)) p w /\ TrOK s (snd (l_fire fuel s beh)) (fst (l_fire fuel s beh)).
Proof.
  induction fuel as [|f IH]; intros s p w beh G; cbn [l_fire].
  - split; [exact G|apply TrOK_nil; apply KF_refl].
  - destruct (ready (ts s)) as [|i rest] eqn:Er; [split; [exact G|apply TrOK_nil; apply KF_refl]|].
    destruct G as [Hinv Q]. pose proof Hinv as [HI _]. pose proof (hi_ti _ _ HI) as T.
    assert (Hin : In i (ready (ts s))) by (rewrite Er; left; reflexivity).
    destruct (ti_r _ T i Hin) as (Hit & _).
    assert (Hi : (i < length (hs s))%nat) by (rewrite <- (hi_len _ _ HI); exact Hit).
    pose proof (hi_ready _ _ HI i Hin) as Kt.
    pose proof (q_rd _ Q i Hin) as Hc.
    pose proof (LInvG_pop_ready s p w i rest Hinv Er) as I0.
    pose proof (LInvG_fire_step s p w i rest Hinv Er) as I1.
    set (s0 := set_ts s (mkT (now (ts s)) (counter (ts s)) (hp (ts s)) (tms (ts s)) rest)) in *.
    assert (Q0 : QInv s0).
    { destruct Q. constructor; auto. intros j Hj. apply q_rd0. rewrite Er. right. exact Hj. }
    pose proof (Shape_l_timer_again s0 p w i I0 Hi) as S1.
    set (s1 := fst (l_timer_again s0 i)) in *.
    assert (Q1 : QInv s1).
    { apply Shape_QInv with (s := s0) (i := i); auto. left. apply kind_not_watcher. left.
      apply is_timer_kind. exact Kt. }
    assert (K1 : KF s s1) by (eapply KF_trans; [apply KF_hs; reflexivity|apply (Shape_KF _ _ _ S1)]).
    destruct (callback_spec s s1 p w beh 0 i (conj I1 Q1) K1) as (G2 & T2 & _).
    { intros _ _. eapply closed_false_of_not_closing; eauto. }
    { discriminate. }
    destruct (callback s1 beh 0 i) as [s2 e1]. cbn [fst snd] in *.
    destruct (IH s2 p w beh G2) as (G3 & T3).
    destruct (l_fire f s2 beh) as [s3 e2]. cbn [fst snd] in *.
    split; [exact G3|apply TrOK_app with (s1 := s2); auto].
Qed.

Lemma l_run_timers_spec s p w beh :
  Good s p w ->
  Good (fst (l_run_timers s beh)) p w /\ TrOK s (snd (l_run_timers s beh)) (fst (l_run_timers s beh)).
Proof.
  intros G. unfold l_run_timers.
  set (n := S (N.to_nat (h_n (hp (ts s))))).
  destruct (l_collect_Q n s p w G) as (Q1 & K1).
  pose proof (LInvG_l_collect n s p w (proj1 G)) as I1.
  destruct (l_fire_spec (length (ready (ts (l_collect n s)))) (l_collect n s) p w beh (conj I1 Q1)) as (G2 & T2).
  split; [exact G2|].
  replace (snd (l_fire (length (ready (ts (l_collect n s)))) (l_collect n s) beh))
    with ([] ++ snd (l_fire (length (ready (ts (l_collect n s)))) (l_collect n s) beh)) by reflexivity.
  apply TrOK_app with (s1 := l_collect n s); [apply TrOK_nil; exact K1|exact T2].
Qed.

(* one iteration of uv_run *)
Lemma iteration_spec s beh mode :
  Good s [] [] ->
  Good (fst (iteration s beh mode)) [] [] /\
  TrOK s (snd (iteration s beh mode)) (fst (iteration s beh mode)).
Proof.
  intros G. unfold iteration.
  destruct (run_watchers_spec s [] [] beh KIdle 1 G) as (G1 & T1); auto; try discriminate.
  destruct (run_watchers s beh KIdle 1) as [s1 e1]. cbn [fst snd] in *.
  destruct (run_watchers_spec s1 [] [] beh KPrepare 2 G1) as (G2 & T2); auto; try discriminate.
  destruct (run_watchers s1 beh KPrepare 2) as [s2 e2]. cbn [fst snd] in *.
  set (timeout := if (Nat.eqb mode 1 && match idle_q s with [] => true | _ => false end) || Nat.eqb mode 0
                  then backend_timeout s2 else 0).
  assert (G2' : Good (set_dirty s2 false) [] []) by (eapply Good_core; [exact G2| |]; reflexivity).
  destruct (io_poll_spec (set_dirty s2 false) [] beh timeout G2') as (G3 & T3).
  destruct (io_poll (set_dirty s2 false) beh timeout) as [s3 e3]. cbn [fst snd] in *.
  destruct (run_watchers_spec s3 [] [] beh KCheck 3 G3) as (G4 & T4); auto; try discriminate.
  destruct (run_watchers s3 beh KCheck 3) as [s4 e4]. cbn [fst snd] in *.
  assert (G4' : Good (set_closing s4 []) (closing s4 ++ []) []).
  { destruct G4 as [I4 Q4]. split; [apply LInvG_detach_closing; exact I4|apply set_closing_QInv; exact Q4]. }
  destruct (run_closing_spec (closing s4) (set_closing s4 []) [] [] beh G4') as (G5 & T5).
  destruct (run_closing (closing s4) (set_closing s4 []) beh) as [s5 e5]. cbn [fst snd] in *.
  destruct (l_run_timers_spec (update_time s5) [] [] beh (Good_update_time _ _ _ G5)) as (G7 & T7).
  destruct (l_run_timers (update_time s5) beh) as [s7 e6]. cbn [fst snd] in *.
  split; [exact G7|].
  apply TrOK_app with (s1 := s1); auto.
  apply TrOK_app with (s1 := s2); auto.
  apply TrOK_app with (s1 := s3); auto.
  apply TrOK_app with (s1 := s4); auto.
  apply TrOK_app with (s1 := s5); auto.
Qed.

Lemma run_loop_spec fuel : forall s beh mode,
  Good s [] [] ->
  Good (fst (fst (run_loop fuel s beh mode))) [] [] /\
  TrOK s (snd (fst (run_loop fuel s beh mode))) (fst (fst (run_loop fuel s beh mode))).
Proof.
  induction fuel as [|f IH]; intros s beh mode G; cbn [run_loop].
  - cbn [fst snd]. split; [exact G|apply TrOK_nil; apply KF_refl].
  - destruct (iteration_spec s beh mode G) as (G1 & T1).
    destruct (iteration s beh mode) as [s1 e1]. cbn [fst snd] in *.
    destruct (negb (Nat.eqb mode 0)); [cbn [fst snd]; auto|].
    destruct (loop_alive s1 && negb (stop_flag s1)); [|cbn [fst snd]; auto].
    destruct (IH s1 beh mode G1) as (G2 & T2).
    destruct (run_loop f s1 beh mode) as [[s2 e2] r2]. cbn [fst snd] in *.
    split; [exact G2|apply TrOK_app with (s1 := s1); auto].
Qed.

Lemma vrun_no_cb r : forallb (fun e => negb (is_cb e)) [VRun r] = true.
Proof. reflexivity. Qed.

Lemma uv_run_spec fuel s beh mode :
  Good s [] [] ->
  Good (fst (uv_run fuel s beh mode)) [] [] /\
  TrOK s (snd (uv_run fuel s beh mode)) (fst (uv_run fuel s beh mode)).
Proof.
  intros G. rewrite uv_run_alt_eq. unfold uv_run_alt.
  set (s0 := if loop_alive s then s else update_time s).
  assert (G0 : Good s0 [] []) by (unfold s0; destruct (loop_alive s); [exact G|apply Good_update_time; exact G]).
  assert (K0 : KF s s0) by (unfold s0; destruct (loop_alive s); [apply KF_refl|apply KF_update_time]).
  assert (S1 : let r := (if Nat.eqb mode 0 && loop_alive s && negb (stop_flag s0)
                         then l_run_timers (update_time s0) beh else (s0, [])) in
               Good (fst r) [] [] /\ TrOK s0 (snd r) (fst r)).
  { destruct (Nat.eqb mode 0 && loop_alive s && negb (stop_flag s0)); cbn zeta.
    - destruct (l_run_timers_spec (update_time s0) [] [] beh (Good_update_time _ _ _ G0)) as (A & B).
      split; [exact A|]. apply TrOK_rebase with (s1 := update_time s0); [reflexivity|exact B].
    - split; [exact G0|apply TrOK_nil; apply KF_refl]. }
  cbn zeta in S1.
  match goal with |- context [let '(s1, e0) := ?x in _] => destruct x as [s1 e0] end.
  cbn [fst snd] in S1. destruct S1 as (G1 & T1).
  set (rr := if Nat.eqb mode 0 && loop_alive s && negb (stop_flag s0) && stop_flag s1
             then loop_alive s1 else loop_alive s).
  assert (S2 : let r := (if loop_alive s && negb (stop_flag s1) then run_loop fuel s1 beh mode
                         else (s1, [], rr)) in
               Good (fst (fst r)) [] [] /\ TrOK s1 (snd (fst r)) (fst (fst r))).
  { destruct (loop_alive s && negb (stop_flag s1)); cbn zeta.
    - apply run_loop_spec. exact G1.
    - cbn [fst snd]. split; [exact G1|apply TrOK_nil; apply KF_refl]. }
  cbn zeta in S2.
  destruct (if loop_alive s && negb (stop_flag s1) then run_loop fuel s1 beh mode
            else (s1, [], rr)) as [[s2 e1] r'].
  cbn [fst snd] in *. destruct S2 as (G2 & T2).
  split.
  - eapply Good_core; [exact G2| |]; reflexivity.
  - apply TrOK_app with (s1 := s1); [|apply TrOK_app with (s1 := s2); [exact T2|]].
    + apply TrOK_rebase with (s1 := s0); [|exact T1].
      unfold s0. destruct (loop_alive s); reflexivity.
    + apply TrOK_nocb; [apply KF_hs; reflexivity|reflexivity].
Qed.

Lemma lrun_spec os : forall s beh,
  Good s [] [] ->
  Good (fst (lrun s os beh)) [] [] /\ TrOK s (snd (lrun s os beh)) (fst (lrun s os beh)).
Proof.
  induction os as [|o os IH]; intros s beh G; [split; [exact G|apply TrOK_nil; apply KF_refl]|].
  assert (Hgen : Good (fst (let '(s1, e1) := lapi s o in let '(s2, e2) := lrun s1 os beh in (s2, e1 ++ e2))) [] [] /\
                 TrOK s (snd (let '(s1, e1) := lapi s o in let '(s2, e2) := lrun s1 os beh in (s2, e1 ++ e2)))
                        (fst (let '(s1, e1) := lapi s o in let '(s2, e2) := lrun s1 os beh in (s2, e1 ++ e2)))).
  { destruct G as [Hinv Q]. pose proof (LInvG_lapi s [] [] o Hinv) as I1.
    destruct (lapi_spec s [] [] o Hinv Q) as (Q1 & K1). pose proof (lapi_no_cb s o) as N1.
    destruct (lapi s o) as [s1 e1]. cbn [fst snd] in *.
    destruct (IH s1 beh (conj I1 Q1)) as (G2 & T2).
    destruct (lrun s1 os beh) as [s2 e2]. cbn [fst snd] in *.
    split; [exact G2|apply TrOK_app with (s1 := s1); [apply TrOK_nocb; auto|exact T2]]. }
  destruct o; try exact Hgen; cbn [lrun].
  - (* LRun *)
    destruct (uv_run_spec run_fuel s beh mode G) as (G1 & T1).
    destruct (uv_run run_fuel s beh mode) as [s1 e1]. cbn [fst snd] in *.
    destruct (IH s1 beh G1) as (G2 & T2).
    destruct (lrun s1 os beh) as [s2 e2]. cbn [fst snd] in *.
    split; [exact G2|].
    change (VRunStart mode (loop_alive s) :: e1 ++ e2) with ([VRunStart mode (loop_alive s)] ++ (e1 ++ e2)).
    apply TrOK_app with (s1 := s); [apply TrOK_nocb; [apply KF_refl|reflexivity]|].
    apply TrOK_app with (s1 := s1); auto.
  - (* LLoopClose *)
    destruct (IH s beh G) as (G2 & T2).
    destruct (lrun s os beh) as [s2 e2]. cbn [fst snd] in *.
    split; [exact G2|].
    change (VLoopClose (loop_close_code s) :: e2) with ([VLoopClose (loop_close_code s)] ++ e2).
    apply TrOK_app with (s1 := s); [apply TrOK_nocb; [apply KF_refl|reflexivity]|exact T2].
Qed.

Lemma Good_init t0 m : Good (linit t0 m) [] [].
Proof. split; [apply LInvG_init|apply QInv_init]. Qed.

(* ------------------------------------------------------------------ *)
(* the clauses of C02 on the loop-core model                          *)
(* ------------------------------------------------------------------ *)
Definition ltrace (t0 : Z) (m : bool) (os : list lop) (beh : nat -> list lop) : list levent :=
  snd (lrun (linit t0 m) os beh).
Definition lfinal (t0 : Z) (m : bool) (os : list lop) (beh : nat -> list lop) : lstate :=
  fst (lrun (linit t0 m) os beh).

Lemma ltrace_ok t0 m os beh :
  Good (lfinal t0 m os beh) [] [] /\ TrOK (linit t0 m) (ltrace t0 m os beh) (lfinal t0 m os beh).
Proof. apply lrun_spec. apply Good_init. Qed.

(* uv_close emits nothing at all, in particular no callback *)
Theorem close_not_reentrant s i : snd (lapi s (LClose i)) = [].
Proof. cbn [lapi]. destruct (usable s i && negb (h_closing (hget s i))); reflexivity. Qed.

(* no API call runs a callback *)
Theorem api_not_reentrant s o : forallb (fun e => negb (is_cb e)) (snd (lapi s o)) = true.
Proof. apply lapi_no_cb. Qed.

(* no callback for handle i (timer/idle/prepare/check/async callback, or a
   second close callback) after its close callback *)
Theorem nothing_after_close_cb t0 m os beh pre i nw post tag nw' :
  ltrace t0 m os beh = pre ++ VCb 6 i nw :: post -> tag <> 5%nat -> ~ In (VCb tag i nw') post.
Proof.
  intros E Ht Hin. destruct (ltrace_ok t0 m os beh) as (_ & (_ & _ & _ & _ & D)).
  apply in_split in Hin. destruct Hin as (p1 & p2 & ->).
  apply (D (pre ++ VCb 6 i nw :: p1) tag i nw' p2) with (nw' := nw); auto.
  - rewrite E, <- app_assoc. reflexivity.
  - apply in_or_app. right. left. reflexivity.
Qed.

Theorem close_cb_at_most_once t0 m os beh pre i nw post nw' :
  ltrace t0 m os beh = pre ++ VCb 6 i nw :: post ->
  ~ In (VCb 6 i nw') pre /\ ~ In (VCb 6 i nw') post.
Proof.
  intros E. split.
  - destruct (ltrace_ok t0 m os beh) as (_ & (_ & _ & _ & _ & D)).
    apply (D pre 6%nat i nw post E). discriminate.
  - apply (nothing_after_close_cb t0 m os beh pre i nw post 6%nat nw' E). discriminate.
Qed.

(* the close callback of i is in the trace exactly when i is CLOSED at the end *)
Theorem close_cb_iff_closed t0 m os beh i :
  (exists nw, In (VCb 6 i nw) (ltrace t0 m os beh)) <->
  ((i < length (hs (lfinal t0 m os beh)))%nat /\ h_closed (hget (lfinal t0 m os beh) i) = true).
Proof.
  destruct (ltrace_ok t0 m os beh) as (_ & (_ & X & _ & C & _)). split.
  - intros (nw & H). apply (C i nw H).
  - intros (Hi & Hc). destruct (X i Hi Hc) as [(H & _)|H]; [|exact H]. cbn in H. lia.
Qed.

(* close callbacks come from uv__run_closing_handles only: no other phase of
   [iteration] (nor the initial timer pass of uv_run, nor an API call) emits
   a callback with tag 6 *)
Definition no_close (evs : list levent) : Prop := forall i nw, ~ In (VCb 6 i nw) evs.

Lemma lapis_no_cb os : forall s, forallb (fun e => negb (is_cb e)) (snd (lapis s os)) = true.
Proof.
  induction os as [|o os IH]; intros s; cbn [lapis]; [reflexivity|].
  pose proof (lapi_no_cb s o) as N. destruct (lapi s o) as [s1 e1]. specialize (IH s1).
  destruct (lapis s1 os) as [s2 e2]. cbn [snd] in *. rewrite forallb_app, N, IH. reflexivity.
Qed.

Lemma no_close_nocb evs : forallb (fun e => negb (is_cb e)) evs = true -> no_close evs.
Proof. intros N i nw H. rewrite forallb_forall in N. specialize (N _ H). discriminate. Qed.

Lemma no_close_app a b : no_close a -> no_close b -> no_close (a ++ b).
Proof. intros A B i nw H. apply in_app_or in H. destruct H; [eapply A|eapply B]; eauto. Qed.

Lemma callback_no_close s beh tag j : tag <> 6%nat -> no_close (snd (callback s beh tag j)).
Proof.
  intros T6. unfold callback.
  match goal with |- context [lapis ?a ?o] => pose proof (lapis_no_cb o a) as N; destruct (lapis a o) as [s3 e1] end.
  cbn [snd] in *. intros i nw [H|[H|H]]; [inversion H; congruence|discriminate|].
  eapply no_close_nocb; eauto.
Qed.

Lemma run_lq_no_close fuel : forall s beh k tag, tag <> 6%nat -> no_close (snd (run_lq fuel s beh k tag)).
Proof.
  induction fuel as [|f IH]; intros s beh k tag T6; cbn [run_lq]; [intros i nw []|].
  destruct (lq s) as [|j rest]; [intros i nw []|].
  match goal with |- context [callback ?a beh tag j] =>
    pose proof (callback_no_close a beh tag j T6) as N; destruct (callback a beh tag j) as [s3 e1] end.
  specialize (IH s3 beh k tag T6). destruct (run_lq f s3 beh k tag) as [s4 e2]. cbn [snd] in *.
  apply no_close_app; auto.
Qed.

Lemma run_wq_no_close l : forall s beh, no_close (snd (run_wq l s beh)).
Proof.
  induction l as [|x rest IH]; intros s beh; cbn [run_wq]; [intros i nw []|].
  match goal with |- context [if ?c then callback ?a beh 5 x else ?b] =>
    assert (N : no_close (snd (if c then callback a beh 5 x else b)))
      by (destruct c; [apply callback_no_close; discriminate|intros i nw []]);
    destruct (if c then callback a beh 5 x else b) as [s3 e1] end.
  specialize (IH s3 beh). destruct (run_wq rest s3 beh) as [s4 e2]. cbn [snd] in *.
  apply no_close_app; auto.
Qed.

Lemma run_alq_no_close fuel : forall s beh, no_close (snd (run_alq fuel s beh)).
Proof.
  induction fuel as [|f IH]; intros s beh; cbn [run_alq]; [intros i nw []|].
  destruct (alq s) as [|j rest]; [intros i nw []|].
  match goal with |- context [let '(s4, e1) := ?x in _] =>
    assert (N : no_close (snd x));
    [|destruct x as [s4 e1]] end.
  { repeat match goal with |- context [if ?c then _ else _] => destruct c end;
      try (intros i nw []); apply callback_no_close; discriminate. }
  specialize (IH s4 beh). destruct (run_alq f s4 beh) as [s5 e2]. cbn [snd] in *.
  apply no_close_app; auto.
Qed.

Lemma no_close_single e : is_cb e = false -> no_close [e].
Proof. intros H i nw [E|[]]. subst. discriminate. Qed.

Lemma io_poll_no_close s beh timeout : no_close (snd (io_poll s beh timeout)).
Proof.
  unfold io_poll. destruct (efd s).
  - match goal with |- context [let '(s2, e1) := ?x in _] =>
      assert (N : no_close (snd x)); [|destruct x as [s2 e1]] end.
    { match goal with |- context [if ?c then _ else _] => destruct c end;
        [apply run_wq_no_close|intros i nw []]. }
    match goal with |- context [run_alq ?n ?a beh] =>
      pose proof (run_alq_no_close n a beh) as N2; destruct (run_alq n a beh) as [s4 e2] end.
    cbn [snd] in *. intros i nw [H|H]; [discriminate|].
    apply (no_close_app e1 e2 N N2 i nw H).
  - destruct (timeout =? 0); [apply no_close_single; reflexivity|].
    destruct (timeout <? 0).
    + cbn [snd]. intros i nw [H|[H|[]]]; discriminate.
    + destruct (metrics s); [destruct (timeout - (clock s - now (ts s)) <=? 0)|];
        apply no_close_single; reflexivity.
Qed.

Lemma l_fire_no_close fuel : forall s beh, no_close (snd (l_fire fuel s beh)).
Proof.
  induction fuel as [|f IH]; intros s beh; cbn [l_fire]; [intros i nw []|].
  destruct (ready (ts s)) as [|j rest]; [intros i nw []|].
  match goal with |- context [callback ?a beh 0 j] =>
    pose proof (callback_no_close a beh 0%nat j ltac:(discriminate)) as N; destruct (callback a beh 0 j) as [s2 e1] end.
  specialize (IH s2 beh). destruct (l_fire f s2 beh) as [s3 e2]. cbn [snd] in *.
  apply no_close_app; auto.
Qed.

Theorem close_cb_in_closing_phase_only s beh :
  (forall o, no_close (snd (lapi s o))) /\
  (forall k tag, tag <> 6%nat -> no_close (snd (run_watchers s beh k tag))) /\
  (forall timeout, no_close (snd (io_poll s beh timeout))) /\
  no_close (snd (l_run_timers s beh)).
Proof.
  splits.
  - intros o. apply no_close_nocb. apply lapi_no_cb.
  - intros k tag T6. unfold run_watchers. apply run_lq_no_close. exact T6.
  - apply io_poll_no_close.
  - unfold l_run_timers. apply l_fire_no_close.
Qed.

(* the run result: uv_run returned 0 *)
Lemma run_loop_result fuel : forall s beh mode,
  snd (run_loop fuel s beh mode) = loop_alive (fst (fst (run_loop fuel s beh mode))).
Proof.
  induction fuel as [|f IH]; intros s beh mode; cbn [run_loop]; [reflexivity|].
  destruct (iteration s beh mode) as [s1 e1].
  destruct (negb (Nat.eqb mode 0)); [reflexivity|].
  destruct (loop_alive s1 && negb (stop_flag s1)); [|reflexivity].
  specialize (IH s1 beh mode). destruct (run_loop f s1 beh mode) as [[s2 e2] r2]. exact IH.
Qed.

Lemma uv_run_result fuel s beh mode :
  exists pre r, snd (uv_run fuel s beh mode) = pre ++ [VRun r] /\
                (r = false -> loop_alive (fst (uv_run fuel s beh mode)) = false).
Proof.
  rewrite uv_run_alt_eq. unfold uv_run_alt.
  set (s0 := if loop_alive s then s else update_time s).
  destruct (if Nat.eqb mode 0 && loop_alive s && negb (stop_flag s0)
            then l_run_timers (update_time s0) beh else (s0, [])) as [s1 e0] eqn:E1.
  destruct (loop_alive s && negb (stop_flag s1)) eqn:E2.
  - pose proof (run_loop_result fuel s1 beh mode) as R.
    destruct (run_loop fuel s1 beh mode) as [[s2 e1] r']. cbn [fst snd] in *.
    exists (e0 ++ e1), r'. split; [rewrite app_assoc; reflexivity|]. intros ->. symmetry. exact R.
  - cbn [fst snd]. eexists (e0 ++ []), _. split; [rewrite app_assoc; reflexivity|].
    change (loop_alive (set_stop s1 false)) with (loop_alive s1).
    destruct (Nat.eqb mode 0 && loop_alive s && negb (stop_flag s0) && stop_flag s1) eqn:Ec.
    + intros Ha. exact Ha.
    + intros Ha. rewrite Ha in *. cbn in E1. unfold s0 in E1. rewrite Ha in E1.
      rewrite andb_false_r in E1. cbn in E1. inversion E1; subst s1. exact Ha.
Qed.

Lemma lrun_app a : forall s b beh,
  lrun s (a ++ b) beh =
  (fst (lrun (fst (lrun s a beh)) b beh), snd (lrun s a beh) ++ snd (lrun (fst (lrun s a beh)) b beh)).
Proof.
  induction a as [|o a IH]; intros s b beh.
  - cbn [app lrun fst snd]. destruct (lrun s b beh); reflexivity.
  - assert (Hgen : forall s1 e1, lapi s o = (s1, e1) ->
        (let '(s1, e1) := lapi s o in let '(s2, e2) := lrun s1 (a ++ b) beh in (s2, e1 ++ e2)) =
        (fst (lrun (fst (let '(s1, e1) := lapi s o in let '(s2, e2) := lrun s1 a beh in (s2, e1 ++ e2))) b beh),
         snd (let '(s1, e1) := lapi s o in let '(s2, e2) := lrun s1 a beh in (s2, e1 ++ e2)) ++
         snd (lrun (fst (let '(s1, e1) := lapi s o in let '(s2, e2) := lrun s1 a beh in (s2, e1 ++ e2))) b beh))).
    { intros s1 e1 E. rewrite E, (IH s1 b beh). destruct (lrun s1 a beh) as [s2 e2]. cbn [fst snd].
      rewrite app_assoc. reflexivity. }
    destruct o; cbn [app lrun];
      try (destruct (lapi s _) as [s1 e1] eqn:E; apply (Hgen s1 e1); reflexivity).
    + destruct (uv_run run_fuel s beh mode) as [s1 e1]. rewrite (IH s1 b beh).
      destruct (lrun s1 a beh) as [s2 e2]. cbn [fst snd]. rewrite app_assoc. reflexivity.
    + rewrite (IH s b beh). destruct (lrun s a beh) as [s2 e2]. cbn [fst snd]. reflexivity.
Qed.

(* if the final uv_run returned 0, every handle on which uv_close was called
   (CLOSING set) has had its close callback *)
Theorem close_cb_eventually t0 m os md beh pre i :
  let s' := lfinal t0 m (os ++ [LRun md]) beh in
  ltrace t0 m (os ++ [LRun md]) beh = pre ++ [VRun false] ->
  (i < length (hs s'))%nat -> h_closing (hget s' i) = true ->
  exists nw, In (VCb 6 i nw) (ltrace t0 m (os ++ [LRun md]) beh).
Proof.
  intros s' E Hi Hc.
  destruct (ltrace_ok t0 m (os ++ [LRun md]) beh) as ((Hinv & _) & _). fold s' in Hinv.
  apply close_cb_iff_closed. fold s'. split; [exact Hi|].
  (* the loop is not alive at the end: nothing is on the closing list *)
  assert (Ha : loop_alive s' = false).
  { unfold s', lfinal in *. unfold ltrace in E. rewrite lrun_app in *. cbn [fst snd] in *.
    set (s1 := fst (lrun (linit t0 m) os beh)) in *.
    cbn [lrun] in *.
    destruct (uv_run_result run_fuel s1 beh md) as (p & r & Er & Hr).
    destruct (uv_run run_fuel s1 beh md) as [s2 e2]. cbn [fst snd] in *.
    apply Hr. rewrite Er in E. rewrite app_nil_r in E.
    change (VRunStart md (loop_alive s1) :: p ++ [VRun r]) with ((VRunStart md (loop_alive s1) :: p) ++ [VRun r]) in E.
    rewrite app_assoc in E. apply app_inj_tail in E. destruct E as (_ & E). inversion E. reflexivity. }
  unfold loop_alive in Ha. apply orb_false_iff in Ha. destruct Ha as (_ & Ha).
  apply negb_false_iff in Ha.
  destruct (closing s') eqn:Ecl; [|discriminate].
  destruct Hinv as [HI _].
  destruct (h_closed (hget s' i)) eqn:Ed; [reflexivity|].
  assert (Hin : In i (closing s' ++ [])) by (apply (hi_cl _ _ HI); auto).
  rewrite Ecl in Hin. destruct Hin.
Qed.

(* LClose sets UV_HANDLE_CLOSING (and the flag is what [close_cb_eventually] asks for) *)
Theorem close_sets_closing s p w i :
  LInvG s p w -> usable s i = true -> h_closing (hget (fst (lapi s (LClose i))) i) = true.
Proof.
  intros Hinv U. cbn [lapi]. rewrite U. destruct (h_closing (hget s i)) eqn:Ec; cbn [negb andb fst]; [exact Ec|].
  apply usable_facts in U. destruct U as [Hi Hd].
  pose proof (LInvG_l_close s p w i Hi Hd Hinv) as [HI _].
  assert (Hin : In i (closing (l_close s i) ++ p)).
  { unfold l_close. rewrite Ec. cbn [closing set_closing]. left. reflexivity. }
  apply (hi_cl _ _ HI) in Hin. apply Hin.
Qed.

(* the hypotheses of the theorems above are satisfiable: a script with all
   five kinds, closes from outside and from inside callbacks *)
Example loopcore_example :
  let os := [LInit KTimer true; LInit KIdle true; LInit KAsync true; LInit KCheck true; LInit KPrepare true;
             LTStart 0 (Some 1%nat) 0 0; LStart 1 true; LStart 3 true; LStart 4 true; LSend 2;
             LClose 4; LRun 0] in
  let beh := fun k => match k with O => [LClose 1] | 1%nat => [LClose 0; LClose 2] | 2%nat => [LClose 3] | _ => [] end in
  exists pre, ltrace 0 false os beh = pre ++ [VRun false] /\
  forall i, (i < 5)%nat -> exists nw, In (VCb 6 i nw) (ltrace 0 false os beh).
Proof.
  cbn zeta. eexists. split.
  - vm_compute. match goal with |- ?l = _ => let x := eval vm_compute in (removelast l) in instantiate (1 := x) end.
    reflexivity.
  - intros i Hi. vm_compute.
    destruct i as [|[|[|[|[|i]]]]]; try lia; eexists; simpl; tauto.
Qed.
