(* C03, part 2: what every step of the loop preserves.  [core] collects the
   fields the blocking rules, the clock and uv_stop depend on; [Step] is the
   preorder "s' is reached from s by loop steps": callbacks are numbered
   consecutively, stop_flag is never cleared, the clock never goes back,
   loop time follows the clock. *)
From UV Require Import Lib.Base Model.Heap Model.Timer Model.LoopCore Proofs.C03Base.

Local Open Scope Z_scope.

Definition core (s : lstate) : nat * bool * Z * bool * Z :=
  (cbcount s, stop_flag s, clock s, metrics s, now (ts s)).

(* ---- timers keep loop time ---- *)
Lemma now_timer_stop s i : now (timer_stop s i) = now s.
Proof. unfold timer_stop. destruct (t_active (get s i)); reflexivity. Qed.

Lemma now_timer_start s i cb t r : now (fst (timer_start s i cb t r)) = now s.
Proof.
  unfold timer_start. destruct cb; [|reflexivity].
  destruct (t_closing (get s i)); [reflexivity|]. cbn [fst set_tm now]. apply now_timer_stop.
Qed.

Lemma now_timer_again s i : now (fst (timer_again s i)) = now s.
Proof.
  unfold timer_again. destruct (t_cb (get s i)); [|reflexivity].
  destruct (t_repeat (get s i) =? 0); [reflexivity|]. cbn [fst].
  rewrite now_timer_start. apply now_timer_stop.
Qed.

Lemma now_timer_close s i : now (timer_close s i) = now s.
Proof. unfold timer_close. cbn [set_tm now]. apply now_timer_stop. Qed.

(* ---- primitives keep the core ---- *)
Lemma core_upd_h s i f : core (upd_h s i f) = core s.
Proof. reflexivity. Qed.

Lemma core_handle_start s i : core (handle_start s i) = core s.
Proof. unfold handle_start. repeat break1; reflexivity. Qed.

Lemma core_handle_stop s i : core (handle_stop s i) = core s.
Proof. unfold handle_stop. repeat break1; reflexivity. Qed.

Lemma core_handle_ref s i : core (handle_ref s i) = core s.
Proof. unfold handle_ref. repeat break1; reflexivity. Qed.

Lemma core_handle_unref s i : core (handle_unref s i) = core s.
Proof. unfold handle_unref. repeat break1; reflexivity. Qed.

Lemma core_handle_init s k : core (handle_init s k) = core s.
Proof. reflexivity. Qed.

Lemma core_wq_set s k v : core (wq_set s k v) = core s.
Proof. destruct k; reflexivity. Qed.

Lemma core_sync_timer_active s i : core (sync_timer_active s i) = core s.
Proof.
  unfold sync_timer_active. destruct (t_active _);
    [apply core_handle_start|apply core_handle_stop].
Qed.

Lemma core_set_ts s v : now v = now (ts s) -> core (set_ts s v) = core s.
Proof. intros H. unfold core. lcbn. rewrite H. reflexivity. Qed.

Lemma core_l_timer_start s i cb t r : core (fst (l_timer_start s i cb t r)) = core s.
Proof.
  unfold l_timer_start.
  pose proof (now_timer_start (ts s) i cb t r) as N.
  destruct (timer_start (ts s) i cb t r) as [ts' c]. cbn [fst] in *.
  rewrite core_sync_timer_active.
  destruct (c =? 0).
  - rewrite core_set_ts.
    + apply core_handle_stop.
    + rewrite N. pose proof (core_handle_stop s i) as C. unfold core in C.
      inversion C. reflexivity.
  - apply core_set_ts. exact N.
Qed.

Lemma core_l_timer_stop s i : core (l_timer_stop s i) = core s.
Proof.
  unfold l_timer_stop. rewrite core_sync_timer_active.
  apply core_set_ts. apply now_timer_stop.
Qed.

Lemma core_l_timer_again s i : core (fst (l_timer_again s i)) = core s.
Proof.
  unfold l_timer_again.
  pose proof (now_timer_again (ts s) i) as N.
  destruct (timer_again (ts s) i) as [ts' c]. cbn [fst] in *.
  rewrite core_sync_timer_active.
  destruct ((c =? 0) && negb (t_repeat (get (ts s) i) =? 0)).
  - rewrite core_set_ts.
    + apply core_handle_stop.
    + rewrite N. pose proof (core_handle_stop s i) as C. unfold core in C.
      inversion C. reflexivity.
  - apply core_set_ts. exact N.
Qed.

Lemma core_watcher_start s i b : core (fst (watcher_start s i b)) = core s.
Proof.
  unfold watcher_start. repeat break1; cbn [fst]; try reflexivity.
  rewrite core_handle_start, core_upd_h. apply core_wq_set.
Qed.

Lemma core_watcher_stop s i : core (watcher_stop s i) = core s.
Proof.
  unfold watcher_stop. break1; [|reflexivity].
  rewrite core_handle_stop.
  match goal with |- core (set_lq ?x ?v) = _ => change (core (set_lq x v)) with (core x) end.
  apply core_wq_set.
Qed.

Lemma core_async_send s i : core (async_send s i) = core s.
Proof. unfold async_send. break1; reflexivity. Qed.

Lemma core_work_submit s a : core (work_submit s a) = core s.
Proof. unfold work_submit. cbv zeta. break1; reflexivity. Qed.

Lemma core_l_close s i : core (l_close s i) = core s.
Proof.
  unfold l_close. break1; [reflexivity|].
  match goal with |- core (set_closing ?x ?v) = _ => change (core (set_closing x v)) with (core x) end.
  destruct (h_kind (hget s i)).
  - rewrite core_handle_stop. rewrite core_set_ts; [reflexivity|]. apply now_timer_close.
  - rewrite core_watcher_stop. reflexivity.
  - rewrite core_watcher_stop. reflexivity.
  - rewrite core_watcher_stop. reflexivity.
  - rewrite core_handle_stop. reflexivity.
Qed.

(* ---- quiet steps: no callback, stop_flag only set, clock only forward ---- *)
Definition Quiet (s s' : lstate) : Prop :=
  cbcount s' = cbcount s /\
  (stop_flag s = true -> stop_flag s' = true) /\
  clock s <= clock s' /\
  metrics s' = metrics s /\
  now (ts s') = now (ts s).

Lemma Quiet_refl s : Quiet s s.
Proof. unfold Quiet. repeat split; auto; lia. Qed.

Lemma Quiet_trans a b c : Quiet a b -> Quiet b c -> Quiet a c.
Proof.
  unfold Quiet. intros (A1 & A2 & A3 & A4 & A5) (B1 & B2 & B3 & B4 & B5).
  repeat split; try congruence; auto; lia.
Qed.

Lemma Quiet_core s s' : core s' = core s -> Quiet s s'.
Proof.
  unfold core, Quiet. intros H. inversion H as [[H1 H2 H3 H4 H5]].
  rewrite H1, H2, H3, H4, H5. repeat split; auto; lia.
Qed.

Lemma fst_eq {A B} (x : A * B) a b : x = (a, b) -> fst x = a.
Proof. intros ->. reflexivity. Qed.

Lemma lapi_quiet s o : Quiet s (fst (lapi s o)).
Proof.
  destruct o; unfold lapi; cbv beta iota.
  - (* LInit *)
    destruct k; cbn [fst]; try (apply Quiet_core; reflexivity).
    apply Quiet_core. rewrite core_handle_start. reflexivity.
  - break_if; [|apply Quiet_refl].
    pose proof (core_l_timer_start s i cb t r) as C.
    destruct (l_timer_start s i cb t r) as [s' c]. cbn [fst] in *. apply Quiet_core; exact C.
  - break_if; [|apply Quiet_refl].
    pose proof (core_l_timer_again s i) as C.
    destruct (l_timer_again s i) as [s' c]. cbn [fst] in *. apply Quiet_core; exact C.
  - break_if; [|apply Quiet_refl]. cbn [fst]. apply Quiet_core. reflexivity.
  - break_if; [|apply Quiet_refl].
    pose proof (core_watcher_start s i hascb) as C.
    destruct (watcher_start s i hascb) as [s' c]. cbn [fst] in *. apply Quiet_core; exact C.
  - break_if; [|apply Quiet_refl]. break_if; [|break_if]; cbn [fst].
    + apply Quiet_core, core_l_timer_stop.
    + apply Quiet_core, core_watcher_stop.
    + apply Quiet_refl.
  - break_if; cbn [fst]; [apply Quiet_core, core_handle_ref|apply Quiet_refl].
  - break_if; cbn [fst]; [apply Quiet_core, core_handle_unref|apply Quiet_refl].
  - break_if; cbn [fst]; [apply Quiet_core, core_l_close|apply Quiet_refl].
  - break_if; cbn [fst]; [apply Quiet_core, core_async_send|apply Quiet_refl].
  - cbn [fst]. apply Quiet_core, core_work_submit.
  - cbn [fst]. unfold Quiet. lcbn. repeat split; auto; lia.
  - cbn [fst]. unfold Quiet. lcbn. repeat split; auto; lia.
  - apply Quiet_refl.
  - apply Quiet_refl.
  - apply Quiet_refl.
  - apply Quiet_refl.
  - apply Quiet_refl.
Qed.

Lemma lapis_quiet os : forall s, Quiet s (fst (lapis s os)).
Proof.
  induction os as [|o os IH]; intros s; cbn [lapis]; [apply Quiet_refl|].
  pose proof (lapi_quiet s o) as H1. destruct (lapi s o) as [s1 e1].
  pose proof (IH s1) as H2. destruct (lapis s1 os) as [s2 e2]. cbn [fst] in *.
  eapply Quiet_trans; eauto.
Qed.

Lemma lapis_stoploop os : forall s, In LStopLoop os -> stop_flag (fst (lapis s os)) = true.
Proof.
  induction os as [|o os IH]; intros s Hin; [destruct Hin|].
  cbn [lapis]. destruct Hin as [->|Hin].
  - cbn [lapi]. pose proof (lapis_quiet os (set_stop s true)) as Q.
    destruct (lapis (set_stop s true) os) as [s2 e2]. cbn [fst] in *.
    destruct Q as (_ & Q & _). apply Q. reflexivity.
  - destruct (lapi s o) as [s1 e1]. pose proof (IH s1 Hin) as H2.
    destruct (lapis s1 os) as [s2 e2]. cbn [fst] in *. exact H2.
Qed.

(* ---- general steps ---- *)
Definition Step (beh : nat -> list lop) (s s' : lstate) : Prop :=
  (cbcount s <= cbcount s')%nat /\
  (stop_flag s = true -> stop_flag s' = true) /\
  (forall n, (cbcount s <= n < cbcount s')%nat -> (n < cap)%nat ->
             In LStopLoop (beh n) -> stop_flag s' = true) /\
  clock s <= clock s' /\
  metrics s' = metrics s /\
  (now (ts s) <= clock s -> now (ts s') <= clock s' /\ now (ts s) <= now (ts s')).

Lemma Step_refl beh s : Step beh s s.
Proof. unfold Step. repeat split; auto; lia. Qed.

Lemma Step_trans beh a b c : Step beh a b -> Step beh b c -> Step beh a c.
Proof.
  unfold Step. intros (A1 & A2 & A3 & A4 & A5 & A6) (B1 & B2 & B3 & B4 & B5 & B6).
  split; [lia|]. split; [auto|]. split.
  - intros n Hn Hc Hin. destruct (Nat.lt_ge_cases n (cbcount b)).
    + apply B2. apply (A3 n); auto. lia.
    + apply (B3 n); auto. lia.
  - split; [lia|]. split; [congruence|].
    intros H. destruct (A6 H) as [X Y]. destruct (B6 X) as [X' Y']. split; [auto|lia].
Qed.

Lemma Step_quiet beh s s' : Quiet s s' -> Step beh s s'.
Proof.
  unfold Quiet, Step. intros (A1 & A2 & A3 & A4 & A5).
  split; [lia|]. split; [auto|]. split; [intros; lia|]. split; [auto|]. split; [auto|].
  intros H. lia.
Qed.

Lemma Step_core beh s s' : core s' = core s -> Step beh s s'.
Proof. intros H. apply Step_quiet, Quiet_core, H. Qed.

Lemma Step_update_time beh s : Step beh s (update_time s).
Proof.
  unfold Step, update_time. lcbn.
  split; [lia|]. split; [auto|]. split; [intros; lia|]. split; [lia|]. split; [auto|]. lia.
Qed.

Lemma Step_set_clock beh s d : 0 <= d -> Step beh s (set_clock s (clock s + d)).
Proof.
  intros Hd. unfold Step. lcbn.
  split; [lia|]. split; [auto|]. split; [intros; lia|]. split; [lia|]. split; [auto|]. lia.
Qed.

Lemma Step_set_stop beh s : Step beh s (set_stop s true).
Proof.
  unfold Step. lcbn.
  split; [lia|]. split; [auto|]. split; [intros; lia|]. split; [lia|]. split; [auto|]. lia.
Qed.

Lemma callback_step beh s tag i : Step beh s (fst (callback s beh tag i)).
Proof.
  rewrite callback_eq. cbn [fst].
  pose proof (lapis_quiet (cb_ops s beh) (set_cbcount s (S (cbcount s)))) as Q.
  pose proof (lapis_stoploop (cb_ops s beh) (set_cbcount s (S (cbcount s)))) as L.
  destruct (lapis _ _) as [s2 e2]. cbn [fst] in *.
  destruct Q as (Q1 & Q2 & Q3 & Q4 & Q5). lcbn_in Q1. lcbn_in Q2. lcbn_in Q3. lcbn_in Q4. lcbn_in Q5.
  unfold Step. split; [lia|]. split; [auto|]. split.
  - intros n Hn Hc Hin. apply L. unfold cb_ops.
    assert (n = cbcount s) as -> by lia.
    destruct (Nat.eqb_spec (cbcount s) cap); [lia|].
    destruct (Nat.ltb_spec cap (cbcount s)); [lia|]. exact Hin.
  - split; [auto|]. split; [auto|]. rewrite Q5. lia.
Qed.

Lemma callback_step' beh s tag i s' e : callback s beh tag i = (s', e) -> Step beh s s'.
Proof. intros H. rewrite <- (fst_eq _ _ _ H). apply callback_step. Qed.

(* ---- the phase functions ---- *)
Lemma run_lq_step beh fuel : forall s k tag, Step beh s (fst (run_lq fuel s beh k tag)).
Proof.
  induction fuel as [|f IH]; intros s k tag; cbn [run_lq]; [apply Step_refl|].
  destruct (lq s) as [|i rest]; [apply Step_refl|]. cbv zeta.
  destruct (callback _ beh tag i) as [s3 e1] eqn:E1.
  pose proof (IH s3 k tag) as H2. destruct (run_lq f s3 beh k tag) as [s4 e2]. cbn [fst] in *.
  eapply Step_trans; [|exact H2].
  eapply Step_trans; [|eapply callback_step'; exact E1].
  apply Step_core. rewrite core_wq_set. reflexivity.
Qed.

Lemma run_watchers_step beh s k tag : Step beh s (fst (run_watchers s beh k tag)).
Proof.
  unfold run_watchers. eapply Step_trans; [|apply run_lq_step].
  apply Step_core.
  match goal with |- core (set_lq ?x ?v) = _ => change (core (set_lq x v)) with (core x) end.
  apply core_wq_set.
Qed.

Lemma run_wq_step beh l : forall s, Step beh s (fst (run_wq l s beh)).
Proof.
  induction l as [|w rest IH]; intros s; cbn [run_wq]; [apply Step_refl|]. cbv zeta.
  match goal with |- context [if ?c then _ else _] => destruct c end.
  - destruct (callback _ beh 5%nat w) as [s3 e1] eqn:E1.
    pose proof (IH s3) as H2. destruct (run_wq rest s3 beh) as [s4 e2]. cbn [fst] in *.
    eapply Step_trans; [|exact H2].
    eapply Step_trans; [|eapply callback_step'; exact E1].
    apply Step_core. reflexivity.
  - match goal with |- context [run_wq rest ?s0 beh] =>
      pose proof (IH s0) as H2; destruct (run_wq rest s0 beh) as [s4 e2] end.
    cbn [fst] in *. eapply Step_trans; [|exact H2]. apply Step_core. reflexivity.
Qed.

Lemma run_alq_step beh fuel : forall s, Step beh s (fst (run_alq fuel s beh)).
Proof.
  induction fuel as [|f IH]; intros s; cbn [run_alq]; [apply Step_refl|].
  destruct (alq s) as [|i rest]; [apply Step_refl|]. cbv zeta.
  match goal with |- context [if ?c then _ else _] => destruct c end;
    [match goal with |- context [if ?c then _ else _] => destruct c end|].
  - destruct (callback _ beh 4%nat i) as [s4 e1] eqn:E1.
    pose proof (IH s4) as H2. destruct (run_alq f s4 beh) as [s5 e2]. cbn [fst] in *.
    eapply Step_trans; [|exact H2].
    eapply Step_trans; [|eapply callback_step'; exact E1].
    apply Step_core. reflexivity.
  - match goal with |- context [run_alq f ?s0 beh] =>
      pose proof (IH s0) as H2; destruct (run_alq f s0 beh) as [s5 e2] end.
    cbn [fst] in *. eapply Step_trans; [|exact H2]. apply Step_core. reflexivity.
  - match goal with |- context [run_alq f ?s0 beh] =>
      pose proof (IH s0) as H2; destruct (run_alq f s0 beh) as [s5 e2] end.
    cbn [fst] in *. eapply Step_trans; [|exact H2]. apply Step_core. reflexivity.
Qed.

Lemma io_poll_step beh s timeout : Step beh s (fst (io_poll s beh timeout)).
Proof.
  unfold io_poll. destruct (efd s).
  - cbv zeta.
    match goal with |- context [if ?c then ?a else ?b] =>
      assert (H1 : Step beh (update_time s) (fst (if c then a else b)));
      [destruct c|destruct (if c then a else b) as [s2 e1]] end.
    + eapply Step_trans; [|apply run_wq_step]. apply Step_core. reflexivity.
    + cbn [fst]. apply Step_core. reflexivity.
    + match goal with |- context [run_alq ?n ?s0 beh] =>
        pose proof (run_alq_step beh n s0) as H2; destruct (run_alq n s0 beh) as [s4 e2] end.
      cbn [fst] in *.
      eapply Step_trans; [apply Step_update_time|].
      eapply Step_trans; [exact H1|].
      eapply Step_trans; [|exact H2]. apply Step_core. reflexivity.
  - destruct (timeout =? 0); [cbn [fst]; apply Step_update_time|].
    destruct (Z.ltb_spec timeout 0).
    + cbn [fst]. eapply Step_trans; [apply Step_update_time|apply Step_set_stop].
    + destruct (metrics s).
      * destruct (Z.leb_spec (timeout - (clock s - now (ts s))) 0); cbn [fst].
        -- apply Step_update_time.
        -- eapply Step_trans; [apply Step_set_clock|apply Step_update_time]. lia.
      * cbn [fst]. eapply Step_trans; [apply Step_set_clock|apply Step_update_time]. lia.
Qed.

Lemma run_closing_step beh l : forall s, Step beh s (fst (run_closing l s beh)).
Proof.
  induction l as [|i rest IH]; intros s; cbn [run_closing]; [apply Step_refl|]. cbv zeta.
  destruct (callback _ beh 6%nat i) as [s3 e1] eqn:E1.
  pose proof (IH s3) as H2. destruct (run_closing rest s3 beh) as [s4 e2]. cbn [fst] in *.
  eapply Step_trans; [|exact H2].
  eapply Step_trans; [|eapply callback_step'; exact E1].
  apply Step_core. rewrite core_handle_unref. reflexivity.
Qed.

Lemma l_collect_core fuel : forall s, core (l_collect fuel s) = core s.
Proof.
  induction fuel as [|f IH]; intros s; cbn [l_collect]; [reflexivity|].
  destruct (heap_min (hp (ts s))) as [k|]; [|reflexivity].
  destruct (now (ts s) <? k_timeout k); [reflexivity|]. cbv zeta.
  rewrite IH. rewrite core_set_ts; [|reflexivity]. apply core_l_timer_stop.
Qed.

Lemma l_fire_step beh fuel : forall s, Step beh s (fst (l_fire fuel s beh)).
Proof.
  induction fuel as [|f IH]; intros s; cbn [l_fire]; [apply Step_refl|].
  destruct (ready (ts s)) as [|i rest]; [apply Step_refl|]. cbv zeta.
  destruct (callback _ beh 0%nat i) as [s2 e1] eqn:E1.
  pose proof (IH s2) as H2. destruct (l_fire f s2 beh) as [s3 e2]. cbn [fst] in *.
  eapply Step_trans; [|exact H2].
  eapply Step_trans; [|eapply callback_step'; exact E1].
  apply Step_core. rewrite core_l_timer_again. reflexivity.
Qed.

Lemma l_run_timers_step beh s : Step beh s (fst (l_run_timers s beh)).
Proof.
  unfold l_run_timers. eapply Step_trans; [|apply l_fire_step].
  apply Step_core. apply l_collect_core.
Qed.
