(* C18 proofs, part 5: inet_ntop4 prints the canonical text of the independent
   spec printer (decimal, no leading zeros, '.'-separated). *)
From UV Require Import Lib.Base Model.Inet Spec.InetSpec Proofs.InetProofs4.
Local Open Scope N_scope.

Lemma dec_u8_spec v : v < 256 -> dec_u8 v = spec_dec v.
Proof.
  intros Hv. unfold dec_u8, spec_dec. cbn [digits_fuel].
  destruct (v <? 10) eqn:E1.
  - unfold sdig. rewrite E1. reflexivity.
  - apply N.ltb_ge in E1.
    assert (Em : v mod 10 <? 10 = true) by (apply N.ltb_lt; lia).
    destruct (v <? 100) eqn:E2.
    + apply N.ltb_lt in E2.
      assert (Ed : v / 10 <? 10 = true) by (apply N.ltb_lt; lia).
      rewrite Ed. unfold sdig. rewrite Ed, Em. reflexivity.
    + apply N.ltb_ge in E2.
      assert (Ed : v / 10 <? 10 = false) by (apply N.ltb_ge; lia).
      rewrite Ed.
      assert (Ed2 : v / 10 / 10 <? 10 = true) by (apply N.ltb_lt; lia).
      assert (Em2 : (v / 10) mod 10 <? 10 = true) by (apply N.ltb_lt; lia).
      rewrite Ed2. unfold sdig. rewrite Ed2, Em2, Em.
      replace (v / 10 / 10) with (v / 100) by lia. reflexivity.
Qed.

Theorem ntop4_canonical a b c d size :
  a < 256 -> b < 256 -> c < 256 -> d < 256 -> 16 <= size ->
  inet_ntop4 [a; b; c; d] size = (0%Z, spec_print4 [a; b; c; d] ++ [0]).
Proof.
  intros Ha Hb Hc Hd Hs.
  destruct (ntop4_spec [a; b; c; d] size) as [_ H]. rewrite H.
  - unfold fmt4, spec_print4, byte_at. cbn [nth map join].
    rewrite !dec_u8_spec by assumption. cbn [app]. rewrite <- !app_assoc.
    cbn [app]. rewrite <- ?app_assoc. cbn [app]. reflexivity.
  - pose proof (fmt4_len [a; b; c; d]). lia.
Qed.
