(* C20: proofs about Model/Thread.v parts A-C, and the pthread contracts (part D)
   as Section hypotheses.  The interleaving proofs are in ThreadProofsBarrier.v and
   ThreadProofsSem.v. *)
From UV Require Import Lib.Base Model.Thread.

Local Open Scope Z_scope.

(* ------------------------------------------------------------------ *)
(* Part B: stack size                                                  *)

Lemma two64_pow : two64 = 2 ^ 64. Proof. reflexivity. Qed.

Lemma land_wrap64_r x m : 0 <= x < two64 -> Z.land x (wrap64 m) = Z.land x m.
Proof.
  intros Hx. unfold wrap64. rewrite two64_pow, <- Z.land_ones by lia.
  rewrite (Z.land_comm m), Z.land_assoc.
  rewrite (Z.land_ones x 64) by lia. rewrite <- two64_pow, Z.mod_small by lia.
  reflexivity.
Qed.

Lemma land_lnot_pow2 x k : 0 <= k -> 0 <= x ->
  Z.land x (Z.lnot (2 ^ k - 1)) = x - x mod 2 ^ k.
Proof.
  intros Hk Hx.
  replace (2 ^ k - 1) with (Z.ones k) by (rewrite Z.ones_equiv; lia).
  rewrite <- Z.ldiff_land, Z.ldiff_ones_r by lia.
  rewrite Z.shiftl_mul_pow2, Z.shiftr_div_pow2 by lia.
  assert (0 < 2 ^ k) by (apply Z.pow_pos_nonneg; lia).
  rewrite (Z.div_mod x (2 ^ k)) at 2 by lia. lia.
Qed.

(* the rounding, as arithmetic *)
Lemma round_up_page_arith page k s :
  page = 2 ^ k -> 0 <= k -> 0 <= s ->
  round_up_page page s =
    let x := wrap64 (s + page - 1) in x - x mod page.
Proof.
  intros -> Hk Hs. unfold round_up_page. cbv zeta.
  assert (0 < 2 ^ k) by (apply Z.pow_pos_nonneg; lia).
  assert (E : wrap64 (wrap64 (s + 2 ^ k) - 1) = wrap64 (s + 2 ^ k - 1)).
  { unfold wrap64. rewrite Zminus_mod_idemp_l. reflexivity. }
  rewrite E.
  assert (Hx : 0 <= wrap64 (s + 2 ^ k - 1) < two64) by (unfold wrap64; apply Z.mod_pos_bound; reflexivity).
  rewrite land_wrap64_r by exact Hx.
  apply land_lnot_pow2; lia.
Qed.

Lemma round_up_page_spec page k s :
  page = 2 ^ k -> 0 <= k -> 0 < s <= two64 - page ->
  let r := round_up_page page s in
  r mod page = 0 /\ s <= r < s + page /\ r < two64.
Proof.
  intros Hp Hk Hs. cbv zeta. rewrite (round_up_page_arith page k s Hp Hk) by lia. cbv zeta.
  assert (0 < page) by (subst; apply Z.pow_pos_nonneg; lia).
  assert (W : wrap64 (s + page - 1) = s + page - 1) by (unfold wrap64; apply Z.mod_small; lia).
  rewrite W.
  set (x := s + page - 1).
  assert (Hm := Z.mod_pos_bound x page H).
  split; [|split].
  - rewrite Zminus_mod, Z.mod_mod, Z.sub_diag by lia. apply Z.mod_0_l; lia.
  - unfold x in *. lia.
  - unfold x in *. lia.
Qed.

Definition min_ok (page psm : Z) := min_stack_size psm mod page = 0.

(* the guard of commit 4452eb2, as arithmetic: refused exactly within a page of 2^64 *)
Lemma stack_guard page s : (s >? max64 - (page - 1)) = (two64 - page <? s).
Proof. unfold max64. destruct (s >? _) eqn:A, (_ <? s) eqn:B; lia. Qed.

Theorem stack_at_least_requested page k psm rl s :
  page = 2 ^ k -> 0 <= k -> 0 < s <= two64 - page ->
  exists r, stack_size_applied page psm rl true s = Some r /\
  s <= r /\ min_stack_size psm <= r /\
  (r mod page = 0 \/ r = min_stack_size psm) /\
  (min_ok page psm -> r mod page = 0) /\
  (r < s + page \/ r = min_stack_size psm).
Proof.
  intros Hp Hk Hs. unfold stack_size_applied.
  assert (Hs0 : (s =? 0) = false) by lia. rewrite Hs0.
  rewrite stack_guard. assert (G : (two64 - page <? s) = false) by lia. rewrite G.
  destruct (round_up_page_spec page k s Hp Hk Hs) as (A & B & C).
  destruct (round_up_page page s <? min_stack_size psm) eqn:E; eexists; (split; [reflexivity|]).
  - unfold min_ok. repeat split; try lia; auto.
  - repeat split; try lia; auto.
Qed.

(* requests within a page of 2^64 are refused: UV_EINVAL, nothing set up *)
Theorem stack_near_max_rejected page psm rl s :
  two64 - page < s -> 0 < s -> stack_size_applied page psm rl true s = None.
Proof.
  intros H H0. unfold stack_size_applied.
  assert (Hs0 : (s =? 0) = false) by lia. rewrite Hs0.
  rewrite stack_guard. assert (G : (two64 - page <? s) = true) by lia. rewrite G. reflexivity.
Qed.

(* The full clause, for EVERY request 0 < s < 2^64: whenever uv_thread_create_ex gets as far
   as creating a thread (it can only return 0 then), the size handed to
   pthread_attr_setstacksize is >= the request (and >= the minimum, page-aligned); and it
   refuses (None = UV_EINVAL) exactly the requests that no rounding can satisfy. *)
Theorem stack_never_smaller page k psm rl s :
  page = 2 ^ k -> 0 <= k -> 0 < s < two64 ->
  match stack_size_applied page psm rl true s with
  | Some r => s <= r /\ min_stack_size psm <= r /\ (r mod page = 0 \/ r = min_stack_size psm)
  | None => two64 - page < s
  end.
Proof.
  intros Hp Hk Hs.
  destruct (Z_le_gt_dec s (two64 - page)) as [Hle|Hgt].
  - destruct (stack_at_least_requested page k psm rl s Hp Hk) as (r & E & A & B & C & _ & D); [lia|].
    rewrite E. repeat split; auto.
  - rewrite stack_near_max_rejected by lia. lia.
Qed.

Theorem stack_zero_gives_default page psm rl flag s :
  (flag = false \/ s = 0) ->
  stack_size_applied page psm rl flag s = Some (thread_stack_size page psm rl).
Proof. intros [-> | ->]; unfold stack_size_applied; [reflexivity | destruct flag; reflexivity]. Qed.

(* uv__thread_stack_size: the glibc default, or the soft limit rounded down to a page,
   which is then at least the minimum *)
Theorem thread_stack_size_spec page psm rl :
  0 < page ->
  let r := thread_stack_size page psm rl in
  r = default_stack_size \/
  (exists cur, rl = RlCur cur /\ cur <> RLIM_INFINITY /\ r = cur - cur mod page /\
               r mod page = 0 /\ min_stack_size psm <= r /\ (0 <= cur -> r <= cur)).
Proof.
  intros Hp. cbv zeta. unfold thread_stack_size. destruct rl as [|cur]; auto.
  destruct (cur =? RLIM_INFINITY) eqn:E1; auto.
  destruct (cur - cur mod page >=? min_stack_size psm) eqn:E2; auto.
  right. exists cur. repeat split; try lia.
  rewrite Zminus_mod, Z.mod_mod, Z.sub_diag by lia. apply Z.mod_0_l; lia.
Qed.

(* uv__thread_stack_size always yields a size pthread_attr_setstacksize/pthread_create can
   work with: at least the minimum, a multiple of the page (when the default is), never the
   unlimited marker or anything derived from it -- exactly the 2 MiB default whenever the soft
   limit is unlimited, cannot be read, or rounds to less than the minimum -- and otherwise
   the soft limit rounded down to a page (so at most the limit the user set). *)
Ltac tss_fin :=
  intros; try discriminate;
  repeat match goal with H : RlCur _ = RlCur _ |- _ => inversion H; subst; clear H end;
  auto; try congruence; try lia.

Theorem thread_stack_size_accepted page psm rl :
  0 < page -> psm <= default_stack_size ->
  let r := thread_stack_size page psm rl in
  min_stack_size psm <= r /\
  (rl = RlFail -> r = default_stack_size) /\
  (rl = RlCur RLIM_INFINITY -> r = default_stack_size) /\
  (forall cur, rl = RlCur cur -> cur - cur mod page < min_stack_size psm -> r = default_stack_size) /\
  (forall cur, rl = RlCur cur -> cur <> RLIM_INFINITY -> min_stack_size psm <= cur - cur mod page ->
     r = cur - cur mod page /\ (0 <= cur -> r <= cur)) /\
  (forall cur, rl = RlCur cur -> 0 <= cur <= RLIM_INFINITY -> r <= Z.max default_stack_size (RLIM_INFINITY - 1)) /\
  (default_stack_size mod page = 0 -> r mod page = 0).
Proof.
  intros Hp Hpsm. cbv zeta.
  assert (Hmin : min_stack_size psm <= default_stack_size).
  { unfold min_stack_size, default_stack_size in *. destruct (8192 <? psm); lia. }
  assert (Hbig : default_stack_size <= Z.max default_stack_size (RLIM_INFINITY - 1)) by lia.
  unfold thread_stack_size. destruct rl as [|cur].
  - repeat split; tss_fin.
  - pose proof (Z.mod_pos_bound cur page Hp) as Hm.
    assert (Hal : (cur - cur mod page) mod page = 0)
      by (rewrite Zminus_mod, Z.mod_mod, Z.sub_diag by lia; apply Z.mod_0_l; lia).
    destruct (cur =? RLIM_INFINITY) eqn:E1.
    + assert (cur = RLIM_INFINITY) by lia. subst cur. repeat split; tss_fin.
    + destruct (cur - cur mod page >=? min_stack_size psm) eqn:E2; repeat split; tss_fin.
Qed.

(* The old failing input (DESIGN item 16, fixed by commit 4452eb2) on the repaired model:
   SIZE_MAX is refused; the code without the guard answered it with the 16 KiB minimum. *)
Example stack_wrap_fixed_example :
  stack_size_applied 4096 16384 (RlCur 8388608) true (two64 - 1) = None /\
  stack_size_applied 4096 16384 (RlCur 8388608) true (two64 - 4095) = None /\
  stack_size_applied 4096 16384 (RlCur 8388608) true (two64 - 4096) = Some (two64 - 4096) /\
  stack_size_applied 4096 16384 (RlCur 8388608) true (two64 - 4097) = Some (two64 - 4096) /\
  stack_size_applied_unguarded 4096 16384 (two64 - 1) = 16384.
Proof. vm_compute. auto. Qed.

Example stack_example : stack_size_applied 4096 16384 (RlCur 8388608) true 1048577 = Some 1052672.
Proof. reflexivity. Qed.

(* ------------------------------------------------------------------ *)
(* Part C: uv_cond_timedwait                                           *)

Lemma ts_ns_split t : ts_ns (t / NANOSEC, t mod NANOSEC) = t.
Proof. unfold ts_ns, NANOSEC; cbn [fst snd]. lia. Qed.

(* the timespec handed to pthread is well formed and fits time_t *)
Theorem timedwait_timespec_valid add timeout hr :
  0 <= add timeout hr < two64 ->
  let ts := deadline_with add timeout hr in
  0 <= fst ts < 2 ^ 63 /\ 0 <= snd ts < NANOSEC /\ ts_ns ts = add timeout hr.
Proof.
  intros H. cbv zeta. unfold deadline_with. rewrite ts_ns_split. cbn [fst snd].
  unfold NANOSEC, two64 in *. lia.
Qed.

Lemma add_wrap_range a b : 0 <= add_wrap a b < two64.
Proof. unfold add_wrap, wrap64. apply Z.mod_pos_bound. reflexivity. Qed.
Lemma add_sat_range a b : 0 <= a -> 0 <= b -> 0 <= add_sat a b < two64.
Proof. unfold add_sat, max64, two64. intros. destruct (_ >? _) eqn:E; lia. Qed.

Lemma timedwait_code_etimedout r :
  uv_cond_timedwait_code r = Some UV_ETIMEDOUT <-> r = ETIMEDOUT.
Proof.
  unfold uv_cond_timedwait_code, UV_ETIMEDOUT, ETIMEDOUT.
  destruct (r =? 0) eqn:E0; [split; [discriminate | lia]|].
  destruct (r =? 110) eqn:E1; split; intros; try discriminate; try lia; reflexivity.
Qed.

Theorem timedwait_code_exact r :
  uv_cond_timedwait_code r =
    if r =? 0 then Some 0 else if r =? ETIMEDOUT then Some UV_ETIMEDOUT else None.
Proof. reflexivity. Qed.

Section TimedWait.
  (* pthread_cond_timedwait on a CLOCK_MONOTONIC condition variable, seen from one call:
     its return code and the clock reading at its return, as functions of the absolute
     timespec passed in.  POSIX contract (assumed): ETIMEDOUT is returned only when the
     time specified by abstime has passed. *)
  Variable wait : Z * Z -> Z.
  Variable now_ret : Z * Z -> Z.
  Hypothesis posix_timedwait : forall ts, wait ts = ETIMEDOUT -> ts_ns ts <= now_ret ts.

  (* "UV_ETIMEDOUT only after at least [timeout] ns elapsed since uv__hrtime() = hr" *)
  Definition not_early (add : Z -> Z -> Z) (timeout hr : Z) : Prop :=
    let '(res, ts) := uv_cond_timedwait_model add timeout hr wait in
    res = Some UV_ETIMEDOUT -> hr + timeout <= now_ret ts.

  Theorem timedwait_not_early_partial timeout hr :
    0 <= timeout -> 0 <= hr -> timeout + hr < two64 ->
    not_early add_wrap timeout hr.
  Proof.
    intros Ht Hh Hs. unfold not_early, uv_cond_timedwait_model.
    intros Hr. apply timedwait_code_etimedout in Hr. apply posix_timedwait in Hr.
    unfold deadline_with in Hr. rewrite ts_ns_split in Hr.
    unfold add_wrap, wrap64 in *. rewrite Z.mod_small in Hr by lia.
    unfold deadline_with. rewrite Z.mod_small by lia. lia.
  Qed.

  (* the repaired variant: full statement, provided the clock has not reached 2^64-1 ns
     (584 years of uptime) when the wait returns *)
  Theorem timedwait_fixed_not_early timeout hr :
    0 <= timeout -> 0 <= hr ->
    (forall ts, now_ret ts < max64) ->
    not_early add_sat timeout hr.
  Proof.
    intros Ht Hh Hclk. unfold not_early, uv_cond_timedwait_model.
    intros Hr. apply timedwait_code_etimedout in Hr. apply posix_timedwait in Hr.
    unfold deadline_with in *. rewrite ts_ns_split in Hr.
    specialize (Hclk (add_sat timeout hr / NANOSEC, add_sat timeout hr mod NANOSEC)).
    unfold add_sat in *. destruct (timeout + hr >? max64) eqn:E; lia.
  Qed.
End TimedWait.

(* the full statement for the current code, and its refutation: a condition variable that
   nobody signals, called at hr = 5 s + 7 ns with timeout = UINT64_MAX *)
Definition timedwait_full_statement : Prop :=
  forall (wait now_ret : Z * Z -> Z),
    (forall ts, wait ts = ETIMEDOUT -> ts_ns ts <= now_ret ts) ->
    forall timeout hr, 0 <= timeout < two64 -> 0 <= hr < two64 ->
    not_early wait now_ret add_wrap timeout hr.

Theorem timedwait_wraps_refuted : ~ timedwait_full_statement.
Proof.
  intros H.
  specialize (H (fun _ => ETIMEDOUT) (fun ts => Z.max 5000000007 (ts_ns ts))).
  assert (C : forall ts : Z * Z, (fun _ : Z * Z => ETIMEDOUT) ts = ETIMEDOUT ->
                       ts_ns ts <= Z.max 5000000007 (ts_ns ts)) by (intros; lia).
  assert (R1 : 0 <= max64 < two64) by (unfold max64, two64; lia).
  assert (R2 : 0 <= 5000000007 < two64) by (unfold two64; lia).
  specialize (H C max64 5000000007 R1 R2).
  unfold not_early in H. vm_compute in H.
  exact (H eq_refl eq_refl).
Qed.

(* every wrapping call is affected: the deadline handed down is earlier than "now" *)
Theorem timedwait_wrap_deadline_in_past timeout hr :
  0 <= timeout < two64 -> 0 <= hr < two64 -> two64 <= timeout + hr ->
  ts_ns (timedwait_deadline timeout hr) < hr.
Proof.
  intros Ht Hh Hw. unfold timedwait_deadline, deadline_with. rewrite ts_ns_split.
  unfold add_wrap, wrap64.
  assert (E : (timeout + hr) mod two64 = timeout + hr - two64)
    by (symmetry; apply (Z.mod_unique _ _ 1); lia).
  rewrite E. lia.
Qed.

Example timedwait_example :
  timedwait_deadline 1000 (hrtime_of 5 7) = (5, 1007) /\
  timedwait_deadline max64 (hrtime_of 5 7) = (5, 6) /\
  timedwait_deadline_fixed max64 (hrtime_of 5 7) = (18446744073, 709551615).
Proof. vm_compute. auto. Qed.

Lemma hrtime_of_small sec nsec :
  0 <= sec -> 0 <= nsec < NANOSEC -> sec * NANOSEC + nsec < two64 ->
  hrtime_of sec nsec = sec * NANOSEC + nsec.
Proof.
  intros. unfold hrtime_of, wrap64, NANOSEC in *.
  rewrite (Z.mod_small (sec * 1000000000)) by lia. apply Z.mod_small; lia.
Qed.

(* ------------------------------------------------------------------ *)
(* Parts A + D: code maps, and the wrappers' contracts derived from the
   pthread contracts (Section hypotheses = trusted base)               *)

Theorem trylock_code_exact err :
  uv_trylock_code err =
    if err =? 0 then Some 0
    else if (err =? EBUSY) || (err =? EAGAIN) then Some UV_EBUSY else None.
Proof.
  unfold uv_trylock_code. destruct (err =? 0); auto.
  destruct (err =? EBUSY), (err =? EAGAIN); reflexivity.
Qed.

Theorem barrier_wait_code_exact rc :
  uv_barrier_wait_code rc =
    if rc =? 0 then Some 0 else if rc =? PTHREAD_BARRIER_SERIAL_THREAD then Some 1 else None.
Proof. reflexivity. Qed.

Section Mutex.
  (* a non-recursive pthread mutex, as an abstract state with an observer *)
  Variable St : Type.
  Variable held : St -> bool.
  Variable pthread_mutex_trylock : St -> Z * St.
  Hypothesis posix_trylock : forall s,
    if held s then pthread_mutex_trylock s = (EBUSY, s)
    else fst (pthread_mutex_trylock s) = 0 /\ held (snd (pthread_mutex_trylock s)) = true.

  Definition uv_mutex_trylock (s : St) : option Z * St :=
    let (e, s') := pthread_mutex_trylock s in (uv_trylock_code e, s').

  Theorem trylock_ebusy_iff_held s :
    (fst (uv_mutex_trylock s) = Some UV_EBUSY <-> held s = true) /\
    (held s = true -> snd (uv_mutex_trylock s) = s) /\
    (held s = false -> fst (uv_mutex_trylock s) = Some 0 /\ held (snd (uv_mutex_trylock s)) = true) /\
    fst (uv_mutex_trylock s) <> None.
  Proof.
    unfold uv_mutex_trylock. pose proof (posix_trylock s) as P.
    destruct (held s) eqn:Hh.
    - rewrite P. cbn. repeat split; auto; try discriminate.
    - destruct (pthread_mutex_trylock s) as [e s']. cbn [fst snd] in *. destruct P as [-> P].
      cbn. repeat split; auto; try discriminate.
  Qed.
End Mutex.

Ltac fin_rec :=
  repeat split; intros; auto; try discriminate; try congruence;
  repeat match goal with H : exists _, _ |- _ => destruct H as (? & ? & ?) end;
  try congruence; try discriminate.

Section RecursiveMutex.
  (* a PTHREAD_MUTEX_RECURSIVE mutex seen from thread [me]: owner and nesting depth *)
  Variable St : Type.
  Variable owner : St -> option nat.
  Variable depth : St -> nat.
  Variable me : nat.
  Variable pthread_mutex_trylock : St -> Z * St.
  Hypothesis posix_trylock_rec : forall s,
    match owner s with
    | None => fst (pthread_mutex_trylock s) = 0 /\ owner (snd (pthread_mutex_trylock s)) = Some me
              /\ depth (snd (pthread_mutex_trylock s)) = 1%nat
    | Some o =>
        if Nat.eqb o me
        then (fst (pthread_mutex_trylock s) = 0 /\ owner (snd (pthread_mutex_trylock s)) = Some me
              /\ depth (snd (pthread_mutex_trylock s)) = S (depth s))
             \/ pthread_mutex_trylock s = (EAGAIN, s)      (* maximum nesting exceeded *)
        else pthread_mutex_trylock s = (EBUSY, s)
    end.

  Theorem trylock_recursive_nests s :
    let r := uv_mutex_trylock St pthread_mutex_trylock s in
    fst r <> None /\
    (fst r = Some 0 -> owner (snd r) = Some me /\
                       (owner s = Some me -> depth (snd r) = S (depth s))) /\
    ((exists o, owner s = Some o /\ o <> me) -> fst r = Some UV_EBUSY /\ snd r = s).
  Proof.
    cbv zeta. unfold uv_mutex_trylock. pose proof (posix_trylock_rec s) as P.
    destruct (owner s) as [o|] eqn:Ho.
    - destruct (Nat.eqb o me) eqn:E.
      + apply Nat.eqb_eq in E. subst o.
        destruct P as [P | P].
        * destruct (pthread_mutex_trylock s) as [e s']. cbn [fst snd] in *. destruct P as (-> & P1 & P2).
          cbn. fin_rec.
        * rewrite P. cbn. fin_rec.
      + apply Nat.eqb_neq in E. rewrite P. cbn. fin_rec.
    - destruct (pthread_mutex_trylock s) as [e s']. cbn [fst snd] in *. destruct P as (-> & P1 & P2).
      cbn. fin_rec.
  Qed.
End RecursiveMutex.

Section RwLock.
  Variable St : Type.
  Variable readers : St -> nat.
  Variable writer : St -> bool.
  Variable tryrd trywr : St -> Z * St.
  (* POSIX: a read lock is granted unless a writer holds the lock (EBUSY) or the reader
     count would overflow (EAGAIN); a write lock only when nobody holds it. *)
  Hypothesis posix_tryrd : forall s,
    if writer s then tryrd s = (EBUSY, s)
    else (fst (tryrd s) = 0 /\ readers (snd (tryrd s)) = S (readers s) /\ writer (snd (tryrd s)) = false)
         \/ tryrd s = (EAGAIN, s).
  Hypothesis posix_trywr : forall s,
    if writer s || negb (Nat.eqb (readers s) 0) then trywr s = (EBUSY, s)
    else fst (trywr s) = 0 /\ writer (snd (trywr s)) = true /\ readers (snd (trywr s)) = O.

  Definition uv_rwlock_tryrdlock s := let (e, s') := tryrd s in (uv_trylock_code e, s').
  Definition uv_rwlock_trywrlock s := let (e, s') := trywr s in (uv_trylock_code e, s').

  Theorem rwlock_trywr_ebusy_iff_held s :
    (fst (uv_rwlock_trywrlock s) = Some UV_EBUSY <-> (writer s = true \/ readers s <> O)) /\
    (fst (uv_rwlock_trywrlock s) = Some 0 <->  (writer s = false /\ readers s = O)) /\
    (fst (uv_rwlock_trywrlock s) = Some 0 -> writer (snd (uv_rwlock_trywrlock s)) = true) /\
    fst (uv_rwlock_trywrlock s) <> None.
  Proof.
    unfold uv_rwlock_trywrlock. pose proof (posix_trywr s) as P.
    destruct (writer s) eqn:Hw; cbn [orb] in P.
    - rewrite P. cbn. repeat split; auto; try discriminate; intros; try tauto.
      destruct H; discriminate.
    - destruct (Nat.eqb (readers s) 0) eqn:Hr; cbn [negb] in P.
      + apply Nat.eqb_eq in Hr. destruct (trywr s) as [e s']. cbn [fst snd] in *.
        destruct P as (-> & P1 & P2). cbn. repeat split; auto; try discriminate.
        intros [H | H]; [discriminate | contradiction].
      + apply Nat.eqb_neq in Hr. rewrite P. cbn. repeat split; auto; try discriminate.
        intros (_ & H). contradiction.
  Qed.

  Theorem rwlock_tryrd_excludes_writer s :
    (writer s = true -> fst (uv_rwlock_tryrdlock s) = Some UV_EBUSY /\ snd (uv_rwlock_tryrdlock s) = s) /\
    (fst (uv_rwlock_tryrdlock s) = Some 0 ->
       writer s = false /\ readers (snd (uv_rwlock_tryrdlock s)) = S (readers s)) /\
    (fst (uv_rwlock_tryrdlock s) = Some UV_EBUSY -> snd (uv_rwlock_tryrdlock s) = s) /\
    fst (uv_rwlock_tryrdlock s) <> None.
  Proof.
    unfold uv_rwlock_tryrdlock. pose proof (posix_tryrd s) as P.
    destruct (writer s) eqn:Hw.
    - rewrite P. cbn. repeat split; auto; try discriminate.
    - destruct P as [P | P].
      + destruct (tryrd s) as [e s']. cbn [fst snd] in *. destruct P as (-> & P1 & P2).
        cbn. repeat split; auto; try discriminate.
      + rewrite P. cbn. repeat split; auto; try discriminate.
  Qed.
End RwLock.

(* native semaphore: sem_trywait may be interrupted any number of times, then answers
   by the value *)
Definition eintr_answer : Z * Z := (-1, EINTR).
Definition posix_sem_trywait_answer (v e : Z) : Z * Z := if v =? 0 then (-1, EAGAIN) else (0, e).

Theorem trywait_eagain_at_zero k v e rest :
  0 <= v ->
  uv_sem_trywait_code (repeat eintr_answer k ++ posix_sem_trywait_answer v e :: rest) =
    (Some (if v =? 0 then UV_EAGAIN else 0), rest).
Proof.
  intros Hv. induction k as [|k IH]; cbn [repeat app].
  - unfold posix_sem_trywait_answer. destruct (v =? 0); reflexivity.
  - cbn. exact IH.
Qed.

Theorem sem_wait_retries_eintr k e rest :
  uv_sem_wait_code (repeat eintr_answer k ++ (0, e) :: rest) = (Some 0, rest).
Proof. induction k as [|k IH]; cbn [repeat app]; [reflexivity | cbn; exact IH]. Qed.

(* passes <= initial value + posts for the native semaphore behind the wrappers: any
   sequence of post / trywait (with k interruptions) / successful wait *)
Inductive nsop := NPost | NTry (k : nat) (e : Z) | NWait (k : nat) (e : Z).
Record nsem := mkNS { ns_value : Z; ns_posts : Z; ns_passes : Z; ns_eagain_at_pos : bool }.

Definition nsem_step (s : nsem) (o : nsop) : nsem :=
  match o with
  | NPost => mkNS (ns_value s + 1) (ns_posts s + 1) (ns_passes s) (ns_eagain_at_pos s)
  | NTry k e =>
      match fst (uv_sem_trywait_code (repeat eintr_answer k ++ [posix_sem_trywait_answer (ns_value s) e])) with
      | Some 0 => mkNS (ns_value s - 1) (ns_posts s) (ns_passes s + 1) (ns_eagain_at_pos s)
      | Some _ => mkNS (ns_value s) (ns_posts s) (ns_passes s)
                       (ns_eagain_at_pos s || negb (ns_value s =? 0))
      | None => s
      end
  | NWait k e =>
      (* sem_wait returns only when the value was positive *)
      if ns_value s =? 0 then s
      else match fst (uv_sem_wait_code (repeat eintr_answer k ++ [(0, e)])) with
           | Some _ => mkNS (ns_value s - 1) (ns_posts s) (ns_passes s + 1) (ns_eagain_at_pos s)
           | None => s
           end
  end.

Theorem sem_bound init ops :
  0 <= init ->
  let s := fold_left nsem_step ops (mkNS init 0 0 false) in
  ns_passes s + ns_value s = init + ns_posts s /\ 0 <= ns_value s /\
  ns_passes s <= init + ns_posts s /\ ns_eagain_at_pos s = false.
Proof.
  intros Hi. cbv zeta.
  assert (G : forall s, 0 <= ns_value s -> ns_passes s + ns_value s = init + ns_posts s ->
                        ns_eagain_at_pos s = false ->
              let s' := fold_left nsem_step ops s in
              ns_passes s' + ns_value s' = init + ns_posts s' /\ 0 <= ns_value s' /\
              ns_eagain_at_pos s' = false).
  { induction ops as [|o ops IH]; intros s H0 H1 H2; cbn [fold_left].
    - auto.
    - apply IH.
      + destruct o; cbn [nsem_step].
        * cbn; lia.
        * rewrite trywait_eagain_at_zero by lia. cbn [fst].
          destruct (ns_value s =? 0) eqn:E; cbn; lia.
        * destruct (ns_value s =? 0) eqn:E; [lia|].
          rewrite sem_wait_retries_eintr. cbn; lia.
      + destruct o; cbn [nsem_step].
        * cbn; lia.
        * rewrite trywait_eagain_at_zero by lia. cbn [fst].
          destruct (ns_value s =? 0) eqn:E; cbn; lia.
        * destruct (ns_value s =? 0) eqn:E; [lia|].
          rewrite sem_wait_retries_eintr. cbn; lia.
      + destruct o; cbn [nsem_step].
        * cbn; auto.
        * rewrite trywait_eagain_at_zero by lia. cbn [fst].
          destruct (ns_value s =? 0) eqn:E; cbn; rewrite ?H2; auto.
        * destruct (ns_value s =? 0) eqn:E; [auto|].
          rewrite sem_wait_retries_eintr. cbn; auto. }
  destruct (G (mkNS init 0 0 false)) as (A & B & C); cbn; try lia; auto.
  repeat split; auto; lia.
Qed.

Theorem cond_init_spec e1 e2 e3 e4 :
  let '(r, calls) := uv_cond_init_model e1 e2 e3 e4 in
  (r = 0 <-> e1 = 0 /\ e2 = 0 /\ e3 = 0 /\ e4 = 0) /\
  (* the attribute object is destroyed whenever it was initialised, the condition
     variable whenever it was initialised and the call fails *)
  (e1 = 0 -> In 4 calls) /\
  (e1 = 0 -> e2 = 0 -> e3 = 0 -> e4 <> 0 -> In 5 calls).
Proof.
  unfold uv_cond_init_model, uv_err.
  destruct (e1 =? 0) eqn:E1; cbn [negb].
  2:{ repeat split; intros; try lia. }
  destruct (e2 =? 0) eqn:E2; cbn [negb].
  2:{ repeat split; intros; try lia; cbn; auto. }
  destruct (e3 =? 0) eqn:E3; cbn [negb].
  2:{ repeat split; intros; try lia; cbn; auto. }
  destruct (e4 =? 0) eqn:E4; cbn [negb].
  2:{ repeat split; intros; try lia; cbn; auto 10. }
  repeat split; intros; try lia; cbn; auto.
Qed.
