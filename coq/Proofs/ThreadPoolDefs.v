(* C08: definitions shared by the proof files of Model/ThreadPool.v: reachability, induction
   over schedules, trace counters, and the invariants the inductions run on. *)
From UV Require Import Lib.Base Model.ThreadPool.

Definition reachable (c : config) (progs : list (list op)) (s : state) : Prop :=
  exists sched, s = run c (init c progs) sched.

Lemma run_app c s a b : run c s (a ++ b) = run c (run c s a) b.
Proof. unfold run. apply fold_left_app. Qed.

(* induction over the schedule *)
Lemma reachable_ind c progs (P : state -> Prop) :
  P (init c progs) ->
  (forall s t aux s', reachable c progs s -> P s -> step c s t aux = Some s' -> P s') ->
  forall s, reachable c progs s -> P s.
Proof.
  intros H0 Hs s [sched ->].
  induction sched as [|ch sched IH] using rev_ind; [exact H0|].
  rewrite run_app. cbn [run fold_left]. unfold step_state at 1.
  destruct (step c (run c (init c progs) sched) (fst ch) (snd ch)) eqn:E.
  - eapply Hs; [exists sched; reflexivity | exact IH | exact E].
  - exact IH.
Qed.

Lemma reachable_step c progs s t aux s' :
  reachable c progs s -> step c s t aux = Some s' -> reachable c progs s'.
Proof.
  intros [sched ->] E. exists (sched ++ [(t, aux)]).
  rewrite run_app. cbn [run fold_left]. unfold step_state. cbn [fst snd]. rewrite E. reflexivity.
Qed.

Lemma reachable_init c progs : reachable c progs (init c progs).
Proof. exists []. reflexivity. Qed.

(* ---- trace counters ---- *)
Definition is_work_ev (r : nat) (e : event) : bool :=
  match e with EWork r' _ => Nat.eqb r' r | _ => false end.
Definition is_done_ev (r : nat) (e : event) : bool :=
  match e with EDone r' _ _ => Nat.eqb r' r | _ => false end.
Definition nwork (r : nat) (tr : list event) : nat := length (filter (is_work_ev r) tr).
Definition ndone (r : nat) (tr : list event) : nat := length (filter (is_done_ev r) tr).

(* the trace is newest first: every completion callback is preceded (= followed in the list)
   by the end of the work function, resp. by the successful uv_cancel *)
Fixpoint ordered (tr : list event) : Prop :=
  match tr with
  | [] => True
  | e :: older =>
      match e with
      | EDone r _ st =>
          (st = 0%Z -> exists t, In (EWork r t) older) /\
          (st <> 0%Z -> st = UV_ECANCELED /\ exists t, In (ECancel r t 0%Z) older)
      | _ => True
      end /\ ordered older
  end.

(* ---- layer A: every request is in exactly one place ---- *)
Definition wq_reqs (q : list item) : list nat :=
  flat_map (fun i => match i with IWork r => [r] | _ => [] end) q.

Definition work_matches (q : req) : Prop :=
  match r_st q with
  | RFree => True
  | Queued | Running _ => r_work q = WFn
  | Finished => r_work q = WNull
  | Limbo | Cancelled => r_work q = WCancelled
  | Done st => (st = 0%Z /\ r_work q = WNull) \/ (st = UV_ECANCELED /\ r_work q = WCancelled)
  end.

Definition nwork_expected (st : rstate) : nat :=
  match st with
  | Running _ | Finished => 1
  | Done st => if Z.eqb st 0 then 1 else 0
  | _ => 0
  end.
Definition ndone_expected (st : rstate) : nat := match st with Done _ => 1 | _ => 0 end.

Record InvA (c : config) (s : state) : Prop := mkInvA {
  a_nodup_q : NoDup (wq_reqs (wq s) ++ sp s);
  a_queued : forall r, In r (wq_reqs (wq s) ++ sp s) <-> r_st (reqs s r) = Queued;
  a_nodup_l : forall l, NoDup (l_wq (lp s l) ++ l_local (lp s l));
  a_loopq : forall l r, In r (l_wq (lp s l) ++ l_local (lp s l)) <->
              (r_loop (reqs s r) = l /\
               (r_st (reqs s r) = Finished \/ r_st (reqs s r) = Cancelled));
  a_local : forall l, l_in_done (lp s l) = false -> l_local (lp s l) = [];
  a_running : forall r w, r_st (reqs s r) = Running w <-> exists b, wk s w = WRun r b;
  a_limbo : forall r, r_st (reqs s r) = Limbo -> l_pc (lp s (r_loop (reqs s r))) = LCancel3 r;
  a_cancel2 : forall l r, l_pc (lp s l) = LCancel2 r ->
              r_loop (reqs s r) = l /\
              (r_st (reqs s r) = Queued \/ (exists w, r_st (reqs s r) = Running w) \/
               r_st (reqs s r) = Finished \/ r_st (reqs s r) = Cancelled);
  a_cancel3 : forall l r, l_pc (lp s l) = LCancel3 r ->
              r_loop (reqs s r) = l /\ r_st (reqs s r) = Limbo;
  a_work : forall r, work_matches (reqs s r);
  a_free : forall r, nreq s <= r -> r_st (reqs s r) = RFree;
  a_nwork : forall r, nwork r (trace s) = nwork_expected (r_st (reqs s r));
  a_ndone : forall r, ndone r (trace s) = ndone_expected (r_st (reqs s r));
  a_done_ev : forall r t st, In (EDone r t st) (trace s) ->
              r_st (reqs s r) = Done st /\ t = r_loop (reqs s r);
  a_work_ev : forall r t, In (EWork r t) (trace s) -> c_loops c <= t < c_loops c + c_n c;
  a_submit_ev : forall r l k, In (ESubmit r l k) (trace s) ->
              r_loop (reqs s r) = l /\ r < nreq s /\ l < c_loops c;
  a_cancel_ev : forall r, (exists t, In (ECancel r t 0%Z) (trace s)) ->
              r_st (reqs s r) = Limbo \/ r_st (reqs s r) = Cancelled \/
              r_st (reqs s r) = Done UV_ECANCELED;
  a_cancelled_ev : forall r, r_st (reqs s r) = Cancelled \/ r_st (reqs s r) = Done UV_ECANCELED ->
              exists t, In (ECancel r t 0%Z) (trace s);
  a_ordered : ordered (trace s)
}.

(* ---- layer B: the slow-I/O marker and the counters ---- *)
Definition countw (p : wpc -> bool) (n : nat) (f : nat -> wpc) : nat :=
  length (filter (fun i => p (f i)) (seq 0 n)).
Definition slow_pc (p : wpc) : bool :=
  match p with WRun _ true | WRelock true => true | _ => false end.
Definition wait_pc (p : wpc) : bool := match p with WWait _ => true | _ => false end.

Record InvB (c : config) (s : state) : Prop := mkInvB {
  b_marker : length (filter is_marker (wq s)) <= 1;
  b_sp_marker : sp s <> [] -> has_marker (wq s) = true;
  b_noexit : ~ In IExit (wq s);
  b_lt : forall r, In (IWork r) (wq s) \/ In r (sp s) -> r < nreq s;
  b_kind_wq : forall r, In (IWork r) (wq s) -> r_kind (reqs s r) <> KSlow;
  b_kind_sp : forall r, In r (sp s) -> r_kind (reqs s r) = KSlow;
  b_run_lt : forall w r b, wk s w = WRun r b -> r < nreq s /\ (b = true <-> r_kind (reqs s r) = KSlow);
  b_running : running s = countw slow_pc (c_n c) (wk s);
  b_cap : running s <= threshold (c_n c);
  b_idle : idle s = countw wait_pc (c_n c) (wk s);
  b_noexited : forall w, wk s w <> WExited;
  b_outside : forall w, c_n c <= w -> wk s w = WRelock false
}.
