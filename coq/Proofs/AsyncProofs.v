(* Proofs about Model/Async.v: the invariants of uv_async_send / uv__async_io /
   uv__async_close under every sequentially consistent interleaving. *)
From UV Require Import Lib.Base Model.Async.

Local Open Scope Z_scope.

(* ---------------------------------------------------------------------- *)
(* Counting senders                                                         *)
(* ---------------------------------------------------------------------- *)
Definition b2z (b : bool) : Z := if b then 1 else 0.

Fixpoint cnt (P : sender -> bool) (l : list sender) : Z :=
  match l with
  | [] => 0
  | x :: r => b2z (P x) + cnt P r
  end.

Lemma cnt_nonneg P l : 0 <= cnt P l.
Proof. induction l as [|x r IH]; simpl; [lia|]. unfold b2z; destruct (P x); lia. Qed.

Lemma cnt_upd P l : forall i x y,
  nth_error l i = Some x ->
  cnt P (upd i (fun _ => y) l) = cnt P l - b2z (P x) + b2z (P y).
Proof.
  induction l as [|a r IH]; intros [|i] x y H; simpl in *; try discriminate.
  - inversion H; subst. lia.
  - rewrite (IH i x y H). lia.
Qed.

Lemma cnt_pos_ex P l : 0 < cnt P l ->
  exists i x, nth_error l i = Some x /\ P x = true.
Proof.
  induction l as [|a r IH]; simpl; intros H; [lia|].
  destruct (P a) eqn:Ha.
  - exists O, a. split; auto.
  - unfold b2z in H. destruct (IH ltac:(lia)) as (i & x & Hi & Hx). exists (S i), x. split; auto.
Qed.

Lemma cnt_ex_pos P l i x : nth_error l i = Some x -> P x = true -> 0 < cnt P l.
Proof.
  revert i; induction l as [|a r IH]; intros [|i] H Hx; simpl in *; try discriminate.
  - inversion H; subst. rewrite Hx. pose proof (cnt_nonneg P r). unfold b2z. lia.
  - pose proof (IH i H Hx). unfold b2z. destruct (P a); lia.
Qed.

Lemma cnt_zero_all P l i x : cnt P l = 0 -> nth_error l i = Some x -> P x = false.
Proof.
  intros H0 Hn. destruct (P x) eqn:Hx; auto.
  pose proof (cnt_ex_pos P l i x Hn Hx). lia.
Qed.

Lemma cnt_le P Q l : (forall x, P x = true -> Q x = true) -> cnt P l <= cnt Q l.
Proof.
  intros H. induction l as [|a r IH]; simpl; [lia|].
  destruct (P a) eqn:Ha.
  - rewrite (H a Ha). lia.
  - unfold b2z. destruct (Q a); lia.
Qed.

(* ---------------------------------------------------------------------- *)
(* Where a sender is                                                        *)
(* ---------------------------------------------------------------------- *)
(* between busy++ (S2) and busy-- (S5) on handle h *)
Definition in_cs (h : nat) (x : sender) : bool :=
  match s_pc x with
  | SBusy k | SWrite k | SDec k => Nat.eqb k h
  | _ => false
  end.
(* has published on h, has not yet set pending or returned *)
Definition pre_set (h : nat) (x : sender) : bool :=
  match s_pc x with
  | SPub k | SLoaded k | SBusy k => Nat.eqb k h
  | _ => false
  end.
(* between the exchange that read 0 (S3) and the eventfd write (S4) *)
Definition at_write (x : sender) : bool :=
  match s_pc x with SWrite _ => true | _ => false end.
Definition at_write_h (h : nat) (x : sender) : bool :=
  match s_pc x with SWrite k => Nat.eqb k h | _ => false end.

(* ---------------------------------------------------------------------- *)
(* The part of a state the invariants talk about, and the steps seen on it   *)
(* ---------------------------------------------------------------------- *)
Record ast := mkA { a_hs : hmap; a_snd : list sender; a_lst : list nat; a_efd : Z;
                    a_pc : lpc; a_q : list nat; a_incb : bool;
                    a_cl : list nat (* closing_handles ++ handles whose close_cb has run *) }.

Definition view (s : state) : ast :=
  mkA (hs s) (snd s) (lst s) (efd s) (l_pc (lp s)) (l_queue (lp s)) (l_incb (lp s))
      (l_closing (lp s) ++ l_closed (lp s)).

(* program counters at which an iteration of uv_run leaves the loop thread *)
Definition rest_pc (p : lpc) : Prop := p = LTop \/ exists nb, p = LPoll nb.
(* after looking at a queue entry / returning from a callback *)
Definition after_scan (q : list nat) (p : lpc) : Prop :=
  (q = [] /\ rest_pc p) \/ (q <> [] /\ p = LScan).

Inductive pc_move (q : list nat) : lpc -> lpc -> Prop :=
| pm_done : pc_move q LTop LDone
| pm_top : pc_move q LTop LTop
| pm_poll nb : pc_move q LTop (LPoll nb)
| pm_drain nb : pc_move q (LPoll nb) LDrain
| pm_idle nb p : rest_pc p -> pc_move q (LPoll nb) p
| pm_cb : pc_move q LInCb LInCb
| pm_ret p : after_scan q p -> pc_move q LInCb p
| pm_scan0 p : q = [] -> rest_pc p -> pc_move q LScan p
| pm_spin0 h : pc_move q (LSpin0 h) (LSpin h)
| pm_spin h : pc_move q (LSpin h) (LSpin h).

Definition snd_to (a : ast) (i : nat) (x : sender) : list sender :=
  upd i (fun _ => x) (a_snd a).

Inductive astep (a : ast) : ast -> Prop :=
| AS_pub i x h r :
    nth_error (a_snd a) i = Some x -> s_pc x = SIdle -> s_script x = h :: r ->
    astep a (mkA (hupd (a_hs a) h publish) (snd_to a i (mkS (SPub h) r))
                 (a_lst a) (a_efd a) (a_pc a) (a_q a) (a_incb a) (a_cl a))
| AS_ret i x h :
    nth_error (a_snd a) i = Some x -> s_pc x = SPub h -> pending (a_hs a h) = true ->
    astep a (mkA (a_hs a) (snd_to a i (mkS SIdle (s_script x)))
                 (a_lst a) (a_efd a) (a_pc a) (a_q a) (a_incb a) (a_cl a))
| AS_load i x h :
    nth_error (a_snd a) i = Some x -> s_pc x = SPub h -> pending (a_hs a h) = false ->
    astep a (mkA (a_hs a) (snd_to a i (mkS (SLoaded h) (s_script x)))
                 (a_lst a) (a_efd a) (a_pc a) (a_q a) (a_incb a) (a_cl a))
| AS_inc i x h :
    nth_error (a_snd a) i = Some x -> s_pc x = SLoaded h ->
    astep a (mkA (hupd (a_hs a) h (add_busy 1)) (snd_to a i (mkS (SBusy h) (s_script x)))
                 (a_lst a) (a_efd a) (a_pc a) (a_q a) (a_incb a) (a_cl a))
| AS_xchg i x h :
    nth_error (a_snd a) i = Some x -> s_pc x = SBusy h ->
    astep a (mkA (hupd (a_hs a) h (set_pending true))
                 (snd_to a i (mkS (if pending (a_hs a h) then SDec h else SWrite h) (s_script x)))
                 (a_lst a) (a_efd a) (a_pc a) (a_q a) (a_incb a) (a_cl a))
| AS_write i x h :
    nth_error (a_snd a) i = Some x -> s_pc x = SWrite h ->
    astep a (mkA (a_hs a) (snd_to a i (mkS (SDec h) (s_script x)))
                 (a_lst a) (if a_efd a <? efd_max then a_efd a + 1 else a_efd a)
                 (a_pc a) (a_q a) (a_incb a) (a_cl a))
| AS_dec i x h :
    nth_error (a_snd a) i = Some x -> s_pc x = SDec h ->
    astep a (mkA (hupd (a_hs a) h (add_busy (-1))) (snd_to a i (mkS SIdle (s_script x)))
                 (a_lst a) (a_efd a) (a_pc a) (a_q a) (a_incb a) (a_cl a))
| AL_pc p :
    pc_move (a_q a) (a_pc a) p ->
    astep a (mkA (a_hs a) (a_snd a) (a_lst a) (a_efd a) p (a_q a) (a_incb a) (a_cl a))
| AL_drain p :
    a_pc a = LDrain -> after_scan (a_lst a) p ->
    astep a (mkA (a_hs a) (a_snd a) [] 0 p (a_lst a) (a_incb a) (a_cl a))
| AL_hit h r :
    a_pc a = LScan -> a_q a = h :: r -> pending (a_hs a h) = true ->
    astep a (mkA (hupd (a_hs a) h (set_pending false)) (a_snd a) (a_lst a ++ [h]) (a_efd a)
                 (LCall h) r (a_incb a) (a_cl a))
| AL_miss h r p :
    a_pc a = LScan -> a_q a = h :: r -> pending (a_hs a h) = false -> after_scan r p ->
    astep a (mkA (hupd (a_hs a) h (set_pending false)) (a_snd a) (a_lst a ++ [h]) (a_efd a)
                 p r (a_incb a) (a_cl a))
| AL_ack h r p :
    a_pc a = LScan -> a_q a = h :: r -> pending (a_hs a h) = true ->
    has_cb (a_hs a h) = false -> after_scan r p ->
    astep a (mkA (hupd (a_hs a) h ack) (a_snd a) (a_lst a ++ [h]) (a_efd a)
                 p r (a_incb a) (a_cl a))
| AL_call h :
    a_pc a = LCall h ->
    astep a (mkA (hupd (a_hs a) h run_cb) (a_snd a) (a_lst a) (a_efd a) LInCb (a_q a) (a_incb a) (a_cl a))
| AL_close c b :
    (a_pc a = LTop /\ b = false) \/ (a_pc a = LInCb /\ b = true) ->
    is_open (a_hs a c) = true ->
    astep a (mkA (hupd (a_hs a) c begin_close) (a_snd a) (a_lst a) (a_efd a) (LSpin0 c) (a_q a) b (a_cl a))
| AL_unlink c :
    a_pc a = LSpin0 c \/ a_pc a = LSpin c -> busy (a_hs a c) = 0 ->
    astep a (mkA (hupd (a_hs a) c set_unl) (a_snd a) (remove_h c (a_lst a)) (a_efd a)
                 (if a_incb a then LInCb else LTop) (remove_h c (a_q a)) (a_incb a)
                 (c :: a_cl a)).


(* ---------------------------------------------------------------------- *)
(* Every step of the model is an abstract step                              *)
(* ---------------------------------------------------------------------- *)
Ltac break_hyp H :=
  repeat match type of H with
  | (match ?x with _ => _ end) = Some _ => let E := fresh "E" in destruct x eqn:E
  | None = Some _ => discriminate H
  end.

Ltac step_inv H :=
  unfold step, step_gen in H;
  match type of H with
  | (match ?t with O => _ | S _ => _ end) = Some _ => destruct t as [|?i]
  end;
  [ unfold loop_step in H; cbv zeta in H; break_hyp H
  | unfold sender_step in H; cbv zeta in H; break_hyp H ];
  injection H as H; subst.

Ltac simp :=
  unfold view, finish_iter, scan_next, detach, close_begin, spin_step, poll_point, run_closing,
         lpc_to, set_sender, emit, with_hs, with_snd, with_lp, with_lst, with_efd,
         set_pc, set_script, set_queue, set_cbops, set_incb, set_mode, set_cbk, set_active, set_stop,
         set_closing, set_closed;
  cbn [hs snd lp lst efd out l_pc l_script l_queue l_cbops l_incb l_mode l_cbk l_closing
       l_active l_closed l_stop l_beh s_pc s_script].

Ltac simp_in H :=
  unfold view, finish_iter, scan_next, detach, close_begin, spin_step, poll_point, run_closing,
         lpc_to, set_sender, emit, with_hs, with_snd, with_lp, with_lst, with_efd,
         set_pc, set_script, set_queue, set_cbops, set_incb, set_mode, set_cbk, set_active, set_stop,
         set_closing, set_closed in H;
  cbn [hs snd lp lst efd out l_pc l_script l_queue l_cbops l_incb l_mode l_cbk l_closing
       l_active l_closed l_stop l_beh s_pc s_script] in H.

Lemma rest_top : rest_pc LTop. Proof. left; reflexivity. Qed.
Lemma rest_poll nb : rest_pc (LPoll nb). Proof. right; eexists; reflexivity. Qed.
#[local] Hint Resolve rest_top rest_poll : core.

(* the program counter finish_iter leaves *)
Lemma finish_iter_view s :
  exists p, rest_pc p /\
    view (finish_iter s) = mkA (hs s) (snd s) (lst s) (efd s) p (l_queue (lp s)) (l_incb (lp s))
                               (l_closing (lp s) ++ l_closed (lp s)).
Proof.
  unfold finish_iter. cbv zeta.
  match goal with |- context[if ?c then _ else _] => destruct c end.
  - simp. eexists; split; [|reflexivity]. auto.
  - simp. eexists; split; [|reflexivity]. auto.
Qed.

Lemma scan_next_view s :
  exists p, after_scan (l_queue (lp s)) p /\
    view (scan_next true s) = mkA (hs s) (snd s) (lst s) (efd s) p (l_queue (lp s)) (l_incb (lp s))
                                 (l_closing (lp s) ++ l_closed (lp s)).
Proof.
  unfold scan_next. destruct (l_queue (lp s)) eqn:E.
  - destruct (finish_iter_view s) as (p & Hp & Hv). exists p. split; [left; auto|].
    rewrite Hv, E. reflexivity.
  - exists LScan. split; [right; split; [discriminate|reflexivity]|]. simp. rewrite E. reflexivity.
Qed.

Lemma view_eta s : view s = mkA (hs s) (snd s) (lst s) (efd s) (l_pc (lp s)) (l_queue (lp s)) (l_incb (lp s))
                               (l_closing (lp s) ++ l_closed (lp s)).
Proof. reflexivity. Qed.

Ltac pcmove := apply AL_pc; cbn [a_pc a_q view];
  repeat match goal with H : l_pc _ = _ |- _ => rewrite H end.

Lemma close_begin_astep s s1 h b :
  view s1 = mkA (hs s) (snd s) (lst s) (efd s) (l_pc (lp s)) (l_queue (lp s)) (l_incb (lp s))
                (l_closing (lp s) ++ l_closed (lp s)) ->
  (l_pc (lp s) = LTop /\ b = false) \/ (l_pc (lp s) = LInCb /\ b = true) ->
  astep (view s) (view (close_begin s1 h b)).
Proof.
  intros Hv Hpc. unfold close_begin.
  assert (Hhs : hs s1 = hs s) by (injection Hv; auto).
  destruct (is_open (hs s1 h)) eqn:Eo.
  - rewrite Hhs in Eo. simp.
    pose proof (f_equal a_snd Hv) as H2; pose proof (f_equal a_lst Hv) as H3;
    pose proof (f_equal a_efd Hv) as H4; pose proof (f_equal a_q Hv) as H5.
    pose proof (f_equal a_cl Hv) as H6.
    cbn in H2, H3, H4, H5, H6. rewrite Hhs, H2, H3, H4, H5, H6.
    apply (AL_close (view s) h b); auto.
  - rewrite Hv. pcmove. destruct Hpc as [[-> _]|[-> _]]; constructor.
Qed.

Lemma spin_exit_view s h : (busy (hs s h) =? 0) = true ->
  view (spin_step s h) =
  mkA (hupd (hs s) h set_unl) (snd s) (remove_h h (lst s)) (efd s)
      (if l_incb (lp s) then LInCb else LTop) (remove_h h (l_queue (lp s))) (l_incb (lp s))
      (h :: l_closing (lp s) ++ l_closed (lp s)).
Proof. intros H. unfold spin_step. rewrite H. reflexivity. Qed.

Lemma spin_stay_view s h : (busy (hs s h) =? 0) = false ->
  view (spin_step s h) =
  mkA (hs s) (snd s) (lst s) (efd s) (LSpin h) (l_queue (lp s)) (l_incb (lp s))
      (l_closing (lp s) ++ l_closed (lp s)).
Proof. intros H. unfold spin_step. rewrite H. reflexivity. Qed.

Lemma step_astep s t s' : step s t = Some s' -> astep (view s) (view s').
Proof.
  intros H. step_inv H.
  - simp. pcmove. constructor.
  - simp. pcmove. constructor.
  - simp. pcmove. constructor.
  - apply close_begin_astep; [reflexivity | left; auto].
  - simp. pcmove. constructor.
  - simp. pcmove. constructor.
  - simp. pcmove. constructor.
  - simp. pcmove. constructor.
  - destruct (finish_iter_view s) as (p & Hp & Hv). rewrite Hv. pcmove. constructor; auto.
  - destruct (scan_next_view (detach (with_efd s 0))) as (p & Hp & Hv). rewrite Hv.
    simp. simp_in Hp. apply (AL_drain (view s)); auto.
  - destruct (scan_next_view s) as (p & Hp & Hv). rewrite Hv. pcmove.
    rewrite E0 in Hp. destruct Hp as [[_ Hp]|[Hp _]]; [|congruence]. constructor; auto.
  - simp. apply (AL_hit (view s) n l); auto.
  - match goal with |- astep _ (view (scan_next true ?x)) =>
      destruct (scan_next_view x) as (p & Hp & Hv); rewrite Hv end.
    simp. simp_in Hp. apply (AL_ack (view s) n l p); auto.
  - match goal with |- astep _ (view (scan_next true ?x)) =>
      destruct (scan_next_view x) as (p & Hp & Hv); rewrite Hv end.
    simp. simp_in Hp. apply (AL_miss (view s) n l p); auto.
  - simp. apply (AL_call (view s) h); auto.
  - destruct (scan_next_view s) as (p & Hp & Hv). rewrite Hv. pcmove. constructor; auto.
  - apply close_begin_astep; [reflexivity | right; auto].
  - simp. pcmove. constructor.
  - destruct (busy (hs s h) =? 0) eqn:Eb.
    + rewrite (spin_exit_view s h Eb). apply (AL_unlink (view s) h); [left; auto | cbn; lia].
    + rewrite (spin_stay_view s h Eb). pcmove. constructor.
  - destruct (busy (hs s h) =? 0) eqn:Eb.
    + rewrite (spin_exit_view s h Eb). apply (AL_unlink (view s) h); [right; auto | cbn; lia].
    + rewrite (spin_stay_view s h Eb). pcmove. constructor.
  - simp. eapply (AS_pub (view s)); eauto.
  - simp. eapply (AS_ret (view s)); eauto.
  - simp. eapply (AS_load (view s)); eauto.
  - simp. eapply (AS_inc (view s)); eauto.
  - simp. eapply (AS_xchg (view s)); eauto.
  - simp. eapply (AS_write (view s)); eauto.
  - simp. eapply (AS_dec (view s)); eauto.
Qed.

(* ---------------------------------------------------------------------- *)
(* The invariant                                                            *)
(* ---------------------------------------------------------------------- *)
Definition aopn (a : ast) (h : nat) : Prop := hst (a_hs a h) = Open.
(* the loop thread is inside uv__async_spin on h *)
Definition aspin (h : nat) (a : ast) : Prop := a_pc a = LSpin0 h \/ a_pc a = LSpin h.
(* the loop thread is outside the scan of uv__async_io *)
Definition aoutside (a : ast) : bool :=
  match a_pc a with
  | LTop | LPoll _ | LDrain | LDone => true
  | LSpin0 _ | LSpin _ => negb (a_incb a)
  | _ => false
  end.
Definition call_term (p : lpc) (h : nat) : Z :=
  match p with LCall k => b2z (Nat.eqb k h) | _ => 0 end.

Record AInv (a : ast) : Prop := mkAInv {
  i_efd : 0 <= a_efd a;
  (* N1: busy counts the senders between busy++ and busy-- *)
  i_busy : forall h, busy (a_hs a h) = cnt (in_cs h) (a_snd a);
  (* N2: once uv_close has been called pending stays 1 *)
  i_n2 : forall h, ~ aopn a h -> pending (a_hs a h) = true;
  i_olink : forall h, aopn a h -> In h (a_lst a) \/ In h (a_q a);
  i_q0 : aoutside a = true -> a_q a = [];
  i_ql : forall h, In h (a_lst a) \/ In h (a_q a) -> aopn a h \/ aspin h a;
  i_call : forall h, a_pc a = LCall h -> aopn a h;
  i_spin : forall h, aspin h a -> ~ aopn a h;
  i_unl : forall h, unl (a_hs a h) = true -> ~ aopn a h /\ cnt (at_write_h h) (a_snd a) = 0;
  i_seen : forall h, seen (a_hs a h) <= published (a_hs a h);
  (* close_cb only for handles uv__async_close has finished with *)
  i_cl : forall h, In h (a_cl a) -> unl (a_hs a h) = true;
  (* the wake invariant *)
  i_wake : forall h, aopn a h -> pending (a_hs a h) = true ->
           0 < a_efd a \/ 0 < cnt at_write (a_snd a) \/ In h (a_q a);
  (* a callback is owed *)
  i_owed : forall h, aopn a h -> seen (a_hs a h) < published (a_hs a h) ->
           pending (a_hs a h) = true \/ 0 < cnt (pre_set h) (a_snd a) \/ a_pc a = LCall h;
  (* callbacks are paid for by sends *)
  i_paid : forall h, cb_count (a_hs a h) + b2z (is_open (a_hs a h) && pending (a_hs a h))
                     + call_term (a_pc a) h + cnt (pre_set h) (a_snd a) <= sends_begun (a_hs a h)
}.

Ltac eqb_cases :=
  repeat match goal with
  | |- context[Nat.eqb ?a ?b] => destruct (Nat.eqb_spec a b); subst
  | H : context[Nat.eqb ?a ?b] |- _ => destruct (Nat.eqb_spec a b); subst
  end.

Ltac cntsimp :=
  unfold snd_to;
  repeat (erewrite cnt_upd by eassumption);
  unfold in_cs, pre_set, at_write, at_write_h in *; cbn [s_pc];
  repeat match goal with H : s_pc _ = _ |- _ => rewrite H end.

Ltac acbn := cbn [a_hs a_snd a_lst a_efd a_pc a_q a_incb a_cl] in *.


(* ---------------------------------------------------------------------- *)
(* Every abstract step preserves every clause                               *)
(* ---------------------------------------------------------------------- *)
Lemma pres_efd a a' : AInv a -> astep a a' -> 0 <= a_efd a'.
Proof.
  intros I St. pose proof (i_efd _ I). destruct St; acbn; try lia.
  destruct (a_efd a <? efd_max); lia.
Qed.

Lemma pres_busy a a' : AInv a -> astep a a' -> forall h, busy (a_hs a' h) = cnt (in_cs h) (a_snd a').
Proof.
  intros I St k. pose proof (i_busy _ I k) as Hb.
  destruct St; acbn; try exact Hb; cntsimp; unfold hupd; eqb_cases; cbn; unfold b2z; try lia.
  all: try (destruct (pending (a_hs a h)); cbn; eqb_cases; lia).
Qed.

Lemma in_remove_h k c l : In k (remove_h c l) <-> In k l /\ k <> c.
Proof.
  unfold remove_h. rewrite filter_In. destruct (Nat.eqb_spec k c); cbn; intuition congruence.
Qed.

Ltac hsimp := cbn [hst pending busy unl published seen sends_begun cb_count
                   publish add_busy set_pending set_unl run_cb begin_close ack has_cb is_open] in *.
Ltac hupd_cases := unfold aopn in *; acbn; unfold hupd in *; cbn beta in *; eqb_cases; hsimp.

Lemma scan_head_open a h r : AInv a -> a_pc a = LScan -> a_q a = h :: r -> hst (a_hs a h) = Open.
Proof.
  intros I Hpc Hq. destruct (i_ql _ I h) as [Ho|[Hs|Hs]]; auto.
  - right. rewrite Hq. left; auto.
  - congruence.
  - congruence.
Qed.

Lemma pres_n2 a a' : AInv a -> astep a a' -> forall h, ~ aopn a' h -> pending (a_hs a' h) = true.
Proof.
  intros I St k. pose proof (i_n2 _ I k) as Hb.
  destruct St; acbn; try exact Hb; hupd_cases; auto.
  - intros Hn. exfalso. apply Hn. eapply scan_head_open; eauto.
  - intros Hn. exfalso. apply Hn. eapply scan_head_open; eauto.
  - intros Hn. exfalso. apply Hn. eapply scan_head_open; eauto.
Qed.

Lemma pres_olink a a' : AInv a -> astep a a' -> forall h, aopn a' h -> In h (a_lst a') \/ In h (a_q a').
Proof.
  intros I St k. pose proof (i_olink _ I k) as Hb.
  destruct St; acbn; try exact Hb; hupd_cases; auto.
  - intros Ho. right. destruct (Hb Ho) as [Hl|Hq]; auto.
    rewrite (i_q0 _ I) in Hq by (unfold aoutside; rewrite H; reflexivity). destruct Hq.
  - intros _. left. apply in_or_app. right. left. reflexivity.
  - intros Ho. destruct (Hb Ho) as [Hl|Hq]; [left; apply in_or_app; auto|].
    rewrite H0 in Hq. destruct Hq; [congruence|auto].
  - intros _. left. apply in_or_app. right. left. reflexivity.
  - intros Ho. destruct (Hb Ho) as [Hl|Hq]; [left; apply in_or_app; auto|].
    rewrite H0 in Hq. destruct Hq; [congruence|auto].
  - intros _. left. apply in_or_app. right. left. reflexivity.
  - intros Ho. destruct (Hb Ho) as [Hl|Hq]; [left; apply in_or_app; auto|].
    rewrite H0 in Hq. destruct Hq; [congruence|auto].
  - discriminate.
  - intros Ho. exfalso. apply (i_spin _ I c); auto.
  - intros Ho. rewrite !in_remove_h. destruct (Hb Ho); auto.
Qed.

Lemma pres_q0 a a' : AInv a -> astep a a' -> aoutside a' = true -> a_q a' = [].
Proof.
  intros I St. pose proof (i_q0 _ I) as Hb.
  destruct St; acbn; try exact Hb; unfold aoutside in *; acbn.
  - destruct H; try (intros; apply Hb; reflexivity); try discriminate; auto.
    destruct H as [[Hq _]|[_ ->]]; [auto|discriminate].
  - destruct H0 as [[Hq _]|[_ ->]]; [auto|discriminate].
  - discriminate.
  - destruct H2 as [[Hq _]|[_ ->]]; [auto|discriminate].
  - destruct H3 as [[Hq _]|[_ ->]]; [auto|discriminate].
  - discriminate.
  - destruct H as [[Hp ->]|[Hp ->]]; [|discriminate]. intros _. apply Hb. rewrite Hp. reflexivity.
  - destruct (a_incb a) eqn:Ei; [discriminate|]. intros _.
    rewrite Hb; [reflexivity|]. destruct H as [->| ->]; reflexivity.
Qed.

Lemma pres_ql a a' : AInv a -> astep a a' ->
  forall h, In h (a_lst a') \/ In h (a_q a') -> aopn a' h \/ aspin h a'.
Proof.
  intros I St k. pose proof (i_ql _ I k) as Hb.
  destruct St; acbn; try exact Hb; unfold aspin in *; hupd_cases; auto.
  - intros Hin; destruct (Hb Hin) as [Ho|[Hs|Hs]]; auto; inversion H; subst; try congruence;
      try (right; right; congruence).
  - intros [[]|Hin]. destruct (Hb (or_introl Hin)) as [Ho|[Hs|Hs]]; auto; congruence.
  - intros _. left. eapply scan_head_open; eauto.
  - intros Hin. assert (Hin' : In k (a_lst a) \/ In k (a_q a)).
    { rewrite H0. destruct Hin as [Hin|Hin]; [apply in_app_or in Hin; destruct Hin as [|[|[]]]; auto; congruence|right; right; auto]. }
    destruct (Hb Hin') as [Ho|[Hs|Hs]]; auto; congruence.
  - intros _. left. eapply scan_head_open; eauto.
  - intros Hin. assert (Hin' : In k (a_lst a) \/ In k (a_q a)).
    { rewrite H0. destruct Hin as [Hin|Hin]; [apply in_app_or in Hin; destruct Hin as [|[|[]]]; auto; congruence|right; right; auto]. }
    destruct (Hb Hin') as [Ho|[Hs|Hs]]; auto; congruence.
  - intros _. left. eapply scan_head_open; eauto.
  - intros Hin. assert (Hin' : In k (a_lst a) \/ In k (a_q a)).
    { rewrite H0. destruct Hin as [Hin|Hin]; [apply in_app_or in Hin; destruct Hin as [|[|[]]]; auto; congruence|right; right; auto]. }
    destruct (Hb Hin') as [Ho|[Hs|Hs]]; auto; congruence.
  - intros Hin; destruct (Hb Hin) as [Ho|[Hs|Hs]]; auto; congruence.
  - intros Hin; destruct (Hb Hin) as [Ho|[Hs|Hs]]; auto; congruence.
  - intros Hin; destruct (Hb Hin) as [Ho|[Hs|Hs]]; auto; destruct H as [[Hp _]|[Hp _]]; congruence.
  - rewrite !in_remove_h. intros [[_ Hx]|[_ Hx]]; congruence.
  - rewrite !in_remove_h. intros Hin.
    assert (Hin' : In k (a_lst a) \/ In k (a_q a)) by tauto.
    destruct (Hb Hin') as [Ho|[Hs|Hs]]; auto; destruct H; congruence.
Qed.

Lemma rest_not_call p k : rest_pc p -> p <> LCall k.
Proof. intros [->|[nb ->]]; discriminate. Qed.
Lemma after_scan_not_call q p k : after_scan q p -> p <> LCall k.
Proof. intros [[_ H]|[_ ->]]; [apply rest_not_call; auto|discriminate]. Qed.
Lemma pc_move_not_call q p p' k : pc_move q p p' -> p' <> LCall k.
Proof.
  destruct 1; try discriminate; eauto using rest_not_call, after_scan_not_call.
Qed.
Lemma rest_not_spin p : rest_pc p -> forall k, p <> LSpin0 k /\ p <> LSpin k.
Proof. intros [->|[nb ->]] k; split; discriminate. Qed.
Lemma after_scan_not_spin q p : after_scan q p -> forall k, p <> LSpin0 k /\ p <> LSpin k.
Proof. intros [[_ H]|[_ ->]] k; [apply rest_not_spin; auto|split; discriminate]. Qed.

Lemma pres_call a a' : AInv a -> astep a a' -> forall h, a_pc a' = LCall h -> aopn a' h.
Proof.
  intros I St k. pose proof (i_call _ I k) as Hb.
  destruct St; acbn; try exact Hb; hupd_cases; auto; try discriminate.
  - intros Hp. exfalso. eapply pc_move_not_call; eauto.
  - intros Hp. exfalso. eapply after_scan_not_call; eauto.
  - intros _. eapply scan_head_open; eauto.
  - congruence.
  - intros Hp. exfalso. eapply after_scan_not_call; eauto.
  - intros Hp. exfalso. eapply after_scan_not_call; eauto.
  - intros Hp. exfalso. eapply after_scan_not_call; eauto.
  - intros Hp. exfalso. eapply after_scan_not_call; eauto.
  - destruct (a_incb a); discriminate.
  - destruct (a_incb a); discriminate.
Qed.

Ltac nospin k := exfalso; match goal with
  | Hr : rest_pc _ |- _ => destruct (rest_not_spin _ Hr k); tauto
  | Hr : after_scan _ _ |- _ => destruct (after_scan_not_spin _ _ Hr k); tauto end.

Lemma pres_spin a a' : AInv a -> astep a a' -> forall h, aspin h a' -> ~ aopn a' h.
Proof.
  intros I St k. pose proof (i_spin _ I k) as Hb.
  destruct St; acbn; try exact Hb; unfold aspin in *; hupd_cases; auto; try discriminate.
  - intros Hp. inversion H; subst; try (destruct Hp; discriminate);
      try (apply Hb; destruct Hp as [Hp|Hp]; inversion Hp; subst; auto; fail); nospin k.
  - intros Hp. nospin k.
  - intros [|]; discriminate.
  - intros [|]; discriminate.
  - intros Hp. nospin h.
  - intros Hp. nospin k.
  - intros Hp. nospin h.
  - intros Hp. nospin k.
  - intros [|]; discriminate.
  - intros [|]; discriminate.
  - intros [Hp|Hp]; inversion Hp; subst; congruence.
  - destruct (a_incb a); intros [|]; discriminate.
Qed.

Lemma pres_seen a a' : AInv a -> astep a a' -> forall h, seen (a_hs a' h) <= published (a_hs a' h).
Proof.
  intros I St k. pose proof (i_seen _ I k) as Hb.
  destruct St; acbn; try exact Hb; hupd_cases; auto; try lia.
Qed.

Lemma pres_unl a a' : AInv a -> astep a a' ->
  forall h, unl (a_hs a' h) = true -> ~ aopn a' h /\ cnt (at_write_h h) (a_snd a') = 0.
Proof.
  intros I St k. pose proof (i_unl _ I k) as Hb.
  destruct St; acbn; try exact Hb; cntsimp; hupd_cases; auto.
  all: try (intros Hu; destruct (Hb Hu) as [Hno Hc]; split; [auto| unfold b2z in *; try lia]; fail).
  - intros Hu; destruct (Hb Hu) as [Hno Hc]; split; auto.
    rewrite (i_n2 _ I h Hno). unfold b2z. lia.
  - intros Hu; destruct (Hb Hu) as [Hno Hc]; split; auto.
    destruct (pending (a_hs a h)); unfold b2z; [lia|].
    destruct (Nat.eqb_spec h k); [congruence|lia].
  - intros Hu; destruct (Hb Hu) as [Hno Hc]. exfalso.
    pose proof (cnt_zero_all _ _ _ _ Hc H) as Hz. cbn beta in Hz. rewrite H0, Nat.eqb_refl in Hz. discriminate.
  - intros Hu; destruct (Hb Hu) as [Hno Hc]; split; [discriminate|auto].
  - intros _. split.
    + apply (i_spin _ I c). exact H.
    + pose proof (i_busy _ I c) as Hbz. rewrite H0 in Hbz.
      pose proof (cnt_le (at_write_h c) (in_cs c) (a_snd a)) as Hle.
      pose proof (cnt_nonneg (at_write_h c) (a_snd a)) as Hnn.
      unfold at_write_h, in_cs in *.
      assert (Himp : forall x : sender,
        match s_pc x with SWrite k => (k =? c)%nat | _ => false end = true ->
        match s_pc x with SBusy k | SWrite k | SDec k => (k =? c)%nat | _ => false end = true).
      { intros y. destruct (s_pc y); intros Hx; auto; discriminate. }
      specialize (Hle Himp). lia.
Qed.

Lemma pres_wake a a' : AInv a -> astep a a' ->
  forall h, aopn a' h -> pending (a_hs a' h) = true ->
  0 < a_efd a' \/ 0 < cnt at_write (a_snd a') \/ In h (a_q a').
Proof.
  intros I St k. pose proof (i_wake _ I k) as Hb. pose proof (i_efd _ I) as He.
  pose proof (cnt_nonneg at_write (a_snd a)) as Hnn.
  destruct St; acbn; try exact Hb; cntsimp; hupd_cases; auto.
  all: try (intros Ho Hp; destruct (Hb Ho Hp) as [?|[?|?]]; unfold b2z in *;
            [left; lia | right; left; lia | right; right; assumption]; fail).
  - intros Ho _. destruct (pending (a_hs a h)) eqn:Ep.
    + destruct (Hb Ho eq_refl) as [?|[?|?]]; unfold b2z in *; [left; lia | right; left; lia | right; right; assumption].
    + right; left. unfold b2z. lia.
  - intros Ho Hp. destruct (pending (a_hs a h)) eqn:Ep.
    + destruct (Hb Ho Hp) as [?|[?|?]]; unfold b2z in *; [left; lia | right; left; lia | right; right; assumption].
    + right; left. unfold b2z. lia.
  - intros _ _. left. unfold efd_max. destruct (Z.ltb_spec (a_efd a) 18446744073709551614); lia.
  - intros Ho Hp. right; right.
    destruct (i_olink _ I k Ho) as [Hl|Hq]; auto.
    rewrite (i_q0 _ I) in Hq by (unfold aoutside; rewrite H; reflexivity). destruct Hq.
  - discriminate.
  - intros Ho Hp. destruct (Hb Ho Hp) as [?|[?|Hq]]; auto.
    rewrite H0 in Hq. destruct Hq; [congruence|auto].
  - discriminate.
  - intros Ho Hp. destruct (Hb Ho Hp) as [?|[?|Hq]]; auto.
    rewrite H0 in Hq. destruct Hq; [congruence|auto].
  - discriminate.
  - intros Ho Hp. destruct (Hb Ho Hp) as [?|[?|Hq]]; auto.
    rewrite H0 in Hq. destruct Hq; [congruence|auto].
  - discriminate.
  - intros Ho. exfalso. apply (i_spin _ I c); auto.
  - intros Ho Hp. destruct (Hb Ho Hp) as [?|[?|Hq]]; auto.
    right; right. apply in_remove_h. auto.
Qed.

Lemma pres_owed a a' : AInv a -> astep a a' ->
  forall h, aopn a' h -> seen (a_hs a' h) < published (a_hs a' h) ->
  pending (a_hs a' h) = true \/ 0 < cnt (pre_set h) (a_snd a') \/ a_pc a' = LCall h.
Proof.
  intros I St k. pose proof (i_owed _ I k) as Hb.
  pose proof (cnt_nonneg (pre_set k) (a_snd a)) as Hnn.
  destruct St; acbn; try exact Hb; cntsimp; hupd_cases; auto.
  all: try (intros Ho Hp; destruct (Hb Ho Hp) as [?|[?|?]]; unfold b2z in *;
            [left; auto | right; left; lia | right; right; assumption]; fail).
  all: try (intros Ho Hp; destruct (Hb Ho Hp) as [?|[?|Hc]]; unfold b2z in *;
            [left; auto | right; left; lia | exfalso; try congruence;
             try (match goal with Hm : pc_move _ _ _ |- _ => rewrite Hc in Hm; inversion Hm end);
             try (match goal with Hm : _ \/ _ |- _ => destruct Hm as [[? ?]|[? ?]]; congruence end);
             try (match goal with Hm : _ \/ _ |- _ => destruct Hm; congruence end)]; fail).
  - intros _ _. right; left. unfold b2z. lia.
  - intros Ho Hp. destruct (Hb Ho Hp) as [?|[?|Hc]]; auto.
    right; left. destruct (pending (a_hs a h)); unfold b2z; lia.
  - intros Ho Hp. destruct (Hb Ho Hp) as [?|[?|Hc]]; auto; congruence.
  - intros _ Hp. lia.
  - intros _ Hp. lia.
Qed.

Lemma call_term_nonneg p k : 0 <= call_term p k.
Proof. destruct p; cbn; unfold b2z; try lia. destruct (Nat.eqb h k); lia. Qed.
Lemma rest_call0 p k : rest_pc p -> call_term p k = 0.
Proof. intros [->|[nb ->]]; reflexivity. Qed.
Lemma after_scan_call0 q p k : after_scan q p -> call_term p k = 0.
Proof. intros [[_ H]|[_ ->]]; [apply rest_call0; auto|reflexivity]. Qed.
Lemma pc_move_call0 q p p' k : pc_move q p p' -> call_term p' k = 0.
Proof. destruct 1; try reflexivity; eauto using rest_call0, after_scan_call0. Qed.

Lemma pres_paid a a' : AInv a -> astep a a' ->
  forall h, cb_count (a_hs a' h) + b2z (is_open (a_hs a' h) && pending (a_hs a' h))
            + call_term (a_pc a' ) h + cnt (pre_set h) (a_snd a') <= sends_begun (a_hs a' h).
Proof.
  intros I St k. pose proof (i_paid _ I k) as Hb.
  pose proof (cnt_nonneg (pre_set k) (a_snd a)) as Hnn.
  destruct St; acbn; try exact Hb; cntsimp; unfold is_open in *; hupd_cases; auto.
  all: try (unfold b2z in *; lia).
  all: try (match goal with Hm : pc_move _ (a_pc ?a) _ |- context[call_term _ ?k] =>
                 rewrite (pc_move_call0 _ _ _ k Hm);
                 pose proof (call_term_nonneg (a_pc a) k); lia end).
  all: try (match goal with Hm : after_scan _ _ |- context[call_term _ ?k] =>
                 rewrite (after_scan_call0 _ _ k Hm) end).
  all: try (match goal with Hm : a_pc _ = _, Hb : _ <= _ |- _ => rewrite Hm in Hb end).
  all: unfold call_term in *; try rewrite Nat.eqb_refl.
  all: try (match goal with |- context[pending (a_hs ?a ?h)] =>
              destruct (hst (a_hs a h)); destruct (pending (a_hs a h)); cbn [andb] in *;
              unfold b2z in *; eqb_cases; lia end).
  - pose proof (scan_head_open _ _ _ I H H0) as Ho. rewrite Ho, H1 in Hb. rewrite Ho. cbn [andb] in *.
    unfold b2z in *. lia.
  - rewrite H1 in Hb. destruct (hst (a_hs a h)); cbn [andb] in *; unfold b2z in *; lia.
  - rewrite H1 in Hb. destruct (hst (a_hs a h)); cbn [andb] in *; unfold b2z in *; lia.
  - destruct H as [[Hp _]|[Hp _]]; rewrite Hp in Hb; cbn [andb];
      destruct (hst (a_hs a c)); destruct (pending (a_hs a c)); cbn [andb] in *; unfold b2z in *; lia.
  - destruct H as [[Hp _]|[Hp _]]; rewrite Hp in Hb; exact Hb.
  - destruct H as [Hp|Hp]; rewrite Hp in Hb; destruct (a_incb a); exact Hb.
  - destruct H as [Hp|Hp]; rewrite Hp in Hb; destruct (a_incb a); exact Hb.
Qed.

Lemma pres_cl a a' : AInv a -> astep a a' -> forall h, In h (a_cl a') -> unl (a_hs a' h) = true.
Proof.
  intros I St k. pose proof (i_cl _ I k) as Hb.
  destruct St; acbn; try exact Hb; hupd_cases; auto.
  intros [Hc|Hin]; [congruence|auto].
Qed.

Lemma astep_inv a a' : AInv a -> astep a a' -> AInv a'.
Proof.
  intros I St. constructor.
  - eapply pres_efd; eauto.
  - eapply pres_busy; eauto.
  - eapply pres_n2; eauto.
  - eapply pres_olink; eauto.
  - eapply pres_q0; eauto.
  - eapply pres_ql; eauto.
  - eapply pres_call; eauto.
  - eapply pres_spin; eauto.
  - eapply pres_unl; eauto.
  - eapply pres_seen; eauto.
  - eapply pres_cl; eauto.
  - eapply pres_wake; eauto.
  - eapply pres_owed; eauto.
  - eapply pres_paid; eauto.
Qed.

(* ---------------------------------------------------------------------- *)
(* Initial states, reachability                                             *)
(* ---------------------------------------------------------------------- *)
Lemma cnt_idle P scripts : (forall sc, P (mkS SIdle sc) = false) ->
  cnt P (map (mkS SIdle) scripts) = 0.
Proof. intros H. induction scripts as [|x r IH]; simpl; [reflexivity|]. rewrite H, IH. reflexivity. Qed.

Lemma hinit_spec cbf n k :
  (k < n)%nat /\ hinit cbf n k = fresh_handle (cbf k) \/ (n <= k)%nat /\ hinit cbf n k = no_handle.
Proof.
  unfold hinit. destruct (Nat.ltb_spec k n); [left|right]; auto.
Qed.

Lemma init_inv cbf n e0 ls beh scripts : 0 <= e0 -> AInv (view (init cbf n e0 ls beh scripts)).
Proof.
  intros He. unfold init, view. cbn [hs snd lp lst efd l_pc l_queue l_incb].
  constructor; cbn [a_hs a_snd a_lst a_efd a_pc a_q a_incb]; unfold aopn, aspin;
    cbn [a_hs a_snd a_lst a_efd a_pc a_q a_incb]; auto.
  - intros h. rewrite cnt_idle by reflexivity.
    destruct (hinit_spec cbf (S n) h) as [[_ ->]|[_ ->]]; reflexivity.
  - intros h. destruct (hinit_spec cbf (S n) h) as [[_ ->]|[_ ->]]; cbn; [congruence|auto].
  - intros h. destruct (hinit_spec cbf (S n) h) as [[Hl ->]|[_ ->]]; cbn; [|discriminate].
    intros _. left. destruct (Nat.eq_dec h n); [left; auto|right; apply in_seq; lia].
  - intros h [[->|Hin]|[]].
    + left. destruct (hinit_spec cbf (S h) h) as [[_ ->]|[Hl _]]; [reflexivity|lia].
    + left. apply in_seq in Hin. destruct (hinit_spec cbf (S n) h) as [[_ ->]|[Hl _]]; [reflexivity|lia].
  - discriminate.
  - intros h [|]; discriminate.
  - intros h. rewrite cnt_idle by reflexivity.
    destruct (hinit_spec cbf (S n) h) as [[_ ->]|[_ ->]]; cbn; [discriminate|].
    intros _. split; [discriminate|reflexivity].
  - intros h. destruct (hinit_spec cbf (S n) h) as [[_ ->]|[_ ->]]; cbn; lia.
  - intros h. destruct (hinit_spec cbf (S n) h) as [[_ ->]|[_ ->]]; cbn; [discriminate|discriminate].
  - intros h. destruct (hinit_spec cbf (S n) h) as [[_ ->]|[_ ->]]; cbn; lia.
  - intros h. rewrite cnt_idle by reflexivity.
    destruct (hinit_spec cbf (S n) h) as [[_ ->]|[_ ->]]; cbn; lia.
Qed.

Definition Inv (s : state) : Prop := AInv (view s).

Inductive reachable (s0 : state) : state -> Prop :=
| reach_init : reachable s0 s0
| reach_step s t s' : reachable s0 s -> step s t = Some s' -> reachable s0 s'.

Lemma run_reachable s0 : forall sched s s', reachable s0 s -> run s sched = Some s' -> reachable s0 s'.
Proof.
  induction sched as [|t r IH]; intros s s' Hr Hrun; simpl in Hrun.
  - inversion Hrun; subst; auto.
  - unfold run in Hrun. simpl in Hrun. destruct (step_gen true s t) eqn:E; [|discriminate].
    eapply IH; [|exact Hrun]. eapply reach_step; eauto.
Qed.

Lemma reachable_inv cbf n e0 ls beh scripts s :
  0 <= e0 -> reachable (init cbf n e0 ls beh scripts) s -> Inv s.
Proof.
  intros He Hr. induction Hr.
  - apply init_inv; auto.
  - eapply astep_inv; eauto. apply step_astep with (t := t); auto.
Qed.

(* ---------------------------------------------------------------------- *)
(* The theorems                                                             *)
(* ---------------------------------------------------------------------- *)
(* the loop thread is outside the scan of uv__async_io *)
Definition outside (l : loop) : bool :=
  match l_pc l with
  | LTop | LPoll _ | LDrain | LDone => true
  | LSpin0 _ | LSpin _ => negb (l_incb l)
  | _ => false
  end.

(* a sender sits between the exchange that read 0 and the eventfd write *)
Definition writer_in_flight (s : state) : Prop :=
  exists i x h, nth_error (snd s) i = Some x /\ s_pc x = SWrite h.
(* the loop is inside the scan of uv__async_io and has not yet passed h *)
Definition scan_not_passed (s : state) (h : nat) : Prop :=
  outside (lp s) = false /\ In h (l_queue (lp s)).
(* a sender is between busy++ and busy-- on h *)
Definition sender_in_cs (s : state) (h : nat) : Prop :=
  exists i x, nth_error (snd s) i = Some x /\ in_cs h x = true.

Lemma outside_view s : aoutside (view s) = outside (lp s).
Proof. reflexivity. Qed.

Lemma wake_invariant s : Inv s ->
  forall h, hst (hs s h) = Open -> pending (hs s h) = true ->
  0 < efd s \/ writer_in_flight s \/ scan_not_passed s h.
Proof.
  intros I h Ho Hp. destruct (i_wake _ I h Ho Hp) as [He|[Hw|Hq]]; auto.
  - right; left. destruct (cnt_pos_ex _ _ Hw) as (i & x & Hn & Hx).
    unfold at_write in Hx. destruct (s_pc x) eqn:E; try discriminate.
    exists i, x, h0. auto.
  - right; right. split; auto. cbn in Hq.
    destruct (outside (lp s)) eqn:Eo; auto.
    pose proof (i_q0 _ I) as H0. rewrite outside_view in H0. cbn in H0. rewrite (H0 Eo) in Hq. destruct Hq.
Qed.

Lemma quiescent_spec s : quiescent s = true ->
  (forall i x, nth_error (snd s) i = Some x -> s_pc x = SIdle) /\
  l_pc (lp s) = LPoll false /\ efd s <= 0.
Proof.
  unfold quiescent. rewrite andb_true_iff. intros [Hs Hl]. split.
  - intros i x Hn. rewrite forallb_forall in Hs. specialize (Hs x (nth_error_In _ _ Hn)).
    unfold sender_idle in Hs. destruct (s_pc x); try discriminate; reflexivity.
  - destruct (l_pc (lp s)); try discriminate. destruct nb; try discriminate. split; [reflexivity|lia].
Qed.

Lemma no_lost_wakeup s : Inv s -> quiescent s = true ->
  forall h, hst (hs s h) = Open -> seen (hs s h) = published (hs s h).
Proof.
  intros I Hq h Ho. destruct (quiescent_spec s Hq) as (Hs & Hpc & He).
  pose proof (i_seen _ I h) as Hle. cbn in Hle.
  destruct (Z.eq_dec (seen (hs s h)) (published (hs s h))) as [|Hne]; auto. exfalso.
  assert (Hlt : seen (hs s h) < published (hs s h)) by lia.
  destruct (i_owed _ I h Ho Hlt) as [Hp|[Hc|Hc]].
  - destruct (wake_invariant s I h Ho Hp) as [H1|[H2|H3]].
    + lia.
    + destruct H2 as (i & x & k & Hn & Hx). rewrite (Hs i x Hn) in Hx. discriminate.
    + destruct H3 as [Hout _]. unfold outside in Hout. rewrite Hpc in Hout. discriminate.
  - destruct (cnt_pos_ex _ _ Hc) as (i & x & Hn & Hx). cbn in Hn.
    unfold pre_set in Hx. rewrite (Hs i x Hn) in Hx. discriminate.
  - cbn in Hc. rewrite Hpc in Hc. discriminate.
Qed.

(* the loop is never left sleeping while a callback is owed: if it is at epoll_pwait
   and some open handle has pending = 1, the eventfd is readable or about to be written *)
Lemma blocked_loop_is_woken s : Inv s -> (exists nb, l_pc (lp s) = LPoll nb) ->
  forall h, hst (hs s h) = Open -> pending (hs s h) = true ->
  0 < efd s \/ writer_in_flight s.
Proof.
  intros I [nb Hpc] h Ho Hp. destruct (wake_invariant s I h Ho Hp) as [H1|[H2|H3]]; auto.
  destruct H3 as [Hout _]. unfold outside in Hout. rewrite Hpc in Hout. discriminate.
Qed.

Lemma cb_only_after_send s : Inv s -> forall h, cb_count (hs s h) <= sends_begun (hs s h).
Proof.
  intros I h. pose proof (i_paid _ I h) as Hp. cbn in Hp.
  pose proof (cnt_nonneg (pre_set h) (snd s)).
  pose proof (call_term_nonneg (l_pc (lp s)) h).
  unfold b2z in Hp. destruct (is_open (hs s h) && pending (hs s h)); lia.
Qed.

(* once uv_close has been called on h: no further callback, and it stays closing *)
Lemma astep_closing_frozen a a' h : AInv a -> astep a a' -> hst (a_hs a h) = Closing ->
  hst (a_hs a' h) = Closing /\ cb_count (a_hs a' h) = cb_count (a_hs a h).
Proof.
  intros I St Hc. destruct St; acbn; auto; hupd_cases; auto.
  exfalso. pose proof (i_call _ I _ H) as Ho. unfold aopn in Ho. congruence.
Qed.

Lemma no_cb_after_close s : Inv s -> forall h, hst (hs s h) = Closing ->
  forall sched s', run s sched = Some s' ->
  hst (hs s' h) = Closing /\ cb_count (hs s' h) = cb_count (hs s h).
Proof.
  intros I h Hc sched. revert s I Hc. induction sched as [|t r IH]; intros s I Hc s' Hrun.
  - inversion Hrun; subst. auto.
  - unfold run in Hrun. simpl in Hrun. destruct (step_gen true s t) eqn:E; [|discriminate].
    pose proof (step_astep s t s0 E) as St.
    destruct (astep_closing_frozen _ _ h I St Hc) as [Hc' Hcb].
    destruct (IH s0 (astep_inv _ _ I St) Hc' s' Hrun) as [H1 H2]. split; auto. cbn in *. congruence.
Qed.

(* uv__async_close returns only when no sender is between busy++ and busy-- *)
Lemma close_returns_when_idle s s' h : Inv s -> step s 0 = Some s' ->
  (l_pc (lp s) = LSpin0 h \/ l_pc (lp s) = LSpin h) ->
  ~ (l_pc (lp s') = LSpin0 h \/ l_pc (lp s') = LSpin h) ->
  busy (hs s' h) = 0 /\ unl (hs s' h) = true /\ pending (hs s' h) = true /\
  (forall i x, nth_error (snd s') i = Some x -> in_cs h x = false).
Proof.
  intros I Hst Hpc Hout.
  assert (Hsp : step s 0 = Some (spin_step s h)).
  { unfold step, step_gen, loop_step. cbv zeta. destruct Hpc as [-> | ->]; reflexivity. }
  rewrite Hsp in Hst. injection Hst as <-.
  destruct (busy (hs s h) =? 0) eqn:Eb.
  - pose proof (spin_exit_view s h Eb) as Hv.
    pose proof (f_equal a_hs Hv) as Hhs. pose proof (f_equal a_snd Hv) as Hsn. cbn in Hhs, Hsn.
    rewrite Hhs, Hsn. unfold hupd. rewrite Nat.eqb_refl. cbn.
    assert (Hb0 : busy (hs s h) = 0) by lia.
    assert (Hno : ~ aopn (view s) h) by (apply (i_spin _ I h); exact Hpc).
    repeat split; auto.
    + apply (i_n2 _ I h Hno).
    + intros i x Hn. pose proof (i_busy _ I h) as Hbz. cbn in Hbz. rewrite Hb0 in Hbz.
      eapply cnt_zero_all; eauto.
  - exfalso. apply Hout. right.
    pose proof (f_equal a_pc (spin_stay_view s h Eb)) as Hp. cbn in Hp. exact Hp.
Qed.

(* after uv__async_close has returned: pending stays 1, nobody is about to write the
   eventfd on the handle's behalf, and this persists *)
Lemma closed_handle_silent s : Inv s -> forall h, unl (hs s h) = true ->
  hst (hs s h) = Closing /\ pending (hs s h) = true /\
  (forall i x, nth_error (snd s) i = Some x -> s_pc x <> SWrite h).
Proof.
  intros I h Hu. destruct (i_unl _ I h Hu) as [Hno Hc].
  assert (Hcl : hst (hs s h) = Closing).
  { unfold aopn in Hno. cbn in Hno. destruct (hst (hs s h)); congruence. }
  repeat split; auto.
  - apply (i_n2 _ I h Hno).
  - intros i x Hn Hx. cbn in Hc. pose proof (cnt_zero_all _ _ _ _ Hc Hn) as Hz.
    unfold at_write_h in Hz. rewrite Hx, Nat.eqb_refl in Hz. discriminate.
Qed.

(* close_cb(h) runs only after uv_close(h) has returned *)
Lemma close_cb_after_close s : Inv s -> forall h,
  In h (l_closing (lp s)) \/ In h (l_closed (lp s)) -> unl (hs s h) = true.
Proof.
  intros I h Hin. apply (i_cl _ I h). cbn. apply in_or_app. exact Hin.
Qed.

Lemma astep_unl_stable a a' h : astep a a' -> unl (a_hs a h) = true -> unl (a_hs a' h) = true.
Proof. intros St Hu. destruct St; acbn; auto; hupd_cases; auto. Qed.

Lemma unl_stable s h : unl (hs s h) = true ->
  forall sched s', run s sched = Some s' -> unl (hs s' h) = true.
Proof.
  intros Hu sched. revert s Hu. induction sched as [|t r IH]; intros s Hu s' Hrun.
  - inversion Hrun; subst; auto.
  - unfold run in Hrun. simpl in Hrun. destruct (step_gen true s t) eqn:E; [|discriminate].
    apply (IH s0); auto. exact (astep_unl_stable _ _ h (step_astep s t s0 E) Hu).
Qed.

(* ---------------------------------------------------------------------- *)
(* Witnesses                                                                *)
(* ---------------------------------------------------------------------- *)
Definition nobeh : nat -> list cbop := fun _ => [].
Definition allcb : nat -> bool := fun _ => true.

(* one handle, one sender sending twice, uv_run(DEFAULT) *)
Definition w_init : state := init allcb 1 0 [OpRun true] nobeh [[0%nat; 0%nat]].
Definition w_sched : list nat :=
  [1; 1; 1; 1; 1; 1;      (* first send: publish, load, busy++, exchange, write, busy-- *)
   0; 0; 0; 0; 0; 0;      (* loop: uv_run -> poll; poll; (drain | scan wq_async); ...; callback; return *)
   1; 1; 1; 1; 1; 1;      (* second send, while the loop is between scan and drain *)
   0]%nat.

Lemma ex_of_check (o : option state) (P : state -> bool) :
  (match o with Some s => P s | None => false end) = true -> exists s, o = Some s /\ P s = true.
Proof. destruct o as [s|]; [intros H; exists s; auto|discriminate]. Qed.

Ltac split_bools H :=
  repeat (apply andb_true_iff in H; let H' := fresh "Hb" in destruct H as [H H']).

(* the variant that scans before it drains loses the second wake-up *)
Lemma scan_before_drain_loses_wakeup :
  exists s, run_gen false w_init w_sched = Some s /\ quiescent s = true /\
            hst (hs s 0%nat) = Open /\ seen (hs s 0%nat) = 1 /\ published (hs s 0%nat) = 2.
Proof.
  destruct (ex_of_check (run_gen false w_init w_sched)
    (fun s => quiescent s && is_open (hs s 0%nat) && (seen (hs s 0%nat) =? 1) && (published (hs s 0%nat) =? 2)))
    as (s & Hr & Hc); [vm_compute; reflexivity|].
  exists s. split; [exact Hr|]. clear Hr. rewrite !andb_true_iff in Hc. destruct Hc as [[[H1 H2] H3] H4].
  unfold is_open in H2. destruct (hst (hs s 0%nat)); [|discriminate]. repeat split; auto; lia.
Qed.

(* the same schedule on the code as it is: the loop is not blocked *)
Lemma drain_before_scan_same_schedule :
  exists s, run w_init w_sched = Some s /\ quiescent s = false /\ 0 < efd s.
Proof.
  destruct (ex_of_check (run w_init w_sched) (fun s => negb (quiescent s) && (0 <? efd s)))
    as (s & Hr & Hc); [vm_compute; reflexivity|].
  exists s. split; [exact Hr|]. clear Hr. rewrite !andb_true_iff in Hc. destruct Hc as [H1 H2].
  split; [destruct (quiescent s); auto; discriminate|lia].
Qed.

(* a reachable quiescent state with delivered callbacks (the hypotheses of
   no_lost_wakeup are satisfiable non-trivially) *)
Lemma quiescent_example :
  exists s, run w_init (w_sched ++ [0; 0; 0; 0; 0; 0]%nat) = Some s /\ quiescent s = true /\
            hst (hs s 0%nat) = Open /\ seen (hs s 0%nat) = 2 /\ cb_count (hs s 0%nat) = 2.
Proof.
  destruct (ex_of_check (run w_init (w_sched ++ [0; 0; 0; 0; 0; 0]%nat))
    (fun s => quiescent s && is_open (hs s 0%nat) && (seen (hs s 0%nat) =? 2) && (cb_count (hs s 0%nat) =? 2)))
    as (s & Hr & Hc); [vm_compute; reflexivity|].
  exists s. split; [exact Hr|]. clear Hr. rewrite !andb_true_iff in Hc. destruct Hc as [[[H1 H2] H3] H4].
  unfold is_open in H2. destruct (hst (hs s 0%nat)); [|discriminate]. repeat split; auto; lia.
Qed.

(* A sender that loaded pending = 0 before uv_close stored 1 can be delayed past
   uv_close and past close_cb; it then still increments and decrements busy in the
   handle's memory (it does not write the eventfd and causes no callback). *)
Definition l_init : state := init allcb 1 0 [OpClose 0%nat; OpRun false] nobeh [[0%nat]].
Definition l_sched : list nat := [1; 1; 0; 0; 0; 0; 1]%nat.

Lemma late_sender_touches_closed_handle :
  exists s, run l_init l_sched = Some s /\
            In 0%nat (l_closed (lp s)) /\ unl (hs s 0%nat) = true /\ busy (hs s 0%nat) = 1.
Proof.
  destruct (ex_of_check (run l_init l_sched)
    (fun s => existsb (Nat.eqb 0) (l_closed (lp s)) && unl (hs s 0%nat) && (busy (hs s 0%nat) =? 1)))
    as (s & Hr & Hc); [vm_compute; reflexivity|].
  exists s. split; [exact Hr|]. clear Hr. rewrite !andb_true_iff in Hc. destruct Hc as [[H1 H2] H3].
  apply existsb_exists in H1. destruct H1 as (k & Hin & Hk). apply Nat.eqb_eq in Hk. subst k.
  repeat split; auto; lia.
Qed.

(* ---------------------------------------------------------------------- *)
(* fork(): the child after uv_loop_fork, parent and child side by side      *)
(* ---------------------------------------------------------------------- *)
Lemma reachable_inv_gen s0 s : Inv s0 -> reachable s0 s -> Inv s.
Proof.
  intros I Hr. induction Hr; auto.
  eapply astep_inv; eauto. apply step_astep with (t := t); auto.
Qed.

Lemma reachable_trans s0 s1 s2 : reachable s0 s1 -> reachable s1 s2 -> reachable s0 s2.
Proof. intros H1 H2. induction H2; auto. eapply reach_step; eauto. Qed.

Lemma existsb_eqb_in k l : existsb (Nat.eqb k) l = true <-> In k l.
Proof.
  rewrite existsb_exists. split.
  - intros (x & Hin & He). apply Nat.eqb_eq in He. subst; auto.
  - intros Hin. exists k. split; auto. apply Nat.eqb_refl.
Qed.

Lemma fork_inv s ls beh sc :
  Inv s -> l_pc (lp s) = LTop ->
  (forall k, ~ In k (lst s) -> busy (hs s k) = 0) ->
  Inv (async_fork s ls beh sc).
Proof.
  intros I Hpc Hb0. unfold Inv, async_fork, view.
  cbn [hs snd lp lst efd l_pc l_queue l_incb l_closing l_closed].
  assert (Hq : l_queue (lp s) = []).
  { apply (i_q0 _ I). cbn. unfold aoutside. cbn. rewrite Hpc. reflexivity. }
  assert (Hopen_in : forall k, hst (hs s k) = Open -> In k (lst s)).
  { intros k Ho. destruct (i_olink _ I k Ho) as [H|H]; auto. cbn in H. rewrite Hq in H. destruct H. }
  assert (Hin_open : forall k, In k (lst s) -> hst (hs s k) = Open).
  { intros k Hin. destruct (i_ql _ I k (or_introl Hin)) as [H|[H|H]]; auto; cbn in H; congruence. }
  constructor; cbn [a_hs a_snd a_lst a_efd a_pc a_q a_incb a_cl]; unfold aopn, aspin;
    cbn [a_hs a_snd a_lst a_efd a_pc a_q a_incb a_cl].
  - lia.
  - intros h. rewrite cnt_idle by reflexivity.
    destruct (existsb (Nat.eqb h) (lst s)) eqn:E; cbn; auto.
    apply Hb0. intros Hin. apply existsb_eqb_in in Hin. congruence.
  - intros h Hno. destruct (existsb (Nat.eqb h) (lst s)) eqn:E; cbn in *.
    + exfalso. apply Hno. apply Hin_open. apply existsb_eqb_in. exact E.
    + apply (i_n2 _ I h). exact Hno.
  - intros h Ho. left. apply Hopen_in.
    destruct (existsb (Nat.eqb h) (lst s)); cbn in Ho; exact Ho.
  - reflexivity.
  - intros h [Hin|[]]. left. pose proof (Hin_open h Hin) as Ho.
    destruct (existsb (Nat.eqb h) (lst s)); cbn; exact Ho.
  - discriminate.
  - intros h [|]; discriminate.
  - intros h Hu. rewrite cnt_idle by reflexivity.
    assert (Hu' : unl (hs s h) = true) by (destruct (existsb (Nat.eqb h) (lst s)); cbn in Hu; exact Hu).
    destruct (i_unl _ I h Hu') as [Hno _]. split; [|reflexivity].
    intros Ho. apply Hno. unfold aopn. cbn.
    destruct (existsb (Nat.eqb h) (lst s)); cbn in Ho; exact Ho.
  - intros h. destruct (existsb (Nat.eqb h) (lst s)); cbn; lia.
  - intros h Hin. pose proof (i_cl _ I h Hin) as Hu. cbn in Hu.
    destruct (existsb (Nat.eqb h) (lst s)); cbn; exact Hu.
  - intros h Ho Hp. exfalso.
    destruct (existsb (Nat.eqb h) (lst s)) eqn:E; cbn in *; [discriminate|].
    pose proof (Hopen_in h Ho) as Hin. apply existsb_eqb_in in Hin. congruence.
  - intros h _ Hlt. exfalso. destruct (existsb (Nat.eqb h) (lst s)); cbn in Hlt; lia.
  - intros h. rewrite cnt_idle by reflexivity.
    destruct (existsb (Nat.eqb h) (lst s)) eqn:E; cbn.
    + unfold is_open; cbn. destruct (hst (hs s h)); cbn; lia.
    + unfold is_open; cbn. destruct (hst (hs s h)) eqn:Eh; cbn; try lia.
      exfalso. pose proof (Hopen_in h Eh) as Hin. apply existsb_eqb_in in Hin. congruence.
Qed.

(* the processes' own copies of the counter agree with their channels, which differ *)
Definition synced (y : sys) : Prop :=
  efd (par y) = ctr y (ch_par y) /\ efd (chi y) = ctr y (ch_chi y) /\ ch_par y <> ch_chi y.

Lemma with_efd_id s : with_efd s (efd s) = s.
Proof. destruct s; reflexivity. Qed.

Lemma sys_step_split y c t y' : synced y -> sys_step y c t = Some y' ->
  synced y' /\
  (if c then step (chi y) t = Some (chi y') /\ par y' = par y /\ ctr y' (ch_par y) = ctr y (ch_par y)
   else step (par y) t = Some (par y') /\ chi y' = chi y /\ ctr y' (ch_chi y) = ctr y (ch_chi y)).
Proof.
  intros (Hp & Hc & Hne) Hst. unfold sys_step in Hst. destruct c.
  - rewrite <- Hc, with_efd_id in Hst. destruct (step (chi y) t) as [s'|] eqn:E; [|discriminate].
    injection Hst as <-. unfold synced. cbn. repeat split; auto.
    + rewrite Hp. destruct (Nat.eqb_spec (ch_par y) (ch_chi y)); [contradiction|reflexivity].
    + rewrite Nat.eqb_refl. reflexivity.
    + destruct (Nat.eqb_spec (ch_par y) (ch_chi y)); [contradiction|reflexivity].
  - rewrite <- Hp, with_efd_id in Hst. destruct (step (par y) t) as [s'|] eqn:E; [|discriminate].
    injection Hst as <-. unfold synced. cbn. repeat split; auto.
    + rewrite Nat.eqb_refl. reflexivity.
    + rewrite Hc. destruct (Nat.eqb_spec (ch_chi y) (ch_par y)); [congruence|reflexivity].
    + destruct (Nat.eqb_spec (ch_chi y) (ch_par y)); [congruence|reflexivity].
Qed.

Lemma sys_run_split sched : forall y y', synced y -> sys_run y sched = Some y' ->
  synced y' /\ reachable (par y) (par y') /\ reachable (chi y) (chi y').
Proof.
  induction sched as [|[c t] r IH]; intros y y' Hs Hrun; simpl in Hrun.
  - inversion Hrun; subst. split; [auto|split; constructor].
  - destruct (sys_step y c t) as [y1|] eqn:E; [|discriminate].
    destruct (sys_step_split y c t y1 Hs E) as [Hs1 Hc].
    destruct (IH y1 y' Hs1 Hrun) as (Hs' & Hrp & Hrc). split; auto.
    destruct c.
    + destruct Hc as (Hst & Hpar & _). rewrite Hpar in Hrp. split; auto.
      eapply reachable_trans; [|exact Hrc]. eapply reach_step; [constructor|exact Hst].
    + destruct Hc as (Hst & Hchi & _). rewrite Hchi in Hrc. split; auto.
      eapply reachable_trans; [|exact Hrp]. eapply reach_step; [constructor|exact Hst].
Qed.

Lemma fork_sys_synced s ls beh sc : synced (fork_sys true s ls beh sc).
Proof. unfold synced, fork_sys. cbn. repeat split; auto. Qed.

(* Everything proved for a single loop holds for the child (and the parent) under every
   interleaving of the two processes' steps. *)
Lemma fork_both_inv s ls beh sc sched y' :
  Inv s -> l_pc (lp s) = LTop -> (forall k, ~ In k (lst s) -> busy (hs s k) = 0) ->
  sys_run (fork_sys true s ls beh sc) sched = Some y' ->
  Inv (par y') /\ Inv (chi y') /\ synced y'.
Proof.
  intros I Hpc Hb Hrun.
  destruct (sys_run_split sched _ _ (fork_sys_synced s ls beh sc) Hrun) as (Hs & Hrp & Hrc).
  cbn in Hrp, Hrc. split; [|split; [|exact Hs]].
  - eapply reachable_inv_gen; [exact I|exact Hrp].
  - eapply reachable_inv_gen; [|exact Hrc]. apply fork_inv; auto.
Qed.

(* the variant in which the child keeps the parent's eventfd: the parent's loop consumes
   the child's wake-up *)
Definition f_par : state := init allcb 1 0 [OpNowait] nobeh [].
Definition f_sched : list (bool * nat) :=
  [(true, 1); (true, 1); (true, 1); (true, 1); (true, 1); (true, 1);   (* a send in the child *)
   (false, 0); (false, 0); (false, 0); (false, 0); (false, 0);         (* the parent runs its loop *)
   (true, 0)]%nat.                                                    (* the child enters uv_run *)

Definition loaded_child (y : sys) : state := with_efd (chi y) (ctr y (ch_chi y)).

Lemma shared_channel_loses_wakeup :
  exists y, sys_run (fork_sys false f_par [OpRun true] nobeh [[0%nat]]) f_sched = Some y /\
            quiescent (loaded_child y) = true /\ hst (hs (chi y) 0%nat) = Open /\
            seen (hs (chi y) 0%nat) = 0 /\ published (hs (chi y) 0%nat) = 1.
Proof.
  assert (H : match sys_run (fork_sys false f_par [OpRun true] nobeh [[0%nat]]) f_sched with
              | Some y => quiescent (loaded_child y) && is_open (hs (chi y) 0%nat) &&
                          (seen (hs (chi y) 0%nat) =? 0) && (published (hs (chi y) 0%nat) =? 1)
              | None => false end = true) by (vm_compute; reflexivity).
  destruct (sys_run _ f_sched) as [y|]; [|discriminate]. exists y. split; [reflexivity|].
  rewrite !andb_true_iff in H. destruct H as [[[H1 H2] H3] H4].
  unfold is_open in H2. destruct (hst (hs (chi y) 0%nat)); [|discriminate]. repeat split; auto; lia.
Qed.

(* with a fresh channel the parent's loop finds nothing to drain (its run takes two steps
   instead of five) and the child's loop is not blocked *)
Definition f_sched_fresh : list (bool * nat) :=
  [(true, 1); (true, 1); (true, 1); (true, 1); (true, 1); (true, 1);
   (false, 0); (false, 0); (true, 0)]%nat.

Lemma fresh_channel_same_scenario :
  exists y, sys_run (fork_sys true f_par [OpRun true] nobeh [[0%nat]]) f_sched_fresh = Some y /\
            quiescent (loaded_child y) = false /\ 0 < ctr y (ch_chi y) /\ l_pc (lp (par y)) = LTop.
Proof.
  assert (H : match sys_run (fork_sys true f_par [OpRun true] nobeh [[0%nat]]) f_sched_fresh with
              | Some y => negb (quiescent (loaded_child y)) && (0 <? ctr y (ch_chi y)) &&
                          match l_pc (lp (par y)) with LTop => true | _ => false end
              | None => false end = true) by (vm_compute; reflexivity).
  destruct (sys_run _ f_sched_fresh) as [y|]; [|discriminate]. exists y. split; [reflexivity|].
  rewrite !andb_true_iff in H. destruct H as [[H1 H2] H3].
  split; [destruct (quiescent (loaded_child y)); auto; discriminate|]. split; [lia|].
  destruct (l_pc (lp (par y))); try discriminate; reflexivity.
Qed.

(* ---------------------------------------------------------------------- *)
(* uv_stop() from a callback                                                *)
(* ---------------------------------------------------------------------- *)
(* two handles, a send outstanding on both when the loop wakes, the first callback calls
   uv_stop(), then uv_run(DEFAULT) is called again *)
Definition sb_beh : nat -> list cbop := fun k => match k with O => [CbStop] | _ => [] end.
Definition sb_init : state := init allcb 2 0 [OpRun true; OpRun true] sb_beh [[0%nat]; [1%nat]].
Definition sb_sched : list nat :=
  [1; 1; 1; 1; 1; 1;  2; 2; 2; 2; 2; 2;     (* both sends complete *)
   0; 0; 0; 0; 0; 0; 0;                     (* uv_run: poll, drain, scan wq_async, scan h0, callback, uv_stop *)
   0;                                       (* callback returns *)
   0]%nat.                                  (* variant: second uv_run -> blocked; as is: scan h1 *)

(* the variant that leaves the pass after uv_stop() loses the wake-up of the second handle *)
Lemma stop_break_loses_wakeup :
  exists s, run_stopbreak sb_init sb_sched = Some s /\ quiescent s = true /\
            hst (hs s 1%nat) = Open /\ pending (hs s 1%nat) = true /\
            seen (hs s 1%nat) = 0 /\ published (hs s 1%nat) = 1.
Proof.
  destruct (ex_of_check (run_stopbreak sb_init sb_sched)
    (fun s => quiescent s && is_open (hs s 1%nat) && pending (hs s 1%nat) &&
              (seen (hs s 1%nat) =? 0) && (published (hs s 1%nat) =? 1)))
    as (s & Hr & Hc); [vm_compute; reflexivity|].
  exists s. split; [exact Hr|]. clear Hr. rewrite !andb_true_iff in Hc. destruct Hc as [[[[H1 H2] H3] H4] H5].
  unfold is_open in H2. destruct (hst (hs s 1%nat)); [|discriminate]. repeat split; auto; lia.
Qed.

(* the code as it is examines every handle of the snapshot: on the same schedule continued,
   both callbacks have run before uv_run returns because of the stop flag *)
Lemma stop_examines_all_handles :
  exists s, run sb_init (sb_sched ++ [0; 0]%nat) = Some s /\ l_pc (lp s) = LTop /\
            l_stop (lp s) = false /\ cb_count (hs s 0%nat) = 1 /\ cb_count (hs s 1%nat) = 1 /\
            seen (hs s 1%nat) = 1.
Proof.
  destruct (ex_of_check (run sb_init (sb_sched ++ [0; 0]%nat))
    (fun s => match l_pc (lp s) with LTop => true | _ => false end && negb (l_stop (lp s)) &&
              (cb_count (hs s 0%nat) =? 1) && (cb_count (hs s 1%nat) =? 1) && (seen (hs s 1%nat) =? 1)))
    as (s & Hr & Hc); [vm_compute; reflexivity|].
  exists s. split; [exact Hr|]. clear Hr. rewrite !andb_true_iff in Hc. destruct Hc as [[[[H1 H2] H3] H4] H5].
  destruct (l_pc (lp s)); try discriminate. destruct (l_stop (lp s)); try discriminate.
  repeat split; auto; lia.
Qed.

(* ---------------------------------------------------------------------- *)
(* Handles created with a NULL callback                                     *)
(* ---------------------------------------------------------------------- *)
(* handle 0 has no callback (a pure waker); one sender sends on it twice *)
Definition nc_cbf : nat -> bool := fun k => negb (Nat.eqb k 0).
Definition nc_init : state := init nc_cbf 1 0 [OpRun true] nobeh [[0%nat; 0%nat]].
Definition nc_sched1 : list nat :=
  [1; 1; 1; 1; 1; 1;     (* first send *)
   0; 0; 0; 0; 0]%nat.   (* uv_run: poll, drain, scan wq_async, scan h0, back to epoll_pwait *)

(* the variant that tests the callback before the exchange: the flag stays set, the second
   send returns at the pending check and the loop is never woken again *)
Lemma null_check_first_loses_wakeup :
  exists s, run_nullfirst nc_init (nc_sched1 ++ [1; 1]%nat) = Some s /\ quiescent s = true /\
            hst (hs s 0%nat) = Open /\ pending (hs s 0%nat) = true /\
            seen (hs s 0%nat) = 0 /\ published (hs s 0%nat) = 2.
Proof.
  destruct (ex_of_check (run_nullfirst nc_init (nc_sched1 ++ [1; 1]%nat))
    (fun s => quiescent s && is_open (hs s 0%nat) && pending (hs s 0%nat) &&
              (seen (hs s 0%nat) =? 0) && (published (hs s 0%nat) =? 2)))
    as (s & Hr & Hc); [vm_compute; reflexivity|].
  exists s. split; [exact Hr|]. clear Hr. rewrite !andb_true_iff in Hc. destruct Hc as [[[[H1 H2] H3] H4] H5].
  unfold is_open in H2. destruct (hst (hs s 0%nat)); [|discriminate]. repeat split; auto; lia.
Qed.

(* the code as it is: the first wake-up is consumed (flag cleared), so the second send
   writes the eventfd again and the loop leaves epoll_pwait once more *)
Lemma null_callback_handle_wakes_loop :
  exists s, run nc_init (nc_sched1 ++ [1; 1; 1; 1; 1; 1; 0; 0; 0; 0]%nat) = Some s /\
            quiescent s = true /\ pending (hs s 0%nat) = false /\ cb_count (hs s 0%nat) = 0 /\
            seen (hs s 0%nat) = 2 /\ published (hs s 0%nat) = 2.
Proof.
  destruct (ex_of_check (run nc_init (nc_sched1 ++ [1; 1; 1; 1; 1; 1; 0; 0; 0; 0]%nat))
    (fun s => quiescent s && negb (pending (hs s 0%nat)) && (cb_count (hs s 0%nat) =? 0) &&
              (seen (hs s 0%nat) =? 2) && (published (hs s 0%nat) =? 2)))
    as (s & Hr & Hc); [vm_compute; reflexivity|].
  exists s. split; [exact Hr|]. clear Hr. rewrite !andb_true_iff in Hc. destruct Hc as [[[[H1 H2] H3] H4] H5].
  destruct (pending (hs s 0%nat)); [discriminate|]. repeat split; auto; lia.
Qed.
