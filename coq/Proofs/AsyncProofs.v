(* Proofs about Model/Async.v: the invariants of uv_async_send / uv__async_io /
   uv__async_close under every sequentially consistent interleaving. *)
From UV Require Import Lib.Base Model.Async.

Local Open Scope Z_scope.

(* ---------------------------------------------------------------------- *)
(* Counting senders                                                         *)
(* ---------------------------------------------------------------------- *)
Definition b2z (b : bool) : Z := if b then 1 else 0.

Fixpoint cnt (P : sender -> bool) (l : list sender) : Z :=
  match l with
  | [] => 0
  | x :: r => b2z (P x) + cnt P r
  end.

Lemma cnt_nonneg P l : 0 <= cnt P l.
Proof. induction l as [|x r IH]; simpl; [lia|]. unfold b2z; destruct (P x); lia. Qed.

Lemma cnt_upd P l : forall i x y,
  nth_error l i = Some x ->
  cnt P (upd i (fun _ => y) l) = cnt P l - b2z (P x) + b2z (P y).
Proof.
  induction l as [|a r IH]; intros [|i] x y H; simpl in *; try discriminate.
  - inversion H; subst. lia.
  - rewrite (IH i x y H). lia.
Qed.

Lemma cnt_pos_ex P l : 0 < cnt P l ->
  exists i x, nth_error l i = Some x /\ P x = true.
Proof.
  induction l as [|a r IH]; simpl; intros H; [lia|].
  destruct (P a) eqn:Ha.
  - exists O, a. split; auto.
  - unfold b2z in H. destruct (IH ltac:(lia)) as (i & x & Hi & Hx). exists (S i), x. split; auto.
Qed.

Lemma cnt_ex_pos P l i x : nth_error l i = Some x -> P x = true -> 0 < cnt P l.
Proof.
  revert i; induction l as [|a r IH]; intros [|i] H Hx; simpl in *; try discriminate.
  - inversion H; subst. rewrite Hx. pose proof (cnt_nonneg P r). unfold b2z. lia.
  - pose proof (IH i H Hx). unfold b2z. destruct (P a); lia.
Qed.

Lemma cnt_zero_all P l i x : cnt P l = 0 -> nth_error l i = Some x -> P x = false.
Proof.
  intros H0 Hn. destruct (P x) eqn:Hx; auto.
  pose proof (cnt_ex_pos P l i x Hn Hx). lia.
Qed.

Lemma cnt_le P Q l : (forall x, P x = true -> Q x = true) -> cnt P l <= cnt Q l.
Proof.
  intros H. induction l as [|a r IH]; simpl; [lia|].
  destruct (P a) eqn:Ha.
  - rewrite (H a Ha). lia.
  - unfold b2z. destruct (Q a); lia.
Qed.

(* ---------------------------------------------------------------------- *)
(* Where a sender is                                                        *)
(* ---------------------------------------------------------------------- *)
(* between busy++ (S2) and busy-- (S5) on handle h *)
Definition in_cs (h : nat) (x : sender) : bool :=
  match s_pc x with
  | SBusy k | SWrite k | SDec k => Nat.eqb k h
  | _ => false
  end.
(* has published on h, has not yet set pending or returned *)
Definition pre_set (h : nat) (x : sender) : bool :=
  match s_pc x with
  | SPub k | SLoaded k | SBusy k => Nat.eqb k h
  | _ => false
  end.
(* between the exchange that read 0 (S3) and the eventfd write (S4) *)
Definition at_write (x : sender) : bool :=
  match s_pc x with SWrite _ => true | _ => false end.
Definition at_write_h (h : nat) (x : sender) : bool :=
  match s_pc x with SWrite k => Nat.eqb k h | _ => false end.

(* ---------------------------------------------------------------------- *)
(* The part of a state the invariants talk about, and the steps seen on it   *)
(* ---------------------------------------------------------------------- *)
Record ast := mkA { a_hs : hmap; a_snd : list sender; a_lst : list nat; a_efd : Z;
                    a_pc : lpc; a_q : list nat; a_incb : bool }.

Definition view (s : state) : ast :=
  mkA (hs s) (snd s) (lst s) (efd s) (l_pc (lp s)) (l_queue (lp s)) (l_incb (lp s)).

(* program counters at which an iteration of uv_run leaves the loop thread *)
Definition rest_pc (p : lpc) : Prop := p = LTop \/ exists nb, p = LPoll nb.
(* after looking at a queue entry / returning from a callback *)
Definition after_scan (q : list nat) (p : lpc) : Prop :=
  (q = [] /\ rest_pc p) \/ (q <> [] /\ p = LScan).

Inductive pc_move (q : list nat) : lpc -> lpc -> Prop :=
| pm_done : pc_move q LTop LDone
| pm_top : pc_move q LTop LTop
| pm_poll nb : pc_move q LTop (LPoll nb)
| pm_drain nb : pc_move q (LPoll nb) LDrain
| pm_idle nb p : rest_pc p -> pc_move q (LPoll nb) p
| pm_cb : pc_move q LInCb LInCb
| pm_ret p : after_scan q p -> pc_move q LInCb p
| pm_scan0 p : q = [] -> rest_pc p -> pc_move q LScan p
| pm_spin0 h : pc_move q (LSpin0 h) (LSpin h)
| pm_spin h : pc_move q (LSpin h) (LSpin h).

Definition snd_to (a : ast) (i : nat) (x : sender) : list sender :=
  upd i (fun _ => x) (a_snd a).

Inductive astep (a : ast) : ast -> Prop :=
| AS_pub i x h r :
    nth_error (a_snd a) i = Some x -> s_pc x = SIdle -> s_script x = h :: r ->
    astep a (mkA (hupd (a_hs a) h publish) (snd_to a i (mkS (SPub h) r))
                 (a_lst a) (a_efd a) (a_pc a) (a_q a) (a_incb a))
| AS_ret i x h :
    nth_error (a_snd a) i = Some x -> s_pc x = SPub h -> pending (a_hs a h) = true ->
    astep a (mkA (a_hs a) (snd_to a i (mkS SIdle (s_script x)))
                 (a_lst a) (a_efd a) (a_pc a) (a_q a) (a_incb a))
| AS_load i x h :
    nth_error (a_snd a) i = Some x -> s_pc x = SPub h -> pending (a_hs a h) = false ->
    astep a (mkA (a_hs a) (snd_to a i (mkS (SLoaded h) (s_script x)))
                 (a_lst a) (a_efd a) (a_pc a) (a_q a) (a_incb a))
| AS_inc i x h :
    nth_error (a_snd a) i = Some x -> s_pc x = SLoaded h ->
    astep a (mkA (hupd (a_hs a) h (add_busy 1)) (snd_to a i (mkS (SBusy h) (s_script x)))
                 (a_lst a) (a_efd a) (a_pc a) (a_q a) (a_incb a))
| AS_xchg i x h :
    nth_error (a_snd a) i = Some x -> s_pc x = SBusy h ->
    astep a (mkA (hupd (a_hs a) h (set_pending true))
                 (snd_to a i (mkS (if pending (a_hs a h) then SDec h else SWrite h) (s_script x)))
                 (a_lst a) (a_efd a) (a_pc a) (a_q a) (a_incb a))
| AS_write i x h :
    nth_error (a_snd a) i = Some x -> s_pc x = SWrite h ->
    astep a (mkA (a_hs a) (snd_to a i (mkS (SDec h) (s_script x)))
                 (a_lst a) (if a_efd a <? efd_max then a_efd a + 1 else a_efd a)
                 (a_pc a) (a_q a) (a_incb a))
| AS_dec i x h :
    nth_error (a_snd a) i = Some x -> s_pc x = SDec h ->
    astep a (mkA (hupd (a_hs a) h (add_busy (-1))) (snd_to a i (mkS SIdle (s_script x)))
                 (a_lst a) (a_efd a) (a_pc a) (a_q a) (a_incb a))
| AL_pc p :
    pc_move (a_q a) (a_pc a) p ->
    astep a (mkA (a_hs a) (a_snd a) (a_lst a) (a_efd a) p (a_q a) (a_incb a))
| AL_drain p :
    a_pc a = LDrain -> after_scan (a_lst a) p ->
    astep a (mkA (a_hs a) (a_snd a) [] 0 p (a_lst a) (a_incb a))
| AL_hit h r :
    a_pc a = LScan -> a_q a = h :: r -> pending (a_hs a h) = true ->
    astep a (mkA (hupd (a_hs a) h (set_pending false)) (a_snd a) (a_lst a ++ [h]) (a_efd a)
                 (LCall h) r (a_incb a))
| AL_miss h r p :
    a_pc a = LScan -> a_q a = h :: r -> pending (a_hs a h) = false -> after_scan r p ->
    astep a (mkA (hupd (a_hs a) h (set_pending false)) (a_snd a) (a_lst a ++ [h]) (a_efd a)
                 p r (a_incb a))
| AL_call h :
    a_pc a = LCall h ->
    astep a (mkA (hupd (a_hs a) h run_cb) (a_snd a) (a_lst a) (a_efd a) LInCb (a_q a) (a_incb a))
| AL_close c b :
    (a_pc a = LTop /\ b = false) \/ (a_pc a = LInCb /\ b = true) ->
    is_open (a_hs a c) = true ->
    astep a (mkA (hupd (a_hs a) c begin_close) (a_snd a) (a_lst a) (a_efd a) (LSpin0 c) (a_q a) b)
| AL_unlink c :
    a_pc a = LSpin0 c \/ a_pc a = LSpin c -> busy (a_hs a c) = 0 ->
    astep a (mkA (hupd (a_hs a) c set_unl) (a_snd a) (remove_h c (a_lst a)) (a_efd a)
                 (if a_incb a then LInCb else LTop) (remove_h c (a_q a)) (a_incb a)).


(* ---------------------------------------------------------------------- *)
(* Every step of the model is an abstract step                              *)
(* ---------------------------------------------------------------------- *)
Ltac break_hyp H :=
  repeat match type of H with
  | (match ?x with _ => _ end) = Some _ => let E := fresh "E" in destruct x eqn:E
  | None = Some _ => discriminate H
  end.

Ltac step_inv H :=
  unfold step, step_gen in H;
  match type of H with
  | (match ?t with O => _ | S _ => _ end) = Some _ => destruct t as [|?i]
  end;
  [ unfold loop_step in H; cbv zeta in H; break_hyp H
  | unfold sender_step in H; cbv zeta in H; break_hyp H ];
  injection H as H; subst.

Ltac simp :=
  unfold view, finish_iter, scan_next, detach, close_begin, spin_step, poll_point, run_closing,
         lpc_to, set_sender, emit, with_hs, with_snd, with_lp, with_lst, with_efd,
         set_pc, set_script, set_queue, set_cbops, set_incb, set_mode, set_cbk, set_active,
         set_closing, set_closed;
  cbn [hs snd lp lst efd out l_pc l_script l_queue l_cbops l_incb l_mode l_cbk l_closing
       l_active l_closed l_beh s_pc s_script].

Ltac simp_in H :=
  unfold view, finish_iter, scan_next, detach, close_begin, spin_step, poll_point, run_closing,
         lpc_to, set_sender, emit, with_hs, with_snd, with_lp, with_lst, with_efd,
         set_pc, set_script, set_queue, set_cbops, set_incb, set_mode, set_cbk, set_active,
         set_closing, set_closed in H;
  cbn [hs snd lp lst efd out l_pc l_script l_queue l_cbops l_incb l_mode l_cbk l_closing
       l_active l_closed l_beh s_pc s_script] in H.

Lemma rest_top : rest_pc LTop. Proof. left; reflexivity. Qed.
Lemma rest_poll nb : rest_pc (LPoll nb). Proof. right; eexists; reflexivity. Qed.
#[local] Hint Resolve rest_top rest_poll : core.

(* the program counter finish_iter leaves *)
Lemma finish_iter_view s :
  exists p, rest_pc p /\
    view (finish_iter s) = mkA (hs s) (snd s) (lst s) (efd s) p (l_queue (lp s)) (l_incb (lp s)).
Proof.
  unfold finish_iter. cbv zeta.
  destruct (l_mode (lp (run_closing s)) && alive (run_closing s)).
  - simp. eexists; split; [|reflexivity]. auto.
  - simp. eexists; split; [|reflexivity]. auto.
Qed.

Lemma scan_next_view s :
  exists p, after_scan (l_queue (lp s)) p /\
    view (scan_next true s) = mkA (hs s) (snd s) (lst s) (efd s) p (l_queue (lp s)) (l_incb (lp s)).
Proof.
  unfold scan_next. destruct (l_queue (lp s)) eqn:E.
  - destruct (finish_iter_view s) as (p & Hp & Hv). exists p. split; [left; auto|].
    rewrite Hv, E. reflexivity.
  - exists LScan. split; [right; split; [discriminate|reflexivity]|]. simp. rewrite E. reflexivity.
Qed.

Lemma view_eta s : view s = mkA (hs s) (snd s) (lst s) (efd s) (l_pc (lp s)) (l_queue (lp s)) (l_incb (lp s)).
Proof. reflexivity. Qed.

Ltac pcmove := apply AL_pc; cbn [a_pc a_q view];
  repeat match goal with H : l_pc _ = _ |- _ => rewrite H end.

Lemma close_begin_astep s s1 h b :
  view s1 = mkA (hs s) (snd s) (lst s) (efd s) (l_pc (lp s)) (l_queue (lp s)) (l_incb (lp s)) ->
  (l_pc (lp s) = LTop /\ b = false) \/ (l_pc (lp s) = LInCb /\ b = true) ->
  astep (view s) (view (close_begin s1 h b)).
Proof.
  intros Hv Hpc. unfold close_begin.
  assert (Hhs : hs s1 = hs s) by (injection Hv; auto).
  destruct (is_open (hs s1 h)) eqn:Eo.
  - rewrite Hhs in Eo. simp.
    pose proof (f_equal a_snd Hv) as H2; pose proof (f_equal a_lst Hv) as H3;
    pose proof (f_equal a_efd Hv) as H4; pose proof (f_equal a_q Hv) as H5.
    cbn in H2, H3, H4, H5. rewrite Hhs, H2, H3, H4, H5.
    apply (AL_close (view s) h b); auto.
  - rewrite Hv. pcmove. destruct Hpc as [[-> _]|[-> _]]; constructor.
Qed.

Lemma spin_exit_view s h : (busy (hs s h) =? 0) = true ->
  view (spin_step s h) =
  mkA (hupd (hs s) h set_unl) (snd s) (remove_h h (lst s)) (efd s)
      (if l_incb (lp s) then LInCb else LTop) (remove_h h (l_queue (lp s))) (l_incb (lp s)).
Proof. intros H. unfold spin_step. rewrite H. reflexivity. Qed.

Lemma spin_stay_view s h : (busy (hs s h) =? 0) = false ->
  view (spin_step s h) =
  mkA (hs s) (snd s) (lst s) (efd s) (LSpin h) (l_queue (lp s)) (l_incb (lp s)).
Proof. intros H. unfold spin_step. rewrite H. reflexivity. Qed.

Lemma step_astep s t s' : step s t = Some s' -> astep (view s) (view s').
Proof.
  intros H. step_inv H.
  - simp. pcmove. constructor.
  - simp. pcmove. constructor.
  - simp. pcmove. constructor.
  - apply close_begin_astep; [reflexivity | left; auto].
  - simp. pcmove. constructor.
  - destruct (finish_iter_view s) as (p & Hp & Hv). rewrite Hv. pcmove. constructor; auto.
  - destruct (scan_next_view (detach (with_efd s 0))) as (p & Hp & Hv). rewrite Hv.
    simp. simp_in Hp. apply (AL_drain (view s)); auto.
  - destruct (scan_next_view s) as (p & Hp & Hv). rewrite Hv. pcmove.
    rewrite E0 in Hp. destruct Hp as [[_ Hp]|[Hp _]]; [|congruence]. constructor; auto.
  - simp. apply (AL_hit (view s) n l); auto.
  - match goal with |- astep _ (view (scan_next true ?x)) =>
      destruct (scan_next_view x) as (p & Hp & Hv); rewrite Hv end.
    simp. simp_in Hp. apply (AL_miss (view s) n l p); auto.
  - simp. apply (AL_call (view s) h); auto.
  - destruct (scan_next_view s) as (p & Hp & Hv). rewrite Hv. pcmove. constructor; auto.
  - apply close_begin_astep; [reflexivity | right; auto].
  - destruct (busy (hs s h) =? 0) eqn:Eb.
    + rewrite (spin_exit_view s h Eb). apply (AL_unlink (view s) h); [left; auto | cbn; lia].
    + rewrite (spin_stay_view s h Eb). pcmove. constructor.
  - destruct (busy (hs s h) =? 0) eqn:Eb.
    + rewrite (spin_exit_view s h Eb). apply (AL_unlink (view s) h); [right; auto | cbn; lia].
    + rewrite (spin_stay_view s h Eb). pcmove. constructor.
  - simp. eapply (AS_pub (view s)); eauto.
  - simp. eapply (AS_ret (view s)); eauto.
  - simp. eapply (AS_load (view s)); eauto.
  - simp. eapply (AS_inc (view s)); eauto.
  - simp. eapply (AS_xchg (view s)); eauto.
  - simp. eapply (AS_write (view s)); eauto.
  - simp. eapply (AS_dec (view s)); eauto.
Qed.

(* ---------------------------------------------------------------------- *)
(* The invariant                                                            *)
(* ---------------------------------------------------------------------- *)
Definition aopn (a : ast) (h : nat) : Prop := hst (a_hs a h) = Open.
(* the loop thread is inside uv__async_spin on h *)
Definition aspin (h : nat) (a : ast) : Prop := a_pc a = LSpin0 h \/ a_pc a = LSpin h.
(* the loop thread is outside the scan of uv__async_io *)
Definition aoutside (a : ast) : bool :=
  match a_pc a with
  | LTop | LPoll _ | LDrain | LDone => true
  | LSpin0 _ | LSpin _ => negb (a_incb a)
  | _ => false
  end.
Definition call_term (p : lpc) (h : nat) : Z :=
  match p with LCall k => b2z (Nat.eqb k h) | _ => 0 end.

Record AInv (a : ast) : Prop := mkAInv {
  i_efd : 0 <= a_efd a;
  (* N1: busy counts the senders between busy++ and busy-- *)
  i_busy : forall h, busy (a_hs a h) = cnt (in_cs h) (a_snd a);
  (* N2: once uv_close has been called pending stays 1 *)
  i_n2 : forall h, ~ aopn a h -> pending (a_hs a h) = true;
  i_olink : forall h, aopn a h -> In h (a_lst a) \/ In h (a_q a);
  i_q0 : aoutside a = true -> a_q a = [];
  i_ql : forall h, In h (a_lst a) \/ In h (a_q a) -> aopn a h \/ aspin h a;
  i_call : forall h, a_pc a = LCall h -> aopn a h;
  i_spin : forall h, aspin h a -> ~ aopn a h;
  i_unl : forall h, unl (a_hs a h) = true -> ~ aopn a h /\ cnt (at_write_h h) (a_snd a) = 0;
  i_seen : forall h, seen (a_hs a h) <= published (a_hs a h);
  (* the wake invariant *)
  i_wake : forall h, aopn a h -> pending (a_hs a h) = true ->
           0 < a_efd a \/ 0 < cnt at_write (a_snd a) \/ In h (a_q a);
  (* a callback is owed *)
  i_owed : forall h, aopn a h -> seen (a_hs a h) < published (a_hs a h) ->
           pending (a_hs a h) = true \/ 0 < cnt (pre_set h) (a_snd a) \/ a_pc a = LCall h;
  (* callbacks are paid for by sends *)
  i_paid : forall h, cb_count (a_hs a h) + b2z (is_open (a_hs a h) && pending (a_hs a h))
                     + call_term (a_pc a) h + cnt (pre_set h) (a_snd a) <= sends_begun (a_hs a h)
}.

Ltac eqb_cases :=
  repeat match goal with
  | |- context[Nat.eqb ?a ?b] => destruct (Nat.eqb_spec a b); subst
  | H : context[Nat.eqb ?a ?b] |- _ => destruct (Nat.eqb_spec a b); subst
  end.

Ltac cntsimp :=
  unfold snd_to;
  repeat (erewrite cnt_upd by eassumption);
  unfold in_cs, pre_set, at_write, at_write_h in *; cbn [s_pc];
  repeat match goal with H : s_pc _ = _ |- _ => rewrite H end.

Ltac acbn := cbn [a_hs a_snd a_lst a_efd a_pc a_q a_incb] in *.

