(* Proofs about Model/Fs.v (C11), part F: uv_fs_readlink returns the whole target. *)
From UV Require Import Lib.Base Model.Fs.
Local Open Scope Z_scope.

(* The buffer is larger than every target a symbolic link can have (shorter
   than PATH_MAX), whatever pathconf answers (failure, or a limit that is at
   least PATH_MAX): readlink(2) never truncates and req->ptr is the target. *)
Theorem readlink_whole_target :
  forall (A : Type) (pc : Z) (target : list A),
  pc = -1 \/ PATH_MAX <= pc ->
  Z.of_nat (length target) < PATH_MAX ->
  Z.of_nat (length target) < pathmax_size pc /\ fs_readlink_ptr pc target = target.
Proof.
  intros A pc target Hpc Hlen. unfold fs_readlink_ptr, pathmax_size, PATH_MAX in *.
  destruct (pc =? -1) eqn:E.
  - split; [lia|]. apply firstn_all2. lia.
  - apply Z.eqb_neq in E. split; [lia|]. apply firstn_all2. lia.
Qed.

(* with a buffer of the POSIX minimum (256) a longer target is cut *)
Example readlink_small_buffer_truncates :
  fs_readlink_ptr 256 (repeat 7%nat 300) = repeat 7%nat 256.
Proof. vm_compute. reflexivity. Qed.
