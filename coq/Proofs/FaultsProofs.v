(* C16 - proofs about Model/Faults.v *)
From UV Require Import Lib.Base Model.Faults.
Local Open Scope Z_scope.

(* ---------------------------------------------------------------------- *)
(* the EINTR retry loop                                                     *)
Lemma retry_spec p o lg :
  fst (fst (retry p o lg)) = hd Ok (strip o) /\
  strip (snd (fst (retry p o lg))) = tl (strip o) /\
  fst (fst (retry p o lg)) <> Intr.
Proof.
  revert lg; induction o as [|a o IH]; intros lg; cbn.
  - repeat split; discriminate.
  - destruct a; cbn; try apply IH; repeat split; discriminate.
Qed.

Lemma strip_idem o : strip (strip o) = strip o.
Proof. induction o as [|a o IH]; cbn; auto. destruct a; cbn; congruence. Qed.

Lemma strip_no_intr o : ~ In Intr (strip o).
Proof. induction o as [|a o IH]; cbn; auto. destruct a; cbn; intuition discriminate. Qed.

Lemma strip_In a o : In a (strip o) -> In a o.
Proof. induction o as [|b o IH]; cbn; auto. destruct b; cbn; intuition. Qed.

Lemma strip_app_intr k o : strip (repeat Intr k ++ o) = strip o.
Proof. induction k; cbn; auto. Qed.

(* worlds that differ only in interrupted calls *)
Definition weq (w1 w2 : world) : Prop :=
  w_alloc w1 = w_alloc w2 /\ strip (w_sys w1) = strip (w_sys w2).

Lemma weq_refl w : weq w w.
Proof. split; reflexivity. Qed.
Lemma weq_strip w : weq w (strip_w w).
Proof. split; cbn; [reflexivity | symmetry; apply strip_idem]. Qed.

Lemma sysr_weq p w1 w2 :
  weq w1 w2 -> fst (sysr p w1) = fst (sysr p w2) /\ weq (snd (sysr p w1)) (snd (sysr p w2)).
Proof.
  intros [Ha Hs]. unfold sysr.
  pose proof (retry_spec p (w_sys w1) (w_log w1)) as (A1 & B1 & _).
  pose proof (retry_spec p (w_sys w2) (w_log w2)) as (A2 & B2 & _).
  destruct (retry p (w_sys w1) (w_log w1)) as [[a1 r1] g1].
  destruct (retry p (w_sys w2) (w_log w2)) as [[a2 r2] g2]. cbn in *.
  split; [congruence|]. split; cbn; congruence.
Qed.

Lemma sysr_not_intr p w : fst (sysr p w) <> Intr.
Proof.
  unfold sysr. pose proof (retry_spec p (w_sys w) (w_log w)) as (_ & _ & N).
  destruct (retry p (w_sys w) (w_log w)) as [[a r] g]. exact N.
Qed.

Lemma sysr_answer p w :
  fst (sysr p w) = hd Ok (strip (w_sys w)).
Proof.
  unfold sysr. pose proof (retry_spec p (w_sys w) (w_log w)) as (A & _ & _).
  destruct (retry p (w_sys w) (w_log w)) as [[a r] g]. exact A.
Qed.

Lemma sysr_alloc p w : w_alloc (snd (sysr p w)) = w_alloc w.
Proof. unfold sysr. destruct (retry p (w_sys w) (w_log w)) as [[a r] g]. reflexivity. Qed.

Lemma sysr_fail_in p w e : fst (sysr p w) = Fail e -> In (Fail e) (w_sys w).
Proof.
  rewrite sysr_answer. intros H. apply strip_In.
  destruct (strip (w_sys w)) as [|a r]; cbn in *; [discriminate|]. left; exact H.
Qed.

Lemma alloc_weq p w1 w2 :
  weq w1 w2 -> fst (alloc p w1) = fst (alloc p w2) /\ weq (snd (alloc p w1)) (snd (alloc p w2)).
Proof.
  intros [Ha Hs]. unfold alloc. rewrite Ha.
  destruct (w_alloc w2); cbn; repeat split; auto.
Qed.

Lemma alloc_false_in p w : fst (alloc p w) = false -> In false (w_alloc w).
Proof. unfold alloc. destruct (w_alloc w) as [|[] r]; cbn; intros; try discriminate. now left. Qed.

Lemma alloc_sys p w : w_sys (snd (alloc p w)) = w_sys w.
Proof. unfold alloc. destruct (w_alloc w); reflexivity. Qed.
Lemma alloc_incl p w : incl (w_alloc (snd (alloc p w))) (w_alloc w).
Proof. unfold alloc. destruct (w_alloc w); cbn; [apply incl_refl | apply incl_tl, incl_refl]. Qed.

Definition obs (o : out) := (o_res o, o_led o, o_cb o).

(* ---------------------------------------------------------------------- *)
(* uv__accept                                                               *)
Lemma accept_weq l w1 w2 : weq w1 w2 -> obs (uv_accept_fd l w1) = obs (uv_accept_fd l w2).
Proof.
  intros H. unfold uv_accept_fd. destruct (sysr_weq PAccept4 w1 w2 H) as [E _].
  destruct (sysr PAccept4 w1) as [a1 v1], (sysr PAccept4 w2) as [a2 v2]; cbn in E; subst.
  destruct a2; reflexivity.
Qed.

Lemma accept_fault_safe l w :
  (o_res (uv_accept_fd l w) = Ret RcOk /\ o_led (uv_accept_fd l w) = add_fds 1 l) \/
  (exists e, o_res (uv_accept_fd l w) = Ret (RcErr e) /\ In (Fail e) (w_sys w) /\ o_led (uv_accept_fd l w) = l).
Proof.
  unfold uv_accept_fd. pose proof (sysr_not_intr PAccept4 w) as N.
  pose proof (sysr_fail_in PAccept4 w) as F.
  destruct (sysr PAccept4 w) as [a v]; cbn in *. destruct a.
  - left; split; reflexivity.
  - right; exists e; repeat split; auto.
  - congruence.
Qed.

(* ---------------------------------------------------------------------- *)
(* uv_write2                                                                *)
Lemma write_step_weq s w1 w2 :
  weq w1 w2 -> fst (uv_write_step s w1) = fst (uv_write_step s w2) /\
               weq (snd (uv_write_step s w1)) (snd (uv_write_step s w2)).
Proof.
  intros H. unfold uv_write_step.
  destruct (sysr_weq (if s then PWrite else PWritev) w1 w2 H) as [E W].
  destruct (sysr (if s then PWrite else PWritev) w1) as [a1 v1],
           (sysr (if s then PWrite else PWritev) w2) as [a2 v2]; cbn in *; subst.
  destruct a2 as [|[]|]; cbn; auto.
Qed.

Lemma write2_weq n c e l w1 w2 :
  weq w1 w2 -> obs (uv_write2 n c e l w1) = obs (uv_write2 n c e l w2).
Proof.
  intros H. unfold uv_write2.
  destruct (Nat.ltb 4 n) eqn:B.
  - destruct (alloc_weq PMalloc w1 w2 H) as [E W].
    destruct (alloc PMalloc w1) as [b1 v1], (alloc PMalloc w2) as [b2 v2]; cbn in *; subst.
    destruct b2; cbn; [|reflexivity].
    destruct c; [reflexivity|]. destruct e; [|reflexivity].
    destruct (write_step_weq (Nat.eqb n 1) v1 v2 W) as [E2 _].
    destruct (uv_write_step (Nat.eqb n 1) v1) as [s1 x1], (uv_write_step (Nat.eqb n 1) v2) as [s2 x2];
      cbn in *; subst. destruct s2 as [[]|]; reflexivity.
  - cbn. destruct c; [reflexivity|]. destruct e; [|reflexivity].
    destruct (write_step_weq (Nat.eqb n 1) w1 w2 H) as [E2 _].
    destruct (uv_write_step (Nat.eqb n 1) w1) as [s1 x1], (uv_write_step (Nat.eqb n 1) w2) as [s2 x2];
      cbn in *; subst. destruct s2 as [[]|]; reflexivity.
Qed.

(* the full statement for the current code (allocate, then register) *)
Lemma write2_fault_safe n c e l w :
  let o := uv_write2 n c e l w in
  (o_res o = Ret RcOk /\ l_reqs (o_led o) = l_reqs l + 1) \/
  (o_res o = Ret (RcErr ENOMEM) /\ In false (w_alloc w) /\ o_led o = l).
Proof.
  cbv zeta. unfold uv_write2. destruct (Nat.ltb 4 n) eqn:B.
  - pose proof (alloc_false_in PMalloc w) as F.
    destruct (alloc PMalloc w) as [b v]; cbn in *. destruct b; cbn.
    + left. destruct c; [split; reflexivity|]. destruct e; [|split; reflexivity].
      match goal with |- context [uv_write_step ?a ?b] => destruct (uv_write_step a b) as [s x] end.
      destruct s as [[]|]; split; reflexivity.
    + right. repeat split; auto.
  - cbn. left. destruct c; [split; reflexivity|]. destruct e; [|split; reflexivity].
    match goal with |- context [uv_write_step ?a ?b] => destruct (uv_write_step a b) as [s x] end.
    destruct s as [[]|]; split; reflexivity.
Qed.

(* history: the code before /repo f63c297 registered the request first *)
Definition uv_write2_unfixed (nbufs : nat) (connecting empty_queue : bool) (l : ledger) (w : world) : out :=
  let l := add_reqs 1 l in
  let big := Nat.ltb 4 nbufs in
  let '(ok, w) := if big then alloc PMalloc w else (true, w) in
  if negb ok then mkO (Ret (RcErr ENOMEM)) l None w
  else
    let l := if big then add_mem 1 l else l in
    if connecting then mkO (Ret RcOk) l None w
    else if empty_queue then
      let '(s, w) := uv_write_step (Nat.eqb nbufs 1) w in
      match s with
      | WDone RcOk => mkO (Ret RcOk) (if big then add_mem (-1) l else l) (Some RcOk) w
      | WDone st => mkO (Ret RcOk) l (Some st) w
      | WQueued => mkO (Ret RcOk) l None w
      end
    else mkO (Ret RcOk) l None w.

Lemma write2_unfixed_refuted :
  exists (w : world) (l : ledger),
    o_res (uv_write2_unfixed 6 false true l w) = Ret (RcErr ENOMEM) /\
    o_led (uv_write2_unfixed 6 false true l w) = add_reqs 1 l /\ o_led (uv_write2_unfixed 6 false true l w) <> l.
Proof.
  exists (mkW [false] [] []), l0. split; [reflexivity|]. split; [reflexivity|]. vm_compute. discriminate.
Qed.

(* the two variants differ in nothing else *)
Lemma write2_unfixed_same_on_success n c e l w :
  o_res (uv_write2 n c e l w) = Ret RcOk -> obs (uv_write2_unfixed n c e l w) = obs (uv_write2 n c e l w).
Proof.
  unfold uv_write2, uv_write2_unfixed. destruct (Nat.ltb 4 n) eqn:B.
  - destruct (alloc PMalloc w) as [b v]. destruct b; cbn; [|discriminate]. intros _.
    destruct c; [destruct l; reflexivity|]. destruct e; [|destruct l; reflexivity].
    match goal with |- context [uv_write_step ?a ?b] => destruct (uv_write_step a b) as [s x] end.
    destruct s as [[]|]; destruct l; reflexivity.
  - cbn. intros _. destruct c; [reflexivity|]. destruct e; [|reflexivity].
    match goal with |- context [uv_write_step ?a ?b] => destruct (uv_write_step a b) as [s x] end.
    destruct s as [[]|]; reflexivity.
Qed.

(* ---------------------------------------------------------------------- *)
(* uv_udp_send                                                              *)
Lemma udp_send_weq n e p a l w1 w2 :
  weq w1 w2 -> obs (uv_udp_send n e p a l w1) = obs (uv_udp_send n e p a l w2).
Proof.
  intros H. unfold uv_udp_send.
  assert (K : forall l' v1 v2, weq v1 v2 ->
     obs (if e && negb p then
            let '(a0, w) := sysr PSendmsg v1 in
            match a0 with
            | Ok => mkO (Ret RcOk) l' (Some RcOk) w
            | Fail EAGAIN | Fail ENOBUFS => mkO (Ret RcOk) l' None w
            | Fail e0 => mkO (Ret RcOk) l' (Some (RcErr e0)) w
            | Intr => mkO (Ret RcOk) l' (Some RcIntr) w
            end else mkO (Ret RcOk) l' None v1) =
     obs (if e && negb p then
            let '(a0, w) := sysr PSendmsg v2 in
            match a0 with
            | Ok => mkO (Ret RcOk) l' (Some RcOk) w
            | Fail EAGAIN | Fail ENOBUFS => mkO (Ret RcOk) l' None w
            | Fail e0 => mkO (Ret RcOk) l' (Some (RcErr e0)) w
            | Intr => mkO (Ret RcOk) l' (Some RcIntr) w
            end else mkO (Ret RcOk) l' None v2)).
  { intros l' v1 v2 W. destruct (e && negb p); [|reflexivity].
    destruct (sysr_weq PSendmsg v1 v2 W) as [E _].
    destruct (sysr PSendmsg v1) as [a1 x1], (sysr PSendmsg v2) as [a2 x2]; cbn in *; subst.
    destruct a2 as [|[]|]; reflexivity. }
  destruct (Nat.ltb 4 n).
  - destruct (alloc_weq PMalloc w1 w2 H) as [E W].
    destruct (alloc PMalloc w1) as [b1 v1], (alloc PMalloc w2) as [b2 v2]; cbn in *; subst.
    destruct b2; cbn; [|reflexivity]. apply K; exact W.
  - cbn. apply K; exact H.
Qed.

Lemma udp_send_fault_safe n e p a l w :
  let o := uv_udp_send n e p a l w in
  o_res o = Ret RcOk \/ (o_res o = Ret (RcErr ENOMEM) /\ In false (w_alloc w) /\ o_led o = l).
Proof.
  cbv zeta. unfold uv_udp_send.
  assert (K : forall l' v, o_res (if e && negb p then
            let '(a0, w) := sysr PSendmsg v in
            match a0 with
            | Ok => mkO (Ret RcOk) l' (Some RcOk) w
            | Fail EAGAIN | Fail ENOBUFS => mkO (Ret RcOk) l' None w
            | Fail e0 => mkO (Ret RcOk) l' (Some (RcErr e0)) w
            | Intr => mkO (Ret RcOk) l' (Some RcIntr) w
            end else mkO (Ret RcOk) l' None v) = Ret RcOk).
  { intros l' v. destruct (e && negb p); [|reflexivity].
    destruct (sysr PSendmsg v) as [a1 x1]. destruct a1 as [|[]|]; reflexivity. }
  destruct (Nat.ltb 4 n).
  - pose proof (alloc_false_in PMalloc w) as F.
    destruct (alloc PMalloc w) as [b v]; cbn in *. destruct b; cbn.
    + left. apply K.
    + right. repeat split; auto. destruct l; unfold add_reqs; cbn. f_equal; lia.
  - cbn. left. apply K.
Qed.

(* ---------------------------------------------------------------------- *)
(* wake-up channels, reads                                                  *)
Lemma async_send_weq l w1 w2 : weq w1 w2 -> obs (uv_async_send l w1) = obs (uv_async_send l w2).
Proof.
  intros H. unfold uv_async_send. destruct (sysr_weq PWrite w1 w2 H) as [E _].
  destruct (sysr PWrite w1) as [a1 v1], (sysr PWrite w2) as [a2 v2]; cbn in E; subst.
  destruct a2 as [|[]|]; reflexivity.
Qed.

(* an eventfd write can only answer success, EAGAIN (counter saturated) or EINTR *)
Lemma async_send_safe l w :
  Forall (fun a => a = Ok \/ a = Fail EAGAIN \/ a = Intr) (w_sys w) ->
  o_res (uv_async_send l w) = Ret RcOk /\ o_led (uv_async_send l w) = l.
Proof.
  intros F. unfold uv_async_send.
  pose proof (sysr_answer PWrite w) as A. pose proof (sysr_not_intr PWrite w) as N.
  destruct (sysr PWrite w) as [a v]; cbn in *.
  destruct a as [|e|]; [split; reflexivity| |congruence].
  assert (In (Fail e) (w_sys w)) as I.
  { apply strip_In. destruct (strip (w_sys w)); cbn in A; [discriminate|]. left; auto. }
  rewrite Forall_forall in F. destruct (F _ I) as [X|[X|X]]; try discriminate.
  inversion X; subst. split; reflexivity.
Qed.

Lemma async_io_strip o lg lg' :
  fst (fst (uv_async_io o lg)) = fst (fst (uv_async_io (strip o) lg')).
Proof.
  revert lg lg'; induction o as [|a o IH]; intros; cbn; [reflexivity|].
  destruct a as [|[]|]; cbn; auto.
Qed.

Lemma signal_event_strip o lg lg' :
  fst (fst (uv_signal_event o lg)) = fst (fst (uv_signal_event (strip o) lg')).
Proof.
  revert lg lg'; induction o as [|a o IH]; intros; cbn; [reflexivity|].
  destruct a as [|[]|]; cbn; auto.
Qed.

(* with the answers a non-blocking pipe read can give, the message is always dispatched *)
Lemma signal_event_dispatched o lg :
  Forall (fun a => a = Ok \/ a = Fail EAGAIN \/ a = Intr) o ->
  fst (fst (uv_signal_event o lg)) = (Ret RcOk, true).
Proof.
  revert lg; induction o as [|a o IH]; intros lg F; cbn; [reflexivity|].
  inversion F as [|x y H1 H2]; subst. destruct H1 as [X|[X|X]]; subst; cbn; auto.
Qed.

Lemma async_io_safe o lg :
  Forall (fun a => a = Ok \/ a = Fail EAGAIN \/ a = Intr) o ->
  fst (fst (uv_async_io o lg)) = Ret RcOk.
Proof.
  revert lg; induction o as [|a o IH]; intros lg F; cbn; [reflexivity|].
  inversion F as [|x y H1 H2]; subst. destruct H1 as [X|[X|X]]; subst; cbn; auto.
Qed.

Lemma read_step_weq w1 w2 : weq w1 w2 -> fst (uv_read_step w1) = fst (uv_read_step w2).
Proof.
  intros H. unfold uv_read_step. destruct (sysr_weq PRead w1 w2 H) as [E _].
  destruct (sysr PRead w1) as [a1 v1], (sysr PRead w2) as [a2 v2]; cbn in E; subst.
  destruct a2 as [|[]|]; reflexivity.
Qed.

(* uv__close_nocheckstdio: the descriptor is gone whatever the answer, EINTR is success *)
Lemma close_fd_spec l w :
  snd (fst (uv_close_fd l w)) = add_fds (-1) l /\
  (hd Ok (w_sys w) = Intr -> fst (fst (uv_close_fd l w)) = RcOk).
Proof.
  unfold uv_close_fd, sys. destruct (w_sys w) as [|a r]; cbn; [split; [reflexivity|discriminate]|].
  destruct a; cbn; split; auto; discriminate.
Qed.

Lemma maybe_resize_spec need l w :
  fst (fst (maybe_resize need l w)) = None \/
  (fst (fst (maybe_resize need l w)) = Some SMaybeResize /\ In false (w_alloc w)).
Proof.
  unfold maybe_resize. destruct need; [|left; reflexivity].
  pose proof (alloc_false_in PRealloc w) as F.
  destruct (alloc PRealloc w) as [b v]. destruct b; cbn in *; [left; reflexivity | right; auto].
Qed.

(* ---------------------------------------------------------------------- *)
(* thread pool start-up, fs PATH/PATH2, getaddrinfo                         *)
Lemma pool_start_spec started n w :
  fst (pool_start started n w) = None \/ fst (pool_start started n w) = Some SThreadPoolStart.
Proof.
  unfold pool_start. destruct started; [left; reflexivity|].
  revert w; induction n as [|n IH]; intros w; cbn; [left; reflexivity|].
  destruct (sys PPthreadCreate w) as [a v]. destruct a; auto.
Qed.

Lemma pool_start_alloc started n w : incl (w_alloc (snd (pool_start started n w))) (w_alloc w).
Proof.
  unfold pool_start. destruct started; [apply incl_refl|].
  revert w; induction n as [|n IH]; intros w; cbn; [apply incl_refl|].
  unfold sys. destruct (w_sys w) as [|a r]; cbn.
  - apply (IH (mkW (w_alloc w) [] (PPthreadCreate :: w_log w))).
  - destruct a; try apply incl_refl. apply (IH (mkW (w_alloc w) r (PPthreadCreate :: w_log w))).
Qed.

Definition safe_outcome (l : ledger) (w : world) (o : out) : Prop :=
  o_res o = Ret RcOk \/
  (o_res o = Ret (RcErr ENOMEM) /\ In false (w_alloc w) /\ o_led o = l) \/
  (exists s, o_res o = Abort s /\ permitted s = true).

Lemma fs_stat_fault_safe ps l w : safe_outcome l w (uv_fs_stat_async ps l w).
Proof.
  unfold safe_outcome, uv_fs_stat_async.
  pose proof (alloc_false_in PMalloc w) as F.
  destruct (alloc PMalloc w) as [b v]; cbn in *. destruct b; cbn.
  - destruct (alloc PMalloc v) as [b2 v2].
    pose proof (pool_start_spec ps 1 v2) as P.
    destruct (pool_start ps 1 v2) as [ab x]; cbn in *. destruct P as [P|P]; subst.
    + left; reflexivity.
    + right; right. exists SThreadPoolStart; split; reflexivity.
  - right; left. repeat split; auto.
Qed.

Lemma fs_rename_fault_safe ps l w : safe_outcome l w (uv_fs_rename_async ps l w).
Proof.
  unfold safe_outcome, uv_fs_rename_async.
  pose proof (alloc_false_in PMalloc w) as F.
  destruct (alloc PMalloc w) as [b v]; cbn in *. destruct b; cbn.
  - pose proof (pool_start_spec ps 1 v) as P.
    destruct (pool_start ps 1 v) as [ab x]; cbn in *. destruct P as [P|P]; subst.
    + left; reflexivity.
    + right; right. exists SThreadPoolStart; split; reflexivity.
  - right; left. repeat split; auto.
Qed.

Lemma getaddrinfo_fault_safe ps l w : safe_outcome l w (uv_getaddrinfo None ps l w).
Proof.
  unfold safe_outcome, uv_getaddrinfo.
  pose proof (alloc_false_in PMalloc w) as F.
  destruct (alloc PMalloc w) as [b v]; cbn in *. destruct b; cbn.
  - pose proof (pool_start_spec ps 1 v) as P.
    destruct (pool_start ps 1 v) as [ab x]; cbn in *. destruct P as [P|P]; subst.
    + left; reflexivity.
    + right; right. exists SThreadPoolStart; split; reflexivity.
  - right; left. repeat split; auto.
Qed.

Lemma getaddrinfo_idna_error code ps l w :
  o_res (uv_getaddrinfo (Some code) ps l w) = Ret (RcOther code) /\
  o_led (uv_getaddrinfo (Some code) ps l w) = l.
Proof. split; reflexivity. Qed.

(* ---------------------------------------------------------------------- *)
(* uv_fs_poll_start                                                         *)
Lemma fs_poll_start_fault_safe act ps l w : safe_outcome l w (uv_fs_poll_start act ps l w).
Proof.
  unfold safe_outcome, uv_fs_poll_start. destruct act; [left; reflexivity|].
  pose proof (alloc_false_in PCalloc w) as F. pose proof (alloc_incl PCalloc w) as I.
  destruct (alloc PCalloc w) as [b v]; cbn in *. destruct b; cbn.
  - destruct (fs_stat_fault_safe ps (add_mem 1 l) v) as [H|[(H1 & H2 & H3)|(s & H1 & H2)]].
    + rewrite H. left; reflexivity.
    + rewrite H1. cbn. right; left. repeat split; auto. rewrite H3.
      destruct l; unfold add_mem; cbn. f_equal; lia.
    + rewrite H1. cbn. right; right. exists s; split; auto.
  - right; left. repeat split; auto.
Qed.

(* ---------------------------------------------------------------------- *)
(* uv_os_environ                                                            *)
Lemma environ_loop_safe env : forall cnt l w,
  let o := environ_loop env cnt l w in
  o_res o = Ret RcOk \/
  (o_res o = Ret (RcErr ENOMEM) /\ In false (w_alloc w) /\ o_led o = add_mem (- cnt - 1) l).
Proof.
  induction env as [|h env IH]; intros cnt l w; cbn; [left; reflexivity|].
  pose proof (alloc_false_in PMalloc w) as F. pose proof (alloc_incl PMalloc w) as I.
  destruct (alloc PMalloc w) as [b v]; cbn in *. destruct b; cbn.
  - destruct h.
    + destruct (IH (cnt + 1) (add_mem 1 l) v) as [A|(A & B & C)]; [left; auto|].
      right. repeat split; auto. rewrite C. destruct l; unfold add_mem; cbn; f_equal; lia.
    + destruct (IH cnt l v) as [A|(A & B & C)]; [left; auto|]. right; repeat split; auto.
  - right. repeat split; auto.
Qed.

Lemma os_environ_fault_safe env l w :
  let o := uv_os_environ env l w in
  o_res o = Ret RcOk \/ (o_res o = Ret (RcErr ENOMEM) /\ In false (w_alloc w) /\ o_led o = l).
Proof.
  cbv zeta. unfold uv_os_environ.
  pose proof (alloc_false_in PCalloc w) as F. pose proof (alloc_incl PCalloc w) as I.
  destruct (alloc PCalloc w) as [b v]; cbn in *. destruct b; cbn.
  - destruct (environ_loop_safe env 0 (add_mem 1 l) v) as [A|(A & B & C)]; [left; auto|].
    right. repeat split; auto. rewrite C. destruct l; unfold add_mem; cbn; f_equal; lia.
  - right. repeat split; auto.
Qed.

(* history: before /repo 75025a4 the failure path freed slot [cnt] (still zeroed) cnt times,
   i.e. nothing, and then the array *)
Fixpoint environ_loop_unfixed (env : list bool) (cnt : Z) (l : ledger) (w : world) : out :=
  match env with
  | [] => mkO (Ret RcOk) l (Some (RcOther cnt)) w
  | has_eq :: rest =>
    let '(ok, w) := alloc PMalloc w in
    if negb ok then mkO (Ret (RcErr ENOMEM)) (add_mem (-1) l) (Some (RcOther 0)) w
    else if has_eq then environ_loop_unfixed rest (cnt + 1) (add_mem 1 l) w
    else environ_loop_unfixed rest cnt l w
  end.
Definition uv_os_environ_unfixed (env : list bool) (l : ledger) (w : world) : out :=
  let '(ok, w) := alloc PCalloc w in
  if negb ok then mkO (Ret (RcErr ENOMEM)) l (Some (RcOther 0)) w
  else environ_loop_unfixed env 0 (add_mem 1 l) w.

Lemma os_environ_unfixed_refuted :
  exists (env : list bool) (w : world) (l : ledger),
    o_res (uv_os_environ_unfixed env l w) = Ret (RcErr ENOMEM) /\
    l_mem (o_led (uv_os_environ_unfixed env l w)) = l_mem l + 2.
Proof. exists [true; true; true], (mkW [true; true; true; false] [] []), l0. vm_compute. split; reflexivity. Qed.

(* ---------------------------------------------------------------------- *)
(* uv_fs_event_start                                                        *)
Definition same_accounting (l l' : ledger) : Prop :=
  l_reqs l' = l_reqs l /\ l_handles l' = l_handles l /\ l_hq l' = l_hq l /\
  l_mem l' = l_mem l /\ l_dangling l' = l_dangling l.

(* every error return: accounting, kernel watches and descriptors as before, except that the
   loop-owned inotify descriptor may have been created (it is released by uv_loop_close) *)
Lemma fs_event_start_fault_safe io kw nr l w :
  let o := uv_fs_event_start io kw nr l w in
  o_res o = Ret RcOk \/
  (exists s, o_res o = Abort s /\ permitted s = true) \/
  (exists r, o_res o = Ret r /\ r <> RcOk /\ same_accounting l (o_led o) /\
     l_watch (o_led o) = l_watch l /\
     (l_fds (o_led o) = l_fds l \/ (io = false /\ l_fds (o_led o) = l_fds l + 1))).
Proof.
  cbv zeta. unfold uv_fs_event_start.
  assert (S2 : forall l1 v, same_accounting l l1 ->
     (l_fds l1 = l_fds l \/ (io = false /\ l_fds l1 = l_fds l + 1)) -> l_watch l1 = l_watch l ->
     let o := (let '(a, w0) := sys PInotifyAdd v in
       match a with
       | Ok => if kw then mkO (Ret RcOk) (add_handles 1 l1) None w0
               else let '(ok, w1) := alloc PMalloc w0 in
                    if negb ok then mkO (Ret (RcErr ENOMEM)) l1 None w1
                    else mkO (Ret RcOk) (add_watch 1 (add_handles 1 (add_mem 1 l1))) None w1
       | Fail e => mkO (Ret (RcErr e)) l1 None w0
       | Intr => mkO (Ret RcIntr) l1 None w0
       end) in
     o_res o = Ret RcOk \/
     (exists r, o_res o = Ret r /\ r <> RcOk /\ same_accounting l (o_led o) /\
       l_watch (o_led o) = l_watch l /\
       (l_fds (o_led o) = l_fds l \/ (io = false /\ l_fds (o_led o) = l_fds l + 1)))).
  { intros l1 v SA FD WT. cbv zeta. destruct (sys PInotifyAdd v) as [a v0]. destruct a.
    - destruct kw; [left; reflexivity|]. destruct (alloc PMalloc v0) as [b v1]. destruct b; cbn.
      + left; reflexivity.
      + right. exists (RcErr ENOMEM). split; [reflexivity|]. split; [discriminate|]. intuition.
    - right. exists (RcErr e). cbn. split; [reflexivity|]. split; [discriminate|]. intuition.
    - right. exists RcIntr. cbn. split; [reflexivity|]. split; [discriminate|]. intuition. }
  destruct io.
  - destruct (S2 l w) as [A|A]; [unfold same_accounting; intuition|left; reflexivity|reflexivity|left; exact A|right; right; exact A].
  - destruct (sys PInotifyInit w) as [a v]. destruct a.
    + unfold maybe_resize. destruct nr.
      * destruct (alloc PRealloc v) as [b v1]. destruct b; cbn in *.
        -- destruct (S2 (add_fds 1 l) v1) as [A|A];
             [unfold same_accounting; cbn; intuition|right; cbn; split; [reflexivity|lia]|reflexivity|left; exact A|right; right; exact A].
        -- right; left. exists SMaybeResize. split; reflexivity.
      * cbn. destruct (S2 (add_fds 1 l) v) as [A|A];
             [unfold same_accounting; cbn; intuition|right; cbn; split; [reflexivity|lia]|reflexivity|left; exact A|right; right; exact A].
    + right; right. exists (RcErr e). cbn. split; [reflexivity|]. split; [discriminate|].
      unfold same_accounting. intuition.
    + right; right. exists RcIntr. cbn. split; [reflexivity|]. split; [discriminate|].
      unfold same_accounting. intuition.
Qed.

(* history: before /repo 3625d2b the UV_ENOMEM return kept the kernel watch *)
Definition uv_fs_event_start_unfixed (inotify_open known_wd : bool) (l : ledger) (w : world) : out :=
  if negb inotify_open || known_wd then uv_fs_event_start inotify_open known_wd false l w
  else
    let '(a, w) := sys PInotifyAdd w in
    match a with
    | Ok => let '(ok, w) := alloc PMalloc w in
            if negb ok then mkO (Ret (RcErr ENOMEM)) (add_watch 1 l) None w
            else mkO (Ret RcOk) (add_watch 1 (add_handles 1 (add_mem 1 l))) None w
    | Fail e => mkO (Ret (RcErr e)) l None w
    | Intr => mkO (Ret RcIntr) l None w
    end.

Lemma fs_event_start_unfixed_watch_witness :
  o_res (uv_fs_event_start_unfixed true false l0 (mkW [false] [] [])) = Ret (RcErr ENOMEM) /\
  l_watch (o_led (uv_fs_event_start_unfixed true false l0 (mkW [false] [] []))) = 1 /\
  o_res (uv_fs_event_start true false false l0 (mkW [false] [] [])) = Ret (RcErr ENOMEM) /\
  l_watch (o_led (uv_fs_event_start true false false l0 (mkW [false] [] []))) = 0.
Proof. vm_compute. repeat split. Qed.

(* ---------------------------------------------------------------------- *)
(* uv_spawn: accounting on every error return                               *)
Lemma close_fd_acc l w : same_accounting l (snd (fst (uv_close_fd l w))).
Proof.
  unfold uv_close_fd. destruct (sys PClose w) as [a v]. destruct a; cbn; unfold same_accounting; cbn; intuition.
Qed.

Lemma same_acc_trans a b c : same_accounting a b -> same_accounting b c -> same_accounting a c.
Proof. unfold same_accounting; intuition congruence. Qed.
Lemma same_acc_refl a : same_accounting a a.
Proof. unfold same_accounting; intuition. Qed.

Lemma init_stdio_acc stdio : forall l w, same_accounting l (snd (fst (init_stdio stdio l w))).
Proof.
  induction stdio as [|b r IH]; intros l w; cbn; [apply same_acc_refl|].
  destruct b; [|apply IH]. destruct (sys PSocketpair w) as [a v]. destruct a; cbn; try apply same_acc_refl.
  eapply same_acc_trans; [|apply IH]. unfold same_accounting; cbn; intuition.
Qed.

Lemma close_n_acc n : forall l w, same_accounting l (fst (close_n n l w)).
Proof.
  induction n as [|n IH]; intros l w; cbn; [apply same_acc_refl|].
  pose proof (close_fd_acc l w) as C. destruct (uv_close_fd l w) as [[c l1] v]. cbn in C.
  eapply same_acc_trans; [exact C|apply IH].
Qed.

Lemma open_streams_acc stdio : forall l w, same_accounting l (snd (fst (open_streams stdio l w))).
Proof.
  induction stdio as [|b r IH]; intros l w; cbn; [apply same_acc_refl|].
  destruct b; [|apply IH].
  pose proof (close_fd_acc l w) as C. destruct (uv_close_fd l w) as [[c l1] v]. cbn in C.
  destruct c; cbn; try exact C.
  destruct (sysr PIoctl v) as [a v2]. eapply same_acc_trans; [exact C|apply IH].
Qed.

(* every error return of uv_spawn leaves the request / active-handle counters and the
   allocation ledger as they were; the handle itself is linked (it has to be closed) *)
Lemma spawn_error_accounting stdio fc l w r :
  o_res (uv_spawn stdio fc l w) = Ret r -> r <> RcOk ->
  same_accounting (add_hq 1 l) (o_led (uv_spawn stdio fc l w)).
Proof.
  unfold uv_spawn.
  remember (Nat.ltb 8 (length stdio)) as big eqn:HB.
  assert (FIN : forall (exec : rc) (act : bool) (l1 : ledger) (v : world), same_accounting (add_hq 1 (if big then add_mem 1 l else l)) l1 ->
     forall o : out, o = (let l2 := if act then add_handles 1 l1 else l1 in
       let '(ab, l3, w3) := open_streams stdio l2 v in
       match ab with
       | Some s => mkO (Abort s) l3 None w3
       | None => mkO (Ret exec) (if big then add_mem (-1) l3 else l3) None w3
       end) ->
     act = false -> o_res o = Ret r -> same_accounting (add_hq 1 l) (o_led o)).
  { intros exec act l1 v SA o -> -> . cbn.
    pose proof (open_streams_acc stdio l1 v) as OS.
    destruct (open_streams stdio l1 v) as [[ab l3] w3]. cbn in OS.
    destruct ab; cbn; [discriminate|]. intros _.
    pose proof (same_acc_trans _ _ _ SA OS) as T. clear - T. unfold same_accounting in *.
    destruct big; cbn in *; intuition lia. }
  destruct big.
  - destruct (alloc PMalloc w) as [b v]. destruct b; cbn.
    2:{ intros _ _. apply same_acc_refl. }
    pose proof (init_stdio_acc stdio (add_mem 1 (add_hq 1 l)) v) as IS.
    destruct (init_stdio stdio (add_mem 1 (add_hq 1 l)) v) as [[e l1] v1]. cbn in IS.
    destruct e.
    + pose proof (close_n_acc (Z.to_nat (l_fds l1 - l_fds (add_mem 1 (add_hq 1 l)))) l1 v1) as CN.
      destruct (close_n _ l1 v1) as [l2 v2]. cbn in *. intros _ _.
      pose proof (same_acc_trans _ _ _ IS CN) as T. clear - T. unfold same_accounting in *; cbn in *. intuition lia.
    + assert (SA1 : same_accounting (add_hq 1 (add_mem 1 l)) l1).
      { clear - IS. unfold same_accounting in *; cbn in *. intuition. }
      destruct (if fc then _ else _) as [lk v2] eqn:LK.
      destruct lk; cbn; [discriminate|].
      destruct (sys PPipe2 v2) as [a v3]. destruct a.
      * destruct (sys PFork v3) as [f v4].
        pose proof (close_fd_acc (add_fds 2 l1) v4) as C1.
        destruct (uv_close_fd (add_fds 2 l1) v4) as [[c1 l4] v5]. cbn in C1.
        assert (SA4 : same_accounting (add_hq 1 (add_mem 1 l)) l4).
        { eapply same_acc_trans; [exact SA1|]. eapply same_acc_trans; [|exact C1]. unfold same_accounting; cbn; intuition. }
        destruct f.
        -- destruct (sysr PRead v5) as [rd v6]. destruct rd; cbn; try discriminate.
           pose proof (close_fd_acc l4 v6) as C2. destruct (uv_close_fd l4 v6) as [[c2 l5] v7]. cbn in C2.
           intros H N. exfalso.
           pose proof (open_streams_acc stdio (add_handles 1 l5) v7) as OS.
           destruct (open_streams stdio (add_handles 1 l5) v7) as [[ab l6] v8]. destruct ab; cbn in H; [discriminate|].
           inversion H; subst; congruence.
        -- pose proof (close_fd_acc l4 v5) as C2. destruct (uv_close_fd l4 v5) as [[c2 l5] v7]. cbn in C2.
           intros H N. eapply (FIN (RcErr e) false l5 v7); eauto. eapply same_acc_trans; eauto.
        -- pose proof (close_fd_acc l4 v5) as C2. destruct (uv_close_fd l4 v5) as [[c2 l5] v7]. cbn in C2.
           intros H N. eapply (FIN RcIntr false l5 v7); eauto. eapply same_acc_trans; eauto.
      * intros H N. eapply (FIN (RcErr e) false l1 v3); eauto.
      * intros H N. eapply (FIN RcIntr false l1 v3); eauto.
  - cbn.
    pose proof (init_stdio_acc stdio (add_hq 1 l) w) as IS.
    destruct (init_stdio stdio (add_hq 1 l) w) as [[e l1] v1]. cbn in IS.
    destruct e.
    + pose proof (close_n_acc (Z.to_nat (l_fds l1 - l_fds (add_hq 1 l))) l1 v1) as CN.
      destruct (close_n _ l1 v1) as [l2 v2]. cbn in *. intros _ _.
      eapply same_acc_trans; eauto.
    + destruct (if fc then _ else _) as [lk v2] eqn:LK.
      destruct lk; cbn; [discriminate|].
      destruct (sys PPipe2 v2) as [a v3]. destruct a.
      * destruct (sys PFork v3) as [f v4].
        pose proof (close_fd_acc (add_fds 2 l1) v4) as C1.
        destruct (uv_close_fd (add_fds 2 l1) v4) as [[c1 l4] v5]. cbn in C1.
        assert (SA4 : same_accounting (add_hq 1 l) l4).
        { eapply same_acc_trans; [exact IS|]. eapply same_acc_trans; [|exact C1]. unfold same_accounting; cbn; intuition. }
        destruct f.
        -- destruct (sysr PRead v5) as [rd v6]. destruct rd; cbn; try discriminate.
           pose proof (close_fd_acc l4 v6) as C2. destruct (uv_close_fd l4 v6) as [[c2 l5] v7]. cbn in C2.
           intros H N. exfalso.
           destruct (open_streams stdio (add_handles 1 l5) v7) as [[ab l6] v8]. destruct ab; cbn in H; [discriminate|].
           inversion H; subst; congruence.
        -- pose proof (close_fd_acc l4 v5) as C2. destruct (uv_close_fd l4 v5) as [[c2 l5] v7]. cbn in C2.
           intros H N. eapply (FIN (RcErr e) false l5 v7); eauto. eapply same_acc_trans; eauto.
        -- pose proof (close_fd_acc l4 v5) as C2. destruct (uv_close_fd l4 v5) as [[c2 l5] v7]. cbn in C2.
           intros H N. eapply (FIN RcIntr false l5 v7); eauto. eapply same_acc_trans; eauto.
      * intros H N. eapply (FIN (RcErr e) false l1 v3); eauto.
      * intros H N. eapply (FIN RcIntr false l1 v3); eauto.
Qed.

(* descriptor balance of uv_spawn's error exits *)
Lemma close_fd_fds l w : l_fds (snd (fst (uv_close_fd l w))) = l_fds l - 1.
Proof. destruct (close_fd_spec l w) as [E _]. rewrite E. reflexivity. Qed.
Lemma npipes_false r : npipes (false :: r) = npipes r.
Proof. reflexivity. Qed.
Lemma npipes_true r : npipes (true :: r) = S (npipes r).
Proof. reflexivity. Qed.

Lemma init_stdio_fds stdio : forall l w,
  exists k, 0 <= k <= Z.of_nat (npipes stdio) /\
    l_fds (snd (fst (init_stdio stdio l w))) = l_fds l + 2 * k /\
    (fst (fst (init_stdio stdio l w)) = None -> k = Z.of_nat (npipes stdio)).
Proof.
  induction stdio as [|b r IH]; intros l w.
  - exists 0. cbn. repeat split; lia.
  - destruct b.
    + rewrite npipes_true. cbn [init_stdio]. destruct (sys PSocketpair w) as [a v]. destruct a.
      * destruct (IH (add_fds 2 l) v) as (k & K1 & K2 & K3). exists (k + 1).
        split; [lia|]. split; [rewrite K2; unfold add_fds; cbn [l_fds]; lia|]. intros H. rewrite (K3 H). lia.
      * exists 0. cbn. split; [lia|]. split; [lia|]. discriminate.
      * exists 0. cbn. split; [lia|]. split; [lia|]. discriminate.
    + rewrite npipes_false. cbn [init_stdio]. apply IH.
Qed.

Lemma close_n_fds n : forall l w, l_fds (fst (close_n n l w)) = l_fds l - Z.of_nat n.
Proof.
  induction n as [|n IH]; intros l w; [cbn; lia|]. cbn [close_n].
  pose proof (close_fd_fds l w) as D. destruct (uv_close_fd l w) as [[c l1] v]. cbn [fst snd] in D.
  rewrite IH, D. lia.
Qed.

Lemma open_streams_fds stdio : forall l w,
  fst (fst (open_streams stdio l w)) = None ->
  l_fds (snd (fst (open_streams stdio l w))) = l_fds l - Z.of_nat (npipes stdio).
Proof.
  induction stdio as [|b r IH]; intros l w; [cbn; lia|]. destruct b.
  - rewrite npipes_true. cbn [open_streams].
    pose proof (close_fd_fds l w) as D. destruct (uv_close_fd l w) as [[c l1] v]. cbn [fst snd] in D.
    destruct c; cbn [fst snd]; try discriminate.
    destruct (sysr PIoctl v) as [a v2]. intros H. rewrite (IH l1 v2 H), D. lia.
  - rewrite npipes_false. cbn [open_streams]. apply IH.
Qed.

Lemma spawn_error_fds stdio fc l w r :
  o_res (uv_spawn stdio fc l w) = Ret r -> r <> RcOk ->
  l_fds (o_led (uv_spawn stdio fc l w)) = l_fds l \/
  l_fds (o_led (uv_spawn stdio fc l w)) = l_fds l + Z.of_nat (npipes stdio).
Proof.
  unfold uv_spawn.
  remember (Nat.ltb 8 (length stdio)) as big eqn:HB.
  assert (FIN : forall (exec : rc) (l1 : ledger) (v : world),
     l_fds l1 = l_fds l + 2 * Z.of_nat (npipes stdio) ->
     forall o : out, o = (let '(ab, l3, w3) := open_streams stdio l1 v in
       match ab with
       | Some s => mkO (Abort s) l3 None w3
       | None => mkO (Ret exec) (if big then add_mem (-1) l3 else l3) None w3
       end) ->
     o_res o = Ret r -> l_fds (o_led o) = l_fds l + Z.of_nat (npipes stdio)).
  { intros exec l1 v FD o -> .
    pose proof (open_streams_fds stdio l1 v) as OS.
    destruct (open_streams stdio l1 v) as [[ab l3] w3]. cbn [fst snd] in OS.
    destruct ab; cbn; [discriminate|]. intros _. specialize (OS eq_refl).
    destruct big; cbn; lia. }
  assert (MAIN : forall (lb : ledger) (v : world), l_fds lb = l_fds l ->
    forall o : out, o =
    (let fds0 := l_fds lb in
     let '(e, l1, w1) := init_stdio stdio lb v in
     match e with
     | Some r0 =>
       let '(l2, w2) := close_n (Z.to_nat (l_fds l1 - fds0)) l1 w1 in
       mkO (Ret r0) (if big then add_mem (-1) l2 else l2) None w2
     | None =>
       let '(lk, w2) := if fc then
                        let '(a, w2) := sysr PRead w1 in
                        match a with
                        | Ok => let '(b, w3) := sysr PWrite w2 in
                                (match b with Ok => None | _ => Some SSignalLock end, w3)
                        | _ => (Some SSignalLock, w2)
                        end
                      else (None, w1) in
       match lk with
       | Some s => mkO (Abort s) l1 None w2
       | None =>
         let finish := fun (exec : rc) (active : bool) (l4 : ledger) (w4 : world) =>
           let l5 := if active then add_handles 1 l4 else l4 in
           let '(ab, l6, w6) := open_streams stdio l5 w4 in
           match ab with
           | Some s => mkO (Abort s) l6 None w6
           | None => mkO (Ret exec) (if big then add_mem (-1) l6 else l6) None w6
           end in
         let '(a, w3) := sys PPipe2 w2 in
         match a with
         | Fail e0 => finish (RcErr e0) false l1 w3
         | Intr => finish RcIntr false l1 w3
         | Ok =>
           let l4 := add_fds 2 l1 in
           let '(f, w4) := sys PFork w3 in
           let '(_, l5, w5) := uv_close_fd l4 w4 in
           match f with
           | Fail e0 => let '(_, l6, w6) := uv_close_fd l5 w5 in finish (RcErr e0) false l6 w6
           | Intr => let '(_, l6, w6) := uv_close_fd l5 w5 in finish RcIntr false l6 w6
           | Ok =>
             let '(rd, w6) := sysr PRead w5 in
             match rd with
             | Ok => let '(_, l6, w7) := uv_close_fd l5 w6 in finish RcOk true l6 w7
             | _ => mkO (Abort SSpawnRead) l5 None w6
             end
           end
         end
       end
     end) ->
    o_res o = Ret r -> r <> RcOk ->
    l_fds (o_led o) = l_fds l \/ l_fds (o_led o) = l_fds l + Z.of_nat (npipes stdio)).
  { intros lb v FB o -> . cbv zeta.
    destruct (init_stdio_fds stdio lb v) as (k & K1 & K2 & K3).
    destruct (init_stdio stdio lb v) as [[e l1] v1]. cbn [fst snd] in K2, K3.
    destruct e.
    - pose proof (close_n_fds (Z.to_nat (l_fds l1 - l_fds lb)) l1 v1) as CN.
      destruct (close_n _ l1 v1) as [l2 v2]. cbn [fst] in CN. cbn. intros _ _. left.
      destruct big; cbn; lia.
    - specialize (K3 eq_refl). subst k.
      destruct (if fc then _ else _) as [lk v2]. destruct lk; cbn; [discriminate|].
      destruct (sys PPipe2 v2) as [a v3]. destruct a.
      + destruct (sys PFork v3) as [f v4].
        pose proof (close_fd_fds (add_fds 2 l1) v4) as C1.
        destruct (uv_close_fd (add_fds 2 l1) v4) as [[c1 l4] v5]. cbn [fst snd] in C1. cbn [l_fds add_fds] in C1.
        destruct f.
        * destruct (sysr PRead v5) as [rd v6]. destruct rd; cbn; try discriminate.
          destruct (uv_close_fd l4 v6) as [[c2 l5] v7].
          destruct (open_streams stdio (add_handles 1 l5) v7) as [[ab l6] v8]. destruct ab; cbn; [discriminate|].
          intros H N. inversion H; subst; congruence.
        * pose proof (close_fd_fds l4 v5) as C2. destruct (uv_close_fd l4 v5) as [[c2 l5] v7]. cbn [fst snd] in C2.
          intros H N. right. eapply (FIN (RcErr e) l5 v7); [lia|reflexivity|exact H].
        * pose proof (close_fd_fds l4 v5) as C2. destruct (uv_close_fd l4 v5) as [[c2 l5] v7]. cbn [fst snd] in C2.
          intros H N. right. eapply (FIN RcIntr l5 v7); [lia|reflexivity|exact H].
      + intros H N. right. eapply (FIN (RcErr e) l1 v3); [lia|reflexivity|exact H].
      + intros H N. right. eapply (FIN RcIntr l1 v3); [lia|reflexivity|exact H]. }
  destruct big.
  - destruct (alloc PMalloc w) as [b v]. destruct b; cbn [negb].
    + intros H N. eapply (MAIN (add_mem 1 (add_hq 1 l)) v); [reflexivity|reflexivity|exact H|exact N].
    + cbn. intros _ _. left; reflexivity.
  - cbn [negb]. intros H N. eapply (MAIN (add_hq 1 l) w); [reflexivity|reflexivity|exact H|exact N].
Qed.

(* non-vacuity: a failing and a succeeding run of uv_spawn *)
Lemma spawn_examples :
  o_res (uv_spawn [true; true; false] true l0 (mkW [] [Ok; Fail EMFILE] [])) = Ret (RcErr EMFILE) /\
  o_led (uv_spawn [true; true; false] true l0 (mkW [] [Ok; Fail EMFILE] [])) = add_hq 1 l0 /\
  o_res (uv_spawn [true; true; false] true l0 (mkW [] [] [])) = Ret RcOk /\
  l_fds (o_led (uv_spawn [true; true; false] true l0 (mkW [] [] []))) = 2.
Proof. vm_compute. repeat split. Qed.

(* ---------------------------------------------------------------------- *)
(* uv_loop_init                                                             *)
(* every return of uv_loop_init: success, an error code with the accounting restored and no
   descriptor left except the process-wide signal lock pipe of the very first loop, or abort()
   in maybe_resize (permitted) / the process-wide signal initialisation (item 23) *)

Definition loop_init_post (first : bool) (l : ledger) (o : out) : Prop :=
  o_res o = Ret RcOk \/
  (exists s, o_res o = Abort s /\ (s = SMaybeResize \/ (s = SSignalGlobalInit /\ first = true))) \/
  (exists r, o_res o = Ret r /\ r <> RcOk /\ same_accounting l (o_led o) /\
     (l_fds (o_led o) = l_fds l \/ (first = true /\ l_fds (o_led o) = l_fds l + 2))).

Ltac li_close :=
  match goal with
  | |- context [uv_close_fd ?l ?w] =>
    let C := fresh "C" in let D := fresh "D" in
    pose proof (close_fd_acc l w) as C; pose proof (close_fd_fds l w) as D;
    destruct (uv_close_fd l w) as [[? ?] ?]; cbn [fst snd] in C, D
  end.
Ltac li_done :=
  first
  [ left; reflexivity
  | right; left; eexists; split; [reflexivity|]; first [left; reflexivity | right; split; reflexivity]
  | right; right; eexists; split; [reflexivity|]; split; [discriminate|];
    unfold same_accounting in *; cbn in *;
    repeat match goal with H : _ \/ (_ /\ _) |- _ => destruct H as [H|[? H]] end;
    (split; [intuition lia|]); first [left; lia | right; split; [first [reflexivity|assumption]|lia]] ].

Lemma loop_init_partial first l w : loop_init_post first l (uv_loop_init first l w).
Proof.
  unfold loop_init_post, uv_loop_init.
  destruct (alloc PCalloc w) as [b w1]. destruct b; cbn [negb]; [|li_done].
  destruct (sys PEpollCreate w1) as [a w2]. destruct a; [|li_done|li_done].
  destruct (if first then sys POpen w2 else (Ok, w2)) as [a0 w3].
  destruct (sys PIouSetup w3) as [s w4].
  assert (K : forall (ring : bool) (l5 : ledger) (w5 : world),
    same_accounting (add_mem 1 l) l5 -> l_fds l5 = l_fds l + 1 + (if ring then 1 else 0) ->
    loop_init_post first l
    (let loop_delete := fun (l : ledger) (w : world) =>
        let '(l, w) := if ring then let '(_, l, w) := uv_close_fd l w in (l, w) else (l, w) in
        let '(_, l, w) := uv_close_fd l w in (l, w) in
     let '(ab, l, w) :=
        if first then
          let '(p, w) := sys PPipe2 w5 in
          match p with
          | Ok => let '(u, w) := sysr PWrite w in
                  (match u with Ok => None | _ => Some SSignalGlobalInit end, add_fds 2 l5, w)
          | _ => (Some SSignalGlobalInit, l5, w)
          end
        else (None, l5, w5) in
      match ab with
      | Some s => mkO (Abort s) l None w
      | None =>
        let '(p, w) := sys PPipe2 w in
        match p with
        | Fail e => let '(l, w) := loop_delete l w in mkO (Ret (RcErr e)) (add_mem (-1) l) None w
        | Intr => let '(l, w) := loop_delete l w in mkO (Ret RcIntr) (add_mem (-1) l) None w
        | Ok =>
          let l := add_fds 2 l in
          let '(ab, l, w) := maybe_resize true l w in
          match ab with
          | Some s => mkO (Abort s) l None w
          | None =>
            let l := add_mem 1 l in
            let '(e, w) := sys PEventfd w in
            match e with
            | Ok => mkO (Ret RcOk) (add_hq 2 (add_fds 1 l)) None w
            | Fail er =>
              let '(_, l, w) := uv_close_fd l w in
              let '(_, l, w) := uv_close_fd l w in
              let '(l, w) := loop_delete l w in
              mkO (Ret (RcErr er)) (add_mem (-2) l) None w
            | Intr =>
              let '(_, l, w) := uv_close_fd l w in
              let '(_, l, w) := uv_close_fd l w in
              let '(l, w) := loop_delete l w in
              mkO (Ret RcIntr) (add_mem (-2) l) None w
            end
          end
        end
      end)).
  { intros ring l5 w5 SA FD. unfold loop_init_post. cbv zeta.
    assert (K2 : forall (l6 : ledger) (w6 : world), same_accounting (add_mem 1 l) l6 ->
       (l_fds l6 = l_fds l + 1 + (if ring then 1 else 0) \/
        (first = true /\ l_fds l6 = l_fds l + 3 + (if ring then 1 else 0))) ->
       loop_init_post first l
       (let '(p, w) := sys PPipe2 w6 in
        match p with
        | Fail e => let '(l, w) := (let '(l, w) := if ring then let '(_, l, w) := uv_close_fd l6 w in (l, w) else (l6, w) in
                                    let '(_, l, w) := uv_close_fd l w in (l, w)) in mkO (Ret (RcErr e)) (add_mem (-1) l) None w
        | Intr => let '(l, w) := (let '(l, w) := if ring then let '(_, l, w) := uv_close_fd l6 w in (l, w) else (l6, w) in
                                  let '(_, l, w) := uv_close_fd l w in (l, w)) in mkO (Ret RcIntr) (add_mem (-1) l) None w
        | Ok =>
          let l := add_fds 2 l6 in
          let '(ab, l, w) := maybe_resize true l w in
          match ab with
          | Some s => mkO (Abort s) l None w
          | None =>
            let l := add_mem 1 l in
            let '(e, w) := sys PEventfd w in
            match e with
            | Ok => mkO (Ret RcOk) (add_hq 2 (add_fds 1 l)) None w
            | Fail er =>
              let '(_, l, w) := uv_close_fd l w in
              let '(_, l, w) := uv_close_fd l w in
              let '(l, w) := (let '(l, w) := if ring then let '(_, l, w) := uv_close_fd l w in (l, w) else (l, w) in
                              let '(_, l, w) := uv_close_fd l w in (l, w)) in
              mkO (Ret (RcErr er)) (add_mem (-2) l) None w
            | Intr =>
              let '(_, l, w) := uv_close_fd l w in
              let '(_, l, w) := uv_close_fd l w in
              let '(l, w) := (let '(l, w) := if ring then let '(_, l, w) := uv_close_fd l w in (l, w) else (l, w) in
                              let '(_, l, w) := uv_close_fd l w in (l, w)) in
              mkO (Ret RcIntr) (add_mem (-2) l) None w
            end
          end
        end)).
    { intros l6 w6 SA6 FD6. unfold loop_init_post.
      destruct (sys PPipe2 w6) as [p w7]. destruct p.
      - unfold maybe_resize. destruct (alloc PRealloc w7) as [b w8]. destruct b; [|li_done].
        destruct (sys PEventfd w8) as [e w9]. destruct e; [li_done| |].
        + do 2 li_close. destruct ring; [li_close|]; li_close; li_done.
        + do 2 li_close. destruct ring; [li_close|]; li_close; li_done.
      - destruct ring; [li_close|]; li_close; li_done.
      - destruct ring; [li_close|]; li_close; li_done. }
    destruct first.
    - destruct (sys PPipe2 w5) as [p w6]. destruct p; [|li_done|li_done].
      destruct (sysr PWrite w6) as [u w7]. destruct u; [|li_done|li_done].
      apply K2; [unfold same_accounting in *; cbn; intuition|]. right. split; [reflexivity|]. cbn. lia.
    - apply K2; [exact SA|]. left; exact FD. }
  destruct s.
  - destruct (sys PMmap w4) as [m1 w5]. destruct (sys PMmap w5) as [m2 w6].
    destruct m1, m2;
      try (li_close; apply K with (ring := false); [unfold same_accounting in *; cbn in *; intuition|cbn in *; lia]).
    apply K with (ring := true); [unfold same_accounting; cbn; intuition|cbn; lia].
  - apply K with (ring := false); [unfold same_accounting; cbn; intuition|cbn; lia].
  - apply K with (ring := false); [unfold same_accounting; cbn; intuition|cbn; lia].
Qed.

Lemma loop_init_abort_witness :
  exists (w : world) (l : ledger) (s : site),
    o_res (uv_loop_init true l w) = Abort s /\ permitted s = false /\
    In (Fail EMFILE) (w_sys w) /\ Forall (fun a => a = Ok \/ a = Fail EMFILE) (w_sys w).
Proof.
  exists (mkW [] [Ok; Ok; Ok; Ok; Ok; Fail EMFILE] []), l0, SSignalGlobalInit.
  split; [vm_compute; reflexivity|]. split; [reflexivity|]. split; [cbn; intuition|].
  repeat (apply Forall_cons; [auto|]). apply Forall_nil.
Qed.


(* ---------------------------------------------------------------------- *)
(* the timeout loop of uv__io_poll                                          *)
(* invariant: outside the metrics probe and before any full batch the timeout about to be
   passed is exactly what is left; after a full batch it is 0 *)
Definition pinv (m : bool) (T : Z) (s : pst) : Prop :=
  0 <= p_now s /\
  (if p_full s then p_reset s = false /\ p_timeout s = 0 /\ p_now s <= T
   else if p_reset s then m = true /\ p_timeout s = 0 /\ p_user s = T /\ p_real s = T /\ p_now s = 0 /\ p_base s = 0
   else 0 <= p_timeout s /\ p_real s = p_timeout s /\ p_timeout s + p_now s = T /\ p_base s = p_now s).
Definition call_good (m : bool) (T : Z) (FL : list (Z * Z)) (c : Z * Z) : Prop :=
  (fst c + snd c <= T /\ 0 <= fst c) /\ (fst c = T - snd c \/ (m = true /\ c = (0, 0)) \/ In c FL).

Lemma call_good_mono m T FL x c : call_good m T FL c -> call_good m T (x :: FL) c.
Proof. intros [A [B|[B|B]]]; split; auto. right; right; right; exact B. Qed.
Lemma calls_good_mono m T FL x l : Forall (call_good m T FL) l -> Forall (call_good m T (x :: FL)) l.
Proof. intros H. eapply Forall_impl; [|exact H]. intros c. apply call_good_mono. Qed.
Lemma calls_good_logfull m T s FL l : Forall (call_good m T FL) l -> Forall (call_good m T (log_full s FL)) l.
Proof. unfold log_full. destruct (p_full s); [apply calls_good_mono|auto]. Qed.

Lemma elapsed_ok_spec t e : elapsed_ok t e = true -> 0 <= t -> 0 <= e <= t.
Proof. unfold elapsed_ok. intros H Ht. lia. Qed.

Lemma io_poll_loop_ok_mono o : forall s log flog, r_ok (io_poll_loop o s log flog) = true -> p_ok s = true.
Proof.
  induction o as [|a r IH]; intros s log flog.
  - unfold io_poll_loop, io_poll_tail.
    destruct (p_timeout s <? 0); cbn; auto. destruct (p_reset s); cbn; auto.
    destruct (update_timeout _) as [s'|]; cbn; auto. destruct (p_timeout s' <? 0); cbn; auto.
  - cbn [io_poll_loop]. destruct a.
    + destruct (update_timeout _) as [s'|] eqn:U; cbn.
      * intros H. apply IH in H. revert U. unfold update_timeout, after_reset.
        destruct (p_reset s); cbn;
          repeat match goal with |- context [if ?c then _ else _] => destruct c end;
          intros U; inversion U; subst; cbn in H; apply andb_prop in H; tauto.
      * intros H. apply andb_prop in H; tauto.
    + destruct (p_timeout s <? 0); cbn; auto. destruct (p_reset s) eqn:R; cbn; auto.
      destruct (update_timeout _) as [s'|] eqn:U; cbn; auto.
      intros H. apply IH in H. revert U. unfold update_timeout, after_reset. rewrite R. cbn.
      repeat match goal with |- context [if ?c then _ else _] => destruct c end;
        intros U; inversion U; subst; cbn in H; auto.
    + cbn. intros H. apply andb_prop in H; tauto.
    + destruct (p_count s - 1 =? 0); cbn.
      * intros H. apply andb_prop in H; tauto.
      * intros H. apply IH in H. cbn in H. apply andb_prop in H; tauto.
Qed.

(* one trip through "reset / update_timeout" keeps the invariant *)
Lemma update_inv m T s now ok s' :
  0 <= T -> pinv m T s -> p_now s <= now -> now <= p_now s + p_timeout s ->
  update_timeout (after_reset s now ok) = Some s' ->
  pinv m T s' /\ p_ok s' = ok /\ p_reset s' = false /\ p_now s' = now /\ p_full s' = false /\ p_full s = false.
Proof.
  intros HT (N & I) L1 L2. unfold update_timeout, after_reset.
  destruct (p_full s) eqn:F.
  - destruct I as (A & B & C). rewrite A. cbn. rewrite B. cbn. discriminate.
  - destruct (p_reset s) eqn:R; cbn.
    + destruct I as (M & A & B & C & D & E).
      destruct (Z.eqb_spec (p_user s) 0); [discriminate|].
      destruct (Z.eqb_spec (p_user s) (-1)); [lia|].
      destruct (Z.leb_spec (p_real s - (now - p_base s)) 0); [discriminate|].
      intros X; inversion X; subst; clear X. unfold pinv; cbn. repeat split; lia.
    + destruct I as (A & B & C & D).
      destruct (Z.eqb_spec (p_timeout s) 0); [discriminate|].
      destruct (Z.eqb_spec (p_timeout s) (-1)); [lia|].
      destruct (Z.leb_spec (p_real s - (now - p_base s)) 0); [discriminate|].
      intros X; inversion X; subst; clear X. unfold pinv; cbn. repeat split; lia.
Qed.

Ltac fl := repeat (apply Forall_cons; [assumption|]); assumption.

Lemma pinv_bounds m T s : 0 <= T -> pinv m T s -> 0 <= p_timeout s /\ p_timeout s + p_now s <= T.
Proof. intros HT (N & I). destruct (p_full s); [lia|]. destruct (p_reset s); lia. Qed.

Lemma pinv_call m T s FL : 0 <= T -> pinv m T s -> call_good m T (log_full s FL) (p_timeout s, p_now s).
Proof.
  intros HT Inv. pose proof (pinv_bounds m T s HT Inv) as [B1 B2]. destruct Inv as (N & I).
  unfold call_good, log_full. cbn. split; [lia|].
  destruct (p_full s).
  - right; right. left; reflexivity.
  - destruct (p_reset s).
    + destruct I as (M & A & B & C & D & E). rewrite A, D. right; left; auto.
    + left; lia.
Qed.

Definition res_good (m : bool) (T : Z) (r : pres) : Prop :=
  r_blocked r <= T /\ Forall (call_good m T (r_full_calls r)) (r_calls r).

Lemma io_poll_tail_bound m T s log flog :
  0 <= T -> pinv m T s -> Forall (call_good m T flog) log -> res_good m T (io_poll_tail s log flog).
Proof.
  intros HT Inv FL. pose proof (pinv_call m T s flog HT Inv) as C0.
  pose proof (calls_good_logfull m T s flog log FL) as FL'.
  pose proof (pinv_bounds m T s HT Inv) as [B1 B2]. unfold res_good, io_poll_tail.
  destruct (Z.ltb_spec (p_timeout s) 0); cbn; [lia|].
  destruct (p_reset s) eqn:R; cbn.
  - destruct (update_timeout _) as [s'|] eqn:U; cbn.
    + destruct (update_inv m T s (p_now s + p_timeout s) (p_ok s) s' HT Inv ltac:(lia) ltac:(lia) U)
        as (Inv' & _ & R' & X & F' & F).
      pose proof (pinv_bounds m T s' HT Inv') as [B1' B2'].
      assert (C' : call_good m T (log_full s flog) (p_timeout s', p_now s')).
      { pose proof (pinv_call m T s' (log_full s flog) HT Inv') as K. unfold log_full in K at 1. rewrite F' in K. exact K. }
      destruct (Z.ltb_spec (p_timeout s') 0); cbn; (split; [lia | fl]).
    + split; [lia | fl].
  - split; [lia | fl].
Qed.

Lemma io_poll_loop_bound m T o : forall s log flog,
  0 <= T -> pinv m T s -> Forall (call_good m T flog) log ->
  r_ok (io_poll_loop o s log flog) = true -> res_good m T (io_poll_loop o s log flog).
Proof.
  induction o as [|a r IH]; intros s log flog HT Inv FL OK.
  - apply io_poll_tail_bound; auto.
  - pose proof (pinv_call m T s flog HT Inv) as C0.
    pose proof (calls_good_logfull m T s flog log FL) as FL'.
    pose proof (pinv_bounds m T s HT Inv) as [T0 B0]. pose proof Inv as (N & I).
    cbn [io_poll_loop] in *. destruct a.
    + destruct (update_timeout _) as [s'|] eqn:U.
      * pose proof (io_poll_loop_ok_mono _ _ _ _ OK) as OK'.
        assert (EO : elapsed_ok (p_timeout s) e = true).
        { revert U OK'. unfold update_timeout, after_reset.
          destruct (p_reset s); cbn;
            repeat match goal with |- context [if ?c then _ else _] => destruct c end;
            intros U; inversion U; subst; cbn; intros H; apply andb_prop in H; tauto. }
        destruct (elapsed_ok_spec _ _ EO T0) as [E1 E2].
        destruct (update_inv m T s (p_now s + e) _ s' HT Inv ltac:(lia) ltac:(lia) U) as (Inv' & _).
        apply IH; auto; try fl.
      * unfold res_good. cbn in *. apply andb_prop in OK. destruct OK as [_ EO].
        destruct (elapsed_ok_spec _ _ EO T0). split; [lia | fl].
    + destruct (Z.ltb_spec (p_timeout s) 0); cbn in *; [lia|].
      destruct (p_reset s) eqn:R; cbn in *.
      * destruct (update_timeout _) as [s'|] eqn:U; cbn in *.
        -- destruct (update_inv m T s (p_now s + p_timeout s) _ s' HT Inv ltac:(lia) ltac:(lia) U) as (Inv' & _).
           apply IH; auto; try fl.
        -- unfold res_good; cbn. split; [lia | fl].
      * unfold res_good; cbn. split; [lia | fl].
    + unfold res_good. cbn in *. apply andb_prop in OK. destruct OK as [_ EO].
      destruct (elapsed_ok_spec _ _ EO T0). split; [lia | fl].
    + destruct (p_count s - 1 =? 0) eqn:CNT.
      * unfold res_good. cbn in *. apply andb_prop in OK. destruct OK as [_ EO].
        destruct (elapsed_ok_spec _ _ EO T0). split; [lia | fl].
      * pose proof (io_poll_loop_ok_mono _ _ _ _ OK) as OK'. cbn in OK'.
        apply andb_prop in OK'. destruct OK' as [_ EO]. destruct (elapsed_ok_spec _ _ EO T0).
        apply IH; auto; try fl.
        unfold pinv; cbn. repeat split; lia.
Qed.

Lemma io_poll_good metrics T o :
  0 <= T -> r_ok (io_poll metrics T o) = true -> res_good metrics T (io_poll metrics T o).
Proof.
  intros HT OK. unfold io_poll in *.
  apply (io_poll_loop_bound metrics T); auto.
  destruct metrics; unfold pinv; cbn; repeat split; lia.
Qed.

(* C16_io_poll_respects_timeout *)
Lemma io_poll_respects_timeout metrics T o :
  0 <= T -> r_ok (io_poll metrics T o) = true ->
  r_blocked (io_poll metrics T o) <= T /\
  Forall (fun c => fst c + snd c <= T /\ 0 <= fst c) (r_calls (io_poll metrics T o)).
Proof.
  intros HT OK. destruct (io_poll_good metrics T o HT OK) as [A B]. split; [exact A|].
  eapply Forall_impl; [|exact B]. intros c [H _]. exact H.
Qed.

(* C16_io_poll_retry_exact: every call passes exactly given - elapsed-so-far; the only other calls
   are the non-blocking probe of the metrics variant at time 0 and the re-polls after a full batch *)
Lemma io_poll_retry_exact metrics T o :
  0 <= T -> r_ok (io_poll metrics T o) = true ->
  Forall (fun c => fst c = T - snd c \/ (metrics = true /\ c = (0, 0)) \/ In c (r_full_calls (io_poll metrics T o)))
         (r_calls (io_poll metrics T o)).
Proof.
  intros HT OK. destruct (io_poll_good metrics T o HT OK) as [_ B].
  eapply Forall_impl; [|exact B]. intros c [_ H]. exact H.
Qed.

(* C16_io_poll_full_batch_repoll_nonblocking: whatever the script and the entry timeout, every
   call made after a full batch is non-blocking *)
Definition full_inv (s : pst) : Prop := p_full s = true -> p_timeout s = 0 /\ p_reset s = false.

Lemma update_full_inv s now ok s' :
  full_inv s -> update_timeout (after_reset s now ok) = Some s' -> full_inv s'.
Proof.
  unfold full_inv, update_timeout, after_reset. intros I.
  destruct (p_full s) eqn:F.
  - destruct (I eq_refl) as [A B]. rewrite B. cbn. rewrite A. cbn. discriminate.
  - destruct (p_reset s); cbn;
      repeat match goal with |- context [if ?c then _ else _] => destruct c end;
      intros U; inversion U; subst; cbn; try rewrite F; discriminate.
Qed.

Lemma log_full_zero s flog :
  full_inv s -> Forall (fun c => fst c = 0) flog -> Forall (fun c => fst c = 0) (log_full s flog).
Proof.
  unfold log_full, full_inv. intros I H. destruct (p_full s); [|exact H].
  constructor; [cbn; apply I; reflexivity | exact H].
Qed.

Lemma io_poll_loop_full_zero o : forall s log flog,
  full_inv s -> Forall (fun c => fst c = 0) flog ->
  Forall (fun c => fst c = 0) (r_full_calls (io_poll_loop o s log flog)).
Proof.
  induction o as [|a r IH]; intros s log flog I H; pose proof (log_full_zero s flog I H) as H'.
  - unfold io_poll_loop, io_poll_tail.
    destruct (p_timeout s <? 0); cbn; auto. destruct (p_reset s); cbn; auto.
    destruct (update_timeout _) as [s'|]; cbn; auto. destruct (p_timeout s' <? 0); cbn; auto.
  - cbn [io_poll_loop]. destruct a.
    + destruct (update_timeout _) as [s'|] eqn:U; cbn; auto.
      apply IH; auto. eapply update_full_inv; eauto.
    + destruct (p_timeout s <? 0); cbn; auto. destruct (p_reset s); cbn; auto.
      destruct (update_timeout _) as [s'|] eqn:U; cbn; auto.
      apply IH; auto. eapply update_full_inv; eauto.
    + cbn; auto.
    + destruct (p_count s - 1 =? 0); cbn; auto.
      apply IH; auto. unfold full_inv; cbn; auto.
Qed.

Lemma io_poll_full_batch_nonblocking metrics T o :
  Forall (fun c => fst c = 0) (r_full_calls (io_poll metrics T o)).
Proof.
  unfold io_poll. apply io_poll_loop_full_zero; [|constructor].
  destruct metrics; unfold full_inv; cbn; discriminate.
Qed.

(* the calls after a full batch really are recorded: a full batch after 10 of 200 ms, then nothing *)
Lemma io_poll_full_batch_example :
  r_calls (io_poll false 200 [PFull 10]) = [(0, 10); (200, 0)] /\
  r_full_calls (io_poll false 200 [PFull 10]) = [(0, 10)] /\
  r_blocked (io_poll false 200 [PFull 10]) = 10 /\
  r_full_calls (io_poll true (-1) [PTimeout; PFull 5; PFull 0; PIntr 0]) = [(0, 5); (0, 5)].
Proof. vm_compute. repeat split. Qed.

Definition nth_call (k : nat) (r : pres) : option (Z * Z) := nth_error (rev (r_calls r)) k.
Definition pobs (r : pres) := (r_blocked r, r_end r, r_ok r).

Lemma io_poll_log_irrelevant o : forall s log1 flog1 log2 flog2,
  pobs (io_poll_loop o s log1 flog1) = pobs (io_poll_loop o s log2 flog2).
Proof.
  induction o as [|a r IH]; intros s log1 flog1 log2 flog2.
  - unfold io_poll_loop, io_poll_tail, pobs.
    destruct (p_timeout s <? 0); [reflexivity|]. destruct (p_reset s); [|reflexivity].
    destruct (update_timeout _) as [s'|]; [|reflexivity]. destruct (p_timeout s' <? 0); reflexivity.
  - cbn [io_poll_loop]. destruct a.
    + destruct (update_timeout _) as [s'|]; [apply IH|reflexivity].
    + destruct (p_timeout s <? 0); [reflexivity|]. destruct (p_reset s); [|reflexivity].
      destruct (update_timeout _) as [s'|]; [apply IH|reflexivity].
    + reflexivity.
    + destruct (p_count s - 1 =? 0); [reflexivity|apply IH].
Qed.

(* the state of the plain variant [n] ms after entry, nothing but interruptions so far *)
Definition pstate (T n : Z) : pst := mkP n (T - n) (T - n) false 0 true n 48 false.

(* any interruptions, of any reported length, lead to the state that depends on the total
   elapsed time only *)
Lemma io_poll_intr_prefix T o : forall es n log flog,
  0 <= n -> Forall (fun e => 0 <= e) es -> n + fold_right Z.add 0 es < T ->
  exists log', io_poll_loop (map PIntr es ++ o) (pstate T n) log flog =
               io_poll_loop o (pstate T (n + fold_right Z.add 0 es)) log' flog.
Proof.
  induction es as [|e es IH]; intros n log flog Hn F S.
  - cbn. exists log. replace (n + 0) with n by lia. reflexivity.
  - inversion F as [|x y F1 F2]; subst. cbn [fold_right] in S.
    assert (0 <= fold_right Z.add 0 es).
    { clear - F2. induction es; cbn; [lia|]. inversion F2; subst. specialize (IHes H2). lia. }
    cbn [map app io_poll_loop]. unfold after_reset, log_full. cbn.
    assert (EO : elapsed_ok (T - n) e = true) by (unfold elapsed_ok; lia).
    rewrite EO. unfold update_timeout. cbn.
    destruct (Z.eqb_spec (T - n) 0); [lia|]. destruct (Z.eqb_spec (T - n) (-1)); [lia|].
    destruct (Z.leb_spec (T - n - (n + e - n)) 0); [lia|].
    replace (T - n - (n + e - n)) with (T - (n + e)) by lia.
    destruct (IH (n + e) ((T - n, n) :: log) flog ltac:(lia) F2 ltac:(lia)) as (log' & E).
    unfold pstate in E. rewrite E. exists log'. cbn [fold_right].
    replace (n + e + fold_right Z.add 0 es) with (n + (e + fold_right Z.add 0 es)) by lia. reflexivity.
Qed.

(* C16_io_poll_eintr_transparent *)
Lemma io_poll_eintr_transparent T es1 es2 o :
  Forall (fun e => 0 <= e) es1 -> Forall (fun e => 0 <= e) es2 ->
  fold_right Z.add 0 es1 = fold_right Z.add 0 es2 -> fold_right Z.add 0 es1 < T ->
  pobs (io_poll false T (map PIntr es1 ++ o)) = pobs (io_poll false T (map PIntr es2 ++ o)).
Proof.
  intros F1 F2 E L. unfold io_poll.
  replace (mkP 0 T T false 0 true 0 48 false) with (pstate T 0) by (unfold pstate; f_equal; lia).
  destruct (io_poll_intr_prefix T o es1 0 [] [] ltac:(lia) F1 ltac:(lia)) as (l1 & E1).
  destruct (io_poll_intr_prefix T o es2 0 [] [] ltac:(lia) F2 ltac:(lia)) as (l2 & E2).
  rewrite E1, E2, E. apply io_poll_log_irrelevant.
Qed.

(* whatever the interruptions, an otherwise quiet poll wakes up exactly when the timeout is over *)
Lemma io_poll_wakeup_exact T es :
  Forall (fun e => 0 <= e) es -> fold_right Z.add 0 es < T ->
  r_blocked (io_poll false T (map PIntr es)) = T /\ r_end (io_poll false T (map PIntr es)) = PeTimeout /\
  r_ok (io_poll false T (map PIntr es)) = true.
Proof.
  intros F L. unfold io_poll.
  replace (mkP 0 T T false 0 true 0 48 false) with (pstate T 0) by (unfold pstate; f_equal; lia).
  assert (0 <= fold_right Z.add 0 es).
  { clear - F. induction es; cbn; [lia|]. inversion F; subst. specialize (IHes H2). lia. }
  destruct (io_poll_intr_prefix T [] es 0 [] [] ltac:(lia) F ltac:(lia)) as (l1 & E1).
  rewrite app_nil_r in E1. rewrite E1. cbn [io_poll_loop]. unfold io_poll_tail, pstate, log_full. cbn.
  destruct (Z.ltb_spec (T - fold_right Z.add 0 es) 0); [lia|]. cbn. repeat split; lia.
Qed.

(* the metrics variant: once the non-blocking first call has found nothing (timed out or was
   interrupted) it continues exactly like the plain variant *)
Lemma io_poll_user_irrelevant o : forall s u log flog,
  p_reset s = false ->
  io_poll_loop o (mkP (p_now s) (p_real s) (p_timeout s) false u (p_ok s) (p_base s) (p_count s) (p_full s)) log flog =
  io_poll_loop o s log flog.
Proof.
  induction o as [|a r IH]; intros s u log flog R.
  - unfold io_poll_loop, io_poll_tail, log_full. cbn. rewrite R. reflexivity.
  - cbn [io_poll_loop]. unfold log_full. cbn. rewrite R. unfold after_reset, update_timeout. cbn. rewrite R. cbn.
    destruct a.
    + destruct (p_timeout s =? 0); [reflexivity|]. destruct (p_timeout s =? -1).
      * apply (IH (mkP (p_now s + e) (p_real s) (p_timeout s) false (p_user s) (p_ok s && elapsed_ok (p_timeout s) e) (p_base s) (p_count s) (p_full s)) u); reflexivity.
      * destruct (p_real s - (p_now s + e - p_base s) <=? 0); [reflexivity|].
        apply (IH (mkP (p_now s + e) (p_real s - (p_now s + e - p_base s)) (p_real s - (p_now s + e - p_base s)) false (p_user s) (p_ok s && elapsed_ok (p_timeout s) e) (p_now s + e) (p_count s) (p_full s)) u); reflexivity.
    + reflexivity.
    + reflexivity.
    + destruct (p_count s - 1 =? 0); [reflexivity|].
      apply (IH (mkP (p_now s + e) (p_real s) 0 false (p_user s) (p_ok s && elapsed_ok (p_timeout s) e) (p_base s) (p_count s - 1) true) u); reflexivity.
Qed.

Lemma io_poll_metrics_reduces T o probe :
  (0 < T \/ T = -1) -> probe = PTimeout \/ probe = PIntr 0 ->
  pobs (io_poll true T (probe :: o)) = pobs (io_poll false T o).
Proof.
  intros HT HP. unfold io_poll. cbn [io_poll_loop]. unfold log_full. cbn.
  assert (K : pobs (io_poll_loop o (mkP 0 T T false T true 0 48 false) [(0, 0)] []) =
              pobs (io_poll_loop o (mkP 0 T T false 0 true 0 48 false) [] [])).
  { pose proof (io_poll_user_irrelevant o (mkP 0 T T false 0 true 0 48 false) T [(0, 0)] [] eq_refl) as U.
    cbn in U. rewrite U. apply io_poll_log_irrelevant. }
  destruct HP as [-> | ->]; cbn; unfold update_timeout, after_reset; cbn;
    (destruct (Z.eqb_spec T 0); [lia|]); (destruct (Z.eqb_spec T (-1)); [subst; exact K|]);
    match goal with |- context [?x <=? 0] => destruct (Z.leb_spec x 0); [lia|]; replace x with T by lia end;
    exact K.
Qed.

(* ---- history: the loop before /repo c841fbc never advanced base ------------------------- *)
Definition update_timeout_unfixed (s : pst) : option pst :=
  if p_timeout s =? 0 then None
  else if p_timeout s =? -1 then Some s
  else
    let real := p_real s - (p_now s - p_base s) in
    if real <=? 0 then None
    else Some (mkP (p_now s) real real (p_reset s) (p_user s) (p_ok s) (p_base s) (p_count s) (p_full s)).

Fixpoint io_poll_loop_unfixed (o : list pans) (s : pst) (log : list (Z * Z)) : pres :=
  match o with
  | [] =>
    let t := p_timeout s in
    mkR ((t, p_now s) :: log) [] (p_now s + t) PeTimeout (p_ok s)      (* plain variant, t >= 0 *)
  | a :: r =>
    let t := p_timeout s in
    let log := (t, p_now s) :: log in
    match a with
    | PEvents e | PFull e => mkR log [] (p_now s + e) PeEvents (p_ok s && elapsed_ok t e)
    | PTimeout => mkR log [] (p_now s + t) PeTimeout (p_ok s)
    | PIntr e =>
      let ok := p_ok s && elapsed_ok t e in
      match update_timeout_unfixed (after_reset s (p_now s + e) ok) with
      | None => mkR log [] (p_now s + e) PeBreak ok
      | Some s' => io_poll_loop_unfixed r s' log
      end
    end
  end.
Definition io_poll_unfixed (timeout : Z) (o : list pans) : pres :=
  io_poll_loop_unfixed o (mkP 0 timeout timeout false 0 true 0 48 false) [].

Lemma io_poll_unfixed_retry_exact_refuted :
  exists T o,
    r_ok (io_poll_unfixed T o) = true /\
    nth_call 2 (io_poll_unfixed T o) = Some (700, 200) /\ 700 <> T - 200 /\
    r_end (io_poll_unfixed T o) = PeTimeout /\ r_blocked (io_poll_unfixed T o) < T.
Proof. exists 1000, [PIntr 100; PIntr 100]. vm_compute. repeat split; congruence. Qed.

Lemma io_poll_unfixed_not_transparent :
  r_blocked (io_poll_unfixed 1000 [PIntr 100; PIntr 0]) <> r_blocked (io_poll_unfixed 1000 [PIntr 100]) /\
  r_blocked (io_poll false 1000 [PIntr 100; PIntr 0]) = r_blocked (io_poll false 1000 [PIntr 100]).
Proof. vm_compute. split; congruence. Qed.
