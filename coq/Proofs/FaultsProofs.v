(* C16 - proofs about Model/Faults.v *)
From UV Require Import Lib.Base Model.Faults.
Local Open Scope Z_scope.

Lemma write2_refuted_witness :
  exists (w : world) (l : ledger),
    o_res (uv_write2 6 false true l w) = Ret (RcErr ENOMEM) /\ o_led (uv_write2 6 false true l w) <> l.
Proof.
  exists (mkW [false] [] []), l0. split; [reflexivity|]. vm_compute. discriminate.
Qed.
