(* Proofs about Model/CloseProto.v (C02): the close protocol for the handle
   types with work in flight.  The model keeps the whole history as a ghost
   field ([hist], newest first), so every clause is a state invariant. *)
From UV Require Import Lib.Base Model.CloseProto.
From Coq Require Import Permutation.
Local Open Scope Z_scope.

Ltac splits := repeat match goal with |- _ /\ _ => split end.

(* ------------------------------------------------------------------ *)
(* state access                                                       *)
(* ------------------------------------------------------------------ *)
Lemma hvalid_lt s h : hvalid s h = true <-> (h < length (hs s))%nat.
Proof. unfold hvalid. apply Nat.ltb_lt. Qed.

Lemma hvalid_false_dflt s h : hvalid s h = false -> hget s h = dflt_hs.
Proof.
  unfold hvalid, hget. intros H. apply Nat.ltb_ge in H. apply nth_overflow. exact H.
Qed.

Lemma nth_upd {A} (l : list A) i j f d :
  nth j (upd i f l) d = if Nat.eqb i j && Nat.ltb i (length l) then f (nth i l d) else nth j l d.
Proof.
  revert i j. induction l as [|x l IH]; intros i j.
  - simpl. rewrite andb_false_r. destruct i; reflexivity.
  - destruct i as [|i], j as [|j]; simpl; try reflexivity.
    rewrite IH. reflexivity.
Qed.

Lemma hget_upd s h f h' :
  hget (upd_h s h f) h' = if Nat.eqb h h' && hvalid s h then f (hget s h) else hget s h'.
Proof. unfold hget, upd_h, hvalid, set_hs. cbn [hs]. apply nth_upd. Qed.

Lemma hget_upd_same s h f : hvalid s h = true -> hget (upd_h s h f) h = f (hget s h).
Proof. intros H. rewrite hget_upd, Nat.eqb_refl, H. reflexivity. Qed.

Lemma hget_upd_other s h f h' : h <> h' -> hget (upd_h s h f) h' = hget s h'.
Proof. intros H. rewrite hget_upd. apply Nat.eqb_neq in H. rewrite H. reflexivity. Qed.

Lemma hvalid_upd s h f h' : hvalid (upd_h s h f) h' = hvalid s h'.
Proof. unfold hvalid, upd_h, set_hs. cbn [hs]. rewrite upd_length. reflexivity. Qed.

Lemma usable_valid s h : usable s h = true -> hvalid s h = true /\ h_closing (hget s h) = false.
Proof. unfold usable. intros H. apply andb_prop in H. destruct H as [A B]. apply negb_true_iff in B. auto. Qed.

Lemma lookup_cons_other r r' h l : r' <> r -> lookup r ((r', h) :: l) = lookup r l.
Proof. intros H. simpl. apply Nat.eqb_neq in H. rewrite H. reflexivity. Qed.

Lemma lookup_cons_same r h l : lookup r ((r, h) :: l) = Some h.
Proof. simpl. rewrite Nat.eqb_refl. reflexivity. Qed.

(* ------------------------------------------------------------------ *)
(* what an event is about                                             *)
(* ------------------------------------------------------------------ *)
Definition op_handle (o : cop) : option nat :=
  match o with
  | OAcquire h _ | ORelease h _ | OSubmit h _ _ | OSigPending h _ | OFpStart h | OFpStop h
  | OFpStat h | OClose h | OBatch h | OHCb h => Some h
  | _ => None
  end.

Definition op_req (o : cop) : option nat :=
  match o with
  | OSubmit _ r _ | ODone r _ | OReqCb r _ => Some r
  | _ => None
  end.

Definition ev_handle (e : cev) : option nat :=
  match e with
  | EIn o => op_handle o
  | EHCb h | ECloseCb h | ELeak h _ => Some h
  | EReqCb _ _ _ | ETouch _ => None
  end.

Definition ev_req (e : cev) : option nat :=
  match e with
  | EIn o => op_req o
  | EReqCb r _ _ => Some r
  | _ => None
  end.

(* event e concerns handle h: it names h, or it names a request accepted on h *)
Definition about (s : cstate) (e : cev) (h : nat) : Prop :=
  ev_handle e = Some h \/ (exists r, ev_req e = Some r /\ lookup r (owner s) = Some h).

Definition is_user_cb (e : cev) : bool :=
  match e with EReqCb _ _ _ | EHCb _ | ECloseCb _ => true | _ => false end.

Definition closecbs (l : list cev) : list nat :=
  flat_map (fun e => match e with ECloseCb h => [h] | _ => [] end) l.

Lemma closecbs_in l h : In h (closecbs l) <-> In (ECloseCb h) l.
Proof.
  unfold closecbs. rewrite in_flat_map. split.
  - intros (e & He & Hh). destruct e; simpl in Hh; try contradiction.
    destruct Hh as [<-|[]]. exact He.
  - intros H. exists (ECloseCb h). split; [exact H|simpl; auto].
Qed.

(* nothing about h after its close callback (history is newest first) *)
Definition NA (s : cstate) : Prop :=
  forall later e earlier h, hist s = later ++ e :: earlier -> In (ECloseCb h) earlier -> ~ about s e h.

(* ------------------------------------------------------------------ *)
(* the invariant                                                      *)
(* ------------------------------------------------------------------ *)
Definition oreq (o : option nat) : list nat := match o with Some r => [r] | None => [] end.
Definition qreqs (x : hst) : list nat :=
  oreq (h_conn x) ++ h_wq x ++ map fst (h_cq x) ++ oreq (h_shut x).

Definition chs (l : list centry) : list nat :=
  flat_map (fun e => match e with CH h => [h] | CT _ _ => [] end) l.

Lemma chs_in l h : In h (chs l) <-> In (CH h) l.
Proof.
  unfold chs. rewrite in_flat_map. split.
  - intros (e & He & Hh). destruct e; simpl in Hh; try contradiction.
    destruct Hh as [<-|[]]. exact He.
  - intros H. exists (CH h). split; [exact H|simpl; auto].
Qed.

Lemma chs_app a b : chs (a ++ b) = chs a ++ chs b.
Proof. unfold chs. apply flat_map_app. Qed.

(* per-handle part *)
Record HOK (dl : list centry) (s : cstate) (h : nat) (x : hst) : Prop := {
  k_closed : h_closed x = true -> h_closing x = true /\ h_ctxs x = [];
  k_ch : In (CH h) (dl ++ clq s) -> h_closing x = true /\ h_closed x = false /\ h_ctxs x = [];
  k_own : forall r, In r (qreqs x) -> lookup r (owner s) = Some h;
  k_owed : h_closing x = true -> h_closed x = false -> In (CH h) (dl ++ clq s) \/ h_ctxs x <> [];
  k_led : h_closing x = true -> h_ledger x = [];
  k_ev : In (ECloseCb h) (hist s) <-> h_closed x = true;
  k_ty : h_ctxs x <> [] -> h_ty x = TFsPoll
}.

Record Inv (dl : list centry) (s : cstate) : Prop := {
  j_h : forall h, hvalid s h = true -> HOK dl s h (hget s h);
  j_valid : forall e, In e (dl ++ clq s) ->
            match e with CH h | CT h _ => hvalid s h = true end;
  j_nd : NoDup (chs (dl ++ clq s));
  j_evv : forall h, In (ECloseCb h) (hist s) -> hvalid s h = true;
  j_once : NoDup (closecbs (hist s));
  j_na : NA s;
  j_ro : forall e r, In e (hist s) -> ev_req e = Some r -> lookup r (owner s) <> None;
  j_ov : forall r h, lookup r (owner s) = Some h -> hvalid s h = true;
  j_noleak : forall h r, ~ In (ELeak h r) (hist s)
}.

Lemma Inv_init : Inv [] cinit.
Proof.
  constructor; simpl.
  - intros h H. unfold hvalid in H. simpl in H. discriminate.
  - intros e [].
  - constructor.
  - intros h [].
  - constructor.
  - intros later e earlier h H. destruct later; discriminate.
  - intros e r [].
  - intros r h H. discriminate.
  - intros h r H. exact H.
Qed.

(* ------------------------------------------------------------------ *)
(* primitive steps                                                    *)
(* ------------------------------------------------------------------ *)

(* the state changed only in the record of handle h *)
Lemma Inv_upd dl s h f :
  Inv dl s -> hvalid s h = true ->
  HOK dl s h (f (hget s h)) ->
  Inv dl (upd_h s h f).
Proof.
  intros I Hv K. destruct I.
  constructor; try assumption.
  - intros h' Hv'. rewrite hvalid_upd in Hv'.
    destruct (Nat.eq_dec h h') as [<-|Hne].
    + rewrite hget_upd_same by exact Hv. destruct K; constructor; assumption.
    + rewrite hget_upd_other by exact Hne. destruct (j_h0 h' Hv'); constructor; assumption.
  - intros e He. specialize (j_valid0 e He). destruct e; rewrite hvalid_upd; exact j_valid0.
  - intros h' H'. rewrite hvalid_upd. apply j_evv0. exact H'.
  - intros r h' H'. rewrite hvalid_upd. eapply j_ov0. exact H'.
Qed.

(* an event is appended to the history *)
Lemma Inv_emit dl s e :
  Inv dl s ->
  (forall h, e <> ECloseCb h) -> (forall h r, e <> ELeak h r) ->
  (forall h, about s e h -> hvalid s h = true -> h_closed (hget s h) = false) ->
  (forall r, ev_req e = Some r -> lookup r (owner s) <> None) ->
  Inv dl (emit s e).
Proof.
  intros I Hnc Hnl Hab Hro. destruct I.
  constructor; try assumption.
  - intros h Hv. destruct (j_h0 h Hv). constructor; try assumption.
    cbn [hist emit]. simpl. split.
    + intros [E|H]; [exfalso; eapply Hnc; eauto|apply k_ev0; exact H].
    + intros H. right. apply k_ev0. exact H.
  - cbn [hist emit]. intros h [E|H]; [exfalso; eapply Hnc; eauto|apply j_evv0; exact H].
  - cbn [hist emit]. simpl. destruct e; try exact j_once0. exfalso. eapply Hnc; eauto.
  - intros later e0 earlier h Hs Hin.
    cbn [hist emit] in Hs. destruct later as [|e1 later]; simpl in Hs.
    + inversion Hs; subst e0 earlier. intros Ha.
      assert (Hv : hvalid s h = true) by (apply j_evv0; exact Hin).
      specialize (Hab h Ha Hv). destruct (j_h0 h Hv). apply k_ev0 in Hin. congruence.
    + inversion Hs; subst e1. eapply j_na0; eauto.
  - cbn [hist emit]. intros e0 r [<-|H] Hr; [apply Hro; exact Hr|eapply j_ro0; eauto].
  - cbn [hist emit]. intros h r [E|H]; [eapply Hnl; eauto|eapply j_noleak0; eauto].
Qed.

(* fields the invariant does not look at *)
Lemma Inv_ext dl s s' :
  Inv dl s -> hs s' = hs s -> clq s' = clq s -> owner s' = owner s -> hist s' = hist s ->
  Inv dl s'.
Proof.
  intros I A B C D. destruct s, s'; simpl in *; subst.
  destruct I; constructor; try assumption.
  intros h Hv. destruct (j_h0 h Hv). constructor; assumption.
Qed.

Lemma in_app_cons {A} (x e : A) l1 l2 : In x (l1 ++ e :: l2) <-> x = e \/ In x (l1 ++ l2).
Proof.
  rewrite !in_app_iff. simpl. intuition congruence.
Qed.

(* the closing lists change (detached, entry taken off, entry pushed) *)
Lemma Inv_lists dl s dl' q' :
  Inv dl s ->
  (forall h, In (CH h) (dl' ++ q') -> In (CH h) (dl ++ clq s) \/
     (hvalid s h = true /\ h_closing (hget s h) = true /\ h_closed (hget s h) = false /\
      h_ctxs (hget s h) = [])) ->
  (forall h c, In (CT h c) (dl' ++ q') -> In (CT h c) (dl ++ clq s) \/ hvalid s h = true) ->
  (forall h, In (CH h) (dl ++ clq s) -> In (CH h) (dl' ++ q') \/ h_closed (hget s h) = true) ->
  NoDup (chs (dl' ++ q')) ->
  Inv dl' (set_clq s q').
Proof.
  intros I A B C D. destruct I.
  constructor; try assumption.
  - intros h Hv. change (hvalid (set_clq s q') h) with (hvalid s h) in Hv.
    change (hget (set_clq s q') h) with (hget s h).
    destruct (j_h0 h Hv). constructor; try assumption.
    + change (clq (set_clq s q')) with q'. intros H. destruct (A h H) as [H1|(_ & H1 & H2 & H3)]; auto.
    + change (clq (set_clq s q')) with q'. intros H1 H2. destruct (k_owed0 H1 H2) as [H3|H3]; auto.
      destruct (C h H3) as [H4|H4]; auto. congruence.
  - change (clq (set_clq s q')) with q'. intros e He.
    destruct e as [h|h c].
    + destruct (A h He) as [H1|(H1 & _)]; auto. apply (j_valid0 (CH h) H1).
    + destruct (B h c He) as [H1|H1]; auto. apply (j_valid0 (CT h c) H1).
Qed.

Lemma NoDup_chs_add dl q h :
  NoDup (chs (dl ++ q)) -> ~ In (CH h) (dl ++ q) -> NoDup (chs (dl ++ CH h :: q)).
Proof.
  intros N H. rewrite chs_app in *. simpl.
  apply (proj2 (NoDup_Add (Add_app h (chs dl) (chs q)))). split; [exact N|].
  rewrite <- chs_app, chs_in. exact H.
Qed.

Lemma NoDup_chs_ct dl q h c : NoDup (chs (dl ++ q)) -> NoDup (chs (dl ++ CT h c :: q)).
Proof. rewrite !chs_app. simpl. auto. Qed.

Lemma Inv_push_ch dl s h :
  Inv dl s -> hvalid s h = true -> h_closing (hget s h) = true -> h_closed (hget s h) = false ->
  h_ctxs (hget s h) = [] -> ~ In (CH h) (dl ++ clq s) ->
  Inv dl (push_clq s (CH h)).
Proof.
  intros I Hv H1 H2 H3 H4. unfold push_clq. apply Inv_lists with (dl := dl); auto.
  - intros h' H. apply in_app_cons in H. destruct H as [E|H]; auto. inversion E; subst. right; auto.
  - intros h' c H. apply in_app_cons in H. destruct H as [E|H]; auto. discriminate.
  - intros h' H. left. apply in_app_cons. auto.
  - apply NoDup_chs_add; auto. apply (j_nd _ _ I).
Qed.

Lemma Inv_push_ct dl s h c :
  Inv dl s -> hvalid s h = true ->
  Inv dl (push_clq s (CT h c)).
Proof.
  intros I Hv. unfold push_clq. apply Inv_lists with (dl := dl); auto.
  - intros h' H. apply in_app_cons in H. destruct H as [E|H]; auto. discriminate.
  - intros h' c' H. apply in_app_cons in H. destruct H as [E|H]; auto. inversion E; subst. right; auto.
  - intros h' H. left. apply in_app_cons. auto.
  - apply NoDup_chs_ct. apply (j_nd _ _ I).
Qed.

(* OInit *)
Lemma hget_app_old s x h : hvalid s h = true -> hget (set_hs s (hs s ++ [x])) h = hget s h.
Proof. intros H. apply hvalid_lt in H. unfold hget, set_hs. cbn [hs]. apply app_nth1. exact H. Qed.

Lemma hget_app_new s x : hget (set_hs s (hs s ++ [x])) (length (hs s)) = x.
Proof. unfold hget, set_hs. cbn [hs]. rewrite app_nth2 by lia. rewrite Nat.sub_diag. reflexivity. Qed.

Lemma Inv_newh dl s t :
  Inv dl s -> Inv dl (set_hs s (hs s ++ [mkHS t false false None [] [] None [] 0 false []])).
Proof.
  intros I. pose proof I as I0. destruct I.
  set (x := mkHS t false false None [] [] None [] 0 false []).
  assert (VV : forall h, hvalid s h = true -> hvalid (set_hs s (hs s ++ [x])) h = true).
  { intros h H. apply hvalid_lt in H. apply hvalid_lt. cbn [hs set_hs]. rewrite app_length. simpl. lia. }
  constructor; try assumption.
  - intros h Hv. apply hvalid_lt in Hv. cbn [hs set_hs] in Hv. rewrite app_length in Hv. simpl in Hv.
    destruct (Nat.eq_dec h (length (hs s))) as [->|Hne].
    + rewrite hget_app_new.
      assert (NV : hvalid s (length (hs s)) = false) by (unfold hvalid; apply Nat.ltb_irrefl).
      constructor; simpl; try discriminate; try tauto; try congruence.
      * intros H. specialize (j_valid0 _ H). simpl in j_valid0. congruence.
      * split; [|discriminate]. intros H. apply j_evv0 in H. congruence.
    + assert (Hv' : hvalid s h = true) by (apply hvalid_lt; lia).
      rewrite hget_app_old by exact Hv'. destruct (j_h0 h Hv'). constructor; assumption.
  - intros e He. specialize (j_valid0 e He). destruct e; apply VV; exact j_valid0.
  - intros h H. apply VV. apply j_evv0. exact H.
  - intros r h H. apply VV. eapply j_ov0. exact H.
Qed.

(* OSubmit: a fresh request id gets an owner *)
Lemma NA_owner s r h :
  lookup r (owner s) = None ->
  (forall e r', In e (hist s) -> ev_req e = Some r' -> lookup r' (owner s) <> None) ->
  NA s -> NA (set_owner s ((r, h) :: owner s)).
Proof.
  intros F RO N later e earlier h' Hs Hin [Ha|(r' & Hr & Hl)].
  - eapply N; eauto. left. exact Ha.
  - change (hist (set_owner s ((r, h) :: owner s))) with (hist s) in Hs.
    change (owner (set_owner s ((r, h) :: owner s))) with ((r, h) :: owner s) in Hl.
    assert (Hne : r <> r').
    { intros <-. eapply RO; [|exact Hr|exact F]. rewrite Hs. apply in_or_app. right. left. reflexivity. }
    rewrite lookup_cons_other in Hl by exact Hne.
    eapply N; eauto. right. exists r'. auto.
Qed.

Lemma Inv_owner dl s r h :
  Inv dl s -> lookup r (owner s) = None -> hvalid s h = true ->
  Inv dl (set_owner s ((r, h) :: owner s)).
Proof.
  intros I F Hv. destruct I.
  constructor; try assumption.
  - intros h' Hv'. destruct (j_h0 h' Hv'). constructor; try assumption.
    intros r' Hr. change (owner (set_owner s ((r, h) :: owner s))) with ((r, h) :: owner s).
    specialize (k_own0 r' Hr).
    rewrite lookup_cons_other; [exact k_own0|]. intros <-. congruence.
  - apply NA_owner; assumption.
  - intros e r' He Hr. change (owner (set_owner s ((r, h) :: owner s))) with ((r, h) :: owner s).
    simpl. destruct (Nat.eqb r r'); [discriminate|]. eapply j_ro0; eauto.
  - intros r' h'. change (owner (set_owner s ((r, h) :: owner s))) with ((r, h) :: owner s).
    simpl. destruct (Nat.eqb r r'); [intros E; inversion E; subst; exact Hv|apply j_ov0].
Qed.

(* ------------------------------------------------------------------ *)
(* what a step never changes                                          *)
(* ------------------------------------------------------------------ *)
Definition Frame (s s' : cstate) : Prop :=
  (forall h, hvalid s h = true ->
     hvalid s' h = true /\ h_closed (hget s' h) = h_closed (hget s h) /\
     h_ty (hget s' h) = h_ty (hget s h) /\
     (h_closing (hget s h) = true -> h_closing (hget s' h) = true)) /\
  (forall r h, lookup r (owner s) = Some h -> lookup r (owner s') = Some h).

Lemma Frame_refl s : Frame s s.
Proof. split; intros; auto. Qed.

Lemma Frame_trans a b c : Frame a b -> Frame b c -> Frame a c.
Proof.
  intros [A1 A2] [B1 B2]. split.
  - intros h H. destruct (A1 h H) as (V & C & T & G). destruct (B1 h V) as (V' & C' & T' & G').
    repeat split; auto; congruence.
  - intros r h H. auto.
Qed.

Lemma Frame_upd s h f :
  (h_closed (f (hget s h)) = h_closed (hget s h)) ->
  (h_ty (f (hget s h)) = h_ty (hget s h)) ->
  (h_closing (hget s h) = true -> h_closing (f (hget s h)) = true) ->
  Frame s (upd_h s h f).
Proof.
  intros A B C. split; [|intros; auto].
  intros h' Hv. rewrite hvalid_upd. split; [exact Hv|].
  rewrite hget_upd. destruct (Nat.eqb h h' && hvalid s h) eqn:E; [|auto].
  apply andb_prop in E. destruct E as [E _]. apply Nat.eqb_eq in E. subst h'. auto.
Qed.

Lemma Frame_same_hs s s' :
  hs s' = hs s -> owner s' = owner s -> Frame s s'.
Proof.
  intros A B. split.
  - intros h H. unfold hvalid, hget in *. rewrite A. auto.
  - intros r h H. rewrite B. exact H.
Qed.

Lemma Frame_emit s e : Frame s (emit s e).
Proof. apply Frame_same_hs; reflexivity. Qed.

Lemma Frame_push s e : Frame s (push_clq s e).
Proof. apply Frame_same_hs; reflexivity. Qed.

(* ------------------------------------------------------------------ *)
(* API operations                                                     *)
(* ------------------------------------------------------------------ *)
Lemma HOK_not_closing dl s h x : HOK dl s h x -> h_closing x = false -> h_closed x = false.
Proof.
  intros K H. destruct (h_closed x) eqn:E; auto. destruct (k_closed _ _ _ _ K E). congruence.
Qed.

Lemma HOK_frame dl s h x y :
  HOK dl s h x -> h_closing y = h_closing x -> h_closed y = h_closed x -> h_ctxs y = h_ctxs x ->
  h_ty y = h_ty x ->
  (forall r, In r (qreqs y) -> In r (qreqs x)) ->
  (h_closing y = true -> h_ledger y = []) -> HOK dl s h y.
Proof.
  intros K A B C T D E. destruct K. constructor; rewrite ?A, ?B, ?C, ?T; auto.
  rewrite <- A. exact E.
Qed.

Lemma about_handle_only s e h h' :
  ev_handle e = Some h -> ev_req e = None -> about s e h' -> h' = h.
Proof. intros A B [C|(r & C & _)]; congruence. Qed.

(* emitting the echo of an operation on a usable handle h *)
Lemma Inv_emit_op dl s o h :
  Inv dl s -> op_handle o = Some h -> op_req o = None ->
  hvalid s h = true -> h_closed (hget s h) = false ->
  Inv dl (emit s (EIn o)).
Proof.
  intros I A B Hv Hc. apply Inv_emit; auto; try discriminate.
  - intros h' Ha _. apply (about_handle_only s (EIn o) h h' A B) in Ha. subst. exact Hc.
  - simpl. rewrite B. discriminate.
Qed.

Lemma qreqs_conn x r : qreqs (w_conn (Some r) x) = r :: h_wq x ++ map fst (h_cq x) ++ oreq (h_shut x).
Proof. reflexivity. Qed.

Lemma fp_stop_spec dl s h :
  Inv dl s -> hvalid s h = true -> Inv dl (fp_stop s h) /\ Frame s (fp_stop s h) /\
  (h_closing (hget (fp_stop s h) h) = h_closing (hget s h)) /\
  (h_closed (hget (fp_stop s h) h) = h_closed (hget s h)) /\
  (h_ledger (hget (fp_stop s h) h) = h_ledger (hget s h)) /\
  (h_ctxs (hget s h) = [] -> h_ctxs (hget (fp_stop s h) h) = []) /\
  (h_ctxs (hget s h) <> [] -> h_ctxs (hget (fp_stop s h) h) <> []) /\
  (forall e, In e (clq s) -> In e (clq (fp_stop s h))) /\
  (forall h', In (CH h') (clq (fp_stop s h)) -> In (CH h') (clq s)).
Proof.
  intros I Hv. unfold fp_stop.
  destruct (h_active (hget s h)) eqn:Ea.
  2:{ splits; auto. apply Frame_refl. }
  pose proof (j_h _ _ I h Hv) as K.
  assert (Plain : forall (P : cstate -> Prop),
            (h_ctxs (hget s h) = [] \/ exists c rest, h_ctxs (hget s h) = c :: rest /\ Nat.eqb (c_timer c) 1 = false) ->
            Inv dl (upd_h s h (w_active false)) /\ Frame s (upd_h s h (w_active false)) /\
            hget (upd_h s h (w_active false)) h = w_active false (hget s h)).
  { intros _ _. splits.
    - apply Inv_upd; auto. eapply HOK_frame; eauto. apply (k_led _ _ _ _ K).
    - apply Frame_upd; auto.
    - apply hget_upd_same; exact Hv. }
  destruct (h_ctxs (hget s h)) as [|c rest] eqn:Ec.
  - destruct (Plain (fun _ => True)) as (I1 & F1 & G1); [left; reflexivity|].
    splits; auto; try (rewrite G1; cbn; auto; fail);
      try (intros H; exfalso; apply H; reflexivity).
  - destruct (Nat.eqb (c_timer c) 1) eqn:Et.
    + (* the timer of the head context is closed *)
      set (s1 := upd_h s h (w_ctxs (mkC (c_id c) (c_stat c) 2 :: rest))).
      assert (I1 : Inv dl s1).
      { apply Inv_upd; auto. destruct K. constructor; cbn [h_closed h_closing h_ctxs h_ledger qreqs h_conn h_wq h_cq h_shut w_ctxs h_ty]; auto.
        - intros H. destruct (k_closed0 H). congruence.
        - intros H. destruct (k_ch0 H) as (_ & _ & H'). congruence.
        - intros H1 H2. right. discriminate.
        - intros _. apply k_ty0. rewrite Ec. discriminate. }
      assert (V1 : hvalid s1 h = true) by (unfold s1; rewrite hvalid_upd; exact Hv).
      assert (G1 : hget s1 h = w_ctxs (mkC (c_id c) (c_stat c) 2 :: rest) (hget s h))
        by (unfold s1; apply hget_upd_same; exact Hv).
      assert (I2 : Inv dl (push_clq s1 (CT h (c_id c)))).
      { apply Inv_push_ct; auto. }
      assert (V2 : hvalid (push_clq s1 (CT h (c_id c))) h = true) by exact V1.
      assert (I3 : Inv dl (upd_h (push_clq s1 (CT h (c_id c))) h (w_active false))).
      { apply Inv_upd; auto. eapply HOK_frame; [apply (j_h _ _ I2 h V2)|..]; auto.
        apply (k_led _ _ _ _ (j_h _ _ I2 h V2)). }
      assert (G3 : hget (upd_h (push_clq s1 (CT h (c_id c))) h (w_active false)) h =
                   w_active false (w_ctxs (mkC (c_id c) (c_stat c) 2 :: rest) (hget s h))).
      { rewrite hget_upd_same by exact V2. change (hget (push_clq s1 (CT h (c_id c))) h) with (hget s1 h).
        rewrite G1. reflexivity. }
      assert (F3 : Frame s (upd_h (push_clq s1 (CT h (c_id c))) h (w_active false))).
      { apply Frame_trans with (b := s1); [unfold s1; apply Frame_upd; auto|].
        apply Frame_trans with (b := push_clq s1 (CT h (c_id c))); [apply Frame_push|].
        apply Frame_upd; auto. }
      splits.
      * exact I3.
      * exact F3.
      * rewrite G3. reflexivity.
      * rewrite G3. reflexivity.
      * rewrite G3. reflexivity.
      * intros H. discriminate.
      * intros _. rewrite G3. cbn. discriminate.
      * intros e He. cbn. right. exact He.
      * intros h' H. cbn in H. destruct H as [E|H]; [discriminate|exact H].
    + destruct (Plain (fun _ => True)) as (I1 & F1 & G1); [right; eauto|].
      splits; auto; try (rewrite G1; cbn; auto; fail);
        try (intros H; discriminate); try (intros _; rewrite G1; cbn; rewrite Ec; discriminate).
Qed.

(* re-establish the per-handle and list parts in one go; the history, the
   owners and the handle table size are unchanged *)
Lemma Inv_step_gen dl s dl' s' :
  Inv dl s -> hist s' = hist s -> owner s' = owner s -> length (hs s') = length (hs s) ->
  (forall h, hvalid s h = true -> HOK dl' s' h (hget s' h)) ->
  (forall e, In e (dl' ++ clq s') -> match e with CH h | CT h _ => hvalid s h = true end) ->
  NoDup (chs (dl' ++ clq s')) ->
  Inv dl' s'.
Proof.
  intros I A B C D E F. destruct I.
  assert (VV : forall h, hvalid s' h = hvalid s h) by (intros h; unfold hvalid; rewrite C; reflexivity).
  constructor; try assumption.
  - intros h Hv. rewrite VV in Hv. auto.
  - intros e He. specialize (E e He). destruct e; rewrite VV; exact E.
  - intros h. rewrite A, VV. apply j_evv0.
  - rewrite A. exact j_once0.
  - intros later e earlier h Hs Hin [Ha|(r & Hr & Hl)]; rewrite A in Hs.
    + eapply j_na0; eauto. left. exact Ha.
    + rewrite B in Hl. eapply j_na0; eauto. right. eauto.
  - intros e r. rewrite A, B. apply j_ro0.
  - intros r h. rewrite B, VV. apply j_ov0.
  - intros h r. rewrite A. apply j_noleak0.
Qed.

Lemma HOK_lists dl s h x dl' s' :
  HOK dl s h x -> owner s' = owner s -> hist s' = hist s ->
  (In (CH h) (dl' ++ clq s') <-> In (CH h) (dl ++ clq s)) ->
  HOK dl' s' h x.
Proof.
  intros K A B C. destruct K. constructor; auto.
  - intros H. apply k_ch0. apply C. exact H.
  - intros r H. rewrite A. auto.
  - intros H1 H2. destruct (k_owed0 H1 H2); auto. left. apply C. assumption.
  - rewrite B. exact k_ev0.
Qed.

Definition Step (dl : list centry) (s s' : cstate) : Prop := Inv dl s' /\ Frame s s'.

Lemma Step_refl dl s : Inv dl s -> Step dl s s.
Proof. intros I. split; [exact I|apply Frame_refl]. Qed.

Lemma Step_trans dl a b c : Step dl a b -> (Inv dl b -> Step dl b c) -> Step dl a c.
Proof. intros [I F] H. destruct (H I) as [I' F']. split; [exact I'|eapply Frame_trans; eauto]. Qed.

(* an operation that rewrites the record of a usable handle and echoes itself *)
Lemma simple_op dl s h f o :
  Inv dl s -> hvalid s h = true -> h_closed (hget s h) = false ->
  op_handle o = Some h -> op_req o = None ->
  h_closing (f (hget s h)) = h_closing (hget s h) ->
  h_closed (f (hget s h)) = h_closed (hget s h) ->
  h_ctxs (f (hget s h)) = h_ctxs (hget s h) ->
  h_ty (f (hget s h)) = h_ty (hget s h) ->
  (forall r, In r (qreqs (f (hget s h))) -> In r (qreqs (hget s h))) ->
  (h_closing (f (hget s h)) = true -> h_ledger (f (hget s h)) = []) ->
  Step dl s (emit (upd_h s h f) (EIn o)).
Proof.
  intros I Hv Hc A B C1 C2 C3 C4 C5 C6.
  assert (I1 : Inv dl (upd_h s h f)).
  { apply Inv_upd; auto. eapply HOK_frame; eauto. apply (j_h _ _ I h Hv). }
  split.
  - apply Inv_emit_op with (h := h); auto.
    + rewrite hvalid_upd. exact Hv.
    + rewrite hget_upd_same by exact Hv. congruence.
  - apply Frame_trans with (b := upd_h s h f); [|apply Frame_emit].
    apply Frame_upd; auto. congruence.
Qed.

Lemma remove1_in x y l : In y (remove1 x l) -> In y l.
Proof.
  induction l as [|z l IH]; simpl; auto. destruct (Nat.eqb x z); simpl; intuition.
Qed.

(* uv_close: the record of h becomes y (closing, nothing owned), and either the
   handle itself or a context timer goes onto the closing list, or contexts
   remain that will do it later *)
Lemma close_like dl s h s' y ne :
  Inv dl s -> hvalid s h = true -> h_closing (hget s h) = false ->
  hist s' = hist s -> owner s' = owner s -> length (hs s') = length (hs s) ->
  (forall h', h' <> h -> hget s' h' = hget s h') -> hget s' h = y ->
  h_closing y = true -> h_closed y = false -> h_ledger y = [] -> h_ty y = h_ty (hget s h) ->
  qreqs y = qreqs (hget s h) -> (h_ctxs y = [] <-> h_ctxs (hget s h) = []) ->
  clq s' = match ne with Some e => e :: clq s | None => clq s end ->
  match ne with
  | Some (CH h') => h' = h /\ h_ctxs y = []
  | Some (CT h' c) => h' = h /\ h_ctxs y <> []
  | None => h_ctxs y <> []
  end ->
  Step dl s s'.
Proof.
  intros I Hv Hc A B C D E Y1 Y2 Y3 Y4 Y5 Y6 Q1 Q2.
  pose proof (j_h _ _ I h Hv) as K.
  assert (NC : ~ In (CH h) (dl ++ clq s)).
  { intros H. destruct (k_ch _ _ _ _ K H). congruence. }
  assert (Hd : h_closed (hget s h) = false) by (eapply HOK_not_closing; eauto).
  assert (MEM : forall e, In e (dl ++ clq s') <-> (Some e = ne \/ In e (dl ++ clq s))).
  { intros e. rewrite Q1. destruct ne as [e0|].
    - rewrite in_app_cons. split; intros [H|H]; auto; left; congruence.
    - split; auto. intros [H|H]; [discriminate|auto]. }
  assert (VV : forall h', hvalid s' h' = hvalid s h') by (intros h'; unfold hvalid; rewrite C; reflexivity).
  split.
  - apply Inv_step_gen with (dl := dl) (s := s); auto.
    + intros h' Hv'. destruct (Nat.eq_dec h' h) as [->|Hne].
      * rewrite E. destruct K. constructor; rewrite ?A, ?B, ?Y5; auto.
        -- intros H. congruence.
        -- intros H. apply MEM in H. destruct H as [H|H]; [|tauto].
           subst ne. destruct Q2 as (_ & Q2). auto.
        -- intros _ _. destruct ne as [[h'|h' c]|].
           ++ destruct Q2 as (-> & _). left. apply MEM. auto.
           ++ destruct Q2 as (_ & Q2). right. exact Q2.
           ++ right. exact Q2.
        -- rewrite Y2, <- Hd. exact k_ev0.
        -- intros H. rewrite Y4. apply k_ty0. intros E0. apply H. apply Y6. exact E0.
      * rewrite D by exact Hne. apply HOK_lists with (dl := dl) (s := s); auto.
        -- apply (j_h _ _ I h' Hv').
        -- rewrite MEM. split; auto. intros [H|H]; auto. subst ne. destruct Q2 as (Q2 & _). congruence.
    + intros e He. apply MEM in He. destruct He as [He|He].
      * subst ne. destruct e; destruct Q2 as (-> & _); exact Hv.
      * apply (j_valid _ _ I e He).
    + rewrite Q1. destruct ne as [[h'|h' c]|].
      * destruct Q2 as (-> & _). apply NoDup_chs_add; auto. apply (j_nd _ _ I).
      * apply NoDup_chs_ct. apply (j_nd _ _ I).
      * apply (j_nd _ _ I).
  - split.
    + intros h' Hv'. rewrite VV. split; [exact Hv'|].
      destruct (Nat.eq_dec h' h) as [->|Hne].
      * rewrite E. splits; auto; congruence.
      * rewrite D by exact Hne. auto.
    + intros r h'. rewrite B. auto.
Qed.

Lemma hget_push s e h : hget (push_clq s e) h = hget s h.
Proof. reflexivity. Qed.

Lemma hvalid_push s e h : hvalid (push_clq s e) h = hvalid s h.
Proof. reflexivity. Qed.

Lemma len_upd_h s h f : length (hs (upd_h s h f)) = length (hs s).
Proof. unfold upd_h, set_hs. cbn [hs]. apply upd_length. Qed.

Lemma c_close_step dl s h :
  Inv dl s -> hvalid s h = true -> h_closing (hget s h) = false -> Step dl s (c_close s h).
Proof.
  intros I Hv Hc. unfold c_close.
  pose proof (j_h _ _ I h Hv) as K.
  assert (Hd : h_closed (hget s h) = false) by (eapply HOK_not_closing; eauto).
  set (g := fun x => w_ledger [] (w_closing true x)).
  set (s1 := upd_h s h g).
  assert (G1 : hget s1 h = g (hget s h)) by (apply hget_upd_same; exact Hv).
  assert (V1 : hvalid s1 h = true) by (unfold s1; rewrite hvalid_upd; exact Hv).
  assert (O1 : forall h', h' <> h -> hget s1 h' = hget s h')
    by (intros h' Hne; unfold s1; apply hget_upd_other; auto).
  assert (PUSH : h_ctxs (hget s h) = [] -> Step dl s (push_clq s1 (CH h))).
  { intros Ec. apply close_like with (h := h) (y := g (hget s h)) (ne := Some (CH h)); auto; try (cbn; tauto).
    unfold s1. cbn [push_clq set_clq hs]. apply len_upd_h. }
  destruct (h_ty (hget s h)) eqn:Ty;
    try (apply PUSH; destruct (h_ctxs (hget s h)) eqn:Ec; auto;
         assert (Ht : h_ty (hget s h) = TFsPoll) by (apply (k_ty _ _ _ _ K); rewrite Ec; discriminate);
         congruence).
  (* fs_poll *)
  unfold fp_stop. rewrite G1. cbn [g h_active w_ledger w_closing].
  destruct (h_active (hget s h)) eqn:Ea.
  2:{ rewrite G1. cbn [g h_ctxs w_ledger w_closing].
      destruct (h_ctxs (hget s h)) as [|c rest] eqn:Ec; [apply PUSH; reflexivity|].
      apply close_like with (h := h) (y := g (hget s h)) (ne := None); auto; try (cbn; tauto).
      - apply len_upd_h.
      - cbn. rewrite Ec. discriminate. }
  change (h_ctxs (g (hget s h))) with (h_ctxs (hget s h)).
  destruct (h_ctxs (hget s h)) as [|c rest] eqn:Ec.
  - (* active, no context *)
    rewrite hget_upd_same by exact V1. rewrite G1. cbn [g h_ctxs w_active w_ledger w_closing]. rewrite Ec.
    apply close_like with (h := h) (y := w_active false (g (hget s h))) (ne := Some (CH h)); auto; try (cbn; tauto).
    + cbn [push_clq set_clq hs]. rewrite len_upd_h. apply len_upd_h.
    + intros h' Hne. rewrite hget_push, hget_upd_other by auto. auto.
    + rewrite hget_push, hget_upd_same by exact V1. rewrite G1. reflexivity.
  - destruct (Nat.eqb (c_timer c) 1) eqn:Et.
    + set (y := w_active false (w_ctxs (mkC (c_id c) (c_stat c) 2 :: rest) (g (hget s h)))).
      set (s2 := upd_h (push_clq (upd_h s1 h (w_ctxs (mkC (c_id c) (c_stat c) 2 :: rest))) (CT h (c_id c))) h (w_active false)).
      assert (G2 : hget s2 h = y).
      { unfold s2. rewrite hget_upd_same by (rewrite hvalid_push, hvalid_upd; exact V1).
        rewrite hget_push, hget_upd_same by exact V1. rewrite G1. reflexivity. }
      rewrite G2. cbn [y h_ctxs w_active w_ctxs].
      apply close_like with (h := h) (y := y) (ne := Some (CT h (c_id c))); auto; try (cbn; tauto).
      * unfold s2. rewrite len_upd_h. cbn [push_clq set_clq hs]. rewrite len_upd_h. apply len_upd_h.
      * intros h' Hne. unfold s2. rewrite hget_upd_other by auto. rewrite hget_push, hget_upd_other by auto. auto.
      * cbn. rewrite Ec. split; discriminate.
      * split; auto. cbn. discriminate.
    + set (y := w_active false (g (hget s h))).
      rewrite hget_upd_same by exact V1. rewrite G1. cbn [g h_ctxs w_active w_ledger w_closing]. rewrite Ec.
      apply close_like with (h := h) (y := y) (ne := None); auto; try (cbn; tauto).
      * rewrite len_upd_h. apply len_upd_h.
      * intros h' Hne. rewrite hget_upd_other by auto. auto.
      * rewrite hget_upd_same by exact V1. rewrite G1. reflexivity.
      * cbn. rewrite Ec. discriminate.
Qed.

Lemma Frame_newh s x : Frame s (set_hs s (hs s ++ [x])).
Proof.
  split; [|intros; auto].
  intros h Hv. rewrite hget_app_old by exact Hv. splits; auto.
  apply hvalid_lt in Hv. apply hvalid_lt. cbn [hs set_hs]. rewrite app_length. simpl. lia.
Qed.

(* the echo of an operation that names request r (accepted on h) and possibly h itself *)
Lemma Inv_emit_opr dl s o h r :
  Inv dl s -> (op_handle o = Some h \/ op_handle o = None) -> op_req o = Some r ->
  lookup r (owner s) = Some h -> hvalid s h = true -> h_closed (hget s h) = false ->
  Inv dl (emit s (EIn o)).
Proof.
  intros I A B L Hv Hc. apply Inv_emit; auto; try discriminate.
  - intros h' [Ha|(r' & Hr & Hl)] _.
    + simpl in Ha. destruct A as [A|A]; congruence.
    + simpl in Hr. assert (r' = r) by congruence. subst. assert (h' = h) by congruence. subst. exact Hc.
  - simpl. intros r' Hr. assert (r' = r) by congruence. subst. congruence.
Qed.

Lemma HOK_reqs dl s h x y :
  HOK dl s h x -> h_closing y = h_closing x -> h_closed y = h_closed x -> h_ctxs y = h_ctxs x ->
  h_ty y = h_ty x -> h_ledger y = h_ledger x ->
  (forall r, In r (qreqs y) -> lookup r (owner s) = Some h) -> HOK dl s h y.
Proof.
  intros K A B C T L D. destruct K. constructor; rewrite ?A, ?B, ?C, ?T, ?L; auto.
Qed.

Lemma in_qreqs x r :
  In r (qreqs x) <-> (h_conn x = Some r \/ In r (h_wq x) \/ In r (map fst (h_cq x)) \/ h_shut x = Some r).
Proof.
  unfold qreqs. rewrite !in_app_iff. unfold oreq.
  destruct (h_conn x), (h_shut x); simpl; split; intros H;
    repeat match goal with H : _ \/ _ |- _ => destruct H | H : False |- _ => destruct H end;
    subst; auto; try discriminate;
    try match goal with H : Some _ = Some _ |- _ => inversion H; subst; auto end.
Qed.

(* OSubmit *)
Lemma submit_step dl s h r k f :
  Inv dl s -> hvalid s h = true -> h_closing (hget s h) = false ->
  lookup r (owner s) = None ->
  h_closing (f (hget s h)) = h_closing (hget s h) -> h_closed (f (hget s h)) = h_closed (hget s h) ->
  h_ctxs (f (hget s h)) = h_ctxs (hget s h) -> h_ty (f (hget s h)) = h_ty (hget s h) ->
  h_ledger (f (hget s h)) = h_ledger (hget s h) ->
  (forall r', In r' (qreqs (f (hget s h))) -> r' = r \/ In r' (qreqs (hget s h))) ->
  Step dl s (emit (upd_h (set_owner s ((r, h) :: owner s)) h f) (EIn (OSubmit h r k))).
Proof.
  intros I Hv Hc Fr A B C T L Q.
  set (s1 := set_owner s ((r, h) :: owner s)).
  assert (I1 : Inv dl s1) by (apply Inv_owner; auto).
  assert (Hd : h_closed (hget s h) = false) by (eapply HOK_not_closing; [apply (j_h _ _ I h Hv)|exact Hc]).
  assert (I2 : Inv dl (upd_h s1 h f)).
  { apply Inv_upd; auto. eapply HOK_reqs; [apply (j_h _ _ I1 h Hv)|..]; auto.
    intros r' Hr. destruct (Q r' Hr) as [->|H].
    - apply lookup_cons_same.
    - apply (k_own _ _ _ _ (j_h _ _ I1 h Hv)). exact H. }
  split.
  - apply Inv_emit_opr with (h := h) (r := r); auto.
    + apply lookup_cons_same.
    + rewrite hvalid_upd. exact Hv.
    + rewrite hget_upd_same by exact Hv. change (hget s1 h) with (hget s h). congruence.
  - apply Frame_trans with (b := s1).
    + split; [intros h' H; auto|]. intros r' h' H. unfold s1. cbn [owner set_owner].
      rewrite lookup_cons_other; auto. intros <-. congruence.
    + apply Frame_trans with (b := upd_h s1 h f); [|apply Frame_emit].
      apply Frame_upd; auto. change (hget s1 h) with (hget s h). congruence.
Qed.

Lemma capi_step dl s o : Inv dl s -> Step dl s (capi s o).
Proof.
  intros I. destruct o; cbn [capi]; try (apply Step_refl; exact I).
  - (* OInit *)
    split.
    + apply Inv_emit; try discriminate; [apply Inv_newh; exact I|..];
        try (intros h [Ha|(r & Hr & _)]; discriminate); try (intros r Hr; discriminate).
    + eapply Frame_trans; [apply Frame_newh|apply Frame_emit].
  - (* OAcquire *)
    destruct (usable s h) eqn:U; [|apply Step_refl; exact I].
    apply usable_valid in U. destruct U as [Hv Hc].
    apply simple_op; auto.
    + eapply HOK_not_closing; [apply (j_h _ _ I h Hv)|exact Hc].
    + cbn. congruence.
  - (* ORelease *)
    destruct (usable s h) eqn:U; [|apply Step_refl; exact I].
    apply usable_valid in U. destruct U as [Hv Hc].
    apply simple_op; auto.
    + eapply HOK_not_closing; [apply (j_h _ _ I h Hv)|exact Hc].
    + cbn. congruence.
  - (* OSubmit *)
    destruct (usable s h && match lookup r (owner s) with None => true | Some _ => false end) eqn:U;
      [|apply Step_refl; exact I].
    apply andb_prop in U. destruct U as [U Fr]. apply usable_valid in U. destruct U as [Hv Hc].
    destruct (lookup r (owner s)) eqn:Lr; [discriminate|].
    destruct kind as [|[|[|[|kind]]]]; destruct (h_ty (hget s h)) eqn:Ty; try (apply Step_refl; exact I).
    + destruct (h_conn (hget s h)) eqn:Ec; [apply Step_refl; exact I|].
      apply submit_step; auto. intros r'. rewrite !in_qreqs. cbn. rewrite Ec.
      intros [H|H]; [inversion H; auto|right; right; exact H].
    + apply submit_step; auto. intros r'. rewrite !in_qreqs. cbn. rewrite in_app_iff. simpl. intuition (subst; auto).
    + destruct (h_shut (hget s h)) eqn:Ec; [apply Step_refl; exact I|].
      apply submit_step; auto. intros r'. rewrite !in_qreqs. cbn. rewrite Ec.
      intros [H|[H|[H|H]]]; [tauto|tauto|tauto|inversion H; auto].
    + apply submit_step; auto. intros r'. rewrite !in_qreqs. cbn. rewrite in_app_iff. simpl. intuition (subst; auto).
  - (* ODone *)
    destruct (lookup r (owner s)) as [h|] eqn:Lr; [|apply Step_refl; exact I].
    destruct (h_wq (hget s h)) as [|r' rest] eqn:Ew; [apply Step_refl; exact I|].
    destruct (Nat.eqb r r' && usable s h) eqn:U; [|apply Step_refl; exact I].
    apply andb_prop in U. destruct U as [Er U]. apply Nat.eqb_eq in Er. subst r'.
    apply usable_valid in U. destruct U as [Hv Hc].
    pose proof (j_h _ _ I h Hv) as K.
    assert (Hd : h_closed (hget s h) = false) by (eapply HOK_not_closing; eauto).
    set (f := fun x => w_cq (h_cq x ++ [(r, st)]) (w_wq rest x)).
    assert (I1 : Inv dl (upd_h s h f)).
    { apply Inv_upd; auto. eapply HOK_frame; eauto.
      - intros r'. rewrite !in_qreqs. unfold f. cbn. rewrite Ew, map_app, in_app_iff. simpl. tauto.
      - unfold f. cbn. intros H. congruence. }
    split.
    + apply Inv_emit_opr with (h := h) (r := r); auto.
      * rewrite hvalid_upd. exact Hv.
      * rewrite hget_upd_same by exact Hv. exact Hd.
    + apply Frame_trans with (b := upd_h s h f); [|apply Frame_emit]. apply Frame_upd; auto.
  - (* OSigPending *)
    destruct (hvalid s h && negb (h_closed (hget s h)) && htype_eqb (h_ty (hget s h)) TSignal) eqn:U;
      [|apply Step_refl; exact I].
    apply andb_prop in U. destruct U as [U _]. apply andb_prop in U. destruct U as [Hv Hd].
    apply negb_true_iff in Hd.
    apply simple_op; auto. cbn. apply (k_led _ _ _ _ (j_h _ _ I h Hv)).
  - (* OFpStart *)
    destruct (usable s h && htype_eqb (h_ty (hget s h)) TFsPoll) eqn:U; [|apply Step_refl; exact I].
    apply andb_prop in U. destruct U as [U Ty]. apply usable_valid in U. destruct U as [Hv Hc].
    pose proof (j_h _ _ I h Hv) as K.
    assert (Hd : h_closed (hget s h) = false) by (eapply HOK_not_closing; eauto).
    destruct (h_active (hget s h)).
    + split; [|apply Frame_emit]. apply Inv_emit_op with (h := h); auto.
    + set (f := fun x => w_active true (w_ctxs (mkC (nctx s) true 0 :: h_ctxs x) x)).
      assert (I1 : Inv dl (upd_h s h f)).
      { apply Inv_upd; auto. destruct K. constructor; unfold f; cbn; auto.
        - intros H. congruence.
        - intros H. destruct (k_ch0 H). congruence.
        - intros H. congruence.
        - intros _. destruct (h_ty (hget s h)); try discriminate. reflexivity. }
      split.
      * apply Inv_emit_op with (h := h); auto.
        -- apply Inv_ext with (s := upd_h s h f); auto.
        -- cbn [emit set_nctx]. change (hvalid (upd_h s h f) h = true). rewrite hvalid_upd. exact Hv.
        -- change (h_closed (hget (upd_h s h f) h) = false). rewrite hget_upd_same by exact Hv. exact Hd.
      * apply Frame_trans with (b := upd_h s h f); [apply Frame_upd; auto|].
        apply Frame_same_hs; reflexivity.
  - (* OFpStop *)
    destruct (usable s h && htype_eqb (h_ty (hget s h)) TFsPoll) eqn:U; [|apply Step_refl; exact I].
    apply andb_prop in U. destruct U as [U Ty]. apply usable_valid in U. destruct U as [Hv Hc].
    destruct (fp_stop_spec dl s h I Hv) as (I1 & F1 & A1 & A2 & _).
    assert (Hd : h_closed (hget s h) = false) by (eapply HOK_not_closing; [apply (j_h _ _ I h Hv)|exact Hc]).
    split; [|eapply Frame_trans; [exact F1|apply Frame_emit]].
    apply Inv_emit_op with (h := h); auto.
    + destruct F1 as [F1 _]. apply (F1 h Hv).
    + congruence.
  - (* OClose *)
    destruct (usable s h) eqn:U; [|apply Step_refl; exact I].
    apply usable_valid in U. destruct U as [Hv Hc].
    assert (Hd : h_closed (hget s h) = false) by (eapply HOK_not_closing; [apply (j_h _ _ I h Hv)|exact Hc]).
    apply Step_trans with (b := emit s (EIn (OClose h))).
    + split; [|apply Frame_emit]. apply Inv_emit_op with (h := h); auto.
    + intros I1. apply c_close_step; auto.
Qed.

Lemma capis_step dl os : forall s, Inv dl s -> Step dl s (capis s os).
Proof.
  induction os as [|o os IH]; intros s I; cbn [capis].
  - apply Step_refl. exact I.
  - apply Step_trans with (b := capi s o); [apply capi_step; exact I|]. intros I1. apply IH. exact I1.
Qed.

(* a callback: the event, then the scripted behaviour *)
Lemma ccallback_step dl s beh e :
  Inv dl s ->
  (forall h, e <> ECloseCb h) -> (forall h r, e <> ELeak h r) ->
  (forall h, about s e h -> hvalid s h = true -> h_closed (hget s h) = false) ->
  (forall r, ev_req e = Some r -> lookup r (owner s) <> None) ->
  Step dl s (ccallback s beh e).
Proof.
  intros I A B C D. unfold ccallback.
  apply Step_trans with (b := set_ncb (emit s e) (S (ncb s))).
  - split; [|apply Frame_same_hs; reflexivity].
    apply Inv_ext with (s := emit s e); auto. apply Inv_emit; auto.
  - intros I1. apply capis_step. exact I1.
Qed.

(* the callback of a request accepted on a handle that is not closed *)
Lemma reqcb_step dl s beh r st cl h :
  Inv dl s -> lookup r (owner s) = Some h -> h_closed (hget s h) = false ->
  Step dl s (ccallback s beh (EReqCb r st cl)).
Proof.
  intros I L Hc. apply ccallback_step; auto; try discriminate.
  - intros h' [Ha|(r' & Hr & Hl)] _; [discriminate|].
    simpl in Hr. inversion Hr; subst. assert (h' = h) by congruence. subst. exact Hc.
  - simpl. intros r' Hr. inversion Hr; subst. congruence.
Qed.

Lemma run_cq_step dl beh h l : forall s,
  Inv dl s -> hvalid s h = true -> h_closed (hget s h) = false ->
  (forall r st, In (r, st) l -> lookup r (owner s) = Some h) ->
  Step dl s (run_cq l h s beh).
Proof.
  induction l as [|[r st] l IH]; intros s I Hv Hc Ho; cbn [run_cq].
  - apply Step_refl. exact I.
  - set (s1 := ccallback s beh (EReqCb r (cbstatus (h_ty (hget s h)) st) (h_closing (hget s h)))).
    assert (S1 : Step dl s s1).
    { apply reqcb_step with (h := h); auto. apply (Ho r st). left. reflexivity. }
    apply Step_trans with (b := s1); [exact S1|]. intros I1.
    destruct S1 as [_ [F1 F2]]. destruct (F1 h Hv) as (V1 & C1 & _).
    apply IH; auto.
    + congruence.
    + intros r' st' H. apply F2. apply (Ho r' st'). right. exact H.
Qed.

Lemma in_cancelled r st l : In (r, st) (cancelled l) -> In r l.
Proof.
  unfold cancelled. rewrite in_map_iff. intros (x & E & H). inversion E; subst. exact H.
Qed.

Lemma flush_and_run_step dl s beh h :
  Inv dl s -> hvalid s h = true -> h_closed (hget s h) = false ->
  Step dl s (flush_and_run s beh h).
Proof.
  intros I Hv Hc. unfold flush_and_run.
  pose proof (j_h _ _ I h Hv) as K.
  set (f := fun x => w_cq [] (w_wq [] x)).
  apply Step_trans with (b := upd_h s h f).
  - split; [|apply Frame_upd; auto].
    apply Inv_upd; auto. eapply HOK_frame; eauto.
    + intros r. rewrite !in_qreqs. unfold f. cbn. tauto.
    + apply (k_led _ _ _ _ K).
  - intros I1. apply run_cq_step; auto.
    + rewrite hvalid_upd. exact Hv.
    + rewrite hget_upd_same by exact Hv. exact Hc.
    + intros r st H. change (owner (upd_h s h f)) with (owner s).
      apply (k_own _ _ _ _ K). apply in_qreqs. apply in_app_or in H. destruct H as [H|H].
      * right. right. left. apply in_map_iff. exists (r, st). auto.
      * right. left. eapply in_cancelled; eauto.
Qed.

Lemma drop_req_step dl s beh h f r st cl :
  Inv dl s -> hvalid s h = true -> h_closed (hget s h) = false ->
  In r (qreqs (hget s h)) ->
  h_closing (f (hget s h)) = h_closing (hget s h) -> h_closed (f (hget s h)) = h_closed (hget s h) ->
  h_ctxs (f (hget s h)) = h_ctxs (hget s h) -> h_ty (f (hget s h)) = h_ty (hget s h) ->
  h_ledger (f (hget s h)) = h_ledger (hget s h) ->
  (forall r', In r' (qreqs (f (hget s h))) -> In r' (qreqs (hget s h))) ->
  Step dl s (ccallback (upd_h s h f) beh (EReqCb r st cl)).
Proof.
  intros I Hv Hc Hr A B C T L Q.
  pose proof (j_h _ _ I h Hv) as K.
  apply Step_trans with (b := upd_h s h f).
  - split; [|apply Frame_upd; auto; congruence].
    apply Inv_upd; auto. eapply HOK_frame; eauto. rewrite A, L. apply (k_led _ _ _ _ K).
  - intros I1. apply reqcb_step with (h := h); auto.
    + apply (k_own _ _ _ _ K). exact Hr.
    + rewrite hget_upd_same by exact Hv. congruence.
Qed.

Lemma cancel_connect_step dl s beh h :
  Inv dl s -> hvalid s h = true -> h_closed (hget s h) = false ->
  Step dl s (cancel_connect s beh h).
Proof.
  intros I Hv Hc. unfold cancel_connect.
  destruct (h_conn (hget s h)) as [r|] eqn:Ec; [|apply Step_refl; exact I].
  apply drop_req_step; auto.
  - apply in_qreqs. auto.
  - intros r'. rewrite !in_qreqs. cbn. intros [H|H]; [discriminate|auto].
Qed.

Lemma drain_closing_step dl s beh h :
  Inv dl s -> hvalid s h = true -> h_closed (hget s h) = false ->
  Step dl s (drain_closing s beh h).
Proof.
  intros I Hv Hc. unfold drain_closing.
  destruct (h_shut (hget s h)) as [r|] eqn:Ec; [|apply Step_refl; exact I].
  apply drop_req_step; auto.
  - apply in_qreqs. auto.
  - intros r'. rewrite !in_qreqs. cbn. intros [H|[H|[H|H]]]; auto. discriminate.
Qed.

Lemma Step_valid_open dl s s' h :
  Step dl s s' -> hvalid s h = true -> h_closed (hget s h) = false ->
  hvalid s' h = true /\ h_closed (hget s' h) = false.
Proof. intros [_ [F _]] Hv Hc. destruct (F h Hv) as (A & B & _). split; congruence. Qed.

(* ------------------------------------------------------------------ *)
(* the closing phase                                                  *)
(* ------------------------------------------------------------------ *)
Lemma head_facts h rest s :
  Inv (CH h :: rest) s ->
  hvalid s h = true /\ h_closing (hget s h) = true /\ h_closed (hget s h) = false /\
  h_ctxs (hget s h) = [] /\ ~ In (CH h) (rest ++ clq s) /\ NoDup (chs (rest ++ clq s)).
Proof.
  intros I.
  assert (Hv : hvalid s h = true) by (apply (j_valid _ _ I (CH h)); left; reflexivity).
  destruct (k_ch _ _ _ _ (j_h _ _ I h Hv)) as (A & B & C); [left; reflexivity|].
  pose proof (j_nd _ _ I) as N. simpl in N. inversion N; subst.
  splits; auto. rewrite <- chs_in. assumption.
Qed.

(* CLOSED is set and the close callback event appended: the handle leaves the batch *)
Lemma Inv_close h rest s :
  Inv (CH h :: rest) s -> Inv rest (emit (upd_h s h (w_closed true)) (ECloseCb h)).
Proof.
  intros I. destruct (head_facts _ _ _ I) as (Hv & Hcl & Hd & Hx & Hn & Hnd).
  pose proof (j_h _ _ I h Hv) as K.
  set (s' := emit (upd_h s h (w_closed true)) (ECloseCb h)).
  assert (VV : forall h', hvalid s' h' = hvalid s h') by (intros h'; unfold s'; apply hvalid_upd).
  assert (NE : ~ In (ECloseCb h) (hist s)).
  { intros H. apply (k_ev _ _ _ _ K) in H. congruence. }
  constructor.
  - intros h' Hv'. rewrite VV in Hv'.
    destruct (Nat.eq_dec h' h) as [->|Hne].
    + change (hget s' h) with (hget (upd_h s h (w_closed true)) h). rewrite hget_upd_same by exact Hv.
      destruct K. constructor; cbn [h_closed h_closing h_ctxs h_ledger h_ty w_closed]; auto.
      * intros H. exfalso. apply Hn. exact H.
      * intros _ H. discriminate.
      * split; auto. intros _. left. reflexivity.
    + change (hget s' h') with (hget (upd_h s h (w_closed true)) h'). rewrite hget_upd_other by auto.
      destruct (j_h _ _ I h' Hv'). constructor; auto.
      * intros H. apply k_ch0. right. exact H.
      * intros H1 H2. destruct (k_owed0 H1 H2) as [[E|H]|H]; auto. inversion E. congruence.
      * unfold s'. cbn [hist emit]. simpl. rewrite <- k_ev0. split; [intros [E|H]; auto; inversion E; congruence|auto].
  - intros e He. assert (H0 : In e ((CH h :: rest) ++ clq s)) by (right; exact He).
    pose proof (j_valid _ _ I e H0) as H1. destruct e; rewrite VV; exact H1.
  - exact Hnd.
  - unfold s'. cbn [hist emit]. intros h' [E|H]; rewrite VV.
    + inversion E; subst. exact Hv.
    + apply (j_evv _ _ I). exact H.
  - unfold s'. cbn [hist emit]. simpl. constructor; [|apply (j_once _ _ I)].
    rewrite closecbs_in. exact NE.
  - intros later e earlier h' Hs Hin. unfold s' in Hs. cbn [hist emit] in Hs.
    destruct later as [|e1 later]; simpl in Hs; inversion Hs; subst.
    + intros [Ha|(r & Hr & _)]; [|discriminate]. simpl in Ha. inversion Ha; subst. auto.
    + intros Ha. eapply (j_na _ _ I); eauto.
  - unfold s'. cbn [hist emit]. intros e r [<-|H] Hr; [discriminate|].
    apply (j_ro _ _ I e r H Hr).
  - intros r h' H. rewrite VV. apply (j_ov _ _ I r h' H).
  - unfold s'. cbn [hist emit]. intros h' r [E|H]; [discriminate|]. apply (j_noleak _ _ I h' r H).
Qed.

Lemma deliver_close_inv h rest s beh :
  Inv (CH h :: rest) s -> Inv rest (deliver_close s beh h).
Proof.
  intros I. destruct (head_facts _ _ _ I) as (Hv & Hcl & Hd & Hx & Hn & Hnd).
  unfold deliver_close. rewrite (k_led _ _ _ _ (j_h _ _ I h Hv) Hcl). cbn [emit_leaks].
  unfold ccallback.
  apply capis_step.
  apply Inv_ext with (s := emit (upd_h s h (w_closed true)) (ECloseCb h)); auto.
  apply Inv_close. exact I.
Qed.

Lemma Inv_requeue h rest s :
  Inv (CH h :: rest) s -> Inv rest (push_clq (emit s (ETouch h)) (CH h)).
Proof.
  intros I. destruct (head_facts _ _ _ I) as (Hv & Hcl & Hd & Hx & Hn & Hnd).
  assert (I1 : Inv (CH h :: rest) (emit s (ETouch h))).
  { apply Inv_emit; auto; try discriminate.
    intros h' [Ha|(r & Hr & _)]; discriminate. }
  unfold push_clq. apply Inv_lists with (dl := CH h :: rest); auto.
  - intros h' H. left. apply in_app_cons in H. simpl. destruct H as [E|H]; auto.
  - intros h' c H. left. apply in_app_cons in H. simpl. destruct H as [E|H]; auto.
  - intros h' H. left. apply in_app_cons. simpl in H. destruct H as [E|H]; auto.
  - apply NoDup_chs_add; auto.
Qed.

Lemma finish_close_inv h rest s beh :
  Inv (CH h :: rest) s -> Inv rest (finish_close s beh h).
Proof.
  intros I. destruct (head_facts _ _ _ I) as (Hv & Hcl & Hd & Hx & Hn & Hnd).
  unfold finish_close.
  destruct (h_ty (hget s h)) eqn:Ty; try (apply deliver_close_inv; exact I).
  - (* stream *)
    assert (S1 : Step (CH h :: rest) s (cancel_connect s beh h)) by (apply cancel_connect_step; auto).
    destruct (Step_valid_open _ _ _ _ S1 Hv Hd) as (V1 & D1).
    assert (S2 : Step (CH h :: rest) (cancel_connect s beh h) (flush_and_run (cancel_connect s beh h) beh h))
      by (apply flush_and_run_step; auto; apply S1).
    destruct (Step_valid_open _ _ _ _ S2 V1 D1) as (V2 & D2).
    assert (S3 : Step (CH h :: rest) (flush_and_run (cancel_connect s beh h) beh h)
                   (drain_closing (flush_and_run (cancel_connect s beh h) beh h) beh h))
      by (apply drain_closing_step; auto; apply S2).
    apply deliver_close_inv. apply S3.
  - (* udp *)
    apply deliver_close_inv. apply flush_and_run_step; auto.
  - (* signal *)
    destruct (0 <? h_sigpend (hget s h)); [apply Inv_requeue|apply deliver_close_inv]; exact I.
Qed.

Lemma Inv_drop_ct h c rest s : Inv (CT h c :: rest) s -> Inv rest s.
Proof.
  intros I. destruct s as [a b c0 d e f].
  change (Inv rest (set_clq (mkCS a b c0 d e f) b)).
  apply Inv_lists with (dl := CT h c :: rest); auto.
  - intros h' H. left. right. exact H.
  - intros h' c' H. left. right. exact H.
  - intros h' H. left. simpl in H. destruct H as [E|H]; [discriminate|exact H].
  - apply (j_nd _ _ I).
Qed.

Ltac hok_tail :=
  try (intros; congruence);
  try (intros; exfalso; auto; fail);
  try (intros; right; discriminate);
  try (intros; left; cbn; apply in_app_cons; auto; fail);
  try (let H := fresh in intros H; exfalso; apply H; reflexivity).

Lemma fp_timer_closed_inv dl s h c : Inv dl s -> hvalid s h = true -> Inv dl (fp_timer_closed s h c).
Proof.
  intros I Hv. unfold fp_timer_closed.
  pose proof (j_h _ _ I h Hv) as K.
  destruct (h_ctxs (hget s h)) as [|c0 rest] eqn:Ec; [exact I|].
  assert (Hd : h_closed (hget s h) = false).
  { destruct (h_closed (hget s h)) eqn:E; auto. destruct (k_closed _ _ _ _ K E). congruence. }
  assert (NC : ~ In (CH h) (dl ++ clq s)).
  { intros H. destruct (k_ch _ _ _ _ K H) as (_ & _ & H'). congruence. }
  assert (Ty : h_ty (hget s h) = TFsPoll) by (apply (k_ty _ _ _ _ K); rewrite Ec; discriminate).
  destruct (Nat.eqb (c_id c0) c).
  - assert (G : hget (upd_h s h (w_ctxs rest)) h = w_ctxs rest (hget s h)) by (apply hget_upd_same; exact Hv).
    destruct rest as [|c1 rest].
    + destruct (h_closing (hget s h)) eqn:Ecl.
      * (* the last context of a closing handle: the handle is queued *)
        apply Inv_step_gen with (dl := dl) (s := s); auto.
        -- cbn [push_clq set_clq hs]. apply len_upd_h.
        -- intros h' Hv'. rewrite hget_push. destruct (Nat.eq_dec h' h) as [->|Hne].
           ++ rewrite G. destruct K.
              constructor; cbn [h_closed h_closing h_ctxs h_ledger h_ty w_ctxs qreqs h_conn h_wq h_cq h_shut]; auto; hok_tail.
           ++ rewrite hget_upd_other by auto.
              apply HOK_lists with (dl := dl) (s := s); auto; [apply (j_h _ _ I h' Hv')|].
              cbn [push_clq set_clq clq upd_h set_hs]. rewrite in_app_cons. split; auto.
              intros [E|H]; auto. inversion E. congruence.
        -- cbn [push_clq set_clq clq upd_h set_hs]. intros e He. apply in_app_cons in He.
           destruct He as [->|He]; [exact Hv|apply (j_valid _ _ I e He)].
        -- cbn [push_clq set_clq clq upd_h set_hs]. apply NoDup_chs_add; auto. apply (j_nd _ _ I).
      * apply Inv_upd; auto. destruct K.
        constructor; cbn [h_closed h_closing h_ctxs h_ledger h_ty w_ctxs qreqs h_conn h_wq h_cq h_shut]; auto; hok_tail.
    + apply Inv_upd; auto. destruct K.
      constructor; cbn [h_closed h_closing h_ctxs h_ledger h_ty w_ctxs qreqs h_conn h_wq h_cq h_shut]; auto; hok_tail.
  - apply Inv_upd; auto. destruct K.
    constructor; cbn [h_closed h_closing h_ctxs h_ledger h_ty w_ctxs qreqs h_conn h_wq h_cq h_shut]; auto; hok_tail.
Qed.

Lemma run_closing_inv beh l : forall s, Inv l s -> Inv [] (run_closing l s beh).
Proof.
  induction l as [|[h|h c] l IH]; intros s I; cbn [run_closing].
  - exact I.
  - apply IH. apply finish_close_inv. exact I.
  - apply IH.
    assert (Hv : hvalid s h = true) by (apply (j_valid _ _ I (CT h c)); left; reflexivity).
    apply fp_timer_closed_inv; [|exact Hv].
    apply Inv_drop_ct with (h := h) (c := c).
    apply Inv_emit; auto; try discriminate.
    intros h' [Ha|(r & Hr & _)]; discriminate.
Qed.

(* ------------------------------------------------------------------ *)
(* top-level steps                                                    *)
(* ------------------------------------------------------------------ *)
Lemma opt_is_true o r : opt_is o r = true -> o = Some r.
Proof. destruct o; simpl; [|discriminate]. intros H. apply Nat.eqb_eq in H. congruence. Qed.

Lemma req_cb_inv dl s beh r st : Inv dl s -> Inv dl (req_cb s beh r st).
Proof.
  intros I. unfold req_cb.
  destruct (lookup r (owner s)) as [h|] eqn:Lr; [|exact I].
  destruct (usable s h) eqn:U; [|exact I].
  apply usable_valid in U. destruct U as [Hv Hc].
  pose proof (j_h _ _ I h Hv) as K.
  assert (Hd : h_closed (hget s h) = false) by (eapply HOK_not_closing; eauto).
  destruct (opt_is (h_conn (hget s h)) r) eqn:E1.
  - apply opt_is_true in E1.
    assert (S1 : Step dl s (ccallback (upd_h s h (w_conn None)) beh (EReqCb r st false))).
    { apply drop_req_step; auto.
      - apply in_qreqs. auto.
      - intros r'. rewrite !in_qreqs. cbn. intros [H|H]; [discriminate|auto]. }
    destruct (Step_valid_open _ _ _ _ S1 Hv Hd) as (V1 & D1).
    match goal with |- Inv _ (if ?c then _ else _) => destruct c end; [|apply S1].
    apply flush_and_run_step; auto. apply S1.
  - destruct (opt_is (h_shut (hget s h)) r) eqn:E2; [|exact I].
    apply opt_is_true in E2.
    apply drop_req_step; auto.
    + apply in_qreqs. auto.
    + intros r'. rewrite !in_qreqs. cbn. intros [H|[H|[H|H]]]; auto. discriminate.
Qed.

Lemma batch_inv dl s beh h : Inv dl s -> Inv dl (batch s beh h).
Proof.
  intros I. unfold batch.
  match goal with |- Inv _ (if ?c then _ else _) => destruct c eqn:U end; [|exact I].
  apply andb_prop in U. destruct U as [U _]. apply usable_valid in U. destruct U as [Hv Hc].
  pose proof (j_h _ _ I h Hv) as K.
  assert (Hd : h_closed (hget s h) = false) by (eapply HOK_not_closing; eauto).
  destruct (h_cq (hget s h)) as [|p pq] eqn:Eq; [exact I|].
  set (s0 := upd_h (emit s (EIn (OBatch h))) h (w_cq [])).
  assert (I0 : Inv dl s0).
  { change s0 with (emit (upd_h s h (w_cq [])) (EIn (OBatch h))).
    apply Inv_emit_op with (h := h); auto.
    - apply Inv_upd; auto. eapply HOK_frame; eauto.
      + intros r. rewrite !in_qreqs. cbn. tauto.
      + apply (k_led _ _ _ _ K).
    - rewrite hvalid_upd. exact Hv.
    - rewrite hget_upd_same by exact Hv. exact Hd. }
  assert (V0 : hvalid s0 h = true) by (unfold s0; rewrite hvalid_upd; exact Hv).
  assert (D0 : h_closed (hget s0 h) = false).
  { unfold s0. rewrite hget_upd_same by exact Hv. exact Hd. }
  assert (S1 : Step dl s0 (run_cq (p :: pq) h s0 beh)).
  { apply run_cq_step; auto. intros r st H. change (owner s0) with (owner s).
    apply (k_own _ _ _ _ K). apply in_qreqs. right. right. left. rewrite Eq.
    apply in_map_iff. exists (r, st). auto. }
  destruct (Step_valid_open _ _ _ _ S1 V0 D0) as (V1 & D1).
  match goal with |- Inv _ (if ?c then _ else _) => destruct c end; [|apply S1].
  apply drain_closing_step; auto. apply S1.
Qed.

Lemma h_cb_inv dl s beh h : Inv dl s -> Inv dl (h_cb s beh h).
Proof.
  intros I. unfold h_cb. destruct (hvalid s h && negb (h_closed (hget s h))) eqn:U; [|exact I].
  apply andb_prop in U. destruct U as [Hv Hd]. apply negb_true_iff in Hd.
  apply ccallback_step; auto; try discriminate.
  intros h' [Ha|(r & Hr & _)] _; [|discriminate]. simpl in Ha. inversion Ha; subst. exact Hd.
Qed.

Lemma stat_done_spec b l : forall hd,
  let '(l', r) := stat_done b hd l in
  (l = [] <-> l' = []) /\ (l <> [] -> l' <> []).
Proof.
  induction l as [|c l IH]; intros hd; simpl.
  - split; [tauto|auto].
  - destruct (stat_done b false l) as [l' [r|]].
    + split; [split; discriminate|intros _; discriminate].
    + destruct (c_stat c); [destruct (b || negb hd)|]; (split; [split; discriminate|intros _; discriminate]).
Qed.

Lemma fp_stat_inv dl s h : Inv dl s -> Inv dl (fp_stat s h).
Proof.
  intros I. unfold fp_stat.
  match goal with |- Inv _ (if ?c then _ else _) => destruct c eqn:U end; [|exact I].
  apply andb_prop in U. destruct U as [U Hs]. apply andb_prop in U. destruct U as [Hv Ty].
  pose proof (j_h _ _ I h Hv) as K.
  assert (Ne : h_ctxs (hget s h) <> []).
  { intros E. rewrite E in Hs. discriminate. }
  assert (Hd : h_closed (hget s h) = false).
  { destruct (h_closed (hget s h)) eqn:E; auto. destruct (k_closed _ _ _ _ K E). congruence. }
  set (s0 := emit (emit s (ETouch h)) (EIn (OFpStat h))).
  assert (I0 : Inv dl s0).
  { unfold s0. apply Inv_emit_op with (h := h); auto.
    apply Inv_emit; auto; try discriminate. intros h' [Ha|(r & Hr & _)]; discriminate. }
  pose proof (stat_done_spec (negb (h_active (hget s h)) || h_closing (hget s h)) (h_ctxs (hget s h)) true) as SD.
  destruct (stat_done (negb (h_active (hget s h)) || h_closing (hget s h)) true (h_ctxs (hget s h))) as [l r].
  destruct SD as (_ & SD). specialize (SD Ne).
  assert (I1 : Inv dl (upd_h s0 h (w_ctxs l))).
  { apply Inv_upd; auto. pose proof (j_h _ _ I0 h Hv) as K0. destruct K0.
    change (hget s0 h) with (hget s h) in *.
    constructor; cbn [h_closed h_closing h_ctxs h_ledger h_ty w_ctxs qreqs h_conn h_wq h_cq h_shut]; auto;
      try (intros; congruence);
      try (intros H; destruct (k_ch0 H) as (_ & _ & H'); congruence);
      try (intros _; apply (k_ty _ _ _ _ K); exact Ne). }
  destruct r as [[c [|]]|]; try exact I1.
  apply Inv_push_ct; auto. rewrite hvalid_upd. exact Hv.
Qed.

Lemma Inv_detach s : Inv [] s -> Inv (clq s) (set_clq s []).
Proof.
  intros I. apply Inv_lists with (dl := []); auto.
  - intros h H. left. rewrite app_nil_r in H. exact H.
  - intros h c H. left. rewrite app_nil_r in H. exact H.
  - intros h H. left. rewrite app_nil_r. exact H.
  - rewrite app_nil_r. apply (j_nd _ _ I).
Qed.

Lemma cstep_inv s beh o : Inv [] s -> Inv [] (cstep s beh o).
Proof.
  intros I. destruct o; cbn [cstep]; try (apply capi_step; exact I).
  - apply req_cb_inv. exact I.
  - apply batch_inv. exact I.
  - apply h_cb_inv. exact I.
  - apply fp_stat_inv. exact I.
  - apply run_closing_inv.
    change (clq s) with (clq (emit s (EIn OPhase))). apply Inv_detach.
    apply Inv_emit; auto; try discriminate. intros h [Ha|(r & Hr & _)]; discriminate.
Qed.

Lemma crun_inv beh os : forall s, Inv [] s -> Inv [] (crun s os beh).
Proof.
  induction os as [|o os IH]; intros s I; cbn [crun]; auto. apply IH. apply cstep_inv. exact I.
Qed.

Theorem reachable_inv os beh : Inv [] (crun cinit os beh).
Proof. apply crun_inv. apply Inv_init. Qed.

(* ------------------------------------------------------------------ *)
(* what a step appends to the history                                 *)
(* ------------------------------------------------------------------ *)
Definition appends (P : cev -> Prop) (s s' : cstate) : Prop :=
  exists l, hist s' = l ++ hist s /\ Forall P l.

Lemma appends_refl P s : appends P s s.
Proof. exists []. split; [reflexivity|constructor]. Qed.

Lemma appends_trans P a b c : appends P a b -> appends P b c -> appends P a c.
Proof.
  intros (l1 & E1 & F1) (l2 & E2 & F2). exists (l2 ++ l1). split.
  - rewrite E2, E1, app_assoc. reflexivity.
  - apply Forall_app. auto.
Qed.

Lemma appends_emit (P : cev -> Prop) s e : P e -> appends P s (emit s e).
Proof. intros H. exists [e]. split; [reflexivity|constructor; auto]. Qed.

Lemma appends_same P s s' : hist s' = hist s -> appends P s s'.
Proof. intros H. exists []. split; [exact H|constructor]. Qed.

Lemma appends_weaken (P Q : cev -> Prop) s s' :
  (forall e, P e -> Q e) -> appends P s s' -> appends Q s s'.
Proof.
  intros H (l & E & F). exists l. split; [exact E|]. eapply Forall_impl; eauto.
Qed.

Definition not_cb (e : cev) : Prop := is_user_cb e = false.
Definition not_close (e : cev) : Prop := forall h, e <> ECloseCb h.

Lemma not_cb_not_close e : not_cb e -> not_close e.
Proof. intros H h E. subst. discriminate. Qed.

Lemma fp_stop_hist s h : hist (fp_stop s h) = hist s.
Proof.
  unfold fp_stop. destruct (h_active (hget s h)); [|reflexivity].
  destruct (h_ctxs (hget s h)) as [|c rest]; [reflexivity|].
  destruct (Nat.eqb (c_timer c) 1); reflexivity.
Qed.

Lemma c_close_hist s h : hist (c_close s h) = hist s.
Proof.
  unfold c_close. destruct (h_ty (hget s h)); try reflexivity.
  match goal with |- hist (match ?m with [] => _ | _ => _ end) = _ => destruct m end;
    cbn [hist push_clq set_clq]; rewrite fp_stop_hist; reflexivity.
Qed.

(* no API call runs a user callback; in particular uv_close does not *)
Lemma capi_quiet s o : appends not_cb s (capi s o).
Proof.
  destruct o; cbn [capi]; try apply appends_refl;
    repeat match goal with
    | |- appends _ _ (if ?c then _ else _) => destruct c
    | |- appends _ _ (match ?c with _ => _ end) => destruct c
    end; try apply appends_refl;
    try (apply appends_emit; reflexivity);
    (eexists [_]; split;
     [cbn [hist emit]; rewrite ?c_close_hist, ?fp_stop_hist; reflexivity
     |constructor; [reflexivity|constructor]]).
Qed.

Lemma capis_quiet os : forall s, appends not_cb s (capis s os).
Proof.
  induction os as [|o os IH]; intros s; cbn [capis]; [apply appends_refl|].
  eapply appends_trans; [apply capi_quiet|apply IH].
Qed.

Lemma ccallback_nocl s beh e : not_close e -> appends not_close s (ccallback s beh e).
Proof.
  intros H. unfold ccallback.
  eapply appends_trans; [|eapply appends_weaken; [apply not_cb_not_close|apply capis_quiet]].
  exists [e]. split; [reflexivity|constructor; auto].
Qed.

Lemma reqcb_not_close r st cl : not_close (EReqCb r st cl).
Proof. intros h. discriminate. Qed.

Lemma run_cq_nocl beh h l : forall s, appends not_close s (run_cq l h s beh).
Proof.
  induction l as [|[r st] l IH]; intros s; cbn [run_cq]; [apply appends_refl|].
  eapply appends_trans; [apply ccallback_nocl; apply reqcb_not_close|apply IH].
Qed.

Lemma flush_nocl s beh h : appends not_close s (flush_and_run s beh h).
Proof.
  unfold flush_and_run. eapply appends_trans; [|apply run_cq_nocl]. apply appends_same. reflexivity.
Qed.

Lemma drain_nocl s beh h : appends not_close s (drain_closing s beh h).
Proof.
  unfold drain_closing. destruct (h_shut (hget s h)); [|apply appends_refl].
  eapply appends_trans; [|apply ccallback_nocl; apply reqcb_not_close]. apply appends_same. reflexivity.
Qed.

(* close callbacks are delivered by the closing phase only *)
Lemma cstep_nocl s beh o : o <> OPhase -> appends not_close s (cstep s beh o).
Proof.
  intros Hne. destruct o; cbn [cstep]; try congruence;
    try (eapply appends_weaken; [apply not_cb_not_close|apply capi_quiet]).
  - unfold req_cb. destruct (lookup r (owner s)) as [h|]; [|apply appends_refl].
    destruct (usable s h); [|apply appends_refl].
    destruct (opt_is (h_conn (hget s h)) r).
    + match goal with |- appends _ _ (if ?c then _ else _) => destruct c end.
      * eapply appends_trans; [|apply flush_nocl].
        eapply appends_trans; [|apply ccallback_nocl; apply reqcb_not_close]. apply appends_same. reflexivity.
      * eapply appends_trans; [|apply ccallback_nocl; apply reqcb_not_close]. apply appends_same. reflexivity.
    + destruct (opt_is (h_shut (hget s h)) r); [|apply appends_refl].
      eapply appends_trans; [|apply ccallback_nocl; apply reqcb_not_close]. apply appends_same. reflexivity.
  - unfold batch. match goal with |- appends _ _ (if ?c then _ else _) => destruct c end; [|apply appends_refl].
    destruct (h_cq (hget s h)) as [|p pq]; [apply appends_refl|].
    match goal with |- appends _ _ (if ?c then _ else _) => destruct c end.
    + eapply appends_trans; [|apply drain_nocl]. eapply appends_trans; [|apply run_cq_nocl].
      exists [EIn (OBatch h)]. split; [reflexivity|]. constructor; [intros h'; discriminate|constructor].
    + eapply appends_trans; [|apply run_cq_nocl].
      exists [EIn (OBatch h)]. split; [reflexivity|]. constructor; [intros h'; discriminate|constructor].
  - unfold h_cb. destruct (hvalid s h && negb (h_closed (hget s h))); [|apply appends_refl]. apply ccallback_nocl. intros h'. discriminate.
  - unfold fp_stat. match goal with |- appends _ _ (if ?c then _ else _) => destruct c end; [|apply appends_refl].
    destruct (stat_done _ _ _) as [l [[c [|]]|]];
      (exists [EIn (OFpStat h); ETouch h]; split; [reflexivity|];
       constructor; [intros h'; discriminate|constructor; [intros h'; discriminate|constructor]]).
Qed.

(* ------------------------------------------------------------------ *)
(* the clauses of the property on traces                              *)
(* ------------------------------------------------------------------ *)
Definition final (os : list cop) (beh : nat -> list cop) : cstate := crun cinit os beh.

Lemma ctrace_final os beh : ctrace os beh = rev (hist (final os beh)).
Proof. reflexivity. Qed.

Lemma trace_split_hist os beh pre e post :
  ctrace os beh = pre ++ e :: post -> hist (final os beh) = rev post ++ e :: rev pre.
Proof.
  rewrite ctrace_final. intros H. apply (f_equal (@rev cev)) in H.
  rewrite rev_involutive in H. rewrite H, rev_app_distr. simpl. rewrite <- app_assoc. reflexivity.
Qed.

(* uv_close itself runs no callback *)
Theorem close_not_reentrant s h :
  exists l, hist (capi s (OClose h)) = l ++ hist s /\ Forall (fun e => is_user_cb e = false) l.
Proof. apply (capi_quiet s (OClose h)). Qed.

(* ... nor does any other API call, also when made from inside a callback *)
Theorem api_not_reentrant s os :
  exists l, hist (capis s os) = l ++ hist s /\ Forall (fun e => is_user_cb e = false) l.
Proof. apply (capis_quiet os s). Qed.

(* nothing about h after its close callback; in particular no second one *)
Theorem nothing_after_close_cb os beh pre h post e :
  ctrace os beh = pre ++ ECloseCb h :: post -> In e post -> ~ about (final os beh) e h.
Proof.
  intros Ht He. apply in_split in He. destruct He as (p1 & p2 & ->).
  assert (Hh : hist (final os beh) = rev p2 ++ e :: (rev p1 ++ ECloseCb h :: rev pre)).
  { replace (pre ++ ECloseCb h :: p1 ++ e :: p2) with ((pre ++ ECloseCb h :: p1) ++ e :: p2) in Ht
      by (rewrite <- app_assoc; reflexivity).
    apply trace_split_hist in Ht. rewrite Ht, rev_app_distr. simpl. rewrite <- app_assoc. reflexivity. }
  apply (j_na _ _ (reachable_inv os beh) _ _ _ h Hh).
  apply in_or_app. right. left. reflexivity.
Qed.

Theorem close_cb_at_most_once os beh pre h post :
  ctrace os beh = pre ++ ECloseCb h :: post -> ~ In (ECloseCb h) pre /\ ~ In (ECloseCb h) post.
Proof.
  intros Ht. split.
  - intros Hin. apply in_split in Hin. destruct Hin as (p1 & p2 & ->).
    rewrite <- app_assoc in Ht. simpl in Ht.
    apply (nothing_after_close_cb os beh p1 h (p2 ++ ECloseCb h :: post) (ECloseCb h) Ht).
    + apply in_or_app. right. left. reflexivity.
    + left. reflexivity.
  - intros Hin. apply (nothing_after_close_cb os beh pre h post (ECloseCb h) Ht Hin). left. reflexivity.
Qed.

(* the close callback is delivered by the closing phase and by nothing else *)
Theorem close_cb_in_closing_phase_only s beh o :
  o <> OPhase ->
  exists l, hist (cstep s beh o) = l ++ hist s /\ Forall (fun e => forall h, e <> ECloseCb h) l.
Proof. apply cstep_nocl. Qed.

(* a delivered close callback = the CLOSED flag of the model *)
Theorem close_cb_iff_closed os beh h :
  In (ECloseCb h) (ctrace os beh) <->
  (hvalid (final os beh) h = true /\ h_closed (hget (final os beh) h) = true).
Proof.
  rewrite ctrace_final, <- in_rev. pose proof (reachable_inv os beh) as I. split.
  - intros H. assert (Hv := j_evv _ _ I h H). split; [exact Hv|].
    apply (k_ev _ _ _ _ (j_h _ _ I h Hv)). exact H.
  - intros (Hv & Hc). apply (k_ev _ _ _ _ (j_h _ _ I h Hv)). exact Hc.
Qed.

(* whenever the closing queue is empty, every handle on which uv_close was
   called has had its close callback -- except an fs_poll handle that still
   has a context alive *)
Theorem close_cb_eventually_partial os beh h :
  let s := final os beh in
  clq s = [] -> hvalid s h = true -> h_closing (hget s h) = true ->
  In (ECloseCb h) (ctrace os beh) \/ (h_ty (hget s h) = TFsPoll /\ h_ctxs (hget s h) <> []).
Proof.
  intros s Hq Hv Hc. pose proof (reachable_inv os beh) as I. fold s in I.
  pose proof (j_h _ _ I h Hv) as K.
  destruct (h_closed (hget s h)) eqn:Ed.
  - left. apply close_cb_iff_closed. split; assumption.
  - destruct (k_owed _ _ _ _ K Hc Ed) as [H|H].
    + change ([] ++ clq (crun cinit os beh)) with (clq s) in H. rewrite Hq in H. destruct H.
    + right. split; [apply (k_ty _ _ _ _ K H)|exact H].
Qed.

(* (Before the repair of poll_cb in fs-poll.c -- /repo 834ed95 -- the model had
   a refuting script here: start, stop, start again while the first stat is in
   flight, both stats complete, close: the superseded context re-armed its
   timer and the close callback was never delivered.  With the repaired code
   that script ends with the close callback: see the Example below.) *)
Example fs_poll_restart_now_closes :
  ctrace [OInit TFsPoll; OFpStart 0; OFpStop 0; OFpStart 0; OFpStat 0; OFpStat 0; OClose 0;
          OPhase; OPhase; OPhase] (fun _ => []) =
  [EIn (OInit TFsPoll); EIn (OFpStart 0); EIn (OFpStop 0); EIn (OFpStart 0);
   ETouch 0; EIn (OFpStat 0); ETouch 0; EIn (OFpStat 0); EIn (OClose 0);
   EIn OPhase; ETouch 0; ETouch 0; EIn OPhase; ECloseCb 0; EIn OPhase].
Proof. vm_compute. reflexivity. Qed.

(* everything the handle owned is released when the close callback runs *)
Theorem resources_released os beh :
  (forall h r, ~ In (ELeak h r) (ctrace os beh)) /\
  (forall h, hvalid (final os beh) h = true -> h_closing (hget (final os beh) h) = true ->
             h_ledger (hget (final os beh) h) = []).
Proof.
  pose proof (reachable_inv os beh) as I. split.
  - intros h r H. rewrite ctrace_final, <- in_rev in H. apply (j_noleak _ _ I h r H).
  - intros h Hv Hc. apply (k_led _ _ _ _ (j_h _ _ I h Hv) Hc).
Qed.

Example close_cb_eventually_partial_nontrivial :
  let os := [OInit TStream; OSubmit 0 1 0; OSubmit 0 2 1; OSubmit 0 3 1; OSubmit 0 4 2; ODone 2 7;
             OInit TFsPoll; OFpStart 1; OClose 1; OClose 0; OPhase; OFpStat 1; OPhase; OPhase] in
  ctrace os (fun _ => []) =
  [EIn (OInit TStream); EIn (OSubmit 0 1 0); EIn (OSubmit 0 2 1); EIn (OSubmit 0 3 1);
   EIn (OSubmit 0 4 2); EIn (ODone 2 7); EIn (OInit TFsPoll); EIn (OFpStart 1); EIn (OClose 1);
   EIn (OClose 0); EIn OPhase; EReqCb 1 UV_ECANCELED true; EReqCb 2 7 true;
   EReqCb 3 UV_ECANCELED true; EReqCb 4 UV_ECANCELED true; ECloseCb 0;
   ETouch 1; EIn (OFpStat 1); EIn OPhase; ETouch 1; EIn OPhase; ECloseCb 1].
Proof. vm_compute. reflexivity. Qed.

(* ================================================================== *)
(* requests: every request accepted on h has exactly one callback     *)
(* before CloseCb h, with UV_ECANCELED iff it had not completed        *)
(* ================================================================== *)
Definition is_reqcb (r : nat) (e : cev) : bool :=
  match e with EReqCb r' _ _ => Nat.eqb r' r | _ => false end.
Definition cnt (r : nat) (l : list cev) : nat := length (filter (is_reqcb r) l).
Definition done_in (r : nat) (l : list cev) : Prop := exists st, In (EIn (ODone r st)) l.
(* the status handed to the callback for a recorded system-call result *)
Definition mapped (st st' : Z) : Prop := st = st' \/ (0 <= st' /\ st = 0).

Lemma cnt_cons r e l : cnt r (e :: l) = (if is_reqcb r e then S (cnt r l) else cnt r l).
Proof. unfold cnt. simpl. destruct (is_reqcb r e); reflexivity. Qed.

Lemma cnt_app r a b : cnt r (a ++ b) = (cnt r a + cnt r b)%nat.
Proof. unfold cnt. rewrite filter_app, app_length. reflexivity. Qed.

Lemma cnt_rev r l : cnt r (rev l) = cnt r l.
Proof.
  induction l as [|e l IH]; [reflexivity|]. simpl. rewrite cnt_app, IH, !cnt_cons.
  change (cnt r []) with O. destruct (is_reqcb r e); lia.
Qed.

Lemma cbstatus_mapped t st : mapped (cbstatus t st) st.
Proof.
  unfold mapped, cbstatus. destruct t; auto. destruct (Z.leb_spec 0 st); [right; auto|left; auto].
Qed.

Lemma cbstatus_cancel t : cbstatus t UV_ECANCELED = UV_ECANCELED.
Proof. destruct t; reflexivity. Qed.

Definition pending (dw : list nat) (s : cstate) (r : nat) : Prop :=
  In r dw \/ exists h, hvalid s h = true /\ In r (qreqs (hget s h)).

(* state part: the request queues are duplicate-free and disjoint, respect the
   handle type, and are empty on a closed handle *)
Record QOK (dw : list nat) (s : cstate) : Prop := {
  q_nd : forall h, hvalid s h = true -> NoDup (qreqs (hget s h));
  q_dwnd : NoDup dw;
  q_dw : forall r, In r dw -> lookup r (owner s) <> None /\
                               forall h, hvalid s h = true -> ~ In r (qreqs (hget s h));
  q_ty : forall h, hvalid s h = true ->
         (h_ty (hget s h) <> TStream -> h_conn (hget s h) = None /\ h_shut (hget s h) = None) /\
         (h_ty (hget s h) <> TStream -> h_ty (hget s h) <> TUdp -> h_wq (hget s h) = [] /\ h_cq (hget s h) = []);
  q_closed : forall h, hvalid s h = true -> h_closed (hget s h) = true -> qreqs (hget s h) = []
}.

(* history part: a pending request has had no callback, any other accepted
   request exactly one; at every CloseCb h all requests accepted on h had one *)
Record HR (dw : list nat) (s : cstate) : Prop := {
  r_pend : forall r, lookup r (owner s) <> None -> pending dw s r -> cnt r (hist s) = O;
  r_deliv : forall r, lookup r (owner s) <> None -> ~ pending dw s r -> cnt r (hist s) = 1%nat;
  r_sub : forall h r k, In (EIn (OSubmit h r k)) (hist s) -> lookup r (owner s) = Some h;
  r_good : forall later h earlier, hist s = later ++ ECloseCb h :: earlier ->
           forall r k, In (EIn (OSubmit h r k)) earlier -> cnt r earlier = 1%nat
}.

Definition RInv (dw : list nat) (s : cstate) : Prop := QOK dw s /\ HR dw s.

Lemma hvalid_cinit h : hvalid cinit h = true -> False.
Proof. unfold hvalid. simpl. discriminate. Qed.

Lemma RInv_init : RInv [] cinit.
Proof.
  split; constructor; simpl.
  - intros h H. destruct (hvalid_cinit h H).
  - constructor.
  - intros r [].
  - intros h H. destruct (hvalid_cinit h H).
  - intros h H. destruct (hvalid_cinit h H).
  - intros r H. exfalso. apply H. reflexivity.
  - intros r H. exfalso. apply H. reflexivity.
  - intros h r k [].
  - intros later h earlier H. destruct later; discriminate.
Qed.

(* the history part after a step that leaves the set of pending requests as it
   is and appends at most events that are neither request callbacks, close
   callbacks nor submissions *)
Definition plain (e : cev) : Prop :=
  (forall r, is_reqcb r e = false) /\ (forall h, e <> ECloseCb h) /\ (forall h r k, e <> EIn (OSubmit h r k)).

Lemma list_split_mid {A} (l H later : list A) e earlier :
  l ++ H = later ++ e :: earlier ->
  (exists m, l = later ++ e :: m /\ earlier = m ++ H) \/ (exists m, later = l ++ m /\ H = m ++ e :: earlier).
Proof.
  revert later. induction l as [|x l IH]; intros later E.
  - right. exists later. simpl in E. auto.
  - destruct later as [|y later].
    + left. simpl in E. inversion E; subst. exists l. auto.
    + simpl in E. inversion E; subst. destruct (IH later H2) as [(m & E1 & E2)|(m & E1 & E2)].
      * left. exists m. subst. auto.
      * right. exists m. subst. auto.
Qed.

Lemma HR_keep dw dw' s s' l :
  HR dw s -> hist s' = l ++ hist s -> Forall plain l -> owner s' = owner s ->
  (forall r, pending dw' s' r <-> pending dw s r) ->
  HR dw' s'.
Proof.
  intros R A P B PE. destruct R.
  assert (CN : forall r, cnt r (hist s') = cnt r (hist s)).
  { intros r. rewrite A, cnt_app. replace (cnt r l) with O; [reflexivity|].
    clear A. induction l as [|e l IH]; [reflexivity|]. inversion P; subst.
    rewrite cnt_cons. destruct H1 as (H1 & _). rewrite H1. apply IH. assumption. }
  constructor; rewrite ?B.
  - intros r Ho Hp. rewrite CN. apply r_pend0; auto. apply PE. exact Hp.
  - intros r Ho Hp. rewrite CN. apply r_deliv0; auto. intros Hp'. apply Hp. apply PE. exact Hp'.
  - intros h r k Hin. rewrite A in Hin. apply in_app_or in Hin. destruct Hin as [Hin|Hin]; [|eauto].
    exfalso. rewrite Forall_forall in P. destruct (P _ Hin) as (_ & _ & H). eapply H; eauto.
  - intros later h earlier Hs. rewrite A in Hs.
    destruct (list_split_mid l (hist s) later (ECloseCb h) earlier Hs) as [(m & E1 & E2)|(m & E1 & E2)].
    + (* the close event lies in l: impossible *)
      exfalso. rewrite Forall_forall in P. assert (Hin : In (ECloseCb h) l) by (rewrite E1; apply in_or_app; right; left; reflexivity).
      destruct (P _ Hin) as (_ & H & _). eapply H; eauto.
    + apply (r_good0 m h earlier E2).
Qed.

Lemma pending_emit dw s e r : pending dw (emit s e) r <-> pending dw s r.
Proof. reflexivity. Qed.

(* a pending request gets its callback *)
Lemma HR_deliver dw dw' s s1 r st cl :
  HR dw s -> hist s1 = hist s -> owner s1 = owner s ->
  lookup r (owner s) <> None -> pending dw s r ->
  (forall r', pending dw' s1 r' <-> (pending dw s r' /\ r' <> r)) ->
  HR dw' (emit s1 (EReqCb r st cl)).
Proof.
  intros R A B Ho Hp PE. destruct R.
  assert (CN : forall r', cnt r' (hist (emit s1 (EReqCb r st cl))) =
                          if Nat.eqb r r' then S (cnt r' (hist s)) else cnt r' (hist s)).
  { intros r'. cbn [hist emit]. rewrite cnt_cons, A. reflexivity. }
  constructor.
  - intros r' Ho' Hp'. change (owner (emit s1 (EReqCb r st cl))) with (owner s1) in Ho'. rewrite B in Ho'.
    apply pending_emit in Hp'. apply PE in Hp'. destruct Hp' as (Hp' & Hne).
    rewrite CN. apply Nat.eqb_neq in Hne. rewrite Nat.eqb_sym, Hne. apply r_pend0; auto.
  - intros r' Ho' Hp'. change (owner (emit s1 (EReqCb r st cl))) with (owner s1) in Ho'. rewrite B in Ho'.
    rewrite CN. destruct (Nat.eqb r r') eqn:E.
    + apply Nat.eqb_eq in E. subst r'. rewrite (r_pend0 r Ho Hp). reflexivity.
    + apply r_deliv0; auto. intros Hq. apply Hp'. apply pending_emit. apply PE. split; [exact Hq|].
      apply Nat.eqb_neq in E. congruence.
  - intros h r' k Hin. change (owner (emit s1 (EReqCb r st cl))) with (owner s1). rewrite B.
    cbn [hist emit] in Hin. destruct Hin as [Hin|Hin]; [discriminate|]. rewrite A in Hin. eauto.
  - intros later h earlier Hs. cbn [hist emit] in Hs. destruct later as [|x later]; simpl in Hs; [discriminate|].
    inversion Hs; subst x. rewrite A in H1. eapply r_good0; eauto.
Qed.

(* a fresh request is accepted *)
Lemma HR_submit dw s s1 h r k :
  HR dw s -> hist s1 = hist s -> owner s1 = (r, h) :: owner s ->
  lookup r (owner s) = None -> cnt r (hist s) = O ->
  (forall r', pending dw s1 r' <-> (pending dw s r' \/ r' = r)) ->
  HR dw (emit s1 (EIn (OSubmit h r k))).
Proof.
  intros R A B Fr C0 PE. destruct R.
  assert (CN : forall r', cnt r' (hist (emit s1 (EIn (OSubmit h r k)))) = cnt r' (hist s)).
  { intros r'. cbn [hist emit]. rewrite cnt_cons, A. reflexivity. }
  assert (LO : forall r', r' <> r -> lookup r' (owner s1) = lookup r' (owner s)).
  { intros r' Hne. rewrite B. apply lookup_cons_other. congruence. }
  constructor.
  - intros r' Ho' Hp'. rewrite CN. destruct (Nat.eq_dec r' r) as [->|Hne]; [exact C0|].
    change (owner (emit s1 (EIn (OSubmit h r k)))) with (owner s1) in Ho'. rewrite LO in Ho' by exact Hne.
    apply r_pend0; auto. apply pending_emit in Hp'. apply PE in Hp'. destruct Hp'; [assumption|contradiction].
  - intros r' Ho' Hp'. rewrite CN. destruct (Nat.eq_dec r' r) as [->|Hne].
    + exfalso. apply Hp'. apply pending_emit. apply PE. auto.
    + change (owner (emit s1 (EIn (OSubmit h r k)))) with (owner s1) in Ho'. rewrite LO in Ho' by exact Hne.
      apply r_deliv0; auto. intros Hq. apply Hp'. apply pending_emit. apply PE. auto.
  - intros h' r' k' Hin. change (owner (emit s1 (EIn (OSubmit h r k)))) with (owner s1).
    cbn [hist emit] in Hin. destruct Hin as [Hin|Hin].
    + inversion Hin; subst. rewrite B. apply lookup_cons_same.
    + rewrite A in Hin. pose proof (r_sub0 h' r' k' Hin) as H. rewrite LO; [exact H|]. intros ->. congruence.
  - intros later h' earlier Hs. cbn [hist emit] in Hs. destruct later as [|x later]; simpl in Hs; [discriminate|].
    inversion Hs; subst x. rewrite A in H1. eapply r_good0; eauto.
Qed.

(* CloseCb h is appended when nothing accepted on h is pending any more *)
Lemma HR_closecb dw s s1 h :
  HR dw s -> hist s1 = hist s -> owner s1 = owner s ->
  (forall r, pending dw s1 r <-> pending dw s r) ->
  (forall r k, In (EIn (OSubmit h r k)) (hist s) -> ~ pending dw s r) ->
  HR dw (emit s1 (ECloseCb h)).
Proof.
  intros R A B PE NP. pose proof R as R0. destruct R.
  assert (CN : forall r', cnt r' (hist (emit s1 (ECloseCb h))) = cnt r' (hist s)).
  { intros r'. cbn [hist emit]. rewrite cnt_cons, A. reflexivity. }
  constructor.
  - intros r' Ho' Hp'. rewrite CN. change (owner (emit s1 (ECloseCb h))) with (owner s1) in Ho'. rewrite B in Ho'.
    apply r_pend0; auto. apply PE. exact Hp'.
  - intros r' Ho' Hp'. rewrite CN. change (owner (emit s1 (ECloseCb h))) with (owner s1) in Ho'. rewrite B in Ho'.
    apply r_deliv0; auto. intros Hq. apply Hp'. apply pending_emit. apply PE. exact Hq.
  - intros h' r' k' Hin. change (owner (emit s1 (ECloseCb h))) with (owner s1). rewrite B.
    cbn [hist emit] in Hin. destruct Hin as [Hin|Hin]; [discriminate|]. rewrite A in Hin. eauto.
  - intros later h' earlier Hs. cbn [hist emit] in Hs. destruct later as [|x later]; simpl in Hs.
    + inversion Hs; subst. rewrite A. intros r k Hin. apply r_deliv0.
      * rewrite (r_sub0 h' r k Hin). discriminate.
      * apply (NP r k Hin).
    + inversion Hs; subst x. rewrite A in H1. eapply r_good0; eauto.
Qed.

(* state part: the record of one handle is rewritten *)
Lemma QOK_upd dw dw' s h f :
  QOK dw s -> hvalid s h = true ->
  NoDup (qreqs (f (hget s h))) -> NoDup dw' ->
  (forall r, In r dw' -> lookup r (owner s) <> None /\ ~ In r (qreqs (f (hget s h))) /\
                          forall h', h' <> h -> hvalid s h' = true -> ~ In r (qreqs (hget s h'))) ->
  ((h_ty (f (hget s h)) <> TStream -> h_conn (f (hget s h)) = None /\ h_shut (f (hget s h)) = None) /\
   (h_ty (f (hget s h)) <> TStream -> h_ty (f (hget s h)) <> TUdp ->
    h_wq (f (hget s h)) = [] /\ h_cq (f (hget s h)) = [])) ->
  (h_closed (f (hget s h)) = true -> qreqs (f (hget s h)) = []) ->
  QOK dw' (upd_h s h f).
Proof.
  intros Q Hv N1 N2 D T C. destruct Q.
  constructor; auto.
  - intros h' Hv'. rewrite hvalid_upd in Hv'. destruct (Nat.eq_dec h h') as [<-|Hne].
    + rewrite hget_upd_same by exact Hv. exact N1.
    + rewrite hget_upd_other by exact Hne. auto.
  - intros r Hr. destruct (D r Hr) as (D1 & D2 & D3). split; [exact D1|].
    intros h' Hv'. rewrite hvalid_upd in Hv'. destruct (Nat.eq_dec h h') as [<-|Hne].
    + rewrite hget_upd_same by exact Hv. exact D2.
    + rewrite hget_upd_other by exact Hne. apply D3; auto.
  - intros h' Hv'. rewrite hvalid_upd in Hv'. destruct (Nat.eq_dec h h') as [<-|Hne].
    + rewrite hget_upd_same by exact Hv. exact T.
    + rewrite hget_upd_other by exact Hne. auto.
  - intros h' Hv'. rewrite hvalid_upd in Hv'. destruct (Nat.eq_dec h h') as [<-|Hne].
    + rewrite hget_upd_same by exact Hv. exact C.
    + rewrite hget_upd_other by exact Hne. auto.
Qed.

Definition qf (x : hst) := (h_conn x, h_wq x, h_cq x, h_shut x, h_ty x).

Lemma qf_eq x y : qf x = qf y ->
  h_conn x = h_conn y /\ h_wq x = h_wq y /\ h_cq x = h_cq y /\ h_shut x = h_shut y /\ h_ty x = h_ty y /\
  qreqs x = qreqs y.
Proof. unfold qf, qreqs. intros E. inversion E. splits; auto. Qed.

(* state part: queues, types, CLOSED flags and owners untouched *)
Lemma QOK_same dw s s' :
  QOK dw s -> owner s' = owner s ->
  (forall h, hvalid s' h = true ->
     (hvalid s h = true /\ qf (hget s' h) = qf (hget s h) /\
      (h_closed (hget s' h) = true -> h_closed (hget s h) = true)) \/
     (hvalid s h = false /\ h_conn (hget s' h) = None /\ h_wq (hget s' h) = [] /\ h_cq (hget s' h) = [] /\
      h_shut (hget s' h) = None)) ->
  QOK dw s'.
Proof.
  intros Q B X. destruct Q.
  assert (QR : forall h, hvalid s' h = true ->
                 (hvalid s h = true /\ qreqs (hget s' h) = qreqs (hget s h)) \/ qreqs (hget s' h) = []).
  { intros h Hv. destruct (X h Hv) as [(V1 & E & _)|(_ & C1 & C2 & C3 & C4)].
    - left. split; [exact V1|]. apply qf_eq in E. apply E.
    - right. unfold qreqs. rewrite C1, C2, C3, C4. reflexivity. }
  constructor; rewrite ?B; auto.
  - intros h Hv. destruct (QR h Hv) as [(V1 & E)|E]; rewrite E; [auto|constructor].
  - intros r Hr. destruct (q_dw0 r Hr) as (D1 & D2). split; [exact D1|].
    intros h Hv. destruct (QR h Hv) as [(V1 & E)|E]; rewrite E; auto.
  - intros h Hv. destruct (X h Hv) as [(V1 & E & _)|(_ & C1 & C2 & C3 & C4)].
    + apply qf_eq in E. destruct E as (E1 & E2 & E3 & E4 & E5 & _). rewrite E1, E2, E3, E4, E5. auto.
    + auto.
  - intros h Hv Hc. destruct (X h Hv) as [(V1 & E & C)|(_ & C1 & C2 & C3 & C4)].
    + apply qf_eq in E. destruct E as (_ & _ & _ & _ & _ & E). rewrite E. auto.
    + unfold qreqs. rewrite C1, C2, C3, C4. reflexivity.
Qed.

(* ------------------------------------------------------------------ *)
(* which steps leave the request queues alone                         *)
(* ------------------------------------------------------------------ *)
Definition QFS (s s' : cstate) : Prop := map qf (hs s') = map qf (hs s).

Lemma QFS_refl s : QFS s s.
Proof. reflexivity. Qed.

Lemma QFS_trans a b c : QFS a b -> QFS b c -> QFS a c.
Proof. unfold QFS. congruence. Qed.

Lemma QFS_get s s' : QFS s s' -> forall h, hvalid s' h = hvalid s h /\ qf (hget s' h) = qf (hget s h).
Proof.
  unfold QFS. intros E h. split.
  - unfold hvalid. rewrite <- (map_length qf (hs s')), <- (map_length qf (hs s)), E. reflexivity.
  - unfold hget. rewrite <- !(map_nth qf). rewrite E. reflexivity.
Qed.

Lemma map_upd_inert {A B} (g : A -> B) (f : A -> A) i l :
  (forall x, g (f x) = g x) -> map g (upd i f l) = map g l.
Proof.
  intros H. revert i. induction l as [|x l IH]; intros [|i]; simpl; auto.
  - rewrite H. reflexivity.
  - rewrite IH. reflexivity.
Qed.

Lemma QFS_upd s h f : (forall x, qf (f x) = qf x) -> QFS s (upd_h s h f).
Proof. intros H. unfold QFS, upd_h, set_hs. cbn [hs]. apply map_upd_inert. exact H. Qed.

Lemma QFS_hs s s' : hs s' = hs s -> QFS s s'.
Proof. unfold QFS. intros ->. reflexivity. Qed.

Lemma fp_stop_QFS s h : QFS s (fp_stop s h).
Proof.
  unfold fp_stop. destruct (h_active (hget s h)); [|apply QFS_refl].
  destruct (h_ctxs (hget s h)) as [|c rest]; [apply QFS_upd; reflexivity|].
  destruct (Nat.eqb (c_timer c) 1); [|apply QFS_upd; reflexivity].
  eapply QFS_trans; [|apply QFS_upd; reflexivity].
  eapply QFS_trans; [apply QFS_upd with (f := w_ctxs (mkC (c_id c) (c_stat c) 2 :: rest)); reflexivity|].
  apply QFS_hs. reflexivity.
Qed.

Lemma c_close_QFS s h : QFS s (c_close s h).
Proof.
  unfold c_close.
  assert (A : QFS s (upd_h s h (fun x => w_ledger [] (w_closing true x)))) by (apply QFS_upd; reflexivity).
  destruct (h_ty (hget s h)); try (eapply QFS_trans; [exact A|apply QFS_hs; reflexivity]).
  match goal with |- QFS s (match ?m with [] => _ | _ => _ end) => destruct m end.
  - eapply QFS_trans; [exact A|]. eapply QFS_trans; [apply fp_stop_QFS|apply QFS_hs; reflexivity].
  - eapply QFS_trans; [exact A|]. apply fp_stop_QFS.
Qed.

Lemma capi_hist s o : hist (capi s o) = hist s \/ hist (capi s o) = EIn o :: hist s.
Proof.
  destruct o; cbn [capi]; auto;
    repeat match goal with
    | |- context [if ?c then _ else _] => destruct c
    | |- context [match ?c with _ => _ end] => destruct c
    end; auto;
    right; cbn [hist emit]; rewrite ?c_close_hist, ?fp_stop_hist; reflexivity.
Qed.

Definition queue_op (o : cop) : bool :=
  match o with OInit _ | OSubmit _ _ _ | ODone _ _ => true | _ => false end.

Lemma QFS_upd_hs s s' h f : hs s' = upd h f (hs s) -> (forall x, qf (f x) = qf x) -> QFS s s'.
Proof. intros E H. unfold QFS. rewrite E. apply map_upd_inert. exact H. Qed.

Lemma capi_QFS s o : queue_op o = false -> QFS s (capi s o).
Proof.
  destruct o; cbn [queue_op capi]; intros Q; try discriminate; try apply QFS_refl;
    repeat match goal with
    | |- QFS _ (if ?c then _ else _) => destruct c
    end; try apply QFS_refl;
    try (eapply QFS_upd_hs; [reflexivity|reflexivity]).
  - apply QFS_hs. reflexivity.
  - apply QFS_trans with (b := fp_stop s h); [apply fp_stop_QFS|apply QFS_hs; reflexivity].
  - apply QFS_trans with (b := emit s (EIn (OClose h))); [apply QFS_hs; reflexivity|apply c_close_QFS].
Qed.

(* a step that leaves all request queues alone and appends plain events *)
Lemma RInv_plain dw s s' l :
  RInv dw s -> hist s' = l ++ hist s -> Forall plain l -> owner s' = owner s -> QFS s s' ->
  (forall h, hvalid s h = true -> h_closed (hget s' h) = true -> h_closed (hget s h) = true) ->
  RInv dw s'.
Proof.
  intros [Q R] A P B F C. pose proof (QFS_get _ _ F) as G.
  split.
  - apply QOK_same with (s := s); auto. intros h Hv. left. destruct (G h) as (G1 & G2).
    rewrite G1 in Hv. splits; auto.
  - apply HR_keep with (dw := dw) (s := s) (l := l); auto.
    intros r. unfold pending. split; intros [H|(h & Hv & Hr)]; auto; right; exists h; destruct (G h) as (G1 & G2);
      apply qf_eq in G2; destruct G2 as (_ & _ & _ & _ & _ & G2).
    + rewrite <- G1, <- G2. auto.
    + rewrite G1, G2. auto.
Qed.

(* ------------------------------------------------------------------ *)
(* API operations keep the request invariant                          *)
(* ------------------------------------------------------------------ *)
Lemma fp_stop_owner s h : owner (fp_stop s h) = owner s.
Proof.
  unfold fp_stop. destruct (h_active (hget s h)); [|reflexivity].
  destruct (h_ctxs (hget s h)) as [|c rest]; [reflexivity|]. destruct (Nat.eqb (c_timer c) 1); reflexivity.
Qed.

Lemma c_close_owner s h : owner (c_close s h) = owner s.
Proof.
  unfold c_close. destruct (h_ty (hget s h)); try reflexivity.
  match goal with |- owner (match ?m with [] => _ | _ => _ end) = _ => destruct m end;
    cbn [owner push_clq set_clq]; rewrite fp_stop_owner; reflexivity.
Qed.

Lemma capi_owner s o : queue_op o = false -> owner (capi s o) = owner s.
Proof.
  destruct o; cbn [queue_op capi]; intros Q; try discriminate; try reflexivity;
    repeat match goal with
    | |- owner (if ?c then _ else _) = _ => destruct c
    end; try reflexivity;
    cbn [owner emit]; rewrite ?c_close_owner, ?fp_stop_owner; reflexivity.
Qed.

Lemma plain_op o : (forall h r k, o <> OSubmit h r k) -> plain (EIn o).
Proof. intros H. unfold plain. splits; try discriminate; auto. intros h r k E. inversion E. eapply H; eauto. Qed.

Lemma cnt_zero r l : (forall e, In e l -> ev_req e <> Some r) -> cnt r l = O.
Proof.
  induction l as [|e l IH]; intros H; [reflexivity|]. rewrite cnt_cons.
  destruct (is_reqcb r e) eqn:E.
  - exfalso. destruct e; simpl in E; try discriminate. apply Nat.eqb_eq in E. subst.
    apply (H (EReqCb r st cl)); [left; reflexivity|reflexivity].
  - apply IH. intros e' He'. apply H. right. exact He'.
Qed.

Lemma QOK_owner dw s r h : QOK dw s -> QOK dw (set_owner s ((r, h) :: owner s)).
Proof.
  intros [A B C D E]. constructor; auto.
  intros r' Hr. destruct (C r' Hr) as (C1 & C2). split; [|exact C2].
  cbn [owner set_owner]. simpl. destruct (Nat.eqb r r'); [discriminate|exact C1].
Qed.

(* OSubmit: r joins the queues of h *)
Lemma submit_R dl dw s h r k f :
  Inv dl s -> RInv dw s -> hvalid s h = true -> h_closing (hget s h) = false ->
  lookup r (owner s) = None ->
  Permutation (qreqs (f (hget s h))) (r :: qreqs (hget s h)) ->
  h_closed (f (hget s h)) = h_closed (hget s h) ->
  ((h_ty (f (hget s h)) <> TStream -> h_conn (f (hget s h)) = None /\ h_shut (f (hget s h)) = None) /\
   (h_ty (f (hget s h)) <> TStream -> h_ty (f (hget s h)) <> TUdp ->
    h_wq (f (hget s h)) = [] /\ h_cq (f (hget s h)) = [])) ->
  RInv dw (emit (upd_h (set_owner s ((r, h) :: owner s)) h f) (EIn (OSubmit h r k))).
Proof.
  intros I [Q R] Hv Hc Fr P C T.
  pose proof (j_h _ _ I h Hv) as K.
  assert (Hd : h_closed (hget s h) = false) by (eapply HOK_not_closing; eauto).
  assert (NI : ~ In r (qreqs (hget s h))).
  { intros H. rewrite (k_own _ _ _ _ K r H) in Fr. discriminate. }
  set (s0 := set_owner s ((r, h) :: owner s)).
  set (s1 := upd_h s0 h f).
  assert (MEM : forall y, In y (qreqs (f (hget s h))) <-> (y = r \/ In y (qreqs (hget s h)))).
  { intros y. split; intros H.
    - apply (Permutation_in _ P) in H. destruct H; auto.
    - apply (Permutation_in _ (Permutation_sym P)). destruct H; [left; auto|right; auto]. }
  assert (PE : forall r', pending dw s1 r' <-> (pending dw s r' \/ r' = r)).
  { intros r'. unfold pending. split.
    - intros [H|(h' & Hv' & Hr)]; auto. unfold s1 in Hv', Hr. rewrite hvalid_upd in Hv'.
      destruct (Nat.eq_dec h h') as [<-|Hne].
      + rewrite hget_upd_same in Hr by exact Hv. apply MEM in Hr. destruct Hr as [->|Hr]; auto.
        left. right. exists h. auto.
      + rewrite hget_upd_other in Hr by exact Hne. left. right. exists h'. auto.
    - intros [[H|(h' & Hv' & Hr)] | ->]; auto; right.
      + exists h'. unfold s1. rewrite hvalid_upd. split; [exact Hv'|].
        destruct (Nat.eq_dec h h') as [<-|Hne].
        * rewrite hget_upd_same by exact Hv. apply MEM. auto.
        * rewrite hget_upd_other by exact Hne. exact Hr.
      + exists h. unfold s1. rewrite hvalid_upd. split; [exact Hv|].
        rewrite hget_upd_same by exact Hv. apply MEM. auto. }
  split.
  - apply QOK_same with (s := s1); [|reflexivity|intros h' Hv'; left; splits; auto].
    unfold s1. apply QOK_upd with (dw := dw); auto.
    + apply QOK_owner. exact Q.
    + change (hget s0 h) with (hget s h). apply (Permutation_NoDup (Permutation_sym P)).
      constructor; [exact NI|apply (q_nd _ _ Q h Hv)].
    + apply (q_dwnd _ _ Q).
    + intros r' Hr. destruct (q_dw _ _ Q r' Hr) as (D1 & D2).
      assert (Hne : r' <> r) by (intros ->; contradiction).
      splits.
      * cbn [owner set_owner s0]. rewrite lookup_cons_other by congruence. exact D1.
      * change (hget s0 h) with (hget s h). intros H. apply MEM in H. destruct H as [H|H]; [contradiction|].
        apply (D2 h Hv H).
      * intros h' _ Hv'. apply D2. exact Hv'.
    + change (hget s0 h) with (hget s h). intros H. congruence.
  - apply HR_submit with (s := s); auto.
    apply cnt_zero. intros e He Hr. apply (j_ro _ _ I e r He Hr). exact Fr.
Qed.

Lemma perm_mid {A} (r : A) l1 l2 : Permutation (l1 ++ r :: l2) (r :: l1 ++ l2).
Proof. apply Permutation_sym. apply Permutation_middle. Qed.

Lemma perm_wq (r : nat) a w m : Permutation (a ++ (w ++ [r]) ++ m) (r :: a ++ w ++ m).
Proof.
  replace (a ++ (w ++ [r]) ++ m) with ((a ++ w) ++ r :: m) by (rewrite <- !app_assoc; reflexivity).
  replace (a ++ w ++ m) with ((a ++ w) ++ m) by (rewrite <- app_assoc; reflexivity).
  apply perm_mid.
Qed.

Lemma perm_done (r : nat) a rest m o :
  Permutation (a ++ rest ++ (m ++ [r]) ++ o) (a ++ (r :: rest) ++ m ++ o).
Proof.
  apply Permutation_trans with (l' := r :: a ++ rest ++ m ++ o).
  - replace (a ++ rest ++ (m ++ [r]) ++ o) with ((a ++ rest ++ m) ++ r :: o) by (rewrite <- !app_assoc; reflexivity).
    replace (a ++ rest ++ m ++ o) with ((a ++ rest ++ m) ++ o) by (rewrite <- !app_assoc; reflexivity).
    apply perm_mid.
  - apply Permutation_sym. simpl. apply perm_mid.
Qed.

Lemma capi_R dl dw s o : Inv dl s -> RInv dw s -> RInv dw (capi s o).
Proof.
  intros I R. destruct (queue_op o) eqn:QO.
  2:{ (* nothing happens to the queues *)
      pose proof (capi_step dl s o I) as [_ [F _]].
      assert (NS : forall h r k, o <> OSubmit h r k) by (intros h r k ->; discriminate).
      destruct (capi_hist s o) as [H|H].
      - apply RInv_plain with (s := s) (l := []); auto. + apply capi_owner; exact QO. + apply capi_QFS; exact QO.
        + intros h Hv. destruct (F h Hv) as (_ & C & _). congruence.
      - apply RInv_plain with (s := s) (l := [EIn o]); auto.
        + constructor; [apply plain_op; exact NS|constructor].
        + apply capi_owner; exact QO. + apply capi_QFS; exact QO.
        + intros h Hv. destruct (F h Hv) as (_ & C & _). congruence. }
  destruct o; try discriminate; cbn [capi].
  - (* OInit *)
    destruct R as [Q R].
    set (x := mkHS t false false None [] [] None [] 0 false []).
    set (s1 := set_hs s (hs s ++ [x])).
    assert (G : forall h, hvalid s1 h = true ->
                  (hvalid s h = true /\ hget s1 h = hget s h) \/ (hvalid s h = false /\ hget s1 h = x)).
    { intros h Hv. destruct (hvalid s h) eqn:E.
      - left. split; [reflexivity|apply hget_app_old; exact E].
      - right. split; [reflexivity|]. apply hvalid_lt in Hv. unfold s1 in Hv. cbn [hs set_hs] in Hv.
        rewrite app_length in Hv. simpl in Hv. unfold hvalid in E. apply Nat.ltb_ge in E.
        assert (h = length (hs s)) by lia. subst h. apply hget_app_new. }
    split.
    + apply QOK_same with (s := s); auto. intros h Hv. change (hvalid s1 h = true) in Hv.
      change (hget (emit s1 (EIn (OInit t))) h) with (hget s1 h).
      destruct (G h Hv) as [(V & E)|(V & E)].
      * left. rewrite E. auto.
      * right. rewrite E. unfold x. cbn. auto.
    + apply HR_keep with (dw := dw) (s := s) (l := [EIn (OInit t)]); auto.
      * constructor; [apply plain_op; intros; discriminate|constructor].
      * intros r. unfold pending. split; intros [H|(h & Hv & Hr)]; auto; right.
        -- change (hvalid (emit s1 (EIn (OInit t))) h) with (hvalid s1 h) in Hv.
           change (hget (emit s1 (EIn (OInit t))) h) with (hget s1 h) in Hr.
           destruct (G h Hv) as [(V & E)|(V & E)]; rewrite E in Hr; [exists h; auto|destruct Hr].
        -- exists h. change (hvalid (emit s1 (EIn (OInit t))) h) with (hvalid s1 h).
           change (hget (emit s1 (EIn (OInit t))) h) with (hget s1 h).
           unfold s1. rewrite hget_app_old by exact Hv. split; [|exact Hr].
           apply hvalid_lt in Hv. apply hvalid_lt. cbn [hs set_hs]. rewrite app_length. simpl. lia.
  - (* OSubmit *)
    destruct (usable s h && match lookup r (owner s) with None => true | Some _ => false end) eqn:U; [|exact R].
    apply andb_prop in U. destruct U as [U Fr]. apply usable_valid in U. destruct U as [Hv Hc].
    destruct (lookup r (owner s)) eqn:Lr; [discriminate|].
    pose proof (q_ty _ _ (proj1 R) h Hv) as TY.
    destruct kind as [|[|[|[|kind]]]]; destruct (h_ty (hget s h)) eqn:Ty; try exact R.
    + destruct (h_conn (hget s h)) eqn:Ec; [exact R|].
      apply submit_R with (dl := dl); auto.
      * unfold qreqs. cbn. rewrite Ec. apply Permutation_refl.
      * cbn. rewrite Ty. split; intros H; congruence.
    + apply submit_R with (dl := dl); auto.
      * unfold qreqs. cbn. apply perm_wq.
      * cbn. rewrite Ty. split; intros H; congruence.
    + destruct (h_shut (hget s h)) eqn:Ec; [exact R|].
      apply submit_R with (dl := dl); auto.
      * unfold qreqs. cbn. rewrite Ec. simpl. rewrite app_nil_r.
        rewrite !app_assoc. apply Permutation_sym. apply Permutation_cons_append.
      * cbn. rewrite Ty. split; intros H; congruence.
    + apply submit_R with (dl := dl); auto.
      * unfold qreqs. cbn. apply perm_wq.
      * cbn. rewrite Ty. destruct TY as (T1 & T2). split; [intros _; apply T1; congruence|intros _ H; congruence].
  - (* ODone *)
    destruct (lookup r (owner s)) as [h|] eqn:Lr; [|exact R].
    destruct (h_wq (hget s h)) as [|r' rest] eqn:Ew; [exact R|].
    destruct (Nat.eqb r r' && usable s h) eqn:U; [|exact R].
    apply andb_prop in U. destruct U as [Er U]. apply Nat.eqb_eq in Er. subst r'.
    apply usable_valid in U. destruct U as [Hv Hc].
    pose proof (j_h _ _ I h Hv) as K.
    assert (Hd : h_closed (hget s h) = false) by (eapply HOK_not_closing; eauto).
    destruct R as [Q R].
    set (f := fun x => w_cq (h_cq x ++ [(r, st)]) (w_wq rest x)).
    assert (P : Permutation (qreqs (f (hget s h))) (qreqs (hget s h))).
    { unfold qreqs, f. cbn. rewrite Ew, map_app. simpl. apply perm_done. }
    assert (MEM : forall y, In y (qreqs (f (hget s h))) <-> In y (qreqs (hget s h))).
    { intros y. split; apply Permutation_in; [exact P|apply Permutation_sym; exact P]. }
    split.
    + apply QOK_same with (s := upd_h s h f); [|reflexivity|intros h' Hv'; left; splits; auto].
      apply QOK_upd with (dw := dw); auto.
      * apply (Permutation_NoDup (Permutation_sym P)). apply (q_nd _ _ Q h Hv).
      * apply (q_dwnd _ _ Q).
      * intros r' Hr. destruct (q_dw _ _ Q r' Hr) as (D1 & D2). splits; auto.
        intros H. apply MEM in H. apply (D2 h Hv H).
      * destruct (q_ty _ _ Q h Hv) as (T1 & T2). unfold f. cbn. split; [exact T1|].
        intros A B. destruct (T2 A B) as (W & _). congruence.
      * unfold f. cbn. congruence.
    + apply HR_keep with (dw := dw) (s := s) (l := [EIn (ODone r st)]); auto.
      * constructor; [apply plain_op; intros; discriminate|constructor].
      * intros r'. unfold pending. split; intros [H|(h' & Hv' & Hr)]; auto; right; exists h'.
        -- change (hvalid (emit (upd_h s h f) (EIn (ODone r st))) h') with (hvalid (upd_h s h f) h') in Hv'.
           change (hget (emit (upd_h s h f) (EIn (ODone r st))) h') with (hget (upd_h s h f) h') in Hr.
           rewrite hvalid_upd in Hv'. split; [exact Hv'|]. destruct (Nat.eq_dec h h') as [<-|Hne].
           ++ rewrite hget_upd_same in Hr by exact Hv. apply MEM. exact Hr.
           ++ rewrite hget_upd_other in Hr by exact Hne. exact Hr.
        -- change (hvalid (emit (upd_h s h f) (EIn (ODone r st))) h') with (hvalid (upd_h s h f) h').
           change (hget (emit (upd_h s h f) (EIn (ODone r st))) h') with (hget (upd_h s h f) h').
           rewrite hvalid_upd. split; [exact Hv'|]. destruct (Nat.eq_dec h h') as [<-|Hne].
           ++ rewrite hget_upd_same by exact Hv. apply MEM. exact Hr.
           ++ rewrite hget_upd_other by exact Hne. exact Hr.
Qed.

Lemma capis_R dl dw os : forall s, Inv dl s -> RInv dw s -> RInv dw (capis s os).
Proof.
  induction os as [|o os IH]; intros s I R; cbn [capis]; [exact R|].
  apply IH; [apply (capi_step dl s o I)|apply capi_R with (dl := dl); auto].
Qed.

(* a closing handle's request queues are frozen during API calls *)
Lemma capi_frozen dl s o h :
  Inv dl s -> hvalid s h = true -> h_closing (hget s h) = true ->
  qf (hget (capi s o) h) = qf (hget s h).
Proof.
  intros I Hv Hc. destruct (queue_op o) eqn:QO.
  2:{ apply (QFS_get _ _ (capi_QFS s o QO) h). }
  destruct o; try discriminate; cbn [capi].
  - change (hget (emit ?x ?e) h) with (hget x h). rewrite hget_app_old by exact Hv. reflexivity.
  - destruct (usable s h0 && match lookup r (owner s) with None => true | Some _ => false end) eqn:U; [|reflexivity].
    apply andb_prop in U. destruct U as [U _]. apply usable_valid in U. destruct U as [Hv0 Hc0].
    assert (Hne : h0 <> h) by (intros ->; congruence).
    destruct kind as [|[|[|[|kind]]]]; destruct (h_ty (hget s h0)); try reflexivity;
      repeat match goal with |- context [match ?c with None => _ | Some _ => _ end] => destruct c end;
      try reflexivity;
      change (hget (emit ?x ?e) h) with (hget x h); rewrite hget_upd_other by exact Hne; reflexivity.
  - destruct (lookup r (owner s)) as [h0|]; [|reflexivity].
    destruct (h_wq (hget s h0)) as [|r' rest]; [reflexivity|].
    destruct (Nat.eqb r r' && usable s h0) eqn:U; [|reflexivity].
    apply andb_prop in U. destruct U as [_ U]. apply usable_valid in U. destruct U as [Hv0 Hc0].
    assert (Hne : h0 <> h) by (intros ->; congruence).
    change (hget (emit ?x ?e) h) with (hget x h). rewrite hget_upd_other by exact Hne. reflexivity.
Qed.

Lemma capis_frozen dl os h : forall s,
  Inv dl s -> hvalid s h = true -> h_closing (hget s h) = true ->
  qf (hget (capis s os) h) = qf (hget s h).
Proof.
  induction os as [|o os IH]; intros s I Hv Hc; cbn [capis]; [reflexivity|].
  pose proof (capi_step dl s o I) as [I1 [F1 _]]. destruct (F1 h Hv) as (V1 & _ & _ & C1).
  rewrite IH; auto. apply capi_frozen with (dl := dl); auto.
Qed.

Lemma ccallback_frozen dl s beh e h :
  Inv dl (set_ncb (emit s e) (S (ncb s))) -> hvalid s h = true -> h_closing (hget s h) = true ->
  qf (hget (ccallback s beh e) h) = qf (hget s h).
Proof.
  intros I Hv Hc. unfold ccallback. rewrite (capis_frozen dl (beh (ncb s)) h _ I); auto.
Qed.

Lemma RInv_ext dw s s' :
  RInv dw s -> hs s' = hs s -> owner s' = owner s -> hist s' = hist s -> RInv dw s'.
Proof.
  intros [Q R] A B C. destruct s, s'; simpl in *; subst.
  split; [destruct Q; constructor; assumption|destruct R; constructor; assumption].
Qed.

Lemma Inv_reqcb_pre dl s r st cl h :
  Inv dl s -> lookup r (owner s) = Some h -> h_closed (hget s h) = false ->
  Inv dl (set_ncb (emit s (EReqCb r st cl)) (S (ncb s))).
Proof.
  intros I L Hc. apply Inv_ext with (s := emit s (EReqCb r st cl)); auto.
  apply Inv_emit; auto; try discriminate.
  - intros h' [Ha|(r' & Hr & Hl)] _; [discriminate|].
    simpl in Hr. inversion Hr; subst. assert (h' = h) by congruence. subst. exact Hc.
  - simpl. intros r' Hr. inversion Hr; subst. congruence.
Qed.

(* a pending request r (on the detached list, or in a queue of h from which f
   removes it) gets its callback; then the callback body runs *)
Lemma deliver_R dl dw dw' s s1 beh r st cl h :
  Inv dl s1 -> RInv dw s -> hist s1 = hist s -> owner s1 = owner s ->
  lookup r (owner s) = Some h -> h_closed (hget s1 h) = false ->
  pending dw s r ->
  (forall r', pending dw' s1 r' <-> (pending dw s r' /\ r' <> r)) ->
  QOK dw' s1 ->
  RInv dw' (ccallback s1 beh (EReqCb r st cl)).
Proof.
  intros I1 [Q R] A B L Hc Hp PE Q1. unfold ccallback.
  apply capis_R with (dl := dl).
  - apply Inv_reqcb_pre with (h := h); auto. congruence.
  - apply RInv_ext with (s := emit s1 (EReqCb r st cl)); auto. split.
    + apply QOK_same with (s := s1); auto; intros h' Hv'; left; splits; auto.
    + apply HR_deliver with (dw := dw) (s := s); auto; congruence.
Qed.

(* the head of the detached list is delivered *)
Lemma dw_deliver_R dl dw s beh r st cl h :
  Inv dl s -> RInv (r :: dw) s -> lookup r (owner s) = Some h -> h_closed (hget s h) = false ->
  RInv dw (ccallback s beh (EReqCb r st cl)).
Proof.
  intros I R L Hc. pose proof R as [Q _].
  pose proof (q_dwnd _ _ Q) as N. inversion N; subst.
  destruct (q_dw _ _ Q r ltac:(left; reflexivity)) as (_ & NQ).
  apply deliver_R with (dl := dl) (dw := r :: dw) (s := s) (h := h); auto.
  - left. left. reflexivity.
  - intros r'. unfold pending. split.
    + intros [H|(h' & Hv' & Hr)].
      * split; [left; right; exact H|]. intros ->. contradiction.
      * split; [right; exists h'; auto|]. intros ->. apply (NQ h' Hv' Hr).
    + intros ([[->|H]|H] & Hne); [contradiction|left; exact H|right; exact H].
  - destruct Q. constructor; auto. intros r' Hr. apply q_dw0. right. exact Hr.
Qed.

Lemma run_cq_R dl beh h l : forall dw s,
  Inv dl s -> RInv (map fst l ++ dw) s -> hvalid s h = true -> h_closed (hget s h) = false ->
  (forall r st, In (r, st) l -> lookup r (owner s) = Some h) ->
  RInv dw (run_cq l h s beh).
Proof.
  induction l as [|[r st] l IH]; intros dw s I R Hv Hc Ho; cbn [run_cq]; [exact R|].
  set (s1 := ccallback s beh (EReqCb r (cbstatus (h_ty (hget s h)) st) (h_closing (hget s h)))).
  assert (S1 : Step dl s s1).
  { apply reqcb_step with (h := h); auto. apply (Ho r st). left. reflexivity. }
  destruct S1 as [I1 [F1 F2]]. destruct (F1 h Hv) as (V1 & C1 & _).
  apply IH; auto.
  - simpl in R. apply dw_deliver_R with (dl := dl) (h := h); auto. apply (Ho r st). left. reflexivity.
  - congruence.
  - intros r' st' H. apply F2. apply (Ho r' st'). right. exact H.
Qed.

Lemma NoDup_app_intro {A} (a b : list A) :
  NoDup a -> NoDup b -> (forall x, In x a -> ~ In x b) -> NoDup (a ++ b).
Proof.
  induction a as [|x a IH]; intros Na Nb D; simpl; [exact Nb|].
  inversion Na; subst. constructor.
  - intros H. apply in_app_or in H. destruct H as [H|H]; [contradiction|]. apply (D x); [left; reflexivity|exact H].
  - apply IH; auto. intros y Hy. apply D. right. exact Hy.
Qed.

Lemma NoDup_app_l {A} (a b : list A) : NoDup (a ++ b) -> NoDup a /\ NoDup b /\ forall x, In x a -> ~ In x b.
Proof.
  induction a as [|x a IH]; simpl; intros N.
  - splits; [constructor|exact N|intros x []].
  - inversion N; subst. destruct (IH H2) as (A1 & A2 & A3). splits; auto.
    + constructor; auto. intros H. apply H1. apply in_or_app. auto.
    + intros y [->|Hy]; [intros H; apply H1; apply in_or_app; auto|auto].
Qed.

Lemma same_owner_same_handle dl s h h' r :
  Inv dl s -> hvalid s h = true -> hvalid s h' = true ->
  In r (qreqs (hget s h)) -> In r (qreqs (hget s h')) -> h = h'.
Proof.
  intros I V V' A B. pose proof (k_own _ _ _ _ (j_h _ _ I h V) r A).
  pose proof (k_own _ _ _ _ (j_h _ _ I h' V') r B). congruence.
Qed.

(* requests of h move from its queues onto the detached list *)
Lemma detach_R dl dw s h f moved :
  Inv dl s -> RInv dw s -> hvalid s h = true ->
  Permutation (moved ++ qreqs (f (hget s h))) (qreqs (hget s h)) ->
  h_closed (f (hget s h)) = h_closed (hget s h) ->
  ((h_ty (f (hget s h)) <> TStream -> h_conn (f (hget s h)) = None /\ h_shut (f (hget s h)) = None) /\
   (h_ty (f (hget s h)) <> TStream -> h_ty (f (hget s h)) <> TUdp ->
    h_wq (f (hget s h)) = [] /\ h_cq (f (hget s h)) = [])) ->
  RInv (moved ++ dw) (upd_h s h f).
Proof.
  intros I [Q R] Hv P C T. pose proof (j_h _ _ I h Hv) as K.
  assert (N0 : NoDup (moved ++ qreqs (f (hget s h)))).
  { apply (Permutation_NoDup (Permutation_sym P)). apply (q_nd _ _ Q h Hv). }
  destruct (NoDup_app_l _ _ N0) as (Nm & Nf & Dmf).
  assert (MEM : forall y, In y (qreqs (hget s h)) <-> (In y moved \/ In y (qreqs (f (hget s h))))).
  { intros y. rewrite <- in_app_iff. split; apply Permutation_in; [apply Permutation_sym; exact P|exact P]. }
  split.
  - apply QOK_upd with (dw := dw); auto.
    + apply NoDup_app_intro; auto; [apply (q_dwnd _ _ Q)|].
      intros y Hy Hd. destruct (q_dw _ _ Q y Hd) as (_ & D2). apply (D2 h Hv). apply MEM. auto.
    + intros r Hr. apply in_app_or in Hr. destruct Hr as [Hr|Hr].
      * assert (Hq : In r (qreqs (hget s h))) by (apply MEM; auto).
        splits.
        -- rewrite (k_own _ _ _ _ K r Hq). discriminate.
        -- apply Dmf. exact Hr.
        -- intros h' Hne Hv' H'. apply Hne. symmetry. eapply same_owner_same_handle; eauto.
      * destruct (q_dw _ _ Q r Hr) as (D1 & D2). splits; auto.
        intros H. apply (D2 h Hv). apply MEM. auto.
    + intros Hc. rewrite C in Hc. pose proof (q_closed _ _ Q h Hv Hc) as E.
      destruct (qreqs (f (hget s h))) as [|y l]; [reflexivity|].
      exfalso. assert (In y (qreqs (hget s h))) by (apply MEM; right; left; reflexivity).
      rewrite E in H. exact H.
  - apply HR_keep with (dw := dw) (s := s) (l := []); auto.
    intros r. unfold pending. split.
    + intros [H|(h' & Hv' & Hr)].
      * apply in_app_or in H. destruct H as [H|H]; [|left; exact H].
        right. exists h. split; [exact Hv|]. apply MEM. auto.
      * rewrite hvalid_upd in Hv'. right. exists h'. split; [exact Hv'|].
        destruct (Nat.eq_dec h h') as [<-|Hne].
        -- rewrite hget_upd_same in Hr by exact Hv. apply MEM. auto.
        -- rewrite hget_upd_other in Hr by exact Hne. exact Hr.
    + intros [H|(h' & Hv' & Hr)]; [left; apply in_or_app; auto|].
      destruct (Nat.eq_dec h h') as [<-|Hne].
      * apply MEM in Hr. destruct Hr as [Hr|Hr]; [left; apply in_or_app; auto|].
        right. exists h. rewrite hvalid_upd, hget_upd_same by exact Hv. auto.
      * right. exists h'. rewrite hvalid_upd, hget_upd_other by exact Hne. auto.
Qed.

(* the connect / shutdown request r of h is taken out and gets its callback *)
Lemma drop_req_R dl dw s beh h f r st cl :
  Inv dl s -> RInv dw s -> hvalid s h = true -> h_closed (hget s h) = false ->
  Permutation (r :: qreqs (f (hget s h))) (qreqs (hget s h)) ->
  h_closing (f (hget s h)) = h_closing (hget s h) -> h_closed (f (hget s h)) = h_closed (hget s h) ->
  h_ctxs (f (hget s h)) = h_ctxs (hget s h) -> h_ty (f (hget s h)) = h_ty (hget s h) ->
  h_ledger (f (hget s h)) = h_ledger (hget s h) ->
  ((h_ty (f (hget s h)) <> TStream -> h_conn (f (hget s h)) = None /\ h_shut (f (hget s h)) = None) /\
   (h_ty (f (hget s h)) <> TStream -> h_ty (f (hget s h)) <> TUdp ->
    h_wq (f (hget s h)) = [] /\ h_cq (f (hget s h)) = [])) ->
  RInv dw (ccallback (upd_h s h f) beh (EReqCb r st cl)).
Proof.
  intros I R Hv Hd P A B C T L TY. pose proof (j_h _ _ I h Hv) as K.
  assert (Hq : In r (qreqs (hget s h))) by (apply (Permutation_in _ P); left; reflexivity).
  assert (SUB : forall y, In y (qreqs (f (hget s h))) -> In y (qreqs (hget s h)))
    by (intros y Hy; apply (Permutation_in _ P); right; exact Hy).
  assert (I1 : Inv dl (upd_h s h f)).
  { apply Inv_upd; auto. eapply HOK_frame; eauto. rewrite A, L. apply (k_led _ _ _ _ K). }
  pose proof (detach_R dl dw s h f [r] I R Hv P B TY) as [Q1 R1].
  destruct (NoDup_app_l [r] dw (q_dwnd _ _ Q1)) as (_ & Ndw & Dr).
  apply deliver_R with (dl := dl) (dw := dw) (s := s) (h := h); auto.
  - apply (k_own _ _ _ _ K r Hq).
  - rewrite hget_upd_same by exact Hv. congruence.
  - right. exists h. auto.
  - intros r'. split.
    + intros Hp. assert (Hp' : pending ([r] ++ dw) (upd_h s h f) r').
      { destruct Hp as [H|H]; [left; right; exact H|right; exact H]. }
      split.
      * destruct R as [_ R]. destruct R1. (* pending sets agree up to the moved request *)
        unfold pending in *. destruct Hp as [H|(h' & Hv' & Hr)]; [left; exact H|right].
        rewrite hvalid_upd in Hv'. exists h'. split; [exact Hv'|].
        destruct (Nat.eq_dec h h') as [<-|Hne].
        -- rewrite hget_upd_same in Hr by exact Hv. auto.
        -- rewrite hget_upd_other in Hr by exact Hne. exact Hr.
      * intros ->. destruct Hp as [H|(h' & Hv' & Hr)].
        -- apply (Dr r); [left; reflexivity|exact H].
        -- destruct (q_dw _ _ Q1 r ltac:(left; reflexivity)) as (_ & D2). apply (D2 h' Hv' Hr).
    + intros ([H|(h' & Hv' & Hr)] & Hne); [left; exact H|right].
      exists h'. rewrite hvalid_upd. split; [exact Hv'|].
      destruct (Nat.eq_dec h h') as [<-|Hne'].
      * rewrite hget_upd_same by exact Hv. apply (Permutation_in _ (Permutation_sym P)) in Hr.
        destruct Hr as [E|Hr]; [congruence|exact Hr].
      * rewrite hget_upd_other by exact Hne'. exact Hr.
  - destruct Q1. constructor; auto. intros r' Hr. apply q_dw0. right. exact Hr.
Qed.

Lemma map_fst_cancelled l : map fst (cancelled l) = l.
Proof. unfold cancelled. rewrite map_map. simpl. apply map_id. Qed.

Lemma perm_flush (c : option nat) w (m : list nat) o :
  Permutation ((m ++ w) ++ oreq c ++ [] ++ [] ++ o) (oreq c ++ w ++ m ++ o).
Proof.
  simpl. apply Permutation_trans with (l' := oreq c ++ (m ++ w) ++ o).
  - rewrite app_assoc. rewrite (app_assoc (oreq c)). apply Permutation_app_tail. apply Permutation_app_comm.
  - apply Permutation_app_head. rewrite <- app_assoc. rewrite app_assoc. rewrite (app_assoc w).
    apply Permutation_app_tail. apply Permutation_app_comm.
Qed.

Lemma perm_batch (c : option nat) w (m : list nat) o :
  Permutation (m ++ oreq c ++ w ++ [] ++ o) (oreq c ++ w ++ m ++ o).
Proof.
  simpl. rewrite !app_assoc. apply Permutation_app_tail. rewrite <- app_assoc.
  apply Permutation_app_comm.
Qed.

(* run_cq leaves a closing handle's queues alone *)
Lemma run_cq_frozen dl beh h0 l : forall s h,
  Inv dl s -> hvalid s h0 = true -> h_closed (hget s h0) = false ->
  (forall r st, In (r, st) l -> lookup r (owner s) = Some h0) ->
  hvalid s h = true -> h_closing (hget s h) = true ->
  qf (hget (run_cq l h0 s beh) h) = qf (hget s h).
Proof.
  induction l as [|[r st] l IH]; intros s h I Hv0 Hc0 Ho Hv Hc; cbn [run_cq]; [reflexivity|].
  set (ev := EReqCb r (cbstatus (h_ty (hget s h0)) st) (h_closing (hget s h0))).
  assert (L : lookup r (owner s) = Some h0) by (apply (Ho r st); left; reflexivity).
  assert (S1 : Step dl s (ccallback s beh ev)) by (apply reqcb_step with (h := h0); auto).
  destruct S1 as [I1 [F1 F2]].
  destruct (F1 h0 Hv0) as (V1 & C1 & _). destruct (F1 h Hv) as (V2 & _ & _ & C2).
  rewrite IH; auto.
  - apply ccallback_frozen with (dl := dl); auto. apply Inv_reqcb_pre with (h := h0); auto.
  - congruence.
  - intros r' st' H. apply F2. apply (Ho r' st'). right. exact H.
Qed.

Lemma flush_and_run_R dl dw s beh h :
  Inv dl s -> RInv dw s -> hvalid s h = true -> h_closed (hget s h) = false ->
  RInv dw (flush_and_run s beh h).
Proof.
  intros I R Hv Hd. unfold flush_and_run. pose proof (j_h _ _ I h Hv) as K.
  set (f := fun x => w_cq [] (w_wq [] x)).
  set (pq := h_cq (hget s h) ++ cancelled (h_wq (hget s h))).
  assert (I1 : Inv dl (upd_h s h f)).
  { apply Inv_upd; auto. eapply HOK_frame; eauto.
    - intros r. rewrite !in_qreqs. unfold f. cbn. tauto.
    - apply (k_led _ _ _ _ K). }
  apply run_cq_R with (dl := dl); auto.
  - unfold pq. rewrite map_app, map_fst_cancelled.
    apply detach_R with (dl := dl); auto.
    + unfold qreqs, f. cbn. apply perm_flush.
    + destruct (q_ty _ _ (proj1 R) h Hv) as (T1 & T2). unfold f. cbn. split; auto.
  - rewrite hvalid_upd. exact Hv.
  - rewrite hget_upd_same by exact Hv. exact Hd.
  - intros r st H. change (owner (upd_h s h f)) with (owner s).
    apply (k_own _ _ _ _ K). apply in_qreqs. unfold pq in H. apply in_app_or in H. destruct H as [H|H].
    + right. right. left. apply in_map_iff. exists (r, st). auto.
    + right. left. eapply in_cancelled; eauto.
Qed.

Lemma flush_and_run_empty dl s beh h :
  Inv dl s -> hvalid s h = true -> h_closing (hget s h) = true -> h_closed (hget s h) = false ->
  let s' := flush_and_run s beh h in
  h_wq (hget s' h) = [] /\ h_cq (hget s' h) = [] /\ h_conn (hget s' h) = h_conn (hget s h) /\
  h_shut (hget s' h) = h_shut (hget s h) /\ h_ty (hget s' h) = h_ty (hget s h).
Proof.
  intros I Hv Hc Hd s'. unfold s', flush_and_run. pose proof (j_h _ _ I h Hv) as K.
  set (f := fun x => w_cq [] (w_wq [] x)).
  assert (I1 : Inv dl (upd_h s h f)).
  { apply Inv_upd; auto. eapply HOK_frame; eauto.
    - intros r. rewrite !in_qreqs. unfold f. cbn. tauto.
    - apply (k_led _ _ _ _ K). }
  assert (G : hget (upd_h s h f) h = f (hget s h)) by (apply hget_upd_same; exact Hv).
  pose proof (run_cq_frozen dl beh h (h_cq (hget s h) ++ cancelled (h_wq (hget s h))) (upd_h s h f) h I1) as F.
  rewrite hvalid_upd, G in F. specialize (F Hv Hd).
  assert (Ho : forall r st, In (r, st) (h_cq (hget s h) ++ cancelled (h_wq (hget s h))) ->
               lookup r (owner (upd_h s h f)) = Some h).
  { intros r st H. change (owner (upd_h s h f)) with (owner s).
    apply (k_own _ _ _ _ K). apply in_qreqs. apply in_app_or in H. destruct H as [H|H].
    - right. right. left. apply in_map_iff. exists (r, st). auto.
    - right. left. eapply in_cancelled; eauto. }
  specialize (F Ho Hv Hc). apply qf_eq in F. destruct F as (F1 & F2 & F3 & F4 & F5 & _).
  rewrite F1, F2, F3, F4, F5. unfold f. cbn. auto.
Qed.

Lemma cancel_connect_R dl dw s beh h :
  Inv dl s -> RInv dw s -> hvalid s h = true -> h_closed (hget s h) = false ->
  RInv dw (cancel_connect s beh h).
Proof.
  intros I R Hv Hd. unfold cancel_connect.
  destruct (h_conn (hget s h)) as [r|] eqn:Ec; [|exact R].
  apply drop_req_R with (dl := dl); auto.
  - unfold qreqs. cbn. rewrite Ec. apply Permutation_refl.
  - destruct (q_ty _ _ (proj1 R) h Hv) as (T1 & T2). cbn. split; [|exact T2].
    intros H. destruct (T1 H). auto.
Qed.

Lemma drain_closing_R dl dw s beh h :
  Inv dl s -> RInv dw s -> hvalid s h = true -> h_closed (hget s h) = false ->
  RInv dw (drain_closing s beh h).
Proof.
  intros I R Hv Hd. unfold drain_closing.
  destruct (h_shut (hget s h)) as [r|] eqn:Ec; [|exact R].
  apply drop_req_R with (dl := dl); auto.
  - unfold qreqs. cbn. rewrite Ec. simpl. rewrite app_nil_r.
    apply Permutation_trans with (l' := (oreq (h_conn (hget s h)) ++ h_wq (hget s h) ++ map fst (h_cq (hget s h))) ++ [r]).
    + apply Permutation_cons_append.
    + rewrite <- !app_assoc. apply Permutation_refl.
  - destruct (q_ty _ _ (proj1 R) h Hv) as (T1 & T2). cbn. split; [|exact T2].
    intros H. destruct (T1 H). auto.
Qed.

Lemma qreqs_nil x :
  h_conn x = None -> h_wq x = [] -> h_cq x = [] -> h_shut x = None -> qreqs x = [].
Proof. unfold qreqs. intros -> -> -> ->. reflexivity. Qed.

Lemma qf_nil x t : qf x = (None, [], [], None, t) -> qreqs x = [].
Proof. unfold qf. intros E. injection E as E1 E2 E3 E4 E5. apply qreqs_nil; assumption. Qed.

(* CLOSED, close callback, callback body *)
Lemma deliver_close_R h rest s beh :
  Inv (CH h :: rest) s -> RInv [] s -> qreqs (hget s h) = [] -> RInv [] (deliver_close s beh h).
Proof.
  intros I [Q R] E. destruct (head_facts _ _ _ I) as (Hv & Hcl & Hd & Hx & Hn & Hnd).
  pose proof (j_h _ _ I h Hv) as K.
  unfold deliver_close. rewrite (k_led _ _ _ _ K Hcl). cbn [emit_leaks]. unfold ccallback.
  set (s1 := upd_h s h (w_closed true)).
  assert (I2 : Inv rest (set_ncb (emit s1 (ECloseCb h)) (S (ncb s1)))).
  { apply Inv_ext with (s := emit s1 (ECloseCb h)); auto. apply Inv_close. exact I. }
  apply capis_R with (dl := rest); [exact I2|].
  apply RInv_ext with (s := emit s1 (ECloseCb h)); auto.
  assert (G : forall h', qf (hget s1 h') = qf (hget s h')).
  { intros h'. unfold s1. rewrite hget_upd. destruct (Nat.eqb h h' && hvalid s h) eqn:B; [|reflexivity].
    apply andb_prop in B. destruct B as [B _]. apply Nat.eqb_eq in B. subst. reflexivity. }
  assert (PE : forall r, pending [] s1 r <-> pending [] s r).
  { intros r. unfold pending. split; intros [H|(h' & Hv' & Hr)]; auto; right; exists h'.
    - unfold s1 in Hv'. rewrite hvalid_upd in Hv'. split; [exact Hv'|].
      pose proof (G h') as G'. apply qf_eq in G'. destruct G' as (_ & _ & _ & _ & _ & G'). rewrite <- G'. exact Hr.
    - unfold s1. rewrite hvalid_upd. split; [exact Hv'|].
      pose proof (G h') as G'. apply qf_eq in G'. destruct G' as (_ & _ & _ & _ & _ & G'). fold s1. rewrite G'. exact Hr. }
  split.
  - apply QOK_same with (s := s1); [|reflexivity|intros h' Hv'; left; splits; auto].
    unfold s1. apply QOK_upd with (dw := []); auto;
      try (change (qreqs (w_closed true (hget s h))) with (qreqs (hget s h)); rewrite E; constructor; fail);
      try (constructor; fail); try (intros r []); try apply (q_ty _ _ Q h Hv).
  - apply HR_closecb with (s := s); auto.
    intros r k Hin [[]|(h' & Hv' & Hr)].
    pose proof (k_own _ _ _ _ (j_h _ _ I h' Hv') r Hr) as O1.
    pose proof (r_sub _ _ R h r k Hin) as O2.
    assert (h' = h) by congruence. subst h'. rewrite E in Hr. exact Hr.
Qed.

Lemma qreqs_nil_of_type dw s h :
  QOK dw s -> hvalid s h = true -> h_ty (hget s h) <> TStream -> h_ty (hget s h) <> TUdp ->
  qreqs (hget s h) = [].
Proof.
  intros Q Hv A B. destruct (q_ty _ _ Q h Hv) as (T1 & T2).
  destruct (T1 A) as (C1 & C4). destruct (T2 A B) as (C2 & C3). apply qreqs_nil; auto.
Qed.

Lemma ccallback_R_frozen dl s beh r st cl h0 h :
  Inv dl s -> lookup r (owner s) = Some h0 -> h_closed (hget s h0) = false ->
  hvalid s h = true -> h_closing (hget s h) = true ->
  qf (hget (ccallback s beh (EReqCb r st cl)) h) = qf (hget s h).
Proof.
  intros I L Hc Hv Hcl. apply ccallback_frozen with (dl := dl); auto.
  apply Inv_reqcb_pre with (h := h0); auto.
Qed.

Lemma finish_close_R h rest s beh :
  Inv (CH h :: rest) s -> RInv [] s -> RInv [] (finish_close s beh h).
Proof.
  intros I R. destruct (head_facts _ _ _ I) as (Hv & Hcl & Hd & Hx & Hn & Hnd).
  pose proof (j_h _ _ I h Hv) as K.
  unfold finish_close.
  destruct (h_ty (hget s h)) eqn:Ty.
  - apply deliver_close_R with (rest := rest); auto.
    apply qreqs_nil_of_type with (dw := []); [apply R|exact Hv|congruence|congruence].
  - (* stream *)
    set (s1 := cancel_connect s beh h).
    assert (S1 : Step (CH h :: rest) s s1) by (apply cancel_connect_step; auto).
    assert (R1 : RInv [] s1) by (apply cancel_connect_R with (dl := CH h :: rest); auto).
    destruct (Step_valid_open _ _ _ _ S1 Hv Hd) as (V1 & D1).
    assert (C1 : h_closing (hget s1 h) = true) by (destruct S1 as [_ [F _]]; apply (F h Hv); exact Hcl).
    assert (E1 : h_conn (hget s1 h) = None).
    { unfold s1, cancel_connect. destruct (h_conn (hget s h)) as [r|] eqn:Ec; [|exact Ec].
      assert (Iu : Inv (CH h :: rest) (upd_h s h (w_conn None))).
      { apply Inv_upd; auto. eapply HOK_frame; eauto.
        - intros r'. rewrite !in_qreqs. cbn. intros [H|H]; [discriminate|auto].
        - apply (k_led _ _ _ _ K). }
      pose proof (ccallback_R_frozen (CH h :: rest) (upd_h s h (w_conn None)) beh r UV_ECANCELED true h h Iu) as F.
      rewrite hvalid_upd, hget_upd_same in F by exact Hv.
      assert (Lr : lookup r (owner s) = Some h) by (apply (k_own _ _ _ _ K); apply in_qreqs; auto).
      specialize (F Lr Hd Hv Hcl). apply qf_eq in F. destruct F as (F1 & _). rewrite F1. reflexivity. }
    set (s2 := flush_and_run s1 beh h).
    assert (S2 : Step (CH h :: rest) s1 s2) by (apply flush_and_run_step; auto; apply S1).
    assert (R2 : RInv [] s2) by (apply flush_and_run_R with (dl := CH h :: rest); auto; apply S1).
    destruct (flush_and_run_empty (CH h :: rest) s1 beh h (proj1 S1) V1 C1 D1) as (W2 & Q2 & N2 & H2 & T2).
    fold s2 in W2, Q2, N2, H2, T2.
    destruct (Step_valid_open _ _ _ _ S2 V1 D1) as (V2 & D2).
    assert (C2 : h_closing (hget s2 h) = true) by (destruct S2 as [_ [F _]]; apply (F h V1); exact C1).
    set (s3 := drain_closing s2 beh h).
    assert (S3 : Step (CH h :: rest) s2 s3) by (apply drain_closing_step; auto; apply S2).
    assert (R3 : RInv [] s3) by (apply drain_closing_R with (dl := CH h :: rest); auto; apply S2).
    apply deliver_close_R with (rest := rest); [apply S3|exact R3|].
    assert (Q3 : qf (hget s3 h) = (None, [], [], None, h_ty (hget s2 h)) ).
    { unfold s3, drain_closing. destruct (h_shut (hget s2 h)) as [r|] eqn:Es.
      - assert (K2 := j_h _ _ (proj1 S2) h V2).
        assert (Iu : Inv (CH h :: rest) (upd_h s2 h (w_shut None))).
        { apply Inv_upd; [apply S2|exact V2|]. eapply HOK_frame; eauto.
          - intros r'. rewrite !in_qreqs. cbn. intros [H|[H|[H|H]]]; auto. discriminate.
          - apply (k_led _ _ _ _ K2). }
        pose proof (ccallback_R_frozen (CH h :: rest) (upd_h s2 h (w_shut None)) beh r UV_ECANCELED true h h Iu) as F.
        rewrite hvalid_upd, hget_upd_same in F by exact V2.
        assert (Lr : lookup r (owner s2) = Some h) by (apply (k_own _ _ _ _ K2); apply in_qreqs; auto).
        specialize (F Lr D2 V2 C2). rewrite F. unfold qf. cbn. rewrite N2, E1, W2, Q2. reflexivity.
      - unfold qf. rewrite N2, E1, W2, Q2, Es. reflexivity. }
    apply (qf_nil _ _ Q3).
  - (* udp *)
    set (s2 := flush_and_run s beh h).
    assert (S2 : Step (CH h :: rest) s s2) by (apply flush_and_run_step; auto).
    assert (R2 : RInv [] s2) by (apply flush_and_run_R with (dl := CH h :: rest); auto).
    destruct (flush_and_run_empty (CH h :: rest) s beh h I Hv Hcl Hd) as (W2 & Q2 & N2 & H2 & T2).
    fold s2 in W2, Q2, N2, H2, T2.
    apply deliver_close_R with (rest := rest); [apply S2|exact R2|].
    destruct (q_ty _ _ (proj1 R) h Hv) as (T1 & _). destruct (T1 ltac:(congruence)) as (A1 & A2).
    apply qreqs_nil; congruence.
  - (* signal *)
    destruct (0 <? h_sigpend (hget s h)).
    + apply RInv_plain with (s := s) (l := [ETouch h]); auto.
      * constructor; [|constructor]. unfold plain. splits; intros; try reflexivity; discriminate.
      * apply QFS_hs. reflexivity.
    + apply deliver_close_R with (rest := rest); auto.
      apply qreqs_nil_of_type with (dw := []); [apply R|exact Hv|congruence|congruence].
  - apply deliver_close_R with (rest := rest); auto.
    apply qreqs_nil_of_type with (dw := []); [apply R|exact Hv|congruence|congruence].
Qed.

Lemma plain_touch h : plain (ETouch h).
Proof. unfold plain. splits; intros; try reflexivity; discriminate. Qed.

Lemma fp_timer_closed_QFS s h c : QFS s (fp_timer_closed s h c).
Proof.
  unfold fp_timer_closed. destruct (h_ctxs (hget s h)) as [|c0 rest]; [apply QFS_refl|].
  destruct (Nat.eqb (c_id c0) c); [|apply QFS_upd; reflexivity].
  destruct rest; [destruct (h_closing (hget s h))|]; try (apply QFS_upd; reflexivity).
Qed.

Lemma fp_timer_closed_misc s h c :
  hist (fp_timer_closed s h c) = hist s /\ owner (fp_timer_closed s h c) = owner s /\
  forall h', h_closed (hget (fp_timer_closed s h c) h') = h_closed (hget s h').
Proof.
  unfold fp_timer_closed. destruct (h_ctxs (hget s h)) as [|c0 rest]; [auto|].
  assert (G : forall g h', (forall x, h_closed (g x) = h_closed x) ->
                h_closed (hget (upd_h s h g) h') = h_closed (hget s h')).
  { intros g h' Hg. rewrite hget_upd. destruct (Nat.eqb h h' && hvalid s h) eqn:B; [|reflexivity].
    apply andb_prop in B. destruct B as [B _]. apply Nat.eqb_eq in B. subst. apply Hg. }
  destruct (Nat.eqb (c_id c0) c).
  - destruct rest; [destruct (h_closing (hget s h))|]; splits; auto; try (intros h'; apply G; reflexivity).
  - splits; auto; try (intros h'; apply G; reflexivity).
Qed.

Lemma run_closing_R beh l : forall s, Inv l s -> RInv [] s -> RInv [] (run_closing l s beh).
Proof.
  induction l as [|[h|h c] l IH]; intros s I R; cbn [run_closing]; [exact R|..].
  - apply IH; [apply finish_close_inv; exact I|apply finish_close_R with (rest := l); auto].
  - assert (Hv : hvalid s h = true) by (apply (j_valid _ _ I (CT h c)); left; reflexivity).
    assert (I1 : Inv (CT h c :: l) (emit s (ETouch h))).
    { apply Inv_emit; auto; try discriminate. intros h' [Ha|(r & Hr & _)]; discriminate. }
    apply IH.
    + apply fp_timer_closed_inv; [|exact Hv]. apply Inv_drop_ct with (h := h) (c := c). exact I1.
    + destruct (fp_timer_closed_misc (emit s (ETouch h)) h c) as (A & B & C).
      apply RInv_plain with (s := s) (l := [ETouch h]); auto.
      * constructor; [apply plain_touch|constructor].
      * eapply QFS_trans; [|apply fp_timer_closed_QFS]. apply QFS_hs. reflexivity.
      * intros h' _. rewrite C. auto.
Qed.

Lemma plain_hcb h : plain (EHCb h).
Proof. unfold plain. splits; intros; try reflexivity; discriminate. Qed.

Lemma h_cb_R s beh h : Inv [] s -> RInv [] s -> RInv [] (h_cb s beh h).
Proof.
  intros I R. unfold h_cb. destruct (hvalid s h && negb (h_closed (hget s h))) eqn:U; [|exact R].
  apply andb_prop in U. destruct U as [Hv Hd]. apply negb_true_iff in Hd.
  unfold ccallback. apply capis_R with (dl := []).
  - apply Inv_ext with (s := emit s (EHCb h)); auto. apply Inv_emit; auto; try discriminate.
    intros h' [Ha|(r & Hr & _)] _; [|discriminate]. simpl in Ha. inversion Ha; subst. exact Hd.
  - apply RInv_plain with (s := s) (l := [EHCb h]); auto.
    + constructor; [apply plain_hcb|constructor].
    + apply QFS_hs. reflexivity.
Qed.

Lemma fp_stat_R s h : RInv [] s -> RInv [] (fp_stat s h).
Proof.
  intros R. unfold fp_stat.
  match goal with |- RInv _ (if ?c then _ else _) => destruct c end; [|exact R].
  set (s0 := emit (emit s (ETouch h)) (EIn (OFpStat h))).
  assert (P : Forall plain [EIn (OFpStat h); ETouch h]).
  { constructor; [apply plain_op; intros; discriminate|constructor; [apply plain_touch|constructor]]. }
  assert (G : forall l h', h_closed (hget (upd_h s0 h (w_ctxs l)) h') = h_closed (hget s h')).
  { intros l h'. rewrite hget_upd. destruct (Nat.eqb h h' && hvalid s0 h) eqn:B; [|reflexivity].
    apply andb_prop in B. destruct B as [B _]. apply Nat.eqb_eq in B. subst. reflexivity. }
  destruct (stat_done _ _ _) as [l [[c [|]]|]].
  - apply RInv_plain with (s := s) (l := [EIn (OFpStat h); ETouch h]); auto.
    + eapply QFS_trans; [apply QFS_upd_hs with (s' := upd_h s0 h (w_ctxs l)) (h := h) (f := w_ctxs l); reflexivity|apply QFS_hs; reflexivity].
    + intros h' _ H. change (hget (push_clq ?x ?e) h') with (hget x h') in H. rewrite G in H. exact H.
  - apply RInv_plain with (s := s) (l := [EIn (OFpStat h); ETouch h]); auto.
    + apply QFS_upd_hs with (h := h) (f := w_ctxs l); reflexivity.
    + intros h' _ H. rewrite G in H. exact H.
  - apply RInv_plain with (s := s) (l := [EIn (OFpStat h); ETouch h]); auto.
    + apply QFS_upd_hs with (h := h) (f := w_ctxs l); reflexivity.
    + intros h' _ H. rewrite G in H. exact H.
Qed.

Lemma req_cb_R s beh r st : Inv [] s -> RInv [] s -> RInv [] (req_cb s beh r st).
Proof.
  intros I R. unfold req_cb.
  destruct (lookup r (owner s)) as [h|] eqn:Lr; [|exact R].
  destruct (usable s h) eqn:U; [|exact R].
  apply usable_valid in U. destruct U as [Hv Hc].
  pose proof (j_h _ _ I h Hv) as K.
  assert (Hd : h_closed (hget s h) = false) by (eapply HOK_not_closing; eauto).
  destruct (q_ty _ _ (proj1 R) h Hv) as (T1 & T2).
  destruct (opt_is (h_conn (hget s h)) r) eqn:E1.
  - apply opt_is_true in E1.
    assert (S1 : Step [] s (ccallback (upd_h s h (w_conn None)) beh (EReqCb r st false))).
    { apply drop_req_step; auto.
      - apply in_qreqs. auto.
      - intros r'. rewrite !in_qreqs. cbn. intros [H|H]; [discriminate|auto]. }
    assert (R1 : RInv [] (ccallback (upd_h s h (w_conn None)) beh (EReqCb r st false))).
    { apply drop_req_R with (dl := []); auto.
      - unfold qreqs. cbn. rewrite E1. apply Permutation_refl.
      - cbn. split; [|exact T2]. intros H. destruct (T1 H). auto. }
    destruct (Step_valid_open _ _ _ _ S1 Hv Hd) as (V1 & D1).
    match goal with |- RInv _ (if ?c then _ else _) => destruct c end; [|exact R1].
    apply flush_and_run_R with (dl := []); auto. apply S1.
  - destruct (opt_is (h_shut (hget s h)) r) eqn:E2; [|exact R].
    apply opt_is_true in E2.
    apply drop_req_R with (dl := []); auto.
    + unfold qreqs. cbn. rewrite E2. simpl. rewrite app_nil_r.
      apply Permutation_trans with (l' := (oreq (h_conn (hget s h)) ++ h_wq (hget s h) ++ map fst (h_cq (hget s h))) ++ [r]).
      * apply Permutation_cons_append.
      * rewrite <- !app_assoc. apply Permutation_refl.
    + cbn. split; [|exact T2]. intros H. destruct (T1 H). auto.
Qed.

Lemma batch_R s beh h : Inv [] s -> RInv [] s -> RInv [] (batch s beh h).
Proof.
  intros I R. unfold batch.
  match goal with |- RInv _ (if ?c then _ else _) => destruct c eqn:U end; [|exact R].
  apply andb_prop in U. destruct U as [U _]. apply usable_valid in U. destruct U as [Hv Hc].
  pose proof (j_h _ _ I h Hv) as K.
  assert (Hd : h_closed (hget s h) = false) by (eapply HOK_not_closing; eauto).
  destruct (h_cq (hget s h)) as [|p pq] eqn:Eq; [exact R|].
  set (se := emit s (EIn (OBatch h))).
  assert (Ie : Inv [] se) by (apply Inv_emit_op with (h := h); auto).
  assert (Re : RInv [] se).
  { apply RInv_plain with (s := s) (l := [EIn (OBatch h)]); auto.
    - constructor; [apply plain_op; intros; discriminate|constructor].
    - apply QFS_hs. reflexivity. }
  set (s0 := upd_h se h (w_cq [])).
  assert (I0 : Inv [] s0).
  { unfold s0. apply Inv_upd; auto. eapply HOK_frame; [apply (j_h _ _ Ie h Hv)|..]; auto.
    - intros r. rewrite !in_qreqs. cbn. tauto.
    - apply (k_led _ _ _ _ (j_h _ _ Ie h Hv)). }
  assert (R0 : RInv (map fst (p :: pq) ++ []) s0).
  { unfold s0. apply detach_R with (dl := []); auto.
    - change (hget se h) with (hget s h). unfold qreqs. cbn [h_conn h_wq h_cq h_shut w_cq]. rewrite Eq.
      apply (perm_batch (h_conn (hget s h)) (h_wq (hget s h)) (map fst (p :: pq)) (oreq (h_shut (hget s h)))).
    - change (hget se h) with (hget s h). destruct (q_ty _ _ (proj1 R) h Hv) as (T1 & T2). cbn. split; auto.
      intros A B. destruct (T2 A B) as (W & _). auto. }
  assert (V0 : hvalid s0 h = true) by (unfold s0; rewrite hvalid_upd; exact Hv).
  assert (D0 : h_closed (hget s0 h) = false).
  { unfold s0. rewrite hget_upd_same by exact Hv. exact Hd. }
  assert (Ho : forall r st, In (r, st) (p :: pq) -> lookup r (owner s0) = Some h).
  { intros r st H. change (owner s0) with (owner s).
    apply (k_own _ _ _ _ K). apply in_qreqs. right. right. left. rewrite Eq.
    apply in_map_iff. exists (r, st). auto. }
  assert (S1 : Step [] s0 (run_cq (p :: pq) h s0 beh)) by (apply run_cq_step; auto).
  assert (R1 : RInv [] (run_cq (p :: pq) h s0 beh)) by (apply run_cq_R with (dl := []); auto).
  destruct (Step_valid_open _ _ _ _ S1 V0 D0) as (V1 & D1).
  match goal with |- RInv _ (if ?c then _ else _) => destruct c end; [|exact R1].
  apply drain_closing_R with (dl := []); auto. apply S1.
Qed.

Lemma cstep_R s beh o : Inv [] s -> RInv [] s -> RInv [] (cstep s beh o).
Proof.
  intros I R. destruct o; cbn [cstep]; try (apply capi_R with (dl := []); assumption).
  - apply req_cb_R; auto.
  - apply batch_R; auto.
  - apply h_cb_R; auto.
  - apply fp_stat_R; auto.
  - assert (Ie : Inv [] (emit s (EIn OPhase))).
    { apply Inv_emit; auto; try discriminate. intros h [Ha|(r & Hr & _)]; discriminate. }
    apply run_closing_R.
    + change (clq s) with (clq (emit s (EIn OPhase))). apply Inv_detach. exact Ie.
    + apply RInv_plain with (s := s) (l := [EIn OPhase]); auto.
      * constructor; [apply plain_op; intros; discriminate|constructor].
      * apply QFS_hs. reflexivity.
Qed.

Lemma crun_R beh os : forall s, Inv [] s -> RInv [] s -> RInv [] (crun s os beh).
Proof.
  induction os as [|o os IH]; intros s I R; cbn [crun]; auto.
  apply IH; [apply cstep_inv; exact I|apply cstep_R; auto].
Qed.

Theorem reachable_rinv os beh : RInv [] (crun cinit os beh).
Proof. apply crun_R; [apply Inv_init|apply RInv_init]. Qed.

(* at CloseCb h every request accepted on h has had exactly one callback *)
Theorem requests_first_exactly_once os beh pre h post r k :
  ctrace os beh = pre ++ ECloseCb h :: post ->
  In (EIn (OSubmit h r k)) pre -> cnt r pre = 1%nat.
Proof.
  intros Ht Hin. apply trace_split_hist in Ht.
  destruct (reachable_rinv os beh) as [_ R].
  rewrite <- cnt_rev. apply (r_good _ _ R (rev post) h (rev pre) Ht r k).
  apply in_rev in Hin. exact Hin.
Qed.

(* ================================================================== *)
(* the status of a callback delivered while the handle is closing     *)
(* ================================================================== *)
Definition nodone_fields (x : hst) (r : nat) : Prop :=
  h_conn x = Some r \/ In r (h_wq x) \/ h_shut x = Some r.

Record SInv (dws : list (nat * Z)) (s : cstate) : Prop := {
  s_cq : forall h r st, hvalid s h = true -> In (r, st) (h_cq (hget s h)) -> In (EIn (ODone r st)) (hist s);
  s_dw : forall r st, In (r, st) dws ->
         In (EIn (ODone r st)) (hist s) \/ (st = UV_ECANCELED /\ ~ done_in r (hist s));
  s_nodone : forall h r, hvalid s h = true -> nodone_fields (hget s h) r -> ~ done_in r (hist s);
  s_st : forall later r st earlier, hist s = later ++ EReqCb r st true :: earlier ->
         (exists st', In (EIn (ODone r st')) earlier /\ mapped st st') \/
         (~ done_in r earlier /\ st = UV_ECANCELED)
}.

Lemma SInv_init : SInv [] cinit.
Proof.
  constructor; simpl.
  - intros h r st H. destruct (hvalid_cinit h H).
  - intros r st [].
  - intros h r H. destruct (hvalid_cinit h H).
  - intros later r st earlier H. destruct later; discriminate.
Qed.

Definition splain (e : cev) : Prop :=
  (forall r st, e <> EIn (ODone r st)) /\ (forall r st, e <> EReqCb r st true).

Lemma done_in_app_plain l H r : Forall splain l -> (done_in r (l ++ H) <-> done_in r H).
Proof.
  intros P. unfold done_in. split; intros (st & Hin); exists st.
  - apply in_app_or in Hin. destruct Hin as [Hin|Hin]; [|exact Hin].
    rewrite Forall_forall in P. destruct (P _ Hin) as (A & _). exfalso. eapply A; eauto.
  - apply in_or_app. auto.
Qed.

(* history grows by events that are neither completions nor callbacks on a
   closing handle; completed queues stay, the not-completed fields shrink or
   stay; the detached list shrinks or stays *)
Lemma SInv_keep dws dws' s s' l :
  SInv dws s -> hist s' = l ++ hist s -> Forall splain l ->
  (forall p, In p dws' -> In p dws) ->
  (forall h, hvalid s' h = true ->
     (hvalid s h = true /\ (forall p, In p (h_cq (hget s' h)) -> In p (h_cq (hget s h))) /\
      (forall r, nodone_fields (hget s' h) r -> nodone_fields (hget s h) r \/ ~ done_in r (hist s))) \/
     (h_cq (hget s' h) = [] /\ forall r, ~ nodone_fields (hget s' h) r)) ->
  SInv dws' s'.
Proof.
  intros S A P D X. destruct S. constructor.
  - intros h r st Hv Hin. rewrite A. apply in_or_app. right.
    destruct (X h Hv) as [(V & C & _)|(C & _)]; [eauto|rewrite C in Hin; destruct Hin].
  - intros r st Hin. rewrite A. destruct (s_dw0 r st (D _ Hin)) as [H|(H1 & H2)].
    + left. apply in_or_app. auto.
    + right. split; [exact H1|]. rewrite done_in_app_plain by exact P. exact H2.
  - intros h r Hv Hn. rewrite A, done_in_app_plain by exact P.
    destruct (X h Hv) as [(V & _ & N)|(_ & N)]; [|exfalso; eapply N; eauto].
    destruct (N r Hn) as [H|H]; [eauto|exact H].
  - intros later r st earlier Hs. rewrite A in Hs.
    destruct (list_split_mid l (hist s) later (EReqCb r st true) earlier Hs) as [(m & E1 & E2)|(m & E1 & E2)].
    + exfalso. rewrite Forall_forall in P.
      assert (Hin : In (EReqCb r st true) l) by (rewrite E1; apply in_or_app; right; left; reflexivity).
      destruct (P _ Hin) as (_ & B). eapply B; eauto.
    + apply (s_st0 m r st earlier E2).
Qed.

(* a callback on a closing handle with the status the invariant prescribes *)
Lemma SInv_emit_true dws dws' s s1 r st :
  SInv dws s -> hist s1 = hist s ->
  ((exists st', In (EIn (ODone r st')) (hist s) /\ mapped st st') \/
   (~ done_in r (hist s) /\ st = UV_ECANCELED)) ->
  (forall p, In p dws' -> In p dws) ->
  (forall h, hvalid s1 h = true ->
     hvalid s h = true /\ (forall p, In p (h_cq (hget s1 h)) -> In p (h_cq (hget s h))) /\
     (forall r', nodone_fields (hget s1 h) r' -> nodone_fields (hget s h) r')) ->
  SInv dws' (emit s1 (EReqCb r st true)).
Proof.
  intros S A ST D X. destruct S.
  assert (DI : forall r', done_in r' (EReqCb r st true :: hist s) <-> done_in r' (hist s)).
  { intros r'. unfold done_in. split; intros (st' & H); exists st'; [destruct H as [H|H]; [discriminate|exact H]|right; exact H]. }
  constructor; cbn [hist emit]; rewrite ?A.
  - intros h r' st' Hv Hin. right. destruct (X h Hv) as (V & C & _). eauto.
  - intros r' st' Hin. destruct (s_dw0 r' st' (D _ Hin)) as [H|(H1 & H2)]; [left; right; exact H|].
    right. split; [exact H1|]. rewrite DI. exact H2.
  - intros h r' Hv Hn. rewrite DI. destruct (X h Hv) as (V & _ & N). eauto.
  - intros later r' st' earlier Hs. destruct later as [|x later]; simpl in Hs.
    + inversion Hs; subst. exact ST.
    + inversion Hs; subst x. eapply s_st0; eauto.
Qed.

Lemma qf_fields x y : qf x = qf y ->
  (forall p, In p (h_cq x) -> In p (h_cq y)) /\ (forall r, nodone_fields x r -> nodone_fields y r).
Proof.
  intros E. apply qf_eq in E. destruct E as (E1 & E2 & E3 & E4 & _). unfold nodone_fields.
  rewrite E1, E2, E3, E4. auto.
Qed.

Lemma splain_op o : (forall r st, o <> ODone r st) -> splain (EIn o).
Proof. intros H. split; intros r st E; [inversion E; eapply H; eauto|discriminate]. Qed.

Lemma SInv_plain dws s s' l :
  SInv dws s -> hist s' = l ++ hist s -> Forall splain l -> QFS s s' -> SInv dws s'.
Proof.
  intros S A P F. apply SInv_keep with (dws := dws) (s := s) (l := l); auto.
  intros h Hv. left. destruct (QFS_get _ _ F h) as (G1 & G2). rewrite G1 in Hv.
  destruct (qf_fields _ _ G2) as (C & N). splits; auto.
Qed.

Lemma capi_S dl dws s o :
  Inv dl s -> RInv (map fst dws) s -> SInv dws s -> SInv dws (capi s o).
Proof.
  intros I [Q R] S. destruct (queue_op o) eqn:QO.
  2:{ assert (ND : forall r st, o <> ODone r st) by (intros r st ->; discriminate).
      destruct (capi_hist s o) as [H|H].
      - apply SInv_plain with (s := s) (l := []); auto. apply capi_QFS; exact QO.
      - apply SInv_plain with (s := s) (l := [EIn o]); auto.
        + constructor; [apply splain_op; exact ND|constructor].
        + apply capi_QFS; exact QO. }
  destruct o; try discriminate; cbn [capi].
  - (* OInit *)
    set (x := mkHS t false false None [] [] None [] 0 false []).
    apply SInv_keep with (dws := dws) (s := s) (l := [EIn (OInit t)]); auto.
    + constructor; [apply splain_op; intros; discriminate|constructor].
    + intros h Hv. change (hvalid (set_hs s (hs s ++ [x])) h = true) in Hv.
      change (hget (emit (set_hs s (hs s ++ [x])) (EIn (OInit t))) h) with (hget (set_hs s (hs s ++ [x])) h).
      destruct (hvalid s h) eqn:E.
      * left. rewrite hget_app_old by exact E. splits; auto.
      * right. apply hvalid_lt in Hv. cbn [hs set_hs] in Hv. rewrite app_length in Hv. simpl in Hv.
        unfold hvalid in E. apply Nat.ltb_ge in E. assert (h = length (hs s)) by lia. subst h.
        rewrite hget_app_new. unfold x, nodone_fields. cbn. split; [reflexivity|].
        intros r [H|[H|H]]; try discriminate. destruct H.
  - (* OSubmit *)
    destruct (usable s h && match lookup r (owner s) with None => true | Some _ => false end) eqn:U; [|exact S].
    apply andb_prop in U. destruct U as [U Fr]. apply usable_valid in U. destruct U as [Hv Hc].
    destruct (lookup r (owner s)) eqn:Lr; [discriminate|].
    assert (NDr : ~ done_in r (hist s)).
    { intros (st & H). apply (j_ro _ _ I _ r H); [reflexivity|exact Lr]. }
    assert (GEN : forall f,
              h_cq (f (hget s h)) = h_cq (hget s h) ->
              (forall r', nodone_fields (f (hget s h)) r' -> nodone_fields (hget s h) r' \/ r' = r) ->
              SInv dws (emit (upd_h (set_owner s ((r, h) :: owner s)) h f) (EIn (OSubmit h r kind)))).
    { intros f Fc Fn.
      apply SInv_keep with (dws := dws) (s := s) (l := [EIn (OSubmit h r kind)]); auto.
      - constructor; [apply splain_op; intros; discriminate|constructor].
      - intros h' Hv'. left.
        change (hvalid (upd_h (set_owner s ((r, h) :: owner s)) h f) h' = true) in Hv'. rewrite hvalid_upd in Hv'.
        change (hget (emit ?a ?e) h') with (hget a h').
        split; [exact Hv'|]. destruct (Nat.eq_dec h h') as [<-|Hne].
        + rewrite hget_upd_same by exact Hv. change (hget (set_owner s ((r, h) :: owner s)) h) with (hget s h).
          split; [rewrite Fc; auto|]. intros r' Hn. destruct (Fn r' Hn) as [H | ->]; auto.
        + rewrite hget_upd_other by exact Hne. auto. }
    destruct kind as [|[|[|[|kind]]]]; destruct (h_ty (hget s h)) eqn:Ty; try exact S.
    + destruct (h_conn (hget s h)) eqn:Ec; [exact S|]. apply GEN; [reflexivity|].
      unfold nodone_fields. cbn. intros r' [H|[H|H]]; auto. inversion H. auto.
    + apply GEN; [reflexivity|]. unfold nodone_fields. cbn. intros r' [H|[H|H]]; auto.
      apply in_app_or in H. destruct H as [H|[H|[]]]; auto.
    + destruct (h_shut (hget s h)) eqn:Ec; [exact S|]. apply GEN; [reflexivity|].
      unfold nodone_fields. cbn. intros r' [H|[H|H]]; auto. inversion H. auto.
    + apply GEN; [reflexivity|]. unfold nodone_fields. cbn. intros r' [H|[H|H]]; auto.
      apply in_app_or in H. destruct H as [H|[H|[]]]; auto.
  - (* ODone *)
    destruct (lookup r (owner s)) as [h|] eqn:Lr; [|exact S].
    destruct (h_wq (hget s h)) as [|r' rest] eqn:Ew; [exact S|].
    destruct (Nat.eqb r r' && usable s h) eqn:U; [|exact S].
    apply andb_prop in U. destruct U as [Er U]. apply Nat.eqb_eq in Er. subst r'.
    apply usable_valid in U. destruct U as [Hv Hc].
    set (f := fun x => w_cq (h_cq x ++ [(r, st)]) (w_wq rest x)).
    assert (Hq : In r (qreqs (hget s h))) by (apply in_qreqs; right; left; rewrite Ew; left; reflexivity).
    assert (ND0 : ~ done_in r (hist s)).
    { apply (s_nodone _ _ S h r Hv). right. left. rewrite Ew. left. reflexivity. }
    pose proof (q_nd _ _ Q h Hv) as NDq.
    (* r occurs nowhere else *)
    assert (OTHER : forall h' r', hvalid s h' = true ->
              nodone_fields (hget (upd_h s h f) h') r' -> r' <> r /\ nodone_fields (hget s h') r').
    { intros h' r' Hv' Hn. destruct (Nat.eq_dec h h') as [<-|Hne].
      - rewrite hget_upd_same in Hn by exact Hv. unfold nodone_fields, f in Hn. cbn in Hn.
        assert (Hin : In r' (oreq (h_conn (hget s h)) ++ rest ++ map fst (h_cq (hget s h)) ++ oreq (h_shut (hget s h)))).
        { rewrite !in_app_iff. unfold oreq. destruct Hn as [H|[H|H]]; [rewrite H; left; left; reflexivity|auto|rewrite H; right; right; right; left; reflexivity]. }
        assert (NDs : NoDup (r :: oreq (h_conn (hget s h)) ++ rest ++ map fst (h_cq (hget s h)) ++ oreq (h_shut (hget s h)))).
        { apply (Permutation_NoDup (l := qreqs (hget s h))); [|exact NDq].
          unfold qreqs. rewrite Ew. simpl. apply perm_mid. }
        inversion NDs; subst. split; [intros ->; contradiction|].
        unfold nodone_fields. rewrite Ew. destruct Hn as [H|[H|H]]; auto. right. left. right. exact H.
      - rewrite hget_upd_other in Hn by exact Hne. split; [|exact Hn].
        intros ->. apply Hne. eapply same_owner_same_handle with (r := r); eauto.
        apply in_qreqs. destruct Hn as [H|[H|H]]; auto. }
    assert (DI : forall r', r' <> r -> (done_in r' (EIn (ODone r st) :: hist s) <-> done_in r' (hist s))).
    { intros r' Hne. unfold done_in. split; intros (st' & H); exists st'.
      - destruct H as [H|H]; [inversion H; congruence|exact H].
      - right. exact H. }
    destruct S. constructor; cbn [hist emit].
    + intros h' r' st' Hv' Hin. change (hvalid (upd_h s h f) h' = true) in Hv'. rewrite hvalid_upd in Hv'.
      change (hget (emit ?a ?e) h') with (hget a h') in Hin.
      destruct (Nat.eq_dec h h') as [<-|Hne].
      * rewrite hget_upd_same in Hin by exact Hv. unfold f in Hin. cbn in Hin. apply in_app_or in Hin.
        destruct Hin as [Hin|[Hin|[]]]; [right; eauto|left; inversion Hin; reflexivity].
      * rewrite hget_upd_other in Hin by exact Hne. right. eauto.
    + intros r' st' Hin. destruct (s_dw0 r' st' Hin) as [H|(H1 & H2)]; [left; right; exact H|].
      right. split; [exact H1|]. rewrite DI; [exact H2|]. intros ->.
      destruct (q_dw _ _ Q r) as (_ & D2); [apply in_map_iff; exists (r, st'); auto|]. apply (D2 h Hv Hq).
    + intros h' r' Hv' Hn. change (hvalid (upd_h s h f) h' = true) in Hv'. rewrite hvalid_upd in Hv'.
      change (hget (emit ?a ?e) h') with (hget a h') in Hn.
      destruct (OTHER h' r' Hv' Hn) as (Hne & Hn'). rewrite DI by exact Hne. eauto.
    + intros later r' st' earlier Hs. destruct later as [|x later]; simpl in Hs; [discriminate|].
      inversion Hs; subst x. eapply s_st0; eauto.
Qed.

Lemma capis_S dl dws os : forall s,
  Inv dl s -> RInv (map fst dws) s -> SInv dws s -> SInv dws (capis s os).
Proof.
  induction os as [|o os IH]; intros s I R S; cbn [capis]; [exact S|].
  apply IH; [apply (capi_step dl s o I)|apply capi_R with (dl := dl); auto|apply capi_S with (dl := dl); auto].
Qed.

Lemma SInv_ext dws s s' :
  SInv dws s -> hs s' = hs s -> hist s' = hist s -> SInv dws s'.
Proof.
  intros S A C. destruct s, s'; simpl in *; subst. destruct S; constructor; assumption.
Qed.

(* the callback body after a request callback event (the event has been
   accounted for in all three invariants) *)
Lemma body_S dl dws s beh e :
  Inv dl (set_ncb (emit s e) (Datatypes.S (ncb s))) -> RInv (map fst dws) (emit s e) -> SInv dws (emit s e) ->
  SInv dws (ccallback s beh e).
Proof.
  intros I R S. unfold ccallback. apply capis_S with (dl := dl); auto.
  - apply RInv_ext with (s := emit s e); auto.
  - apply SInv_ext with (s := emit s e); auto.
Qed.

Lemma splain_false r st : splain (EReqCb r st false).
Proof. split; intros; discriminate. Qed.

(* the head of the detached list is delivered (closing or not) *)
Lemma dw_deliver_S dl dws s beh r st0 h :
  Inv dl s -> RInv (map fst ((r, st0) :: dws)) s -> SInv ((r, st0) :: dws) s ->
  lookup r (owner s) = Some h -> hvalid s h = true -> h_closed (hget s h) = false ->
  SInv dws (ccallback s beh (EReqCb r (cbstatus (h_ty (hget s h)) st0) (h_closing (hget s h)))).
Proof.
  intros I R S L Hv Hd.
  set (ev := EReqCb r (cbstatus (h_ty (hget s h)) st0) (h_closing (hget s h))).
  assert (I1 : Inv dl (set_ncb (emit s ev) (Datatypes.S (ncb s)))) by (apply Inv_reqcb_pre with (h := h); auto).
  assert (R1 : RInv (map fst dws) (emit s ev)).
  { simpl in R. pose proof R as [Q _]. pose proof (q_dwnd _ _ Q) as N. inversion N; subst.
    destruct (q_dw _ _ Q r ltac:(left; reflexivity)) as (_ & NQ).
    split.
    - destruct Q. constructor; auto. intros r' Hr. apply q_dw0. right. exact Hr.
    - apply HR_deliver with (dw := r :: map fst dws) (s := s); auto.
      + apply R.
      + congruence.
      + left. left. reflexivity.
      + intros r'. unfold pending. split.
        * intros [H|(h' & Hv' & Hr)].
          -- split; [left; right; exact H|]. intros ->. contradiction.
          -- split; [right; exists h'; auto|]. intros ->. apply (NQ h' Hv' Hr).
        * intros ([[->|H]|H] & Hne); [contradiction|left; exact H|right; exact H]. }
  apply body_S with (dl := dl); auto.
  unfold ev. destruct (h_closing (hget s h)).
  - apply SInv_emit_true with (dws := (r, st0) :: dws) (s := s); auto.
    + destruct (s_dw _ _ S r st0 ltac:(left; reflexivity)) as [H|(H1 & H2)].
      * left. exists st0. split; [exact H|apply cbstatus_mapped].
      * right. split; [exact H2|]. rewrite H1. apply cbstatus_cancel.
    + intros p Hp. right. exact Hp.
  - apply SInv_keep with (dws := (r, st0) :: dws) (s := s) (l := [EReqCb r (cbstatus (h_ty (hget s h)) st0) false]); auto.
    + constructor; [apply splain_false|constructor].
    + intros p Hp. right. exact Hp.
Qed.

Lemma run_cq_S dl beh h l : forall dws s,
  Inv dl s -> RInv (map fst (l ++ dws)) s -> SInv (l ++ dws) s ->
  hvalid s h = true -> h_closed (hget s h) = false ->
  (forall r st, In (r, st) l -> lookup r (owner s) = Some h) ->
  SInv dws (run_cq l h s beh).
Proof.
  induction l as [|[r st] l IH]; intros dws s I R S Hv Hc Ho; cbn [run_cq]; [exact S|].
  set (s1 := ccallback s beh (EReqCb r (cbstatus (h_ty (hget s h)) st) (h_closing (hget s h)))).
  assert (L : lookup r (owner s) = Some h) by (apply (Ho r st); left; reflexivity).
  assert (S1 : Step dl s s1) by (apply reqcb_step with (h := h); auto).
  destruct S1 as [I1 [F1 F2]]. destruct (F1 h Hv) as (V1 & C1 & _).
  apply IH; auto.
  - simpl in R. apply dw_deliver_R with (dl := dl) (h := h); auto.
  - simpl in S. apply dw_deliver_S with (dl := dl); auto.
  - congruence.
  - intros r' st' H. apply F2. apply (Ho r' st'). right. exact H.
Qed.

(* requests move from the queues of h to the detached list with their status *)
Lemma detach_S dws s h f pq :
  SInv dws s -> hvalid s h = true ->
  (forall r st, In (r, st) pq -> In (r, st) (h_cq (hget s h)) \/ (st = UV_ECANCELED /\ In r (h_wq (hget s h)))) ->
  (forall p, In p (h_cq (f (hget s h))) -> In p (h_cq (hget s h))) ->
  (forall r, nodone_fields (f (hget s h)) r -> nodone_fields (hget s h) r) ->
  SInv (pq ++ dws) (upd_h s h f).
Proof.
  intros S Hv P C N. destruct S. constructor.
  - intros h' r st Hv' Hin. rewrite hvalid_upd in Hv'. change (hist (upd_h s h f)) with (hist s).
    destruct (Nat.eq_dec h h') as [<-|Hne].
    + rewrite hget_upd_same in Hin by exact Hv. eauto.
    + rewrite hget_upd_other in Hin by exact Hne. eauto.
  - intros r st Hin. change (hist (upd_h s h f)) with (hist s). apply in_app_or in Hin.
    destruct Hin as [Hin|Hin]; [|auto].
    destruct (P r st Hin) as [H|(H1 & H2)]; [left; eauto|].
    right. split; [exact H1|]. apply (s_nodone0 h r Hv). right. left. exact H2.
  - intros h' r Hv' Hn. rewrite hvalid_upd in Hv'. change (hist (upd_h s h f)) with (hist s).
    destruct (Nat.eq_dec h h') as [<-|Hne].
    + rewrite hget_upd_same in Hn by exact Hv. eauto.
    + rewrite hget_upd_other in Hn by exact Hne. eauto.
  - exact s_st0.
Qed.

Lemma in_cancelled_inv r st l : In (r, st) (cancelled l) -> st = UV_ECANCELED /\ In r l.
Proof. unfold cancelled. rewrite in_map_iff. intros (x & E & H). inversion E; subst. auto. Qed.

Lemma flush_and_run_S dl s beh h :
  Inv dl s -> RInv [] s -> SInv [] s -> hvalid s h = true -> h_closed (hget s h) = false ->
  SInv [] (flush_and_run s beh h).
Proof.
  intros I R S Hv Hd. unfold flush_and_run. pose proof (j_h _ _ I h Hv) as K.
  set (f := fun x => w_cq [] (w_wq [] x)).
  set (pq := h_cq (hget s h) ++ cancelled (h_wq (hget s h))).
  assert (I1 : Inv dl (upd_h s h f)).
  { apply Inv_upd; auto. eapply HOK_frame; eauto.
    - intros r. rewrite !in_qreqs. unfold f. cbn. tauto.
    - apply (k_led _ _ _ _ K). }
  assert (R1 : RInv (map fst (pq ++ [])) (upd_h s h f)).
  { rewrite app_nil_r. unfold pq. rewrite map_app, map_fst_cancelled.
    rewrite <- (app_nil_r (map fst (h_cq (hget s h)) ++ h_wq (hget s h))).
    apply detach_R with (dl := dl); auto.
    - unfold qreqs, f. cbn. apply perm_flush.
    - destruct (q_ty _ _ (proj1 R) h Hv) as (T1 & T2). unfold f. cbn. split; auto. }
  apply run_cq_S with (dl := dl); auto.
  - apply detach_S; auto.
    + intros r st H. unfold pq in H. apply in_app_or in H. destruct H as [H|H]; [left; exact H|right].
      apply in_cancelled_inv. exact H.
    + unfold f. cbn. intros p [].
    + unfold f, nodone_fields. cbn. intros r [H|[[]|H]]; auto.
  - rewrite hvalid_upd. exact Hv.
  - rewrite hget_upd_same by exact Hv. exact Hd.
  - intros r st H. change (owner (upd_h s h f)) with (owner s).
    apply (k_own _ _ _ _ K). apply in_qreqs. unfold pq in H. apply in_app_or in H. destruct H as [H|H].
    + right. right. left. apply in_map_iff. exists (r, st). auto.
    + right. left. eapply in_cancelled; eauto.
Qed.

(* connect / shutdown request of h taken out and called back *)
Lemma drop_req_S dl s beh h f r st cl :
  Inv dl s -> RInv [] s -> SInv [] s -> hvalid s h = true -> h_closed (hget s h) = false ->
  Permutation (r :: qreqs (f (hget s h))) (qreqs (hget s h)) ->
  nodone_fields (hget s h) r ->
  (cl = true -> st = UV_ECANCELED) ->
  h_closing (f (hget s h)) = h_closing (hget s h) -> h_closed (f (hget s h)) = h_closed (hget s h) ->
  h_ctxs (f (hget s h)) = h_ctxs (hget s h) -> h_ty (f (hget s h)) = h_ty (hget s h) ->
  h_ledger (f (hget s h)) = h_ledger (hget s h) ->
  h_cq (f (hget s h)) = h_cq (hget s h) ->
  (forall r', nodone_fields (f (hget s h)) r' -> nodone_fields (hget s h) r') ->
  ((h_ty (f (hget s h)) <> TStream -> h_conn (f (hget s h)) = None /\ h_shut (f (hget s h)) = None) /\
   (h_ty (f (hget s h)) <> TStream -> h_ty (f (hget s h)) <> TUdp ->
    h_wq (f (hget s h)) = [] /\ h_cq (f (hget s h)) = [])) ->
  SInv [] (ccallback (upd_h s h f) beh (EReqCb r st cl)).
Proof.
  intros I R S Hv Hd P Nr CL A B C T L Cq Nf TY. pose proof (j_h _ _ I h Hv) as K.
  assert (Hq : In r (qreqs (hget s h))) by (apply (Permutation_in _ P); left; reflexivity).
  assert (Lr : lookup r (owner s) = Some h) by (apply (k_own _ _ _ _ K r Hq)).
  assert (I1 : Inv dl (upd_h s h f)).
  { apply Inv_upd; auto. eapply HOK_frame; eauto.
    - intros y Hy. apply (Permutation_in _ P). right. exact Hy.
    - rewrite A, L. apply (k_led _ _ _ _ K). }
  set (s1 := upd_h s h f).
  assert (G1 : hget s1 h = f (hget s h)) by (apply hget_upd_same; exact Hv).
  assert (X : forall h', hvalid s1 h' = true ->
                hvalid s h' = true /\ (forall p, In p (h_cq (hget s1 h')) -> In p (h_cq (hget s h'))) /\
                (forall r', nodone_fields (hget s1 h') r' -> nodone_fields (hget s h') r')).
  { intros h' Hv'. unfold s1 in Hv'. rewrite hvalid_upd in Hv'. split; [exact Hv'|].
    destruct (Nat.eq_dec h h') as [<-|Hne].
    - rewrite G1, Cq. auto.
    - unfold s1. rewrite hget_upd_other by exact Hne. auto. }
  assert (Ipre : Inv dl (set_ncb (emit s1 (EReqCb r st cl)) (Datatypes.S (ncb s1)))).
  { apply Inv_reqcb_pre with (h := h); auto. rewrite G1. congruence. }
  assert (Rc : RInv [] (ccallback s1 beh (EReqCb r st cl))) by (apply drop_req_R with (dl := dl); auto).
  (* RInv of the state right after the event: re-derive as in drop_req_R *)
  assert (Re : RInv (map fst (@nil (nat * Z))) (emit s1 (EReqCb r st cl))).
  { pose proof (detach_R dl [] s h f [r] I R Hv P B TY) as [Q1 R1].
    destruct (NoDup_app_l [r] [] (q_dwnd _ _ Q1)) as (_ & _ & _).
    split.
    - apply QOK_same with (s := s1); [|reflexivity|intros h' Hv'; left; splits; auto].
      destruct Q1. constructor; auto; try (constructor; fail); try (intros r' []); try (simpl; constructor).
    - apply HR_deliver with (dw := []) (s := s);
        [apply R|reflexivity|reflexivity|congruence|right; exists h; auto|].
      intros r'. unfold pending. split.
        * intros [[]|(h' & Hv' & Hr)]. unfold s1 in Hv'. rewrite hvalid_upd in Hv'.
          destruct (Nat.eq_dec h h') as [<-|Hne].
          -- rewrite G1 in Hr. split; [right; exists h; split; [exact Hv|apply (Permutation_in _ P); right; exact Hr]|].
             intros ->. pose proof (Permutation_NoDup (Permutation_sym P) (q_nd _ _ (proj1 R) h Hv)) as N.
             inversion N; subst. contradiction.
          -- unfold s1 in Hr. rewrite hget_upd_other in Hr by exact Hne.
             split; [right; exists h'; auto|]. intros ->. apply Hne.
             apply (same_owner_same_handle dl s h h' r I Hv Hv' Hq Hr).
        * intros ([[]|(h' & Hv' & Hr)] & Hne). right. exists h'. unfold s1. rewrite hvalid_upd.
          split; [exact Hv'|]. destruct (Nat.eq_dec h h') as [<-|Hne'].
          -- rewrite hget_upd_same by exact Hv. apply (Permutation_in _ (Permutation_sym P)) in Hr.
             destruct Hr as [E|Hr]; [congruence|exact Hr].
          -- rewrite hget_upd_other by exact Hne'. exact Hr. }
  apply body_S with (dl := dl); auto.
  destruct cl.
  - rewrite (CL eq_refl). apply SInv_emit_true with (dws := []) (s := s); auto.
    right. split; [|reflexivity]. apply (s_nodone _ _ S h r Hv Nr).
  - apply SInv_keep with (dws := []) (s := s) (l := [EReqCb r st false]); auto.
    + constructor; [apply splain_false|constructor].
    + intros h' Hv'. left. destruct (X h' Hv') as (V & Cc & Nn). splits; auto.
Qed.

Lemma cancel_connect_S dl s beh h :
  Inv dl s -> RInv [] s -> SInv [] s -> hvalid s h = true -> h_closed (hget s h) = false ->
  SInv [] (cancel_connect s beh h).
Proof.
  intros I R SI Hv Hd. unfold cancel_connect.
  destruct (h_conn (hget s h)) as [r|] eqn:Ec; [|exact SI].
  apply drop_req_S with (dl := dl); auto.
  - unfold qreqs. cbn. rewrite Ec. apply Permutation_refl.
  - left. exact Ec.
  - unfold nodone_fields. cbn. intros r' [H|H]; [discriminate|auto].
  - destruct (q_ty _ _ (proj1 R) h Hv) as (T1 & T2). cbn. split; [|exact T2].
    intros H. destruct (T1 H). auto.
Qed.

Lemma drain_closing_S dl s beh h :
  Inv dl s -> RInv [] s -> SInv [] s -> hvalid s h = true -> h_closed (hget s h) = false ->
  SInv [] (drain_closing s beh h).
Proof.
  intros I R SI Hv Hd. unfold drain_closing.
  destruct (h_shut (hget s h)) as [r|] eqn:Ec; [|exact SI].
  apply drop_req_S with (dl := dl); auto.
  - unfold qreqs. cbn. rewrite Ec. simpl. rewrite app_nil_r.
    apply Permutation_trans with (l' := (oreq (h_conn (hget s h)) ++ h_wq (hget s h) ++ map fst (h_cq (hget s h))) ++ [r]).
    + apply Permutation_cons_append.
    + rewrite <- !app_assoc. apply Permutation_refl.
  - right. right. exact Ec.
  - unfold nodone_fields. cbn. intros r' [H|[H|H]]; auto. discriminate.
  - destruct (q_ty _ _ (proj1 R) h Hv) as (T1 & T2). cbn. split; [|exact T2].
    intros H. destruct (T1 H). auto.
Qed.

Lemma splain_closecb h : splain (ECloseCb h).
Proof. split; intros; discriminate. Qed.

Lemma deliver_close_S h rest s beh :
  Inv (CH h :: rest) s -> RInv [] s -> SInv [] s -> qreqs (hget s h) = [] ->
  SInv [] (deliver_close s beh h).
Proof.
  intros I R SI E. destruct (head_facts _ _ _ I) as (Hv & Hcl & Hd & Hx & Hn & Hnd).
  pose proof (j_h _ _ I h Hv) as K.
  pose proof (deliver_close_R h rest s beh I R E) as RR.
  unfold deliver_close in *. rewrite (k_led _ _ _ _ K Hcl) in *. cbn [emit_leaks] in *.
  set (s1 := upd_h s h (w_closed true)) in *.
  assert (I2 : Inv rest (set_ncb (emit s1 (ECloseCb h)) (Datatypes.S (ncb s1)))).
  { apply Inv_ext with (s := emit s1 (ECloseCb h)); auto. apply Inv_close. exact I. }
  assert (G : forall h', qf (hget s1 h') = qf (hget s h')).
  { intros h'. unfold s1. rewrite hget_upd. destruct (Nat.eqb h h' && hvalid s h) eqn:B; [|reflexivity].
    apply andb_prop in B. destruct B as [B _]. apply Nat.eqb_eq in B. subst. reflexivity. }
  apply body_S with (dl := rest); auto.
  - (* RInv right after the event *)
    destruct R as [Q R].
    assert (PE : forall r, pending [] s1 r <-> pending [] s r).
    { intros r. unfold pending. split; intros [H|(h' & Hv' & Hr)]; auto; right; exists h'.
      - unfold s1 in Hv'. rewrite hvalid_upd in Hv'. split; [exact Hv'|].
        pose proof (G h') as G'. apply qf_eq in G'. destruct G' as (_ & _ & _ & _ & _ & G'). rewrite <- G'. exact Hr.
      - unfold s1. rewrite hvalid_upd. split; [exact Hv'|].
        pose proof (G h') as G'. apply qf_eq in G'. destruct G' as (_ & _ & _ & _ & _ & G'). fold s1. rewrite G'. exact Hr. }
    split.
    + apply QOK_same with (s := s1); [|reflexivity|intros h' Hv'; left; splits; auto].
      unfold s1. apply QOK_upd with (dw := []); auto;
        try (change (qreqs (w_closed true (hget s h))) with (qreqs (hget s h)); rewrite E; constructor; fail);
        try (constructor; fail); try (intros r []); try apply (q_ty _ _ Q h Hv).
    + apply HR_closecb with (s := s); auto.
      intros r k Hin [[]|(h' & Hv' & Hr)].
      pose proof (k_own _ _ _ _ (j_h _ _ I h' Hv') r Hr) as O1.
      pose proof (r_sub _ _ R h r k Hin) as O2.
      assert (h' = h) by congruence. subst h'. rewrite E in Hr. exact Hr.
  - apply SInv_keep with (dws := []) (s := s) (l := [ECloseCb h]); auto.
    + constructor; [apply splain_closecb|constructor].
    + intros h' Hv'. left. change (hvalid s1 h' = true) in Hv'. unfold s1 in Hv'. rewrite hvalid_upd in Hv'.
      change (hget (emit s1 (ECloseCb h)) h') with (hget s1 h').
      destruct (qf_fields _ _ (G h')) as (C & N). splits; auto.
Qed.

Lemma splain_touch h : splain (ETouch h).
Proof. split; intros; discriminate. Qed.

Lemma finish_close_S h rest s beh :
  Inv (CH h :: rest) s -> RInv [] s -> SInv [] s -> SInv [] (finish_close s beh h).
Proof.
  intros I R SI. destruct (head_facts _ _ _ I) as (Hv & Hcl & Hd & Hx & Hn & Hnd).
  pose proof (j_h _ _ I h Hv) as K.
  unfold finish_close.
  destruct (h_ty (hget s h)) eqn:Ty.
  - apply deliver_close_S with (rest := rest); auto.
    apply qreqs_nil_of_type with (dw := []); [apply R|exact Hv|congruence|congruence].
  - (* stream *)
    set (s1 := cancel_connect s beh h).
    assert (S1 : Step (CH h :: rest) s s1) by (apply cancel_connect_step; auto).
    assert (R1 : RInv [] s1) by (apply cancel_connect_R with (dl := CH h :: rest); auto).
    assert (SI1 : SInv [] s1) by (apply cancel_connect_S with (dl := CH h :: rest); auto).
    destruct (Step_valid_open _ _ _ _ S1 Hv Hd) as (V1 & D1).
    assert (C1 : h_closing (hget s1 h) = true) by (destruct S1 as [_ [F _]]; apply (F h Hv); exact Hcl).
    assert (E1 : h_conn (hget s1 h) = None).
    { unfold s1, cancel_connect. destruct (h_conn (hget s h)) as [r|] eqn:Ec; [|exact Ec].
      assert (Iu : Inv (CH h :: rest) (upd_h s h (w_conn None))).
      { apply Inv_upd; auto. eapply HOK_frame; eauto.
        - intros r'. rewrite !in_qreqs. cbn. intros [H|H]; [discriminate|auto].
        - apply (k_led _ _ _ _ K). }
      pose proof (ccallback_R_frozen (CH h :: rest) (upd_h s h (w_conn None)) beh r UV_ECANCELED true h h Iu) as F.
      rewrite hvalid_upd, hget_upd_same in F by exact Hv.
      assert (Lr : lookup r (owner s) = Some h) by (apply (k_own _ _ _ _ K); apply in_qreqs; auto).
      specialize (F Lr Hd Hv Hcl). apply qf_eq in F. destruct F as (F1 & _). rewrite F1. reflexivity. }
    set (s2 := flush_and_run s1 beh h).
    assert (S2 : Step (CH h :: rest) s1 s2) by (apply flush_and_run_step; auto; apply S1).
    assert (R2 : RInv [] s2) by (apply flush_and_run_R with (dl := CH h :: rest); auto; apply S1).
    assert (SI2 : SInv [] s2) by (apply flush_and_run_S with (dl := CH h :: rest); auto; apply S1).
    destruct (flush_and_run_empty (CH h :: rest) s1 beh h (proj1 S1) V1 C1 D1) as (W2 & Q2 & N2 & H2 & T2).
    fold s2 in W2, Q2, N2, H2, T2.
    destruct (Step_valid_open _ _ _ _ S2 V1 D1) as (V2 & D2).
    assert (C2 : h_closing (hget s2 h) = true) by (destruct S2 as [_ [F _]]; apply (F h V1); exact C1).
    set (s3 := drain_closing s2 beh h).
    assert (S3 : Step (CH h :: rest) s2 s3) by (apply drain_closing_step; auto; apply S2).
    assert (R3 : RInv [] s3) by (apply drain_closing_R with (dl := CH h :: rest); auto; apply S2).
    assert (SI3 : SInv [] s3) by (apply drain_closing_S with (dl := CH h :: rest); auto; apply S2).
    apply deliver_close_S with (rest := rest); [apply S3|exact R3|exact SI3|].
    assert (Q3 : qf (hget s3 h) = (None, [], [], None, h_ty (hget s2 h)) ).
    { unfold s3, drain_closing. destruct (h_shut (hget s2 h)) as [r|] eqn:Es.
      - assert (K2 := j_h _ _ (proj1 S2) h V2).
        assert (Iu : Inv (CH h :: rest) (upd_h s2 h (w_shut None))).
        { apply Inv_upd; [apply S2|exact V2|]. eapply HOK_frame; eauto.
          - intros r'. rewrite !in_qreqs. cbn. intros [H|[H|[H|H]]]; auto. discriminate.
          - apply (k_led _ _ _ _ K2). }
        pose proof (ccallback_R_frozen (CH h :: rest) (upd_h s2 h (w_shut None)) beh r UV_ECANCELED true h h Iu) as F.
        rewrite hvalid_upd, hget_upd_same in F by exact V2.
        assert (Lr : lookup r (owner s2) = Some h) by (apply (k_own _ _ _ _ K2); apply in_qreqs; auto).
        specialize (F Lr D2 V2 C2). rewrite F. unfold qf. cbn. rewrite N2, E1, W2, Q2. reflexivity.
      - unfold qf. rewrite N2, E1, W2, Q2, Es. reflexivity. }
    apply (qf_nil _ _ Q3).
  - (* udp *)
    set (s2 := flush_and_run s beh h).
    assert (S2 : Step (CH h :: rest) s s2) by (apply flush_and_run_step; auto).
    assert (R2 : RInv [] s2) by (apply flush_and_run_R with (dl := CH h :: rest); auto).
    assert (SI2 : SInv [] s2) by (apply flush_and_run_S with (dl := CH h :: rest); auto).
    destruct (flush_and_run_empty (CH h :: rest) s beh h I Hv Hcl Hd) as (W2 & Q2 & N2 & H2 & T2).
    fold s2 in W2, Q2, N2, H2, T2.
    apply deliver_close_S with (rest := rest); [apply S2|exact R2|exact SI2|].
    destruct (q_ty _ _ (proj1 R) h Hv) as (T1 & _). destruct (T1 ltac:(congruence)) as (A1 & A2).
    apply qreqs_nil; congruence.
  - (* signal *)
    destruct (0 <? h_sigpend (hget s h)).
    + apply SInv_plain with (s := s) (l := [ETouch h]); auto.
      * constructor; [apply splain_touch|constructor].
      * apply QFS_hs. reflexivity.
    + apply deliver_close_S with (rest := rest); auto.
      apply qreqs_nil_of_type with (dw := []); [apply R|exact Hv|congruence|congruence].
  - apply deliver_close_S with (rest := rest); auto.
    apply qreqs_nil_of_type with (dw := []); [apply R|exact Hv|congruence|congruence].
Qed.

Lemma run_closing_S beh l : forall s,
  Inv l s -> RInv [] s -> SInv [] s -> SInv [] (run_closing l s beh).
Proof.
  induction l as [|[h|h c] l IH]; intros s I R SI; cbn [run_closing]; [exact SI|..].
  - apply IH; [apply finish_close_inv; exact I|apply finish_close_R with (rest := l); auto
              |apply finish_close_S with (rest := l); auto].
  - assert (Hv : hvalid s h = true) by (apply (j_valid _ _ I (CT h c)); left; reflexivity).
    assert (I1 : Inv (CT h c :: l) (emit s (ETouch h))).
    { apply Inv_emit; auto; try discriminate. intros h' [Ha|(r & Hr & _)]; discriminate. }
    destruct (fp_timer_closed_misc (emit s (ETouch h)) h c) as (A & B & C).
    assert (QF : QFS s (fp_timer_closed (emit s (ETouch h)) h c)).
    { eapply QFS_trans; [|apply fp_timer_closed_QFS]. apply QFS_hs. reflexivity. }
    apply IH.
    + apply fp_timer_closed_inv; [|exact Hv]. apply Inv_drop_ct with (h := h) (c := c). exact I1.
    + apply RInv_plain with (s := s) (l := [ETouch h]); auto.
      * constructor; [apply plain_touch|constructor].
      * intros h' _. rewrite C. auto.
    + apply SInv_plain with (s := s) (l := [ETouch h]); auto.
      constructor; [apply splain_touch|constructor].
Qed.

Lemma splain_hcb h : splain (EHCb h).
Proof. split; intros; discriminate. Qed.

Lemma h_cb_S s beh h : Inv [] s -> RInv [] s -> SInv [] s -> SInv [] (h_cb s beh h).
Proof.
  intros I R SI. unfold h_cb. destruct (hvalid s h && negb (h_closed (hget s h))) eqn:U; [|exact SI].
  apply andb_prop in U. destruct U as [Hv Hd]. apply negb_true_iff in Hd.
  apply body_S with (dl := []).
  - apply Inv_ext with (s := emit s (EHCb h)); auto. apply Inv_emit; auto; try discriminate.
    intros h' [Ha|(r & Hr & _)] _; [|discriminate]. simpl in Ha. inversion Ha; subst. exact Hd.
  - apply RInv_plain with (s := s) (l := [EHCb h]); auto.
    + constructor; [apply plain_hcb|constructor].
    + apply QFS_hs. reflexivity.
  - apply SInv_plain with (s := s) (l := [EHCb h]); auto.
    + constructor; [apply splain_hcb|constructor].
    + apply QFS_hs. reflexivity.
Qed.

Lemma fp_stat_S s h : SInv [] s -> SInv [] (fp_stat s h).
Proof.
  intros SI. unfold fp_stat.
  match goal with |- SInv _ (if ?c then _ else _) => destruct c end; [|exact SI].
  set (s0 := emit (emit s (ETouch h)) (EIn (OFpStat h))).
  assert (P : Forall splain [EIn (OFpStat h); ETouch h]).
  { constructor; [apply splain_op; intros; discriminate|constructor; [apply splain_touch|constructor]]. }
  destruct (stat_done _ _ _) as [l [[c [|]]|]].
  - apply SInv_plain with (s := s) (l := [EIn (OFpStat h); ETouch h]); auto.
    eapply QFS_trans; [apply QFS_upd_hs with (s' := upd_h s0 h (w_ctxs l)) (h := h) (f := w_ctxs l); reflexivity|apply QFS_hs; reflexivity].
  - apply SInv_plain with (s := s) (l := [EIn (OFpStat h); ETouch h]); auto.
    apply QFS_upd_hs with (h := h) (f := w_ctxs l); reflexivity.
  - apply SInv_plain with (s := s) (l := [EIn (OFpStat h); ETouch h]); auto.
    apply QFS_upd_hs with (h := h) (f := w_ctxs l); reflexivity.
Qed.

Lemma req_cb_S s beh r st : Inv [] s -> RInv [] s -> SInv [] s -> SInv [] (req_cb s beh r st).
Proof.
  intros I R SI. unfold req_cb.
  destruct (lookup r (owner s)) as [h|] eqn:Lr; [|exact SI].
  destruct (usable s h) eqn:U; [|exact SI].
  apply usable_valid in U. destruct U as [Hv Hc].
  pose proof (j_h _ _ I h Hv) as K.
  assert (Hd : h_closed (hget s h) = false) by (eapply HOK_not_closing; eauto).
  destruct (q_ty _ _ (proj1 R) h Hv) as (T1 & T2).
  destruct (opt_is (h_conn (hget s h)) r) eqn:E1.
  - apply opt_is_true in E1.
    set (s1 := ccallback (upd_h s h (w_conn None)) beh (EReqCb r st false)).
    assert (S1 : Step [] s s1).
    { apply drop_req_step; auto.
      - apply in_qreqs. auto.
      - intros r'. rewrite !in_qreqs. cbn. intros [H|H]; [discriminate|auto]. }
    assert (PM : Permutation (r :: qreqs (w_conn None (hget s h))) (qreqs (hget s h))).
    { unfold qreqs. cbn. rewrite E1. apply Permutation_refl. }
    assert (TY : (h_ty (w_conn None (hget s h)) <> TStream ->
                  h_conn (w_conn None (hget s h)) = None /\ h_shut (w_conn None (hget s h)) = None) /\
                 (h_ty (w_conn None (hget s h)) <> TStream -> h_ty (w_conn None (hget s h)) <> TUdp ->
                  h_wq (w_conn None (hget s h)) = [] /\ h_cq (w_conn None (hget s h)) = [])).
    { cbn. split; [|exact T2]. intros H. destruct (T1 H). auto. }
    assert (R1 : RInv [] s1) by (apply drop_req_R with (dl := []); auto).
    assert (SI1 : SInv [] s1).
    { apply drop_req_S with (dl := []); auto.
      - left. exact E1.
      - intros H. discriminate.
      - unfold nodone_fields. cbn. intros r' [H|H]; [discriminate|auto]. }
    destruct (Step_valid_open _ _ _ _ S1 Hv Hd) as (V1 & D1).
    match goal with |- SInv _ (if ?c then _ else _) => destruct c end; [|exact SI1].
    apply flush_and_run_S with (dl := []); auto. apply S1.
  - destruct (opt_is (h_shut (hget s h)) r) eqn:E2; [|exact SI].
    apply opt_is_true in E2.
    apply drop_req_S with (dl := []); auto.
    + unfold qreqs. cbn. rewrite E2. simpl. rewrite app_nil_r.
      apply Permutation_trans with (l' := (oreq (h_conn (hget s h)) ++ h_wq (hget s h) ++ map fst (h_cq (hget s h))) ++ [r]).
      * apply Permutation_cons_append.
      * rewrite <- !app_assoc. apply Permutation_refl.
    + right. right. exact E2.
    + intros H. discriminate.
    + unfold nodone_fields. cbn. intros r' [H|[H|H]]; auto. discriminate.
    + cbn. split; [|exact T2]. intros H. destruct (T1 H). auto.
Qed.

Lemma batch_S s beh h : Inv [] s -> RInv [] s -> SInv [] s -> SInv [] (batch s beh h).
Proof.
  intros I R SI. unfold batch.
  match goal with |- SInv _ (if ?c then _ else _) => destruct c eqn:U end; [|exact SI].
  apply andb_prop in U. destruct U as [U _]. apply usable_valid in U. destruct U as [Hv Hc].
  pose proof (j_h _ _ I h Hv) as K.
  assert (Hd : h_closed (hget s h) = false) by (eapply HOK_not_closing; eauto).
  destruct (h_cq (hget s h)) as [|p pq] eqn:Eq; [exact SI|].
  set (se := emit s (EIn (OBatch h))).
  assert (Ie : Inv [] se) by (apply Inv_emit_op with (h := h); auto).
  assert (Re : RInv [] se).
  { apply RInv_plain with (s := s) (l := [EIn (OBatch h)]); auto.
    - constructor; [apply plain_op; intros; discriminate|constructor].
    - apply QFS_hs. reflexivity. }
  assert (Se : SInv [] se).
  { apply SInv_plain with (s := s) (l := [EIn (OBatch h)]); auto.
    - constructor; [apply splain_op; intros; discriminate|constructor].
    - apply QFS_hs. reflexivity. }
  set (s0 := upd_h se h (w_cq [])).
  assert (I0 : Inv [] s0).
  { unfold s0. apply Inv_upd; auto. eapply HOK_frame; [apply (j_h _ _ Ie h Hv)|..]; auto.
    - intros r. rewrite !in_qreqs. cbn. tauto.
    - apply (k_led _ _ _ _ (j_h _ _ Ie h Hv)). }
  assert (R0 : RInv (map fst ((p :: pq) ++ [])) s0).
  { rewrite app_nil_r. rewrite <- (app_nil_r (map fst (p :: pq))).
    unfold s0. apply detach_R with (dl := []); auto.
    - change (hget se h) with (hget s h). unfold qreqs. cbn [h_conn h_wq h_cq h_shut w_cq]. rewrite Eq.
      apply (perm_batch (h_conn (hget s h)) (h_wq (hget s h)) (map fst (p :: pq)) (oreq (h_shut (hget s h)))).
    - change (hget se h) with (hget s h). destruct (q_ty _ _ (proj1 R) h Hv) as (T1 & T2). cbn. split; auto.
      intros A B. destruct (T2 A B) as (W & _). auto. }
  assert (SI0 : SInv ((p :: pq) ++ []) s0).
  { unfold s0. apply detach_S; auto.
    - change (hget se h) with (hget s h). rewrite Eq. intros r st H. left. exact H.
    - cbn. intros q []. }
  assert (V0 : hvalid s0 h = true) by (unfold s0; rewrite hvalid_upd; exact Hv).
  assert (D0 : h_closed (hget s0 h) = false).
  { unfold s0. rewrite hget_upd_same by exact Hv. exact Hd. }
  assert (Ho : forall r st, In (r, st) (p :: pq) -> lookup r (owner s0) = Some h).
  { intros r st H. change (owner s0) with (owner s).
    apply (k_own _ _ _ _ K). apply in_qreqs. right. right. left. rewrite Eq.
    apply in_map_iff. exists (r, st). auto. }
  assert (S1 : Step [] s0 (run_cq (p :: pq) h s0 beh)) by (apply run_cq_step; auto).
  assert (R1 : RInv [] (run_cq (p :: pq) h s0 beh)).
  { apply run_cq_R with (dl := []); auto. rewrite app_nil_r in R0. rewrite app_nil_r. exact R0. }
  assert (SI1 : SInv [] (run_cq (p :: pq) h s0 beh)) by (apply run_cq_S with (dl := []); auto).
  destruct (Step_valid_open _ _ _ _ S1 V0 D0) as (V1 & D1).
  match goal with |- SInv _ (if ?c then _ else _) => destruct c end; [|exact SI1].
  apply drain_closing_S with (dl := []); auto. apply S1.
Qed.

Lemma cstep_S s beh o : Inv [] s -> RInv [] s -> SInv [] s -> SInv [] (cstep s beh o).
Proof.
  intros I R SI. destruct o; cbn [cstep]; try (apply capi_S with (dl := []); assumption).
  - apply req_cb_S; auto.
  - apply batch_S; auto.
  - apply h_cb_S; auto.
  - apply fp_stat_S; auto.
  - assert (Ie : Inv [] (emit s (EIn OPhase))).
    { apply Inv_emit; auto; try discriminate. intros h [Ha|(r & Hr & _)]; discriminate. }
    apply run_closing_S.
    + change (clq s) with (clq (emit s (EIn OPhase))). apply Inv_detach. exact Ie.
    + apply RInv_plain with (s := s) (l := [EIn OPhase]); auto.
      * constructor; [apply plain_op; intros; discriminate|constructor].
      * apply QFS_hs. reflexivity.
    + apply SInv_plain with (s := s) (l := [EIn OPhase]); auto.
      * constructor; [apply splain_op; intros; discriminate|constructor].
      * apply QFS_hs. reflexivity.
Qed.

Lemma crun_S beh os : forall s, Inv [] s -> RInv [] s -> SInv [] s -> SInv [] (crun s os beh).
Proof.
  induction os as [|o os IH]; intros s I R SI; cbn [crun]; auto.
  apply IH; [apply cstep_inv; exact I|apply cstep_R; auto|apply cstep_S; auto].
Qed.

Theorem reachable_sinv os beh : SInv [] (crun cinit os beh).
Proof. apply crun_S; [apply Inv_init|apply RInv_init|apply SInv_init]. Qed.

(* a callback delivered while the handle is closing carries UV_ECANCELED
   exactly when the request had not completed (no ODone before it); otherwise
   it carries the recorded result (0 for a non-negative udp send result) *)
Theorem cancelled_iff_not_completed os beh pre r st post :
  ctrace os beh = pre ++ EReqCb r st true :: post ->
  (exists st', In (EIn (ODone r st')) pre /\ mapped st st') \/
  (~ done_in r pre /\ st = UV_ECANCELED).
Proof.
  intros Ht. apply trace_split_hist in Ht.
  destruct (s_st _ _ (reachable_sinv os beh) (rev post) r st (rev pre) Ht) as [(st' & H & M)|(H & E)].
  - left. exists st'. split; [apply in_rev; exact H|exact M].
  - right. split; [|exact E]. intros (st' & H'). apply H. exists st'. apply in_rev in H'. exact H'.
Qed.

(* ================================================================== *)
(* fs_poll: every context of a stopped or closing handle dies          *)
(* ================================================================== *)
Record TH (dl : list centry) (s : cstate) (h : nat) (x : hst) : Prop := {
  t_nd : NoDup (map c_id (h_ctxs x));
  t_lt : forall c, In c (h_ctxs x) -> (c_id c < nctx s)%nat;
  t_ct : forall c, In c (h_ctxs x) -> c_timer c = 2%nat -> In (CT h (c_id c)) (dl ++ clq s);
  t_st : forall c, In c (h_ctxs x) -> c_stat c = true \/ c_timer c = 1%nat \/ c_timer c = 2%nat;
  t_tl : forall c, In c (tl (h_ctxs x)) -> c_stat c = true \/ c_timer c = 2%nat;
  t_dead : (h_active x = false \/ h_closing x = true) ->
           forall c, In c (h_ctxs x) -> c_stat c = true \/ c_timer c = 2%nat
}.

Definition TInv (dl : list centry) (s : cstate) : Prop :=
  forall h, hvalid s h = true -> TH dl s h (hget s h).

Lemma TInv_init : TInv [] cinit.
Proof. intros h H. destruct (hvalid_cinit h H). Qed.

Definition CF (x : hst) := (h_ctxs x, h_active x, h_closing x).
Definition CFS (s s' : cstate) : Prop := map CF (hs s') = map CF (hs s).

Lemma CFS_refl s : CFS s s. Proof. reflexivity. Qed.
Lemma CFS_trans a b c : CFS a b -> CFS b c -> CFS a c. Proof. unfold CFS. congruence. Qed.
Lemma CFS_hs s s' : hs s' = hs s -> CFS s s'. Proof. unfold CFS. intros ->. reflexivity. Qed.
Lemma CFS_upd_hs s s' h f : hs s' = upd h f (hs s) -> (forall x, CF (f x) = CF x) -> CFS s s'.
Proof. intros E H. unfold CFS. rewrite E. apply map_upd_inert. exact H. Qed.

Lemma CFS_get s s' : CFS s s' -> forall h, hvalid s' h = hvalid s h /\ CF (hget s' h) = CF (hget s h).
Proof.
  unfold CFS. intros E h. split.
  - unfold hvalid. rewrite <- (map_length CF (hs s')), <- (map_length CF (hs s)), E. reflexivity.
  - unfold hget. rewrite <- !(map_nth CF). rewrite E. reflexivity.
Qed.

Lemma CF_eq x y : CF x = CF y -> h_ctxs x = h_ctxs y /\ h_active x = h_active y /\ h_closing x = h_closing y.
Proof. unfold CF. intros E. inversion E. auto. Qed.

Lemma TH_keep dl dl' s s' h x y :
  TH dl s h x -> CF y = CF x -> (nctx s <= nctx s')%nat ->
  (forall c, In (CT h c) (dl ++ clq s) -> In (CT h c) (dl' ++ clq s')) ->
  TH dl' s' h y.
Proof.
  intros T E N M. apply CF_eq in E. destruct E as (E1 & E2 & E3). destruct T.
  constructor; rewrite ?E1, ?E2, ?E3; auto.
  intros c Hc. specialize (t_lt0 c Hc). lia.
Qed.

(* contexts, ACTIVE and CLOSING untouched; timer-close entries stay listed *)
Lemma TInv_keep dl dl' s s' :
  TInv dl s -> CFS s s' -> (nctx s <= nctx s')%nat ->
  (forall h c, In (CT h c) (dl ++ clq s) -> In (CT h c) (dl' ++ clq s')) ->
  TInv dl' s'.
Proof.
  intros T F N M h Hv. destruct (CFS_get _ _ F h) as (G1 & G2). rewrite G1 in Hv.
  eapply TH_keep; eauto.
Qed.

Lemma TInv_newh dl s x : h_ctxs x = [] -> TInv dl s -> TInv dl (set_hs s (hs s ++ [x])).
Proof.
  intros E T h Hv. destruct (hvalid s h) eqn:V.
  - rewrite hget_app_old by exact V. eapply TH_keep; [apply (T h V)|reflexivity|cbn; lia|auto].
  - apply hvalid_lt in Hv. cbn [hs set_hs] in Hv. rewrite app_length in Hv. simpl in Hv.
    unfold hvalid in V. apply Nat.ltb_ge in V. assert (h = length (hs s)) by lia. subst h.
    rewrite hget_app_new. constructor; rewrite E; simpl; try (intros; contradiction). constructor.
Qed.

(* rewriting the fs_poll fields of one handle *)
Lemma TInv_upd dl dl' s s' h y :
  (forall h', h' <> h -> hvalid s h' = true -> TH dl s h' (hget s h')) -> hvalid s h = true ->
  length (hs s') = length (hs s) -> (nctx s <= nctx s')%nat ->
  (forall h', h' <> h -> hget s' h' = hget s h') -> hget s' h = y ->
  (forall h' c, In (CT h' c) (dl ++ clq s) -> In (CT h' c) (dl' ++ clq s')) ->
  TH dl' s' h y -> TInv dl' s'.
Proof.
  intros T Hv L N O E M Y h' Hv'.
  assert (Hv0 : hvalid s h' = true) by (unfold hvalid in *; rewrite <- L; exact Hv').
  destruct (Nat.eq_dec h' h) as [->|Hne].
  - rewrite E. exact Y.
  - rewrite O by exact Hne. eapply TH_keep; [apply (T h' Hne Hv0)|reflexivity|exact N|auto].
Qed.

Lemma in_app_cons_ct h c (e : centry) dl q : In (CT h c) (dl ++ q) -> In (CT h c) (dl ++ e :: q).
Proof. intros H. apply in_app_cons. right. exact H. Qed.

(* TH without the clause for closing handles *)
Record THw (dl : list centry) (s : cstate) (h : nat) (x : hst) : Prop := {
  w_nd : NoDup (map c_id (h_ctxs x));
  w_lt : forall c, In c (h_ctxs x) -> (c_id c < nctx s)%nat;
  w_ct : forall c, In c (h_ctxs x) -> c_timer c = 2%nat -> In (CT h (c_id c)) (dl ++ clq s);
  w_st : forall c, In c (h_ctxs x) -> c_stat c = true \/ c_timer c = 1%nat \/ c_timer c = 2%nat;
  w_tl : forall c, In c (tl (h_ctxs x)) -> c_stat c = true \/ c_timer c = 2%nat;
  w_dead : h_active x = false -> forall c, In c (h_ctxs x) -> c_stat c = true \/ c_timer c = 2%nat
}.

Lemma TH_THw dl s h x : TH dl s h x -> THw dl s h x.
Proof. intros []. constructor; auto. Qed.

(* uv_fs_poll_stop *)
Lemma fp_stop_Tw dl s h :
  (forall h', h' <> h -> hvalid s h' = true -> TH dl s h' (hget s h')) ->
  hvalid s h = true -> THw dl s h (hget s h) -> TInv dl (fp_stop s h).
Proof.
  intros T Hv X. unfold fp_stop.
  destruct (h_active (hget s h)) eqn:Ea.
  2:{ intros h' Hv'. destruct (Nat.eq_dec h' h) as [->|Hne]; [|auto].
      destruct X. constructor; auto. }
  destruct (h_ctxs (hget s h)) as [|c rest] eqn:Ec.
  - (* no context *)
    apply TInv_upd with (dl := dl) (s := s) (h := h) (y := w_active false (hget s h)); auto.
    + apply len_upd_h.
    + intros h' Hne. apply hget_upd_other. auto.
    + apply hget_upd_same. exact Hv.
    + destruct X. constructor; cbn [h_ctxs h_active h_closing w_active]; rewrite ?Ec; simpl; auto;
        try (intros; contradiction). constructor.
  - destruct (Nat.eqb (c_timer c) 1) eqn:Et.
    + apply Nat.eqb_eq in Et.
      set (c' := mkC (c_id c) (c_stat c) 2).
      set (s2 := upd_h (push_clq (upd_h s h (w_ctxs (c' :: rest))) (CT h (c_id c))) h (w_active false)).
      apply TInv_upd with (dl := dl) (s := s) (h := h) (y := w_active false (w_ctxs (c' :: rest) (hget s h))); auto.
      * unfold s2. rewrite len_upd_h. cbn [push_clq set_clq hs]. apply len_upd_h.
      * intros h' Hne. unfold s2. rewrite hget_upd_other by auto. rewrite hget_push, hget_upd_other by auto. reflexivity.
      * unfold s2. rewrite hget_upd_same by (rewrite hvalid_push, hvalid_upd; exact Hv).
        rewrite hget_push, hget_upd_same by exact Hv. reflexivity.
      * intros h' c0 H. unfold s2. cbn. apply in_app_cons_ct. exact H.
      * destruct X. rewrite Ec in *. constructor; cbn [h_ctxs h_active h_closing w_active w_ctxs map c_id c' tl].
        -- exact w_nd0.
        -- intros c0 [<-|H]; [apply (w_lt0 c); left; reflexivity|apply w_lt0; right; exact H].
        -- intros c0 [<-|H] H2.
           ++ cbn. apply in_app_cons. left. reflexivity.
           ++ cbn. apply in_app_cons_ct. apply w_ct0; [right; exact H|exact H2].
        -- intros c0 [<-|H]; [right; right; reflexivity|apply w_st0; right; exact H].
        -- exact w_tl0.
        -- intros _ c0 [<-|H]; [right; reflexivity|apply w_tl0; exact H].
    + apply TInv_upd with (dl := dl) (s := s) (h := h) (y := w_active false (hget s h)); auto.
      * apply len_upd_h.
      * intros h' Hne. apply hget_upd_other. auto.
      * apply hget_upd_same. exact Hv.
      * destruct X. rewrite Ec in *. constructor; cbn [h_ctxs h_active h_closing w_active]; rewrite ?Ec; auto.
        intros _ c0 [<-|H]; [|apply w_tl0; exact H].
        destruct (w_st0 c ltac:(left; reflexivity)) as [H|[H|H]]; auto.
        apply Nat.eqb_neq in Et. contradiction.
Qed.

Lemma fp_stop_T dl s h : TInv dl s -> hvalid s h = true -> TInv dl (fp_stop s h).
Proof. intros T Hv. apply fp_stop_Tw; auto. apply TH_THw. apply T. exact Hv. Qed.

Lemma fp_stop_dead s h :
  hvalid s h = true -> h_active (hget (fp_stop s h) h) = false /\
  h_closing (hget (fp_stop s h) h) = h_closing (hget s h).
Proof.
  intros Hv. unfold fp_stop. destruct (h_active (hget s h)) eqn:Ea; [|auto].
  destruct (h_ctxs (hget s h)) as [|c rest].
  - rewrite hget_upd_same by exact Hv. auto.
  - destruct (Nat.eqb (c_timer c) 1).
    + rewrite hget_upd_same by (rewrite hvalid_push, hvalid_upd; exact Hv).
      rewrite hget_push, hget_upd_same by exact Hv. auto.
    + rewrite hget_upd_same by exact Hv. auto.
Qed.

Lemma TInv_push dl s e : TInv dl s -> TInv dl (push_clq s e).
Proof.
  intros T. apply TInv_keep with (dl := dl) (s := s); auto.
  - apply CFS_hs. reflexivity.
  - intros h c H. cbn. apply in_app_cons. right. exact H.
Qed.

Lemma TInv_emit dl s e : TInv dl s -> TInv dl (emit s e).
Proof. intros T. apply TInv_keep with (dl := dl) (s := s); auto. apply CFS_hs. reflexivity. Qed.

Lemma c_close_T dl s h :
  Inv dl s -> TInv dl s -> hvalid s h = true -> TInv dl (c_close s h).
Proof.
  intros I T Hv. unfold c_close. pose proof (T h Hv) as X. pose proof (j_h _ _ I h Hv) as K.
  set (g := fun x => w_ledger [] (w_closing true x)).
  set (s1 := upd_h s h g).
  assert (G1 : hget s1 h = g (hget s h)) by (apply hget_upd_same; exact Hv).
  assert (O1 : forall h', h' <> h -> hget s1 h' = hget s h') by (intros h' Hne; apply hget_upd_other; auto).
  assert (V1 : forall h', hvalid s1 h' = hvalid s h') by (intros h'; apply hvalid_upd).
  assert (OTH : forall h', h' <> h -> hvalid s1 h' = true -> TH dl s1 h' (hget s1 h')).
  { intros h' Hne Hv'. rewrite V1 in Hv'. rewrite O1 by exact Hne.
    eapply TH_keep; [apply (T h' Hv')|reflexivity|cbn; lia|auto]. }
  assert (SIMPLE : h_ctxs (hget s h) = [] -> TInv dl (push_clq s1 (CH h))).
  { intros Ec. apply TInv_push. intros h' Hv'. destruct (Nat.eq_dec h' h) as [->|Hne]; [|auto].
    rewrite G1. constructor; unfold g; cbn [h_ctxs w_ledger w_closing]; rewrite Ec; simpl;
      try (intros; contradiction). constructor. }
  destruct (h_ty (hget s h)) eqn:Ty;
    try (apply SIMPLE; destruct (h_ctxs (hget s h)) eqn:Ec; auto;
         assert (Ht : h_ty (hget s h) = TFsPoll) by (apply (k_ty _ _ _ _ K); rewrite Ec; discriminate);
         congruence).
  assert (T2 : TInv dl (fp_stop s1 h)).
  { apply fp_stop_Tw; auto; [rewrite V1; exact Hv|].
    rewrite G1. destruct X. constructor; unfold g; cbn [h_ctxs h_active w_ledger w_closing]; auto. }
  match goal with |- TInv dl (match ?m with [] => _ | _ => _ end) => destruct m end;
    [apply TInv_push; exact T2|exact T2].
Qed.

(* uv_fs_poll_start on an inactive handle: a new context becomes the head *)
Lemma fp_start_T dl s h :
  TInv dl s -> hvalid s h = true -> h_closing (hget s h) = false -> h_active (hget s h) = false ->
  TInv dl (set_nctx (upd_h s h (fun x => w_active true (w_ctxs (mkC (nctx s) true 0 :: h_ctxs x) x)))
                    (S (nctx s))).
Proof.
  intros T Hv Hc Ha. pose proof (T h Hv) as X.
  set (f := fun x => w_active true (w_ctxs (mkC (nctx s) true 0 :: h_ctxs x) x)).
  apply TInv_upd with (dl := dl) (s := s) (h := h) (y := f (hget s h)); auto.
  - cbn [set_nctx hs]. apply len_upd_h.
  - cbn. lia.
  - intros h' Hne. change (hget (set_nctx ?a ?n) h') with (hget a h'). apply hget_upd_other. auto.
  - change (hget (set_nctx ?a ?n) h) with (hget a h). apply hget_upd_same. exact Hv.
  - destruct X. constructor; unfold f; cbn [h_ctxs h_active h_closing w_active w_ctxs map tl c_id nctx set_nctx].
    + constructor; [|exact t_nd0]. intros H. apply in_map_iff in H. destruct H as (c & E & Hin).
      specialize (t_lt0 c Hin). cbn in E. lia.
    + intros c [<-|H]; [cbn; lia|specialize (t_lt0 c H); lia].
    + intros c [<-|H] H2; [cbn in H2; discriminate|]. cbn. apply t_ct0; auto.
    + intros c [<-|H]; [left; reflexivity|apply t_st0; exact H].
    + intros c H. apply t_dead0; auto.
    + intros [H|H]; [discriminate|]. cbn in H. congruence.
Qed.

(* poll_cb of the oldest context with a stat in flight: the chain splits
   around it *)
Definition pre_nil (pre : list ctx) : bool := match pre with [] => true | _ => false end.

Lemma stat_done_split b l : forall hd,
  (exists pre c post, l = pre ++ c :: post /\ c_stat c = true /\ existsb c_stat post = false /\
     stat_done b hd l =
       (pre ++ mkC (c_id c) false (if b || negb (hd && pre_nil pre) then 2 else 1) :: post,
        Some (c_id c, b || negb (hd && pre_nil pre)))) \/
  (existsb c_stat l = false /\ stat_done b hd l = (l, None)).
Proof.
  induction l as [|c l IH]; intros hd; simpl.
  - right. auto.
  - destruct (IH false) as [(pre & c0 & post & E & S0 & NP & SD)|(NS & SD)]; rewrite SD.
    + left. exists (c :: pre), c0, post. subst l. simpl. rewrite andb_false_r in *. simpl in *.
      rewrite orb_true_r in *. splits; auto.
    + destruct (c_stat c) eqn:Es.
      * left. exists [], c, l. simpl. rewrite andb_true_r. splits; auto.
        destruct (b || negb hd); reflexivity.
      * right. simpl. auto.
Qed.

Lemma fp_stat_T dl s h : TInv dl s -> TInv dl (fp_stat s h).
Proof.
  intros T. unfold fp_stat.
  match goal with |- TInv _ (if ?c then _ else _) => destruct c eqn:U end; [|exact T].
  apply andb_prop in U. destruct U as [U Hs]. apply andb_prop in U. destruct U as [Hv _].
  pose proof (T h Hv) as X.
  set (b := negb (h_active (hget s h)) || h_closing (hget s h)).
  set (s0 := emit (emit s (ETouch h)) (EIn (OFpStat h))).
  assert (T0 : TInv dl s0) by (apply TInv_emit; apply TInv_emit; exact T).
  destruct (stat_done_split b (h_ctxs (hget s h)) true) as [(pre & c & post & E & S0 & NP & SD)|(NS & SD)].
  2:{ unfold has_stat in Hs. rewrite NS in Hs. discriminate. }
  fold b. rewrite SD.
  set (cl := b || negb (true && pre_nil pre)).
  set (c' := mkC (c_id c) false (if cl then 2 else 1)).
  set (l' := pre ++ c' :: post).
  assert (IDS : map c_id l' = map c_id (h_ctxs (hget s h))).
  { unfold l'. rewrite E, !map_app. reflexivity. }
  assert (INL : forall x, In x l' -> x = c' \/ In x (h_ctxs (hget s h))).
  { intros x H. unfold l' in H. rewrite E. apply in_app_or in H. destruct H as [H|[H|H]]; auto;
      right; apply in_or_app; [left|right; right]; exact H. }
  assert (TLL : forall x, In x (tl l') -> (x = c' /\ pre <> []) \/ In x (tl (h_ctxs (hget s h)))).
  { intros x H. unfold l' in H. rewrite E. destruct pre as [|p pre]; simpl in *; auto.
    apply in_app_or in H. destruct H as [H|[H|H]].
    - right. apply in_or_app. auto.
    - left. split; [auto|discriminate].
    - right. apply in_or_app. right. right. exact H. }
  assert (CIN : In c (h_ctxs (hget s h))) by (rewrite E; apply in_or_app; right; left; reflexivity).
  (* the handle's new record satisfies TH once the timer-close entry (if any) is listed *)
  assert (NEW : forall s', nctx s' = nctx s ->
                  (cl = true -> In (CT h (c_id c)) (dl ++ clq s')) ->
                  (forall c0, In (CT h c0) (dl ++ clq s) -> In (CT h c0) (dl ++ clq s')) ->
                  TH dl s' h (w_ctxs l' (hget s h))).
  { intros s' N1 N2 N3. destruct X. constructor; cbn [h_ctxs h_active h_closing w_ctxs].
    - rewrite IDS. exact t_nd0.
    - intros x Hx. rewrite N1. destruct (INL x Hx) as [->|H]; [apply (t_lt0 c CIN)|auto].
    - intros x Hx Ht. destruct (INL x Hx) as [->|H].
      + cbn in Ht. cbn. apply N2. destruct cl; [reflexivity|discriminate].
      + apply N3. apply t_ct0; auto.
    - intros x Hx. destruct (INL x Hx) as [->|H]; [|auto]. cbn. destruct cl; auto.
    - intros x Hx. destruct (TLL x Hx) as [(-> & Hp)|H]; [|auto].
      right. cbn. unfold cl. destruct pre; [contradiction|]. simpl. rewrite orb_true_r. reflexivity.
    - intros D x Hx. destruct (INL x Hx) as [->|H]; [|auto].
      right. cbn. unfold cl, b. destruct D as [D|D]; rewrite D; simpl; rewrite ?orb_true_r; reflexivity. }
  assert (G : hget (upd_h s0 h (w_ctxs l')) h = w_ctxs l' (hget s h)).
  { rewrite hget_upd_same by exact Hv. reflexivity. }
  destruct cl eqn:Ecl.
  - (* the timer is closed *)
    apply TInv_upd with (dl := dl) (s := s0) (h := h) (y := w_ctxs l' (hget s h)); auto.
    + cbn [push_clq set_clq hs]. apply len_upd_h.
    + intros h' Hne. rewrite hget_push. apply hget_upd_other. auto.
    + intros h' c0 H. cbn. apply in_app_cons_ct. exact H.
    + apply NEW; auto.
      * intros _. cbn. apply in_app_cons. left. reflexivity.
      * intros c0 H. cbn. apply in_app_cons_ct. exact H.
  - apply TInv_upd with (dl := dl) (s := s0) (h := h) (y := w_ctxs l' (hget s h)); auto;
      try (apply len_upd_h); try (intros h' Hne; apply hget_upd_other; auto; fail).
    apply NEW; auto. intros H. discriminate.
Qed.

Lemma NoDup_map_filter {A B} (g : A -> B) (p : A -> bool) l : NoDup (map g l) -> NoDup (map g (filter p l)).
Proof.
  induction l as [|x l IH]; simpl; intros N; [constructor|]. inversion N; subst.
  destruct (p x); simpl; auto. constructor; auto.
  intros H. apply H1. apply in_map_iff in H. destruct H as (y & E & Hy). apply filter_In in Hy.
  apply in_map_iff. exists y. tauto.
Qed.

(* a sub-chain without context c, once the entry CT h c has been taken off the batch *)
Lemma TH_subchain h c rest s s' x l' :
  TH (CT h c :: rest) s h x -> nctx s' = nctx s ->
  (forall e, In e (clq s) -> In e (clq s')) ->
  (forall y, In y l' -> In y (h_ctxs x) /\ c_id y <> c) ->
  (forall y, In y (tl l') -> In y (tl (h_ctxs x))) ->
  NoDup (map c_id l') ->
  TH rest s' h (w_ctxs l' x).
Proof.
  intros T N M S TL ND. destruct T. constructor; cbn [h_ctxs h_active h_closing w_ctxs]; auto.
  - intros y Hy. rewrite N. apply t_lt0. apply (S y Hy).
  - intros y Hy Ht. destruct (S y Hy) as (S1 & S2). specialize (t_ct0 y S1 Ht).
    simpl in t_ct0. destruct t_ct0 as [E|H]; [inversion E; congruence|].
    apply in_app_or in H. apply in_or_app. destruct H; auto.
  - intros y Hy. apply t_st0. apply (S y Hy).
  - intros D y Hy. apply t_dead0; auto. apply (S y Hy).
Qed.

Lemma TH_other h c rest s s' h' x :
  h' <> h -> TH (CT h c :: rest) s h' x -> nctx s' = nctx s ->
  (forall e, In e (clq s) -> In e (clq s')) -> TH rest s' h' x.
Proof.
  intros Hne T N M. eapply TH_keep; [exact T|reflexivity|lia|].
  intros c0 H. simpl in H. destruct H as [E|H]; [inversion E; congruence|].
  apply in_app_or in H. apply in_or_app. destruct H; auto.
Qed.

(* timer_close_cb: the context leaves the chain *)
Lemma fp_timer_closed_T h c rest s :
  TInv (CT h c :: rest) s -> hvalid s h = true -> TInv rest (fp_timer_closed s h c).
Proof.
  intros T Hv. pose proof (T h Hv) as X. unfold fp_timer_closed.
  destruct (h_ctxs (hget s h)) as [|c0 rest0] eqn:Ec.
  - (* nothing to remove *)
    intros h' Hv'. destruct (Nat.eq_dec h' h) as [->|Hne].
    + replace (hget s h) with (w_ctxs [] (hget s h)) by (destruct (hget s h); simpl in Ec; subst; reflexivity).
      apply TH_subchain with (c := c) (s := s); auto; try (intros y []). constructor.
    + apply TH_other with (h := h) (c := c) (s := s); auto.
  - assert (NDc : NoDup (c_id c0 :: map c_id rest0)) by (destruct X as [N _ _ _ _ _]; rewrite Ec in N; exact N).
    inversion NDc as [|a b NI ND0]; subst.
    destruct (Nat.eqb (c_id c0) c) eqn:Eid.
    + apply Nat.eqb_eq in Eid. subst c.
      assert (SUB : forall y, In y rest0 -> In y (h_ctxs (hget s h)) /\ c_id y <> c_id c0).
      { intros y Hy. rewrite Ec. split; [right; exact Hy|]. intros E. apply NI. rewrite <- E. apply in_map. exact Hy. }
      assert (TLS : forall y, In y (tl rest0) -> In y (tl (h_ctxs (hget s h)))).
      { intros y Hy. rewrite Ec. simpl. destruct rest0; [destruct Hy|right; exact Hy]. }
      assert (BASE : forall s', hs s' = upd h (w_ctxs rest0) (hs s) -> nctx s' = nctx s ->
                       (forall e, In e (clq s) -> In e (clq s')) -> TInv rest s').
      { intros s' Eh En Ecl h' Hv'.
        assert (Hv0 : hvalid s h' = true) by (unfold hvalid in *; rewrite Eh, upd_length in Hv'; exact Hv').
        assert (G : hget s' h' = if Nat.eqb h h' && hvalid s h then w_ctxs rest0 (hget s h) else hget s h').
        { unfold hget, hvalid. rewrite Eh. apply nth_upd. }
        rewrite G. destruct (Nat.eq_dec h h') as [<-|Hne].
        - rewrite Nat.eqb_refl, Hv. simpl. apply TH_subchain with (c := c_id c0) (s := s); auto.
        - apply Nat.eqb_neq in Hne. rewrite Hne. simpl. apply Nat.eqb_neq in Hne.
          apply TH_other with (h := h) (c := c_id c0) (s := s); auto. }
      destruct rest0 as [|c1 rest1]; [destruct (h_closing (hget s h))|]; apply BASE; auto;
        try reflexivity; cbn; auto.
    + apply Nat.eqb_neq in Eid.
      set (l' := c0 :: filter (fun k => negb (Nat.eqb (c_id k) c)) rest0).
      intros h' Hv'. rewrite hvalid_upd in Hv'. destruct (Nat.eq_dec h h') as [<-|Hne].
      * rewrite hget_upd_same by exact Hv. apply TH_subchain with (c := c) (s := s); auto.
        -- intros y [<-|Hy]; [rewrite Ec; split; [left; reflexivity|exact Eid]|].
           apply filter_In in Hy. destruct Hy as (Hy & Hb). rewrite Ec. split; [right; exact Hy|].
           apply negb_true_iff in Hb. apply Nat.eqb_neq in Hb. exact Hb.
        -- intros y Hy. rewrite Ec. simpl in *. apply filter_In in Hy. apply Hy.
        -- unfold l'. simpl. constructor.
           ++ intros H. apply NI. apply in_map_iff in H. destruct H as (y & E & Hy). apply filter_In in Hy.
              apply in_map_iff. exists y. tauto.
           ++ apply NoDup_map_filter. exact ND0.
      * rewrite hget_upd_other by exact Hne. apply TH_other with (h := h) (c := c) (s := s); auto.
Qed.

Definition fp_op (o : cop) : bool :=
  match o with OInit _ | OFpStart _ | OFpStop _ | OClose _ => true | _ => false end.

Lemma capi_CFS s o : fp_op o = false ->
  CFS s (capi s o) /\ clq (capi s o) = clq s /\ nctx (capi s o) = nctx s.
Proof.
  destruct o; cbn [fp_op capi]; intros Q; try discriminate; try (splits; reflexivity);
    repeat match goal with
    | |- context [if ?c then _ else _] => destruct c
    | |- context [match ?c with _ => _ end] => destruct c
    end; splits; try reflexivity;
    try (eapply CFS_upd_hs; [reflexivity|reflexivity]).
Qed.

Lemma capi_T dl s o : Inv dl s -> TInv dl s -> TInv dl (capi s o).
Proof.
  intros I T. destruct (fp_op o) eqn:FO.
  2:{ destruct (capi_CFS s o FO) as (F & C & N).
      apply TInv_keep with (dl := dl) (s := s); auto; [lia|]. intros h c. rewrite C. auto. }
  destruct o; try discriminate; cbn [capi].
  - apply TInv_emit. apply TInv_newh; auto.
  - destruct (usable s h && htype_eqb (h_ty (hget s h)) TFsPoll) eqn:U; [|exact T].
    apply andb_prop in U. destruct U as [U _]. apply usable_valid in U. destruct U as [Hv Hc].
    destruct (h_active (hget s h)) eqn:Ea; [apply TInv_emit; exact T|].
    apply TInv_emit.
    change (TInv dl (set_nctx (upd_h s h (fun x => w_active true (w_ctxs (mkC (nctx s) true 0 :: h_ctxs x) x)))
                              (Datatypes.S (nctx s)))).
    apply fp_start_T; auto.
  - destruct (usable s h && htype_eqb (h_ty (hget s h)) TFsPoll) eqn:U; [|exact T].
    apply andb_prop in U. destruct U as [U _]. apply usable_valid in U. destruct U as [Hv Hc].
    apply TInv_emit. apply fp_stop_T; auto.
  - destruct (usable s h) eqn:U; [|exact T].
    apply usable_valid in U. destruct U as [Hv Hc].
    assert (Hd : h_closed (hget s h) = false) by (eapply HOK_not_closing; [apply (j_h _ _ I h Hv)|exact Hc]).
    apply c_close_T; auto.
    + apply Inv_emit_op with (h := h); auto.
    + apply TInv_emit. exact T.
Qed.

Lemma capis_T dl os : forall s, Inv dl s -> TInv dl s -> TInv dl (capis s os).
Proof.
  induction os as [|o os IH]; intros s I T; cbn [capis]; [exact T|].
  apply IH; [apply (capi_step dl s o I)|apply capi_T; auto].
Qed.

Lemma TInv_ext dl s s' :
  TInv dl s -> hs s' = hs s -> clq s' = clq s -> nctx s' = nctx s -> TInv dl s'.
Proof.
  intros T A B C. apply TInv_keep with (dl := dl) (s := s); auto.
  - apply CFS_hs. exact A. - lia. - intros h c. rewrite B. auto.
Qed.

(* a callback: event, then the body; needs the invariant of the state in which the body starts *)
Lemma ccallback_T dl s beh e :
  Inv dl (set_ncb (emit s e) (Datatypes.S (ncb s))) -> TInv dl s -> TInv dl (ccallback s beh e).
Proof.
  intros I T. unfold ccallback. apply capis_T; auto.
  apply TInv_ext with (s := s); auto.
Qed.

(* rewriting request fields of one handle *)
Lemma TInv_req_upd dl s h f : (forall x, CF (f x) = CF x) -> TInv dl s -> TInv dl (upd_h s h f).
Proof.
  intros H T. apply TInv_keep with (dl := dl) (s := s); auto.
  eapply CFS_upd_hs; [reflexivity|exact H].
Qed.

Lemma run_cq_T dl beh h l : forall s,
  Inv dl s -> TInv dl s -> hvalid s h = true -> h_closed (hget s h) = false ->
  (forall r st, In (r, st) l -> lookup r (owner s) = Some h) ->
  TInv dl (run_cq l h s beh).
Proof.
  induction l as [|[r st] l IH]; intros s I T Hv Hc Ho; cbn [run_cq]; [exact T|].
  set (ev := EReqCb r (cbstatus (h_ty (hget s h)) st) (h_closing (hget s h))).
  assert (L : lookup r (owner s) = Some h) by (apply (Ho r st); left; reflexivity).
  assert (S1 : Step dl s (ccallback s beh ev)) by (apply reqcb_step with (h := h); auto).
  destruct S1 as [I1 [F1 F2]]. destruct (F1 h Hv) as (V1 & C1 & _).
  apply IH; auto.
  - apply ccallback_T; auto. apply Inv_reqcb_pre with (h := h); auto.
  - congruence.
  - intros r' st' H. apply F2. apply (Ho r' st'). right. exact H.
Qed.

Lemma flush_and_run_T dl s beh h :
  Inv dl s -> TInv dl s -> hvalid s h = true -> h_closed (hget s h) = false ->
  TInv dl (flush_and_run s beh h).
Proof.
  intros I T Hv Hd. unfold flush_and_run. pose proof (j_h _ _ I h Hv) as K.
  set (f := fun x => w_cq [] (w_wq [] x)).
  assert (I1 : Inv dl (upd_h s h f)).
  { apply Inv_upd; auto. eapply HOK_frame; eauto.
    - intros r. rewrite !in_qreqs. unfold f. cbn. tauto.
    - apply (k_led _ _ _ _ K). }
  apply run_cq_T; auto.
  - apply TInv_req_upd; auto.
  - rewrite hvalid_upd. exact Hv.
  - rewrite hget_upd_same by exact Hv. exact Hd.
  - intros r st H. change (owner (upd_h s h f)) with (owner s).
    apply (k_own _ _ _ _ K). apply in_qreqs. apply in_app_or in H. destruct H as [H|H].
    + right. right. left. apply in_map_iff. exists (r, st). auto.
    + right. left. eapply in_cancelled; eauto.
Qed.

Lemma drop_req_T dl s beh h f r st cl :
  Inv dl s -> TInv dl s -> hvalid s h = true -> h_closed (hget s h) = false ->
  In r (qreqs (hget s h)) -> (forall x, CF (f x) = CF x) ->
  h_closed (f (hget s h)) = h_closed (hget s h) -> h_ty (f (hget s h)) = h_ty (hget s h) ->
  h_ledger (f (hget s h)) = h_ledger (hget s h) ->
  (forall r', In r' (qreqs (f (hget s h))) -> In r' (qreqs (hget s h))) ->
  TInv dl (ccallback (upd_h s h f) beh (EReqCb r st cl)).
Proof.
  intros I T Hv Hd Hr HF B Ty L Q. pose proof (j_h _ _ I h Hv) as K.
  pose proof (CF_eq _ _ (HF (hget s h))) as (E1 & E2 & E3).
  assert (I1 : Inv dl (upd_h s h f)).
  { apply Inv_upd; auto. eapply HOK_frame; eauto. rewrite E3, L. apply (k_led _ _ _ _ K). }
  apply ccallback_T.
  - apply Inv_reqcb_pre with (h := h); auto.
    + apply (k_own _ _ _ _ K). exact Hr.
    + rewrite hget_upd_same by exact Hv. congruence.
  - apply TInv_req_upd; auto.
Qed.

Lemma cancel_connect_T dl s beh h :
  Inv dl s -> TInv dl s -> hvalid s h = true -> h_closed (hget s h) = false ->
  TInv dl (cancel_connect s beh h).
Proof.
  intros I T Hv Hd. unfold cancel_connect.
  destruct (h_conn (hget s h)) as [r|] eqn:Ec; [|exact T].
  apply drop_req_T; auto.
  - apply in_qreqs. auto.
  - intros r'. rewrite !in_qreqs. cbn. intros [H|H]; [discriminate|auto].
Qed.

Lemma drain_closing_T dl s beh h :
  Inv dl s -> TInv dl s -> hvalid s h = true -> h_closed (hget s h) = false ->
  TInv dl (drain_closing s beh h).
Proof.
  intros I T Hv Hd. unfold drain_closing.
  destruct (h_shut (hget s h)) as [r|] eqn:Ec; [|exact T].
  apply drop_req_T; auto.
  - apply in_qreqs. auto.
  - intros r'. rewrite !in_qreqs. cbn. intros [H|[H|[H|H]]]; auto. discriminate.
Qed.

Lemma TInv_pop_ch h rest s : TInv (CH h :: rest) s -> TInv rest s.
Proof.
  intros T h' Hv. eapply TH_keep; [apply (T h' Hv)|reflexivity|lia|].
  intros c H. simpl in H. destruct H as [E|H]; [discriminate|exact H].
Qed.

Lemma deliver_close_T h rest s beh :
  Inv (CH h :: rest) s -> TInv (CH h :: rest) s -> TInv rest (deliver_close s beh h).
Proof.
  intros I T. destruct (head_facts _ _ _ I) as (Hv & Hcl & Hd & Hx & Hn & Hnd).
  unfold deliver_close. rewrite (k_led _ _ _ _ (j_h _ _ I h Hv) Hcl). cbn [emit_leaks].
  set (s1 := upd_h s h (w_closed true)).
  apply ccallback_T.
  - apply Inv_ext with (s := emit s1 (ECloseCb h)); auto. apply Inv_close. exact I.
  - apply TInv_pop_ch with (h := h). unfold s1. apply TInv_req_upd; auto.
Qed.

Lemma finish_close_T h rest s beh :
  Inv (CH h :: rest) s -> TInv (CH h :: rest) s -> TInv rest (finish_close s beh h).
Proof.
  intros I T. destruct (head_facts _ _ _ I) as (Hv & Hcl & Hd & Hx & Hn & Hnd).
  unfold finish_close.
  destruct (h_ty (hget s h)) eqn:Ty.
  - apply deliver_close_T; auto.
  - set (s1 := cancel_connect s beh h).
    assert (S1 : Step (CH h :: rest) s s1) by (apply cancel_connect_step; auto).
    assert (T1 : TInv (CH h :: rest) s1) by (apply cancel_connect_T; auto).
    destruct (Step_valid_open _ _ _ _ S1 Hv Hd) as (V1 & D1).
    set (s2 := flush_and_run s1 beh h).
    assert (S2 : Step (CH h :: rest) s1 s2) by (apply flush_and_run_step; auto; apply S1).
    assert (T2 : TInv (CH h :: rest) s2) by (apply flush_and_run_T; auto; apply S1).
    destruct (Step_valid_open _ _ _ _ S2 V1 D1) as (V2 & D2).
    assert (S3 : Step (CH h :: rest) s2 (drain_closing s2 beh h)) by (apply drain_closing_step; auto; apply S2).
    apply deliver_close_T; [apply S3|]. apply drain_closing_T; auto. apply S2.
  - assert (S2 : Step (CH h :: rest) s (flush_and_run s beh h)) by (apply flush_and_run_step; auto).
    apply deliver_close_T; [apply S2|]. apply flush_and_run_T; auto.
  - destruct (0 <? h_sigpend (hget s h)); [|apply deliver_close_T; auto].
    apply TInv_push. apply TInv_emit. apply TInv_pop_ch with (h := h). exact T.
  - apply deliver_close_T; auto.
Qed.

Lemma run_closing_T beh l : forall s, Inv l s -> TInv l s -> TInv [] (run_closing l s beh).
Proof.
  induction l as [|[h|h c] l IH]; intros s I T; cbn [run_closing]; [exact T|..].
  - apply IH; [apply finish_close_inv; exact I|apply finish_close_T; auto].
  - assert (Hv : hvalid s h = true) by (apply (j_valid _ _ I (CT h c)); left; reflexivity).
    assert (I1 : Inv (CT h c :: l) (emit s (ETouch h))).
    { apply Inv_emit; auto; try discriminate. intros h' [Ha|(r & Hr & _)]; discriminate. }
    apply IH.
    + apply fp_timer_closed_inv; [|exact Hv]. apply Inv_drop_ct with (h := h) (c := c). exact I1.
    + apply fp_timer_closed_T; [apply TInv_emit; exact T|exact Hv].
Qed.

Lemma cstep_T s beh o : Inv [] s -> TInv [] s -> TInv [] (cstep s beh o).
Proof.
  intros I T. destruct o; cbn [cstep]; try (apply capi_T; assumption).
  - (* req_cb *)
    unfold req_cb. destruct (lookup r (owner s)) as [h|] eqn:Lr; [|exact T].
    destruct (usable s h) eqn:U; [|exact T].
    apply usable_valid in U. destruct U as [Hv Hc].
    pose proof (j_h _ _ I h Hv) as K.
    assert (Hd : h_closed (hget s h) = false) by (eapply HOK_not_closing; eauto).
    destruct (opt_is (h_conn (hget s h)) r) eqn:E1.
    + apply opt_is_true in E1.
      assert (S1 : Step [] s (ccallback (upd_h s h (w_conn None)) beh (EReqCb r st false))).
      { apply drop_req_step; auto.
        - apply in_qreqs. auto.
        - intros r'. rewrite !in_qreqs. cbn. intros [H|H]; [discriminate|auto]. }
      assert (T1 : TInv [] (ccallback (upd_h s h (w_conn None)) beh (EReqCb r st false))).
      { apply drop_req_T; auto.
        - apply in_qreqs. auto.
        - intros r'. rewrite !in_qreqs. cbn. intros [H|H]; [discriminate|auto]. }
      destruct (Step_valid_open _ _ _ _ S1 Hv Hd) as (V1 & D1).
      match goal with |- TInv _ (if ?c then _ else _) => destruct c end; [|exact T1].
      apply flush_and_run_T; auto. apply S1.
    + destruct (opt_is (h_shut (hget s h)) r) eqn:E2; [|exact T].
      apply opt_is_true in E2. apply drop_req_T; auto.
      * apply in_qreqs. auto.
      * intros r'. rewrite !in_qreqs. cbn. intros [H|[H|[H|H]]]; auto. discriminate.
  - (* batch *)
    unfold batch.
    match goal with |- TInv _ (if ?c then _ else _) => destruct c eqn:U end; [|exact T].
    apply andb_prop in U. destruct U as [U _]. apply usable_valid in U. destruct U as [Hv Hc].
    pose proof (j_h _ _ I h Hv) as K.
    assert (Hd : h_closed (hget s h) = false) by (eapply HOK_not_closing; eauto).
    destruct (h_cq (hget s h)) as [|p pq] eqn:Eq; [exact T|].
    set (se := emit s (EIn (OBatch h))).
    assert (Ie : Inv [] se) by (apply Inv_emit_op with (h := h); auto).
    set (s0 := upd_h se h (w_cq [])).
    assert (I0 : Inv [] s0).
    { unfold s0. apply Inv_upd; auto. eapply HOK_frame; [apply (j_h _ _ Ie h Hv)|..]; auto.
      - intros r. rewrite !in_qreqs. cbn. tauto.
      - apply (k_led _ _ _ _ (j_h _ _ Ie h Hv)). }
    assert (T0 : TInv [] s0) by (unfold s0; apply TInv_req_upd; auto; apply TInv_emit; exact T).
    assert (V0 : hvalid s0 h = true) by (unfold s0; rewrite hvalid_upd; exact Hv).
    assert (D0 : h_closed (hget s0 h) = false).
    { unfold s0. rewrite hget_upd_same by exact Hv. exact Hd. }
    assert (Ho : forall r st, In (r, st) (p :: pq) -> lookup r (owner s0) = Some h).
    { intros r st H. change (owner s0) with (owner s).
      apply (k_own _ _ _ _ K). apply in_qreqs. right. right. left. rewrite Eq.
      apply in_map_iff. exists (r, st). auto. }
    assert (S1 : Step [] s0 (run_cq (p :: pq) h s0 beh)) by (apply run_cq_step; auto).
    assert (T1 : TInv [] (run_cq (p :: pq) h s0 beh)) by (apply run_cq_T; auto).
    destruct (Step_valid_open _ _ _ _ S1 V0 D0) as (V1 & D1).
    match goal with |- TInv _ (if ?c then _ else _) => destruct c end; [|exact T1].
    apply drain_closing_T; auto. apply S1.
  - (* handle callback *)
    unfold h_cb. destruct (hvalid s h && negb (h_closed (hget s h))) eqn:U; [|exact T].
    apply andb_prop in U. destruct U as [Hv Hd]. apply negb_true_iff in Hd.
    apply ccallback_T; auto.
    apply Inv_ext with (s := emit s (EHCb h)); auto. apply Inv_emit; auto; try discriminate.
    intros h' [Ha|(r & Hr & _)] _; [|discriminate]. simpl in Ha. inversion Ha; subst. exact Hd.
  - apply fp_stat_T. exact T.
  - (* closing phase *)
    assert (Ie : Inv [] (emit s (EIn OPhase))).
    { apply Inv_emit; auto; try discriminate. intros h [Ha|(r & Hr & _)]; discriminate. }
    apply run_closing_T.
    + change (clq s) with (clq (emit s (EIn OPhase))). apply Inv_detach. exact Ie.
    + apply TInv_keep with (dl := []) (s := s); auto.
      * apply CFS_hs. reflexivity.
      * intros h c H. simpl in *. rewrite app_nil_r. exact H.
Qed.

Lemma crun_T beh os : forall s, Inv [] s -> TInv [] s -> TInv [] (crun s os beh).
Proof.
  induction os as [|o os IH]; intros s I T; cbn [crun]; auto.
  apply IH; [apply cstep_inv; exact I|apply cstep_T; auto].
Qed.

Theorem reachable_tinv os beh : TInv [] (crun cinit os beh).
Proof. apply crun_T; [apply Inv_init|apply TInv_init]. Qed.

(* the unconditional statement: nothing on the closing queue and no stat of h
   in flight => a closing handle has had its close callback *)
Theorem close_cb_eventually os beh h :
  let s := final os beh in
  clq s = [] -> hvalid s h = true -> h_closing (hget s h) = true ->
  has_stat (h_ctxs (hget s h)) = false ->
  In (ECloseCb h) (ctrace os beh).
Proof.
  intros s Hq Hv Hc Hs.
  destruct (close_cb_eventually_partial os beh h Hq Hv Hc) as [H|(Ty & Ne)]; [exact H|].
  exfalso. fold s in Ne. pose proof (reachable_tinv os beh h Hv) as X. fold s in X.
  destruct (h_ctxs (hget s h)) as [|c l] eqn:Ec; [apply Ne; reflexivity|].
  assert (Hin : In c (h_ctxs (hget s h))) by (rewrite Ec; left; reflexivity).
  destruct (t_dead _ _ _ _ X (or_intror Hc) c Hin) as [H|H].
  - unfold has_stat in Hs. simpl in Hs. rewrite H in Hs. discriminate.
  - pose proof (t_ct _ _ _ _ X c Hin H) as HC. change (In (CT h (c_id c)) (clq s)) in HC. rewrite Hq in HC. exact HC.
Qed.
