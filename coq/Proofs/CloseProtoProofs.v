(* Proofs about Model/CloseProto.v (C02): the close protocol for the handle
   types with work in flight.  The model keeps the whole history as a ghost
   field ([hist], newest first), so every clause is a state invariant. *)
From UV Require Import Lib.Base Model.CloseProto.
Local Open Scope Z_scope.

Ltac splits := repeat match goal with |- _ /\ _ => split end.

(* ------------------------------------------------------------------ *)
(* state access                                                       *)
(* ------------------------------------------------------------------ *)
Lemma hvalid_lt s h : hvalid s h = true <-> (h < length (hs s))%nat.
Proof. unfold hvalid. apply Nat.ltb_lt. Qed.

Lemma hvalid_false_dflt s h : hvalid s h = false -> hget s h = dflt_hs.
Proof.
  unfold hvalid, hget. intros H. apply Nat.ltb_ge in H. apply nth_overflow. exact H.
Qed.

Lemma nth_upd {A} (l : list A) i j f d :
  nth j (upd i f l) d = if Nat.eqb i j && Nat.ltb i (length l) then f (nth i l d) else nth j l d.
Proof.
  revert i j. induction l as [|x l IH]; intros i j.
  - simpl. rewrite andb_false_r. destruct i; reflexivity.
  - destruct i as [|i], j as [|j]; simpl; try reflexivity.
    rewrite IH. reflexivity.
Qed.

Lemma hget_upd s h f h' :
  hget (upd_h s h f) h' = if Nat.eqb h h' && hvalid s h then f (hget s h) else hget s h'.
Proof. unfold hget, upd_h, hvalid, set_hs. cbn [hs]. apply nth_upd. Qed.

Lemma hget_upd_same s h f : hvalid s h = true -> hget (upd_h s h f) h = f (hget s h).
Proof. intros H. rewrite hget_upd, Nat.eqb_refl, H. reflexivity. Qed.

Lemma hget_upd_other s h f h' : h <> h' -> hget (upd_h s h f) h' = hget s h'.
Proof. intros H. rewrite hget_upd. apply Nat.eqb_neq in H. rewrite H. reflexivity. Qed.

Lemma hvalid_upd s h f h' : hvalid (upd_h s h f) h' = hvalid s h'.
Proof. unfold hvalid, upd_h, set_hs. cbn [hs]. rewrite upd_length. reflexivity. Qed.

Lemma usable_valid s h : usable s h = true -> hvalid s h = true /\ h_closing (hget s h) = false.
Proof. unfold usable. intros H. apply andb_prop in H. destruct H as [A B]. apply negb_true_iff in B. auto. Qed.

Lemma lookup_cons_other r r' h l : r' <> r -> lookup r ((r', h) :: l) = lookup r l.
Proof. intros H. simpl. apply Nat.eqb_neq in H. rewrite H. reflexivity. Qed.

Lemma lookup_cons_same r h l : lookup r ((r, h) :: l) = Some h.
Proof. simpl. rewrite Nat.eqb_refl. reflexivity. Qed.

(* ------------------------------------------------------------------ *)
(* what an event is about                                             *)
(* ------------------------------------------------------------------ *)
Definition op_handle (o : cop) : option nat :=
  match o with
  | OAcquire h _ | ORelease h _ | OSubmit h _ _ | OSigPending h _ | OFpStart h | OFpStop h
  | OFpStat h | OClose h | OBatch h | OHCb h => Some h
  | _ => None
  end.

Definition op_req (o : cop) : option nat :=
  match o with
  | OSubmit _ r _ | ODone r _ | OReqCb r _ => Some r
  | _ => None
  end.

Definition ev_handle (e : cev) : option nat :=
  match e with
  | EIn o => op_handle o
  | EHCb h | ECloseCb h | ELeak h _ => Some h
  | EReqCb _ _ _ | ETouch _ => None
  end.

Definition ev_req (e : cev) : option nat :=
  match e with
  | EIn o => op_req o
  | EReqCb r _ _ => Some r
  | _ => None
  end.

(* event e concerns handle h: it names h, or it names a request accepted on h *)
Definition about (s : cstate) (e : cev) (h : nat) : Prop :=
  ev_handle e = Some h \/ (exists r, ev_req e = Some r /\ lookup r (owner s) = Some h).

Definition is_user_cb (e : cev) : bool :=
  match e with EReqCb _ _ _ | EHCb _ | ECloseCb _ => true | _ => false end.

Definition closecbs (l : list cev) : list nat :=
  flat_map (fun e => match e with ECloseCb h => [h] | _ => [] end) l.

Lemma closecbs_in l h : In h (closecbs l) <-> In (ECloseCb h) l.
Proof.
  unfold closecbs. rewrite in_flat_map. split.
  - intros (e & He & Hh). destruct e; simpl in Hh; try contradiction.
    destruct Hh as [<-|[]]. exact He.
  - intros H. exists (ECloseCb h). split; [exact H|simpl; auto].
Qed.

(* nothing about h after its close callback (history is newest first) *)
Definition NA (s : cstate) : Prop :=
  forall later e earlier h, hist s = later ++ e :: earlier -> In (ECloseCb h) earlier -> ~ about s e h.

(* ------------------------------------------------------------------ *)
(* the invariant                                                      *)
(* ------------------------------------------------------------------ *)
Definition oreq (o : option nat) : list nat := match o with Some r => [r] | None => [] end.
Definition qreqs (x : hst) : list nat :=
  oreq (h_conn x) ++ h_wq x ++ map fst (h_cq x) ++ oreq (h_shut x).

Definition chs (l : list centry) : list nat :=
  flat_map (fun e => match e with CH h => [h] | CT _ _ => [] end) l.

Lemma chs_in l h : In h (chs l) <-> In (CH h) l.
Proof.
  unfold chs. rewrite in_flat_map. split.
  - intros (e & He & Hh). destruct e; simpl in Hh; try contradiction.
    destruct Hh as [<-|[]]. exact He.
  - intros H. exists (CH h). split; [exact H|simpl; auto].
Qed.

Lemma chs_app a b : chs (a ++ b) = chs a ++ chs b.
Proof. unfold chs. apply flat_map_app. Qed.

(* per-handle part *)
Record HOK (dl : list centry) (s : cstate) (h : nat) (x : hst) : Prop := {
  k_closed : h_closed x = true -> h_closing x = true /\ h_ctxs x = [];
  k_ch : In (CH h) (dl ++ clq s) -> h_closing x = true /\ h_closed x = false /\ h_ctxs x = [];
  k_own : forall r, In r (qreqs x) -> lookup r (owner s) = Some h;
  k_owed : h_closing x = true -> h_closed x = false -> In (CH h) (dl ++ clq s) \/ h_ctxs x <> [];
  k_led : h_closing x = true -> h_ledger x = [];
  k_ev : In (ECloseCb h) (hist s) <-> h_closed x = true;
  k_ty : h_ctxs x <> [] -> h_ty x = TFsPoll
}.

Record Inv (dl : list centry) (s : cstate) : Prop := {
  j_h : forall h, hvalid s h = true -> HOK dl s h (hget s h);
  j_valid : forall e, In e (dl ++ clq s) ->
            match e with CH h | CT h _ => hvalid s h = true end;
  j_nd : NoDup (chs (dl ++ clq s));
  j_evv : forall h, In (ECloseCb h) (hist s) -> hvalid s h = true;
  j_once : NoDup (closecbs (hist s));
  j_na : NA s;
  j_ro : forall e r, In e (hist s) -> ev_req e = Some r -> lookup r (owner s) <> None;
  j_ov : forall r h, lookup r (owner s) = Some h -> hvalid s h = true;
  j_noleak : forall h r, ~ In (ELeak h r) (hist s)
}.

Lemma Inv_init : Inv [] cinit.
Proof.
  constructor; simpl.
  - intros h H. unfold hvalid in H. simpl in H. discriminate.
  - intros e [].
  - constructor.
  - intros h [].
  - constructor.
  - intros later e earlier h H. destruct later; discriminate.
  - intros e r [].
  - intros r h H. discriminate.
  - intros h r H. exact H.
Qed.

(* ------------------------------------------------------------------ *)
(* primitive steps                                                    *)
(* ------------------------------------------------------------------ *)

(* the state changed only in the record of handle h *)
Lemma Inv_upd dl s h f :
  Inv dl s -> hvalid s h = true ->
  HOK dl s h (f (hget s h)) ->
  Inv dl (upd_h s h f).
Proof.
  intros I Hv K. destruct I.
  constructor; try assumption.
  - intros h' Hv'. rewrite hvalid_upd in Hv'.
    destruct (Nat.eq_dec h h') as [<-|Hne].
    + rewrite hget_upd_same by exact Hv. destruct K; constructor; assumption.
    + rewrite hget_upd_other by exact Hne. destruct (j_h0 h' Hv'); constructor; assumption.
  - intros e He. specialize (j_valid0 e He). destruct e; rewrite hvalid_upd; exact j_valid0.
  - intros h' H'. rewrite hvalid_upd. apply j_evv0. exact H'.
  - intros r h' H'. rewrite hvalid_upd. eapply j_ov0. exact H'.
Qed.

(* an event is appended to the history *)
Lemma Inv_emit dl s e :
  Inv dl s ->
  (forall h, e <> ECloseCb h) -> (forall h r, e <> ELeak h r) ->
  (forall h, about s e h -> hvalid s h = true -> h_closed (hget s h) = false) ->
  (forall r, ev_req e = Some r -> lookup r (owner s) <> None) ->
  Inv dl (emit s e).
Proof.
  intros I Hnc Hnl Hab Hro. destruct I.
  constructor; try assumption.
  - intros h Hv. destruct (j_h0 h Hv). constructor; try assumption.
    cbn [hist emit]. simpl. split.
    + intros [E|H]; [exfalso; eapply Hnc; eauto|apply k_ev0; exact H].
    + intros H. right. apply k_ev0. exact H.
  - cbn [hist emit]. intros h [E|H]; [exfalso; eapply Hnc; eauto|apply j_evv0; exact H].
  - cbn [hist emit]. simpl. destruct e; try exact j_once0. exfalso. eapply Hnc; eauto.
  - intros later e0 earlier h Hs Hin.
    cbn [hist emit] in Hs. destruct later as [|e1 later]; simpl in Hs.
    + inversion Hs; subst e0 earlier. intros Ha.
      assert (Hv : hvalid s h = true) by (apply j_evv0; exact Hin).
      specialize (Hab h Ha Hv). destruct (j_h0 h Hv). apply k_ev0 in Hin. congruence.
    + inversion Hs; subst e1. eapply j_na0; eauto.
  - cbn [hist emit]. intros e0 r [<-|H] Hr; [apply Hro; exact Hr|eapply j_ro0; eauto].
  - cbn [hist emit]. intros h r [E|H]; [eapply Hnl; eauto|eapply j_noleak0; eauto].
Qed.

(* fields the invariant does not look at *)
Lemma Inv_ext dl s s' :
  Inv dl s -> hs s' = hs s -> clq s' = clq s -> owner s' = owner s -> hist s' = hist s ->
  Inv dl s'.
Proof.
  intros I A B C D. destruct s, s'; simpl in *; subst.
  destruct I; constructor; try assumption.
  intros h Hv. destruct (j_h0 h Hv). constructor; assumption.
Qed.

Lemma in_app_cons {A} (x e : A) l1 l2 : In x (l1 ++ e :: l2) <-> x = e \/ In x (l1 ++ l2).
Proof.
  rewrite !in_app_iff. simpl. intuition congruence.
Qed.

(* the closing lists change (detached, entry taken off, entry pushed) *)
Lemma Inv_lists dl s dl' q' :
  Inv dl s ->
  (forall h, In (CH h) (dl' ++ q') -> In (CH h) (dl ++ clq s) \/
     (hvalid s h = true /\ h_closing (hget s h) = true /\ h_closed (hget s h) = false /\
      h_ctxs (hget s h) = [])) ->
  (forall h c, In (CT h c) (dl' ++ q') -> In (CT h c) (dl ++ clq s) \/ hvalid s h = true) ->
  (forall h, In (CH h) (dl ++ clq s) -> In (CH h) (dl' ++ q') \/ h_closed (hget s h) = true) ->
  NoDup (chs (dl' ++ q')) ->
  Inv dl' (set_clq s q').
Proof.
  intros I A B C D. destruct I.
  constructor; try assumption.
  - intros h Hv. change (hvalid (set_clq s q') h) with (hvalid s h) in Hv.
    change (hget (set_clq s q') h) with (hget s h).
    destruct (j_h0 h Hv). constructor; try assumption.
    + change (clq (set_clq s q')) with q'. intros H. destruct (A h H) as [H1|(_ & H1 & H2 & H3)]; auto.
    + change (clq (set_clq s q')) with q'. intros H1 H2. destruct (k_owed0 H1 H2) as [H3|H3]; auto.
      destruct (C h H3) as [H4|H4]; auto. congruence.
  - change (clq (set_clq s q')) with q'. intros e He.
    destruct e as [h|h c].
    + destruct (A h He) as [H1|(H1 & _)]; auto. apply (j_valid0 (CH h) H1).
    + destruct (B h c He) as [H1|H1]; auto. apply (j_valid0 (CT h c) H1).
Qed.

Lemma NoDup_chs_add dl q h :
  NoDup (chs (dl ++ q)) -> ~ In (CH h) (dl ++ q) -> NoDup (chs (dl ++ CH h :: q)).
Proof.
  intros N H. rewrite chs_app in *. simpl.
  apply (proj2 (NoDup_Add (Add_app h (chs dl) (chs q)))). split; [exact N|].
  rewrite <- chs_app, chs_in. exact H.
Qed.

Lemma NoDup_chs_ct dl q h c : NoDup (chs (dl ++ q)) -> NoDup (chs (dl ++ CT h c :: q)).
Proof. rewrite !chs_app. simpl. auto. Qed.

Lemma Inv_push_ch dl s h :
  Inv dl s -> hvalid s h = true -> h_closing (hget s h) = true -> h_closed (hget s h) = false ->
  h_ctxs (hget s h) = [] -> ~ In (CH h) (dl ++ clq s) ->
  Inv dl (push_clq s (CH h)).
Proof.
  intros I Hv H1 H2 H3 H4. unfold push_clq. apply Inv_lists with (dl := dl); auto.
  - intros h' H. apply in_app_cons in H. destruct H as [E|H]; auto. inversion E; subst. right; auto.
  - intros h' c H. apply in_app_cons in H. destruct H as [E|H]; auto. discriminate.
  - intros h' H. left. apply in_app_cons. auto.
  - apply NoDup_chs_add; auto. apply (j_nd _ _ I).
Qed.

Lemma Inv_push_ct dl s h c :
  Inv dl s -> hvalid s h = true ->
  Inv dl (push_clq s (CT h c)).
Proof.
  intros I Hv. unfold push_clq. apply Inv_lists with (dl := dl); auto.
  - intros h' H. apply in_app_cons in H. destruct H as [E|H]; auto. discriminate.
  - intros h' c' H. apply in_app_cons in H. destruct H as [E|H]; auto. inversion E; subst. right; auto.
  - intros h' H. left. apply in_app_cons. auto.
  - apply NoDup_chs_ct. apply (j_nd _ _ I).
Qed.

(* OInit *)
Lemma hget_app_old s x h : hvalid s h = true -> hget (set_hs s (hs s ++ [x])) h = hget s h.
Proof. intros H. apply hvalid_lt in H. unfold hget, set_hs. cbn [hs]. apply app_nth1. exact H. Qed.

Lemma hget_app_new s x : hget (set_hs s (hs s ++ [x])) (length (hs s)) = x.
Proof. unfold hget, set_hs. cbn [hs]. rewrite app_nth2 by lia. rewrite Nat.sub_diag. reflexivity. Qed.

Lemma Inv_newh dl s t :
  Inv dl s -> Inv dl (set_hs s (hs s ++ [mkHS t false false None [] [] None [] 0 false []])).
Proof.
  intros I. pose proof I as I0. destruct I.
  set (x := mkHS t false false None [] [] None [] 0 false []).
  assert (VV : forall h, hvalid s h = true -> hvalid (set_hs s (hs s ++ [x])) h = true).
  { intros h H. apply hvalid_lt in H. apply hvalid_lt. cbn [hs set_hs]. rewrite app_length. simpl. lia. }
  constructor; try assumption.
  - intros h Hv. apply hvalid_lt in Hv. cbn [hs set_hs] in Hv. rewrite app_length in Hv. simpl in Hv.
    destruct (Nat.eq_dec h (length (hs s))) as [->|Hne].
    + rewrite hget_app_new.
      assert (NV : hvalid s (length (hs s)) = false) by (unfold hvalid; apply Nat.ltb_irrefl).
      constructor; simpl; try discriminate; try tauto; try congruence.
      * intros H. specialize (j_valid0 _ H). simpl in j_valid0. congruence.
      * split; [|discriminate]. intros H. apply j_evv0 in H. congruence.
    + assert (Hv' : hvalid s h = true) by (apply hvalid_lt; lia).
      rewrite hget_app_old by exact Hv'. destruct (j_h0 h Hv'). constructor; assumption.
  - intros e He. specialize (j_valid0 e He). destruct e; apply VV; exact j_valid0.
  - intros h H. apply VV. apply j_evv0. exact H.
  - intros r h H. apply VV. eapply j_ov0. exact H.
Qed.

(* OSubmit: a fresh request id gets an owner *)
Lemma NA_owner s r h :
  lookup r (owner s) = None ->
  (forall e r', In e (hist s) -> ev_req e = Some r' -> lookup r' (owner s) <> None) ->
  NA s -> NA (set_owner s ((r, h) :: owner s)).
Proof.
  intros F RO N later e earlier h' Hs Hin [Ha|(r' & Hr & Hl)].
  - eapply N; eauto. left. exact Ha.
  - change (hist (set_owner s ((r, h) :: owner s))) with (hist s) in Hs.
    change (owner (set_owner s ((r, h) :: owner s))) with ((r, h) :: owner s) in Hl.
    assert (Hne : r <> r').
    { intros <-. eapply RO; [|exact Hr|exact F]. rewrite Hs. apply in_or_app. right. left. reflexivity. }
    rewrite lookup_cons_other in Hl by exact Hne.
    eapply N; eauto. right. exists r'. auto.
Qed.

Lemma Inv_owner dl s r h :
  Inv dl s -> lookup r (owner s) = None -> hvalid s h = true ->
  Inv dl (set_owner s ((r, h) :: owner s)).
Proof.
  intros I F Hv. destruct I.
  constructor; try assumption.
  - intros h' Hv'. destruct (j_h0 h' Hv'). constructor; try assumption.
    intros r' Hr. change (owner (set_owner s ((r, h) :: owner s))) with ((r, h) :: owner s).
    specialize (k_own0 r' Hr).
    rewrite lookup_cons_other; [exact k_own0|]. intros <-. congruence.
  - apply NA_owner; assumption.
  - intros e r' He Hr. change (owner (set_owner s ((r, h) :: owner s))) with ((r, h) :: owner s).
    simpl. destruct (Nat.eqb r r'); [discriminate|]. eapply j_ro0; eauto.
  - intros r' h'. change (owner (set_owner s ((r, h) :: owner s))) with ((r, h) :: owner s).
    simpl. destruct (Nat.eqb r r'); [intros E; inversion E; subst; exact Hv|apply j_ov0].
Qed.

(* ------------------------------------------------------------------ *)
(* what a step never changes                                          *)
(* ------------------------------------------------------------------ *)
Definition Frame (s s' : cstate) : Prop :=
  (forall h, hvalid s h = true ->
     hvalid s' h = true /\ h_closed (hget s' h) = h_closed (hget s h) /\
     h_ty (hget s' h) = h_ty (hget s h) /\
     (h_closing (hget s h) = true -> h_closing (hget s' h) = true)) /\
  (forall r h, lookup r (owner s) = Some h -> lookup r (owner s') = Some h).

Lemma Frame_refl s : Frame s s.
Proof. split; intros; auto. Qed.

Lemma Frame_trans a b c : Frame a b -> Frame b c -> Frame a c.
Proof.
  intros [A1 A2] [B1 B2]. split.
  - intros h H. destruct (A1 h H) as (V & C & T & G). destruct (B1 h V) as (V' & C' & T' & G').
    repeat split; auto; congruence.
  - intros r h H. auto.
Qed.

Lemma Frame_upd s h f :
  (h_closed (f (hget s h)) = h_closed (hget s h)) ->
  (h_ty (f (hget s h)) = h_ty (hget s h)) ->
  (h_closing (hget s h) = true -> h_closing (f (hget s h)) = true) ->
  Frame s (upd_h s h f).
Proof.
  intros A B C. split; [|intros; auto].
  intros h' Hv. rewrite hvalid_upd. split; [exact Hv|].
  rewrite hget_upd. destruct (Nat.eqb h h' && hvalid s h) eqn:E; [|auto].
  apply andb_prop in E. destruct E as [E _]. apply Nat.eqb_eq in E. subst h'. auto.
Qed.

Lemma Frame_same_hs s s' :
  hs s' = hs s -> owner s' = owner s -> Frame s s'.
Proof.
  intros A B. split.
  - intros h H. unfold hvalid, hget in *. rewrite A. auto.
  - intros r h H. rewrite B. exact H.
Qed.

Lemma Frame_emit s e : Frame s (emit s e).
Proof. apply Frame_same_hs; reflexivity. Qed.

Lemma Frame_push s e : Frame s (push_clq s e).
Proof. apply Frame_same_hs; reflexivity. Qed.

(* ------------------------------------------------------------------ *)
(* API operations                                                     *)
(* ------------------------------------------------------------------ *)
Lemma HOK_not_closing dl s h x : HOK dl s h x -> h_closing x = false -> h_closed x = false.
Proof.
  intros K H. destruct (h_closed x) eqn:E; auto. destruct (k_closed _ _ _ _ K E). congruence.
Qed.

Lemma HOK_frame dl s h x y :
  HOK dl s h x -> h_closing y = h_closing x -> h_closed y = h_closed x -> h_ctxs y = h_ctxs x ->
  h_ty y = h_ty x ->
  (forall r, In r (qreqs y) -> In r (qreqs x)) ->
  (h_closing y = true -> h_ledger y = []) -> HOK dl s h y.
Proof.
  intros K A B C T D E. destruct K. constructor; rewrite ?A, ?B, ?C, ?T; auto.
  rewrite <- A. exact E.
Qed.

Lemma about_handle_only s e h h' :
  ev_handle e = Some h -> ev_req e = None -> about s e h' -> h' = h.
Proof. intros A B [C|(r & C & _)]; congruence. Qed.

(* emitting the echo of an operation on a usable handle h *)
Lemma Inv_emit_op dl s o h :
  Inv dl s -> op_handle o = Some h -> op_req o = None ->
  hvalid s h = true -> h_closed (hget s h) = false ->
  Inv dl (emit s (EIn o)).
Proof.
  intros I A B Hv Hc. apply Inv_emit; auto; try discriminate.
  - intros h' Ha _. apply (about_handle_only s (EIn o) h h' A B) in Ha. subst. exact Hc.
  - simpl. rewrite B. discriminate.
Qed.

Lemma qreqs_conn x r : qreqs (w_conn (Some r) x) = r :: h_wq x ++ map fst (h_cq x) ++ oreq (h_shut x).
Proof. reflexivity. Qed.

Lemma fp_stop_spec dl s h :
  Inv dl s -> hvalid s h = true -> Inv dl (fp_stop s h) /\ Frame s (fp_stop s h) /\
  (h_closing (hget (fp_stop s h) h) = h_closing (hget s h)) /\
  (h_closed (hget (fp_stop s h) h) = h_closed (hget s h)) /\
  (h_ledger (hget (fp_stop s h) h) = h_ledger (hget s h)) /\
  (h_ctxs (hget s h) = [] -> h_ctxs (hget (fp_stop s h) h) = []) /\
  (h_ctxs (hget s h) <> [] -> h_ctxs (hget (fp_stop s h) h) <> []) /\
  (forall e, In e (clq s) -> In e (clq (fp_stop s h))) /\
  (forall h', In (CH h') (clq (fp_stop s h)) -> In (CH h') (clq s)).
Proof.
  intros I Hv. unfold fp_stop.
  destruct (h_active (hget s h)) eqn:Ea.
  2:{ splits; auto. apply Frame_refl. }
  pose proof (j_h _ _ I h Hv) as K.
  assert (Plain : forall (P : cstate -> Prop),
            (h_ctxs (hget s h) = [] \/ exists c rest, h_ctxs (hget s h) = c :: rest /\ Nat.eqb (c_timer c) 1 = false) ->
            Inv dl (upd_h s h (w_active false)) /\ Frame s (upd_h s h (w_active false)) /\
            hget (upd_h s h (w_active false)) h = w_active false (hget s h)).
  { intros _ _. splits.
    - apply Inv_upd; auto. eapply HOK_frame; eauto. apply (k_led _ _ _ _ K).
    - apply Frame_upd; auto.
    - apply hget_upd_same; exact Hv. }
  destruct (h_ctxs (hget s h)) as [|c rest] eqn:Ec.
  - destruct (Plain (fun _ => True)) as (I1 & F1 & G1); [left; reflexivity|].
    splits; auto; try (rewrite G1; cbn; auto; fail);
      try (intros H; exfalso; apply H; reflexivity).
  - destruct (Nat.eqb (c_timer c) 1) eqn:Et.
    + (* the timer of the head context is closed *)
      set (s1 := upd_h s h (w_ctxs (mkC (c_id c) (c_stat c) 2 :: rest))).
      assert (I1 : Inv dl s1).
      { apply Inv_upd; auto. destruct K. constructor; cbn [h_closed h_closing h_ctxs h_ledger qreqs h_conn h_wq h_cq h_shut w_ctxs h_ty]; auto.
        - intros H. destruct (k_closed0 H). congruence.
        - intros H. destruct (k_ch0 H) as (_ & _ & H'). congruence.
        - intros H1 H2. right. discriminate.
        - intros _. apply k_ty0. rewrite Ec. discriminate. }
      assert (V1 : hvalid s1 h = true) by (unfold s1; rewrite hvalid_upd; exact Hv).
      assert (G1 : hget s1 h = w_ctxs (mkC (c_id c) (c_stat c) 2 :: rest) (hget s h))
        by (unfold s1; apply hget_upd_same; exact Hv).
      assert (I2 : Inv dl (push_clq s1 (CT h (c_id c)))).
      { apply Inv_push_ct; auto. }
      assert (V2 : hvalid (push_clq s1 (CT h (c_id c))) h = true) by exact V1.
      assert (I3 : Inv dl (upd_h (push_clq s1 (CT h (c_id c))) h (w_active false))).
      { apply Inv_upd; auto. eapply HOK_frame; [apply (j_h _ _ I2 h V2)|..]; auto.
        apply (k_led _ _ _ _ (j_h _ _ I2 h V2)). }
      assert (G3 : hget (upd_h (push_clq s1 (CT h (c_id c))) h (w_active false)) h =
                   w_active false (w_ctxs (mkC (c_id c) (c_stat c) 2 :: rest) (hget s h))).
      { rewrite hget_upd_same by exact V2. change (hget (push_clq s1 (CT h (c_id c))) h) with (hget s1 h).
        rewrite G1. reflexivity. }
      assert (F3 : Frame s (upd_h (push_clq s1 (CT h (c_id c))) h (w_active false))).
      { apply Frame_trans with (b := s1); [unfold s1; apply Frame_upd; auto|].
        apply Frame_trans with (b := push_clq s1 (CT h (c_id c))); [apply Frame_push|].
        apply Frame_upd; auto. }
      splits.
      * exact I3.
      * exact F3.
      * rewrite G3. reflexivity.
      * rewrite G3. reflexivity.
      * rewrite G3. reflexivity.
      * intros H. discriminate.
      * intros _. rewrite G3. cbn. discriminate.
      * intros e He. cbn. right. exact He.
      * intros h' H. cbn in H. destruct H as [E|H]; [discriminate|exact H].
    + destruct (Plain (fun _ => True)) as (I1 & F1 & G1); [right; eauto|].
      splits; auto; try (rewrite G1; cbn; auto; fail);
        try (intros H; discriminate); try (intros _; rewrite G1; cbn; rewrite Ec; discriminate).
Qed.

(* re-establish the per-handle and list parts in one go; the history, the
   owners and the handle table size are unchanged *)
Lemma Inv_step_gen dl s dl' s' :
  Inv dl s -> hist s' = hist s -> owner s' = owner s -> length (hs s') = length (hs s) ->
  (forall h, hvalid s h = true -> HOK dl' s' h (hget s' h)) ->
  (forall e, In e (dl' ++ clq s') -> match e with CH h | CT h _ => hvalid s h = true end) ->
  NoDup (chs (dl' ++ clq s')) ->
  Inv dl' s'.
Proof.
  intros I A B C D E F. destruct I.
  assert (VV : forall h, hvalid s' h = hvalid s h) by (intros h; unfold hvalid; rewrite C; reflexivity).
  constructor; try assumption.
  - intros h Hv. rewrite VV in Hv. auto.
  - intros e He. specialize (E e He). destruct e; rewrite VV; exact E.
  - intros h. rewrite A, VV. apply j_evv0.
  - rewrite A. exact j_once0.
  - intros later e earlier h Hs Hin [Ha|(r & Hr & Hl)]; rewrite A in Hs.
    + eapply j_na0; eauto. left. exact Ha.
    + rewrite B in Hl. eapply j_na0; eauto. right. eauto.
  - intros e r. rewrite A, B. apply j_ro0.
  - intros r h. rewrite B, VV. apply j_ov0.
  - intros h r. rewrite A. apply j_noleak0.
Qed.

Lemma HOK_lists dl s h x dl' s' :
  HOK dl s h x -> owner s' = owner s -> hist s' = hist s ->
  (In (CH h) (dl' ++ clq s') <-> In (CH h) (dl ++ clq s)) ->
  HOK dl' s' h x.
Proof.
  intros K A B C. destruct K. constructor; auto.
  - intros H. apply k_ch0. apply C. exact H.
  - intros r H. rewrite A. auto.
  - intros H1 H2. destruct (k_owed0 H1 H2); auto. left. apply C. assumption.
  - rewrite B. exact k_ev0.
Qed.

Definition Step (dl : list centry) (s s' : cstate) : Prop := Inv dl s' /\ Frame s s'.

Lemma Step_refl dl s : Inv dl s -> Step dl s s.
Proof. intros I. split; [exact I|apply Frame_refl]. Qed.

Lemma Step_trans dl a b c : Step dl a b -> (Inv dl b -> Step dl b c) -> Step dl a c.
Proof. intros [I F] H. destruct (H I) as [I' F']. split; [exact I'|eapply Frame_trans; eauto]. Qed.

(* an operation that rewrites the record of a usable handle and echoes itself *)
Lemma simple_op dl s h f o :
  Inv dl s -> hvalid s h = true -> h_closed (hget s h) = false ->
  op_handle o = Some h -> op_req o = None ->
  h_closing (f (hget s h)) = h_closing (hget s h) ->
  h_closed (f (hget s h)) = h_closed (hget s h) ->
  h_ctxs (f (hget s h)) = h_ctxs (hget s h) ->
  h_ty (f (hget s h)) = h_ty (hget s h) ->
  (forall r, In r (qreqs (f (hget s h))) -> In r (qreqs (hget s h))) ->
  (h_closing (f (hget s h)) = true -> h_ledger (f (hget s h)) = []) ->
  Step dl s (emit (upd_h s h f) (EIn o)).
Proof.
  intros I Hv Hc A B C1 C2 C3 C4 C5 C6.
  assert (I1 : Inv dl (upd_h s h f)).
  { apply Inv_upd; auto. eapply HOK_frame; eauto. apply (j_h _ _ I h Hv). }
  split.
  - apply Inv_emit_op with (h := h); auto.
    + rewrite hvalid_upd. exact Hv.
    + rewrite hget_upd_same by exact Hv. congruence.
  - apply Frame_trans with (b := upd_h s h f); [|apply Frame_emit].
    apply Frame_upd; auto. congruence.
Qed.

Lemma remove1_in x y l : In y (remove1 x l) -> In y l.
Proof.
  induction l as [|z l IH]; simpl; auto. destruct (Nat.eqb x z); simpl; intuition.
Qed.

(* uv_close: the record of h becomes y (closing, nothing owned), and either the
   handle itself or a context timer goes onto the closing list, or contexts
   remain that will do it later *)
Lemma close_like dl s h s' y ne :
  Inv dl s -> hvalid s h = true -> h_closing (hget s h) = false ->
  hist s' = hist s -> owner s' = owner s -> length (hs s') = length (hs s) ->
  (forall h', h' <> h -> hget s' h' = hget s h') -> hget s' h = y ->
  h_closing y = true -> h_closed y = false -> h_ledger y = [] -> h_ty y = h_ty (hget s h) ->
  qreqs y = qreqs (hget s h) -> (h_ctxs y = [] <-> h_ctxs (hget s h) = []) ->
  clq s' = match ne with Some e => e :: clq s | None => clq s end ->
  match ne with
  | Some (CH h') => h' = h /\ h_ctxs y = []
  | Some (CT h' c) => h' = h /\ h_ctxs y <> []
  | None => h_ctxs y <> []
  end ->
  Step dl s s'.
Proof.
  intros I Hv Hc A B C D E Y1 Y2 Y3 Y4 Y5 Y6 Q1 Q2.
  pose proof (j_h _ _ I h Hv) as K.
  assert (NC : ~ In (CH h) (dl ++ clq s)).
  { intros H. destruct (k_ch _ _ _ _ K H). congruence. }
  assert (Hd : h_closed (hget s h) = false) by (eapply HOK_not_closing; eauto).
  assert (MEM : forall e, In e (dl ++ clq s') <-> (Some e = ne \/ In e (dl ++ clq s))).
  { intros e. rewrite Q1. destruct ne as [e0|].
    - rewrite in_app_cons. split; intros [H|H]; auto; left; congruence.
    - split; auto. intros [H|H]; [discriminate|auto]. }
  assert (VV : forall h', hvalid s' h' = hvalid s h') by (intros h'; unfold hvalid; rewrite C; reflexivity).
  split.
  - apply Inv_step_gen with (dl := dl) (s := s); auto.
    + intros h' Hv'. destruct (Nat.eq_dec h' h) as [->|Hne].
      * rewrite E. destruct K. constructor; rewrite ?A, ?B, ?Y5; auto.
        -- intros H. congruence.
        -- intros H. apply MEM in H. destruct H as [H|H]; [|tauto].
           subst ne. destruct Q2 as (_ & Q2). auto.
        -- intros _ _. destruct ne as [[h'|h' c]|].
           ++ destruct Q2 as (-> & _). left. apply MEM. auto.
           ++ destruct Q2 as (_ & Q2). right. exact Q2.
           ++ right. exact Q2.
        -- rewrite Y2, <- Hd. exact k_ev0.
        -- intros H. rewrite Y4. apply k_ty0. intros E0. apply H. apply Y6. exact E0.
      * rewrite D by exact Hne. apply HOK_lists with (dl := dl) (s := s); auto.
        -- apply (j_h _ _ I h' Hv').
        -- rewrite MEM. split; auto. intros [H|H]; auto. subst ne. destruct Q2 as (Q2 & _). congruence.
    + intros e He. apply MEM in He. destruct He as [He|He].
      * subst ne. destruct e; destruct Q2 as (-> & _); exact Hv.
      * apply (j_valid _ _ I e He).
    + rewrite Q1. destruct ne as [[h'|h' c]|].
      * destruct Q2 as (-> & _). apply NoDup_chs_add; auto. apply (j_nd _ _ I).
      * apply NoDup_chs_ct. apply (j_nd _ _ I).
      * apply (j_nd _ _ I).
  - split.
    + intros h' Hv'. rewrite VV. split; [exact Hv'|].
      destruct (Nat.eq_dec h' h) as [->|Hne].
      * rewrite E. splits; auto; congruence.
      * rewrite D by exact Hne. auto.
    + intros r h'. rewrite B. auto.
Qed.

Lemma hget_push s e h : hget (push_clq s e) h = hget s h.
Proof. reflexivity. Qed.

Lemma hvalid_push s e h : hvalid (push_clq s e) h = hvalid s h.
Proof. reflexivity. Qed.

Lemma len_upd_h s h f : length (hs (upd_h s h f)) = length (hs s).
Proof. unfold upd_h, set_hs. cbn [hs]. apply upd_length. Qed.

Lemma c_close_step dl s h :
  Inv dl s -> hvalid s h = true -> h_closing (hget s h) = false -> Step dl s (c_close s h).
Proof.
  intros I Hv Hc. unfold c_close.
  pose proof (j_h _ _ I h Hv) as K.
  assert (Hd : h_closed (hget s h) = false) by (eapply HOK_not_closing; eauto).
  set (g := fun x => w_ledger [] (w_closing true x)).
  set (s1 := upd_h s h g).
  assert (G1 : hget s1 h = g (hget s h)) by (apply hget_upd_same; exact Hv).
  assert (V1 : hvalid s1 h = true) by (unfold s1; rewrite hvalid_upd; exact Hv).
  assert (O1 : forall h', h' <> h -> hget s1 h' = hget s h')
    by (intros h' Hne; unfold s1; apply hget_upd_other; auto).
  assert (PUSH : h_ctxs (hget s h) = [] -> Step dl s (push_clq s1 (CH h))).
  { intros Ec. apply close_like with (h := h) (y := g (hget s h)) (ne := Some (CH h)); auto; try (cbn; tauto).
    unfold s1. cbn [push_clq set_clq hs]. apply len_upd_h. }
  destruct (h_ty (hget s h)) eqn:Ty;
    try (apply PUSH; destruct (h_ctxs (hget s h)) eqn:Ec; auto;
         assert (Ht : h_ty (hget s h) = TFsPoll) by (apply (k_ty _ _ _ _ K); rewrite Ec; discriminate);
         congruence).
  (* fs_poll *)
  unfold fp_stop. rewrite G1. cbn [g h_active w_ledger w_closing].
  destruct (h_active (hget s h)) eqn:Ea.
  2:{ rewrite G1. cbn [g h_ctxs w_ledger w_closing].
      destruct (h_ctxs (hget s h)) as [|c rest] eqn:Ec; [apply PUSH; reflexivity|].
      apply close_like with (h := h) (y := g (hget s h)) (ne := None); auto; try (cbn; tauto).
      - apply len_upd_h.
      - cbn. rewrite Ec. discriminate. }
  change (h_ctxs (g (hget s h))) with (h_ctxs (hget s h)).
  destruct (h_ctxs (hget s h)) as [|c rest] eqn:Ec.
  - (* active, no context *)
    rewrite hget_upd_same by exact V1. rewrite G1. cbn [g h_ctxs w_active w_ledger w_closing]. rewrite Ec.
    apply close_like with (h := h) (y := w_active false (g (hget s h))) (ne := Some (CH h)); auto; try (cbn; tauto).
    + cbn [push_clq set_clq hs]. rewrite len_upd_h. apply len_upd_h.
    + intros h' Hne. rewrite hget_push, hget_upd_other by auto. auto.
    + rewrite hget_push, hget_upd_same by exact V1. rewrite G1. reflexivity.
  - destruct (Nat.eqb (c_timer c) 1) eqn:Et.
    + set (y := w_active false (w_ctxs (mkC (c_id c) (c_stat c) 2 :: rest) (g (hget s h)))).
      set (s2 := upd_h (push_clq (upd_h s1 h (w_ctxs (mkC (c_id c) (c_stat c) 2 :: rest))) (CT h (c_id c))) h (w_active false)).
      assert (G2 : hget s2 h = y).
      { unfold s2. rewrite hget_upd_same by (rewrite hvalid_push, hvalid_upd; exact V1).
        rewrite hget_push, hget_upd_same by exact V1. rewrite G1. reflexivity. }
      rewrite G2. cbn [y h_ctxs w_active w_ctxs].
      apply close_like with (h := h) (y := y) (ne := Some (CT h (c_id c))); auto; try (cbn; tauto).
      * unfold s2. rewrite len_upd_h. cbn [push_clq set_clq hs]. rewrite len_upd_h. apply len_upd_h.
      * intros h' Hne. unfold s2. rewrite hget_upd_other by auto. rewrite hget_push, hget_upd_other by auto. auto.
      * cbn. rewrite Ec. split; discriminate.
      * split; auto. cbn. discriminate.
    + set (y := w_active false (g (hget s h))).
      rewrite hget_upd_same by exact V1. rewrite G1. cbn [g h_ctxs w_active w_ledger w_closing]. rewrite Ec.
      apply close_like with (h := h) (y := y) (ne := None); auto; try (cbn; tauto).
      * rewrite len_upd_h. apply len_upd_h.
      * intros h' Hne. rewrite hget_upd_other by auto. auto.
      * rewrite hget_upd_same by exact V1. rewrite G1. reflexivity.
      * cbn. rewrite Ec. discriminate.
Qed.

Lemma Frame_newh s x : Frame s (set_hs s (hs s ++ [x])).
Proof.
  split; [|intros; auto].
  intros h Hv. rewrite hget_app_old by exact Hv. splits; auto.
  apply hvalid_lt in Hv. apply hvalid_lt. cbn [hs set_hs]. rewrite app_length. simpl. lia.
Qed.

(* the echo of an operation that names request r (accepted on h) and possibly h itself *)
Lemma Inv_emit_opr dl s o h r :
  Inv dl s -> (op_handle o = Some h \/ op_handle o = None) -> op_req o = Some r ->
  lookup r (owner s) = Some h -> hvalid s h = true -> h_closed (hget s h) = false ->
  Inv dl (emit s (EIn o)).
Proof.
  intros I A B L Hv Hc. apply Inv_emit; auto; try discriminate.
  - intros h' [Ha|(r' & Hr & Hl)] _.
    + simpl in Ha. destruct A as [A|A]; congruence.
    + simpl in Hr. assert (r' = r) by congruence. subst. assert (h' = h) by congruence. subst. exact Hc.
  - simpl. intros r' Hr. assert (r' = r) by congruence. subst. congruence.
Qed.

Lemma HOK_reqs dl s h x y :
  HOK dl s h x -> h_closing y = h_closing x -> h_closed y = h_closed x -> h_ctxs y = h_ctxs x ->
  h_ty y = h_ty x -> h_ledger y = h_ledger x ->
  (forall r, In r (qreqs y) -> lookup r (owner s) = Some h) -> HOK dl s h y.
Proof.
  intros K A B C T L D. destruct K. constructor; rewrite ?A, ?B, ?C, ?T, ?L; auto.
Qed.

Lemma in_qreqs x r :
  In r (qreqs x) <-> (h_conn x = Some r \/ In r (h_wq x) \/ In r (map fst (h_cq x)) \/ h_shut x = Some r).
Proof.
  unfold qreqs. rewrite !in_app_iff. unfold oreq.
  destruct (h_conn x), (h_shut x); simpl; split; intros H;
    repeat match goal with H : _ \/ _ |- _ => destruct H | H : False |- _ => destruct H end;
    subst; auto; try discriminate;
    try match goal with H : Some _ = Some _ |- _ => inversion H; subst; auto end.
Qed.

(* OSubmit *)
Lemma submit_step dl s h r k f :
  Inv dl s -> hvalid s h = true -> h_closing (hget s h) = false ->
  lookup r (owner s) = None ->
  h_closing (f (hget s h)) = h_closing (hget s h) -> h_closed (f (hget s h)) = h_closed (hget s h) ->
  h_ctxs (f (hget s h)) = h_ctxs (hget s h) -> h_ty (f (hget s h)) = h_ty (hget s h) ->
  h_ledger (f (hget s h)) = h_ledger (hget s h) ->
  (forall r', In r' (qreqs (f (hget s h))) -> r' = r \/ In r' (qreqs (hget s h))) ->
  Step dl s (emit (upd_h (set_owner s ((r, h) :: owner s)) h f) (EIn (OSubmit h r k))).
Proof.
  intros I Hv Hc Fr A B C T L Q.
  set (s1 := set_owner s ((r, h) :: owner s)).
  assert (I1 : Inv dl s1) by (apply Inv_owner; auto).
  assert (Hd : h_closed (hget s h) = false) by (eapply HOK_not_closing; [apply (j_h _ _ I h Hv)|exact Hc]).
  assert (I2 : Inv dl (upd_h s1 h f)).
  { apply Inv_upd; auto. eapply HOK_reqs; [apply (j_h _ _ I1 h Hv)|..]; auto.
    intros r' Hr. destruct (Q r' Hr) as [->|H].
    - apply lookup_cons_same.
    - apply (k_own _ _ _ _ (j_h _ _ I1 h Hv)). exact H. }
  split.
  - apply Inv_emit_opr with (h := h) (r := r); auto.
    + apply lookup_cons_same.
    + rewrite hvalid_upd. exact Hv.
    + rewrite hget_upd_same by exact Hv. change (hget s1 h) with (hget s h). congruence.
  - apply Frame_trans with (b := s1).
    + split; [intros h' H; auto|]. intros r' h' H. unfold s1. cbn [owner set_owner].
      rewrite lookup_cons_other; auto. intros <-. congruence.
    + apply Frame_trans with (b := upd_h s1 h f); [|apply Frame_emit].
      apply Frame_upd; auto. change (hget s1 h) with (hget s h). congruence.
Qed.

Lemma capi_step dl s o : Inv dl s -> Step dl s (capi s o).
Proof.
  intros I. destruct o; cbn [capi]; try (apply Step_refl; exact I).
  - (* OInit *)
    split.
    + apply Inv_emit; try discriminate; [apply Inv_newh; exact I|..];
        try (intros h [Ha|(r & Hr & _)]; discriminate); try (intros r Hr; discriminate).
    + eapply Frame_trans; [apply Frame_newh|apply Frame_emit].
  - (* OAcquire *)
    destruct (usable s h) eqn:U; [|apply Step_refl; exact I].
    apply usable_valid in U. destruct U as [Hv Hc].
    apply simple_op; auto.
    + eapply HOK_not_closing; [apply (j_h _ _ I h Hv)|exact Hc].
    + cbn. congruence.
  - (* ORelease *)
    destruct (usable s h) eqn:U; [|apply Step_refl; exact I].
    apply usable_valid in U. destruct U as [Hv Hc].
    apply simple_op; auto.
    + eapply HOK_not_closing; [apply (j_h _ _ I h Hv)|exact Hc].
    + cbn. congruence.
  - (* OSubmit *)
    destruct (usable s h && match lookup r (owner s) with None => true | Some _ => false end) eqn:U;
      [|apply Step_refl; exact I].
    apply andb_prop in U. destruct U as [U Fr]. apply usable_valid in U. destruct U as [Hv Hc].
    destruct (lookup r (owner s)) eqn:Lr; [discriminate|].
    destruct kind as [|[|[|[|kind]]]]; destruct (h_ty (hget s h)) eqn:Ty; try (apply Step_refl; exact I).
    + destruct (h_conn (hget s h)) eqn:Ec; [apply Step_refl; exact I|].
      apply submit_step; auto. intros r'. rewrite !in_qreqs. cbn. rewrite Ec.
      intros [H|H]; [inversion H; auto|right; right; exact H].
    + apply submit_step; auto. intros r'. rewrite !in_qreqs. cbn. rewrite in_app_iff. simpl. intuition (subst; auto).
    + destruct (h_shut (hget s h)) eqn:Ec; [apply Step_refl; exact I|].
      apply submit_step; auto. intros r'. rewrite !in_qreqs. cbn. rewrite Ec.
      intros [H|[H|[H|H]]]; [tauto|tauto|tauto|inversion H; auto].
    + apply submit_step; auto. intros r'. rewrite !in_qreqs. cbn. rewrite in_app_iff. simpl. intuition (subst; auto).
  - (* ODone *)
    destruct (lookup r (owner s)) as [h|] eqn:Lr; [|apply Step_refl; exact I].
    destruct (h_wq (hget s h)) as [|r' rest] eqn:Ew; [apply Step_refl; exact I|].
    destruct (Nat.eqb r r' && usable s h) eqn:U; [|apply Step_refl; exact I].
    apply andb_prop in U. destruct U as [Er U]. apply Nat.eqb_eq in Er. subst r'.
    apply usable_valid in U. destruct U as [Hv Hc].
    pose proof (j_h _ _ I h Hv) as K.
    assert (Hd : h_closed (hget s h) = false) by (eapply HOK_not_closing; eauto).
    set (f := fun x => w_cq (h_cq x ++ [(r, st)]) (w_wq rest x)).
    assert (I1 : Inv dl (upd_h s h f)).
    { apply Inv_upd; auto. eapply HOK_frame; eauto.
      - intros r'. rewrite !in_qreqs. unfold f. cbn. rewrite Ew, map_app, in_app_iff. simpl. tauto.
      - unfold f. cbn. intros H. congruence. }
    split.
    + apply Inv_emit_opr with (h := h) (r := r); auto.
      * rewrite hvalid_upd. exact Hv.
      * rewrite hget_upd_same by exact Hv. exact Hd.
    + apply Frame_trans with (b := upd_h s h f); [|apply Frame_emit]. apply Frame_upd; auto.
  - (* OSigPending *)
    destruct (hvalid s h && negb (h_closed (hget s h)) && htype_eqb (h_ty (hget s h)) TSignal) eqn:U;
      [|apply Step_refl; exact I].
    apply andb_prop in U. destruct U as [U _]. apply andb_prop in U. destruct U as [Hv Hd].
    apply negb_true_iff in Hd.
    apply simple_op; auto. cbn. apply (k_led _ _ _ _ (j_h _ _ I h Hv)).
  - (* OFpStart *)
    destruct (usable s h && htype_eqb (h_ty (hget s h)) TFsPoll) eqn:U; [|apply Step_refl; exact I].
    apply andb_prop in U. destruct U as [U Ty]. apply usable_valid in U. destruct U as [Hv Hc].
    pose proof (j_h _ _ I h Hv) as K.
    assert (Hd : h_closed (hget s h) = false) by (eapply HOK_not_closing; eauto).
    destruct (h_active (hget s h)).
    + split; [|apply Frame_emit]. apply Inv_emit_op with (h := h); auto.
    + set (f := fun x => w_active true (w_ctxs (mkC (nctx s) true 0 :: h_ctxs x) x)).
      assert (I1 : Inv dl (upd_h s h f)).
      { apply Inv_upd; auto. destruct K. constructor; unfold f; cbn; auto.
        - intros H. congruence.
        - intros H. destruct (k_ch0 H). congruence.
        - intros H. congruence.
        - intros _. destruct (h_ty (hget s h)); try discriminate. reflexivity. }
      split.
      * apply Inv_emit_op with (h := h); auto.
        -- apply Inv_ext with (s := upd_h s h f); auto.
        -- cbn [emit set_nctx]. change (hvalid (upd_h s h f) h = true). rewrite hvalid_upd. exact Hv.
        -- change (h_closed (hget (upd_h s h f) h) = false). rewrite hget_upd_same by exact Hv. exact Hd.
      * apply Frame_trans with (b := upd_h s h f); [apply Frame_upd; auto|].
        apply Frame_same_hs; reflexivity.
  - (* OFpStop *)
    destruct (usable s h && htype_eqb (h_ty (hget s h)) TFsPoll) eqn:U; [|apply Step_refl; exact I].
    apply andb_prop in U. destruct U as [U Ty]. apply usable_valid in U. destruct U as [Hv Hc].
    destruct (fp_stop_spec dl s h I Hv) as (I1 & F1 & A1 & A2 & _).
    assert (Hd : h_closed (hget s h) = false) by (eapply HOK_not_closing; [apply (j_h _ _ I h Hv)|exact Hc]).
    split; [|eapply Frame_trans; [exact F1|apply Frame_emit]].
    apply Inv_emit_op with (h := h); auto.
    + destruct F1 as [F1 _]. apply (F1 h Hv).
    + congruence.
  - (* OClose *)
    destruct (usable s h) eqn:U; [|apply Step_refl; exact I].
    apply usable_valid in U. destruct U as [Hv Hc].
    assert (Hd : h_closed (hget s h) = false) by (eapply HOK_not_closing; [apply (j_h _ _ I h Hv)|exact Hc]).
    apply Step_trans with (b := emit s (EIn (OClose h))).
    + split; [|apply Frame_emit]. apply Inv_emit_op with (h := h); auto.
    + intros I1. apply c_close_step; auto.
Qed.

Lemma capis_step dl os : forall s, Inv dl s -> Step dl s (capis s os).
Proof.
  induction os as [|o os IH]; intros s I; cbn [capis].
  - apply Step_refl. exact I.
  - apply Step_trans with (b := capi s o); [apply capi_step; exact I|]. intros I1. apply IH. exact I1.
Qed.

(* a callback: the event, then the scripted behaviour *)
Lemma ccallback_step dl s beh e :
  Inv dl s ->
  (forall h, e <> ECloseCb h) -> (forall h r, e <> ELeak h r) ->
  (forall h, about s e h -> hvalid s h = true -> h_closed (hget s h) = false) ->
  (forall r, ev_req e = Some r -> lookup r (owner s) <> None) ->
  Step dl s (ccallback s beh e).
Proof.
  intros I A B C D. unfold ccallback.
  apply Step_trans with (b := set_ncb (emit s e) (S (ncb s))).
  - split; [|apply Frame_same_hs; reflexivity].
    apply Inv_ext with (s := emit s e); auto. apply Inv_emit; auto.
  - intros I1. apply capis_step. exact I1.
Qed.

(* the callback of a request accepted on a handle that is not closed *)
Lemma reqcb_step dl s beh r st cl h :
  Inv dl s -> lookup r (owner s) = Some h -> h_closed (hget s h) = false ->
  Step dl s (ccallback s beh (EReqCb r st cl)).
Proof.
  intros I L Hc. apply ccallback_step; auto; try discriminate.
  - intros h' [Ha|(r' & Hr & Hl)] _; [discriminate|].
    simpl in Hr. inversion Hr; subst. assert (h' = h) by congruence. subst. exact Hc.
  - simpl. intros r' Hr. inversion Hr; subst. congruence.
Qed.

Lemma run_cq_step dl beh h l : forall s,
  Inv dl s -> hvalid s h = true -> h_closed (hget s h) = false ->
  (forall r st, In (r, st) l -> lookup r (owner s) = Some h) ->
  Step dl s (run_cq l h s beh).
Proof.
  induction l as [|[r st] l IH]; intros s I Hv Hc Ho; cbn [run_cq].
  - apply Step_refl. exact I.
  - set (s1 := ccallback s beh (EReqCb r (cbstatus (h_ty (hget s h)) st) (h_closing (hget s h)))).
    assert (S1 : Step dl s s1).
    { apply reqcb_step with (h := h); auto. apply (Ho r st). left. reflexivity. }
    apply Step_trans with (b := s1); [exact S1|]. intros I1.
    destruct S1 as [_ [F1 F2]]. destruct (F1 h Hv) as (V1 & C1 & _).
    apply IH; auto.
    + congruence.
    + intros r' st' H. apply F2. apply (Ho r' st'). right. exact H.
Qed.

Lemma in_cancelled r st l : In (r, st) (cancelled l) -> In r l.
Proof.
  unfold cancelled. rewrite in_map_iff. intros (x & E & H). inversion E; subst. exact H.
Qed.

Lemma flush_and_run_step dl s beh h :
  Inv dl s -> hvalid s h = true -> h_closed (hget s h) = false ->
  Step dl s (flush_and_run s beh h).
Proof.
  intros I Hv Hc. unfold flush_and_run.
  pose proof (j_h _ _ I h Hv) as K.
  set (f := fun x => w_cq [] (w_wq [] x)).
  apply Step_trans with (b := upd_h s h f).
  - split; [|apply Frame_upd; auto].
    apply Inv_upd; auto. eapply HOK_frame; eauto.
    + intros r. rewrite !in_qreqs. unfold f. cbn. tauto.
    + apply (k_led _ _ _ _ K).
  - intros I1. apply run_cq_step; auto.
    + rewrite hvalid_upd. exact Hv.
    + rewrite hget_upd_same by exact Hv. exact Hc.
    + intros r st H. change (owner (upd_h s h f)) with (owner s).
      apply (k_own _ _ _ _ K). apply in_qreqs. apply in_app_or in H. destruct H as [H|H].
      * right. right. left. apply in_map_iff. exists (r, st). auto.
      * right. left. eapply in_cancelled; eauto.
Qed.

Lemma drop_req_step dl s beh h f r st cl :
  Inv dl s -> hvalid s h = true -> h_closed (hget s h) = false ->
  In r (qreqs (hget s h)) ->
  h_closing (f (hget s h)) = h_closing (hget s h) -> h_closed (f (hget s h)) = h_closed (hget s h) ->
  h_ctxs (f (hget s h)) = h_ctxs (hget s h) -> h_ty (f (hget s h)) = h_ty (hget s h) ->
  h_ledger (f (hget s h)) = h_ledger (hget s h) ->
  (forall r', In r' (qreqs (f (hget s h))) -> In r' (qreqs (hget s h))) ->
  Step dl s (ccallback (upd_h s h f) beh (EReqCb r st cl)).
Proof.
  intros I Hv Hc Hr A B C T L Q.
  pose proof (j_h _ _ I h Hv) as K.
  apply Step_trans with (b := upd_h s h f).
  - split; [|apply Frame_upd; auto; congruence].
    apply Inv_upd; auto. eapply HOK_frame; eauto. rewrite A, L. apply (k_led _ _ _ _ K).
  - intros I1. apply reqcb_step with (h := h); auto.
    + apply (k_own _ _ _ _ K). exact Hr.
    + rewrite hget_upd_same by exact Hv. congruence.
Qed.

Lemma cancel_connect_step dl s beh h :
  Inv dl s -> hvalid s h = true -> h_closed (hget s h) = false ->
  Step dl s (cancel_connect s beh h).
Proof.
  intros I Hv Hc. unfold cancel_connect.
  destruct (h_conn (hget s h)) as [r|] eqn:Ec; [|apply Step_refl; exact I].
  apply drop_req_step; auto.
  - apply in_qreqs. auto.
  - intros r'. rewrite !in_qreqs. cbn. intros [H|H]; [discriminate|auto].
Qed.

Lemma drain_closing_step dl s beh h :
  Inv dl s -> hvalid s h = true -> h_closed (hget s h) = false ->
  Step dl s (drain_closing s beh h).
Proof.
  intros I Hv Hc. unfold drain_closing.
  destruct (h_shut (hget s h)) as [r|] eqn:Ec; [|apply Step_refl; exact I].
  apply drop_req_step; auto.
  - apply in_qreqs. auto.
  - intros r'. rewrite !in_qreqs. cbn. intros [H|[H|[H|H]]]; auto. discriminate.
Qed.

Lemma Step_valid_open dl s s' h :
  Step dl s s' -> hvalid s h = true -> h_closed (hget s h) = false ->
  hvalid s' h = true /\ h_closed (hget s' h) = false.
Proof. intros [_ [F _]] Hv Hc. destruct (F h Hv) as (A & B & _). split; congruence. Qed.

(* ------------------------------------------------------------------ *)
(* the closing phase                                                  *)
(* ------------------------------------------------------------------ *)
Lemma head_facts h rest s :
  Inv (CH h :: rest) s ->
  hvalid s h = true /\ h_closing (hget s h) = true /\ h_closed (hget s h) = false /\
  h_ctxs (hget s h) = [] /\ ~ In (CH h) (rest ++ clq s) /\ NoDup (chs (rest ++ clq s)).
Proof.
  intros I.
  assert (Hv : hvalid s h = true) by (apply (j_valid _ _ I (CH h)); left; reflexivity).
  destruct (k_ch _ _ _ _ (j_h _ _ I h Hv)) as (A & B & C); [left; reflexivity|].
  pose proof (j_nd _ _ I) as N. simpl in N. inversion N; subst.
  splits; auto. rewrite <- chs_in. assumption.
Qed.

(* CLOSED is set and the close callback event appended: the handle leaves the batch *)
Lemma Inv_close h rest s :
  Inv (CH h :: rest) s -> Inv rest (emit (upd_h s h (w_closed true)) (ECloseCb h)).
Proof.
  intros I. destruct (head_facts _ _ _ I) as (Hv & Hcl & Hd & Hx & Hn & Hnd).
  pose proof (j_h _ _ I h Hv) as K.
  set (s' := emit (upd_h s h (w_closed true)) (ECloseCb h)).
  assert (VV : forall h', hvalid s' h' = hvalid s h') by (intros h'; unfold s'; apply hvalid_upd).
  assert (NE : ~ In (ECloseCb h) (hist s)).
  { intros H. apply (k_ev _ _ _ _ K) in H. congruence. }
  constructor.
  - intros h' Hv'. rewrite VV in Hv'.
    destruct (Nat.eq_dec h' h) as [->|Hne].
    + change (hget s' h) with (hget (upd_h s h (w_closed true)) h). rewrite hget_upd_same by exact Hv.
      destruct K. constructor; cbn [h_closed h_closing h_ctxs h_ledger h_ty w_closed]; auto.
      * intros H. exfalso. apply Hn. exact H.
      * intros _ H. discriminate.
      * split; auto. intros _. left. reflexivity.
    + change (hget s' h') with (hget (upd_h s h (w_closed true)) h'). rewrite hget_upd_other by auto.
      destruct (j_h _ _ I h' Hv'). constructor; auto.
      * intros H. apply k_ch0. right. exact H.
      * intros H1 H2. destruct (k_owed0 H1 H2) as [[E|H]|H]; auto. inversion E. congruence.
      * unfold s'. cbn [hist emit]. simpl. rewrite <- k_ev0. split; [intros [E|H]; auto; inversion E; congruence|auto].
  - intros e He. assert (H0 : In e ((CH h :: rest) ++ clq s)) by (right; exact He).
    pose proof (j_valid _ _ I e H0) as H1. destruct e; rewrite VV; exact H1.
  - exact Hnd.
  - unfold s'. cbn [hist emit]. intros h' [E|H]; rewrite VV.
    + inversion E; subst. exact Hv.
    + apply (j_evv _ _ I). exact H.
  - unfold s'. cbn [hist emit]. simpl. constructor; [|apply (j_once _ _ I)].
    rewrite closecbs_in. exact NE.
  - intros later e earlier h' Hs Hin. unfold s' in Hs. cbn [hist emit] in Hs.
    destruct later as [|e1 later]; simpl in Hs; inversion Hs; subst.
    + intros [Ha|(r & Hr & _)]; [|discriminate]. simpl in Ha. inversion Ha; subst. auto.
    + intros Ha. eapply (j_na _ _ I); eauto.
  - unfold s'. cbn [hist emit]. intros e r [<-|H] Hr; [discriminate|].
    apply (j_ro _ _ I e r H Hr).
  - intros r h' H. rewrite VV. apply (j_ov _ _ I r h' H).
  - unfold s'. cbn [hist emit]. intros h' r [E|H]; [discriminate|]. apply (j_noleak _ _ I h' r H).
Qed.

Lemma deliver_close_inv h rest s beh :
  Inv (CH h :: rest) s -> Inv rest (deliver_close s beh h).
Proof.
  intros I. destruct (head_facts _ _ _ I) as (Hv & Hcl & Hd & Hx & Hn & Hnd).
  unfold deliver_close. rewrite (k_led _ _ _ _ (j_h _ _ I h Hv) Hcl). cbn [emit_leaks].
  unfold ccallback.
  apply capis_step.
  apply Inv_ext with (s := emit (upd_h s h (w_closed true)) (ECloseCb h)); auto.
  apply Inv_close. exact I.
Qed.

Lemma Inv_requeue h rest s :
  Inv (CH h :: rest) s -> Inv rest (push_clq (emit s (ETouch h)) (CH h)).
Proof.
  intros I. destruct (head_facts _ _ _ I) as (Hv & Hcl & Hd & Hx & Hn & Hnd).
  assert (I1 : Inv (CH h :: rest) (emit s (ETouch h))).
  { apply Inv_emit; auto; try discriminate.
    intros h' [Ha|(r & Hr & _)]; discriminate. }
  unfold push_clq. apply Inv_lists with (dl := CH h :: rest); auto.
  - intros h' H. left. apply in_app_cons in H. simpl. destruct H as [E|H]; auto.
  - intros h' c H. left. apply in_app_cons in H. simpl. destruct H as [E|H]; auto.
  - intros h' H. left. apply in_app_cons. simpl in H. destruct H as [E|H]; auto.
  - apply NoDup_chs_add; auto.
Qed.

Lemma finish_close_inv h rest s beh :
  Inv (CH h :: rest) s -> Inv rest (finish_close s beh h).
Proof.
  intros I. destruct (head_facts _ _ _ I) as (Hv & Hcl & Hd & Hx & Hn & Hnd).
  unfold finish_close.
  destruct (h_ty (hget s h)) eqn:Ty; try (apply deliver_close_inv; exact I).
  - (* stream *)
    assert (S1 : Step (CH h :: rest) s (cancel_connect s beh h)) by (apply cancel_connect_step; auto).
    destruct (Step_valid_open _ _ _ _ S1 Hv Hd) as (V1 & D1).
    assert (S2 : Step (CH h :: rest) (cancel_connect s beh h) (flush_and_run (cancel_connect s beh h) beh h))
      by (apply flush_and_run_step; auto; apply S1).
    destruct (Step_valid_open _ _ _ _ S2 V1 D1) as (V2 & D2).
    assert (S3 : Step (CH h :: rest) (flush_and_run (cancel_connect s beh h) beh h)
                   (drain_closing (flush_and_run (cancel_connect s beh h) beh h) beh h))
      by (apply drain_closing_step; auto; apply S2).
    apply deliver_close_inv. apply S3.
  - (* udp *)
    apply deliver_close_inv. apply flush_and_run_step; auto.
  - (* signal *)
    destruct (0 <? h_sigpend (hget s h)); [apply Inv_requeue|apply deliver_close_inv]; exact I.
Qed.

Lemma Inv_drop_ct h c rest s : Inv (CT h c :: rest) s -> Inv rest s.
Proof.
  intros I. destruct s as [a b c0 d e f].
  change (Inv rest (set_clq (mkCS a b c0 d e f) b)).
  apply Inv_lists with (dl := CT h c :: rest); auto.
  - intros h' H. left. right. exact H.
  - intros h' c' H. left. right. exact H.
  - intros h' H. left. simpl in H. destruct H as [E|H]; [discriminate|exact H].
  - apply (j_nd _ _ I).
Qed.

Ltac hok_tail :=
  try (intros; congruence);
  try (intros; exfalso; auto; fail);
  try (intros; right; discriminate);
  try (intros; left; cbn; apply in_app_cons; auto; fail);
  try (let H := fresh in intros H; exfalso; apply H; reflexivity).

Lemma fp_timer_closed_inv dl s h c : Inv dl s -> hvalid s h = true -> Inv dl (fp_timer_closed s h c).
Proof.
  intros I Hv. unfold fp_timer_closed.
  pose proof (j_h _ _ I h Hv) as K.
  destruct (h_ctxs (hget s h)) as [|c0 rest] eqn:Ec; [exact I|].
  assert (Hd : h_closed (hget s h) = false).
  { destruct (h_closed (hget s h)) eqn:E; auto. destruct (k_closed _ _ _ _ K E). congruence. }
  assert (NC : ~ In (CH h) (dl ++ clq s)).
  { intros H. destruct (k_ch _ _ _ _ K H) as (_ & _ & H'). congruence. }
  assert (Ty : h_ty (hget s h) = TFsPoll) by (apply (k_ty _ _ _ _ K); rewrite Ec; discriminate).
  destruct (Nat.eqb (c_id c0) c).
  - assert (G : hget (upd_h s h (w_ctxs rest)) h = w_ctxs rest (hget s h)) by (apply hget_upd_same; exact Hv).
    destruct rest as [|c1 rest].
    + destruct (h_closing (hget s h)) eqn:Ecl.
      * (* the last context of a closing handle: the handle is queued *)
        apply Inv_step_gen with (dl := dl) (s := s); auto.
        -- cbn [push_clq set_clq hs]. apply len_upd_h.
        -- intros h' Hv'. rewrite hget_push. destruct (Nat.eq_dec h' h) as [->|Hne].
           ++ rewrite G. destruct K.
              constructor; cbn [h_closed h_closing h_ctxs h_ledger h_ty w_ctxs qreqs h_conn h_wq h_cq h_shut]; auto; hok_tail.
           ++ rewrite hget_upd_other by auto.
              apply HOK_lists with (dl := dl) (s := s); auto; [apply (j_h _ _ I h' Hv')|].
              cbn [push_clq set_clq clq upd_h set_hs]. rewrite in_app_cons. split; auto.
              intros [E|H]; auto. inversion E. congruence.
        -- cbn [push_clq set_clq clq upd_h set_hs]. intros e He. apply in_app_cons in He.
           destruct He as [->|He]; [exact Hv|apply (j_valid _ _ I e He)].
        -- cbn [push_clq set_clq clq upd_h set_hs]. apply NoDup_chs_add; auto. apply (j_nd _ _ I).
      * apply Inv_upd; auto. destruct K.
        constructor; cbn [h_closed h_closing h_ctxs h_ledger h_ty w_ctxs qreqs h_conn h_wq h_cq h_shut]; auto; hok_tail.
    + apply Inv_upd; auto. destruct K.
      constructor; cbn [h_closed h_closing h_ctxs h_ledger h_ty w_ctxs qreqs h_conn h_wq h_cq h_shut]; auto; hok_tail.
  - apply Inv_upd; auto. destruct K.
    constructor; cbn [h_closed h_closing h_ctxs h_ledger h_ty w_ctxs qreqs h_conn h_wq h_cq h_shut]; auto; hok_tail.
Qed.

Lemma run_closing_inv beh l : forall s, Inv l s -> Inv [] (run_closing l s beh).
Proof.
  induction l as [|[h|h c] l IH]; intros s I; cbn [run_closing].
  - exact I.
  - apply IH. apply finish_close_inv. exact I.
  - apply IH.
    assert (Hv : hvalid s h = true) by (apply (j_valid _ _ I (CT h c)); left; reflexivity).
    apply fp_timer_closed_inv; [|exact Hv].
    apply Inv_drop_ct with (h := h) (c := c).
    apply Inv_emit; auto; try discriminate.
    intros h' [Ha|(r & Hr & _)]; discriminate.
Qed.

(* ------------------------------------------------------------------ *)
(* top-level steps                                                    *)
(* ------------------------------------------------------------------ *)
Lemma opt_is_true o r : opt_is o r = true -> o = Some r.
Proof. destruct o; simpl; [|discriminate]. intros H. apply Nat.eqb_eq in H. congruence. Qed.

Lemma req_cb_inv dl s beh r st : Inv dl s -> Inv dl (req_cb s beh r st).
Proof.
  intros I. unfold req_cb.
  destruct (lookup r (owner s)) as [h|] eqn:Lr; [|exact I].
  destruct (usable s h) eqn:U; [|exact I].
  apply usable_valid in U. destruct U as [Hv Hc].
  pose proof (j_h _ _ I h Hv) as K.
  assert (Hd : h_closed (hget s h) = false) by (eapply HOK_not_closing; eauto).
  destruct (opt_is (h_conn (hget s h)) r) eqn:E1.
  - apply opt_is_true in E1.
    assert (S1 : Step dl s (ccallback (upd_h s h (w_conn None)) beh (EReqCb r st false))).
    { apply drop_req_step; auto.
      - apply in_qreqs. auto.
      - intros r'. rewrite !in_qreqs. cbn. intros [H|H]; [discriminate|auto]. }
    destruct (Step_valid_open _ _ _ _ S1 Hv Hd) as (V1 & D1).
    match goal with |- Inv _ (if ?c then _ else _) => destruct c end; [|apply S1].
    apply flush_and_run_step; auto. apply S1.
  - destruct (opt_is (h_shut (hget s h)) r) eqn:E2; [|exact I].
    apply opt_is_true in E2.
    apply drop_req_step; auto.
    + apply in_qreqs. auto.
    + intros r'. rewrite !in_qreqs. cbn. intros [H|[H|[H|H]]]; auto. discriminate.
Qed.

Lemma batch_inv dl s beh h : Inv dl s -> Inv dl (batch s beh h).
Proof.
  intros I. unfold batch.
  match goal with |- Inv _ (if ?c then _ else _) => destruct c eqn:U end; [|exact I].
  apply andb_prop in U. destruct U as [U _]. apply usable_valid in U. destruct U as [Hv Hc].
  pose proof (j_h _ _ I h Hv) as K.
  assert (Hd : h_closed (hget s h) = false) by (eapply HOK_not_closing; eauto).
  destruct (h_cq (hget s h)) as [|p pq] eqn:Eq; [exact I|].
  set (s0 := upd_h (emit s (EIn (OBatch h))) h (w_cq [])).
  assert (I0 : Inv dl s0).
  { change s0 with (emit (upd_h s h (w_cq [])) (EIn (OBatch h))).
    apply Inv_emit_op with (h := h); auto.
    - apply Inv_upd; auto. eapply HOK_frame; eauto.
      + intros r. rewrite !in_qreqs. cbn. tauto.
      + apply (k_led _ _ _ _ K).
    - rewrite hvalid_upd. exact Hv.
    - rewrite hget_upd_same by exact Hv. exact Hd. }
  assert (V0 : hvalid s0 h = true) by (unfold s0; rewrite hvalid_upd; exact Hv).
  assert (D0 : h_closed (hget s0 h) = false).
  { unfold s0. rewrite hget_upd_same by exact Hv. exact Hd. }
  assert (S1 : Step dl s0 (run_cq (p :: pq) h s0 beh)).
  { apply run_cq_step; auto. intros r st H. change (owner s0) with (owner s).
    apply (k_own _ _ _ _ K). apply in_qreqs. right. right. left. rewrite Eq.
    apply in_map_iff. exists (r, st). auto. }
  destruct (Step_valid_open _ _ _ _ S1 V0 D0) as (V1 & D1).
  match goal with |- Inv _ (if ?c then _ else _) => destruct c end; [|apply S1].
  apply drain_closing_step; auto. apply S1.
Qed.

Lemma h_cb_inv dl s beh h : Inv dl s -> Inv dl (h_cb s beh h).
Proof.
  intros I. unfold h_cb. destruct (usable s h) eqn:U; [|exact I].
  apply usable_valid in U. destruct U as [Hv Hc].
  assert (Hd : h_closed (hget s h) = false) by (eapply HOK_not_closing; [apply (j_h _ _ I h Hv)|exact Hc]).
  apply ccallback_step; auto; try discriminate.
  intros h' [Ha|(r & Hr & _)] _; [|discriminate]. simpl in Ha. inversion Ha; subst. exact Hd.
Qed.

Lemma stat_done_spec b l :
  let '(l', r) := stat_done b l in
  (l = [] <-> l' = []) /\ (l <> [] -> l' <> []).
Proof.
  induction l as [|c l IH]; simpl.
  - split; [tauto|auto].
  - destruct (stat_done b l) as [l' [r|]].
    + split; [split; discriminate|intros _; discriminate].
    + destruct (c_stat c); [destruct b|]; (split; [split; discriminate|intros _; discriminate]).
Qed.

Lemma fp_stat_inv dl s h : Inv dl s -> Inv dl (fp_stat s h).
Proof.
  intros I. unfold fp_stat.
  match goal with |- Inv _ (if ?c then _ else _) => destruct c eqn:U end; [|exact I].
  apply andb_prop in U. destruct U as [U Hs]. apply andb_prop in U. destruct U as [Hv Ty].
  pose proof (j_h _ _ I h Hv) as K.
  assert (Ne : h_ctxs (hget s h) <> []).
  { intros E. rewrite E in Hs. discriminate. }
  assert (Hd : h_closed (hget s h) = false).
  { destruct (h_closed (hget s h)) eqn:E; auto. destruct (k_closed _ _ _ _ K E). congruence. }
  set (s0 := emit (emit s (ETouch h)) (EIn (OFpStat h))).
  assert (I0 : Inv dl s0).
  { unfold s0. apply Inv_emit_op with (h := h); auto.
    apply Inv_emit; auto; try discriminate. intros h' [Ha|(r & Hr & _)]; discriminate. }
  pose proof (stat_done_spec (negb (h_active (hget s h)) || h_closing (hget s h)) (h_ctxs (hget s h))) as SD.
  destruct (stat_done (negb (h_active (hget s h)) || h_closing (hget s h)) (h_ctxs (hget s h))) as [l r].
  destruct SD as (_ & SD). specialize (SD Ne).
  assert (I1 : Inv dl (upd_h s0 h (w_ctxs l))).
  { apply Inv_upd; auto. pose proof (j_h _ _ I0 h Hv) as K0. destruct K0.
    change (hget s0 h) with (hget s h) in *.
    constructor; cbn [h_closed h_closing h_ctxs h_ledger h_ty w_ctxs qreqs h_conn h_wq h_cq h_shut]; auto;
      try (intros; congruence);
      try (intros H; destruct (k_ch0 H) as (_ & _ & H'); congruence);
      try (intros _; apply (k_ty _ _ _ _ K); exact Ne). }
  destruct r as [[c [|]]|]; try exact I1.
  apply Inv_push_ct; auto. rewrite hvalid_upd. exact Hv.
Qed.

Lemma Inv_detach s : Inv [] s -> Inv (clq s) (set_clq s []).
Proof.
  intros I. apply Inv_lists with (dl := []); auto.
  - intros h H. left. rewrite app_nil_r in H. exact H.
  - intros h c H. left. rewrite app_nil_r in H. exact H.
  - intros h H. left. rewrite app_nil_r. exact H.
  - rewrite app_nil_r. apply (j_nd _ _ I).
Qed.

Lemma cstep_inv s beh o : Inv [] s -> Inv [] (cstep s beh o).
Proof.
  intros I. destruct o; cbn [cstep]; try (apply capi_step; exact I).
  - apply req_cb_inv. exact I.
  - apply batch_inv. exact I.
  - apply h_cb_inv. exact I.
  - apply fp_stat_inv. exact I.
  - apply run_closing_inv.
    change (clq s) with (clq (emit s (EIn OPhase))). apply Inv_detach.
    apply Inv_emit; auto; try discriminate. intros h [Ha|(r & Hr & _)]; discriminate.
Qed.

Lemma crun_inv beh os : forall s, Inv [] s -> Inv [] (crun s os beh).
Proof.
  induction os as [|o os IH]; intros s I; cbn [crun]; auto. apply IH. apply cstep_inv. exact I.
Qed.

Theorem reachable_inv os beh : Inv [] (crun cinit os beh).
Proof. apply crun_inv. apply Inv_init. Qed.

(* ------------------------------------------------------------------ *)
(* what a step appends to the history                                 *)
(* ------------------------------------------------------------------ *)
Definition appends (P : cev -> Prop) (s s' : cstate) : Prop :=
  exists l, hist s' = l ++ hist s /\ Forall P l.

Lemma appends_refl P s : appends P s s.
Proof. exists []. split; [reflexivity|constructor]. Qed.

Lemma appends_trans P a b c : appends P a b -> appends P b c -> appends P a c.
Proof.
  intros (l1 & E1 & F1) (l2 & E2 & F2). exists (l2 ++ l1). split.
  - rewrite E2, E1, app_assoc. reflexivity.
  - apply Forall_app. auto.
Qed.

Lemma appends_emit (P : cev -> Prop) s e : P e -> appends P s (emit s e).
Proof. intros H. exists [e]. split; [reflexivity|constructor; auto]. Qed.

Lemma appends_same P s s' : hist s' = hist s -> appends P s s'.
Proof. intros H. exists []. split; [exact H|constructor]. Qed.

Lemma appends_weaken (P Q : cev -> Prop) s s' :
  (forall e, P e -> Q e) -> appends P s s' -> appends Q s s'.
Proof.
  intros H (l & E & F). exists l. split; [exact E|]. eapply Forall_impl; eauto.
Qed.

Definition not_cb (e : cev) : Prop := is_user_cb e = false.
Definition not_close (e : cev) : Prop := forall h, e <> ECloseCb h.

Lemma not_cb_not_close e : not_cb e -> not_close e.
Proof. intros H h E. subst. discriminate. Qed.

Lemma fp_stop_hist s h : hist (fp_stop s h) = hist s.
Proof.
  unfold fp_stop. destruct (h_active (hget s h)); [|reflexivity].
  destruct (h_ctxs (hget s h)) as [|c rest]; [reflexivity|].
  destruct (Nat.eqb (c_timer c) 1); reflexivity.
Qed.

Lemma c_close_hist s h : hist (c_close s h) = hist s.
Proof.
  unfold c_close. destruct (h_ty (hget s h)); try reflexivity.
  match goal with |- hist (match ?m with [] => _ | _ => _ end) = _ => destruct m end;
    cbn [hist push_clq set_clq]; rewrite fp_stop_hist; reflexivity.
Qed.

(* no API call runs a user callback; in particular uv_close does not *)
Lemma capi_quiet s o : appends not_cb s (capi s o).
Proof.
  destruct o; cbn [capi]; try apply appends_refl;
    repeat match goal with
    | |- appends _ _ (if ?c then _ else _) => destruct c
    | |- appends _ _ (match ?c with _ => _ end) => destruct c
    end; try apply appends_refl;
    try (apply appends_emit; reflexivity);
    (eexists [_]; split;
     [cbn [hist emit]; rewrite ?c_close_hist, ?fp_stop_hist; reflexivity
     |constructor; [reflexivity|constructor]]).
Qed.

Lemma capis_quiet os : forall s, appends not_cb s (capis s os).
Proof.
  induction os as [|o os IH]; intros s; cbn [capis]; [apply appends_refl|].
  eapply appends_trans; [apply capi_quiet|apply IH].
Qed.

Lemma ccallback_nocl s beh e : not_close e -> appends not_close s (ccallback s beh e).
Proof.
  intros H. unfold ccallback.
  eapply appends_trans; [|eapply appends_weaken; [apply not_cb_not_close|apply capis_quiet]].
  exists [e]. split; [reflexivity|constructor; auto].
Qed.

Lemma reqcb_not_close r st cl : not_close (EReqCb r st cl).
Proof. intros h. discriminate. Qed.

Lemma run_cq_nocl beh h l : forall s, appends not_close s (run_cq l h s beh).
Proof.
  induction l as [|[r st] l IH]; intros s; cbn [run_cq]; [apply appends_refl|].
  eapply appends_trans; [apply ccallback_nocl; apply reqcb_not_close|apply IH].
Qed.

Lemma flush_nocl s beh h : appends not_close s (flush_and_run s beh h).
Proof.
  unfold flush_and_run. eapply appends_trans; [|apply run_cq_nocl]. apply appends_same. reflexivity.
Qed.

Lemma drain_nocl s beh h : appends not_close s (drain_closing s beh h).
Proof.
  unfold drain_closing. destruct (h_shut (hget s h)); [|apply appends_refl].
  eapply appends_trans; [|apply ccallback_nocl; apply reqcb_not_close]. apply appends_same. reflexivity.
Qed.

(* close callbacks are delivered by the closing phase only *)
Lemma cstep_nocl s beh o : o <> OPhase -> appends not_close s (cstep s beh o).
Proof.
  intros Hne. destruct o; cbn [cstep]; try congruence;
    try (eapply appends_weaken; [apply not_cb_not_close|apply capi_quiet]).
  - unfold req_cb. destruct (lookup r (owner s)) as [h|]; [|apply appends_refl].
    destruct (usable s h); [|apply appends_refl].
    destruct (opt_is (h_conn (hget s h)) r).
    + match goal with |- appends _ _ (if ?c then _ else _) => destruct c end.
      * eapply appends_trans; [|apply flush_nocl].
        eapply appends_trans; [|apply ccallback_nocl; apply reqcb_not_close]. apply appends_same. reflexivity.
      * eapply appends_trans; [|apply ccallback_nocl; apply reqcb_not_close]. apply appends_same. reflexivity.
    + destruct (opt_is (h_shut (hget s h)) r); [|apply appends_refl].
      eapply appends_trans; [|apply ccallback_nocl; apply reqcb_not_close]. apply appends_same. reflexivity.
  - unfold batch. match goal with |- appends _ _ (if ?c then _ else _) => destruct c end; [|apply appends_refl].
    destruct (h_cq (hget s h)) as [|p pq]; [apply appends_refl|].
    match goal with |- appends _ _ (if ?c then _ else _) => destruct c end.
    + eapply appends_trans; [|apply drain_nocl]. eapply appends_trans; [|apply run_cq_nocl].
      exists [EIn (OBatch h)]. split; [reflexivity|]. constructor; [intros h'; discriminate|constructor].
    + eapply appends_trans; [|apply run_cq_nocl].
      exists [EIn (OBatch h)]. split; [reflexivity|]. constructor; [intros h'; discriminate|constructor].
  - unfold h_cb. destruct (usable s h); [|apply appends_refl]. apply ccallback_nocl. intros h'. discriminate.
  - unfold fp_stat. match goal with |- appends _ _ (if ?c then _ else _) => destruct c end; [|apply appends_refl].
    destruct (stat_done _ _) as [l [[c [|]]|]];
      (exists [EIn (OFpStat h); ETouch h]; split; [reflexivity|];
       constructor; [intros h'; discriminate|constructor; [intros h'; discriminate|constructor]]).
Qed.

(* ------------------------------------------------------------------ *)
(* the clauses of the property on traces                              *)
(* ------------------------------------------------------------------ *)
Definition final (os : list cop) (beh : nat -> list cop) : cstate := crun cinit os beh.

Lemma ctrace_final os beh : ctrace os beh = rev (hist (final os beh)).
Proof. reflexivity. Qed.

Lemma trace_split_hist os beh pre e post :
  ctrace os beh = pre ++ e :: post -> hist (final os beh) = rev post ++ e :: rev pre.
Proof.
  rewrite ctrace_final. intros H. apply (f_equal (@rev cev)) in H.
  rewrite rev_involutive in H. rewrite H, rev_app_distr. simpl. rewrite <- app_assoc. reflexivity.
Qed.

(* uv_close itself runs no callback *)
Theorem close_not_reentrant s h :
  exists l, hist (capi s (OClose h)) = l ++ hist s /\ Forall (fun e => is_user_cb e = false) l.
Proof. apply (capi_quiet s (OClose h)). Qed.

(* ... nor does any other API call, also when made from inside a callback *)
Theorem api_not_reentrant s os :
  exists l, hist (capis s os) = l ++ hist s /\ Forall (fun e => is_user_cb e = false) l.
Proof. apply (capis_quiet os s). Qed.

(* nothing about h after its close callback; in particular no second one *)
Theorem nothing_after_close_cb os beh pre h post e :
  ctrace os beh = pre ++ ECloseCb h :: post -> In e post -> ~ about (final os beh) e h.
Proof.
  intros Ht He. apply in_split in He. destruct He as (p1 & p2 & ->).
  assert (Hh : hist (final os beh) = rev p2 ++ e :: (rev p1 ++ ECloseCb h :: rev pre)).
  { replace (pre ++ ECloseCb h :: p1 ++ e :: p2) with ((pre ++ ECloseCb h :: p1) ++ e :: p2) in Ht
      by (rewrite <- app_assoc; reflexivity).
    apply trace_split_hist in Ht. rewrite Ht, rev_app_distr. simpl. rewrite <- app_assoc. reflexivity. }
  apply (j_na _ _ (reachable_inv os beh) _ _ _ h Hh).
  apply in_or_app. right. left. reflexivity.
Qed.

Theorem close_cb_at_most_once os beh pre h post :
  ctrace os beh = pre ++ ECloseCb h :: post -> ~ In (ECloseCb h) pre /\ ~ In (ECloseCb h) post.
Proof.
  intros Ht. split.
  - intros Hin. apply in_split in Hin. destruct Hin as (p1 & p2 & ->).
    rewrite <- app_assoc in Ht. simpl in Ht.
    apply (nothing_after_close_cb os beh p1 h (p2 ++ ECloseCb h :: post) (ECloseCb h) Ht).
    + apply in_or_app. right. left. reflexivity.
    + left. reflexivity.
  - intros Hin. apply (nothing_after_close_cb os beh pre h post (ECloseCb h) Ht Hin). left. reflexivity.
Qed.

(* the close callback is delivered by the closing phase and by nothing else *)
Theorem close_cb_in_closing_phase_only s beh o :
  o <> OPhase ->
  exists l, hist (cstep s beh o) = l ++ hist s /\ Forall (fun e => forall h, e <> ECloseCb h) l.
Proof. apply cstep_nocl. Qed.

(* a delivered close callback = the CLOSED flag of the model *)
Theorem close_cb_iff_closed os beh h :
  In (ECloseCb h) (ctrace os beh) <->
  (hvalid (final os beh) h = true /\ h_closed (hget (final os beh) h) = true).
Proof.
  rewrite ctrace_final, <- in_rev. pose proof (reachable_inv os beh) as I. split.
  - intros H. assert (Hv := j_evv _ _ I h H). split; [exact Hv|].
    apply (k_ev _ _ _ _ (j_h _ _ I h Hv)). exact H.
  - intros (Hv & Hc). apply (k_ev _ _ _ _ (j_h _ _ I h Hv)). exact Hc.
Qed.

(* whenever the closing queue is empty, every handle on which uv_close was
   called has had its close callback -- except an fs_poll handle that still
   has a context alive *)
Theorem close_cb_eventually_partial os beh h :
  let s := final os beh in
  clq s = [] -> hvalid s h = true -> h_closing (hget s h) = true ->
  In (ECloseCb h) (ctrace os beh) \/ (h_ty (hget s h) = TFsPoll /\ h_ctxs (hget s h) <> []).
Proof.
  intros s Hq Hv Hc. pose proof (reachable_inv os beh) as I. fold s in I.
  pose proof (j_h _ _ I h Hv) as K.
  destruct (h_closed (hget s h)) eqn:Ed.
  - left. apply close_cb_iff_closed. split; assumption.
  - destruct (k_owed _ _ _ _ K Hc Ed) as [H|H].
    + change ([] ++ clq (crun cinit os beh)) with (clq s) in H. rewrite Hq in H. destruct H.
    + right. split; [apply (k_ty _ _ _ _ K H)|exact H].
Qed.

(* the full statement fails for fs_poll: start, stop, start again while the
   first stat is in flight, both stats complete, close: the superseded
   context keeps its timer, nothing is queued, nothing is in flight, and the
   close callback is never delivered *)
Definition refuting_script : list cop :=
  [OInit TFsPoll; OFpStart 0; OFpStop 0; OFpStart 0; OFpStat 0; OFpStat 0; OClose 0;
   OPhase; OPhase; OPhase].

Theorem close_cb_eventually_refuted :
  exists os beh h,
    let s := final os beh in
    clq s = [] /\ hvalid s h = true /\ h_closing (hget s h) = true /\
    has_stat (h_ctxs (hget s h)) = false /\ ~ In (ECloseCb h) (ctrace os beh).
Proof.
  exists refuting_script, (fun _ => []), 0%nat. vm_compute.
  repeat split; try reflexivity. intros H.
  repeat (destruct H as [H|H]; [discriminate|]). exact H.
Qed.

(* everything the handle owned is released when the close callback runs *)
Theorem resources_released os beh :
  (forall h r, ~ In (ELeak h r) (ctrace os beh)) /\
  (forall h, hvalid (final os beh) h = true -> h_closing (hget (final os beh) h) = true ->
             h_ledger (hget (final os beh) h) = []).
Proof.
  pose proof (reachable_inv os beh) as I. split.
  - intros h r H. rewrite ctrace_final, <- in_rev in H. apply (j_noleak _ _ I h r H).
  - intros h Hv Hc. apply (k_led _ _ _ _ (j_h _ _ I h Hv) Hc).
Qed.

Example close_cb_eventually_partial_nontrivial :
  let os := [OInit TStream; OSubmit 0 1 0; OSubmit 0 2 1; OSubmit 0 3 1; OSubmit 0 4 2; ODone 2 7;
             OInit TFsPoll; OFpStart 1; OClose 1; OClose 0; OPhase; OFpStat 1; OPhase; OPhase] in
  ctrace os (fun _ => []) =
  [EIn (OInit TStream); EIn (OSubmit 0 1 0); EIn (OSubmit 0 2 1); EIn (OSubmit 0 3 1);
   EIn (OSubmit 0 4 2); EIn (ODone 2 7); EIn (OInit TFsPoll); EIn (OFpStart 1); EIn (OClose 1);
   EIn (OClose 0); EIn OPhase; EReqCb 1 UV_ECANCELED true; EReqCb 2 7 true;
   EReqCb 3 UV_ECANCELED true; EReqCb 4 UV_ECANCELED true; ECloseCb 0;
   ETouch 1; EIn (OFpStat 1); EIn OPhase; ETouch 1; EIn OPhase; ECloseCb 1].
Proof. vm_compute. reflexivity. Qed.
