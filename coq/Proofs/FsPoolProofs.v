(* Proofs about Model/Fs.v (C11), part D: the size of the thread pool. *)
From UV Require Import Lib.Base Model.Fs.
Local Open Scope Z_scope.

(* whatever the environment holds - unset, empty, "0", signs, text, values
   beyond int or long - at least one and at most 1024 workers are started *)
Theorem pool_size_bounds : forall v, 1 <= pool_size v <= 1024.
Proof.
  intros v. unfold pool_size, MAX_THREADPOOL_SIZE.
  set (n := match v with None => 4 | Some s => atoi_unsigned s end).
  assert (Hn : 0 <= n).
  { unfold n. destruct v; [|lia]. unfold atoi_unsigned, two32. apply Z.mod_pos_bound. lia. }
  destruct (n =? 0) eqn:E0.
  - simpl. lia.
  - apply Z.eqb_neq in E0. destruct (1024 <? n) eqn:E1; [lia|]. apply Z.ltb_ge in E1. lia.
Qed.

(* the boundary values of the property's quantifier *)
Definition str (l : list Z) : list N := map Z.to_N l.
Example pool_size_table :
  pool_size None = 4 /\
  pool_size (Some (str [48])) = 1 /\                                   (* "0" *)
  pool_size (Some []) = 1 /\                                           (* "" *)
  pool_size (Some (str [48; 48])) = 1 /\                               (* "00" *)
  pool_size (Some (str [43; 48])) = 1 /\                               (* "+0" *)
  pool_size (Some (str [122; 101; 114; 111])) = 1 /\                   (* "zero" *)
  pool_size (Some (str [45; 49])) = 1024 /\                            (* "-1": 4294967295 as unsigned *)
  pool_size (Some (str [49])) = 1 /\
  pool_size (Some (str [50])) = 2 /\
  pool_size (Some (str [49; 48; 50; 52])) = 1024 /\
  pool_size (Some (str [49; 48; 50; 53])) = 1024 /\                    (* "1025" *)
  pool_size (Some (str [57;57;57;57;57;57;57;57;57;57;57])) = 1024 /\  (* "99999999999" *)
  pool_size (Some (str [32; 9; 55; 120])) = 7.                         (* " \t7x" *)
Proof. vm_compute. repeat split; reflexivity. Qed.
