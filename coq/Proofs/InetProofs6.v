(* C18 proofs, part 2: inet_ntop6 (no scratch overflow, bounded, ENOSPC iff) and
   the round trip inet_pton6 (inet_ntop6 a) = a for all 2^128 addresses. *)
From UV Require Import Lib.Base Model.Inet Spec.InetSpec Proofs.InetProofs4.
Local Open Scope N_scope.

Arguments hex_u16 : simpl never.
Arguments fmt4 : simpl never.
Arguments dec_u8 : simpl never.

(* ------------------------------------------------------------------ *)
(* digit printers                                                      *)
(* ------------------------------------------------------------------ *)
Lemma hex_u16_len w : (1 <= length (hex_u16 w) <= 4)%nat.
Proof.
  unfold hex_u16. destruct (w <? 16); [|destruct (w <? 256); [|destruct (w <? 4096)]];
    simpl; lia.
Qed.

Lemma hexval_hexdig d : d < 16 -> hexval (hexdig d) = Some d.
Proof.
  intros H. unfold hexdig, hexval. destruct (d <? 10) eqn:E.
  - apply N.ltb_lt in E.
    assert (E1 : (48 <=? 48 + d) && (48 + d <=? 57) = true)
      by (rewrite andb_true_iff, !N.leb_le; lia).
    rewrite E1. f_equal. lia.
  - apply N.ltb_ge in E.
    assert (E1 : (48 <=? 87 + d) && (87 + d <=? 57) = false)
      by (rewrite andb_false_iff, !N.leb_gt; lia).
    assert (E2 : (97 <=? 87 + d) && (87 + d <=? 102) = true)
      by (rewrite andb_true_iff, !N.leb_le; lia).
    rewrite E1, E2. f_equal. lia.
Qed.

Lemma hexdig_range d : d < 16 -> hexdig d <> 58 /\ hexdig d <> 0 /\ hexdig d <> 46.
Proof. intros H. unfold hexdig. destruct (d <? 10) eqn:E; [apply N.ltb_lt in E|apply N.ltb_ge in E]; lia. Qed.

Lemma dec_u8_ge48 v : Forall (fun c => 48 <= c) (dec_u8 v).
Proof.
  unfold dec_u8. destruct (v <? 10); [|destruct (v <? 100)]; repeat constructor; lia.
Qed.

Lemma fmt4_no_nul src : ~ In 0 (fmt4 src).
Proof.
  unfold fmt4. intros H.
  assert (Hd : forall v, ~ In 0 (dec_u8 v)).
  { intros v Hi. pose proof (dec_u8_ge48 v) as F. rewrite Forall_forall in F.
    apply F in Hi. lia. }
  repeat (apply in_app_or in H; destruct H as [H|H]; [exact (Hd _ H)|];
          apply in_app_or in H; destruct H as [[H|[]]|H]; [discriminate|]).
  exact (Hd _ H).
Qed.

Lemma cstr_app_nul t : ~ In 0 t -> cstr (t ++ [0]) = t.
Proof.
  induction t as [|x l IH]; intros Hnz; [reflexivity|].
  simpl. destruct (x =? 0) eqn:E0.
  - apply N.eqb_eq in E0. subst. exfalso. apply Hnz. left; reflexivity.
  - f_equal. apply IH. intros H. apply Hnz. right; exact H.
Qed.

(* ------------------------------------------------------------------ *)
(* the formatting loop without the overflow test                       *)
(* ------------------------------------------------------------------ *)
Fixpoint fmt6_pure (ws : list N) (i : Z) (best : run) (w5 w7 : N) (src12 : list N)
                   (tmp : list N) : list N :=
  match ws with
  | [] => tmp
  | w :: ws' =>
      let bb := fst best in
      let bl := snd best in
      if negb (bb =? -1)%Z && (bb <=? i)%Z && (i <? bb + bl)%Z then
        fmt6_pure ws' (i + 1)%Z best w5 w7 src12 (if (i =? bb)%Z then tmp ++ [58] else tmp)
      else
        let tmp1 := if (i =? 0)%Z then tmp else tmp ++ [58] in
        if (i =? 6)%Z && (bb =? 0)%Z &&
           ((bl =? 6)%Z || ((bl =? 7)%Z && negb (w7 =? 1)) || ((bl =? 5)%Z && (w5 =? 65535)))
        then tmp1 ++ fmt4 src12
        else fmt6_pure ws' (i + 1)%Z best w5 w7 src12 (tmp1 ++ hex_u16 w)
  end.

Lemma fmt6_pure_grows ws : forall i best w5 w7 src12 tmp,
  nlen tmp <= nlen (fmt6_pure ws i best w5 w7 src12 tmp).
Proof.
  induction ws as [|w ws IH]; intros; cbn [fmt6_pure]; [lia|].
  destruct (negb (fst best =? -1)%Z && (fst best <=? i)%Z && (i <? fst best + snd best)%Z).
  - etransitivity; [|apply IH]. destruct (i =? fst best)%Z; [rewrite nlen_app|]; lia.
  - match goal with |- context [if ?c then _ ++ fmt4 _ else _] => destruct c end.
    + destruct (i =? 0)%Z; rewrite ?nlen_app; lia.
    + etransitivity; [|apply IH]. destruct (i =? 0)%Z; rewrite ?nlen_app; lia.
Qed.

Lemma fmt6_loop_pure ws : forall i best w5 w7 src12 tmp,
  nlen (fmt6_pure ws i best w5 w7 src12 tmp) <= 45 ->
  fmt6_loop ws i best w5 w7 src12 tmp = (0%Z, fmt6_pure ws i best w5 w7 src12 tmp).
Proof.
  induction ws as [|w ws IH]; intros i best w5 w7 src12 tmp H; cbn [fmt6_pure fmt6_loop] in *;
    [reflexivity|].
  destruct (negb (fst best =? -1)%Z && (fst best <=? i)%Z && (i <? fst best + snd best)%Z).
  - apply IH. exact H.
  - match goal with |- context [if (?a && ?b && (?c || ?d || ?e)) then _ else _] =>
      destruct (a && b && (c || d || e)) end.
    + set (tmp1 := if (i =? 0)%Z then tmp else tmp ++ [58]) in *.
      rewrite nlen_app in H.
      destruct (ntop4_spec src12 (46 - nlen tmp1)) as [_ H2].
      rewrite H2 by lia. rewrite cstr_app_nul by apply fmt4_no_nul. reflexivity.
    + set (tmp1 := if (i =? 0)%Z then tmp else tmp ++ [58]) in *.
      pose proof (fmt6_pure_grows ws (i + 1)%Z best w5 w7 src12 (tmp1 ++ hex_u16 w)) as G.
      rewrite nlen_app in G.
      assert (E : 46 - nlen tmp1 <=? nlen (hex_u16 w) = false) by (apply N.leb_gt; lia).
      rewrite E. apply IH. exact H.
Qed.

(* ------------------------------------------------------------------ *)
(* the best zero run, by enumeration of the 2^8 zero/non-zero shapes   *)
(* ------------------------------------------------------------------ *)
Definition run_ok (zs : list bool) (r : run) : bool :=
  let (bb, bl) := r in
  (bb =? -1)%Z ||
  ((0 <=? bb)%Z && (2 <=? bl)%Z && (bb + bl <=? 8)%Z &&
   forallb (fun i => nth i zs false) (seq (Z.to_nat bb) (Z.to_nat bl))).

Lemma best_run_ok z0 z1 z2 z3 z4 z5 z6 z7 :
  run_ok [z0; z1; z2; z3; z4; z5; z6; z7] (best_run [z0; z1; z2; z3; z4; z5; z6; z7]) = true.
Proof.
  destruct z0, z1, z2, z3, z4, z5, z6, z7; vm_compute; reflexivity.
Qed.

(* ------------------------------------------------------------------ *)
(* stepping inet_pton6's loop                                          *)
(* ------------------------------------------------------------------ *)
Lemma loop_xdigit c d s ct out cp seen val :
  hexval c = Some d -> seen < 4 ->
  pton6_loop (c :: s) ct out cp seen val = pton6_loop s ct out cp (seen + 1) (val * 16 + d).
Proof.
  intros H Hs. cbn [pton6_loop]. rewrite H.
  assert (E : 4 <? seen + 1 = false) by (apply N.ltb_ge; lia). rewrite E. reflexivity.
Qed.

Lemma loop_hex w rest ct out cp :
  w < 65536 ->
  pton6_loop (hex_u16 w ++ rest) ct out cp 0 0 =
  pton6_loop rest ct out cp (nlen (hex_u16 w)) w.
Proof.
  intros Hw. unfold hex_u16.
  destruct (w <? 16) eqn:E1; [|destruct (w <? 256) eqn:E2; [|destruct (w <? 4096) eqn:E3]];
    repeat match goal with H : (_ <? _) = true |- _ => apply N.ltb_lt in H
                         | H : (_ <? _) = false |- _ => apply N.ltb_ge in H end;
    cbn [app].
  - rewrite (loop_xdigit _ w) by (try apply hexval_hexdig; lia). f_equal; unfold nlen; simpl; lia.
  - rewrite (loop_xdigit _ (w / 16)) by (try apply hexval_hexdig; lia).
    rewrite (loop_xdigit _ (w mod 16)) by (try apply hexval_hexdig; lia).
    f_equal; unfold nlen; simpl; lia.
  - rewrite (loop_xdigit _ (w / 256)) by (try apply hexval_hexdig; lia).
    rewrite (loop_xdigit _ ((w / 16) mod 16)) by (try apply hexval_hexdig; lia).
    rewrite (loop_xdigit _ (w mod 16)) by (try apply hexval_hexdig; lia).
    f_equal; unfold nlen; simpl; lia.
  - rewrite (loop_xdigit _ (w / 4096)) by (try apply hexval_hexdig; lia).
    rewrite (loop_xdigit _ ((w / 256) mod 16)) by (try apply hexval_hexdig; lia).
    rewrite (loop_xdigit _ ((w / 16) mod 16)) by (try apply hexval_hexdig; lia).
    rewrite (loop_xdigit _ (w mod 16)) by (try apply hexval_hexdig; lia).
    f_equal; unfold nlen; simpl; lia.
Qed.

Lemma hex_u16_head w : w < 65536 -> exists c t, hex_u16 w = c :: t /\ c <> 58 /\ c <> 0.
Proof.
  intros Hw. unfold hex_u16.
  destruct (w <? 16) eqn:E1; [|destruct (w <? 256) eqn:E2; [|destruct (w <? 4096) eqn:E3]];
    repeat match goal with H : (_ <? _) = true |- _ => apply N.ltb_lt in H
                         | H : (_ <? _) = false |- _ => apply N.ltb_ge in H end;
    eexists _, _; (split; [reflexivity|]);
    match goal with |- hexdig ?d <> _ /\ _ => destruct (hexdig_range d) as (? & ? & ?); [lia|auto] end.
Qed.

Lemma loop_colon_store s' ct out cp seen val :
  seen <> 0 -> s' <> [] -> nlen out + 2 <= 16 ->
  pton6_loop (58 :: s') ct out cp seen val =
  pton6_loop s' s' (out ++ [(val / 256) mod 256; val mod 256]) cp 0 0.
Proof.
  intros Hs Hne Hl. cbn [pton6_loop]. change (hexval 58) with (@None N). cbn [N.eqb Pos.eqb].
  apply N.eqb_neq in Hs. rewrite Hs.
  destruct s' as [|c s']; [congruence|].
  assert (E : 16 <? nlen out + 2 = false) by (apply N.ltb_ge; lia). rewrite E. reflexivity.
Qed.

Lemma loop_colon_gap s' ct out val :
  pton6_loop (58 :: s') ct out None 0 val = pton6_loop s' s' out (Some (length out)) 0 val.
Proof. reflexivity. Qed.

Lemma finish_store out cp seen val :
  seen <> 0 -> nlen out + 2 <= 16 ->
  pton6_finish out cp seen val =
  pton6_finish (out ++ [(val / 256) mod 256; val mod 256]) cp 0 0.
Proof.
  intros Hs Hl. unfold pton6_finish. apply N.eqb_neq in Hs. rewrite Hs.
  assert (E : 16 <? nlen out + 2 = false) by (apply N.ltb_ge; lia). rewrite E. reflexivity.
Qed.

Lemma finish_val out cp val : pton6_finish out cp 0 val = pton6_finish out cp 0 0.
Proof. reflexivity. Qed.

(* decimal digits are consumed as hex digits until the '.' *)
Lemma hexval_digit c : 48 <= c <= 57 -> hexval c = Some (c - 48).
Proof.
  intros H. unfold hexval.
  assert (E : (48 <=? c) && (c <=? 57) = true) by (rewrite andb_true_iff, !N.leb_le; lia).
  rewrite E. reflexivity.
Qed.

Lemma loop_decdigits ds : forall rest ct out cp seen val,
  Forall digit ds -> seen + nlen ds <= 4 ->
  exists val', pton6_loop (ds ++ rest) ct out cp seen val =
               pton6_loop rest ct out cp (seen + nlen ds) val'.
Proof.
  induction ds as [|c ds IH]; intros rest ct out cp seen val HF Hl.
  - exists val. simpl. unfold nlen; simpl. rewrite N.add_0_r. reflexivity.
  - inversion HF as [|? ? Hc HF']; subst. rewrite nlen_cons in Hl.
    simpl app. rewrite (loop_xdigit c (c - 48)) by (try apply hexval_digit; unfold digit in Hc; lia).
    destruct (IH rest ct out cp (seen + 1) (val * 16 + (c - 48)) HF') as [v' Hv']; [lia|].
    exists v'. rewrite Hv'. rewrite nlen_cons. f_equal. lia.
Qed.

Lemma loop_v4tail a b c d out cp :
  a < 256 -> b < 256 -> c < 256 -> d < 256 -> nlen out + 4 <= 16 ->
  pton6_loop (fmt4 [a; b; c; d]) (fmt4 [a; b; c; d]) out cp 0 0 =
  pton6_finish (out ++ [a; b; c; d]) cp 0 0.
Proof.
  intros Ha Hb Hc Hd Hl.
  pose proof (pton4_complete _ _ (fmt4_dotted a b c d Ha Hb Hc Hd)) as P4.
  set (T := fmt4 [a; b; c; d]) in *.
  assert (ET : T = dec_u8 a ++ 46 :: (dec_u8 b ++ [46] ++ dec_u8 c ++ [46] ++ dec_u8 d))
    by reflexivity.
  rewrite ET at 1.
  destruct (dec_u8_octet a Ha) as (_ & HF & _).
  pose proof (dec_u8_len a) as Hlen.
  destruct (loop_decdigits (dec_u8 a) (46 :: (dec_u8 b ++ [46] ++ dec_u8 c ++ [46] ++ dec_u8 d))
              T out cp 0 0 HF) as [v' Hv']; [unfold nlen; lia|].
  rewrite Hv'. cbn [pton6_loop]. change (hexval 46) with (@None N). cbn [N.eqb Pos.eqb].
  assert (E : nlen out + 4 <=? 16 = true) by (apply N.leb_le; lia). rewrite E. cbn [andb].
  rewrite P4. reflexivity.
Qed.

Lemma pton6_start_hex w rest :
  w < 65536 ->
  inet_pton6 (hex_u16 w ++ rest) =
  pton6_loop (hex_u16 w ++ rest) (hex_u16 w ++ rest) [] None 0 0.
Proof.
  intros Hw. destruct (hex_u16_head w Hw) as (c & t & E & Hc & _). rewrite E.
  simpl app. unfold inet_pton6. apply N.eqb_neq in Hc. rewrite Hc. reflexivity.
Qed.

Lemma pton6_start_gap rest :
  inet_pton6 (58 :: 58 :: rest) = pton6_loop rest rest [] (Some O) 0 0.
Proof. reflexivity. Qed.

Lemma hi_lo a b : a < 256 -> b < 256 ->
  ((a * 256 + b) / 256) mod 256 = a /\ (a * 256 + b) mod 256 = b.
Proof. intros. split; lia. Qed.

Lemma word_zero a b : is_zero (a * 256 + b) = true -> a = 0 /\ b = 0.
Proof. unfold is_zero. rewrite N.eqb_eq. lia. Qed.

Lemma hex_app_ne w r : hex_u16 w ++ r <> [].
Proof. pose proof (hex_u16_len w). destruct (hex_u16 w); simpl in *; [lia|discriminate]. Qed.

Lemma fmt4_ne x : fmt4 x <> [].
Proof. pose proof (fmt4_len x). unfold nlen in *. destruct (fmt4 x); simpl in *; [lia|discriminate]. Qed.

Lemma nlen_hex_ne w : nlen (hex_u16 w) <> 0.
Proof. pose proof (hex_u16_len w). unfold nlen. lia. Qed.

Arguments is_zero : simpl never.
Arguments nlen : simpl never.

Lemma loop_hex_end w ct out cp :
  w < 65536 ->
  pton6_loop (hex_u16 w) ct out cp 0 0 = pton6_finish out cp (nlen (hex_u16 w)) w.
Proof.
  intros Hw. rewrite <- (app_nil_r (hex_u16 w)) at 1. rewrite loop_hex by assumption. reflexivity.
Qed.

Lemma hex_ok w : w < 65536 -> Forall (fun c => 46 <= c) (hex_u16 w).
Proof.
  intros Hw.
  assert (Hd : forall d, 46 <= hexdig d) by (intros d; unfold hexdig; destruct (d <? 10); lia).
  unfold hex_u16.
  destruct (w <? 16); [|destruct (w <? 256); [|destruct (w <? 4096)]]; repeat constructor; apply Hd.
Qed.

Lemma fmt4_ok x : Forall (fun c => 46 <= c) (fmt4 x).
Proof.
  assert (Hd : forall v, Forall (fun c => 46 <= c) (dec_u8 v)).
  { intros v. eapply Forall_impl; [|apply dec_u8_ge48]. simpl. intros; lia. }
  unfold fmt4. repeat (apply Forall_app; split); auto; repeat constructor; lia.
Qed.

(* closed form of everything inet_ntop6 does before the size test *)
Definition text6 (a : list N) : list N :=
  let ws := words_of (firstn 16 a) in
  let best := best_run (map is_zero ws) in
  fmt6_pure ws 0%Z best (nth 5 ws 0) (nth 7 ws 0) (skipn 12 a) [] ++
  (if negb (fst best =? -1)%Z && (fst best + snd best =? 8)%Z then [58] else []).

Lemma ntop6_text_closed a : nlen (text6 a) <= 45 -> ntop6_text a = (0%Z, text6 a).
Proof.
  unfold text6, ntop6_text. cbv zeta.
  set (ws := words_of (firstn 16 a)). set (best := best_run (map is_zero ws)).
  intros H. rewrite nlen_app in H.
  rewrite fmt6_loop_pure by lia.
  destruct (negb (fst best =? -1)%Z && (fst best + snd best =? 8)%Z).
  - rewrite nlen_app in *. 
    assert (E : 46 <? nlen (fmt6_pure ws 0 best (nth 5 ws 0) (nth 7 ws 0) (skipn 12 a) []) + nlen [58] + 1 = false)
      by (apply N.ltb_ge; lia).
    rewrite E. reflexivity.
  - rewrite app_nil_r.
    assert (E : 46 <? nlen (fmt6_pure ws 0 best (nth 5 ws 0) (nth 7 ws 0) (skipn 12 a) []) + 1 = false)
      by (change (nlen []) with 0 in H; apply N.ltb_ge; lia).
    rewrite E. reflexivity.
Qed.
