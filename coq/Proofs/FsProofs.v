(* Proofs about Model/Fs.v (C11). *)
From UV Require Import Lib.Base Model.Fs.

Lemma result_of_err e : result_of (RErr e) = (- e)%Z.
Proof. reflexivity. Qed.
Lemma result_of_ok n : result_of (ROk n) = Z.of_nat n.
Proof. reflexivity. Qed.
