(* Proofs about Model/Fs.v (C11), part B: buffer arithmetic. *)
From UV Require Import Lib.Base Model.Fs.

Lemma result_of_err e : result_of (RErr e) = (- e)%Z.
Proof. reflexivity. Qed.
Lemma result_of_ok n : result_of (ROk n) = Z.of_nat n.
Proof. reflexivity. Qed.

Section B.
Context {A : Type}.
Implicit Types (bufs : list (buf A)) (data : list A).

(* ---------- list facts ---------- *)
Lemma firstn_add n m (l : list A) :
  firstn (n + m) l = firstn n l ++ firstn m (skipn n l).
Proof.
  revert l; induction n as [|n IH]; intros l; simpl; auto.
  destruct l; simpl; [now rewrite firstn_nil | now rewrite IH].
Qed.

Lemma concat_firstn_skipn k bufs : concat bufs = concat (firstn k bufs) ++ concat (skipn k bufs).
Proof. rewrite <- concat_app, firstn_skipn; reflexivity. Qed.

Lemma firstn_concat_prefix k n bufs :
  n <= length (concat (firstn k bufs)) ->
  firstn n (concat (firstn k bufs)) = firstn n (concat bufs).
Proof.
  intros H. rewrite (concat_firstn_skipn k bufs).
  rewrite firstn_app. replace (n - length (concat (firstn k bufs))) with 0 by lia.
  simpl; now rewrite app_nil_r.
Qed.

Lemma total_len_firstn_le k bufs : total_len (firstn k bufs) <= total_len bufs.
Proof.
  unfold total_len. rewrite (concat_firstn_skipn k bufs). rewrite app_length. lia.
Qed.

(* ---------- scatter (readv) ---------- *)
Lemma scatter_nil bufs : scatter [] bufs = bufs.
Proof.
  induction bufs as [|b bs IH]; simpl; auto.
  rewrite firstn_nil, skipn_nil. simpl. now rewrite IH.
Qed.

Lemma scatter_lengths data bufs : map (@length A) (scatter data bufs) = map (@length A) bufs.
Proof.
  revert data; induction bufs as [|b bs IH]; intros data; simpl; auto.
  rewrite IH. f_equal. rewrite app_length, firstn_length, skipn_length. lia.
Qed.

Lemma scatter_concat data bufs :
  length data <= total_len bufs ->
  concat (scatter data bufs) = data ++ skipn (length data) (concat bufs).
Proof.
  unfold total_len.
  revert data; induction bufs as [|b bs IH]; intros data H; simpl in *.
  - destruct data; simpl in *; [reflexivity | lia].
  - rewrite app_length in H.
    destruct (Nat.le_gt_cases (length data) (length b)) as [Hle|Hgt].
    + rewrite (firstn_all2 data) by lia.
      rewrite (skipn_all2 data) by lia. rewrite scatter_nil.
      rewrite skipn_app. replace (length data - length b) with 0 by lia. simpl.
      now rewrite <- app_assoc.
    + rewrite (skipn_all2 b) by lia. rewrite app_nil_r.
      rewrite IH by (rewrite skipn_length; lia).
      rewrite skipn_length, skipn_app.
      rewrite (skipn_all2 b) by lia. simpl.
      rewrite app_assoc, firstn_skipn. reflexivity.
Qed.

(* ---------- pick_call ---------- *)
Lemma pick_call_some bufs nb off c :
  pick_call bufs nb off = Some c ->
  exists k, riov c = firstn k bufs /\ k <= nb /\ 1 <= k /\
            roff c = (if (off <? 0)%Z then (-1)%Z else off).
Proof.
  unfold pick_call. intros H.
  destruct (off <? 0)%Z; destruct (nb =? 1) eqn:E1.
  1,3: apply Nat.eqb_eq in E1; inversion H; subst c; exists 1; cbn [riov roff];
       repeat split; auto; lia.
  all: destruct (1 <? nb) eqn:E2; inversion H; subst c; apply Nat.ltb_lt in E2;
       exists nb; cbn [riov roff]; repeat split; auto; lia.
Qed.

Lemma pick_call_is_some bufs nb off : 1 <= nb -> pick_call bufs nb off <> None.
Proof.
  intros H. unfold pick_call.
  destruct (off <? 0)%Z; destruct (nb =? 1) eqn:E1; try discriminate;
    destruct (1 <? nb) eqn:E2; try discriminate;
    apply Nat.eqb_neq in E1; apply Nat.ltb_ge in E2; lia.
Qed.

(* ---------- uv__fs_read ---------- *)
(* Every buffer keeps its length; read as one sequence, the buffers hold the
   n bytes of the file that start at the given offset (or at the descriptor's
   position), followed by what they held before; the result is n; the
   descriptor moves by n exactly when no offset was given.  n is whatever the
   kernel delivered (at most what was asked for and what the file has). *)
Theorem read_fills_in_order :
  forall (iovmax : nat) bufs (off : Z) (file : list A) (pos n : nat) c,
  fs_read_call iovmax bufs off = Some c ->
  let start := if (off <? 0)%Z then pos else Z.to_nat off in
  n <= total_len (riov c) -> n <= length (skipn start file) ->
  exists bufs',
    fs_read iovmax bufs off file pos (AOk n) =
      (ROk n, bufs', if (off <? 0)%Z then pos + n else pos) /\
    map (@length A) bufs' = map (@length A) bufs /\
    concat bufs' = firstn n (skipn start file) ++ skipn n (concat bufs) /\
    length (riov c) <= iovmax /\ riov c = firstn (length (riov c)) bufs.
Proof.
  intros iovmax bufs off file pos n c Hc start Hn Hav.
  unfold fs_read. rewrite Hc. fold start.
  set (data := firstn n (skipn start file)).
  assert (Hd : length data = n) by (unfold data; rewrite firstn_length; lia).
  unfold fs_read_call in Hc.
  destruct (pick_call_some _ _ _ _ Hc) as (k & Hk & Hle & H1 & _).
  assert (Hkk : k <= iovmax) by (destruct (iovmax <? length bufs) eqn:E; [lia|apply Nat.ltb_ge in E; lia]).
  assert (Hkl : k <= length bufs)
    by (destruct (iovmax <? length bufs) eqn:E; [apply Nat.ltb_lt in E; lia|lia]).
  eexists. split; [|split; [|split; [|split]]].
  - rewrite Hd. reflexivity.
  - rewrite map_app, scatter_lengths, Hk, <- map_app.
    rewrite firstn_length, Nat.min_l by lia. now rewrite firstn_skipn.
  - rewrite concat_app, scatter_concat by (rewrite Hd; exact Hn).
    rewrite Hd, Hk, firstn_length, Nat.min_l by lia.
    rewrite <- app_assoc. f_equal.
    rewrite (concat_firstn_skipn k bufs).
    rewrite skipn_app. rewrite Hk in Hn. unfold total_len in Hn.
    replace (n - length (concat (firstn k bufs))) with 0 by lia. reflexivity.
  - rewrite Hk, firstn_length. lia.
  - rewrite Hk, firstn_length, Nat.min_l by lia. reflexivity.
Qed.

(* a failed read leaves buffers and position alone and reports the errno *)
Lemma read_error iovmax bufs off file pos e c :
  fs_read_call iovmax bufs off = Some c ->
  fs_read iovmax bufs off file pos (AErr e) = (RErr e, bufs, pos).
Proof. intros H. unfold fs_read. now rewrite H. Qed.

Lemma read_call_exists iovmax bufs off :
  1 <= iovmax -> bufs <> [] -> fs_read_call iovmax bufs off <> None.
Proof.
  intros Hi Hb. unfold fs_read_call. apply pick_call_is_some.
  destruct bufs; [congruence|]. simpl. destruct (iovmax <? S (length bufs)); lia.
Qed.

(* ---------- uv__fs_buf_offset ---------- *)
Lemma buf_offset_concat bufs n o bufs' :
  buf_offset bufs n = (o, bufs') -> n <= total_len bufs ->
  concat (skipn o bufs') = skipn n (concat bufs) /\ o <= length bufs.
Proof.
  unfold total_len.
  revert n o bufs'; induction bufs as [|b rest IH]; intros n o bufs' H Hn; simpl in *.
  - inversion H; subst. destruct n; simpl in *; [auto | lia].
  - rewrite app_length in Hn.
    destruct ((0 <? n) && (length b <=? n)) eqn:E.
    + apply andb_prop in E as [E1 E2]. apply Nat.ltb_lt in E1. apply Nat.leb_le in E2.
      destruct (buf_offset rest (n - length b)) as [o' bs] eqn:Er.
      inversion H; subst. simpl.
      destruct (IH _ _ _ Er) as [IH1 IH2]; [lia|]. split; [|lia].
      rewrite IH1, skipn_app, (skipn_all2 b) by lia. reflexivity.
    + destruct (0 <? n) eqn:E1.
      * simpl in E. apply Nat.leb_gt in E. inversion H; subst. simpl. split; [|lia].
        rewrite skipn_app. replace (n - length b) with 0 by lia. reflexivity.
      * apply Nat.ltb_ge in E1. assert (n = 0) by lia. subst.
        inversion H; subst. simpl. split; [reflexivity|lia].
Qed.

(* shape of what remains: a suffix of the array, possibly with a shortened,
   still non-empty first buffer *)
Lemma buf_offset_shape bufs n o bufs' :
  buf_offset bufs n = (o, bufs') -> n <= total_len bufs ->
  skipn o bufs' = skipn o bufs \/
  exists b b' rest, skipn o bufs = b :: rest /\ skipn o bufs' = b' :: rest /\ b' <> [].
Proof.
  unfold total_len.
  revert n o bufs'; induction bufs as [|b rest IH]; intros n o bufs' H Hn; simpl in *.
  - inversion H; subst. now left.
  - rewrite app_length in Hn.
    destruct ((0 <? n) && (length b <=? n)) eqn:E.
    + apply andb_prop in E as [E1 E2]. apply Nat.ltb_lt in E1. apply Nat.leb_le in E2.
      destruct (buf_offset rest (n - length b)) as [o' bs] eqn:Er.
      inversion H; subst. simpl. apply (IH _ _ _ Er). lia.
    + destruct (0 <? n) eqn:E1.
      * simpl in E. apply Nat.leb_gt in E. inversion H; subst. simpl.
        right. exists b, (skipn n b), rest. repeat split.
        intros Hnil. apply (f_equal (@length A)) in Hnil. rewrite skipn_length in Hnil.
        simpl in Hnil. lia.
      * inversion H; subst. now left.
Qed.

(* ---------- uv__fs_write_all ---------- *)
Section WA.
Context {St : Type}.
Variable sys : St -> rwcall A -> answer * St.

Definition honest (lg : list (rwcall A * answer)) : Prop :=
  Forall (fun w => match snd w with AOk n => n <= total_len (riov (fst w)) | AErr _ => True end) lg.

(* the offsets of the logged calls: the given offset plus what went before,
   or always "none" when the descriptor's position is used *)
Fixpoint offsets_ok (off : Z) (lg : list (rwcall A * answer)) : Prop :=
  match lg with
  | [] => True
  | w :: l =>
    roff (fst w) = (if (off <? 0)%Z then (-1)%Z else off) /\
    offsets_ok (match snd w with
                | AOk n => if (0 <=? off)%Z then (off + Z.of_nat n)%Z else off
                | AErr _ => off end) l
  end.

Lemma write_all_loop_step fuel iovmax s bufs off total c :
  bufs <> [] ->
  pick_call bufs (if iovmax <? length bufs then iovmax else length bufs) off = Some c ->
  write_all_loop sys (S fuel) iovmax s bufs off total =
  (let '(a, s') := sys s c in
   match a with
   | AErr e =>
     if (e =? EINTR)%Z then
       let '(r, lg, s'') := write_all_loop sys fuel iovmax s' bufs off total in
       (r, (c, a) :: lg, s'')
     else (WDone (if total =? 0 then RErr e else ROk total), [(c, a)], s')
   | AOk O =>
     if ((if iovmax <? length bufs then iovmax else length bufs) <? length bufs) &&
        forallb (fun b => length b =? 0)
                (firstn (if iovmax <? length bufs then iovmax else length bufs) bufs) then
       let '(r, lg, s'') :=
         write_all_loop sys fuel iovmax s'
           (skipn (if iovmax <? length bufs then iovmax else length bufs) bufs) off total in
       (r, (c, a) :: lg, s'')
     else (WDone (ROk total), [(c, a)], s')
   | AOk n =>
     let '(o, bufs') := buf_offset bufs n in
     let off' := if (0 <=? off)%Z then (off + Z.of_nat n)%Z else off in
     let '(r, lg, s'') :=
       write_all_loop sys fuel iovmax s' (skipn o bufs') off' (total + n) in
     (r, (c, a) :: lg, s'')
   end).
Proof.
  intros Hne Hc. destruct bufs as [|b bs]; [congruence|].
  cbn [write_all_loop]. rewrite Hc. reflexivity.
Qed.

Lemma written_cons (w : rwcall A * answer) lg : written (w :: lg) = wrec_data w ++ written lg.
Proof. reflexivity. Qed.

Lemma call_window bufs iovmax off c :
  pick_call bufs (if iovmax <? length bufs then iovmax else length bufs) off = Some c ->
  riov c = firstn iovmax bufs.
Proof.
  intros H.
  assert (Hn : riov c = firstn (if iovmax <? length bufs then iovmax else length bufs) bufs).
  { unfold pick_call in H.
    destruct (off <? 0)%Z;
      destruct ((if iovmax <? length bufs then iovmax else length bufs) =? 1) eqn:E1;
      try (apply Nat.eqb_eq in E1; rewrite E1; inversion H; reflexivity);
      destruct (1 <? (if iovmax <? length bufs then iovmax else length bufs));
      inversion H; reflexivity. }
  rewrite Hn. destruct (iovmax <? length bufs) eqn:E; auto.
  apply Nat.ltb_ge in E. rewrite !firstn_all2; auto.
Qed.

Lemma call_window_nb bufs iovmax off c :
  pick_call bufs (if iovmax <? length bufs then iovmax else length bufs) off = Some c ->
  riov c = firstn (if iovmax <? length bufs then iovmax else length bufs) bufs.
Proof.
  intros H. rewrite (call_window _ _ _ _ H).
  destruct (iovmax <? length bufs) eqn:E; auto.
  apply Nat.ltb_ge in E. rewrite !firstn_all2; auto.
Qed.

Lemma all_empty_concat (l : list (buf A)) :
  forallb (fun b => length b =? 0) l = true <-> concat l = [].
Proof.
  induction l as [|b l IH]; simpl; [tauto|].
  rewrite andb_true_iff, IH, Nat.eqb_eq, length_zero_iff_nil. split.
  - intros [-> ->]. reflexivity.
  - intros H. apply app_eq_nil in H. tauto.
Qed.

Lemma call_of_loop bufs iovmax off c :
  pick_call bufs (if iovmax <? length bufs then iovmax else length bufs) off = Some c ->
  (forall n, n <= total_len (riov c) -> firstn n (concat (riov c)) = firstn n (concat bufs)) /\
  total_len (riov c) <= total_len bufs /\ length (riov c) <= iovmax /\
  roff c = (if (off <? 0)%Z then (-1)%Z else off).
Proof.
  intros H. destruct (pick_call_some _ _ _ _ H) as (k & Hk & Hle & H1 & Ho).
  rewrite Hk. repeat split; auto.
  - intros n Hn. now apply firstn_concat_prefix.
  - apply total_len_firstn_le.
  - rewrite firstn_length. destruct (iovmax <? length bufs) eqn:E; [lia|].
    apply Nat.ltb_ge in E. lia.
Qed.

Ltac six := split; [|split; [|split; [|split; [|split]]]].
Ltac term_case :=
  six; [ reflexivity | simpl; lia | exact I | constructor
       | intros ? Ht; try discriminate; inversion Ht; simpl; lia
       | intros ? He; discriminate ].

(* Whatever the system answers (short counts, EINTR, errors, in any pattern):
   the bytes accepted are, in order, the first [wcount] bytes of the buffer
   list, each call starts where the previous one stopped, and the value
   returned is that count (or the error when nothing was written). *)
Theorem write_all_prefix_gen :
  forall (fuel iovmax : nat) (s : St) bufs (off : Z) (total : nat) r lg s',
  write_all_loop sys fuel iovmax s bufs off total = (r, lg, s') ->
  honest lg ->
  written lg = firstn (wcount lg) (concat bufs) /\
  wcount lg <= total_len bufs /\
  offsets_ok off lg /\
  Forall (fun w => length (riov (fst w)) <= iovmax) lg /\
  (forall t, r = WDone (ROk t) -> t = total + wcount lg) /\
  (forall e, r = WDone (RErr e) -> total = 0 /\ wcount lg = 0).
Proof.
  induction fuel as [|fuel IH]; intros iovmax s bufs off total r lg s' H Hh.
  - simpl in H. destruct bufs as [|b bs].
    + inversion H; subst. term_case.
    + destruct (pick_call _ _ _); inversion H; subst; term_case.
  - simpl in H. destruct bufs as [|b bs].
    + inversion H; subst. term_case.
    + set (bufs := b :: bs) in *.
      destruct (pick_call bufs (if iovmax <? length bufs then iovmax else length bufs) off)
        as [c|] eqn:Hc.
      2:{ inversion H; subst. term_case. }
      destruct (call_of_loop _ _ _ _ Hc) as (Hpre & Htl & Hlen & Hoff).
      destruct (sys s c) as [a s1] eqn:Hs.
      destruct a as [e|n].
      * destruct (e =? EINTR)%Z.
        -- destruct (write_all_loop sys fuel iovmax s1 bufs off total) as [[r1 lg1] s2] eqn:Hr.
           inversion H; subst. inversion Hh; subst.
           destruct (IH _ _ _ _ _ _ _ _ Hr H3) as (I1 & I2 & I3 & I4 & I5 & I6).
           rewrite written_cons. six.
           { exact I1. }
           { exact I2. }
           { simpl. split; [exact Hoff | exact I3]. }
           { constructor; [exact Hlen | exact I4]. }
           { exact I5. }
           { exact I6. }
        -- inversion H; subst. six.
           { reflexivity. }
           { simpl; lia. }
           { simpl. split; [exact Hoff | exact I]. }
           { constructor; [exact Hlen | constructor]. }
           { intros t Ht. destruct (total =? 0); inversion Ht. simpl; lia. }
           { intros e0 He. destruct (total =? 0) eqn:E; inversion He.
             apply Nat.eqb_eq in E. simpl; auto. }
      * destruct n as [|m].
        -- set (nb := if iovmax <? length bufs then iovmax else length bufs) in *.
           destruct ((nb <? length bufs) && forallb (fun b0 => length b0 =? 0) (firstn nb bufs)) eqn:Esk.
           ++ (* an all-empty window is skipped *)
              apply andb_prop in Esk as [_ Hemp]. apply all_empty_concat in Hemp.
              destruct (write_all_loop sys fuel iovmax s1 (skipn nb bufs) off total)
                as [[r1 lg1] s2] eqn:Hr.
              inversion H; subst. inversion Hh; subst.
              destruct (IH _ _ _ _ _ _ _ _ Hr H3) as (I1 & I2 & I3 & I4 & I5 & I6).
              assert (Hcc : concat (skipn nb bufs) = concat bufs)
                by (rewrite (concat_firstn_skipn nb bufs), Hemp; reflexivity).
              unfold total_len in I2. rewrite Hcc in I1, I2.
              rewrite written_cons. six.
              { exact I1. }
              { exact I2. }
              { simpl. split; [exact Hoff|]. destruct (0 <=? off)%Z; [rewrite Z.add_0_r|]; exact I3. }
              { constructor; [exact Hlen | exact I4]. }
              { exact I5. }
              { exact I6. }
           ++ inversion H; subst. six.
              { reflexivity. }
              { simpl; lia. }
              { simpl. split; [exact Hoff | exact I]. }
              { constructor; [exact Hlen | constructor]. }
              { intros t Ht. inversion Ht. simpl; lia. }
              { intros e He. discriminate. }
        -- set (n := S m) in *.
           destruct (buf_offset bufs n) as [o bufs1] eqn:Hbo.
           destruct (write_all_loop sys fuel iovmax s1 (skipn o bufs1)
                       (if (0 <=? off)%Z then (off + Z.of_nat n)%Z else off) (total + n))
             as [[r1 lg1] s2] eqn:Hr.
           inversion H; subst r lg s'. inversion Hh as [|? ? Hn Hh1]; subst. simpl in Hn.
           destruct (IH _ _ _ _ _ _ _ _ Hr Hh1) as (I1 & I2 & I3 & I4 & I5 & I6).
           assert (Hnb : n <= total_len bufs) by lia.
           destruct (buf_offset_concat _ _ _ _ Hbo Hnb) as [Hcc _].
           rewrite Hcc in I1. unfold total_len in I2. rewrite Hcc, skipn_length in I2.
           rewrite written_cons. unfold wrec_data at 1. cbn [fst snd].
           assert (Hwc : wcount ((c, AOk n) :: lg1) = n + wcount lg1) by reflexivity.
           rewrite Hwc. six.
           { rewrite Hpre by exact Hn. rewrite I1. symmetry. apply firstn_add. }
           { unfold total_len in *. lia. }
           { simpl. split; [exact Hoff | exact I3]. }
           { constructor; [exact Hlen | exact I4]. }
           { intros t Ht. rewrite (I5 _ Ht). lia. }
           { intros e He. destruct (I6 _ He). lia. }
Qed.

(* ---- completeness ---- *)
(* the system never fails (EINTR aside) and never answers 0 to a request for
   at least one byte *)
Definition progress (lg : list (rwcall A * answer)) : Prop :=
  Forall (fun w => match snd w with
                   | AErr e => e = EINTR
                   | AOk n => 0 < total_len (riov (fst w)) -> 0 < n
                   end) lg.

Lemma skipn_skipn' {T} x y (l : list T) : skipn x (skipn y l) = skipn (y + x) l.
Proof.
  revert l; induction y as [|y IH]; intros l; simpl; auto.
  destruct l; simpl; [now rewrite skipn_nil | apply IH].
Qed.

Theorem write_all_complete_gen :
  forall (fuel iovmax : nat) (s : St) bufs (off : Z) (total : nat) x lg s',
  write_all_loop sys fuel iovmax s bufs off total = (WDone x, lg, s') ->
  honest lg -> progress lg ->
  x = ROk (total + total_len bufs) /\ wcount lg = total_len bufs.
Proof.
  induction fuel as [|fuel IH]; intros iovmax s bufs off total x lg s' H Hh Hp.
  - simpl in H. destruct bufs as [|b bs].
    + inversion H; subst. unfold total_len; simpl. split; [f_equal; lia|reflexivity].
    + destruct (pick_call (b :: bs) _ off); inversion H.
  - simpl in H. destruct bufs as [|b bs].
    + inversion H; subst. unfold total_len; simpl. split; [f_equal; lia|reflexivity].
    + set (bufs := b :: bs) in *.
      destruct (pick_call bufs (if iovmax <? length bufs then iovmax else length bufs) off)
        as [c|] eqn:Hc; [|inversion H].
      destruct (call_of_loop _ _ _ _ Hc) as (Hpre & Htl & Hlen & Hoff).
      pose proof (call_window_nb _ _ _ _ Hc) as Hwin.
      destruct (sys s c) as [a s1] eqn:Hs.
      destruct a as [e|n].
      * destruct (e =? EINTR)%Z eqn:Ee.
        -- destruct (write_all_loop sys fuel iovmax s1 bufs off total) as [[r1 lg1] s2] eqn:Hr.
           inversion H; subst. inversion Hh; subst. inversion Hp; subst.
           destruct (IH _ _ _ _ _ _ _ _ Hr H3 H5) as [I1 I2]. split; auto.
        -- inversion H; subst. inversion Hp; subst. simpl in H2. subst e. discriminate.
      * destruct n as [|m].
        -- (* the system answered 0: by [progress] the window holds no byte *)
           set (nb := if iovmax <? length bufs then iovmax else length bufs) in *.
           assert (Hz : total_len (riov c) = 0).
           { destruct ((nb <? length bufs) && _) in H;
               [destruct (write_all_loop _ _ _ _ _ _ _) as [[? ?] ?] in H|];
               inversion H; subst; inversion Hp as [|? ? Hq _]; subst; simpl in Hq; lia. }
           rewrite Hwin in Hz. unfold total_len in Hz. apply length_zero_iff_nil in Hz.
           assert (Hemp := proj2 (all_empty_concat _) Hz).
           destruct (nb <? length bufs) eqn:Enb; cbn [andb] in H.
           ++ rewrite Hemp in H.
              destruct (write_all_loop sys fuel iovmax s1 (skipn nb bufs) off total)
                as [[r1 lg1] s2] eqn:Hr.
              inversion H; subst. inversion Hh; subst. inversion Hp; subst.
              destruct (IH _ _ _ _ _ _ _ _ Hr H3 H5) as [I1 I2].
              assert (Hcc : total_len (skipn nb bufs) = total_len bufs)
                by (unfold total_len; rewrite (concat_firstn_skipn nb bufs), Hz; reflexivity).
              rewrite Hcc in I1, I2. split; [exact I1 | exact I2].
           ++ (* the window is the whole remaining list *)
              inversion H; subst. apply Nat.ltb_ge in Enb.
              assert (Hall : total_len bufs = 0).
              { unfold total_len. rewrite firstn_all2 in Hz by exact Enb. now rewrite Hz. }
              rewrite Hall. simpl. split; [f_equal; lia|reflexivity].
        -- set (n := S m) in *.
           destruct (buf_offset bufs n) as [o bufs1] eqn:Hbo.
           destruct (write_all_loop sys fuel iovmax s1 (skipn o bufs1)
                       (if (0 <=? off)%Z then (off + Z.of_nat n)%Z else off) (total + n))
             as [[r1 lg1] s2] eqn:Hr.
           inversion H; subst r1 lg s'. inversion Hh as [|? ? Hn Hh1]; subst.
           inversion Hp as [|? ? _ Hp1]; subst. simpl in Hn.
           assert (Hnb : n <= total_len bufs) by lia.
           destruct (buf_offset_concat _ _ _ _ Hbo Hnb) as [Hcc _].
           destruct (IH _ _ _ _ _ _ _ _ Hr Hh1 Hp1) as [I1 I2].
           assert (Hl : total_len (skipn o bufs1) = total_len bufs - n)
             by (unfold total_len; rewrite Hcc, skipn_length; reflexivity).
           rewrite Hl in I1, I2. simpl. split; [rewrite I1; f_equal; lia | lia].
Qed.

End WA.

End B.
