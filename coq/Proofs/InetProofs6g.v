(* C18 proofs, part 9: consequences of soundness + round trip: the canonical
   text of every address is a text of the RFC 4291 grammar denoting that
   address, and it is accepted. *)
From UV Require Import Lib.Base Model.Inet Spec.InetSpec Proofs.InetProofs4 Proofs.InetProofs6
  Proofs.InetProofs6rt Proofs.InetProofs6s.
Local Open Scope N_scope.

Theorem canonical_in_grammar a :
  bytes16 a -> ip6_text (text6 a) a /\ inet_pton6 (text6 a) = (0%Z, a).
Proof.
  intros Hb. destruct (rt_all a Hb) as (_ & _ & Hp). split; [apply pton6_sound; exact Hp|exact Hp].
Qed.
