(* Model/Wtf8.v: UTF-16 -> WTF-8 -> UTF-16 is the identity on every sequence
   of non-zero 16-bit units (unpaired surrogates included), and the length
   functions report exactly what the converters store. *)
From UV Require Import Lib.Base Model.Wtf8 Proofs.IdnaBits.
Local Open Scope N_scope.

(* ------------------------------------------------------------------ *)
(* Independent description of the two encodings                        *)
(* ------------------------------------------------------------------ *)
Definition is_high (u : N) : bool := (55296 <=? u) && (u <=? 56319).
Definition is_low (u : N) : bool := (56320 <=? u) && (u <=? 57343).

(* code points of a potentially ill-formed UTF-16 string: a high surrogate
   directly followed by a low surrogate is one supplementary code point,
   every other unit stands for itself *)
Fixpoint cps_of (w : list N) : list N :=
  match w with
  | [] => []
  | u :: r =>
      match r with
      | n :: r' =>
          if is_high u && is_low n
          then (65536 + (u - 55296) * 1024 + (n - 56320)) :: cps_of r'
          else u :: cps_of r
      | [] => [u]
      end
  end.

(* generalised UTF-8 (WTF-8) of one code point, arithmetically *)
Definition enc_cp (cp : N) : list N :=
  if cp <? 128 then [cp]
  else if cp <? 2048 then [192 + cp / 64; 128 + cp mod 64]
  else if cp <? 65536 then [224 + cp / 4096; 128 + (cp / 64) mod 64; 128 + cp mod 64]
  else [240 + cp / 262144; 128 + (cp / 4096) mod 64; 128 + (cp / 64) mod 64; 128 + cp mod 64].

(* UTF-16 of one code point *)
Definition units_of_cp (cp : N) : list N :=
  if 65535 <? cp then [(cp - 65536) / 1024 + 55296; (cp - 65536) mod 1024 + 56320] else [cp].

Definition wtf8_of (w : list N) : list N := flat_map enc_cp (cps_of w).

Definition unit16 (u : N) : Prop := u < 65536.
Definition nz16 (u : N) : Prop := 0 < u /\ u < 65536.

(* ------------------------------------------------------------------ *)
(* One character: decoder on the encoder's bytes                       *)
(* ------------------------------------------------------------------ *)
Lemma dec1 cp rest : cp < 128 -> wtf8_decode1 (cp :: rest) = (Some cp, cp :: rest).
Proof.
  intros H. unfold wtf8_decode1. cbn [hd].
  destruct (N.leb_spec cp 127); [reflexivity|lia].
Qed.

Lemma cont_test x : x < 64 -> negb (N.land (128 + x) 192 =? 128) = false.
Proof.
  intros H. rewrite land192_byte by lia.
  replace ((128 + x) / 64 * 64) with 128 by lia. reflexivity.
Qed.

Lemma dec2 cp rest : 128 <= cp < 2048 ->
  wtf8_decode1 ((192 + cp / 64) :: (128 + cp mod 64) :: rest)
  = (Some cp, (128 + cp mod 64) :: rest).
Proof.
  intros H. unfold wtf8_decode1. cbn [hd tl].
  set (q := cp / 64). set (r := cp mod 64).
  assert (Hq : 2 <= q < 32) by (unfold q; lia).
  assert (Hr : r < 64) by (unfold r; lia).
  assert (E : cp = q * 64 + r) by (unfold q, r; lia).
  destruct (N.leb_spec (192 + q) 127); [lia|].
  destruct (N.ltb_spec (192 + q) 194); [lia|].
  rewrite cont_test by exact Hr. rewrite land63, shl6.
  replace ((128 + r) mod 64) with r by lia.
  rewrite lor_add6 by exact Hr.
  destruct (N.leb_spec (192 + q) 223); [|lia].
  rewrite land2047. do 2 f_equal. lia.
Qed.

Lemma dec3 cp rest : 2048 <= cp < 65536 ->
  wtf8_decode1 ((224 + cp / 4096) :: (128 + (cp / 64) mod 64) :: (128 + cp mod 64) :: rest)
  = (Some cp, (128 + cp mod 64) :: rest).
Proof.
  intros H. unfold wtf8_decode1. cbn [hd tl].
  set (a := cp / 4096). set (b := (cp / 64) mod 64). set (c := cp mod 64).
  assert (Ha : a < 16) by (unfold a; lia).
  assert (Hb : b < 64) by (unfold b; lia).
  assert (Hc : c < 64) by (unfold c; lia).
  assert (E : cp = (a * 64 + b) * 64 + c) by (unfold a, b, c; lia).
  destruct (N.leb_spec (224 + a) 127); [lia|].
  destruct (N.ltb_spec (224 + a) 194); [lia|].
  rewrite !cont_test by assumption. rewrite !land63, !shl6.
  replace ((128 + b) mod 64) with b by lia.
  replace ((128 + c) mod 64) with c by lia.
  rewrite (lor_add6 (224 + a) b) by exact Hb.
  rewrite (lor_add6 _ c) by exact Hc.
  destruct (N.leb_spec (224 + a) 223); [lia|].
  destruct (N.leb_spec (224 + a) 239); [|lia].
  rewrite land65535. do 2 f_equal. lia.
Qed.

Lemma dec4 cp rest : 65536 <= cp < 1114112 ->
  wtf8_decode1 ((240 + cp / 262144) :: (128 + (cp / 4096) mod 64) :: (128 + (cp / 64) mod 64)
                 :: (128 + cp mod 64) :: rest)
  = (Some cp, (128 + cp mod 64) :: rest).
Proof.
  intros H. unfold wtf8_decode1. cbn [hd tl].
  set (a := cp / 262144). set (b := (cp / 4096) mod 64).
  set (c := (cp / 64) mod 64). set (d := cp mod 64).
  assert (Ha : a < 5) by (unfold a; lia).
  assert (Hb : b < 64) by (unfold b; lia).
  assert (Hc : c < 64) by (unfold c; lia).
  assert (Hd : d < 64) by (unfold d; lia).
  assert (E : cp = ((a * 64 + b) * 64 + c) * 64 + d) by (unfold a, b, c, d; lia).
  destruct (N.leb_spec (240 + a) 127); [lia|].
  destruct (N.ltb_spec (240 + a) 194); [lia|].
  rewrite !cont_test by assumption. rewrite !land63, !shl6.
  replace ((128 + b) mod 64) with b by lia.
  replace ((128 + c) mod 64) with c by lia.
  replace ((128 + d) mod 64) with d by lia.
  rewrite (lor_add6 (240 + a) b) by exact Hb.
  rewrite (lor_add6 _ c) by exact Hc.
  rewrite (lor_add6 _ d) by exact Hd.
  destruct (N.leb_spec (240 + a) 223); [lia|].
  destruct (N.leb_spec (240 + a) 239); [lia|].
  destruct (N.leb_spec (240 + a) 244); [|lia].
  rewrite land2097151.
  replace ((((240 + a) * 64 + b) * 64 + c) * 64 + d) with (cp + 30 * 2097152) by lia.
  replace ((cp + 30 * 2097152) mod 2097152) with cp by lia.
  destruct (N.leb_spec cp 1114111); [reflexivity|lia].
Qed.

Definition last_byte (cp : N) : N := if cp <? 128 then cp else 128 + cp mod 64.

Lemma dec_enc cp rest : cp < 1114112 ->
  wtf8_decode1 (enc_cp cp ++ rest) = (Some cp, last_byte cp :: rest).
Proof.
  intros H. unfold enc_cp, last_byte.
  destruct (N.ltb_spec cp 128); [apply dec1; assumption|].
  destruct (N.ltb_spec cp 2048); [apply dec2; lia|].
  destruct (N.ltb_spec cp 65536); [apply dec3; lia|].
  apply dec4; lia.
Qed.

Lemma last_byte_nz cp : 0 < cp -> (last_byte cp =? 0) = false.
Proof.
  intros H. unfold last_byte. destruct (N.ltb_spec cp 128); apply N.eqb_neq; lia.
Qed.

Lemma enc_cp_length cp : (1 <= length (enc_cp cp) <= 4)%nat.
Proof.
  unfold enc_cp. destruct (cp <? 128); [cbn; lia|]. destruct (cp <? 2048); [cbn; lia|].
  destruct (cp <? 65536); cbn; lia.
Qed.

Lemma enc_length_ge cps : (length cps <= length (flat_map enc_cp cps))%nat.
Proof.
  induction cps as [|c l IH]; [cbn; lia|]. cbn [flat_map]. rewrite app_length.
  pose proof (enc_cp_length c). cbn [length]. lia.
Qed.

Definition cp_ok (cp : N) : Prop := 0 < cp /\ cp < 1114112.

(* ------------------------------------------------------------------ *)
(* WTF-8 -> UTF-16 on the encoding of a code point list                *)
(* ------------------------------------------------------------------ *)
Lemma length_loop_enc cps : forall fuel acc,
  Forall cp_ok cps -> (length cps < fuel)%nat ->
  wtf8_length_loop fuel (flat_map enc_cp cps) acc
  = Some (acc + N.of_nat (length (flat_map units_of_cp cps)) + 1).
Proof.
  induction cps as [|cp l IH]; intros fuel acc HF Hf.
  - destruct fuel as [|f]; [cbn in Hf; lia|]. cbn. f_equal. lia.
  - destruct fuel as [|f]; [cbn in Hf; lia|]. inversion HF as [|? ? [Hc0 Hc1] HF']; subst.
    cbn [flat_map wtf8_length_loop]. rewrite dec_enc by exact Hc1.
    cbn [hd tl]. rewrite last_byte_nz by exact Hc0.
    rewrite IH; [|exact HF'|cbn in Hf; lia].
    f_equal. rewrite app_length. unfold units_of_cp.
    destruct (N.ltb_spec 65535 cp); cbn [length]; lia.
Qed.

Definition assert_ok (cp : N) : bool := (cp <=? 65535) || (cp <=? 1114111).

Lemma to_utf16_loop_enc cps : forall fuel out ok,
  Forall cp_ok cps -> (length cps < fuel)%nat ->
  wtf8_to_utf16_loop fuel (flat_map enc_cp cps) out ok
  = (rev out ++ flat_map units_of_cp cps ++ [0], ok && forallb assert_ok cps).
Proof.
  induction cps as [|cp l IH]; intros fuel out ok HF Hf.
  - destruct fuel as [|f]; [cbn in Hf; lia|]. cbn. rewrite andb_true_r. reflexivity.
  - destruct fuel as [|f]; [cbn in Hf; lia|]. inversion HF as [|? ? [Hc0 Hc1] HF']; subst.
    cbn [flat_map wtf8_to_utf16_loop]. rewrite dec_enc by exact Hc1.
    cbn [hd tl]. rewrite last_byte_nz by exact Hc0.
    rewrite IH; [|exact HF'|cbn in Hf; lia].
    cbn [forallb]. fold (assert_ok cp). rewrite andb_assoc. f_equal.
    unfold units_of_cp. destruct (N.ltb_spec 65535 cp).
    + cbn [rev]. rewrite land1023, shr10. rewrite <- !app_assoc. reflexivity.
    + cbn [rev]. rewrite <- !app_assoc. reflexivity.
Qed.

(* ------------------------------------------------------------------ *)
(* Code points of a UTF-16 string                                      *)
(* ------------------------------------------------------------------ *)
Lemma list_ind2 {A} (P : list A -> Prop) :
  P [] -> (forall x, P [x]) -> (forall x y l, P l -> P (y :: l) -> P (x :: y :: l)) ->
  forall l, P l.
Proof.
  intros H0 H1 H2.
  assert (H : forall l, P l /\ forall x, P (x :: l)).
  { induction l as [|y l [IHa IHb]]; split; auto. }
  intros l. apply H.
Qed.

Lemma cps_of_cons2 x y l :
  cps_of (x :: y :: l) =
  if is_high x && is_low y then (65536 + (x - 55296) * 1024 + (y - 56320)) :: cps_of l
  else x :: cps_of (y :: l).
Proof. reflexivity. Qed.

Lemma units_of_cps_of w : Forall unit16 w -> flat_map units_of_cp (cps_of w) = w.
Proof.
  induction w as [|x|x y l IH1 IH2] using list_ind2; intros HF.
  - reflexivity.
  - inversion HF; subst. unfold unit16 in *. cbn. unfold units_of_cp.
    destruct (N.ltb_spec 65535 x); [lia|reflexivity].
  - inversion HF as [|? ? Hx HF']; subst. inversion HF' as [|? ? Hy HF'']; subst.
    unfold unit16 in *. rewrite cps_of_cons2.
    destruct (is_high x && is_low y) eqn:E.
    + apply andb_true_iff in E. destruct E as [Eh El]. unfold is_high, is_low in *.
      apply andb_true_iff in Eh, El. destruct Eh as [Eh1 Eh2]. destruct El as [El1 El2].
      apply N.leb_le in Eh1, Eh2, El1, El2.
      cbn [flat_map]. rewrite (IH1 HF''). unfold units_of_cp.
      destruct (N.ltb_spec 65535 (65536 + (x - 55296) * 1024 + (y - 56320))); [|lia].
      cbn [app]. f_equal; [lia|]. f_equal. lia.
    + cbn [flat_map]. rewrite (IH2 HF'). unfold units_of_cp.
      destruct (N.ltb_spec 65535 x); [lia|reflexivity].
Qed.

Lemma cps_of_ok w : Forall nz16 w -> Forall cp_ok (cps_of w).
Proof.
  induction w as [|x|x y l IH1 IH2] using list_ind2; intros HF.
  - constructor.
  - inversion HF as [|? ? [H0 H1] ?]; subst. cbn. constructor; [split; lia|constructor].
  - inversion HF as [|? ? [Hx0 Hx1] HF']; subst. inversion HF' as [|? ? [Hy0 Hy1] HF'']; subst.
    rewrite cps_of_cons2. destruct (is_high x && is_low y) eqn:E.
    + apply andb_true_iff in E. destruct E as [Eh El]. unfold is_high, is_low in *.
      apply andb_true_iff in Eh, El. destruct Eh as [Eh1 Eh2]. destruct El as [El1 El2].
      apply N.leb_le in Eh1, Eh2, El1, El2.
      constructor; [split; lia|apply IH1; exact HF''].
    + constructor; [split; lia|apply IH2; exact HF'].
Qed.

Lemma cps_of_length w : (length (cps_of w) <= length w)%nat.
Proof.
  induction w as [|x|x y l IH1 IH2] using list_ind2; [cbn; lia|cbn; lia|].
  rewrite cps_of_cons2. destruct (is_high x && is_low y); cbn [length] in *; lia.
Qed.

(* ------------------------------------------------------------------ *)
(* UTF-16 -> WTF-8: the first character of the source                  *)
(* ------------------------------------------------------------------ *)
(* counted form: len = number of units; NUL-terminated form: len < 0 and no
   unit of the string is 0 *)
Definition lenok (len : Z) (w : list N) : Prop :=
  len = Z.of_nat (length w) \/ ((len < 0)%Z /\ Forall nz16 w).

Lemma first_char w len :
  lenok len w -> Forall unit16 w -> w <> [] ->
  exists cp w',
    cps_of w = cp :: cps_of w' /\
    get_surrogate_value w len = cp /\
    cp < 1114112 /\
    ((len <? 0)%Z && (cp =? 0) = false) /\
    (len =? 0)%Z = false /\
    ((cp < 65536 /\ tl w = w' /\ lenok (dec_len len) w' /\ (length w' < length w)%nat) \/
     (65536 <= cp /\ tl (tl w) = w' /\ lenok (dec_len (dec_len len)) w' /\
      (length w' < length w)%nat)) /\
    Forall unit16 w'.
Proof.
  intros HL HF Hne. destruct w as [|u r]; [congruence|]. clear Hne.
  inversion HF as [|? ? Hu HFr]; subst. unfold unit16 in Hu.
  assert (Hlen0 : (len =? 0)%Z = false).
  { apply Z.eqb_neq. destruct HL as [->|[H _]]; cbn [length]; lia. }
  assert (Hnz : forall cp, (len < 0)%Z -> 0 < cp -> (len <? 0)%Z && (cp =? 0) = false).
  { intros cp _ H. replace (cp =? 0) with false by (symmetry; apply N.eqb_neq; lia).
    apply andb_false_r. }
  assert (Hpos : forall cp, (0 <= len)%Z -> (len <? 0)%Z && (cp =? 0) = false).
  { intros cp H. replace (len <? 0)%Z with false by (symmetry; apply Z.ltb_ge; lia). reflexivity. }
  assert (Hflag : forall cp, (0 < cp \/ (0 <= len)%Z) -> (len <? 0)%Z && (cp =? 0) = false).
  { intros cp [H|H]; [|apply Hpos; exact H].
    destruct (Z.ltb_spec len 0); [apply Hnz; assumption|reflexivity]. }
  assert (Hu0 : 0 < u \/ (0 <= len)%Z).
  { destruct HL as [->|[_ H]]; [right; lia|left]. inversion H as [|? ? [H0 _] _]; subst. exact H0. }
  assert (HL1 : lenok (dec_len len) r).
  { unfold dec_len. destruct HL as [->|[H1 H2]].
    - left. cbn [length]. destruct (Z.ltb_spec 0 (Z.of_nat (S (length r)))); lia.
    - right. destruct (Z.ltb_spec 0 len); [lia|]. split; [lia|]. inversion H2; assumption. }
  destruct r as [|n r'].
  - (* a single unit *)
    exists u, []. cbn [cps_of]. repeat split; try (constructor; fail).
    + unfold get_surrogate_value. cbn [hd tl].
      destruct ((55296 <=? u) && (u <=? 56319) && negb (len =? 1)%Z); reflexivity.
    + lia.
    + apply Hflag; exact Hu0.
    + exact Hlen0.
    + left. repeat split; [lia|exact HL1|cbn; lia].
  - inversion HFr as [|? ? Hn HFr']; subst. unfold unit16 in Hn.
    assert (Hlen1 : (len =? 1)%Z = false).
    { apply Z.eqb_neq. destruct HL as [->|[H _]]; cbn [length]; lia. }
    rewrite cps_of_cons2. unfold get_surrogate_value. cbn [hd tl]. rewrite Hlen1. cbn [negb].
    rewrite andb_true_r. fold (is_high u). fold (is_low n).
    destruct (is_high u) eqn:Eh; cbn [andb].
    + destruct (is_low n) eqn:El.
      * unfold is_high, is_low in *.
        apply andb_true_iff in Eh, El. destruct Eh as [Eh1 Eh2]. destruct El as [El1 El2].
        apply N.leb_le in Eh1, Eh2, El1, El2.
        exists (65536 + (u - 55296) * 1024 + (n - 56320)), r'.
        split; [reflexivity|]. split; [rewrite shl10; reflexivity|].
        split; [lia|]. split; [apply Hflag; left; lia|]. split; [exact Hlen0|].
        split; [|exact HFr'].
        right. split; [lia|]. split; [reflexivity|]. split; [|cbn; lia].
        unfold dec_len. destruct HL as [->|[H1 H2]].
        -- left. cbn [length].
           destruct (Z.ltb_spec 0 (Z.of_nat (S (S (length r'))))); [|lia].
           destruct (Z.ltb_spec 0 (Z.of_nat (S (S (length r'))) - 1)); lia.
        -- right. destruct (Z.ltb_spec 0 len); [lia|]. destruct (Z.ltb_spec 0 len); [lia|].
           split; [lia|]. inversion H2 as [|? ? _ H3]; subst. inversion H3; assumption.
      * exists u, (n :: r'). split; [reflexivity|]. split; [reflexivity|].
        split; [lia|]. split; [apply Hflag; exact Hu0|]. split; [exact Hlen0|].
        split; [|exact HFr].
        left. repeat split; [lia|exact HL1|cbn; lia].
    + exists u, (n :: r'). split; [reflexivity|]. split; [reflexivity|].
      split; [lia|]. split; [apply Hflag; exact Hu0|]. split; [exact Hlen0|].
      split; [|exact HFr].
      left. repeat split; [lia|exact HL1|cbn; lia].
Qed.

Lemma wtf8_of_cons cp w w' : cps_of w = cp :: cps_of w' -> wtf8_of w = enc_cp cp ++ wtf8_of w'.
Proof. intros H. unfold wtf8_of. rewrite H. reflexivity. Qed.

(* ------------------------------------------------------------------ *)
(* uv_utf16_length_as_wtf8 = number of bytes of the WTF-8 form         *)
(* ------------------------------------------------------------------ *)
Lemma utf16_length_loop_spec : forall fuel w len acc,
  lenok len w -> Forall unit16 w -> (length w < fuel)%nat ->
  utf16_length_loop fuel w len acc = acc + N.of_nat (length (wtf8_of w)).
Proof.
  induction fuel as [|f IH]; intros w len acc HL HF Hf; [lia|].
  destruct w as [|u r] eqn:Ew.
  - cbn [utf16_length_loop]. unfold wtf8_of. cbn [cps_of flat_map length].
    destruct HL as [->|[H _]].
    + cbn. lia.
    + destruct (Z.eqb_spec len 0); [lia|].
      unfold get_surrogate_value. cbn [hd].
      replace (len <? 0)%Z with true by (symmetry; apply Z.ltb_lt; lia).
      cbn. lia.
  - rewrite <- Ew in *.
    destruct (first_char w len HL HF ltac:(subst; discriminate))
      as (cp & w' & Hc & Hg & Hcp & Hflag & Hl0 & Hcase & HF').
    cbn [utf16_length_loop]. rewrite Hl0, Hg, Hflag.
    rewrite (wtf8_of_cons cp w w' Hc), app_length. unfold enc_cp.
    destruct Hcase as [(Hlt & Htl & HL' & Hlen)|(Hge & Htl & HL' & Hlen)]; rewrite ?Htl.
    + destruct (N.ltb_spec cp 128); [rewrite IH by (try assumption; lia); cbn [length]; lia|].
      destruct (N.ltb_spec cp 2048); [rewrite IH by (try assumption; lia); cbn [length]; lia|].
      destruct (N.ltb_spec cp 65536); [rewrite IH by (try assumption; lia); cbn [length]; lia|lia].
    + destruct (N.ltb_spec cp 128); [lia|].
      destruct (N.ltb_spec cp 2048); [lia|].
      destruct (N.ltb_spec cp 65536); [lia|].
      rewrite IH by (try assumption; lia). cbn [length]; lia.
Qed.

Theorem utf16_length_exact w len :
  lenok len w -> Forall unit16 w ->
  utf16_length_as_wtf8 w len = N.of_nat (length (wtf8_of w)).
Proof.
  intros HL HF. unfold utf16_length_as_wtf8.
  rewrite utf16_length_loop_spec by (try assumption; lia). lia.
Qed.

(* ------------------------------------------------------------------ *)
(* uv_utf16_to_wtf8 into a buffer that is large enough                 *)
(* ------------------------------------------------------------------ *)
Definition endlen (len : Z) : Z := if (0 <? len)%Z then 0%Z else len.

Lemma endlen_dec len : endlen (dec_len len) = endlen len.
Proof. unfold endlen, dec_len. destruct (Z.ltb_spec 0 len); [|destruct (Z.ltb_spec 0 len); lia].
  destruct (Z.ltb_spec 0 (len - 1)); lia. Qed.

Lemma enc_bits2 cp : cp < 2048 ->
  N.lor 192 (N.shiftr cp 6) = 192 + cp / 64 /\ N.lor 128 (N.land cp 63) = 128 + cp mod 64.
Proof. intros H. rewrite shr6, land63, lor192, lor128 by lia. split; reflexivity. Qed.

Lemma enc_bits3 cp : cp < 65536 ->
  N.lor 224 (N.shiftr cp 12) = 224 + cp / 4096 /\
  N.lor 128 (N.land (N.shiftr cp 6) 63) = 128 + (cp / 64) mod 64 /\
  N.lor 128 (N.land cp 63) = 128 + cp mod 64.
Proof. intros H. rewrite shr12, shr6, !land63, lor224, !lor128 by lia. repeat split; reflexivity. Qed.

Lemma enc_bits4 cp : cp < 1114112 ->
  N.lor 240 (N.shiftr cp 18) = 240 + cp / 262144 /\
  N.lor 128 (N.land (N.shiftr cp 12) 63) = 128 + (cp / 4096) mod 64 /\
  N.lor 128 (N.land (N.shiftr cp 6) 63) = 128 + (cp / 64) mod 64 /\
  N.lor 128 (N.land cp 63) = 128 + cp mod 64.
Proof. intros H. rewrite shr18, shr12, shr6, !land63, lor240, !lor128 by lia. repeat split; reflexivity. Qed.

Lemma to_wtf8_loop_full tend : forall fuel w len target tlen out,
  lenok len w -> Forall unit16 w -> (length w < fuel)%nat ->
  target + N.of_nat (length (wtf8_of w)) = tend ->
  exists tlen',
    to_wtf8_loop fuel tend (mkWst w len target tlen out)
    = mkWst [] (endlen len) tend tlen' (rev (wtf8_of w) ++ out).
Proof.
  induction fuel as [|f IH]; intros w len target tlen out HL HF Hf Ht; [lia|].
  destruct w as [|u r] eqn:Ew.
  - unfold wtf8_of in *. cbn [cps_of flat_map length rev app] in *.
    assert (target = tend) by lia. subst target.
    exists tlen. cbn [to_wtf8_loop]. rewrite N.eqb_refl. cbn [orb].
    f_equal. unfold endlen. destruct HL as [->|[H _]]; [reflexivity|].
    destruct (Z.ltb_spec 0 len); [lia|reflexivity].
  - rewrite <- Ew in *.
    destruct (first_char w len HL HF ltac:(subst; discriminate))
      as (cp & w' & Hc & Hg & Hcp & Hflag & Hl0 & Hcase & HF').
    rewrite (wtf8_of_cons cp w w' Hc) in *. rewrite app_length in Ht.
    rewrite rev_app_distr, <- app_assoc.
    cbn [to_wtf8_loop]. rewrite Hl0, Hg, Hflag.
    pose proof (enc_cp_length cp) as Hel.
    destruct (N.eqb_spec target tend); [lia|]. cbn [orb].
    unfold enc_cp in *.
    destruct Hcase as [(Hlt & Htl & HL' & Hlen)|(Hge & Htl & HL' & Hlen)]; rewrite ?Htl.
    + destruct (N.ltb_spec cp 128).
      { cbn [length rev app] in *.
        destruct (IH w' (dec_len len) (target + 1) (target + 1) (cp :: out)) as [t' E];
          try assumption; try lia.
        exists t'. rewrite E, endlen_dec. reflexivity. }
      destruct (N.ltb_spec cp 2048).
      { destruct (enc_bits2 cp) as (E1 & E2); [lia|]. rewrite E1, E2.
        cbn [length rev app] in *.
        destruct (N.eqb_spec (target + 1) tend); [lia|].
        destruct (IH w' (dec_len len) (target + 1 + 1) (target + 1 + 1)
                    ((128 + cp mod 64) :: (192 + cp / 64) :: out)) as [t' E];
          try assumption; try lia.
        exists t'. rewrite E, endlen_dec. reflexivity. }
      destruct (N.ltb_spec cp 65536); [|lia].
      { destruct (enc_bits3 cp) as (E1 & E2 & E3); [lia|]. rewrite E1, E2, E3.
        cbn [length rev app] in *.
        destruct (N.eqb_spec (target + 1) tend); [lia|].
        destruct (N.eqb_spec (target + 1 + 1) tend); [lia|].
        destruct (IH w' (dec_len len) (target + 1 + 1 + 1) (target + 1 + 1 + 1)
                    ((128 + cp mod 64) :: (128 + (cp / 64) mod 64) :: (224 + cp / 4096) :: out))
          as [t' E]; try assumption; try lia.
        exists t'. rewrite E, endlen_dec. reflexivity. }
    + destruct (N.ltb_spec cp 128); [lia|].
      destruct (N.ltb_spec cp 2048); [lia|].
      destruct (N.ltb_spec cp 65536); [lia|].
      destruct (enc_bits4 cp) as (E1 & E2 & E3 & E4); [lia|]. rewrite E1, E2, E3, E4.
      cbn [length rev app] in *.
      destruct (N.eqb_spec (target + 1) tend); [lia|].
      destruct (N.eqb_spec (target + 1 + 1) tend); [lia|].
      destruct (N.eqb_spec (target + 1 + 1 + 1) tend); [lia|].
      destruct (IH w' (dec_len (dec_len len)) (target + 1 + 1 + 1 + 1) (target + 1 + 1 + 1 + 1)
                  ((128 + cp mod 64) :: (128 + (cp / 64) mod 64) :: (128 + (cp / 4096) mod 64)
                     :: (240 + cp / 262144) :: out))
        as [t' E]; try assumption; try lia.
      exists t'. rewrite E, !endlen_dec. reflexivity.
Qed.

(* ------------------------------------------------------------------ *)
(* uv_utf16_to_wtf8 into a buffer of any size: either everything fits, *)
(* or the loop stops at target_end with target_len = the bytes of the   *)
(* complete characters stored and the rest of the source still to do.   *)
(* ------------------------------------------------------------------ *)
Lemma firstn_S_cons {A} n (x : A) l : firstn (S n) (x :: l) = x :: firstn n l.
Proof. reflexivity. Qed.

Lemma to_wtf8_loop_gen tend : forall fuel w len target out,
  lenok len w -> Forall unit16 w -> (length w < fuel)%nat -> target <= tend ->
  (target + N.of_nat (length (wtf8_of w)) <= tend ->
     exists len_e tl,
       to_wtf8_loop fuel tend (mkWst w len target target out)
       = mkWst [] len_e (target + N.of_nat (length (wtf8_of w))) tl (rev (wtf8_of w) ++ out) /\
       (len_e = 0%Z \/ ((len_e < 0)%Z /\ target + N.of_nat (length (wtf8_of w)) = tend))) /\
  (tend < target + N.of_nat (length (wtf8_of w)) ->
     exists w_r len_r tl_r,
       to_wtf8_loop fuel tend (mkWst w len target target out)
       = mkWst w_r len_r tend tl_r
           (rev (firstn (N.to_nat (tend - target)) (wtf8_of w)) ++ out) /\
       lenok len_r w_r /\ Forall unit16 w_r /\ w_r <> [] /\
       tl_r + N.of_nat (length (wtf8_of w_r)) = target + N.of_nat (length (wtf8_of w))).
Proof.
  induction fuel as [|f IH]; intros w len target out HL HF Hf Ht; [lia|].
  destruct w as [|u r] eqn:Ew.
  - unfold wtf8_of. cbn [cps_of flat_map length rev app]. rewrite N.add_0_r.
    split; [intros _|intros; lia].
    cbn [to_wtf8_loop]. destruct (N.eqb_spec target tend) as [E|E]; cbn [orb].
    + exists len, target. split; [reflexivity|].
      destruct HL as [->|[H _]]; [left; reflexivity|right; split; assumption].
    + destruct (Z.eqb_spec len 0) as [Z|NZ].
      * exists len, target. split; [reflexivity|left; exact Z].
      * destruct HL as [->|[H _]]; [cbn in NZ; lia|].
        unfold get_surrogate_value. cbn [hd].
        replace (len <? 0)%Z with true by (symmetry; apply Z.ltb_lt; lia). cbn.
        exists 0%Z, target. split; [reflexivity|left; reflexivity].
  - rewrite <- Ew in *.
    destruct (first_char w len HL HF ltac:(subst; discriminate))
      as (cp & w' & Hc & Hg & Hcp & Hflag & Hl0 & Hcase & HF').
    rewrite (wtf8_of_cons cp w w' Hc). rewrite app_length.
    pose proof (enc_cp_length cp) as Hel.
    assert (Hwne : w <> []) by (subst; discriminate).
    cbn [to_wtf8_loop].
    destruct (N.eqb_spec target tend) as [Eq|Ne]; cbn [orb].
    { (* no room at all *)
      split; [intros; lia|]. intros _. exists w, len, target.
      replace (N.to_nat (tend - target)) with O by lia. cbn [firstn rev app].
      rewrite Eq. split; [reflexivity|]. repeat split; try assumption.
      rewrite (wtf8_of_cons cp w w' Hc), app_length. lia. }
    rewrite Hl0, Hg, Hflag.
    (* a character that is cut: the state keeps w, len and target_len *)
    assert (Hcut : forall k pre,
              (k < length (enc_cp cp))%nat -> pre = rev (firstn k (enc_cp cp)) ->
              tend = target + N.of_nat k ->
              (target + N.of_nat (length (enc_cp cp) + length (wtf8_of w')) <= tend -> False) /\
              exists w_r len_r tl_r,
                mkWst w len tend target (pre ++ out)
                = mkWst w_r len_r tend tl_r
                    (rev (firstn (N.to_nat (tend - target)) (enc_cp cp ++ wtf8_of w')) ++ out) /\
                lenok len_r w_r /\ Forall unit16 w_r /\ w_r <> [] /\
                tl_r + N.of_nat (length (wtf8_of w_r))
                = target + N.of_nat (length (enc_cp cp) + length (wtf8_of w'))).
    { intros k pre Hk -> Htend. split; [lia|]. exists w, len, target.
      replace (N.to_nat (tend - target)) with k by lia.
      rewrite firstn_app. replace (k - length (enc_cp cp))%nat with O by lia.
      cbn [firstn]. rewrite app_nil_r. split; [reflexivity|]. repeat split; try assumption.
      rewrite (wtf8_of_cons cp w w' Hc), app_length. reflexivity. }
    unfold enc_cp in *.
    destruct Hcase as [(Hlt & Htl & HL' & Hlen)|(Hge & Htl & HL' & Hlen)]; rewrite ?Htl.
    + destruct (N.ltb_spec cp 128).
      { cbn [length app] in *.
        destruct (IH w' (dec_len len) (target + 1) (cp :: out) HL' HF' ltac:(lia) ltac:(lia)) as [IA IB].
        split; intros Hc2.
        - destruct (IA ltac:(lia)) as (le & tl & E & D). exists le, tl. rewrite E.
          cbn [rev]. rewrite <- app_assoc. split; [f_equal; lia|].
          destruct D as [D|[D1 D2]]; [left; exact D|right; split; [exact D1|lia]].
        - destruct (IB ltac:(lia)) as (wr & lr & tr & E & B1 & B2 & B3 & B4).
          exists wr, lr, tr. rewrite E.
          replace (N.to_nat (tend - target)) with (S (N.to_nat (tend - (target + 1)))) by lia.
          rewrite firstn_S_cons. cbn [rev]. rewrite <- app_assoc.
          split; [reflexivity|]. repeat split; try assumption. lia. }
      destruct (N.ltb_spec cp 2048).
      { destruct (enc_bits2 cp) as (E1 & E2); [lia|]. rewrite E1, E2. cbn [length app] in *.
        destruct (N.eqb_spec (target + 1) tend) as [C1|C1].
        { destruct (Hcut 1%nat [192 + cp / 64] ltac:(cbn; lia) eq_refl ltac:(lia)) as [X Y].
          split; [intros; exfalso; apply X; cbn [length]; lia|]. intros _. rewrite C1. exact Y. }
        destruct (IH w' (dec_len len) (target + 1 + 1) ((128 + cp mod 64) :: (192 + cp / 64) :: out)
                    HL' HF' ltac:(lia) ltac:(lia)) as [IA IB].
        split; intros Hc2.
        - destruct (IA ltac:(lia)) as (le & tl & E & D). exists le, tl. rewrite E.
          cbn [rev]. rewrite <- !app_assoc. split; [f_equal; lia|].
          destruct D as [D|[D1 D2]]; [left; exact D|right; split; [exact D1|lia]].
        - destruct (IB ltac:(lia)) as (wr & lr & tr & E & B1 & B2 & B3 & B4).
          exists wr, lr, tr. rewrite E.
          replace (N.to_nat (tend - target)) with (S (S (N.to_nat (tend - (target + 1 + 1))))) by lia.
          rewrite !firstn_S_cons. cbn [rev]. rewrite <- !app_assoc.
          split; [reflexivity|]. repeat split; try assumption. lia. }
      destruct (N.ltb_spec cp 65536); [|lia].
      { destruct (enc_bits3 cp) as (E1 & E2 & E3); [lia|]. rewrite E1, E2, E3. cbn [length app] in *.
        destruct (N.eqb_spec (target + 1) tend) as [C1|C1].
        { destruct (Hcut 1%nat [224 + cp / 4096] ltac:(cbn; lia) eq_refl ltac:(lia)) as [X Y].
          split; [intros; exfalso; apply X; cbn [length]; lia|]. intros _. rewrite C1. exact Y. }
        destruct (N.eqb_spec (target + 1 + 1) tend) as [C2|C2].
        { destruct (Hcut 2%nat [128 + (cp / 64) mod 64; 224 + cp / 4096] ltac:(cbn; lia) eq_refl ltac:(lia))
            as [X Y].
          split; [intros; exfalso; apply X; cbn [length]; lia|]. intros _. rewrite C2. exact Y. }
        destruct (IH w' (dec_len len) (target + 1 + 1 + 1)
                    ((128 + cp mod 64) :: (128 + (cp / 64) mod 64) :: (224 + cp / 4096) :: out)
                    HL' HF' ltac:(lia) ltac:(lia)) as [IA IB].
        split; intros Hc2.
        - destruct (IA ltac:(lia)) as (le & tl & E & D). exists le, tl. rewrite E.
          cbn [rev]. rewrite <- !app_assoc. split; [f_equal; lia|].
          destruct D as [D|[D1 D2]]; [left; exact D|right; split; [exact D1|lia]].
        - destruct (IB ltac:(lia)) as (wr & lr & tr & E & B1 & B2 & B3 & B4).
          exists wr, lr, tr. rewrite E.
          replace (N.to_nat (tend - target))
            with (S (S (S (N.to_nat (tend - (target + 1 + 1 + 1)))))) by lia.
          rewrite !firstn_S_cons. cbn [rev]. rewrite <- !app_assoc.
          split; [reflexivity|]. repeat split; try assumption. lia. }
    + destruct (N.ltb_spec cp 128); [lia|].
      destruct (N.ltb_spec cp 2048); [lia|].
      destruct (N.ltb_spec cp 65536); [lia|].
      destruct (enc_bits4 cp) as (E1 & E2 & E3 & E4); [lia|]. rewrite E1, E2, E3, E4.
      cbn [length app] in *.
      destruct (N.eqb_spec (target + 1) tend) as [C1|C1].
      { destruct (Hcut 1%nat [240 + cp / 262144] ltac:(cbn; lia) eq_refl ltac:(lia)) as [X Y].
        split; [intros; exfalso; apply X; cbn [length]; lia|]. intros _. rewrite C1. exact Y. }
      destruct (N.eqb_spec (target + 1 + 1) tend) as [C2|C2].
      { destruct (Hcut 2%nat [128 + (cp / 4096) mod 64; 240 + cp / 262144] ltac:(cbn; lia) eq_refl ltac:(lia))
          as [X Y].
        split; [intros; exfalso; apply X; cbn [length]; lia|]. intros _. rewrite C2. exact Y. }
      destruct (N.eqb_spec (target + 1 + 1 + 1) tend) as [C3|C3].
      { destruct (Hcut 3%nat [128 + (cp / 64) mod 64; 128 + (cp / 4096) mod 64; 240 + cp / 262144]
                    ltac:(cbn; lia) eq_refl ltac:(lia)) as [X Y].
        split; [intros; exfalso; apply X; cbn [length]; lia|]. intros _. rewrite C3. exact Y. }
      destruct (IH w' (dec_len (dec_len len)) (target + 1 + 1 + 1 + 1)
                  ((128 + cp mod 64) :: (128 + (cp / 64) mod 64) :: (128 + (cp / 4096) mod 64)
                     :: (240 + cp / 262144) :: out) HL' HF' ltac:(lia) ltac:(lia)) as [IA IB].
      split; intros Hc2.
      * destruct (IA ltac:(lia)) as (le & tl & E & D). exists le, tl. rewrite E.
        cbn [rev]. rewrite <- !app_assoc. split; [f_equal; lia|].
        destruct D as [D|[D1 D2]]; [left; exact D|right; split; [exact D1|lia]].
      * destruct (IB ltac:(lia)) as (wr & lr & tr & E & B1 & B2 & B3 & B4).
        exists wr, lr, tr. rewrite E.
        replace (N.to_nat (tend - target))
          with (S (S (S (S (N.to_nat (tend - (target + 1 + 1 + 1 + 1))))))) by lia.
        rewrite !firstn_S_cons. cbn [rev]. rewrite <- !app_assoc.
        split; [reflexivity|]. repeat split; try assumption. lia.
Qed.

(* the allocating route: rc 0, the WTF-8 form followed by NUL, exact length *)
Theorem utf16_to_wtf8_alloc w len :
  lenok len w -> Forall unit16 w ->
  utf16_to_wtf8 w len (TAlloc true)
  = (0%Z, wtf8_of w ++ [0], N.of_nat (length (wtf8_of w))).
Proof.
  intros HL HF. unfold utf16_to_wtf8. rewrite (utf16_length_exact w len HL HF).
  set (L := N.of_nat (length (wtf8_of w))).
  destruct (to_wtf8_loop_full L (S (length w)) w len 0 0 [] HL HF ltac:(lia) ltac:(lia)) as [t' E].
  rewrite E. rewrite N.eqb_refl. cbn [negb hd andb].
  replace ((endlen len <? 0)%Z && true && (0 =? 0)) with (endlen len <? 0)%Z
    by (destruct (endlen len <? 0)%Z; reflexivity).
  assert (Z0 : (if (endlen len <? 0)%Z then 0%Z else endlen len) = 0%Z).
  { unfold endlen. destruct HL as [->|[H _]].
    - destruct (Z.ltb_spec 0 (Z.of_nat (length w))); [reflexivity|].
      destruct (Z.ltb_spec (Z.of_nat (length w)) 0); lia.
    - destruct (Z.ltb_spec 0 len); [lia|]. destruct (Z.ltb_spec len 0); [reflexivity|lia]. }
  rewrite Z0. cbn [Z.eqb negb]. rewrite app_nil_r. cbn [rev]. rewrite rev_involutive. reflexivity.
Qed.

(* the length-only route *)
Theorem utf16_to_wtf8_null w len :
  lenok len w -> Forall unit16 w ->
  utf16_to_wtf8 w len TNull = (0%Z, [], N.of_nat (length (wtf8_of w))).
Proof. intros HL HF. unfold utf16_to_wtf8. rewrite (utf16_length_exact w len HL HF). reflexivity. Qed.

(* ------------------------------------------------------------------ *)
(* Round trip                                                          *)
(* ------------------------------------------------------------------ *)
Lemma nz16_unit16 w : Forall nz16 w -> Forall unit16 w.
Proof. apply Forall_impl. intros a [_ H]. exact H. Qed.

Lemma wtf8_of_fuel w : (length (cps_of w) < S (length (wtf8_of w)))%nat.
Proof. pose proof (enc_length_ge (cps_of w)). unfold wtf8_of. lia. Qed.

Theorem wtf8_length_of_encoding w :
  Forall nz16 w -> wtf8_length_as_utf16 (wtf8_of w) = Some (N.of_nat (length w) + 1).
Proof.
  intros HF. unfold wtf8_length_as_utf16, wtf8_of.
  rewrite length_loop_enc; [|apply cps_of_ok; exact HF|apply wtf8_of_fuel].
  rewrite units_of_cps_of by (apply nz16_unit16; exact HF). f_equal.
Qed.

Theorem wtf8_to_utf16_of_encoding w :
  Forall nz16 w -> fst (wtf8_to_utf16 (wtf8_of w)) = w ++ [0].
Proof.
  intros HF. unfold wtf8_to_utf16, wtf8_of.
  rewrite to_utf16_loop_enc; [|apply cps_of_ok; exact HF|apply wtf8_of_fuel].
  cbn [fst rev app]. rewrite units_of_cps_of by (apply nz16_unit16; exact HF). reflexivity.
Qed.

(* C18_utf16_wtf8_roundtrip: for every sequence of non-zero 16-bit units,
   given counted or NUL-terminated, uv_utf16_to_wtf8 succeeds and produces a
   NUL-terminated string t (of exactly the announced length) on which
   uv_wtf8_length_as_utf16 announces |w|+1 units and uv_wtf8_to_utf16 stores
   w followed by the terminator. *)
Theorem utf16_wtf8_roundtrip w len :
  Forall nz16 w -> (len = Z.of_nat (length w) \/ (len < 0)%Z) ->
  exists t,
    utf16_to_wtf8 w len (TAlloc true) = (0%Z, t ++ [0], N.of_nat (length t)) /\
    ~ In 0 t /\
    wtf8_length_as_utf16 t = Some (N.of_nat (length w) + 1) /\
    fst (wtf8_to_utf16 t) = w ++ [0].
Proof.
  intros HF Hlen. exists (wtf8_of w).
  assert (HL : lenok len w) by (destruct Hlen as [H|H]; [left; exact H|right; split; assumption]).
  split; [apply utf16_to_wtf8_alloc; [exact HL|apply nz16_unit16; exact HF]|].
  split; [|split; [apply wtf8_length_of_encoding; exact HF|apply wtf8_to_utf16_of_encoding; exact HF]].
  (* no NUL byte inside: every byte of the encoding of a non-zero code point is non-zero *)
  unfold wtf8_of. intros Hin. apply in_flat_map in Hin. destruct Hin as (cp & Hcp & Hb).
  pose proof (cps_of_ok w HF) as Hok. rewrite Forall_forall in Hok. destruct (Hok cp Hcp) as [H0 H1].
  revert Hb. unfold enc_cp.
  destruct (N.ltb_spec cp 128); [|destruct (N.ltb_spec cp 2048); [|destruct (N.ltb_spec cp 65536)]];
    cbn [In]; intros Hb; repeat (destruct Hb as [Hb|Hb]; [lia|]); exact Hb.
Qed.

(* ------------------------------------------------------------------ *)
(* Lengths on the WTF-8 side, for every byte string                    *)
(* ------------------------------------------------------------------ *)
Lemma wtf8_loops_agree : forall fuel s acc out ok n,
  wtf8_length_loop fuel s acc = Some n ->
  exists us ok', wtf8_to_utf16_loop fuel s out ok = (rev out ++ us, ok') /\
                 acc + N.of_nat (length us) = n.
Proof.
  induction fuel as [|f IH]; intros s acc out ok n H.
  - cbn in *. exists [], ok. rewrite app_nil_r. split; [reflexivity|]. inversion H. cbn. lia.
  - cbn [wtf8_length_loop wtf8_to_utf16_loop] in *.
    destruct (wtf8_decode1 s) as [[cp|] s'] eqn:E; [|discriminate].
    destruct (hd 0 s' =? 0) eqn:Eh.
    + inversion H; subst. destruct (65535 <? cp).
      * eexists [_; _], _. split; [cbn [rev]; rewrite <- !app_assoc; reflexivity|]. cbn [length]. lia.
      * eexists [_], _. split; [cbn [rev]; reflexivity|]. cbn [length]. lia.
    + destruct (65535 <? cp).
      * destruct (IH (tl s') (acc + 1 + 1)
                    ((N.land (cp - 65536) 1023 + 56320) :: (N.shiftr (cp - 65536) 10 + 55296) :: out)
                    (ok && ((cp <=? 65535) || (cp <=? 1114111))) n H)
          as (us & ok' & E1 & E2).
        eexists (_ :: _ :: us), ok'. split.
        -- rewrite E1. cbn [rev]. rewrite <- !app_assoc. reflexivity.
        -- cbn [length]. lia.
      * destruct (IH (tl s') (acc + 1) (cp :: out)
                    (ok && ((cp <=? 65535) || (cp <=? 1114111))) n H)
          as (us & ok' & E1 & E2).
        eexists (_ :: us), ok'. split.
        -- rewrite E1. cbn [rev]. rewrite <- !app_assoc. reflexivity.
        -- cbn [length]. lia.
Qed.

(* whenever uv_wtf8_length_as_utf16 accepts a string, uv_wtf8_to_utf16 stores
   exactly the announced number of units *)
Theorem wtf8_length_exact s n :
  wtf8_length_as_utf16 s = Some n ->
  N.of_nat (length (fst (wtf8_to_utf16 s))) = n.
Proof.
  unfold wtf8_length_as_utf16, wtf8_to_utf16. intros H.
  destruct (wtf8_loops_agree (S (length s)) s 0 [] true n H) as (us & ok' & E1 & E2).
  rewrite E1. cbn [fst rev app]. lia.
Qed.

(* the caller's buffer of [cap] bytes (+1 for the NUL): everything when it
   fits, otherwise UV_ENOBUFS, the first [cap] bytes, NUL, and the exact
   length needed *)
Lemma lenok_nonempty len w : lenok len w -> w <> [] ->
  (len =? 0)%Z = false /\ ((len <? 0)%Z && (hd 0 w =? 0)) = false.
Proof.
  intros HL Hne. destruct w as [|u r]; [congruence|]. destruct HL as [->|[H1 H2]].
  - cbn [length]. split; [apply Z.eqb_neq; lia|].
    replace (Z.of_nat (S (length r)) <? 0)%Z with false by (symmetry; apply Z.ltb_ge; lia). reflexivity.
  - split; [apply Z.eqb_neq; lia|]. inversion H2 as [|? ? [H0 _] _]; subst. cbn [hd].
    replace (u =? 0) with false by (symmetry; apply N.eqb_neq; lia). apply andb_false_r.
Qed.

Theorem utf16_to_wtf8_buf w len cap :
  lenok len w -> Forall unit16 w ->
  utf16_to_wtf8 w len (TBuf cap) =
    if N.of_nat (length (wtf8_of w)) <=? cap
    then (0%Z, wtf8_of w ++ [0], N.of_nat (length (wtf8_of w)))
    else (UV_ENOBUFS, firstn (N.to_nat cap) (wtf8_of w) ++ [0], N.of_nat (length (wtf8_of w))).
Proof.
  intros HL HF. unfold utf16_to_wtf8. set (L := N.of_nat (length (wtf8_of w))).
  destruct (to_wtf8_loop_gen cap (S (length w)) w len 0 [] HL HF ltac:(lia) ltac:(lia)) as [GA GB].
  rewrite !N.add_0_l in GA, GB. fold L in GA, GB.
  destruct (N.leb_spec L cap) as [Fit|NoFit].
  - destruct (GA Fit) as (le & tl & E & D). rewrite E. rewrite app_nil_r.
    assert (Z0 : (if (le <? 0)%Z && (L =? cap) && (hd 0 [] =? 0) then 0%Z else le) = 0%Z).
    { destruct D as [->|[D1 D2]]; [destruct (_ && _); reflexivity|].
      replace (le <? 0)%Z with true by (symmetry; apply Z.ltb_lt; lia).
      replace (L =? cap) with true by (symmetry; apply N.eqb_eq; lia). reflexivity. }
    rewrite Z0. cbn [Z.eqb negb rev]. rewrite rev_involutive.
    destruct (N.eqb_spec L cap); cbn [negb]; [subst cap|]; reflexivity.
  - destruct (GB NoFit) as (wr & lr & tr & E & B1 & B2 & B3 & B4). rewrite E.
    rewrite N.sub_0_r, app_nil_r, N.eqb_refl.
    destruct (lenok_nonempty lr wr B1 B3) as [N1 N2].
    replace ((lr <? 0)%Z && true && (hd 0 wr =? 0)) with ((lr <? 0)%Z && (hd 0 wr =? 0))
      by (destruct (lr <? 0)%Z; reflexivity).
    rewrite N2, N1. cbn [negb rev]. rewrite rev_involutive.
    rewrite (utf16_length_exact wr lr B1 B2). f_equal. lia.
Qed.

(* the asserts of uv_wtf8_to_utf16 hold on every string that
   uv_wtf8_length_as_utf16 accepts (in particular on U+10FFFF) *)
Lemma some_inj (a b : N) : Some a = Some b -> a = b.
Proof. intros H. injection H as H. exact H. Qed.

Lemma wtf8_decode1_bound s cp s' : wtf8_decode1 s = (Some cp, s') -> cp <= 1114111.
Proof.
  unfold wtf8_decode1.
  repeat match goal with
  | |- context [if ?c then _ else _] => destruct c eqn:?
  end; intros H; apply (f_equal fst) in H; cbn [fst] in H; try discriminate H;
  apply some_inj in H; rewrite <- H; clear H;
  repeat match goal with
  | H : (_ <=? _) = true |- _ => apply N.leb_le in H
  | H : (_ <=? _) = false |- _ => clear H
  | H : (_ <? _) = _ |- _ => clear H
  | H : negb _ = _ |- _ => clear H
  end;
  rewrite ?land2047, ?land65535; lia.
Qed.

Lemma wtf8_asserts_loop : forall fuel s acc out ok n,
  wtf8_length_loop fuel s acc = Some n ->
  snd (wtf8_to_utf16_loop fuel s out ok) = ok.
Proof.
  induction fuel as [|f IH]; intros s acc out ok n H; [reflexivity|].
  cbn [wtf8_length_loop wtf8_to_utf16_loop] in *.
  destruct (wtf8_decode1 s) as [[cp|] s'] eqn:E; [|discriminate].
  pose proof (wtf8_decode1_bound s cp s' E) as Hb.
  assert (A : (cp <=? 65535) || (cp <=? 1114111) = true).
  { replace (cp <=? 1114111) with true by (symmetry; apply N.leb_le; exact Hb). apply orb_true_r. }
  rewrite A, andb_true_r.
  destruct (hd 0 s' =? 0); [reflexivity|].
  destruct (65535 <? cp); eapply IH; exact H.
Qed.

Theorem wtf8_asserts_hold s n :
  wtf8_length_as_utf16 s = Some n -> snd (wtf8_to_utf16 s) = true.
Proof. intros H. unfold wtf8_to_utf16. eapply wtf8_asserts_loop. exact H. Qed.

(* History, before commits 0064931 and 8661803: U+00E9 into a buffer of one byte
   was reported as UV_ENOBUFS with length 3, and assert(code_point < 0x10FFFF)
   failed on F4 8F BF BF.  The same inputs on the current model: *)
Example enobufs_length_regression :
  utf16_to_wtf8 [233] 1%Z (TBuf 1) = (UV_ENOBUFS, [195; 0], 2) /\
  utf16_to_wtf8 [55296] 1%Z (TBuf 2) = (UV_ENOBUFS, [237; 160; 0], 3) /\
  snd (wtf8_to_utf16 [244; 143; 191; 191]) = true.
Proof. repeat split; vm_compute; reflexivity. Qed.

Example roundtrip_example :
  let w := [65; 55357; 56489; 55296; 56320; 56320; 55296; 8364] in
  Forall nz16 w /\ wtf8_of w = [65; 240; 159; 146; 169; 240; 144; 128; 128; 237; 176; 128; 237; 160; 128; 226; 130; 172].
Proof. split; [repeat constructor|vm_compute; reflexivity]. Qed.
