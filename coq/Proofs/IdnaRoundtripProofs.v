(* RFC 3492: the section 6.2 decoder inverts the section 6.3 encoder
   (Spec/PunycodeSpec.v), for every list of code points. *)
From UV Require Import Lib.Base Spec.PunycodeSpec Proofs.IdnaPunycodeProofs.
Local Open Scope N_scope.

Definition len (l : list N) : N := N.of_nat (length l).

(* ------------------------------------------------------------------ *)
(* digits and generalized variable-length integers                     *)
(* ------------------------------------------------------------------ *)
Lemma digit_roundtrip d : d < 36 -> digit_value (digit_cp d) = Some d.
Proof.
  intros H. unfold digit_value, digit_cp. destruct (N.ltb_spec d 26).
  - destruct (N.leb_spec 48 (97 + d)); destruct (N.leb_spec (97 + d) 57); cbn [andb]; try lia.
    destruct (N.leb_spec 65 (97 + d)); destruct (N.leb_spec (97 + d) 90); cbn [andb]; try lia.
    destruct (N.leb_spec 97 (97 + d)); destruct (N.leb_spec (97 + d) 122); cbn [andb]; try lia.
    f_equal. lia.
  - destruct (N.leb_spec 48 (22 + d)); destruct (N.leb_spec (22 + d) 57); cbn [andb]; try lia.
    f_equal. lia.
Qed.

Lemma digit_cp_not_delim d : digit_cp d <> delimiter.
Proof. unfold digit_cp, delimiter. destruct (N.ltb_spec d 26); lia. Qed.

Lemma int_roundtrip : forall fuel q k bias i w rest,
  (N.size_nat q < fuel)%nat ->
  decode_int (encode_int fuel q k bias ++ rest) i w k bias = Some (i + q * w, rest).
Proof.
  induction fuel as [|f IH]; intros q k bias i w rest Hf; [lia|].
  cbn [encode_int]. pose proof (threshold_range k bias) as Ht. set (t := threshold k bias) in *.
  destruct (N.ltb_spec q t) as [L|L].
  - cbn [app decode_int]. rewrite digit_roundtrip by lia. fold t.
    destruct (N.ltb_spec q t); [reflexivity|lia].
  - cbn [app decode_int]. unfold base in *.
    assert (Hm : (q - t) mod (36 - t) < 36 - t) by (apply N.mod_lt; lia).
    rewrite digit_roundtrip by lia. fold t.
    destruct (N.ltb_spec (t + (q - t) mod (36 - t)) t); [lia|].
    assert (Hq : (q - t) / (36 - t) <= q / 2).
    { apply N.div_le_lower_bound; [lia|].
      pose proof (N.mul_div_le (q - t) (36 - t) ltac:(lia)). nia. }
    rewrite IH by (pose proof (size_nat_half q _ ltac:(lia) Hq); lia).
    f_equal. f_equal.
    pose proof (N.div_mod (q - t) (36 - t) ltac:(lia)). nia.
Qed.

Lemma encode_int_nonempty fuel q k bias : exists c r, encode_int (S fuel) q k bias = c :: r.
Proof. cbn [encode_int]. destruct (q <? threshold k bias); eexists _, _; reflexivity. Qed.

Lemma encode_int_no_delim : forall fuel q k bias, Forall (fun c => c <> delimiter) (encode_int fuel q k bias).
Proof.
  induction fuel as [|f IH]; intros q k bias; [constructor|]. cbn [encode_int].
  destruct (q <? threshold k bias); constructor; try apply digit_cp_not_delim; [constructor|apply IH].
Qed.

(* ------------------------------------------------------------------ *)
(* the decoder's output while the encoder is at value n, position p|r  *)
(* ------------------------------------------------------------------ *)
Definition le_part (n : N) (l : list N) : list N := filter (fun c => c <=? n) l.
Definition lt_part (n : N) (l : list N) : list N := filter (fun c => c <? n) l.
Definition out_of (n : N) (p r : list N) : list N := le_part n p ++ lt_part n r.

Lemma le_part_app n a b : le_part n (a ++ b) = le_part n a ++ le_part n b.
Proof. apply filter_app. Qed.

Lemma insert_at_app a x b : insert_at (length a) x (a ++ b) = a ++ x :: b.
Proof. induction a as [|y a IH]; [destruct b; reflexivity|]. cbn [length app insert_at]. rewrite IH. reflexivity. Qed.

Lemma div_mod_small q m x : x < m -> (q * m + x) / m = q /\ (q * m + x) mod m = x.
Proof.
  intros H. split.
  - symmetry. apply (N.div_unique (q * m + x) m q x H). lia.
  - symmetry. apply (N.mod_unique (q * m + x) m q x H). lia.
Qed.

Lemma len_app a b : len (a ++ b) = len a + len b.
Proof. unfold len. rewrite app_length. lia. Qed.

Lemma decode_main_cons f c r n i bias output :
  decode_main (S f) (c :: r) n i bias output =
  match decode_int (c :: r) i 1 base bias with
  | None => None
  | Some (i', rest) =>
      let len1 := N.of_nat (length output) + 1 in
      let bias := adapt (i' - i) len1 (i =? 0) in
      let n := n + i' / len1 in
      let i'' := i' mod len1 in
      if basic n then None
      else decode_main f rest n (i'' + 1) bias (insert_at (N.to_nat i'') n output)
  end.
Proof. reflexivity. Qed.

Section RT.
Variable b : N.

(* one pass of the encoder over the rest [r] of the input, and the decoder on what it emits *)
Lemma pass_roundtrip : forall r p n delta bias h nd id rest fueld,
  h = len (out_of n p r) ->
  nd <= n -> 128 <= n ->
  nd * (h + 1) + id + delta = n * (h + 1) + len (le_part n p) ->
  (id =? 0) = (h =? b) -> b <= h ->
  (length (snd (encode_pass r n b (mkE delta bias h)) ++ rest) <= fueld)%nat ->
  exists fueld' nd' id',
    (length rest <= fueld')%nat /\
    decode_main fueld (snd (encode_pass r n b (mkE delta bias h)) ++ rest) nd id bias (out_of n p r)
    = decode_main fueld' rest nd' id' (e_bias (fst (encode_pass r n b (mkE delta bias h))))
        (out_of n (p ++ r) []) /\
    e_h (fst (encode_pass r n b (mkE delta bias h))) = len (out_of n (p ++ r) []) /\
    nd' <= n /\
    nd' * (len (out_of n (p ++ r) []) + 1) + id' + e_delta (fst (encode_pass r n b (mkE delta bias h)))
      = n * (len (out_of n (p ++ r) []) + 1) + len (le_part n (p ++ r)) /\
    (id' =? 0) = (len (out_of n (p ++ r) []) =? b) /\
    b <= len (out_of n (p ++ r) []).
Proof.
  induction r as [|c r IH]; intros p n delta bias h nd id rest fueld Hh Hnd Hn Hinv Hflag Hbh Hf.
  - cbn [encode_pass fst snd app e_bias e_h e_delta] in *. rewrite app_nil_r.
    exists fueld, nd, id. subst h. repeat split; try assumption; lia.
  - cbn [encode_pass] in *.
    assert (Eapp : p ++ c :: r = (p ++ [c]) ++ r) by (rewrite <- app_assoc; reflexivity).
    destruct (N.eqb_spec c n) as [Ecn|Ncn].
    + (* c == n: a delta is emitted and decoded *)
      subst c. destruct (N.ltb_spec n n); [lia|].
      cbn [e_delta e_bias e_h] in *.
      set (chunk := encode_int (S (N.size_nat delta)) delta base bias) in *.
      set (bias' := adapt delta (h + 1) (h =? b)) in *.
      destruct (encode_pass r n b (mkE 0 bias' (h + 1))) as [st' out'] eqn:EP.
      cbn [fst snd] in *. rewrite <- app_assoc in Hf |- *.
      destruct (encode_int_nonempty (N.size_nat delta) delta base bias) as (c0 & ch & Ech).
      fold chunk in Ech.
      assert (Hlp : len (le_part n p) <= h).
      { subst h. unfold out_of. rewrite len_app. lia. }
      (* the state after this insertion *)
      assert (Eout : out_of n (p ++ [n]) r = le_part n p ++ n :: lt_part n r).
      { unfold out_of. rewrite le_part_app. cbn [le_part filter]. rewrite N.leb_refl.
        rewrite <- app_assoc. reflexivity. }
      assert (Eold : out_of n p (n :: r) = le_part n p ++ lt_part n r).
      { unfold out_of. cbn [lt_part filter]. rewrite N.ltb_irrefl. reflexivity. }
      assert (Hh' : h + 1 = len (out_of n (p ++ [n]) r)).
      { rewrite Eout. rewrite Hh, Eold. rewrite !len_app. unfold len. cbn [length]. lia. }
      destruct fueld as [|fd].
      { rewrite Ech in Hf. cbn [app length] in Hf. lia. }
      assert (Hf' : (length (out' ++ rest) <= fd)%nat).
      { rewrite Ech in Hf. cbn [app length] in Hf. rewrite app_length in Hf. lia. }
      specialize (IH (p ++ [n]) n 0 bias' (h + 1) n (len (le_part n p) + 1) rest fd Hh' (N.le_refl n) Hn).
      rewrite EP in IH. cbn [fst snd] in IH.
      destruct IH as (fd' & nd' & id' & I1 & I2 & I3 & I4 & I5 & I6 & I7); try assumption.
      { rewrite le_part_app, len_app. cbn [le_part filter]. rewrite N.leb_refl. unfold len at 3. cbn [length]. lia. }
      { replace (len (le_part n p) + 1 =? 0) with false by (symmetry; apply N.eqb_neq; lia).
        symmetry. apply N.eqb_neq. lia. }
      { lia. }
      rewrite <- Eapp in I2, I3, I5, I6, I7. exists fd', nd', id'.
      split; [exact I1|]. split; [|repeat split; assumption].
      rewrite <- I2.
      (* one round of the decoder *)
      rewrite Ech. cbn [app]. rewrite decode_main_cons.
      change (c0 :: ch ++ out' ++ rest) with ((c0 :: ch) ++ out' ++ rest). rewrite <- Ech. clear Ech.
      unfold chunk. rewrite int_roundtrip by lia. rewrite N.mul_1_r. cbv zeta.
      rewrite Eold. fold (len (le_part n p ++ lt_part n r)). rewrite <- Eold, <- Hh.
      replace (id + delta - id) with delta by lia. rewrite Hflag. fold bias'.
      assert (Ei : id + delta = (n - nd) * (h + 1) + len (le_part n p)) by nia.
      rewrite Ei. destruct (div_mod_small (n - nd) (h + 1) (len (le_part n p)) ltac:(lia)) as [Ed Em].
      rewrite Ed, Em. replace (nd + (n - nd)) with n by lia.
      unfold basic. destruct (N.ltb_spec n 128); [lia|].
      unfold len at 2. rewrite Nat2N.id. rewrite Eold, insert_at_app, <- Eout. reflexivity.
    + (* c <> n: nothing is emitted *)
      assert (Estep : out_of n (p ++ [c]) r = out_of n p (c :: r)).
      { unfold out_of. rewrite le_part_app. cbn [le_part lt_part filter].
        destruct (N.leb_spec c n); destruct (N.ltb_spec c n); try lia; rewrite <- app_assoc; reflexivity. }
      cbn [e_delta e_bias e_h] in *.
      specialize (IH (p ++ [c]) n (if c <? n then delta + 1 else delta) bias h nd id rest fueld).
      rewrite Estep, <- Eapp in IH. apply IH; try assumption.
      rewrite le_part_app, len_app. cbn [le_part filter].
      destruct (N.leb_spec c n); destruct (N.ltb_spec c n); try lia; unfold len in *; cbn [length] in *; lia.
Qed.
End RT.

(* ------------------------------------------------------------------ *)
(* the main loops                                                      *)
(* ------------------------------------------------------------------ *)
Lemma filter_length_le (f : N -> bool) l : (length (filter f l) <= length l)%nat.
Proof. induction l as [|c r IH]; [cbn; lia|]. cbn [filter]. destruct (f c); cbn [length]; lia. Qed.

Lemma filter_all (f : N -> bool) l : length (filter f l) = length l -> filter f l = l.
Proof.
  induction l as [|c r IH]; [reflexivity|]. cbn [filter]. destruct (f c); cbn [length]; intros H.
  - f_equal. apply IH. lia.
  - pose proof (filter_length_le f r) as Hle. lia.
Qed.

Lemma len_filter_le (f : N -> bool) l : len (filter f l) <= len l.
Proof. unfold len. pose proof (filter_length_le f l). lia. Qed.

Lemma lt_part_min l n m : min_ge l n = Some m -> lt_part m l = lt_part n l.
Proof.
  intros H. destruct (min_ge_props l n m H) as (_ & Hge & Hmin).
  unfold lt_part. apply filter_ext_in. intros c Hc.
  destruct (N.ltb_spec c m); destruct (N.ltb_spec c n); try reflexivity; try lia.
  specialize (Hmin c Hc ltac:(lia)). lia.
Qed.

Lemma le_lt_succ l m : le_part m l = lt_part (m + 1) l.
Proof.
  unfold le_part, lt_part. apply filter_ext. intros c.
  destruct (N.leb_spec c m); destruct (N.ltb_spec c (m + 1)); try reflexivity; lia.
Qed.

Lemma lt_le_length r m : (length (lt_part m r) <= length (le_part m r))%nat.
Proof.
  unfold lt_part, le_part. induction r as [|a r IH]; [cbn; lia|]. cbn [filter].
  destruct (N.ltb_spec a m); destruct (N.leb_spec a m); cbn [length]; lia.
Qed.

Lemma le_part_more l m : In m l -> len (lt_part m l) + 1 <= len (le_part m l).
Proof.
  unfold lt_part, le_part.
  induction l as [|c r IH]; intros []; unfold len in *; cbn [filter] in *.
  - subst c. rewrite N.leb_refl, N.ltb_irrefl. cbn [length].
    pose proof (lt_le_length r m). unfold lt_part, le_part in *. lia.
  - specialize (IH H). destruct (N.ltb_spec c m); destruct (N.leb_spec c m); cbn [length]; lia.
Qed.

Lemma min_ge_some l n : len (lt_part n l) < len l -> exists m, min_ge l n = Some m.
Proof.
  intros H. destruct (min_ge l n) as [m|] eqn:E; [eexists; reflexivity|exfalso].
  pose proof (min_ge_none l n E) as Hall.
  assert (lt_part n l = l); [|unfold len in H; rewrite H0 in H; lia].
  unfold lt_part. clear H E. induction l as [|c r IH]; [reflexivity|]. cbn [filter].
  pose proof (Hall c (or_introl eq_refl)). destruct (N.ltb_spec c n); [|lia].
  f_equal. apply IH. intros c0 Hc0. apply Hall. right. exact Hc0.
Qed.

Lemma decode_main_nil fuel n i bias output : decode_main fuel [] n i bias output = Some output.
Proof. destruct fuel; reflexivity. Qed.

Lemma main_roundtrip b l : forall fuele n delta bias h nd id fueld,
  h = len (lt_part n l) -> nd <= n -> 128 <= n ->
  nd * (h + 1) + id + delta = n * (h + 1) ->
  (id =? 0) = (h =? b) -> b <= h ->
  (length l - N.to_nat h <= fuele)%nat ->
  (length (encode_main fuele l n b (mkE delta bias h)) <= fueld)%nat ->
  decode_main fueld (encode_main fuele l n b (mkE delta bias h)) nd id bias (lt_part n l) = Some l.
Proof.
  assert (Hdone : forall n h, h = len (lt_part n l) -> (length l - N.to_nat h <= 0)%nat -> lt_part n l = l).
  { intros n h Hh Hz. apply filter_all. pose proof (len_filter_le (fun c => c <? n) l).
    unfold len, lt_part in *. lia. }
  induction fuele as [|f IH]; intros n delta bias h nd id fueld Hh Hnd Hn Hinv Hflag Hbh Hfe Hfd.
  - cbn [encode_main]. rewrite decode_main_nil. f_equal. eapply Hdone; eassumption.
  - cbn [encode_main e_h e_delta e_bias] in *.
    destruct (N.ltb_spec h (N.of_nat (length l))) as [Lt|Ge].
    2:{ rewrite decode_main_nil. f_equal. apply (Hdone n h Hh). lia. }
    destruct (min_ge_some l n ltac:(unfold len in *; lia)) as [m Em]. rewrite Em in *.
    destruct (min_ge_props l n m Em) as (Min & Mge & Mmin).
    pose proof (lt_part_min l n m Em) as Elt.
    pose proof (pass_roundtrip b l [] m (delta + (m - n) * (h + 1)) bias h nd id) as P.
    destruct (encode_pass l m b (mkE (delta + (m - n) * (h + 1)) bias h)) as [st' out] eqn:EP.
    cbn [fst snd app] in P.
    specialize (P (encode_main f l (m + 1) b (mkE (e_delta st' + 1) (e_bias st') (e_h st'))) fueld).
    destruct P as (fd' & nd' & id' & P1 & P2 & P3 & P4 & P5 & P6 & P7); try assumption; try lia.
    { unfold out_of. cbn [le_part filter app]. rewrite Elt. exact Hh. }
    { cbn [le_part filter]. unfold len at 1. cbn [length]. nia. }
    unfold out_of in P2 at 1. cbn [le_part filter app] in P2. rewrite Elt in P2. rewrite P2.
    unfold out_of in *. cbn [lt_part filter] in *. rewrite app_nil_r in *.
    rewrite le_lt_succ in *.
    pose proof (le_part_more l m Min) as Hmore. rewrite le_lt_succ, Elt, <- Hh in Hmore.
    apply IH; try lia.
Qed.

(* ------------------------------------------------------------------ *)
(* spec_decode (spec_encode l) = Some l                                *)
(* ------------------------------------------------------------------ *)
Lemma encode_pass_no_delim b : forall l n st,
  Forall (fun c => c <> delimiter) (snd (encode_pass l n b st)).
Proof.
  induction l as [|c r IH]; intros n st; [constructor|]. cbn [encode_pass].
  destruct (c =? n); [|apply IH].
  match goal with |- context [encode_pass r n b ?s] =>
    specialize (IH n s); destruct (encode_pass r n b s) as [st' out'] end.
  cbn [snd] in *. apply Forall_app. split; [apply encode_int_no_delim|exact IH].
Qed.

Lemma encode_main_no_delim b l : forall fuel n st,
  Forall (fun c => c <> delimiter) (encode_main fuel l n b st).
Proof.
  induction fuel as [|f IH]; intros n st; [constructor|]. cbn [encode_main].
  destruct (e_h st <? N.of_nat (length l)); [|constructor].
  destruct (min_ge l n) as [m|]; [|constructor].
  match goal with |- context [encode_pass l m b ?s] =>
    pose proof (encode_pass_no_delim b l m s) as H; destruct (encode_pass l m b s) as [st' out] end.
  cbn [snd] in H. apply Forall_app. split; [exact H|apply IH].
Qed.

Lemma split_none e : Forall (fun c => c <> delimiter) e -> split_last_delim e = None.
Proof.
  induction 1 as [|c r Hc HF IH]; [reflexivity|]. cbn [split_last_delim]. rewrite IH.
  destruct (N.eqb_spec c delimiter); [contradiction|reflexivity].
Qed.

Lemma split_found a e : Forall (fun c => c <> delimiter) e ->
  split_last_delim (a ++ delimiter :: e) = Some (a, e).
Proof.
  intros HF. induction a as [|c a IH]; cbn [app split_last_delim].
  - rewrite (split_none e HF). rewrite N.eqb_refl. reflexivity.
  - rewrite IH. reflexivity.
Qed.

Theorem punycode_roundtrip l : spec_decode (spec_encode l) = Some l.
Proof.
  unfold spec_encode, spec_decode.
  set (B := filter basic l). set (b := N.of_nat (length B)).
  set (E := encode_main (length l) l initial_n b (mkE 0 initial_bias b)).
  pose proof (encode_main_no_delim b l (length l) initial_n (mkE 0 initial_bias b)) as HE. fold E in HE.
  assert (HB : forallb basic B = true).
  { apply forallb_forall. intros x Hx. apply filter_In in Hx. apply Hx. }
  assert (Hmain : decode_main (length E) E initial_n 0 initial_bias B = Some l).
  { change B with (lt_part 128 l). unfold E, initial_n.
    apply main_roundtrip; try lia; try reflexivity. }
  destruct (N.ltb_spec 0 b) as [Lb|Lb].
  - cbn [app]. rewrite (split_found B E HE). destruct B as [|x B'] eqn:EB; [cbn in b; lia|].
    rewrite <- EB in *. rewrite HB. exact Hmain.
  - assert (B = []) by (destruct B; [reflexivity|cbn in b; lia]).
    rewrite H in *. cbn [app]. rewrite (split_none E HE). cbn [forallb]. exact Hmain.
Qed.
