(* C18 proofs, part 4: shape of every inet_pton6 result: either UV_EINVAL with
   nothing written, or 0 with exactly sixteen bytes. *)
From UV Require Import Lib.Base Model.Inet Spec.InetSpec Proofs.InetProofs4.
Local Open Scope N_scope.

Lemma set_nth_length i v l : length (set_nth i v l) = length l.
Proof. apply upd_length. Qed.

Lemma shift_loop_length todo : forall i n c tmp,
  length (shift_loop todo i n c tmp) = length tmp.
Proof.
  induction todo as [|t IH]; intros; cbn [shift_loop]; [reflexivity|].
  rewrite IH, !set_nth_length. reflexivity.
Qed.

Definition shape6 (r : Z * list N) : Prop :=
  r = (UV_EINVAL, []) \/ exists b, r = (0%Z, b) /\ length b = 16%nat.

Lemma finish_shape out cp seen val :
  (length out <= 16)%nat -> shape6 (pton6_finish out cp seen val).
Proof.
  intros Hl. unfold pton6_finish.
  assert (Hs : forall o, (length o <= 16)%nat ->
    shape6 match cp with
           | Some c => if nlen o =? 16 then (UV_EINVAL, [])
                       else (0%Z, shift_loop (length o - c) 1 (length o - c) c
                                            (o ++ repeat 0 (16 - length o)))
           | None => if nlen o =? 16 then (0%Z, o) else (UV_EINVAL, [])
           end).
  { intros o Ho. destruct cp as [c|].
    - destruct (nlen o =? 16); [left; reflexivity|]. right. eexists. split; [reflexivity|].
      rewrite shift_loop_length, app_length, repeat_length. lia.
    - destruct (nlen o =? 16) eqn:E; [|left; reflexivity]. right. eexists. split; [reflexivity|].
      apply N.eqb_eq in E. unfold nlen in E. lia. }
  destruct (seen =? 0); [apply Hs; exact Hl|].
  destruct (16 <? nlen out + 2) eqn:E; [left; reflexivity|].
  apply Hs. apply N.ltb_ge in E. unfold nlen in E. rewrite app_length. simpl. lia.
Qed.

Lemma pton4_len s b : inet_pton4 s = (0%Z, b) -> length b = 4%nat.
Proof.
  intros H. apply pton4_sound in H.
  destruct H as (? & ? & ? & ? & ? & ? & ? & ? & _ & _ & _ & _ & _ & ->). reflexivity.
Qed.

Lemma loop_shape s : forall ct out cp seen val,
  (length out <= 16)%nat -> shape6 (pton6_loop s ct out cp seen val).
Proof.
  induction s as [|ch s IH]; intros ct out cp seen val Hl; cbn [pton6_loop].
  - apply finish_shape. exact Hl.
  - destruct (hexval ch).
    + destruct (4 <? seen + 1); [left; reflexivity|]. apply IH. exact Hl.
    + destruct (ch =? 58).
      * destruct (seen =? 0).
        -- destruct cp; [left; reflexivity|]. apply IH. exact Hl.
        -- destruct s as [|c2 s2]; [left; reflexivity|].
           destruct (16 <? nlen out + 2) eqn:E; [left; reflexivity|].
           apply IH. apply N.ltb_ge in E. unfold nlen in E. rewrite app_length. simpl. lia.
      * destruct ((ch =? 46) && (nlen out + 4 <=? 16)) eqn:E; [|left; reflexivity].
        apply andb_true_iff in E. destruct E as [_ E]. apply N.leb_le in E.
        destruct (inet_pton4 ct) as [rc b] eqn:E4.
        destruct rc; try (left; reflexivity).
        apply finish_shape. apply pton4_len in E4. unfold nlen in E.
        rewrite app_length. lia.
Qed.

Theorem pton6_shape s : shape6 (inet_pton6 s).
Proof.
  unfold inet_pton6. destruct s as [|c s1].
  - apply loop_shape. simpl. lia.
  - destruct (c =? 58).
    + destruct s1 as [|c1 s2]; [left; reflexivity|].
      destruct (c1 =? 58); [|left; reflexivity]. apply loop_shape. simpl. lia.
    + apply loop_shape. simpl. lia.
Qed.

(* the same for the public entry point, whatever the bytes in memory *)
Theorem uv_inet_pton6_shape src : shape6 (uv_inet_pton AF_INET6 src).
Proof.
  unfold uv_inet_pton. cbn [Z.eqb AF_INET AF_INET6 Pos.eqb].
  destruct (strchr (cstr src) 37) as [len|].
  - destruct (45 <? len)%nat; [left; reflexivity|]. apply pton6_shape.
  - apply pton6_shape.
Qed.
