(* Proofs about Model/StreamRead.v (C06).
   Part 1: the delivered byte stream is the stream the kernel handed out.
   Part 2: state invariant, alloc/read pairing, silence after EOF/error/stop, no
           call through a NULL read_cb (one monitor, one induction).
   Part 3: UV_EOF only after all data, under the kernel hypothesis; refutation
           without the "short read = empty buffer" part of it. *)
From UV Require Import Lib.Base Model.StreamRead Spec.StreamReadSpec.

Local Open Scope Z_scope.

(* ------------------------------------------------------------------ *)
(* Generic                                                              *)
(* ------------------------------------------------------------------ *)

Definition is_ret (e : event) : Prop := match e with ERet _ _ => True | _ => False end.

Lemma cop_run_rets s c : Forall is_ret (snd (cop_run s c)).
Proof.
  destruct c; cbn.
  - destruct (read_start s tok); cbn. repeat constructor.
  - repeat constructor.
  - destruct (closing s); cbn; repeat constructor.
Qed.

Lemma cops_rets s l : Forall is_ret (snd (cops s l)).
Proof.
  revert s; induction l as [|c l IH]; intros s; cbn; [constructor|].
  pose proof (cop_run_rets s c) as H1.
  destruct (cop_run s c) as [s1 e1]; cbn in *.
  specialize (IH s1). destruct (cops s1 l) as [s2 e2]; cbn in *.
  apply Forall_app; split; assumption.
Qed.

(* what the API calls leave alone *)
Definition same_kernel (s s' : st) : Prop :=
  pos s' = pos s /\ oracle s' = oracle s /\ ipc s' = ipc s /\ partial s' = partial s /\
  nalloc s' = nalloc s /\ ncb s' = ncb s /\ is_pipe s' = is_pipe s.

Lemma same_kernel_refl s : same_kernel s s.
Proof. repeat split. Qed.

Lemma same_kernel_trans a b c : same_kernel a b -> same_kernel b c -> same_kernel a c.
Proof. unfold same_kernel; intuition congruence. Qed.

Lemma cop_run_frame s c : same_kernel s (fst (cop_run s c)).
Proof.
  destruct c; cbn.
  - unfold read_start.
    destruct (closing s), (reading s), (readable s); cbn; repeat split.
  - unfold read_stop. destruct (reading s); cbn; repeat split.
  - destruct (closing s) eqn:Hc; cbn; [repeat split|].
    unfold stream_close. rewrite Hc. unfold read_stop; cbn.
    destruct (reading s); cbn; repeat split.
Qed.

Lemma cops_frame s l : same_kernel s (fst (cops s l)).
Proof.
  revert s; induction l as [|c l IH]; intros s; cbn; [apply same_kernel_refl|].
  pose proof (cop_run_frame s c) as H1.
  destruct (cop_run s c) as [s1 e1]; cbn in *.
  specialize (IH s1). destruct (cops s1 l) as [s2 e2]; cbn in *.
  eapply same_kernel_trans; eassumption.
Qed.

(* ------------------------------------------------------------------ *)
(* Part 1: stream_exact                                                 *)
(* ------------------------------------------------------------------ *)

Lemma chain_app p l1 q l2 r : chain p l1 q -> chain q l2 r -> chain p (l1 ++ l2) r.
Proof.
  revert p; induction l1 as [|[off len] l1 IH]; intros p H1 H2; cbn in *.
  - subst; assumption.
  - destruct H1 as (? & ? & H1). repeat split; auto.
Qed.

Lemma rets_delivered evs : Forall is_ret evs -> delivered evs = [] /\ kernel evs = [].
Proof.
  induction 1 as [|e evs He _ [IH1 IH2]]; cbn; [split; reflexivity|].
  destruct e; cbn in He; try contradiction. cbn. split; assumption.
Qed.

Lemma delivered_app a b : delivered (a ++ b) = delivered a ++ delivered b.
Proof. apply flat_map_app. Qed.
Lemma kernel_app a b : kernel (a ++ b) = kernel a ++ kernel b.
Proof. apply flat_map_app. Qed.

Lemma bump_cb_same s : same_kernel s (bump_cb s) -> True. Proof. trivial. Qed.

(* a read callback: the event, then only return codes; the kernel is not touched *)
Lemma call_read_cb_shape E s nread buf off len :
  let '(s', evs) := call_read_cb E s nread buf off len in
  pos s' = pos s /\ oracle s' = oracle s /\ partial s' = partial s /\ nalloc s' = nalloc s /\
  match rcb s with
  | Some tok => exists rets, evs = ERead tok nread buf off len :: rets /\ Forall is_ret rets
  | None => evs = [ECrash]
  end.
Proof.
  unfold call_read_cb. destruct (rcb s) as [tok|] eqn:Hr.
  - pose proof (cops_frame (bump_cb s) (beh E (ncb s))) as Hf.
    pose proof (cops_rets (bump_cb s) (beh E (ncb s))) as Hq.
    destruct (cops (bump_cb s) (beh E (ncb s))) as [s1 evs]; cbn in *.
    destruct Hf as (? & ? & ? & ? & ? & ?). cbn in *.
    repeat split; try assumption. exists evs. split; [reflexivity|assumption].
  - repeat split.
Qed.

Lemma call_read_cb_exact E s nread buf off len tok :
  rcb s = Some tok ->
  let '(s', evs) := call_read_cb E s nread buf off len in
  pos s' = pos s /\ kernel evs = [] /\
  delivered evs = (if 0 <? nread then [(off, len)] else []).
Proof.
  intros Hr. pose proof (call_read_cb_shape E s nread buf off len) as H.
  destruct (call_read_cb E s nread buf off len) as [s' evs].
  destruct H as (Hp & _ & _ & _ & H). rewrite Hr in H. destruct H as (rets & -> & Hq).
  apply rets_delivered in Hq. destruct Hq as [Hd Hk].
  split; [assumption|]. split.
  - cbn. assumption.
  - change (delivered (ERead tok nread buf off len :: rets))
      with (delivered_of (ERead tok nread buf off len) ++ delivered rets).
    rewrite Hd, app_nil_r. reflexivity.
Qed.

Lemma stream_eof_exact E s buf :
  let '(s', evs) := stream_eof E s buf in
  pos s' = pos s /\ kernel evs = [] /\ delivered evs = [].
Proof.
  unfold stream_eof.
  set (s1 := set_flags s false (partial s) true (readable s) false false (rcb s)).
  pose proof (call_read_cb_shape E s1 UV_EOF buf 0 0) as H.
  destruct (call_read_cb E s1 UV_EOF buf 0 0) as [s' evs].
  destruct H as (Hp & _ & _ & _ & H). split; [exact Hp|].
  destruct (rcb s1) as [tok|].
  - destruct H as (rets & -> & Hq). apply rets_delivered in Hq. destruct Hq as [Hd Hk].
    split; cbn; assumption.
  - subst evs. split; reflexivity.
Qed.

Ltac dcall H tok Hr :=
  match goal with |- context [call_read_cb ?E0 ?s0 ?n0 ?b0 ?o0 ?l0] =>
    pose proof (call_read_cb_exact E0 s0 n0 b0 o0 l0 tok Hr) as H;
    destruct (call_read_cb E0 s0 n0 b0 o0 l0) as [sx evs] end.

Ltac simp_tr := cbn [delivered kernel flat_map delivered_of kernel_of app fst snd].

Lemma read_iter_exact E s tok :
  rcb s = Some tok ->
  let '(s', evs, _) := read_iter E s in
  delivered evs = kernel evs /\ chain (pos s) (kernel evs) (pos s').
Proof.
  intros Hr. unfold read_iter.
  set (b := allocs E (nalloc s)).
  destruct (refuses b) eqn:Hrf.
  - dcall H tok Hr. destruct H as (Hp & Hk & Hd). cbn in Hd. simp_tr.
    fold (kernel evs) (delivered evs). rewrite Hk, Hd. split; [reflexivity|]. cbn. cbn in Hp. congruence.
  - cbn [oracle bump_alloc].
    destruct (sys_read (oracle s)) as [a o'].
    destruct a as [| | |e|n].
    + destruct (reading (set_kernel (bump_alloc s) (pos (bump_alloc s)) o'));
        (dcall H tok Hr; destruct H as (Hp & Hk & Hd); cbn in Hd; simp_tr;
         fold (kernel evs) (delivered evs); rewrite Hk, Hd; split; [reflexivity|]; cbn; cbn in Hp; congruence).
    + destruct (reading (set_kernel (bump_alloc s) (pos (bump_alloc s)) o'));
        (dcall H tok Hr; destruct H as (Hp & Hk & Hd); cbn in Hd; simp_tr;
         fold (kernel evs) (delivered evs); rewrite Hk, Hd; split; [reflexivity|]; cbn; cbn in Hp; congruence).
    + match goal with |- context [stream_eof ?E ?s2 ?bf] =>
        pose proof (stream_eof_exact E s2 bf) as H; destruct (stream_eof E s2 bf) as [s3 evs] end.
      destruct H as (Hp & Hk & Hd). simp_tr. fold (kernel evs) (delivered evs).
      rewrite Hk, Hd. split; [reflexivity|]. cbn. cbn in Hp. congruence.
    + dcall H tok Hr. destruct H as (Hp & Hk & Hd). cbn in Hd. simp_tr.
      fold (kernel evs) (delivered evs). rewrite Hk, Hd. split; [reflexivity|].
      cbn. cbn in Hp. destruct (reading sx); cbn; congruence.
    + set (nread := Z.max 1 (Z.min n (b_len b))).
      dcall H tok Hr. destruct H as (Hp & Hk & Hd).
      assert (Hpos : 0 <? nread = true) by (unfold nread; lia).
      rewrite Hpos in Hd.
      destruct (nread <? b_len b); [destruct (is_pipe sx)|]; simp_tr; fold (kernel evs) (delivered evs);
        rewrite Hk, Hd; (split; [reflexivity|]); cbn; cbn in Hp; repeat split; lia.
Qed.

Lemma loop_cond_rcb s : loop_cond s = true -> exists tok, rcb s = Some tok.
Proof. unfold loop_cond. destruct (rcb s) as [t|]; [eauto|discriminate]. Qed.

Lemma read_loop_exact E c s :
  let '(s', evs) := read_loop E c s in
  delivered evs = kernel evs /\ chain (pos s) (kernel evs) (pos s').
Proof.
  revert s; induction c as [|c IH]; intros s; cbn; [split; reflexivity|].
  destruct (loop_cond s) eqn:Hc; cbn; [|split; reflexivity].
  destruct (loop_cond_rcb s Hc) as [tok Hr].
  pose proof (read_iter_exact E s tok Hr) as H.
  destruct (read_iter E s) as [[s1 e1] go]. destruct H as [Hd Hch].
  destruct go; [|split; assumption].
  specialize (IH s1). destruct (read_loop E c s1) as [s2 e2]. destruct IH as [Hd2 Hch2].
  rewrite delivered_app, kernel_app, Hd, Hd2. split; [reflexivity|].
  eapply chain_app; eassumption.
Qed.

Lemma stream_io_exact E s ev :
  let '(s', evs) := stream_io E s ev in
  delivered evs = kernel evs /\ chain (pos s) (kernel evs) (pos s').
Proof.
  unfold stream_io.
  assert (H1 : let '(s1, e1) := (if has ev (Z.lor POLLIN (Z.lor POLLERR POLLHUP)) then uv_read E s else (s, []))
               in delivered e1 = kernel e1 /\ chain (pos s) (kernel e1) (pos s1)).
  { destruct (has ev _); [|split; reflexivity].
    unfold uv_read. apply (read_loop_exact E 32 (set_partial s false)). }
  destruct (if has ev (Z.lor POLLIN (Z.lor POLLERR POLLHUP)) then uv_read E s else (s, [])) as [s1 e1].
  destruct H1 as [Hd Hch].
  destruct (closing s1); [split; assumption|].
  destruct (has ev POLLHUP && reading s1 && partial s1 && negb (eof s1)); [|split; assumption].
  pose proof (stream_eof_exact E s1 None) as H2.
  destruct (stream_eof E s1 None) as [s2 e2]. destruct H2 as (Hp & Hk & Hd2).
  rewrite delivered_app, kernel_app, Hk, Hd2, !app_nil_r. split; [assumption|]. congruence.
Qed.

Lemma io_poll_exact E s raw wout :
  let '(s', evs) := io_poll E s raw wout in
  delivered evs = kernel evs /\ chain (pos s) (kernel evs) (pos s').
Proof.
  unfold io_poll.
  destruct (raw =? 0); [split; reflexivity|].
  match goal with |- context [if ?pv =? 0 then (s, []) else _] =>
    destruct (pv =? 0); [split; reflexivity|] end.
  match goal with |- context [if ?c =? 0 then _ else stream_io E s ?p] =>
    destruct (c =? 0); [split; reflexivity|apply (stream_io_exact E s p)] end.
Qed.

Lemma op_run_exact E s o :
  let '(s', evs) := op_run E s o in
  delivered evs = kernel evs /\ chain (pos s) (kernel evs) (pos s').
Proof.
  assert (Hcop : forall c, let '(s', evs) := cop_run s c in
            delivered evs = kernel evs /\ chain (pos s) (kernel evs) (pos s')).
  { intros c. pose proof (cop_run_rets s c) as Hq. pose proof (cop_run_frame s c) as Hf.
    destruct (cop_run s c) as [s' evs]; cbn in *.
    apply rets_delivered in Hq. destruct Hq as [-> ->]. destruct Hf as [Hp _].
    split; [reflexivity|]. cbn. congruence. }
  destruct o as [tok| | |raw wout|ev|]; cbn [op_run]; try apply Hcop.
  - unfold run_once. pose proof (io_poll_exact E s raw wout) as H.
    destruct (io_poll E s raw wout) as [s1 e1]. destruct H as [Hd Hch].
    destruct (closing s1 && negb (closed s1)).
    + change (delivered (EPoll raw :: e1 ++ [ECloseCb])) with (delivered (e1 ++ [ECloseCb])).
      change (kernel (EPoll raw :: e1 ++ [ECloseCb])) with (kernel (e1 ++ [ECloseCb])).
      rewrite delivered_app, kernel_app. cbn. rewrite !app_nil_r. split; assumption.
    + split; assumption.
  - unfold io_event. destruct (closing s); [split; reflexivity|].
    pose proof (stream_io_exact E s ev) as H.
    destruct (stream_io E s ev) as [s1 e1]. exact H.
  - split; reflexivity.
Qed.

Lemma exec_exact E s os :
  let '(s', tr) := exec E s os in
  delivered tr = kernel tr /\ chain (pos s) (kernel tr) (pos s').
Proof.
  revert s; induction os as [|o os IH]; intros s; cbn; [split; reflexivity|].
  pose proof (op_run_exact E s o) as H.
  destruct (op_run E s o) as [s1 e1]. destruct H as [Hd Hch].
  specialize (IH s1). destruct (exec E s1 os) as [s2 e2]. destruct IH as [Hd2 Hch2].
  rewrite delivered_app, kernel_app.
  change (delivered (flags_ev s1 :: e2)) with (delivered e2).
  change (kernel (flags_ev s1 :: e2)) with (kernel e2).
  rewrite Hd, Hd2. split; [reflexivity|]. eapply chain_app; eassumption.
Qed.

Lemma map_seq_shift {A} (f : nat -> A) k n :
  map f (seq k n) = map (fun i => f (k + i)%nat) (seq 0 n).
Proof.
  revert k; induction n as [|n IH]; intros k; cbn; [reflexivity|].
  f_equal; [f_equal; lia|].
  rewrite (IH (S k)). rewrite <- (seq_shift n 0), map_map.
  apply map_ext. intros i. f_equal. lia.
Qed.

Lemma bytes_split {A} (peer : Z -> A) p a b :
  0 <= a -> 0 <= b -> bytes peer (p, a + b) = bytes peer (p, a) ++ bytes peer (p + a, b).
Proof.
  intros Ha Hb. unfold bytes; cbn [fst snd].
  rewrite Z2Nat.inj_add by assumption. rewrite seq_app, map_app. f_equal.
  rewrite map_seq_shift. apply map_ext. intros i. f_equal. lia.
Qed.

Lemma chain_bytes {A} (peer : Z -> A) p l q :
  chain p l q -> p <= q /\ flat_map (bytes peer) l = bytes peer (p, q - p).
Proof.
  revert p; induction l as [|[off len] l IH]; intros p H; cbn in H.
  - subst. split; [lia|]. cbn. replace (q - q) with 0 by lia. reflexivity.
  - destruct H as (-> & Hl & H). apply IH in H. destruct H as [Hle Hb].
    split; [lia|]. cbn [flat_map]. rewrite Hb.
    replace (q - p) with (len + (q - (p + len))) by lia.
    rewrite bytes_split by lia. reflexivity.
Qed.

Theorem stream_exact : forall (A : Type) (peer : Z -> A) E pipe is_ipc o ops,
  let '(s', tr) := exec E (init pipe is_ipc o) ops in
  delivered tr = kernel tr /\
  chain 0 (kernel tr) (pos s') /\
  flat_map (bytes peer) (delivered tr) = bytes peer (0, pos s').
Proof.
  intros A peer E pipe is_ipc o ops.
  pose proof (exec_exact E (init pipe is_ipc o) ops) as H.
  destruct (exec E (init pipe is_ipc o) ops) as [s' tr]. destruct H as [Hd Hch].
  cbn in Hch. split; [assumption|]. split; [assumption|].
  rewrite Hd. apply (chain_bytes peer) in Hch. destruct Hch as [_ ->].
  replace (pos s' - 0) with (pos s') by lia. reflexivity.
Qed.

(* ------------------------------------------------------------------ *)
(* Part 2: invariant; pairing, silence, no NULL callback                *)
(* ------------------------------------------------------------------ *)

(* R1-R3 of DESIGN appendix A, plus the bookkeeping they need *)
Definition Inv (s : st) : Prop :=
  (reading s = true -> rcb s <> None) /\
  pollin s = reading s /\ active s = reading s /\
  (eof s = true -> reading s = false) /\
  (closing s = true -> reading s = false /\ readable s = false) /\
  (closed s = true -> closing s = true).

(* monitor state: the outstanding alloc result (id, usable length), "no read
   callback allowed until uv_read_start succeeds", "uv_close was called" *)
Record monA := mkA { a_out : option (nat * Z); a_quiet : bool; a_dead : bool }.

Definition stepA (m : monA) (e : event) : option monA :=
  match e with
  | EAlloc id _ b =>
      if a_quiet m then None else
      match a_out m with
      | Some _ => None
      | None => Some (mkA (Some (id, buf_cap b)) false (a_dead m))
      end
  | ESys len _ _ =>
      match a_out m with
      | Some (_, cap) => if len =? cap then Some m else None
      | None => None
      end
  | ERead _ nread buf _ len =>
      if a_quiet m then None else
      match buf, a_out m with
      | Some i, Some (j, cap) =>
          if Nat.eqb i j && (nread <=? cap) && (if 0 <? nread then len =? nread else true)
          then Some (mkA None (is_final nread) (a_dead m)) else None
      | None, None => if nread =? UV_EOF then Some (mkA None true (a_dead m)) else None
      | _, _ => None
      end
  | ERet O c => if c =? 0 then (if a_dead m then None else Some (mkA (a_out m) false false))
                else Some m
  | ERet (S O) _ => Some (mkA (a_out m) true (a_dead m))
  | ERet _ _ => Some (mkA (a_out m) true true)
  | ECrash => None
  | _ => Some m
  end.

Fixpoint runA (m : monA) (tr : list event) : option monA :=
  match tr with
  | [] => Some m
  | e :: tr' => match stepA m e with Some m' => runA m' tr' | None => None end
  end.

Lemma runA_app m a b m1 : runA m a = Some m1 -> runA m (a ++ b) = runA m1 b.
Proof.
  revert m; induction a as [|e a IH]; intros m H; cbn in *.
  - inversion H; reflexivity.
  - destruct (stepA m e); [auto|discriminate].
Qed.

Definition RelA (strict : bool) (s : st) (m : monA) : Prop :=
  Inv s /\ a_out m = None /\
  (a_quiet m = true -> reading s = false \/ (strict = false /\ readable s = false)) /\
  (a_dead m = true -> closing s = true).

Ltac inv_tac :=
  unfold RelA, Inv in *; cbn in *;
  repeat match goal with
         | H : _ /\ _ |- _ => destruct H
         end.

Ltac fin :=
  repeat split; cbn; intros;
  repeat match goal with
         | H : ?a = true -> _ /\ _, H' : ?a = true |- _ => destruct (H H'); clear H
         | H : ?a = true -> _, H' : ?a = true |- _ => specialize (H H')
         end;
  try congruence; try discriminate; auto.

Lemma cop_run_A strict s m c :
  RelA strict s m ->
  exists m', runA m (snd (cop_run s c)) = Some m' /\ RelA strict (fst (cop_run s c)) m'.
Proof.
  intros H. destruct m as [out quiet dead]. destruct c as [tok| |]; cbn [cop_run].
  - unfold read_start.
    destruct (closing s) eqn:Hcl; cbn; [exists (mkA out quiet dead); split; [reflexivity|assumption]|].
    destruct (reading s) eqn:Hrd; cbn; [exists (mkA out quiet dead); split; [reflexivity|assumption]|].
    destruct (readable s) eqn:Hrb; cbn; [|exists (mkA out quiet dead); split; [reflexivity|assumption]].
    destruct dead.
    { exfalso. inv_tac. match goal with H : true = true -> _ |- _ => specialize (H eq_refl) end. congruence. }
    exists (mkA out false false). split; [reflexivity|]. inv_tac. fin.
  - unfold read_stop. destruct (reading s) eqn:Hrd; cbn.
    + exists (mkA out true dead). split; [reflexivity|]. inv_tac. fin.
    + exists (mkA out true dead). split; [reflexivity|]. inv_tac. fin.
  - destruct (closing s) eqn:Hcl; cbn; [exists (mkA out quiet dead); split; [reflexivity|assumption]|].
    exists (mkA out true true). split; [reflexivity|].
    unfold stream_close. rewrite Hcl. unfold read_stop. cbn.
    destruct (reading s) eqn:Hrd; cbn; inv_tac; fin.
Qed.

Lemma cops_A strict s m l :
  RelA strict s m ->
  exists m', runA m (snd (cops s l)) = Some m' /\ RelA strict (fst (cops s l)) m'.
Proof.
  revert s m; induction l as [|c l IH]; intros s m H; cbn.
  - exists m. split; [reflexivity|assumption].
  - destruct (cop_run_A strict s m c H) as (m1 & Hr1 & H1).
    destruct (cop_run s c) as [s1 e1]; cbn in *.
    destruct (IH s1 m1 H1) as (m2 & Hr2 & H2).
    destruct (cops s1 l) as [s2 e2]; cbn in *.
    exists m2. split; [|assumption]. rewrite (runA_app _ _ _ _ Hr1). assumption.
Qed.

Lemma call_read_cb_A strict E s m m1 tok nread buf off len :
  rcb s = Some tok ->
  stepA m (ERead tok nread buf off len) = Some m1 ->
  RelA strict (bump_cb s) m1 ->
  exists m', runA m (snd (call_read_cb E s nread buf off len)) = Some m' /\
             RelA strict (fst (call_read_cb E s nread buf off len)) m'.
Proof.
  intros Hr Hs H. unfold call_read_cb. rewrite Hr.
  destruct (cops_A strict (bump_cb s) m1 (beh E (ncb s)) H) as (m' & Hr' & H').
  destruct (cops (bump_cb s) (beh E (ncb s))) as [s1 evs]; cbn in *.
  exists m'. split; [|assumption]. rewrite Hs. assumption.
Qed.

Lemma stream_eof_A E s m buf :
  Inv s -> reading s = true -> a_quiet m = false -> a_dead m = false ->
  (buf = None /\ a_out m = None \/
   exists id cap, buf = Some id /\ a_out m = Some (id, cap) /\ 0 <= cap) ->
  exists m', runA m (snd (stream_eof E s buf)) = Some m' /\
             RelA true (fst (stream_eof E s buf)) m'.
Proof.
  intros HI Hrd Hq Hdd Hb. unfold stream_eof.
  set (s1 := set_flags s false (partial s) true (readable s) false false (rcb s)).
  assert (Hcb : exists tok, rcb s1 = Some tok).
  { destruct HI as (H1 & _). specialize (H1 Hrd). cbn. destruct (rcb s) as [t|]; [eauto|congruence]. }
  destruct Hcb as [tok Hcb].
  destruct m as [out quiet dead]; cbn in *. subst quiet dead.
  apply (call_read_cb_A true E s1 (mkA out false false) (mkA None true false) tok UV_EOF buf 0 0 Hcb).
  - cbn. destruct Hb as [[-> ->]|(id & cap & -> & -> & Hc)]; cbn; [reflexivity|].
    rewrite Nat.eqb_refl. cbn.
    assert (Hle : UV_EOF <=? cap = true) by (apply Z.leb_le; unfold UV_EOF; lia).
    rewrite Hle. reflexivity.
  - inv_tac. fin.
Qed.

Lemma refuses_false_len b : refuses b = false -> 0 < b_len b /\ buf_cap b = b_len b.
Proof.
  unfold buf_cap. intros H. rewrite H. unfold refuses in H.
  apply orb_false_iff in H. destruct H as [_ H]. split; [lia|reflexivity].
Qed.

Lemma read_iter_A E s m :
  RelA true s m -> loop_cond s = true ->
  exists m', runA m (snd (fst (read_iter E s))) = Some m' /\ RelA true (fst (fst (read_iter E s))) m'.
Proof.
  intros H Hc.
  destruct (loop_cond_rcb s Hc) as [tok Hr].
  assert (Hrd : reading s = true) by (unfold loop_cond in Hc; rewrite Hr in Hc; assumption).
  destruct m as [out quiet dead].
  assert (Hq : quiet = false).
  { destruct quiet; [|reflexivity]. destruct H as (_ & _ & Hq & _). cbn in Hq.
    destruct (Hq eq_refl) as [Hx|[Hx _]]; congruence. }
  assert (Ho : out = None) by (destruct H as (_ & Ho & _); exact Ho).
  assert (Hdd : dead = false).
  { destruct dead; [|reflexivity]. destruct H as (HI & _ & _ & Hd). cbn in Hd.
    destruct HI as (_ & _ & _ & _ & H5 & _). destruct (H5 (Hd eq_refl)). congruence. }
  subst quiet out dead.
  assert (HI : Inv s) by (destruct H as (HI & _); exact HI).
  unfold read_iter.
  set (b := allocs E (nalloc s)). set (id := nalloc s).
  destruct (refuses b) eqn:Hrf.
  - (* UV_ENOBUFS *)
    assert (Hcap : buf_cap b = 0) by (unfold buf_cap; rewrite Hrf; reflexivity).
    destruct (call_read_cb_A true E (bump_alloc s) (mkA (Some (id, 0)) false false) (mkA None false false)
                tok UV_ENOBUFS (Some id) 0 0 Hr) as (m' & Hr' & H').
    { cbn. rewrite Nat.eqb_refl. reflexivity. }
    { inv_tac. fin. }
    destruct (call_read_cb E (bump_alloc s) UV_ENOBUFS (Some id) 0 0) as [s2 evs]; cbn in *.
    exists m'. split; [|assumption]. rewrite Hcap. assumption.
  - destruct (refuses_false_len b Hrf) as [Hlen Hcap].
    cbn [oracle bump_alloc].
    destruct (sys_read (oracle s)) as [a o'].
    assert (Hagain :
      let s2 := set_kernel (bump_alloc s) (pos (bump_alloc s)) o' in
      let s3 := if reading s2
                then set_flags s2 (reading s2) (partial s2) (eof s2) (readable s2) (active s2) true (rcb s2)
                else s2 in
      exists m', runA (mkA None false false)
                   (EAlloc id 65536 b :: ESys (b_len b) Again (pos (bump_alloc s)) ::
                    snd (call_read_cb E s3 0 (Some id) 0 0)) = Some m' /\
                 RelA true (fst (call_read_cb E s3 0 (Some id) 0 0)) m').
    { intros s2 s3.
      assert (Hr3 : rcb s3 = Some tok) by (unfold s3, s2; cbn; rewrite Hrd; cbn; assumption).
      destruct (call_read_cb_A true E s3 (mkA (Some (id, b_len b)) false false) (mkA None false false)
                  tok 0 (Some id) 0 0 Hr3) as (m' & Hr' & H').
      { cbn. rewrite Nat.eqb_refl. cbn.
        replace (0 <=? b_len b) with true by (symmetry; apply Z.leb_le; lia). reflexivity. }
      { unfold s3, s2; cbn. rewrite Hrd; cbn. inv_tac. fin. }
      exists m'. split; [|assumption].
      cbn. rewrite Hcap, Z.eqb_refl. assumption. }
    destruct a as [| | |e|n].
    + cbn zeta in Hagain. destruct Hagain as (m' & Hr' & H').
      destruct (call_read_cb E _ 0 (Some id) 0 0) as [s4 evs]; cbn in *.
      exists m'. split; assumption.
    + cbn zeta in Hagain. destruct Hagain as (m' & Hr' & H').
      destruct (call_read_cb E _ 0 (Some id) 0 0) as [s4 evs]; cbn in *.
      exists m'. split; assumption.
    + (* Eof *)
      set (s2 := set_kernel (bump_alloc s) (pos (bump_alloc s)) o').
      destruct (stream_eof_A E s2 (mkA (Some (id, b_len b)) false false) (Some id)) as (m' & Hr' & H').
      { unfold s2, Inv in *; cbn. exact HI. }
      { exact Hrd. }
      { reflexivity. }
      { reflexivity. }
      { right. exists id, (b_len b). repeat split; lia. }
      destruct (stream_eof E s2 (Some id)) as [s3 evs]; cbn in *.
      exists m'. split; [|assumption]. rewrite Hcap, Z.eqb_refl. assumption.
    + (* Err e *)
      set (s2 := set_readable (set_kernel (bump_alloc s) (pos (bump_alloc s)) o') false).
      destruct (call_read_cb_A false E s2 (mkA (Some (id, b_len b)) false false)
                  (mkA None (is_final (Zneg e)) false) tok (Zneg e) (Some id) 0 0 Hr)
        as (m' & Hr' & H').
      { cbn. rewrite Nat.eqb_refl. cbn.
        replace (Z.neg e <=? b_len b) with true by (symmetry; apply Z.leb_le; lia). reflexivity. }
      { unfold s2. inv_tac. fin. }
      destruct (call_read_cb E s2 (Zneg e) (Some id) 0 0) as [s3 evs]; cbn in *.
      exists m'. split; [rewrite Hcap, Z.eqb_refl; assumption|].
      destruct H' as (HI3 & Ho3 & Hq3 & Hd3).
      destruct (reading s3) eqn:Hrd3.
      * unfold stop_reading. clear H HI. inv_tac. fin.
      * clear H HI. inv_tac. fin.
    + (* Data *)
      set (nread := Z.max 1 (Z.min n (b_len b))).
      set (s2 := set_kernel (bump_alloc s) (pos (bump_alloc s) + nread) o').
      assert (Hn : 1 <= nread <= b_len b) by (unfold nread; lia).
      destruct (call_read_cb_A true E s2 (mkA (Some (id, b_len b)) false false)
                  (mkA None false false) tok nread (Some id) (pos (bump_alloc s)) nread Hr)
        as (m' & Hr' & H').
      { cbn. rewrite Nat.eqb_refl. cbn.
        replace (nread <=? b_len b) with true by (symmetry; apply Z.leb_le; lia).
        replace (0 <? nread) with true by (symmetry; apply Z.ltb_lt; lia).
        rewrite Z.eqb_refl. cbn.
        unfold is_final. replace (nread <? 0) with false by (symmetry; apply Z.ltb_ge; lia). reflexivity. }
      { unfold s2. inv_tac. fin. }
      destruct (call_read_cb E s2 nread (Some id) (pos (bump_alloc s)) nread) as [s3 evs]; cbn in *.
      destruct (nread <? b_len b); [destruct (is_pipe s3)|]; cbn; exists m';
        (split; [rewrite Hcap, Z.eqb_refl; assumption|]).
      * exact H'.
      * unfold RelA, Inv in *; cbn. exact H'.
      * exact H'.
Qed.

Lemma read_loop_A E c s m :
  RelA true s m ->
  exists m', runA m (snd (read_loop E c s)) = Some m' /\ RelA true (fst (read_loop E c s)) m'.
Proof.
  revert s m; induction c as [|c IH]; intros s m H; cbn.
  - exists m. split; [reflexivity|assumption].
  - destruct (loop_cond s) eqn:Hc; cbn.
    + destruct (read_iter_A E s m H Hc) as (m1 & Hr1 & H1).
      destruct (read_iter E s) as [[s1 e1] go]; cbn in *.
      destruct go.
      * destruct (IH s1 m1 H1) as (m2 & Hr2 & H2).
        destruct (read_loop E c s1) as [s2 e2]; cbn in *.
        exists m2. split; [|assumption]. rewrite (runA_app _ _ _ _ Hr1). assumption.
      * exists m1. split; assumption.
    + exists m. split; [reflexivity|assumption].
Qed.

Lemma stream_io_A E s m ev :
  RelA true s m ->
  exists m', runA m (snd (stream_io E s ev)) = Some m' /\ RelA true (fst (stream_io E s ev)) m'.
Proof.
  intros H. unfold stream_io.
  assert (H1 : exists m1,
    runA m (snd (if has ev (Z.lor POLLIN (Z.lor POLLERR POLLHUP)) then uv_read E s else (s, []))) = Some m1 /\
    RelA true (fst (if has ev (Z.lor POLLIN (Z.lor POLLERR POLLHUP)) then uv_read E s else (s, []))) m1).
  { destruct (has ev _).
    - unfold uv_read. apply read_loop_A. unfold RelA, Inv in *; cbn. exact H.
    - exists m. split; [reflexivity|assumption]. }
  destruct H1 as (m1 & Hr1 & H1).
  destruct (if has ev (Z.lor POLLIN (Z.lor POLLERR POLLHUP)) then uv_read E s else (s, [])) as [s1 e1].
  cbn in Hr1, H1.
  destruct (closing s1) eqn:Hcl; cbn; [exists m1; split; assumption|].
  destruct (has ev POLLHUP && reading s1 && partial s1 && negb (eof s1)) eqn:Hcond;
    [|exists m1; split; assumption].
  apply andb_true_iff in Hcond. destruct Hcond as [Hcond _].
  apply andb_true_iff in Hcond. destruct Hcond as [Hcond _].
  apply andb_true_iff in Hcond. destruct Hcond as [_ Hrd].
  destruct H1 as (HI & Ho & Hq & Hd).
  destruct (stream_eof_A E s1 m1 None HI Hrd) as (m2 & Hr2 & H2).
  { destruct (a_quiet m1); [|reflexivity]. destruct (Hq eq_refl) as [Hx|[Hx _]]; congruence. }
  { destruct (a_dead m1); [|reflexivity]. specialize (Hd eq_refl). congruence. }
  { left. split; [reflexivity|assumption]. }
  destruct (stream_eof E s1 None) as [s2 e2]; cbn in *.
  exists m2. split; [|assumption]. rewrite (runA_app _ _ _ _ Hr1). assumption.
Qed.

Lemma io_poll_A E s m raw wout :
  RelA true s m ->
  exists m', runA m (snd (io_poll E s raw wout)) = Some m' /\ RelA true (fst (io_poll E s raw wout)) m'.
Proof.
  intros H. unfold io_poll.
  destruct (raw =? 0); [exists m; split; [reflexivity|assumption]|].
  match goal with |- context [if ?pv =? 0 then (s, []) else _] =>
    destruct (pv =? 0); [exists m; split; [reflexivity|assumption]|] end.
  match goal with |- context [if ?c =? 0 then _ else stream_io E s ?p] =>
    destruct (c =? 0); [exists m; split; [reflexivity|assumption]|apply stream_io_A; assumption] end.
Qed.

Lemma op_run_A E s m o :
  RelA true s m ->
  exists m', runA m (snd (op_run E s o)) = Some m' /\ RelA true (fst (op_run E s o)) m'.
Proof.
  intros H. destruct o as [tok| | |raw wout|ev|]; cbn [op_run]; try (apply cop_run_A; assumption).
  - unfold run_once.
    destruct (io_poll_A E s m raw wout H) as (m1 & Hr1 & H1).
    destruct (io_poll E s raw wout) as [s1 e1]; cbn in *.
    destruct (closing s1 && negb (closed s1)) eqn:Hc; cbn.
    + exists m1. split.
      * rewrite (runA_app _ _ _ _ Hr1). reflexivity.
      * apply andb_true_iff in Hc. destruct Hc as [Hc _].
        clear H. inv_tac. fin.
    + exists m1. split; assumption.
  - unfold io_event. destruct (closing s); [exists m; split; [reflexivity|assumption]|].
    destruct (stream_io_A E s m ev H) as (m1 & Hr1 & H1).
    destruct (stream_io E s ev) as [s1 e1]; cbn in *.
    exists m1. split; assumption.
  - exists m. split; [reflexivity|assumption].
Qed.

Lemma exec_A E s m os :
  RelA true s m ->
  exists m', runA m (snd (exec E s os)) = Some m' /\ RelA true (fst (exec E s os)) m'.
Proof.
  revert s m; induction os as [|o os IH]; intros s m H; cbn.
  - exists m. split; [reflexivity|assumption].
  - destruct (op_run_A E s m o H) as (m1 & Hr1 & H1).
    destruct (op_run E s o) as [s1 e1]; cbn in *.
    destruct (IH s1 m1 H1) as (m2 & Hr2 & H2).
    destruct (exec E s1 os) as [s2 e2]; cbn in *.
    exists m2. split; [|assumption]. rewrite (runA_app _ _ _ _ Hr1). cbn. assumption.
Qed.

Definition monA0 : monA := mkA None true false.

Lemma init_RelA pipe is_ipc o : RelA true (init pipe is_ipc o) monA0.
Proof. unfold RelA, Inv; cbn. repeat split; auto; discriminate. Qed.

Theorem monitor_accepts E pipe is_ipc o ops :
  exists m', runA monA0 (snd (exec E (init pipe is_ipc o) ops)) = Some m' /\ a_out m' = None /\
             Inv (fst (exec E (init pipe is_ipc o) ops)).
Proof.
  destruct (exec_A E (init pipe is_ipc o) monA0 ops (init_RelA pipe is_ipc o)) as (m' & Hr & HI & Ho & _).
  exists m'. split; [assumption|split; assumption].
Qed.

(* ---- the three properties the monitor bundles, each as its own checker ---- *)

Lemma runA_paired tr : forall m m',
  runA m tr = Some m' -> a_out m' = None -> paired (a_out m) tr = true.
Proof.
  induction tr as [|e tr IH]; intros m m' H Ho; cbn in H.
  - inversion H; subst. cbn. rewrite Ho. reflexivity.
  - destruct (stepA m e) as [m1|] eqn:Hs; [|discriminate].
    specialize (IH m1 m' H Ho).
    destruct m as [out q d]. destruct e; cbn in Hs |- *.
    + inversion Hs; subst; exact IH.
    + destruct q; [discriminate|]. destruct out; [discriminate|].
      inversion Hs; subst. exact IH.
    + destruct out as [[j cap]|]; [|discriminate].
      destruct (len =? cap); [|discriminate]. inversion Hs; subst. exact IH.
    + destruct q; [discriminate|].
      destruct buf as [i|], out as [[j cap]|]; try discriminate.
      * destruct (Nat.eqb i j); [|discriminate]. destruct (nread <=? cap); [|discriminate].
        cbn in Hs |- *. destruct (if 0 <? nread then len =? nread else true); [|discriminate].
        inversion Hs; subst. exact IH.
      * destruct (nread =? UV_EOF); [|discriminate]. inversion Hs; subst. exact IH.
    + destruct which as [|[|w]].
      * destruct (code =? 0); [destruct d; [discriminate|]|]; inversion Hs; subst; exact IH.
      * inversion Hs; subst; exact IH.
      * inversion Hs; subst; exact IH.
    + inversion Hs; subst; exact IH.
    + inversion Hs; subst; exact IH.
    + discriminate.
Qed.

Lemma runA_silent tr : forall m m',
  runA m tr = Some m' -> silent (a_quiet m) (a_dead m) tr = true.
Proof.
  induction tr as [|e tr IH]; intros m m' H; cbn in H; [reflexivity|].
  destruct (stepA m e) as [m1|] eqn:Hs; [|discriminate].
  specialize (IH m1 m' H).
  destruct m as [out q d]. destruct e; cbn in Hs |- *.
  - inversion Hs; subst; exact IH.
  - destruct q; [discriminate|]. destruct out; [discriminate|].
    inversion Hs; subst. exact IH.
  - destruct out as [[j cap]|]; [|discriminate].
    destruct (len =? cap); [|discriminate]. inversion Hs; subst. exact IH.
  - destruct q; [discriminate|].
    destruct buf as [i|], out as [[j cap]|]; try discriminate.
    + destruct (Nat.eqb i j && (nread <=? cap) && (if 0 <? nread then len =? nread else true));
        [|discriminate].
      inversion Hs; subst. exact IH.
    + destruct (nread =? UV_EOF) eqn:Hn; [|discriminate]. apply Z.eqb_eq in Hn. subst nread.
      inversion Hs; subst. exact IH.
  - destruct which as [|[|w]].
    + destruct (code =? 0); [destruct d; [discriminate|]|]; inversion Hs; subst; exact IH.
    + inversion Hs; subst; exact IH.
    + inversion Hs; subst; exact IH.
  - inversion Hs; subst; exact IH.
  - inversion Hs; subst; exact IH.
  - discriminate.
Qed.

Lemma runA_no_crash tr : forall m m', runA m tr = Some m' -> ~ In ECrash tr.
Proof.
  induction tr as [|e tr IH]; intros m m' H; cbn in H; [intros []|].
  destruct (stepA m e) as [m1|] eqn:Hs; [|discriminate].
  intros [He|Hin]; [subst e; cbn in Hs; discriminate|]. exact (IH m1 m' H Hin).
Qed.

Theorem alloc_paired E pipe is_ipc o ops :
  paired None (snd (exec E (init pipe is_ipc o) ops)) = true.
Proof.
  destruct (monitor_accepts E pipe is_ipc o ops) as (m' & Hr & Ho & _).
  exact (runA_paired _ monA0 m' Hr Ho).
Qed.

Theorem silent_until_restart E pipe is_ipc o ops :
  silent true false (snd (exec E (init pipe is_ipc o) ops)) = true.
Proof.
  destruct (monitor_accepts E pipe is_ipc o ops) as (m' & Hr & _).
  exact (runA_silent _ monA0 m' Hr).
Qed.

Theorem no_null_callback E pipe is_ipc o ops :
  ~ In ECrash (snd (exec E (init pipe is_ipc o) ops)).
Proof.
  destruct (monitor_accepts E pipe is_ipc o ops) as (m' & Hr & _).
  exact (runA_no_crash _ monA0 m' Hr).
Qed.

Theorem state_invariant E pipe is_ipc o ops :
  Inv (fst (exec E (init pipe is_ipc o) ops)).
Proof. destruct (monitor_accepts E pipe is_ipc o ops) as (m' & _ & _ & HI). exact HI. Qed.

(* what [silent] means for UV_EOF: two UV_EOF callbacks are separated by a
   successful uv_read_start *)
Lemma silent_suffix pre : forall q d rest,
  silent q d (pre ++ rest) = true -> exists q' d', silent q' d' rest = true.
Proof.
  induction pre as [|e pre IH]; intros q d rest H; [eauto|].
  cbn [app] in H. destruct e; cbn in H; try (eapply IH; eassumption).
  - apply andb_true_iff in H. destruct H as [_ H]. eapply IH; eassumption.
  - apply andb_true_iff in H. destruct H as [_ H]. eapply IH; eassumption.
  - destruct which as [|[|w]]; try (eapply IH; eassumption).
    destruct (code =? 0); [|eapply IH; eassumption].
    apply andb_true_iff in H. destruct H as [_ H]. eapply IH; eassumption.
Qed.

Lemma silent_needs_start mid : forall d t n b o l post,
  silent true d (mid ++ ERead t n b o l :: post) = true -> In (ERet 0 0) mid.
Proof.
  induction mid as [|e mid IH]; intros d t n b o l post H.
  - cbn in H. discriminate.
  - cbn [app] in H. destruct e; cbn in H; try (right; eapply IH; eassumption); try discriminate.
    destruct which as [|[|w]]; try (right; eapply IH; eassumption).
    destruct (code =? 0) eqn:Hc; [|right; eapply IH; eassumption].
    apply Z.eqb_eq in Hc. subst. left. reflexivity.
Qed.

Theorem eof_once E pipe is_ipc o ops :
  forall pre mid post t1 b1 o1 l1 t2 n2 b2 o2 l2,
  snd (exec E (init pipe is_ipc o) ops) =
    pre ++ ERead t1 UV_EOF b1 o1 l1 :: mid ++ ERead t2 n2 b2 o2 l2 :: post ->
  In (ERet 0 0) mid.
Proof.
  intros pre mid post t1 b1 o1 l1 t2 n2 b2 o2 l2 Htr.
  pose proof (silent_until_restart E pipe is_ipc o ops) as H. rewrite Htr in H.
  apply silent_suffix in H. destruct H as (q' & d' & H). cbn in H.
  apply andb_true_iff in H. destruct H as [_ H].
  eapply silent_needs_start. exact H.
Qed.

(* ------------------------------------------------------------------ *)
(* Part 3: UV_EOF only after all data                                   *)
(* ------------------------------------------------------------------ *)

(* every UV_EOF comes after the kernel said "that was all" *)
Fixpoint eof_ok (strict : bool) (m : monB) (tr : list event) : Prop :=
  match tr with
  | [] => True
  | e :: tr' =>
      match e with ERead _ nread _ _ _ => nread = UV_EOF -> k_fin m = true | _ => True end /\
      eof_ok strict (kstep strict m e) tr'
  end.

Lemma runB_app strict m a b : runB strict m (a ++ b) = runB strict (runB strict m a) b.
Proof. unfold runB. apply fold_left_app. Qed.

Lemma eof_ok_app strict m a b :
  eof_ok strict m a -> eof_ok strict (runB strict m a) b -> eof_ok strict m (a ++ b).
Proof.
  revert m; induction a as [|e a IH]; intros m Ha Hb; cbn in *; [assumption|].
  destruct Ha as [H1 H2]. split; [assumption|]. apply IH; assumption.
Qed.

Lemma rets_B strict m evs : Forall is_ret evs -> runB strict m evs = m /\ eof_ok strict m evs.
Proof.
  induction 1 as [|e evs He _ [IH1 IH2]]; cbn; [split; [reflexivity|exact I]|].
  destruct e; cbn in He; try contradiction. cbn. split; [assumption|]. split; [exact I|assumption].
Qed.

Lemma sys_read_ok o :
  Forall errno_ok o -> errno_ok (fst (sys_read o)) /\ Forall errno_ok (snd (sys_read o)).
Proof.
  induction 1 as [|a o Ha Ho IH]; cbn [sys_read fst snd]; [split; [discriminate|constructor]|].
  destruct a; cbn [sys_read fst snd].
  - exact IH.
  - split; [discriminate|assumption].
  - split; [discriminate|assumption].
  - destruct (Pos.eqb e EINTR); [exact IH|].
    destruct (Pos.eqb e EAGAIN); cbn [fst snd]; (split; [|assumption]); [discriminate|exact Ha].
  - split; [discriminate|assumption].
Qed.

Lemma call_read_cb_pipe E s nread buf off len :
  is_pipe (fst (call_read_cb E s nread buf off len)) = is_pipe s.
Proof.
  unfold call_read_cb. destruct (rcb s); [|reflexivity].
  pose proof (cops_frame (bump_cb s) (beh E (ncb s))) as Hf.
  destruct (cops (bump_cb s) (beh E (ncb s))) as [s1 evs]; cbn in *.
  destruct Hf as (_ & _ & _ & _ & _ & _ & Hp). exact Hp.
Qed.

Lemma call_read_cb_B strict E s m nread buf off len :
  (nread = UV_EOF -> k_fin m = true) ->
  let '(s', evs) := call_read_cb E s nread buf off len in
  runB strict m evs = m /\ eof_ok strict m evs /\ oracle s' = oracle s /\ partial s' = partial s /\
  is_pipe s' = is_pipe s.
Proof.
  intros Hn. pose proof (call_read_cb_shape E s nread buf off len) as H.
  pose proof (call_read_cb_pipe E s nread buf off len) as Hpp.
  destruct (call_read_cb E s nread buf off len) as [s' evs]. cbn [fst] in Hpp.
  destruct H as (_ & Ho & Hp & _ & H).
  destruct (rcb s) as [tok|].
  - destruct H as (rets & -> & Hq). destruct (rets_B strict m rets Hq) as [Hr He].
    cbn. repeat split; assumption.
  - subst evs. cbn. repeat split; assumption.
Qed.

Lemma stream_eof_B strict E s m buf :
  k_fin m = true ->
  let '(s', evs) := stream_eof E s buf in
  runB strict m evs = m /\ eof_ok strict m evs /\ oracle s' = oracle s /\ partial s' = partial s /\
  is_pipe s' = is_pipe s.
Proof.
  intros Hf. unfold stream_eof.
  match goal with |- context [call_read_cb E ?s1 _ _ _ _] =>
    pose proof (call_read_cb_B strict E s1 m UV_EOF buf 0 0 (fun _ => Hf)) as H;
    destruct (call_read_cb E s1 UV_EOF buf 0 0) as [s' evs] end.
  exact H.
Qed.

(* facts about one step of the chain, m' being the kernel-side state afterwards *)
Definition stepB_ok (s s' : st) (m m' : monB) : Prop :=
  k_hup m' = k_hup m /\ (k_fin m = true -> k_fin m' = true) /\
  Forall errno_ok (oracle s') /\ is_pipe s' = is_pipe s.

(* The chain is proved for [strict] = true on any stream and for [strict] = false on
   pipes: there READ_PARTIAL is never set (commit 34f0ffa), so the short-cut is dead. *)
Lemma read_iter_B strict E s m :
  strict = true \/ is_pipe s = true ->
  Forall errno_ok (oracle s) ->
  let '(s', evs, go) := read_iter E s in
  eof_ok strict m evs /\ stepB_ok s s' m (runB strict m evs) /\
  (partial s' = true -> partial s = true \/ (k_hup m = true -> k_fin (runB strict m evs) = true)).
Proof.
  intros Hsp Ho. unfold read_iter, stepB_ok.
  set (b := allocs E (nalloc s)).
  destruct (refuses b) eqn:Hrf.
  - pose proof (call_read_cb_B strict E (bump_alloc s) m UV_ENOBUFS (Some (nalloc s)) 0 0) as H.
    destruct (call_read_cb E (bump_alloc s) UV_ENOBUFS (Some (nalloc s)) 0 0) as [s2 evs].
    destruct H as (Hr & He & Hor & Hp & Hpp); [intros Hx; discriminate Hx|].
    cbn [eof_ok runB fold_left kstep]. fold (runB strict m evs). rewrite Hr.
    cbn in Hor, Hp, Hpp. rewrite Hor, Hp, Hpp. repeat split; auto.
  - cbn [oracle bump_alloc].
    pose proof (sys_read_ok (oracle s) Ho) as [Ha Ho'].
    destruct (sys_read (oracle s)) as [a o']. cbn [fst snd] in Ha, Ho'.
    destruct a as [| | |e|n].
    + destruct (reading (set_kernel (bump_alloc s) (pos (bump_alloc s)) o'));
      (match goal with |- context [call_read_cb E ?s3 0 ?bf 0 0] =>
         pose proof (call_read_cb_B strict E s3 m 0 bf 0 0) as H;
         destruct (call_read_cb E s3 0 bf 0 0) as [s4 evs] end;
       destruct H as (Hr & He & Hor & Hp & Hpp); [intros Hx; discriminate Hx|];
       cbn [eof_ok runB fold_left kstep]; fold (runB strict m evs); rewrite Hr;
       cbn in Hor, Hp, Hpp; rewrite Hor, Hp, Hpp; repeat split; auto).
    + destruct (reading (set_kernel (bump_alloc s) (pos (bump_alloc s)) o'));
      (match goal with |- context [call_read_cb E ?s3 0 ?bf 0 0] =>
         pose proof (call_read_cb_B strict E s3 m 0 bf 0 0) as H;
         destruct (call_read_cb E s3 0 bf 0 0) as [s4 evs] end;
       destruct H as (Hr & He & Hor & Hp & Hpp); [intros Hx; discriminate Hx|];
       cbn [eof_ok runB fold_left kstep]; fold (runB strict m evs); rewrite Hr;
       cbn in Hor, Hp, Hpp; rewrite Hor, Hp, Hpp; repeat split; auto).
    + (* Eof *)
      match goal with |- context [stream_eof E ?s2 ?bf] =>
        pose proof (stream_eof_B strict E s2 (mkB (k_hup m) true) bf eq_refl) as H;
        destruct (stream_eof E s2 bf) as [s3 evs] end.
      destruct H as (Hr & He & Hor & Hp & Hpp).
      cbn [eof_ok runB fold_left kstep]. fold (runB strict (mkB (k_hup m) true) evs). rewrite Hr.
      cbn in Hor, Hp, Hpp. rewrite Hor, Hp, Hpp. cbn. repeat split; auto.
    + (* Err e *)
      match goal with |- context [call_read_cb E ?s2 (Zneg e) ?bf 0 0] =>
        pose proof (call_read_cb_B strict E s2 m (Zneg e) bf 0 0) as H;
        destruct (call_read_cb E s2 (Zneg e) bf 0 0) as [s3 evs] end.
      destruct H as (Hr & He & Hor & Hp & Hpp).
      { intros Hx. exfalso. apply Ha. unfold UV_EOF in Hx. inversion Hx. reflexivity. }
      cbn [eof_ok runB fold_left kstep]. fold (runB strict m evs). rewrite Hr.
      cbn in Hor, Hp, Hpp.
      assert (Hs4 : oracle (if reading s3 then stop_reading s3 else s3) = o' /\
                    partial (if reading s3 then stop_reading s3 else s3) = partial s /\
                    is_pipe (if reading s3 then stop_reading s3 else s3) = is_pipe s).
      { destruct (reading s3); cbn; repeat split; assumption. }
      destruct Hs4 as (-> & -> & ->). repeat split; auto.
    + (* Data *)
      set (nread := Z.max 1 (Z.min n (b_len b))).
      assert (Hne : nread = UV_EOF -> False) by (unfold nread, UV_EOF; lia).
      destruct (nread <? b_len b) eqn:Hshort.
      * set (m1 := mkB (k_hup m) (k_fin m || (strict && k_hup m && true))).
        match goal with |- context [call_read_cb E ?s2 nread ?bf ?off nread] =>
          pose proof (call_read_cb_B strict E s2 m1 nread bf off nread) as H;
          destruct (call_read_cb E s2 nread bf off nread) as [s3 evs] end.
        destruct H as (Hr & He & Hor & Hp & Hpp); [intros Hx; destruct (Hne Hx)|].
        cbn in Hor, Hp, Hpp.
        assert (Hfm : k_fin m = true -> k_fin m1 = true) by (unfold m1; cbn; intros ->; reflexivity).
        destruct (is_pipe s3) eqn:Hp3;
          cbn [eof_ok runB fold_left kstep]; rewrite Hshort; fold m1; fold (runB strict m1 evs);
          rewrite Hr; cbn [partial set_partial set_flags oracle is_pipe]; rewrite ?Hor.
        -- repeat split; auto; try congruence. intros Hx. left. congruence.
        -- assert (strict = true) by (destruct Hsp as [Hx|Hx]; [exact Hx|congruence]). subst strict.
           repeat split; auto; try congruence.
           intros _. right. intros Hh. unfold m1; cbn. rewrite Hh. cbn. apply orb_true_r.
      * set (m1 := mkB (k_hup m) (k_fin m || (strict && k_hup m && false))).
        match goal with |- context [call_read_cb E ?s2 nread ?bf ?off nread] =>
          pose proof (call_read_cb_B strict E s2 m1 nread bf off nread) as H;
          destruct (call_read_cb E s2 nread bf off nread) as [s3 evs] end.
        destruct H as (Hr & He & Hor & Hp & Hpp); [intros Hx; destruct (Hne Hx)|].
        cbn in Hor, Hp, Hpp.
        cbn [eof_ok runB fold_left kstep]. rewrite Hshort. fold m1. fold (runB strict m1 evs).
        rewrite Hr. cbn [k_hup k_fin]. rewrite Hor, Hp, Hpp.
        repeat split; auto.
        unfold m1; cbn. intros ->. reflexivity.
Qed.

Lemma read_loop_B strict E c : forall s m,
  strict = true \/ is_pipe s = true ->
  Forall errno_ok (oracle s) ->
  let '(s', evs) := read_loop E c s in
  eof_ok strict m evs /\ stepB_ok s s' m (runB strict m evs) /\
  (partial s' = true -> partial s = true \/ (k_hup m = true -> k_fin (runB strict m evs) = true)).
Proof.
  induction c as [|c IH]; intros s m Hsp Ho; cbn [read_loop].
  - cbn. unfold stepB_ok. repeat split; auto.
  - destruct (loop_cond s); cbn [negb].
    2:{ cbn. unfold stepB_ok. repeat split; auto. }
    pose proof (read_iter_B strict E s m Hsp Ho) as H1.
    destruct (read_iter E s) as [[s1 e1] go]. destruct H1 as (He1 & (Hh1 & Hf1 & Ho1 & Hq1) & Hp1).
    destruct go; [|unfold stepB_ok; repeat split; auto].
    assert (Hsp1 : strict = true \/ is_pipe s1 = true) by (rewrite Hq1; exact Hsp).
    specialize (IH s1 (runB strict m e1) Hsp1 Ho1).
    destruct (read_loop E c s1) as [s2 e2]. destruct IH as (He2 & (Hh2 & Hf2 & Ho2 & Hq2) & Hp2).
    rewrite runB_app. split; [apply eof_ok_app; assumption|].
    split; [unfold stepB_ok; repeat split; [congruence|auto|assumption|congruence]|].
    intros Hp. destruct (Hp2 Hp) as [Hx|Hx].
    + destruct (Hp1 Hx) as [Hy|Hy]; [left; assumption|right; intros Hh; auto].
    + right. intros Hh. apply Hx. congruence.
Qed.

Lemma has_sub ev : has ev (Z.lor POLLIN (Z.lor POLLERR POLLHUP)) = false -> has ev POLLHUP = false.
Proof.
  unfold has. change (Z.lor POLLIN (Z.lor POLLERR POLLHUP)) with 25. change POLLHUP with 16.
  intros H. apply negb_false_iff in H. apply Z.eqb_eq in H.
  replace (Z.land ev 16) with (Z.land (Z.land ev 25) 16) by (rewrite <- Z.land_assoc; reflexivity).
  rewrite H. reflexivity.
Qed.

Lemma stream_io_B strict E s m ev :
  strict = true \/ is_pipe s = true ->
  Forall errno_ok (oracle s) -> k_hup m = has ev POLLHUP ->
  let '(s', evs) := stream_io E s ev in
  eof_ok strict m evs /\ stepB_ok s s' m (runB strict m evs).
Proof.
  intros Hsp Ho Hh. unfold stream_io.
  assert (H1 : let '(s1, e1) := (if has ev (Z.lor POLLIN (Z.lor POLLERR POLLHUP)) then uv_read E s else (s, [])) in
     eof_ok strict m e1 /\ stepB_ok s s1 m (runB strict m e1) /\
     (partial s1 = true -> has ev POLLHUP = true -> k_fin (runB strict m e1) = true)).
  { destruct (has ev (Z.lor POLLIN (Z.lor POLLERR POLLHUP))) eqn:Hany.
    - unfold uv_read. pose proof (read_loop_B strict E 32 (set_partial s false) m Hsp Ho) as H.
      destruct (read_loop E 32 (set_partial s false)) as [s1 e1]. destruct H as (He & Hs & Hp).
      split; [assumption|]. split; [exact Hs|].
      intros Hp1 Hhup. destruct (Hp Hp1) as [Hx|Hx]; [cbn in Hx; discriminate|].
      apply Hx. congruence.
    - cbn. unfold stepB_ok. repeat split; auto.
      intros _ Hhup. rewrite (has_sub ev Hany) in Hhup. discriminate. }
  destruct (if has ev (Z.lor POLLIN (Z.lor POLLERR POLLHUP)) then uv_read E s else (s, [])) as [s1 e1].
  destruct H1 as (He1 & (Hh1 & Hf1 & Ho1 & Hq1) & Hp1).
  destruct (closing s1); [split; [assumption|unfold stepB_ok; auto]|].
  destruct (has ev POLLHUP && reading s1 && partial s1 && negb (eof s1)) eqn:Hcond;
    [|split; [assumption|unfold stepB_ok; auto]].
  apply andb_true_iff in Hcond. destruct Hcond as [Hcond _].
  apply andb_true_iff in Hcond. destruct Hcond as [Hcond Hpar].
  apply andb_true_iff in Hcond. destruct Hcond as [Hhup _].
  pose proof (stream_eof_B strict E s1 (runB strict m e1) None (Hp1 Hpar Hhup)) as H2.
  destruct (stream_eof E s1 None) as [s2 e2]. destruct H2 as (Hr2 & He2 & Hor2 & _ & Hq2).
  rewrite runB_app, Hr2. split; [apply eof_ok_app; assumption|].
  unfold stepB_ok. rewrite Hor2, Hq2. auto.
Qed.

Lemma has_hup_filter raw pev :
  Z.land pev 16 = 0 ->
  has (Z.land raw (Z.lor pev (Z.lor POLLERR POLLHUP))) POLLHUP = has raw POLLHUP.
Proof.
  intros Hp. unfold has. change (Z.lor POLLERR POLLHUP) with 24. change POLLHUP with 16.
  rewrite <- Z.land_assoc, Z.land_lor_distr_l, Hp. reflexivity.
Qed.

Lemma has_hup_merge x k : Z.land k 16 = 0 -> has (Z.lor x k) POLLHUP = has x POLLHUP.
Proof.
  intros Hk. unfold has. change POLLHUP with 16.
  rewrite Z.land_lor_distr_l, Hk, Z.lor_0_r. reflexivity.
Qed.

Lemma io_poll_B strict E s m raw wout :
  strict = true \/ is_pipe s = true ->
  Forall errno_ok (oracle s) -> k_hup m = has raw POLLHUP ->
  let '(s', evs) := io_poll E s raw wout in
  eof_ok strict m evs /\ stepB_ok s s' m (runB strict m evs).
Proof.
  intros Hsp Ho Hh. unfold io_poll.
  assert (Hnop : eof_ok strict m [] /\ stepB_ok s s m (runB strict m []))
    by (cbn; unfold stepB_ok; auto).
  destruct (raw =? 0); [exact Hnop|].
  set (pev := if closing s then 0
              else Z.lor (if pollin s then POLLIN else 0) (if wout then POLLOUT else 0)).
  assert (Hpev : Z.land pev 16 = 0).
  { unfold pev. destruct (closing s), (pollin s), wout; reflexivity. }
  destruct (pev =? 0); [exact Hnop|].
  match goal with |- context [if ?c =? 0 then _ else stream_io E s ?p] =>
    destruct (c =? 0); [exact Hnop|]; apply (stream_io_B strict E s m p Hsp Ho) end.
  rewrite Hh.
  destruct ((Z.land raw (Z.lor pev (Z.lor POLLERR POLLHUP)) =? POLLERR)
            || (Z.land raw (Z.lor pev (Z.lor POLLERR POLLHUP)) =? POLLHUP)).
  - rewrite has_hup_merge.
    + symmetry. apply has_hup_filter. exact Hpev.
    + rewrite <- Z.land_assoc. change (Z.land (Z.lor POLLIN (Z.lor POLLOUT (Z.lor POLLRDHUP POLLPRI))) 16) with 0.
      apply Z.land_0_r.
  - symmetry. apply has_hup_filter. exact Hpev.
Qed.

Lemma kstep_fin_mono strict m e : k_fin m = true -> k_fin (kstep strict m e) = true.
Proof.
  intros H. destruct e; cbn; try assumption. destruct a; cbn; try assumption; try reflexivity.
  rewrite H. reflexivity.
Qed.

Lemma op_run_B strict E s m o :
  strict = true \/ is_pipe s = true ->
  Forall errno_ok (oracle s) ->
  let '(s', evs) := op_run E s o in
  eof_ok strict m evs /\ Forall errno_ok (oracle s') /\ is_pipe s' = is_pipe s.
Proof.
  intros Hsp Ho.
  assert (Hcop : forall c, let '(s', evs) := cop_run s c in
            eof_ok strict m evs /\ Forall errno_ok (oracle s') /\ is_pipe s' = is_pipe s).
  { intros c. pose proof (cop_run_rets s c) as Hq. pose proof (cop_run_frame s c) as Hf.
    destruct (cop_run s c) as [s' evs]; cbn in *.
    destruct (rets_B strict m evs Hq) as [_ He]. destruct Hf as (_ & Hor & _ & _ & _ & _ & Hpp).
    split; [assumption|]. rewrite Hor. split; assumption. }
  destruct o as [tok| | |raw wout|ev|]; cbn [op_run]; try apply Hcop.
  - unfold run_once.
    pose proof (io_poll_B strict E s (mkB (has raw POLLHUP) (k_fin m)) raw wout Hsp Ho eq_refl) as H.
    destruct (io_poll E s raw wout) as [s1 e1]. destruct H as (He & _ & _ & Ho1 & Hq1).
    destruct (closing s1 && negb (closed s1)); cbn [eof_ok kstep oracle set_closed is_pipe].
    + split; [|split; assumption]. split; [exact I|].
      apply eof_ok_app; [assumption|]. cbn. auto.
    + split; [|split; assumption]. split; [exact I|assumption].
  - unfold io_event. destruct (closing s); [cbn; auto|].
    pose proof (stream_io_B strict E s (mkB (has ev POLLHUP) (k_fin m)) ev Hsp Ho eq_refl) as H.
    destruct (stream_io E s ev) as [s1 e1]. destruct H as (He & _ & _ & Ho1 & Hq1).
    cbn [eof_ok kstep]. split; [|split; assumption]. split; [exact I|assumption].
  - cbn. auto.
Qed.

Lemma exec_B strict E os : forall s m,
  strict = true \/ is_pipe s = true ->
  Forall errno_ok (oracle s) -> eof_ok strict m (snd (exec E s os)).
Proof.
  induction os as [|o os IH]; intros s m Hsp Ho; cbn; [exact I|].
  pose proof (op_run_B strict E s m o Hsp Ho) as H.
  destruct (op_run E s o) as [s1 e1]. destruct H as (He & Ho1 & Hq1).
  assert (Hsp1 : strict = true \/ is_pipe s1 = true) by (rewrite Hq1; exact Hsp).
  specialize (IH s1). destruct (exec E s1 os) as [s2 e2]; cbn in *.
  apply eof_ok_app; [assumption|]. cbn. split; [exact I|]. apply IH; assumption.
Qed.

Lemma fin_no_data strict tr : forall m,
  k_fin m = true -> kernel_ok strict m tr -> forall l n o, ~ In (ESys l (Data n) o) tr.
Proof.
  induction tr as [|e tr IH]; intros m Hf Hk l n o Hin; [destruct Hin|].
  cbn in Hk. destruct Hk as [Hh Ht]. destruct Hin as [->|Hin].
  - rewrite Hf in Hh. discriminate.
  - exact (IH _ (kstep_fin_mono strict m e Hf) Ht l n o Hin).
Qed.

Lemma eof_ok_data strict tr : forall m,
  eof_ok strict m tr -> kernel_ok strict m tr -> eof_after_all_data tr.
Proof.
  induction tr as [|e tr IH]; intros m He Hk pre post tok buf off len Htr.
  - destruct pre; discriminate.
  - cbn in He, Hk. destruct He as [He1 He2]. destruct Hk as [Hk1 Hk2].
    destruct pre as [|e' pre]; cbn in Htr; inversion Htr; subst.
    + cbn in *. apply (fin_no_data strict post m (He1 eq_refl) Hk2).
    + exact (IH _ He2 Hk2 pre post tok buf off len eq_refl).
Qed.

(* any stream, with the "short read under EPOLLHUP = empty buffer" hypothesis *)
Theorem eof_once_after_data E pipe is_ipc o ops :
  Forall errno_ok o ->
  let tr := snd (exec E (init pipe is_ipc o) ops) in
  kernel_ok true monB0 tr -> eof_after_all_data tr.
Proof.
  intros Ho tr Hk. apply (eof_ok_data true tr monB0); [|assumption].
  apply exec_B; [left; reflexivity|exact Ho].
Qed.

(* pipes (ipc or not): without it *)
Theorem eof_once_after_data_pipe E is_ipc o ops :
  Forall errno_ok o ->
  let tr := snd (exec E (init true is_ipc o) ops) in
  kernel_ok false monB0 tr -> eof_after_all_data tr.
Proof.
  intros Ho tr Hk. apply (eof_ok_data false tr monB0); [|assumption].
  apply exec_B; [right; reflexivity|exact Ho].
Qed.

(* ---- without "short read = empty buffer" the short-cut is unsound: history of
   item 20 (pipes behaved like this before commit 34f0ffa) and the reason the
   hypothesis stays for non-pipe streams ---- *)

Lemma eof_after_all_data_tail e tr : eof_after_all_data (e :: tr) -> eof_after_all_data tr.
Proof.
  intros H pre post tok buf off len Htr. apply (H (e :: pre) post tok buf off len).
  cbn. rewrite Htr. reflexivity.
Qed.

Lemma eof_after_all_data_b tr : eof_after_all_data tr -> eof_data_b tr = true.
Proof.
  induction tr as [|e tr IH]; intros H; [reflexivity|].
  specialize (IH (eof_after_all_data_tail e tr H)).
  destruct e; cbn; try assumption.
  rewrite IH, andb_true_r.
  destruct (nread =? UV_EOF) eqn:Hn; [|reflexivity].
  apply Z.eqb_eq in Hn. subst nread.
  apply forallb_forall. intros x Hx.
  destruct x; try reflexivity. destruct a; try reflexivity.
  exfalso. exact (H [] tr tok buf off len eq_refl _ _ _ Hx).
Qed.

(* peer: "A" + descriptor, "BBBB", close.  recvmsg stops behind the message
   that carried the descriptor (1 byte), epoll reports POLLIN|POLLHUP. *)
Definition wit_env : env := mkEnv (fun _ => mkBuf true 65536) (fun _ => []).
Definition wit_oracle : list ans := [Data 1; Data 4; Eof].
Definition wit_ops : list op := [OStart 1; ORun 17 false; OStart 2; ORun 17 false].

Lemma shortcut_premature_eof :
  let tr := snd (exec wit_env (init false false wit_oracle) wit_ops) in
  Forall errno_ok wit_oracle /\ kernel_ok false monB0 tr /\ ~ eof_after_all_data tr /\
  delivered tr = [(0, 1); (1, 4)].
Proof.
  split; [repeat constructor; discriminate|].
  split; [vm_compute; repeat split|].
  split; [|vm_compute; reflexivity].
  intros H. apply eof_after_all_data_b in H. vm_compute in H. discriminate.
Qed.

(* the hypotheses of eof_once_after_data are satisfiable on a run that ends in
   the short-cut EOF: 5 bytes, closed peer, one 64-byte buffer *)
Lemma eof_hypotheses_satisfiable :
  let tr := snd (exec (mkEnv (fun _ => mkBuf true 64) (fun _ => [])) (init false false [Data 5])
                      [OStart 1; ORun 17 false; ORun 17 false]) in
  kernel_ok true monB0 tr /\ In (ERead 1 UV_EOF None 0 0) tr /\ delivered tr = [(0, 5)].
Proof.
  split; [vm_compute; repeat split|].
  split; vm_compute; [|reflexivity]. intuition.
Qed.

(* ------------------------------------------------------------------ *)
(* The extracted monitor accepts every trace of the model               *)
(* ------------------------------------------------------------------ *)
Lemma chunks_eqb_refl l : chunks_eqb l l = true.
Proof. induction l as [|[o n] l IH]; cbn; [reflexivity|]. rewrite !Z.eqb_refl, IH. reflexivity. Qed.

Lemma chain_chain_b l : forall p q, chain p l q -> chain_b p l = true.
Proof.
  induction l as [|[off len] l IH]; intros p q H; cbn in *; [reflexivity|].
  destruct H as (-> & Hl & H). rewrite Z.eqb_refl, (IH _ _ H).
  replace (0 <? len) with true by (symmetry; apply Z.ltb_lt; assumption). reflexivity.
Qed.

Theorem monitor_model E pipe is_ipc o ops :
  monitor (snd (exec E (init pipe is_ipc o) ops)) = (true, true, true, true).
Proof.
  unfold monitor.
  pose proof (stream_exact unit (fun _ => tt) E pipe is_ipc o ops) as H.
  pose proof (alloc_paired E pipe is_ipc o ops) as Hp.
  pose proof (silent_until_restart E pipe is_ipc o ops) as Hs.
  pose proof (no_null_callback E pipe is_ipc o ops) as Hc.
  destruct (exec E (init pipe is_ipc o) ops) as [s' tr]; cbn [snd] in *.
  destruct H as (Hd & Hch & _).
  assert (He : exact_b tr = true).
  { unfold exact_b. rewrite Hd, chunks_eqb_refl, (chain_chain_b _ _ _ Hch). reflexivity. }
  assert (Hn : no_crash_b tr = true).
  { apply forallb_forall. intros e Hin. destruct e; try reflexivity. contradiction. }
  rewrite He, Hp, Hs, Hn. reflexivity.
Qed.

(* ------------------------------------------------------------------ *)
(* The 32-iteration budget: one wake-up makes at most 32 alloc/read      *)
(* rounds (plus, possibly, the buffer-less short-cut UV_EOF)             *)
(* ------------------------------------------------------------------ *)
Definition is_alloc (e : event) : bool := match e with EAlloc _ _ _ => true | _ => false end.
Definition nallocs (evs : list event) : nat := length (filter is_alloc evs).

Lemma nallocs_app a b : nallocs (a ++ b) = (nallocs a + nallocs b)%nat.
Proof. unfold nallocs. rewrite filter_app, app_length. reflexivity. Qed.

Lemma rets_no_alloc evs : Forall is_ret evs -> nallocs evs = O.
Proof.
  induction 1 as [|e evs He _ IH]; [reflexivity|].
  destruct e; cbn in He; try contradiction. exact IH.
Qed.

Lemma call_read_cb_no_alloc E s nread buf off len :
  nallocs (snd (call_read_cb E s nread buf off len)) = O.
Proof.
  pose proof (call_read_cb_shape E s nread buf off len) as H.
  destruct (call_read_cb E s nread buf off len) as [s' evs]. destruct H as (_ & _ & _ & _ & H).
  cbn [snd]. destruct (rcb s).
  - destruct H as (rets & -> & Hq). unfold nallocs. cbn. exact (rets_no_alloc rets Hq).
  - subst. reflexivity.
Qed.

Lemma stream_eof_no_alloc E s buf : nallocs (snd (stream_eof E s buf)) = O.
Proof. unfold stream_eof. apply call_read_cb_no_alloc. Qed.

Lemma read_iter_one_alloc E s : nallocs (snd (fst (read_iter E s))) = 1%nat.
Proof.
  unfold read_iter.
  destruct (refuses (allocs E (nalloc s))).
  - match goal with |- context [call_read_cb ?a ?b ?c ?d ?e ?f] =>
      pose proof (call_read_cb_no_alloc a b c d e f) as H; destruct (call_read_cb a b c d e f) end.
    cbn in *. unfold nallocs in *. cbn. rewrite H. reflexivity.
  - destruct (sys_read (oracle (bump_alloc s))) as [a o']. destruct a.
    + match goal with |- context [call_read_cb ?a ?b ?c ?d ?e ?f] =>
        pose proof (call_read_cb_no_alloc a b c d e f) as H; destruct (call_read_cb a b c d e f) end.
      cbn in *. unfold nallocs in *. cbn. rewrite H. reflexivity.
    + match goal with |- context [call_read_cb ?a ?b ?c ?d ?e ?f] =>
        pose proof (call_read_cb_no_alloc a b c d e f) as H; destruct (call_read_cb a b c d e f) end.
      cbn in *. unfold nallocs in *. cbn. rewrite H. reflexivity.
    + match goal with |- context [stream_eof ?a ?b ?c] =>
        pose proof (stream_eof_no_alloc a b c) as H; destruct (stream_eof a b c) end.
      cbn in *. unfold nallocs in *. cbn. rewrite H. reflexivity.
    + match goal with |- context [call_read_cb ?a ?b ?c ?d ?e ?f] =>
        pose proof (call_read_cb_no_alloc a b c d e f) as H; destruct (call_read_cb a b c d e f) end.
      cbn in *. unfold nallocs in *. cbn. rewrite H. reflexivity.
    + match goal with |- context [call_read_cb ?a ?b ?c ?d ?e ?f] =>
        pose proof (call_read_cb_no_alloc a b c d e f) as H; destruct (call_read_cb a b c d e f) end.
      cbn in *. unfold nallocs in *.
      match goal with |- context [if ?c then _ else _] => destruct c end; cbn; rewrite H; reflexivity.
Qed.

Lemma read_loop_budget E c : forall s, (nallocs (snd (read_loop E c s)) <= c)%nat.
Proof.
  induction c as [|c IH]; intros s; cbn [read_loop]; [cbn; lia|].
  destruct (loop_cond s); cbn [negb]; [|cbn; lia].
  pose proof (read_iter_one_alloc E s) as H1.
  destruct (read_iter E s) as [[s1 e1] go]; cbn [fst snd] in H1.
  destruct go; [|cbn [snd]; lia].
  specialize (IH s1). destruct (read_loop E c s1) as [s2 e2]; cbn [snd] in *.
  rewrite nallocs_app. lia.
Qed.

Lemma stream_io_budget E s ev : (nallocs (snd (stream_io E s ev)) <= 32)%nat.
Proof.
  unfold stream_io.
  assert (H1 : (nallocs (snd (if has ev (Z.lor POLLIN (Z.lor POLLERR POLLHUP)) then uv_read E s else (s, []))) <= 32)%nat).
  { destruct (has ev _); [|cbn; lia]. unfold uv_read. apply read_loop_budget. }
  destruct (if has ev (Z.lor POLLIN (Z.lor POLLERR POLLHUP)) then uv_read E s else (s, [])) as [s1 e1].
  cbn [snd] in H1.
  destruct (closing s1); [exact H1|].
  destruct (has ev POLLHUP && reading s1 && partial s1 && negb (eof s1)); [|exact H1].
  pose proof (stream_eof_no_alloc E s1 None) as H2.
  destruct (stream_eof E s1 None) as [s2 e2]; cbn [snd] in *.
  rewrite nallocs_app. lia.
Qed.

Theorem budget E s o : (nallocs (snd (op_run E s o)) <= 32)%nat.
Proof.
  assert (Hcop : forall c, (nallocs (snd (cop_run s c)) <= 32)%nat).
  { intros c. rewrite (rets_no_alloc _ (cop_run_rets s c)). lia. }
  destruct o as [tok| | |raw wout|ev|]; cbn [op_run]; try apply Hcop.
  - unfold run_once.
    assert (H : (nallocs (snd (io_poll E s raw wout)) <= 32)%nat).
    { unfold io_poll.
      destruct (raw =? 0); [cbn; lia|].
      match goal with |- context [if ?pv =? 0 then (s, []) else _] => destruct (pv =? 0); [cbn; lia|] end.
      match goal with |- context [if ?c =? 0 then _ else stream_io E s ?p] =>
        destruct (c =? 0); [cbn; lia|apply stream_io_budget] end. }
    destruct (io_poll E s raw wout) as [s1 e1]; cbn [snd] in H.
    destruct (closing s1 && negb (closed s1)); cbn [snd].
    + change (EPoll raw :: e1 ++ [ECloseCb]) with ([EPoll raw] ++ e1 ++ [ECloseCb]).
      rewrite !nallocs_app. cbn. lia.
    + change (EPoll raw :: e1) with ([EPoll raw] ++ e1). rewrite nallocs_app. cbn. lia.
  - unfold io_event. destruct (closing s); [cbn; lia|].
    pose proof (stream_io_budget E s ev) as H.
    destruct (stream_io E s ev) as [s1 e1]; cbn [snd] in *.
    change (EPoll ev :: e1) with ([EPoll ev] ++ e1). rewrite nallocs_app. cbn. lia.
  - cbn. lia.
Qed.

(* item 20 on the repaired code: the same kernel answers on an IPC pipe now give
   "A", "BBBB", then one UV_EOF carrying the buffer of the read that returned 0 *)
Lemma item20_repaired :
  let tr := snd (exec wit_env (init true true wit_oracle)
                      [OStart 1; ORun 17 false; ORun 17 false; ORun 17 false; ORun 17 false]) in
  kernel_ok false monB0 tr /\
  delivered tr = [(0, 1); (1, 4)] /\
  filter (fun e => match e with ERead _ n _ _ _ => n =? UV_EOF | _ => false end) tr =
    [ERead 1 UV_EOF (Some 2%nat) 0 0] /\
  eof_data_b tr = true.
Proof. vm_compute. repeat split. Qed.

(* the scenario C06_silent_until_restart must cover: UV_EOF, then the handle stays
   polled for POLLOUT and the peer resets (POLLOUT|POLLERR|POLLHUP): uv__stream_io
   enters uv__read, read_cb is still set, READING is clear -> no callback *)
Lemma polled_after_eof_is_silent :
  let tr := snd (exec wit_env (init true false [Data 3; Eof; Data 9])
                      [OStart 1; ORun 1 false; ORun 17 false; ORun 28 true; OIo 25; ORun 28 true]) in
  filter (fun e => match e with ERead _ _ _ _ _ | EAlloc _ _ _ => true | _ => false end) tr =
    [EAlloc 0 65536 (mkBuf true 65536); ERead 1 3 (Some 0%nat) 0 3;
     EAlloc 1 65536 (mkBuf true 65536); ERead 1 UV_EOF (Some 1%nat) 0 0].
Proof. vm_compute. reflexivity. Qed.
