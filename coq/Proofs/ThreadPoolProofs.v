(* C08: the theorems about Model/ThreadPool.v, derived from the invariants InvA (places,
   ThreadPoolProofsA.v), InvB (marker and counters, ThreadPoolProofsB.v) and InvC (progress,
   ThreadPoolProofsC.v), which hold in every reachable state. *)
From UV Require Import Lib.Base Model.ThreadPool Proofs.ThreadPoolDefs
  Proofs.ThreadPoolProofsA Proofs.ThreadPoolProofsB Proofs.ThreadPoolProofsC Proofs.ThreadPoolProofsN.

Lemma reachable_run c progs sched : reachable c progs (run c (init c progs) sched).
Proof. exists sched. reflexivity. Qed.

(* ---- work at most once, on a pool thread ---- *)
Lemma work_at_most_once_on_pool c progs sched r :
  let s := run c (init c progs) sched in
  nwork r (trace s) <= 1 /\
  forall t, In (EWork r t) (trace s) -> c_loops c <= t < c_loops c + c_n c.
Proof.
  intros s. pose proof (invA_reachable c progs s (reachable_run c progs sched)) as HA. split.
  - rewrite (a_nwork c s HA). unfold nwork_expected.
    destruct (r_st (reqs s r)); try lia. destruct (Z.eqb status 0); lia.
  - intros t. apply (a_work_ev c s HA).
Qed.

(* ---- completion callback at most once, on the loop of the request, after the work ---- *)
Lemma done_safety c progs sched r :
  let s := run c (init c progs) sched in
  ndone r (trace s) <= 1 /\
  ordered (trace s) /\
  (forall t st, In (EDone r t st) (trace s) ->
     t = r_loop (reqs s r) /\ (st = 0%Z \/ st = UV_ECANCELED) /\
     (st = 0%Z -> nwork r (trace s) = 1) /\ (st = UV_ECANCELED -> nwork r (trace s) = 0)).
Proof.
  intros s. pose proof (invA_reachable c progs s (reachable_run c progs sched)) as HA.
  split; [|split].
  - rewrite (a_ndone c s HA). unfold ndone_expected. destruct (r_st (reqs s r)); lia.
  - apply (a_ordered c s HA).
  - intros t st Hin. destruct (a_done_ev c s HA r t st Hin) as [Hst Ht].
    split; [exact Ht|]. pose proof (a_work c s HA r) as W. unfold work_matches in W. rewrite Hst in W.
    rewrite (a_nwork c s HA r), Hst. cbn [nwork_expected].
    destruct W as [[-> _] | [-> _]]; cbn; intuition; discriminate.
Qed.

(* ---- in a state where nobody can move, every request had its callback ---- *)
Lemma done_exactly_once_terminal c progs sched r :
  let s := run c (init c progs) sched in
  1 <= c_n c ->
  (forall t, step c s t 0 = None) ->
  r < nreq s ->
  ndone r (trace s) = 1 /\ exists st, r_st (reqs s r) = Done st.
Proof.
  intros s Hn Hterm Hlt.
  pose proof (reachable_run c progs sched) as Hr. fold s in Hr.
  pose proof (invA_reachable c progs s Hr) as HA.
  pose proof (allsub_reachable c progs s Hr r Hlt) as Hfree.
  destruct (unf_st (r_st (reqs s r))) eqn:Hu.
  - destruct (no_stuck c progs s r Hn Hr Hu) as [t Ht]. exfalso. apply Ht. apply Hterm.
  - rewrite (a_ndone c s HA). destruct (r_st (reqs s r)) eqn:E; try discriminate; [contradiction|].
    split; [reflexivity | eauto].
Qed.

(* the ids below nreq are exactly the submitted requests *)
Lemma submitted_below_nreq c progs sched r l k :
  let s := run c (init c progs) sched in
  In (ESubmit r l k) (trace s) -> r < nreq s.
Proof.
  intros s H. pose proof (invA_reachable c progs s (reachable_run c progs sched)) as HA.
  apply (a_submit_ev c s HA r l k H).
Qed.

(* ---- uv_cancel ---- *)
Lemma step_loop_any c s l aux : l < c_loops c -> step c s l aux = lstep c l aux s.
Proof. intros H. unfold step. apply Nat.ltb_lt in H. rewrite H. reflexivity. Qed.

Lemma trace_settle l s : trace (settle l s) = trace s.
Proof. rewrite settle_eq. reflexivity. Qed.

Lemma trace_deliver_incl c l e : forall loc s, In e (trace s) -> In e (trace (deliver c l loc s)).
Proof.
  induction loc as [|r rest IH]; intros s H; cbn [deliver].
  - rewrite trace_settle. cbn. right. exact H.
  - destruct (c_beh c r).
    + apply IH. cbn. right. exact H.
    + cbn. right. exact H.
Qed.

Lemma trace_advance_incl c l e s : In e (trace s) -> In e (trace (advance c l s)).
Proof.
  intros H. unfold advance. destruct (l_cb (pop_op (lp s l))).
  - destruct (l_in_done (pop_op (lp s l))).
    + apply trace_deliver_incl. exact H.
    + rewrite trace_settle. exact H.
  - exact H.
Qed.

(* the decision of uv__work_cancel (lines 289-297): the request is unlinked, and the call goes on
   to return 0, exactly when it is still queued (or already cancelled and not yet reported);
   otherwise UV_EBUSY is returned in this very step and the global queues are untouched *)
Lemma cancel_decision c progs s l r aux s' :
  reachable c progs s -> l < c_loops c ->
  l_pc (lp s l) = LCancel2 r -> step c s l aux = Some s' ->
  ((r_st (reqs s r) = Queued \/ r_st (reqs s r) = Cancelled) /\
   l_pc (lp s' l) = LCancel3 r /\ r_st (reqs s' r) = Limbo /\
   ~ (exists code, In (ECancel r l code) (firstn (length (trace s') - length (trace s)) (trace s'))))
  \/
  (~ (r_st (reqs s r) = Queued \/ r_st (reqs s r) = Cancelled) /\
   In (ECancel r l UV_EBUSY) (trace s') /\ wq s' = wq s /\ sp s' = sp s).
Proof.
  intros Hr Hl Hpc Hstep.
  pose proof (invX_reachable c progs s Hr) as HX.
  rewrite step_loop_any in Hstep by exact Hl.
  unfold lstep in Hstep. rewrite Hpc in Hstep.
  pose proof (cancel_bool (sync_ev s l (SLockQ l)) l r) as CB.
  pose proof (IV_cancel_cond c _ _ _ _ _ _ l r HX Hpc) as CC.
  match type of Hstep with context [if ?b then _ else _] => destruct b eqn:Ec end;
    apply some_eq in Hstep; subst s'.
  - left. assert (r_st (reqs s r) = Queued \/ r_st (reqs s r) = Cancelled) as Hst.
    { apply CC. apply CB. exact Ec. }
    split; [exact Hst|]. split; [cbn; rewrite updf_same; reflexivity|].
    split; [cbn; rewrite updf_same; reflexivity|].
    cbn [trace set_loop set_lp set_rst set_rwork set_req set_reqs set_gmutex sync_ev emit set_sp set_wq length].
    replace (S (S (S (length (trace s)))) - length (trace s)) with 3 by lia.
    cbn [firstn]. intros [code [K | [K | [K | []]]]]; discriminate.
  - right. split.
    + intros Hst. apply CC in Hst. apply CB in Hst. cbn in Hst, Ec. congruence.
    + split; [apply trace_advance_incl; cbn; left; reflexivity|].
      match goal with |- wq (advance c l ?y) = _ /\ _ =>
        destruct (sameB_advance c l y) as (E1 & E2 & _) end.
      rewrite E1, E2. split; reflexivity.
Qed.

(* line 300-305: the second half of a successful uv_cancel returns 0 *)
Lemma cancel_returns_zero c progs s l r aux s' :
  reachable c progs s -> l < c_loops c ->
  l_pc (lp s l) = LCancel3 r -> step c s l aux = Some s' ->
  In (ECancel r l 0%Z) (trace s').
Proof.
  intros Hr Hl Hpc Hstep. rewrite step_loop_any in Hstep by exact Hl.
  unfold lstep in Hstep. rewrite Hpc in Hstep. apply some_eq in Hstep. subst s'.
  apply trace_advance_incl. cbn. left. reflexivity.
Qed.

(* once uv_cancel has returned 0 the work function has not run and never will, and the callback
   reports UV_ECANCELED; UV_ECANCELED is reported only after such a return *)
Lemma cancel_trace c progs sched r :
  let s := run c (init c progs) sched in
  ((exists t, In (ECancel r t 0%Z) (trace s)) ->
     nwork r (trace s) = 0 /\ forall t st, In (EDone r t st) (trace s) -> st = UV_ECANCELED) /\
  (forall t, In (EDone r t UV_ECANCELED) (trace s) -> exists t', In (ECancel r t' 0%Z) (trace s)).
Proof.
  intros s. pose proof (invA_reachable c progs s (reachable_run c progs sched)) as HA. split.
  - intros Hc. pose proof (a_cancel_ev c s HA r Hc) as Hst. split.
    + rewrite (a_nwork c s HA). destruct Hst as [-> | [-> | ->]]; reflexivity.
    + intros t st Hd. destruct (a_done_ev c s HA r t st Hd) as [E _].
      destruct Hst as [K | [K | K]]; rewrite K in E; congruence.
  - intros t Hd. destruct (a_done_ev c s HA r t _ Hd) as [E _].
    apply (a_cancelled_ev c s HA). right. exact E.
Qed.

(* ---- slow I/O never occupies more than (nthreads+1)/2 workers ---- *)
Lemma slow_cap c progs sched :
  let s := run c (init c progs) sched in
  running s <= threshold (c_n c) /\
  running s = countw slow_pc (c_n c) (wk s) /\
  forall ws : list nat,
    NoDup ws ->
    (forall w, In w ws -> exists r, wk s w = WRun r true) ->
    length ws <= threshold (c_n c).
Proof.
  intros s. pose proof (invB_reachable c progs s (reachable_run c progs sched)) as HB.
  split; [apply (b_cap c s HB)|]. split; [apply (b_running c s HB)|].
  intros ws Hnd Hws.
  assert (incl ws (filter (fun i => slow_pc (wk s i)) (seq 0 (c_n c)))) as Hincl.
  { intros w Hw. destruct (Hws w Hw) as [r Er]. apply filter_In. split.
    - apply in_seq. split; [lia|]. cbn.
      destruct (Nat.lt_ge_cases w (c_n c)) as [K | K]; [exact K|].
      rewrite (b_outside c s HB w K) in Er. discriminate.
    - rewrite Er. reflexivity. }
  pose proof (NoDup_incl_length Hnd Hincl) as K.
  pose proof (b_cap c s HB). pose proof (b_running c s HB) as E. unfold countw in E. lia.
Qed.

Lemma slow_flag_is_kind c progs sched w r b :
  let s := run c (init c progs) sched in
  wk s w = WRun r b -> (b = true <-> r_kind (reqs s r) = KSlow).
Proof.
  intros s H. pose proof (invB_reachable c progs s (reachable_run c progs sched)) as HB.
  apply (b_run_lt c s HB w r b H).
Qed.

(* ---- completions go to the loop that submitted the request ---- *)
Lemma loops_isolated c progs sched r t st l k :
  let s := run c (init c progs) sched in
  In (EDone r t st) (trace s) -> In (ESubmit r l k) (trace s) -> t = l /\ l < c_loops c.
Proof.
  intros s Hd Hs. pose proof (invA_reachable c progs s (reachable_run c progs sched)) as HA.
  destruct (a_done_ev c s HA r t st Hd) as [_ Ht].
  destruct (a_submit_ev c s HA r l k Hs) as (Hl & _ & Hlt). split; congruence.
Qed.

(* ---- non-slow work is not starved by slow I/O ---- *)
Lemma fast_not_starved c progs sched :
  let s := run c (init c progs) sched in
  2 <= c_n c ->
  threshold (c_n c) < c_n c /\
  forall t aux s' w r,
    c_loops c <= t -> w = t - c_loops c -> w < c_n c ->
    (exists b, wk s w = WRelock b) \/ (exists sg, wk s w = WWait sg) ->
    In (IWork r) (wq s) ->
    step c s t aux = Some s' ->
    exists r' b', wk s' w = WRun r' b' /\
      (b' = false -> In (IWork r') (wq s) /\ r_kind (reqs s r') <> KSlow) /\
      (b' = true -> In r' (sp s) /\ r_kind (reqs s r') = KSlow).
Proof.
  intros s Hn. split; [apply threshold_lt; exact Hn|].
  intros t aux s' w r. apply worker_takes_when_work_queued with (progs := progs).
  apply reachable_run.
Qed.

(* items of the global queue are exactly the queued non-slow requests *)
Lemma wq_items_are_fast c progs sched r :
  let s := run c (init c progs) sched in
  In (IWork r) (wq s) -> r_st (reqs s r) = Queued /\ r_kind (reqs s r) <> KSlow.
Proof.
  intros s H.
  pose proof (invA_reachable c progs s (reachable_run c progs sched)) as HA.
  pose proof (invB_reachable c progs s (reachable_run c progs sched)) as HB.
  split; [|apply (b_kind_wq c s HB r H)].
  apply (a_queued c s HA). apply in_or_app. left.
  unfold wq_reqs. apply in_flat_map. exists (IWork r). split; [exact H | left; reflexivity].
Qed.

(* ---- the strict reading "returns 0 iff Queued" is false: a second uv_cancel of a request
        that is already cancelled, but whose callback has not run yet, returns 0 again ---- *)
Definition cfg1 : config := mkCfg 1 1 (fun _ => []).
Definition prog_cancel_twice : list (list op) := [[OSubmit KCpu; OCancel 0; OCancel 0]].
Definition sched5 : list (nat * nat) := [(0, 0); (0, 0); (0, 0); (0, 0); (0, 0)].

Lemma match_step_exists c s l (P : state -> Prop) :
  match step c s l 0 with Some s' => P s' | None => False end ->
  exists s', step c s l 0 = Some s' /\ P s'.
Proof. destruct (step c s l 0) as [s'|]; [eauto | contradiction]. Qed.

Lemma cancel_iff_queued_refuted :
  exists c progs sched l r,
    let s := run c (init c progs) sched in
    l_pc (lp s l) = LCancel2 r /\ r_st (reqs s r) <> Queued /\
    exists s', step c s l 0 = Some s' /\ l_pc (lp s' l) = LCancel3 r.
Proof.
  exists cfg1, prog_cancel_twice, sched5, 0, 0. cbv zeta.
  split; [vm_compute; reflexivity|]. split; [vm_compute; discriminate|].
  apply match_step_exists. vm_compute. reflexivity.
Qed.

(* ---- the hypotheses are satisfiable: a run with two workers, a CPU, a slow and a fast
        request, one cancelled, ends with every callback delivered exactly once ---- *)
Definition cfg2 : config := mkCfg 2 1 (fun _ => []).
Definition prog2 : list (list op) := [[OSubmit KCpu; OSubmit KSlow; OSubmit KFast; OCancel 2]].
Definition sched2 : list (nat * nat) :=
  [(0,0);(0,0);(0,0);(1,0);(2,0);(0,0);(0,0);(0,0);(1,0);(2,0);(1,0);(2,0);(0,0);(0,0);(1,0);(2,0)].

Example run2_terminal :
  let s := run cfg2 (init cfg2 prog2) sched2 in
  verdict cfg2 s = 0%Z /\
  (forall t, t < 3 -> step cfg2 s t 0 = None) /\
  map (fun r => ndone r (trace s)) [0; 1; 2] = [1; 1; 1] /\
  map (fun r => nwork r (trace s)) [0; 1; 2] = [1; 1; 0] /\
  In (ECancel 2 0 0%Z) (trace s) /\ In (EDone 2 0 UV_ECANCELED) (trace s).
Proof.
  cbv zeta. split; [vm_compute; reflexivity|]. split.
  - intros t Ht. destruct t as [|[|[|t]]]; try lia; vm_compute; reflexivity.
  - split; [vm_compute; reflexivity|]. split; [vm_compute; reflexivity|].
    split; vm_compute; tauto.
Qed.

(* ---- the loop stays alive until the callback: active_reqs counts the unreported requests ---- *)
Lemma alive_until_done c progs sched l r :
  let s := run c (init c progs) sched in
  1 <= c_n c ->
  l_active (lp s l) = countr (unf l) (nreq s) (reqs s) /\
  (r_loop (reqs s r) = l -> unf_st (r_st (reqs s r)) = true -> 1 <= l_active (lp s l)).
Proof.
  intros s Hn. pose proof (reachable_run c progs sched) as Hr. fold s in Hr.
  pose proof (invC_reachable c progs s Hn Hr) as HC.
  pose proof (invA_reachable c progs s Hr) as HA.
  destruct HC as [_ Hact _ _ _]. split; [apply Hact|].
  intros Hl Hu. rewrite (Hact l). apply (countr_pos _ _ _ r).
  - destruct (Nat.lt_ge_cases r (nreq s)) as [K | K]; [exact K|].
    rewrite (a_free c s HA r K) in Hu. discriminate.
  - unfold unf. rewrite Hl, Nat.eqb_refl, Hu. reflexivity.
Qed.

(* ---- the recursion bound of the model's worker loop is never the reason it stops ---- *)
Lemma fuel_sufficient c t w aux s k :
  InvB c s -> wloop (wloop_fuel + k) c t w aux s = wloop wloop_fuel c t w aux s.
Proof.
  intros HB. unfold wloop_fuel.
  transitivity (wloop 2 c t w aux s).
  - apply (wloop_fuel_enough c t w aux s (S k) HB).
  - symmetry. apply (wloop_fuel_enough c t w aux s 1 HB).
Qed.

Lemma worker_loop_entered_with_InvB c progs s t w aux s' :
  reachable c progs s -> w < c_n c ->
  (exists b, wk s w = WRelock b) \/ (exists sg, wk s w = WWait sg) ->
  wstep c t w aux s = Some s' ->
  exists s2, s' = wloop wloop_fuel c t w aux s2 /\ InvB c s2.
Proof.
  intros Hr Hw Hpc Hs.
  destruct (wstep_prefix c s t w aux s' (invB_reachable c progs s Hr) Hw Hpc Hs) as (s2 & E & H2 & _).
  exists s2. split; assumption.
Qed.

(* ---- uv_stop from the callbacks of a batch does not lose the rest of the batch ---- *)
Definition cfg3 : config :=
  mkCfg 1 1 (fun r => match r with 0 => [OStop] | 1 => [OStop] | _ => [] end).
Definition prog3 : list (list op) := [[OSubmit KCpu; OSubmit KCpu]].
Definition sched3 : list (nat * nat) :=
  [(0,0);(0,0);(1,0);(1,0);(1,0);(1,0);(0,0);(0,0);(1,0);(0,0);(0,0)].

Example run3_stop_in_batch :
  let s := run cfg3 (init cfg3 prog3) sched3 in
  verdict cfg3 s = 0%Z /\
  map (fun r => ndone r (trace s)) [0; 1] = [1; 1] /\
  (forall t, t < 2 -> step cfg3 s t 0 = None).
Proof.
  cbv zeta. split; [vm_compute; reflexivity|]. split; [vm_compute; reflexivity|].
  intros t Ht. destruct t as [|[|t]]; try lia; vm_compute; reflexivity.
Qed.

(* ---- the kind table: the slow-I/O cap concerns exactly the name lookups ---- *)
Lemma kind_table_lookup a : api_kind a = KSlow <-> is_lookup a = true.
Proof. destruct a; cbn; split; intros H; try discriminate; reflexivity. Qed.

Lemma kind_table_cap c progs sched :
  let s := run c (init c progs) sched in
  (forall ws : list nat,
     NoDup ws ->
     (forall w, In w ws -> exists r b a, wk s w = WRun r b /\ is_lookup a = true /\
                                         r_kind (reqs s r) = api_kind a) ->
     length ws <= threshold (c_n c)) /\
  (forall w r b a, wk s w = WRun r b -> is_lookup a = false -> r_kind (reqs s r) = api_kind a ->
     b = false).
Proof.
  intros s. split.
  - intros ws Hnd Hws. apply (slow_cap c progs sched); [exact Hnd|].
    intros w Hw. destruct (Hws w Hw) as (r & b & a & Hwk & Hl & Hk). exists r.
    assert (b = true) as ->; [|exact Hwk].
    apply (slow_flag_is_kind c progs sched w r b Hwk). fold s. rewrite Hk. apply kind_table_lookup. exact Hl.
  - intros w r b a Hwk Hl Hk. destruct b; [|reflexivity]. exfalso.
    assert (r_kind (reqs s r) = KSlow) as K by (apply (slow_flag_is_kind c progs sched w r true Hwk); reflexivity).
    rewrite Hk in K. apply kind_table_lookup in K. congruence.
Qed.

(* ---- the completion wrappers of the public APIs ---- *)
Lemma api_cancelled_status a garbage wres :
  snd (complete_api a garbage wres FCancelled) =
  match a with CWork false => None | _ => Some (cancel_code a) end.
Proof. destruct a as [[]| | | |]; reflexivity. Qed.

Lemma api_normal_status a garbage wres f :
  f <> FCancelled ->
  snd (complete_api a garbage wres f) =
  match a with CWork false => None | CWork true => Some 0%Z | _ => Some wres end.
Proof. intros H. destruct f; [| contradiction |]; destruct a as [[]| | | |]; reflexivity. Qed.

Lemma api_unregister_once a garbage wres f : fst (complete_api a garbage wres f) = 1.
Proof. destruct f; destruct a as [[]| | | |]; reflexivity. Qed.

(* ---- fork ---- *)
Lemma fork_child_counters_zero c parent progs :
  running parent = 0 -> idle parent = 0 -> fork_child c parent progs = init c progs.
Proof. intros E1 E2. unfold fork_child. rewrite E1, E2. reflexivity. Qed.

Definition cfgf : config := mkCfg 2 1 (fun _ => []).
Definition progf : list (list op) := [[OSubmit KSlow]].
Definition sched_parent : list (nat * nat) := [(0,0); (1,0)].
Definition sched_child : list (nat * nat) := [(0,0); (1,0); (2,0); (0,0); (1,0); (2,0)].

Lemma fork_child_stuck :
  let parent := run cfgf (init cfgf progf) sched_parent in
  let child := run cfgf (fork_child cfgf parent progf) sched_child in
  running parent = 1 /\ r_st (reqs child 0) = Queued /\ verdict cfgf child = 2%Z /\
  (forall t, t < 3 -> step cfgf child t 0 = None).
Proof.
  cbv zeta. split; [vm_compute; reflexivity|]. split; [vm_compute; reflexivity|].
  split; [vm_compute; reflexivity|].
  intros t Ht. destruct t as [|[|[|t]]]; try lia; vm_compute; reflexivity.
Qed.

(* ---- the cap itself ---- *)
Lemma threshold_bounds n : 1 <= n -> 1 <= threshold n <= n /\ Nat.leb (threshold n) 0 = false.
Proof.
  intros H. pose proof (threshold_pos n H) as H1.
  assert (threshold n <= n) as H2.
  { unfold threshold. apply Nat.div_le_upper_bound; lia. }
  split; [lia|]. apply Nat.leb_gt. lia.
Qed.

(* an idle pool takes a slow request: a worker that gets the mutex with only the marker queued,
   a pending slow request and nothing slow running leaves with that request *)
Lemma idle_pool_takes_slow c t w aux s r sp' fuel :
  1 <= c_n c -> wq s = [ISlowMsg] -> sp s = r :: sp' -> running s = 0 ->
  exists b, wk (wloop (S fuel) c t w aux s) w = WRun r b.
Proof.
  intros Hn Hq Hs Hr. destruct (threshold_bounds (c_n c) Hn) as [_ Hl].
  cbn [wloop]. unfold wait_pred. rewrite Hq, Hr, Hl, Hs. exists true.
  destruct sp'; cbn; apply updf_same.
Qed.
