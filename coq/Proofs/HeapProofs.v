(* Proofs about Model/Heap.v: order, multiset and shape invariants of
   heap_insert / heap_remove for every tree, element and removal target. *)
From UV Require Import Lib.Base Model.Heap.
From Coq Require Import Permutation.

Section HeapProofs.
Context {elt : Type}.
Variable lt : elt -> elt -> bool.
Variable ident : elt -> nat.

Definition le (a b : elt) : Prop := lt b a = false.

Hypothesis lt_asym : forall a b, lt a b = true -> lt b a = false.
Hypothesis le_trans : forall a b c, le a b -> le b c -> le a c.

Notation tree := (tree elt).
Notation heap := (heap elt).

Lemma lt_le a b : lt a b = true -> le a b.
Proof. apply lt_asym. Qed.

Lemma le_refl a : le a a.
Proof. unfold le. destruct (lt a a) eqn:E; auto. pose proof (lt_asym _ _ E). congruence. Qed.

Definition le_all (x : elt) (t : tree) : Prop := Forall (le x) (elements t).

Fixpoint heap_ord (t : tree) : Prop :=
  match t with
  | Leaf => True
  | Node l x r => le_all x l /\ le_all x r /\ heap_ord l /\ heap_ord r
  end.

Lemma Forall_le_trans a b l : le a b -> Forall (le b) l -> Forall (le a) l.
Proof. intros H F. eapply Forall_impl; [|exact F]. intros c Hc. eapply le_trans; eauto. Qed.

Lemma Forall_perm {A} (P : A -> Prop) l l' :
  Permutation l l' -> Forall P l -> Forall P l'.
Proof. intros Hp F. rewrite Forall_forall in *. intros x Hx. apply F.
  eapply Permutation_in; [apply Permutation_sym; exact Hp|exact Hx]. Qed.

Lemma Forall_incl {A} (P : A -> Prop) l l' :
  incl l' l -> Forall P l -> Forall P l'.
Proof. intros Hi F. rewrite Forall_forall in *. auto. Qed.

Definition kids (t : tree) : list elt :=
  match t with Leaf => [] | Node l _ r => elements l ++ elements r end.

Definition kids_ord (t : tree) : Prop :=
  match t with Leaf => True | Node l _ r => heap_ord l /\ heap_ord r end.

Lemma heap_ord_root_le t x : heap_ord t -> root t = Some x -> Forall (le x) (elements t).
Proof.
  destruct t as [|l y r]; simpl; [discriminate|].
  intros (Hl & Hr & _ & _) E. inversion E; subst.
  constructor; [apply le_refl|]. apply Forall_app; split; assumption.
Qed.

(* ---- sift ---- *)
Lemma root_elements (t : tree) x : root t = Some x -> elements t = x :: kids t.
Proof. destruct t; simpl; [discriminate|]. intros H; inversion H; reflexivity. Qed.

Lemma perm_right (a c : elt) l1 l2 :
  Permutation (a :: l1 ++ c :: l2) (c :: l1 ++ a :: l2).
Proof.
  apply Permutation_trans with (a :: c :: l1 ++ l2).
  - constructor. apply Permutation_sym, Permutation_middle.
  - apply Permutation_trans with (c :: a :: l1 ++ l2).
    + apply perm_swap.
    + constructor. apply Permutation_middle.
Qed.

Lemma sift_perm t c : Permutation (elements (sift lt t c)) (c :: kids t).
Proof.
  induction t as [|l IHl x r IHr]; simpl; [apply Permutation_refl|].
  assert (GoR : forall rx, root r = Some rx ->
    Permutation (elements (Node l rx (sift lt r c))) (c :: elements l ++ elements r)).
  { intros rx E. simpl. rewrite IHr, (root_elements r rx E). apply perm_right. }
  assert (GoL : forall lx, root l = Some lx ->
    Permutation (elements (Node (sift lt l c) lx r)) (c :: elements l ++ elements r)).
  { intros lx E. simpl. rewrite IHl, (root_elements l lx E). simpl. apply perm_swap. }
  destruct (root l) as [lx|] eqn:El; destruct (root r) as [rx|] eqn:Er.
  - destruct (lt lx c); destruct (lt rx _); auto; apply Permutation_refl.
  - destruct (lt lx c); auto; apply Permutation_refl.
  - destruct (lt rx c); auto; apply Permutation_refl.
  - apply Permutation_refl.
Qed.

Lemma below_root (t : tree) z :
  heap_ord t -> (forall x, root t = Some x -> le z x) -> Forall (le z) (elements t).
Proof.
  intros Ho Hz. destruct t as [|l y r]; [constructor|].
  apply Forall_le_trans with y; [apply Hz; reflexivity|].
  apply heap_ord_root_le; auto.
Qed.

Lemma below_sift (t : tree) c z :
  heap_ord t -> le z c -> (forall x, root t = Some x -> le z x) ->
  Forall (le z) (elements (sift lt t c)).
Proof.
  intros Ho Hc Hz. eapply Forall_perm; [apply Permutation_sym, sift_perm|].
  constructor; auto.
  pose proof (below_root t z Ho Hz) as F.
  destruct t as [|l y r]; simpl in *; [constructor| inversion F; auto].
Qed.

Lemma sift_ord t c : kids_ord t -> heap_ord (sift lt t c).
Proof.
  induction t as [|l IHl x r IHr]; simpl; [intros _; repeat split; constructor|].
  intros [Hl Hr].
  assert (KL : kids_ord l) by (destruct l; simpl in *; tauto).
  assert (KR : kids_ord r) by (destruct r; simpl in *; tauto).
  specialize (IHl KL). specialize (IHr KR).
  pose proof (below_root l) as AL. pose proof (below_root r) as AR.
  pose proof (below_sift l c) as BL. pose proof (below_sift r c) as BR.
  destruct (root l) as [lx|] eqn:El; destruct (root r) as [rx|] eqn:Er.
  - destruct (lt lx c) eqn:E1.
    + destruct (lt rx lx) eqn:E2; simpl.
      * assert (Hrl : le rx lx) by (apply lt_le; auto).
        assert (Hrc : le rx c) by (apply le_trans with lx; [exact Hrl| apply lt_le; auto]).
        repeat split; auto.
        -- apply AL; auto. intros ? H; inversion H; subst; auto.
        -- apply BR; auto. intros ? H; inversion H; subst; apply le_refl.
      * assert (Hlc : le lx c) by (apply lt_le; auto).
        repeat split; auto.
        -- apply BL; auto. intros ? H; inversion H; subst; apply le_refl.
        -- apply AR; auto. intros ? H; inversion H; subst; exact E2.
    + destruct (lt rx c) eqn:E2; simpl.
      * assert (Hrc : le rx c) by (apply lt_le; auto).
        assert (Hrl : le rx lx) by (apply le_trans with c; [exact Hrc| exact E1]).
        repeat split; auto.
        -- apply AL; auto. intros ? H; inversion H; subst; auto.
        -- apply BR; auto. intros ? H; inversion H; subst; apply le_refl.
      * repeat split; auto.
        -- apply AL; auto. intros ? H; inversion H; subst; exact E1.
        -- apply AR; auto. intros ? H; inversion H; subst; exact E2.
  - destruct (lt lx c) eqn:E1; simpl.
    + repeat split; auto.
      * apply BL; auto; [apply lt_le; auto|]. intros ? H; inversion H; subst; apply le_refl.
      * apply AR; auto. discriminate.
    + repeat split; auto.
      * apply AL; auto. intros ? H; inversion H; subst; exact E1.
      * apply AR; auto. discriminate.
  - destruct (lt rx c) eqn:E2; simpl.
    + repeat split; auto.
      * apply AL; auto. discriminate.
      * apply BR; auto; [apply lt_le; auto|]. intros ? H; inversion H; subst; apply le_refl.
    + repeat split; auto.
      * apply AL; auto. discriminate.
      * apply AR; auto. intros ? H; inversion H; subst; exact E2.
  - simpl. repeat split; auto.
    + apply AL; auto. discriminate.
    + apply AR; auto. discriminate.
Qed.

(* ---- fix_l / fix_r ---- *)
Lemma fix_r_perm l y r' :
  Permutation (elements (fix_r lt l y r')) (y :: elements l ++ elements r').
Proof.
  unfold fix_r. destruct r' as [|rl z rr]; [apply Permutation_refl|].
  destruct (lt z y); [|apply Permutation_refl]. simpl.
  apply Permutation_trans with (z :: y :: elements l ++ elements rl ++ elements rr).
  - constructor. apply Permutation_sym, Permutation_middle.
  - apply Permutation_trans with (y :: z :: elements l ++ elements rl ++ elements rr).
    + apply perm_swap.
    + constructor. apply Permutation_middle.
Qed.

Lemma fix_l_perm l' y r :
  Permutation (elements (fix_l lt l' y r)) (y :: elements l' ++ elements r).
Proof.
  unfold fix_l. destruct l' as [|ll z lr]; [apply Permutation_refl|].
  destruct (lt z y); [|apply Permutation_refl]. simpl. apply perm_swap.
Qed.

(* The sub-heap [s'] below parent [y] was obtained by placing [c]: its
   elements are c plus things that were already >= y. *)
Lemma fix_ord_core y sib s' c rest :
  le_all y sib -> heap_ord sib -> heap_ord s' ->
  Permutation (elements s') (c :: rest) -> Forall (le y) rest ->
  match s' with
  | Leaf => True
  | Node sl z sr =>
      if lt z y
      then le_all z sib /\ le z y /\ le_all z sl /\ le_all z sr /\
           le_all y sl /\ le_all y sr /\ heap_ord sl /\ heap_ord sr
      else le_all y s'
  end.
Proof.
  intros Hsib Osib Os' Hp Hrest.
  destruct s' as [|sl z sr]; [exact I|].
  simpl in Os'. destruct Os' as (Hzl & Hzr & Osl & Osr).
  destruct (lt z y) eqn:E.
  - assert (Hzy : le z y) by (apply lt_le; auto).
    (* z must be c: everything in rest is >= y > z *)
    assert (Hin : In z (c :: rest)).
    { eapply Permutation_in; [exact Hp|]. simpl; auto. }
    assert (Hk : Forall (le y) (elements sl ++ elements sr)).
    { destruct Hin as [Hzc|Hin].
      - subst c. simpl in Hp. apply Permutation_cons_inv in Hp.
        eapply Forall_perm; [apply Permutation_sym; exact Hp|exact Hrest].
      - rewrite Forall_forall in Hrest. specialize (Hrest _ Hin).
        unfold le in Hrest. congruence. }
    apply Forall_app in Hk. destruct Hk as [Hyl Hyr].
    repeat split; auto. unfold le_all. apply Forall_le_trans with y; auto.
  - (* y <= z <= everything below *)
    assert (Hyz : le y z) by exact E.
    unfold le_all. simpl. constructor; auto.
    apply Forall_app; split; apply Forall_le_trans with z; auto.
Qed.

Lemma fix_r_ord l y r' c rest :
  le_all y l -> heap_ord l -> heap_ord r' ->
  Permutation (elements r') (c :: rest) -> Forall (le y) rest ->
  heap_ord (fix_r lt l y r').
Proof.
  intros Hl Ol Or' Hp Hrest.
  pose proof (fix_ord_core y l r' c rest Hl Ol Or' Hp Hrest) as H.
  unfold fix_r. destruct r' as [|rl z rr].
  - simpl. repeat split; auto. constructor.
  - destruct (lt z y) eqn:E.
    + destruct H as (A & B & C & D & E1 & F & G & K). simpl.
      repeat split; auto. unfold le_all. simpl. constructor; auto.
      apply Forall_app; split; auto.
    + simpl. simpl in Or'. repeat split; try tauto.
Qed.

Lemma fix_l_ord l' y r c rest :
  le_all y r -> heap_ord r -> heap_ord l' ->
  Permutation (elements l') (c :: rest) -> Forall (le y) rest ->
  heap_ord (fix_l lt l' y r).
Proof.
  intros Hr Or Ol' Hp Hrest.
  pose proof (fix_ord_core y r l' c rest Hr Or Ol' Hp Hrest) as H.
  unfold fix_l. destruct l' as [|ll z lr].
  - simpl. repeat split; auto. constructor.
  - destruct (lt z y) eqn:E.
    + destruct H as (A & B & C & D & E1 & F & G & K). simpl.
      repeat split; auto. unfold le_all. simpl. constructor; auto.
      apply Forall_app; split; auto.
    + simpl. simpl in Ol'. repeat split; try tauto.
Qed.

(* ---- place: order ---- *)
Lemma place_ord p : forall t c,
  heap_ord t ->
  heap_ord (place lt p t c) /\
  exists rest, Permutation (elements (place lt p t c)) (c :: rest) /\
               incl rest (elements t).
Proof.
  induction p as [|b p IH]; intros t c Ot.
  - simpl. split.
    + apply sift_ord. destruct t; simpl in *; tauto.
    + exists (kids t). split; [apply sift_perm|].
      destruct t; simpl; [apply incl_refl| apply incl_tl, incl_refl].
  - destruct t as [|l y r]; simpl.
    + split; [repeat split; constructor|]. exists []. split; [apply Permutation_refl|apply incl_refl].
    + simpl in Ot. destruct Ot as (Hl & Hr & Ol & Or).
      destruct b.
      * destruct (IH r c Or) as (Or' & rest & Hp & Hi).
        assert (Hrest : Forall (le y) rest) by (eapply Forall_incl; eauto).
        split; [eapply fix_r_ord; eauto|].
        exists (y :: elements l ++ rest). split.
        -- rewrite fix_r_perm. rewrite Hp.
           apply Permutation_trans with (y :: c :: elements l ++ rest).
           ++ constructor. apply Permutation_sym, Permutation_middle.
           ++ apply perm_swap.
        -- intros e [He|He]; [subst; simpl; auto|]. simpl. right.
           apply in_app_or in He. apply in_or_app. destruct He; auto.
      * destruct (IH l c Ol) as (Ol' & rest & Hp & Hi).
        assert (Hrest : Forall (le y) rest) by (eapply Forall_incl; eauto).
        split; [eapply fix_l_ord; eauto|].
        exists (y :: rest ++ elements r). split.
        -- rewrite fix_l_perm. rewrite Hp. simpl. apply perm_swap.
        -- intros e [He|He]; [subst; simpl; auto|]. simpl. right.
           apply in_app_or in He. apply in_or_app. destruct He; auto.
Qed.

(* ---- place: multiset, given where the path leads ---- *)
Fixpoint slot (p : list bool) (t : tree) : Prop :=
  match p, t with
  | [], Leaf => True
  | [], Node _ _ _ => False
  | _ :: _, Leaf => False
  | b :: p', Node l _ r => slot p' (if b then r else l)
  end.

Lemma place_perm_slot p : forall t c, slot p t ->
  Permutation (elements (place lt p t c)) (c :: elements t).
Proof.
  induction p as [|b p IH]; intros t c Hs.
  - destruct t; simpl in *; [apply Permutation_refl|contradiction].
  - destruct t as [|l y r]; simpl in *; [contradiction|]. destruct b.
    + rewrite fix_r_perm, (IH r c Hs).
      apply Permutation_trans with (y :: c :: elements l ++ elements r).
      * constructor. apply Permutation_sym, Permutation_middle.
      * apply perm_swap.
    + rewrite fix_l_perm, (IH l c Hs). simpl. apply perm_swap.
Qed.

Lemma place_perm_occ p : forall t c old, lookup p t = Some old ->
  Permutation (old :: elements (place lt p t c)) (c :: elements t).
Proof.
  induction p as [|b p IH]; intros t c old Hl.
  - destruct t as [|l y r]; simpl in Hl; [discriminate|]. inversion Hl; subst.
    rewrite (sift_perm (Node l old r) c). simpl. apply perm_swap.
  - destruct t as [|l y r]; simpl in Hl; [discriminate|]. simpl. destruct b.
    + rewrite fix_r_perm.
      apply Permutation_trans with (y :: elements l ++ old :: elements (place lt p r c)).
      * apply Permutation_trans with (y :: old :: elements l ++ elements (place lt p r c)).
        -- apply perm_swap.
        -- constructor. apply Permutation_middle.
      * rewrite (IH r c old Hl).
        apply Permutation_trans with (y :: c :: elements l ++ elements r).
        -- constructor. apply Permutation_sym, Permutation_middle.
        -- apply perm_swap.
    + rewrite fix_l_perm.
      apply Permutation_trans with (y :: (old :: elements (place lt p l c)) ++ elements r).
      * simpl. apply perm_swap.
      * rewrite (IH l c old Hl). simpl. apply perm_swap.
Qed.

(* ---- shape: which paths are occupied ---- *)
Definition occb (q : list bool) (t : tree) : bool :=
  match lookup q t with Some _ => true | None => false end.

Lemma occb_node q l x r :
  occb q (Node l x r) =
  match q with [] => true | b :: q' => occb q' (if b then r else l) end.
Proof. unfold occb. destruct q as [|[] q]; simpl; reflexivity. Qed.

Lemma occb_leaf q : occb q (@Leaf elt) = false.
Proof. unfold occb. destruct q; reflexivity. Qed.

Lemma sift_occb t c q :
  occb q (sift lt t c) =
  match t with Leaf => match q with [] => true | _ => false end | _ => occb q t end.
Proof.
  revert q. induction t as [|l IHl x r IHr]; intros q.
  - destruct q as [|[] q]; simpl; unfold occb; simpl; auto; destruct q; auto.
  - simpl.
    assert (HL : forall q', l <> Leaf -> occb q' (sift lt l c) = occb q' l)
      by (intros q' Hn; rewrite IHl; destruct l; congruence).
    assert (HR : forall q', r <> Leaf -> occb q' (sift lt r c) = occb q' r)
      by (intros q' Hn; rewrite IHr; destruct r; congruence).
    destruct (root l) as [lx|] eqn:El; destruct (root r) as [rx|] eqn:Er;
      try destruct (lt lx c); try destruct (lt rx _);
      rewrite !occb_node; destruct q as [|[] q]; auto;
      try (apply HL; destruct l; simpl in *; congruence);
      try (apply HR; destruct r; simpl in *; congruence).
Qed.

Lemma fix_r_occb l y r' q : occb q (fix_r lt l y r') = occb q (Node l y r').
Proof.
  unfold fix_r. destruct r' as [|rl z rr]; auto. destruct (lt z y); auto.
  rewrite !occb_node. destruct q as [|[] q]; auto. rewrite !occb_node. reflexivity.
Qed.

Lemma fix_l_occb l' y r q : occb q (fix_l lt l' y r) = occb q (Node l' y r).
Proof.
  unfold fix_l. destruct l' as [|ll z lr]; auto. destruct (lt z y); auto.
  rewrite !occb_node. destruct q as [|[] q]; auto. rewrite !occb_node. reflexivity.
Qed.

Fixpoint path_eqb (a b : list bool) : bool :=
  match a, b with
  | [], [] => true
  | x :: a', y :: b' => Bool.eqb x y && path_eqb a' b'
  | _, _ => false
  end.

Lemma path_eqb_eq a b : path_eqb a b = true <-> a = b.
Proof.
  revert b; induction a as [|x a IH]; intros [|y b]; simpl; split; try congruence; auto.
  - rewrite andb_true_iff, Bool.eqb_true_iff, IH. intros [-> ->]; reflexivity.
  - intros H; inversion H; subst. rewrite andb_true_iff, Bool.eqb_true_iff, IH. auto.
Qed.

Lemma place_occb_slot p : forall t c q, slot p t ->
  occb q (place lt p t c) = occb q t || path_eqb q p.
Proof.
  induction p as [|b p IH]; intros t c q Hs.
  - destruct t; simpl in Hs; [|contradiction]. simpl.
    rewrite occb_leaf. unfold occb. destruct q as [|[] q]; simpl; auto; destruct q; auto.
  - destruct t as [|l y r]; simpl in Hs; [contradiction|]. simpl. destruct b.
    + rewrite fix_r_occb, !occb_node. destruct q as [|[] q]; simpl; auto.
      rewrite orb_false_r; reflexivity.
    + rewrite fix_l_occb, !occb_node. destruct q as [|[] q]; simpl; auto.
      rewrite orb_false_r; reflexivity.
Qed.

Lemma place_occb_occ p : forall t c q, occb p t = true ->
  occb q (place lt p t c) = occb q t.
Proof.
  induction p as [|b p IH]; intros t c q Ho.
  - simpl. rewrite sift_occb. destruct t; auto. rewrite occb_leaf in Ho; discriminate.
  - destruct t as [|l y r]; [rewrite occb_leaf in Ho; discriminate|].
    rewrite occb_node in Ho. simpl. destruct b.
    + rewrite fix_r_occb, !occb_node. destruct q as [|[] q]; auto.
    + rewrite fix_l_occb, !occb_node. destruct q as [|[] q]; auto.
Qed.

(* ---- paths and positions ---- *)
Definition pos_of_path (p : list bool) : positive :=
  fold_left (fun acc (b : bool) => if b then xI acc else xO acc) p xH.

Lemma pos_of_path_of k : pos_of_path (path_of_pos k) = k.
Proof.
  unfold pos_of_path. induction k as [k IH|k IH|]; simpl; auto;
    rewrite fold_left_app, IH; reflexivity.
Qed.

Lemma path_of_pos_of p : path_of_pos (pos_of_path p) = p.
Proof.
  unfold pos_of_path. induction p as [|b p IH] using rev_ind; simpl; auto.
  rewrite fold_left_app. simpl. destruct b; simpl; rewrite IH; reflexivity.
Qed.

Lemma path_of_pos_inj a b : path_of_pos a = path_of_pos b -> a = b.
Proof. intros H. rewrite <- (pos_of_path_of a), <- (pos_of_path_of b), H. reflexivity. Qed.

(* ---- the invariant ---- *)
Definition shape_inv (h : heap) : Prop :=
  forall k : positive, occb (path_of_pos k) (h_tree h) = (Npos k <=? h_n h)%N.

Definition heap_inv (h : heap) : Prop := shape_inv h /\ heap_ord (h_tree h).

Lemma occb_prefix q b t : occb (q ++ [b]) t = true -> occb q t = true.
Proof.
  revert t; induction q as [|x q IH]; intros t H.
  - destruct t; [rewrite occb_leaf in H; discriminate| reflexivity].
  - destruct t as [|l y r]; [rewrite occb_leaf in H; discriminate|].
    simpl in H. rewrite occb_node in *. apply IH; exact H.
Qed.

Lemma slot_snoc q b t :
  occb q t = true -> occb (q ++ [b]) t = false -> slot (q ++ [b]) t.
Proof.
  revert t; induction q as [|x q IH]; intros t H1 H2.
  - destruct t as [|l y r]; [rewrite occb_leaf in H1; discriminate|].
    simpl in *. rewrite occb_node in H2.
    destruct b; [destruct r|destruct l]; simpl; auto; discriminate.
  - destruct t as [|l y r]; [rewrite occb_leaf in H1; discriminate|].
    simpl in *. rewrite occb_node in *. apply IH; assumption.
Qed.

Lemma shape_slot h : shape_inv h -> slot (path_of (h_n h + 1)) (h_tree h).
Proof.
  intros Hs. destruct (h_n h) as [|n] eqn:En.
  - simpl. specialize (Hs 1%positive). rewrite En in Hs. simpl in Hs.
    destruct (h_tree h); [exact I| discriminate].
  - replace (N.pos n + 1)%N with (N.pos (n + 1)) by lia. simpl.
    destruct (n + 1)%positive as [q|q|] eqn:Eq; simpl.
    + apply slot_snoc.
      * rewrite Hs, En. apply N.leb_le. lia.
      * change (path_of_pos q ++ [true]) with (path_of_pos q~1). rewrite Hs, En.
        apply N.leb_gt. lia.
    + apply slot_snoc.
      * rewrite Hs, En. apply N.leb_le. lia.
      * change (path_of_pos q ++ [false]) with (path_of_pos q~0). rewrite Hs, En.
        apply N.leb_gt. lia.
    + lia.
Qed.

Theorem heap_insert_inv h x : heap_inv h -> heap_inv (heap_insert lt h x).
Proof.
  intros [Hs Ho]. split.
  - intros k. unfold heap_insert; simpl.
    pose proof (shape_slot h Hs) as Sl.
    rewrite place_occb_slot by exact Sl. rewrite Hs.
    destruct (path_eqb (path_of_pos k) (path_of (h_n h + 1))) eqn:E.
    + apply path_eqb_eq in E.
      assert (N.pos k = h_n h + 1)%N.
      { destruct (h_n h + 1)%N as [|m] eqn:Em; [lia|]. simpl in E.
        apply path_of_pos_inj in E. congruence. }
      rewrite orb_true_r. symmetry. apply N.leb_le. lia.
    + rewrite orb_false_r.
      assert (N.pos k <> h_n h + 1)%N.
      { intros Hk. destruct (h_n h + 1)%N as [|m] eqn:Em; [lia|]. inversion Hk; subst.
        simpl in E. assert (path_eqb (path_of_pos m) (path_of_pos m) = true)
          by (apply path_eqb_eq; reflexivity). congruence. }
      destruct (N.leb_spec (N.pos k) (h_n h)); destruct (N.leb_spec (N.pos k) (h_n h + 1)); auto; lia.
  - unfold heap_insert; simpl. apply place_ord; exact Ho.
Qed.

Theorem heap_insert_elements h x : heap_inv h ->
  Permutation (elements (h_tree (heap_insert lt h x))) (x :: elements (h_tree h)).
Proof.
  intros [Hs _]. unfold heap_insert; simpl. apply place_perm_slot, shape_slot, Hs.
Qed.

(* ---- unlink ---- *)
Lemma unlink_spec p : forall t x, lookup p t = Some x ->
  (forall b, occb (p ++ [b]) t = false) ->
  let '(t', o) := unlink p t in
  o = Some x /\
  Permutation (elements t) (x :: elements t') /\
  (heap_ord t -> heap_ord t') /\
  (forall q, occb q t' = occb q t && negb (path_eqb q p)).
Proof.
  induction p as [|b p IH]; intros t x Hl Hnk.
  - destruct t as [|l y r]; simpl in Hl; [discriminate|]. inversion Hl; subst. simpl.
    assert (l = Leaf).
    { specialize (Hnk false). simpl in Hnk. rewrite occb_node in Hnk.
      destruct l; auto. discriminate. }
    assert (r = Leaf).
    { specialize (Hnk true). simpl in Hnk. rewrite occb_node in Hnk.
      destruct r; auto. discriminate. }
    subst. simpl. split; [reflexivity|split; [apply Permutation_refl|split; [auto|]]].
    intros q. rewrite occb_leaf, occb_node. destruct q as [|[] q]; simpl; auto;
      rewrite occb_leaf; reflexivity.
  - destruct t as [|l y r]; simpl in Hl; [discriminate|]. simpl. destruct b.
    + assert (Hnk' : forall b, occb (p ++ [b]) r = false).
      { intros b. specialize (Hnk b). simpl in Hnk. rewrite occb_node in Hnk. exact Hnk. }
      specialize (IH r x Hl Hnk'). destruct (unlink p r) as [r' o].
      destruct IH as (Ho & Hp & Hord & Hocc). split; [exact Ho|split; [|split]].
      * simpl. rewrite Hp.
        apply Permutation_trans with (y :: x :: elements l ++ elements r').
        -- constructor. apply Permutation_sym, Permutation_middle.
        -- apply perm_swap.
      * simpl. intros (A & B & C & D). repeat split; auto.
        unfold le_all in *. rewrite Hp in B. inversion B; auto.
      * intros q. rewrite !occb_node. destruct q as [|[] q]; simpl; auto.
        rewrite andb_true_r; reflexivity.
    + assert (Hnk' : forall b, occb (p ++ [b]) l = false).
      { intros b. specialize (Hnk b). simpl in Hnk. rewrite occb_node in Hnk. exact Hnk. }
      specialize (IH l x Hl Hnk'). destruct (unlink p l) as [l' o].
      destruct IH as (Ho & Hp & Hord & Hocc). split; [exact Ho|split; [|split]].
      * simpl. rewrite Hp. simpl. apply perm_swap.
      * simpl. intros (A & B & C & D). repeat split; auto.
        unfold le_all in *. rewrite Hp in A. inversion A; auto.
      * intros q. rewrite !occb_node. destruct q as [|[] q]; simpl; auto.
        rewrite andb_true_r; reflexivity.
Qed.

Lemma occb_true_lookup q t : occb q t = true -> exists x, lookup q t = Some x.
Proof. unfold occb. destruct (lookup q t); [eauto|discriminate]. Qed.

Lemma find_path_lookup t i p :
  find_path ident t i = Some p -> exists x, lookup p t = Some x /\ ident x = i.
Proof.
  revert p; induction t as [|l IHl x r IHr]; intros p; simpl; [discriminate|].
  destruct (Nat.eqb (ident x) i) eqn:E.
  - intros H; inversion H; subst. exists x. split; auto. apply Nat.eqb_eq; auto.
  - destruct (find_path ident l i) as [pl|].
    + intros H; inversion H; subst. simpl. apply IHl; reflexivity.
    + destruct (find_path ident r i) as [pr|]; [|discriminate].
      intros H; inversion H; subst. simpl. apply IHr; reflexivity.
Qed.

Lemma find_path_complete t i :
  (exists x, In x (elements t) /\ ident x = i) -> find_path ident t i <> None.
Proof.
  induction t as [|l IHl y r IHr]; simpl; intros (x & Hin & Hi); [contradiction|].
  destruct (Nat.eqb (ident y) i) eqn:E; [discriminate|].
  destruct Hin as [->|Hin]; [apply Nat.eqb_neq in E; contradiction|].
  apply in_app_or in Hin. destruct Hin as [Hin|Hin].
  - destruct (find_path ident l i); [discriminate|]. exfalso. apply IHl; eauto.
  - destruct (find_path ident l i); [discriminate|].
    destruct (find_path ident r i); [discriminate|]. exfalso. apply IHr; eauto.
Qed.

Lemma lookup_occb p t x : lookup p t = Some x -> occb p t = true.
Proof. unfold occb. intros ->. reflexivity. Qed.

(* What heap_remove does, for an identity present in the heap. *)
Theorem heap_remove_spec h i :
  heap_inv h ->
  (exists x, In x (elements (h_tree h)) /\ ident x = i) ->
  heap_inv (heap_remove lt ident h i) /\
  exists x, ident x = i /\
    Permutation (elements (h_tree h)) (x :: elements (h_tree (heap_remove lt ident h i))).
Proof.
  intros [Hs Ho] Hex. unfold heap_remove.
  destruct (h_n h) as [|n] eqn:En.
  - exfalso. destruct Hex as (x & Hin & _).
    assert (h_tree h = Leaf).
    { specialize (Hs 1%positive). rewrite En in Hs. simpl in Hs.
      destruct (h_tree h); [auto|discriminate]. }
    rewrite H in Hin. contradiction.
  - simpl path_of.
    assert (Hocc : occb (path_of_pos n) (h_tree h) = true).
    { rewrite Hs, En. apply N.leb_le. lia. }
    destruct (occb_true_lookup _ _ Hocc) as (last & Hlast).
    assert (Hnk : forall b, occb (path_of_pos n ++ [b]) (h_tree h) = false).
    { intros b. destruct b.
      - change (path_of_pos n ++ [true]) with (path_of_pos n~1). rewrite Hs, En. apply N.leb_gt; lia.
      - change (path_of_pos n ++ [false]) with (path_of_pos n~0). rewrite Hs, En. apply N.leb_gt; lia. }
    pose proof (unlink_spec (path_of_pos n) (h_tree h) last Hlast Hnk) as U.
    destruct (unlink (path_of_pos n) (h_tree h)) as [t1 o].
    destruct U as (-> & Hp & Hord & Hocc1).
    assert (Sh1 : forall k : positive, occb (path_of_pos k) t1 = (N.pos k <=? N.pred (N.pos n))%N).
    { intros k. rewrite Hocc1, Hs, En.
      destruct (path_eqb (path_of_pos k) (path_of_pos n)) eqn:E.
      - apply path_eqb_eq, path_of_pos_inj in E. subst. simpl. rewrite andb_false_r.
        symmetry. apply N.leb_gt. lia.
      - simpl. rewrite andb_true_r.
        assert (k <> n). { intros ->. assert (path_eqb (path_of_pos n) (path_of_pos n) = true)
          by (apply path_eqb_eq; reflexivity). congruence. }
        destruct (N.leb_spec (N.pos k) (N.pos n)); destruct (N.leb_spec (N.pos k) (N.pred (N.pos n))); auto; lia. }
    destruct (Nat.eqb (ident last) i) eqn:Ei.
    + split; [split; [exact Sh1| apply Hord; exact Ho]|].
      exists last. split; [apply Nat.eqb_eq; auto| exact Hp].
    + assert (Hex1 : exists x, In x (elements t1) /\ ident x = i).
      { destruct Hex as (x & Hin & Hi). exists x. split; auto.
        eapply Permutation_in in Hin; [|exact Hp]. destruct Hin as [<-|]; auto.
        apply Nat.eqb_neq in Ei. contradiction. }
      pose proof (find_path_complete t1 i Hex1) as Hf.
      destruct (find_path ident t1 i) as [p|] eqn:Ef; [|contradiction].
      destruct (find_path_lookup _ _ _ Ef) as (old & Hold & Hio).
      split; [split|].
      * intros k. simpl. rewrite place_occb_occ by (eapply lookup_occb; eauto). apply Sh1.
      * simpl. apply place_ord. apply Hord; exact Ho.
      * exists old. split; auto. simpl.
        rewrite Hp. pose proof (place_perm_occ p t1 last old Hold) as PP.
        apply Permutation_sym. exact PP.
Qed.

(* The root is a least element. *)
Theorem heap_min_least h x : heap_inv h -> heap_min h = Some x ->
  Forall (le x) (elements (h_tree h)).
Proof. intros [_ Ho] Hm. apply heap_ord_root_le; auto. Qed.

Theorem heap_min_none h : heap_inv h -> heap_min h = None -> elements (h_tree h) = [].
Proof. intros _. unfold heap_min. destruct (h_tree h); simpl; [auto|discriminate]. Qed.

Lemma heap_init_inv : heap_inv (@heap_init elt).
Proof. split; [intros k; simpl; apply occb_leaf| exact I]. Qed.

End HeapProofs.
