(* Proofs about Model/Udp.v.
   Part A: what uv__udp_sendmsgv hands to the OS (the try_send2 prefix rule).
   Part B: every trace of the model is accepted by the send monitor (invariant).
   Part C: what an accepted trace satisfies (order, callbacks, status, getters).
   Part D: the buffer monitor (alloc_cb / recv_cb hand-back). *)
From UV Require Import Lib.Base Model.Udp.
From Coq Require Import Sorting.Sorted.

Local Open Scope Z_scope.

Lemma BATCH_eq : BATCH = 20%nat.
Proof. reflexivity. Qed.
Local Opaque BATCH.

(* ------------------------------------------------------------------ *)
(* lists *)
Lemma firstn_plus {A} (a b : nat) (l : list A) :
  firstn (a + b) l = firstn a l ++ firstn b (skipn a l).
Proof.
  revert l; induction a as [|a IH]; intros l; simpl; [reflexivity|].
  destruct l as [|x l]; simpl.
  - now rewrite firstn_nil.
  - now rewrite IH.
Qed.

Lemma skipn_plus {A} (a b : nat) (l : list A) : skipn a (skipn b l) = skipn (b + a) l.
Proof.
  revert l; induction b as [|b IH]; intros l; simpl; [reflexivity|].
  destruct l; simpl; [now rewrite skipn_nil|apply IH].
Qed.

Lemma firstn_firstn_le {A} (a b : nat) (l : list A) :
  (a <= b)%nat -> firstn a (firstn b l) = firstn a l.
Proof. intros H. rewrite firstn_firstn. now rewrite Nat.min_l. Qed.

Lemma handed_app a b : handed (a ++ b) = handed a ++ handed b.
Proof. apply flat_map_app. Qed.

(* ------------------------------------------------------------------ *)
(* the EINTR retry loop *)
Lemma send_retry_spec mk : forall o a ev o',
  send_retry mk o = (a, ev, o') ->
  is_eintr a = false /\
  (length o' <= length o)%nat /\ (o <> [] -> (length o' < length o)%nat) /\
  exists pre, ev = map mk pre ++ [mk a] /\ Forall (fun x => is_eintr x = true) pre.
Proof.
  induction o as [|x o IH]; intros a ev o' H; simpl in H.
  - inversion H; subst. repeat split; simpl; auto; try congruence.
    exists []. split; auto.
  - destruct (is_eintr x) eqn:Ex.
    + destruct (send_retry mk o) as [[a1 ev1] o1] eqn:E. inversion H; subst.
      destruct (IH _ _ _ eq_refl) as (Ha & Hl & _ & pre & Hev & Hpre).
      repeat split; auto; simpl; try lia.
      exists (x :: pre). subst ev1. split; [reflexivity|]. constructor; auto.
    + inversion H; subst. repeat split; simpl; auto; try lia.
      exists []. split; auto.
Qed.

Definition is_sys (e : event) : bool :=
  match e with ESys1 _ _ | ESysN _ _ => true | _ => false end.

(* what the monitor records as the OS error of a datagram *)
Definition err_of (e : event) : list (nat * Z) :=
  match e with
  | ESys1 x (SErr p) => if real_err (Z.pos p) then [(x, - Z.pos p)] else []
  | ESysN (x :: _) (SErr p) => if real_err (Z.pos p) then [(x, - Z.pos p)] else []
  | _ => []
  end.
Definition errs_of (tr : list event) : list (nat * Z) := flat_map err_of tr.

Lemma errs_of_app a b : errs_of (a ++ b) = errs_of a ++ errs_of b.
Proof. apply flat_map_app. Qed.

Lemma eintr_inv x : is_eintr x = true -> x = SErr 4.
Proof.
  destruct x as [r|e]; unfold is_eintr; [discriminate|]. intros H.
  apply Z.eqb_eq in H. unfold EINTR in H. f_equal. lia.
Qed.

(* [k] is the kernel contract applied to an answer; it leaves errors alone *)
Lemma retry_pre_N seqs (k : sans -> sans) pre :
  (forall e, k (SErr e) = SErr e) ->
  Forall (fun x => is_eintr x = true) pre ->
  let tr := map (fun a => ESysN seqs (k a)) pre in
  handed tr = [] /\ errs_of tr = [] /\ forallb is_sys tr = true.
Proof.
  intros Hk. induction 1 as [|x pre Hx _ IH]; simpl; auto.
  apply eintr_inv in Hx; subst x. rewrite Hk. simpl in *.
  destruct IH as (H1 & H2 & H3). unfold handed, errs_of in *. simpl.
  rewrite H1, H3. destruct seqs; simpl; auto.
Qed.

Lemma retry_pre_1 seq (k : sans -> sans) pre :
  (forall e, k (SErr e) = SErr e) ->
  Forall (fun x => is_eintr x = true) pre ->
  let tr := map (fun a => ESys1 seq (k a)) pre in
  handed tr = [] /\ errs_of tr = [] /\ forallb is_sys tr = true.
Proof.
  intros Hk. induction 1 as [|x pre Hx _ IH]; simpl; auto.
  apply eintr_inv in Hx; subst x. rewrite Hk. simpl in *.
  destruct IH as (H1 & H2 & H3). unfold handed, errs_of in *. simpl.
  now rewrite H1, H3.
Qed.

Lemma okp_le m : (okp m <= length m)%nat.
Proof. induction m as [|d m IH]; simpl; [lia|]. destruct (d_nb d <=? IOV_MAX)%N; lia. Qed.

Lemma clamp_le m a r : clamp m a = SRet r -> (r <= N.of_nat (okp m))%N.
Proof.
  unfold clamp. destruct a as [r0|e]; [|discriminate].
  destruct m as [|d m'].
  - intros H; inversion H. simpl. lia.
  - destruct (okp (d :: m')) as [|k]; [discriminate|]. intros H; inversion H. lia.
Qed.

Lemma clamp_not_eintr m a : is_eintr a = false -> is_eintr (clamp m a) = false.
Proof.
  unfold clamp. destruct a as [r|e]; auto. intros _.
  destruct m as [|d m']; [reflexivity|]. destruct (okp (d :: m')); reflexivity.
Qed.

Lemma clamp1_not_eintr d a : is_eintr a = false -> is_eintr (clamp1 d a) = false.
Proof. destruct a as [r|e]; simpl; auto. intros _. destruct (d_nb d <=? IOV_MAX)%N; reflexivity. Qed.

(* a hard error: not EINTR, and not mapped to UV_EAGAIN *)
Lemma map_errno_real p :
  is_eintr (SErr p) = false -> map_errno (Z.pos p) <> UV_EAGAIN ->
  real_err (Z.pos p) = true /\ map_errno (Z.pos p) = - Z.pos p.
Proof.
  unfold is_eintr, map_errno, real_err. intros H1 H2. rewrite H1.
  destruct (Z.pos p =? EAGAIN) eqn:A; destruct (Z.pos p =? ENOBUFS) eqn:B;
    cbn [orb negb] in *; try congruence; auto.
Qed.

Lemma map_errno_neg p : map_errno (Z.pos p) < 0.
Proof. unfold map_errno, UV_EAGAIN. destruct (_ || _); lia. Qed.

(* ------------------------------------------------------------------ *)
(* Part A.  uv__udp_sendmsg1 *)
Lemma sendmsg1_spec d o res ev o' :
  sendmsg1 d o = (res, ev, o') ->
  forallb is_sys ev = true /\ (length o' <= length o)%nat /\
  (o <> [] -> (length o' < length o)%nat) /\
  ((res = 1 /\ handed ev = [d_seq d]) \/
   (res < 0 /\ handed ev = [] /\
    (res <> UV_EAGAIN -> In (d_seq d, res) (errs_of ev)))).
Proof.
  unfold sendmsg1.
  destruct (send_retry (fun a => ESys1 (d_seq d) (clamp1 d a)) o) as [[a ev1] o1] eqn:E.
  intros H; inversion H; subst; clear H.
  destruct (send_retry_spec _ _ _ _ _ E) as (Ha & Hl & Hl' & pre & Hev & Hpre).
  destruct (retry_pre_1 (d_seq d) (clamp1 d) pre (fun e => eq_refl) Hpre) as (P1 & P2 & P3). subst ev.
  rewrite forallb_app, handed_app, errs_of_app, P1, P2, P3.
  apply (clamp1_not_eintr d) in Ha.
  destruct (clamp1 d a) as [r|p]; simpl.
  - repeat split; auto.
  - repeat split; auto. right. split; [apply map_errno_neg|]. split; [reflexivity|].
    intros Hne. destruct (map_errno_real p Ha Hne) as (Hr & Hm).
    rewrite Hr, Hm. simpl. auto.
Qed.

Lemma vexit_pos nsent a : 0 < nsent -> vexit nsent a = nsent.
Proof. intros H. unfold vexit. destruct (0 <? nsent) eqn:E; [reflexivity|lia]. Qed.

Lemma vexit_ret_nonneg nsent r : 0 <= nsent -> 0 <= vexit nsent (SRet r).
Proof. intros H. unfold vexit. destruct (0 <? nsent); lia. Qed.

Lemma vexit_err nsent p : nsent <= 0 -> vexit nsent (SErr p) = map_errno (Z.pos p).
Proof. intros H. unfold vexit. destruct (0 <? nsent) eqn:E; [lia|reflexivity]. Qed.

Lemma skipn_cons_nth {A} (i : nat) (l : list A) :
  (i < length l)%nat -> exists d r, nth_error l i = Some d /\ skipn i l = d :: r.
Proof.
  revert l; induction i as [|i IH]; intros [|x l] H; simpl in *; try lia.
  - eauto.
  - apply IH. lia.
Qed.

(* the sendmmsg loop: events, oracle, errors *)
Lemma chunk_loop_basic fx : forall fuel ds i nsent o res ev o',
  chunk_loop fx fuel ds i nsent o = (res, ev, o') ->
  0 <= nsent ->
  forallb is_sys ev = true /\ (length o' <= length o)%nat /\
  (0 < nsent -> 0 < res) /\
  (res < 0 -> res <> UV_EAGAIN ->
     handed ev = [] /\
     exists d, nth_error ds i = Some d /\ In (d_seq d, res) (errs_of ev)).
Proof.
  induction fuel as [|f IH]; intros ds i nsent o res ev o' H Hn; simpl in H.
  - inversion H; subst. split; [reflexivity|]. split; [lia|]. split.
    + intros. now rewrite vexit_pos.
    + intros Hneg. pose proof (vexit_ret_nonneg nsent 0 Hn). lia.
  - destruct (length ds <=? i)%nat eqn:Ei.
    + inversion H; subst. split; [reflexivity|]. split; [lia|]. split.
      * intros. now rewrite vexit_pos.
      * intros Hneg. pose proof (vexit_ret_nonneg nsent 0 Hn). lia.
    + apply Nat.leb_gt in Ei.
      destruct (skipn_cons_nth i ds Ei) as (d & rest & Hd & Hsk).
      set (m := firstn BATCH (skipn i ds)) in *.
      assert (Hm : exists m', m = d :: m').
      { unfold m. rewrite Hsk, BATCH_eq. simpl. eauto. }
      destruct Hm as (m' & Hm).
      destruct (send_retry (fun a => ESysN (map d_seq m) (clamp m a)) o)
        as [[a0 ev1] o1] eqn:E.
      destruct (send_retry_spec _ _ _ _ _ E) as (Ha & Hl & _ & pre & Hev & Hpre).
      destruct (retry_pre_N (map d_seq m) (clamp m) pre (fun e => eq_refl) Hpre) as (P1 & P2 & P3).
      destruct (clamp m a0) as [r|p] eqn:Ec.
      * destruct (r <? 1)%N eqn:Er.
        -- inversion H; subst res ev o'. subst ev1.
           rewrite forallb_app, P3. split; [reflexivity|]. split; [lia|]. split.
           ++ intros. now rewrite vexit_pos.
           ++ intros Hneg. pose proof (vexit_ret_nonneg nsent r Hn). lia.
        -- apply N.ltb_ge in Er.
           destruct (chunk_loop fx f ds ((if fx then i else (i + length m)%nat) + N.to_nat r)
                       (nsent + Z.of_N r) o1) as [[res2 ev2] o2] eqn:E2.
           inversion H; subst res ev o'.
           destruct (IH _ _ _ _ _ _ _ E2) as (Q1 & Q2 & Q3 & Q4); [lia|].
           assert (0 < res2) by (apply Q3; lia).
           subst ev1. rewrite !forallb_app, P3, Q1.
           split; [reflexivity|]. split; [lia|]. split; [auto|lia].
      * inversion H; subst res ev o'. subst ev1.
        rewrite forallb_app, handed_app, errs_of_app, P1, P2, P3.
        apply (clamp_not_eintr m) in Ha. rewrite Ec in *.
        split; [reflexivity|]. split; [lia|]. split.
        -- intros. now rewrite vexit_pos.
        -- intros Hneg Hne.
           assert (Hle : nsent <= 0).
           { destruct (Z.ltb_spec 0 nsent); [|lia]. rewrite vexit_pos in Hneg; lia. }
           rewrite vexit_err in * by exact Hle.
           destruct (map_errno_real p Ha Hne) as (Hr & Hmm).
           split; [reflexivity|]. exists d. split; [exact Hd|].
           rewrite Hm. simpl. rewrite Hr, Hmm. simpl. auto.
Qed.

(* one round of the loop: what the sendmmsg call (with its EINTR retries) handed over *)
Lemma round_spec m o a0 ev1 o1 :
  send_retry (fun a => ESysN (map d_seq m) (clamp m a)) o = (a0, ev1, o1) ->
  match clamp m a0 with
  | SErr p => handed ev1 = []
  | SRet r => (r <= N.of_nat (length m))%N /\ (r <= N.of_nat (okp m))%N /\
              handed ev1 = map d_seq (firstn (N.to_nat r) m)
  end.
Proof.
  intros E.
  destruct (send_retry_spec _ _ _ _ _ E) as (Ha & Hl & _ & pre & Hev & Hpre).
  destruct (retry_pre_N (map d_seq m) (clamp m) pre (fun e => eq_refl) Hpre) as (P1 & P2 & P3).
  subst ev1. rewrite handed_app, P1. simpl.
  destruct (clamp m a0) as [r|p] eqn:Ec; simpl.
  - pose proof (clamp_le _ _ _ Ec). pose proof (okp_le m). split; [lia|]. split; [lia|].
    rewrite app_nil_r. apply firstn_map.
  - reflexivity.
Qed.

Lemma batch_len {A} (l : list A) : (length (firstn BATCH l) <= BATCH)%nat.
Proof. apply firstn_le_length. Qed.

Lemma batch_len' {A} (l : list A) : (length (firstn BATCH l) <= length l)%nat.
Proof. rewrite firstn_length. lia. Qed.

(* the repaired index arithmetic: exactly a prefix is handed over, for every count *)
Lemma chunk_loop_fixed : forall fuel ds i nsent o res ev o',
  chunk_loop true fuel ds i nsent o = (res, ev, o') ->
  nsent = Z.of_nat i -> (i <= length ds)%nat ->
  exists k, (i + k <= length ds)%nat /\
    handed ev = map d_seq (firstn k (skipn i ds)) /\
    (0 < Z.of_nat (i + k) -> res = Z.of_nat (i + k)) /\
    ((i + k = 0)%nat -> res <= 0).
Proof.
  induction fuel as [|f IH]; intros ds i nsent o res ev o' H Hn Hi; simpl in H.
  - inversion H; subst. exists 0%nat. rewrite Nat.add_0_r. simpl.
    split; [lia|]. split; [reflexivity|]. split.
    + intros. now rewrite vexit_pos.
    + intros. subst i. reflexivity.
  - destruct (length ds <=? i)%nat eqn:Ei.
    + inversion H; subst. exists 0%nat. rewrite Nat.add_0_r. simpl.
      split; [lia|]. split; [reflexivity|]. split.
      * intros. now rewrite vexit_pos.
      * intros. subst i. reflexivity.
    + apply Nat.leb_gt in Ei.
      set (m := firstn BATCH (skipn i ds)) in *.
      assert (Hml : (length m <= length ds - i)%nat).
      { unfold m. pose proof (batch_len' (skipn i ds)). rewrite skipn_length in H0. lia. }
      destruct (send_retry (fun a => ESysN (map d_seq m) (clamp m a)) o)
        as [[a0 ev1] o1] eqn:E.
      pose proof (round_spec m o a0 ev1 o1 E) as R.
      destruct (clamp m a0) as [r|p] eqn:Ec.
      * destruct R as (Rle & Rok & Rh).
        destruct (r <? 1)%N eqn:Er.
        -- apply N.ltb_lt in Er. assert (r = 0%N) by lia. subst r.
           inversion H; subst res ev o'. exists 0%nat. rewrite Nat.add_0_r.
           split; [lia|]. split; [exact Rh|]. split.
           ++ intros. now rewrite vexit_pos by lia.
           ++ intros. subst. reflexivity.
        -- apply N.ltb_ge in Er.
           destruct (chunk_loop true f ds (i + N.to_nat r) (nsent + Z.of_N r) o1)
             as [[res2 ev2] o2] eqn:E2.
           inversion H; subst res ev o'.
           destruct (IH _ _ _ _ _ _ _ E2) as (k' & K1 & K2 & K3 & K4); [lia|lia|].
           exists (N.to_nat r + k')%nat. split; [lia|]. split.
           ++ rewrite handed_app, Rh, K2, firstn_plus, map_app, skipn_plus.
              f_equal. unfold m. rewrite firstn_firstn_le; [reflexivity|].
              pose proof (batch_len (skipn i ds)). fold m in H0. lia.
           ++ rewrite Nat.add_assoc. split; [exact K3|]. intros. lia.
      * inversion H; subst res ev o'. exists 0%nat. rewrite Nat.add_0_r.
        split; [lia|]. split; [exact R|]. split.
        -- intros. now rewrite vexit_pos by lia.
        -- intros. subst. simpl. rewrite vexit_err by lia.
           pose proof (map_errno_neg p). lia.
Qed.

(* the arithmetic as written: a batch that fits one sendmmsg call is still a prefix *)
Lemma chunk_loop_small : forall f ds o res ev o',
  (length ds <= BATCH)%nat ->
  chunk_loop false (S (S f)) ds 0 0 o = (res, ev, o') ->
  exists k, (k <= length ds)%nat /\
    handed ev = map d_seq (firstn k ds) /\
    (0 < Z.of_nat k -> res = Z.of_nat k) /\ (k = 0%nat -> res <= 0).
Proof.
  intros f ds o res ev o' Hs H.
  change (chunk_loop false (S (S f)) ds 0 0 o) with
    (if (length ds <=? 0)%nat then (vexit 0 (SRet 0), @nil event, o)
     else
       let m := firstn BATCH (skipn 0 ds) in
       let n := length m in
       let i1 := (0 + n)%nat in
       let '(a0, ev, o1) := send_retry (fun a => ESysN (map d_seq m) (clamp m a)) o in
       match clamp m a0 with
       | SErr e => (vexit 0 (SErr e), ev, o1)
       | SRet r =>
           if (r <? 1)%N then (vexit 0 (SRet r), ev, o1)
           else
             let '(res, ev2, o2) :=
               chunk_loop false (S f) ds (i1 + N.to_nat r)%nat (0 + Z.of_N r) o1 in
             (res, ev ++ ev2, o2)
       end) in H.
  destruct (length ds <=? 0)%nat eqn:E0.
  - inversion H; subst. exists 0%nat.
    split; [lia|]. split; [reflexivity|]. split; [lia|]. intros _. unfold vexit. simpl. lia.
  - cbv zeta in H. simpl skipn in H. rewrite (firstn_all2 ds) in H by exact Hs.
    destruct (send_retry (fun a => ESysN (map d_seq ds) (clamp ds a)) o)
      as [[a0 ev1] o1] eqn:E.
    pose proof (round_spec ds o a0 ev1 o1 E) as R.
    destruct (clamp ds a0) as [r|p] eqn:Ec.
    + destruct R as (Rle & Rok & Rh).
      destruct (r <? 1)%N eqn:Er.
      * apply N.ltb_lt in Er. assert (r = 0%N) by lia. subst r.
        inversion H; subst res ev o'. exists 0%nat.
        split; [lia|]. split; [exact Rh|]. split; [lia|]. intros. reflexivity.
      * apply N.ltb_ge in Er.
        simpl chunk_loop in H.
        destruct (length ds <=? length ds + N.to_nat r)%nat eqn:E3.
        2:{ apply Nat.leb_gt in E3. lia. }
        inversion H; subst res ev o'. exists (N.to_nat r).
        split; [lia|]. split; [now rewrite app_nil_r|]. split.
        -- intros. rewrite vexit_pos by lia. lia.
        -- intros. lia.
    + inversion H; subst res ev o'. exists 0%nat.
      split; [lia|]. split; [exact R|]. split; [lia|].
      intros. rewrite vexit_err by lia. pose proof (map_errno_neg p). lia.
Qed.

(* uv__udp_sendmsgv *)
Lemma sendmsgv_basic fx ds o res ev o' :
  sendmsgv fx ds o = (res, ev, o') ->
  forallb is_sys ev = true /\ (length o' <= length o)%nat /\
  (res < 0 -> res <> UV_EAGAIN ->
     handed ev = [] /\ exists d, nth_error ds 0 = Some d /\ In (d_seq d, res) (errs_of ev)).
Proof.
  unfold sendmsgv. destruct ds as [|d [|d2 l]]; intros H.
  - inversion H; subst. repeat split; auto; lia.
  - destruct (sendmsg1_spec _ _ _ _ _ H) as (S1 & S2 & _ & [(R & Hh)|(R & Hh & He)]).
    + repeat split; auto; lia.
    + repeat split; auto. exists d. split; auto.
  - destruct (chunk_loop_basic _ _ _ _ _ _ _ _ _ H) as (Q1 & Q2 & _ & Q4); [lia|].
    repeat split; auto; apply Q4; auto.
Qed.

Lemma sendmsgv_prefix fx ds o res ev o' :
  sendmsgv fx ds o = (res, ev, o') -> (fx = true \/ (length ds <= BATCH)%nat) ->
  exists k, (k <= length ds)%nat /\ handed ev = map d_seq (firstn k ds) /\
    (0 < res -> res = Z.of_nat k) /\ (res <= 0 -> k = 0%nat).
Proof.
  unfold sendmsgv. destruct ds as [|d [|d2 l]]; intros H Hc.
  - inversion H; subst. exists 0%nat. simpl. repeat split; auto; lia.
  - destruct (sendmsg1_spec _ _ _ _ _ H) as (S1 & S2 & _ & [(R & Hh)|(R & Hh & He)]).
    + exists 1%nat. simpl. repeat split; auto; lia.
    + exists 0%nat. simpl. repeat split; auto; lia.
  - assert (exists k, (k <= length (d :: d2 :: l))%nat /\
              handed ev = map d_seq (firstn k (d :: d2 :: l)) /\
              (0 < Z.of_nat k -> res = Z.of_nat k) /\ (k = 0%nat -> res <= 0)) as (k & K1 & K2 & K3 & K4).
    { destruct fx.
      - destruct (chunk_loop_fixed _ _ _ _ _ _ _ _ H eq_refl) as (k & K1 & K2 & K3 & K4); [lia|].
        exists k. simpl in K1, K3, K4. repeat split; auto.
      - destruct Hc as [Hc|Hc]; [discriminate|].
        apply (chunk_loop_small _ _ _ _ _ _ Hc H). }
    exists k. repeat split; auto.
    + intros. destruct k; [|apply K3; lia]. specialize (K4 eq_refl). lia.
    + intros. destruct k; [reflexivity|]. assert (res = Z.of_nat (S k)) by (apply K3; lia). lia.
Qed.

Lemma mk_batch_seq addr : forall lens s, map d_seq (mk_batch s addr lens) = seq s (length lens).
Proof. induction lens as [|l ls IH]; intros s; simpl; [reflexivity|]. now rewrite IH. Qed.

Lemma mk_batch_length addr lens s : length (mk_batch s addr lens) = length lens.
Proof. rewrite <- (map_length d_seq), mk_batch_seq. apply seq_length. Qed.

Lemma firstn_seq_le : forall k n s, (k <= n)%nat -> firstn k (seq s n) = seq s k.
Proof.
  induction k as [|k IH]; intros n s H; simpl; [reflexivity|].
  destruct n; [lia|]. simpl. f_equal. apply IH. lia.
Qed.

(* The try_send2 rule of the property: a result n > 0 means exactly the first n
   datagrams of the batch were handed to the OS, in order. *)
Definition try_send2_prefix (fx : bool) : Prop :=
  forall s lens flags addr s' ev n,
    udp_try_send2 fx s lens flags addr = (s', ev) ->
    In (ETry2 (next_seq s) (length lens) n) ev -> 0 < n ->
    handed ev = seq (next_seq s) (Z.to_nat n).

Lemma try_send2_prefix_when fx :
  forall s lens flags addr s' ev n,
    (fx = true \/ (length lens <= BATCH)%nat) ->
    udp_try_send2 fx s lens flags addr = (s', ev) ->
    In (ETry2 (next_seq s) (length lens) n) ev -> 0 < n ->
    handed ev = seq (next_seq s) (Z.to_nat n).
Proof.
  intros s lens flags addr s' ev n Hc H Hin Hn. unfold udp_try_send2 in H.
  destruct (length lens <? 1)%nat.
  { inversion H; subst. destruct Hin as [E|[]]. inversion E. unfold UV_EINVAL in *. lia. }
  destruct (negb (flags =? 0)).
  { inversion H; subst. destruct Hin as [E|[]]. inversion E. unfold UV_EINVAL in *. lia. }
  destruct (0 <? sq_count (bump_seq (length lens) s)).
  { inversion H; subst. destruct Hin as [E|[]]. inversion E. unfold UV_EAGAIN in *. lia. }
  destruct (sendmsgv fx (mk_batch (next_seq s) addr lens) (os (bump_seq (length lens) s)))
    as [[r ev0] o'] eqn:E.
  inversion H; subst s' ev. clear H.
  destruct (sendmsgv_basic _ _ _ _ _ _ E) as (Hs & _ & _).
  destruct Hin as [Hin|Hin]; [discriminate Hin|].
  change (handed (EName (map (fun d => (d_seq d, d_dst d, d_nb d)) (mk_batch (next_seq s) addr lens))
                    :: ev0 ++ [ETry2 (next_seq s) (length lens) r]))
    with (handed (ev0 ++ [ETry2 (next_seq s) (length lens) r])).
  apply in_app_or in Hin. destruct Hin as [Hin|[Hin|[]]].
  { rewrite forallb_forall in Hs. apply Hs in Hin. discriminate. }
  inversion Hin; subst r.
  destruct (sendmsgv_prefix _ _ _ _ _ _ E) as (k & K1 & K2 & K3 & K4).
  { rewrite mk_batch_length. exact Hc. }
  rewrite mk_batch_length in K1.
  rewrite handed_app, K2. simpl. rewrite app_nil_r.
  rewrite <- firstn_map, mk_batch_seq, firstn_seq_le by exact K1.
  rewrite (K3 Hn). now rewrite Nat2Z.id.
Qed.

(* with the repaired index arithmetic the rule holds for every batch *)
Lemma try_send2_prefix_fixed : try_send2_prefix true.
Proof. intros s lens flags addr s' ev n. apply try_send2_prefix_when. now left. Qed.

(* with the arithmetic as written it holds for batches of at most 20 *)
Lemma try_send2_prefix_small fx :
  forall s lens flags addr s' ev n,
    (length lens <= 20)%nat ->
    udp_try_send2 fx s lens flags addr = (s', ev) ->
    In (ETry2 (next_seq s) (length lens) n) ev -> 0 < n ->
    handed ev = seq (next_seq s) (Z.to_nat n).
Proof.
  intros s lens flags addr s' ev n H. apply try_send2_prefix_when. right. now rewrite BATCH_eq.
Qed.

(* ... and fails for 50 datagrams all of which the kernel accepts *)
Definition witness_state : st := init false false [SRet 20; SRet 10] [] [].
Definition witness_lens : list (N * N) := repeat (10%N, 1%N) 50.

Lemma try_send2_prefix_false : ~ try_send2_prefix false.
Proof.
  intros H.
  specialize (H witness_state witness_lens 0 1%nat
                (fst (udp_try_send2 false witness_state witness_lens 0 1%nat))
                (snd (udp_try_send2 false witness_state witness_lens 0 1%nat)) 30).
  assert (E : handed (snd (udp_try_send2 false witness_state witness_lens 0 1%nat)) =
              seq 0 20 ++ seq 40 10) by (vm_compute; reflexivity).
  rewrite E in H.
  assert (seq 0 20 ++ seq 40 10 = seq (next_seq witness_state) (Z.to_nat 30)) as C.
  { apply H.
    - now destruct (udp_try_send2 false witness_state witness_lens 0 1%nat).
    - vm_compute. auto 60.
    - lia. }
  vm_compute in C. discriminate C.
Qed.

(* ------------------------------------------------------------------ *)
(* Part B.  The send monitor accepts every trace of the model. *)

Definition hmax (hs : list nat) : nat := match hs with [] => O | h :: _ => S h end.

Lemma newer_hmax hs x : newer hs x = true <-> (hmax hs <= x)%nat.
Proof.
  destruct hs as [|h hs]; simpl; [split; [lia|reflexivity]|].
  rewrite Nat.ltb_lt. lia.
Qed.

Lemma sorted_gt_hmax hs : StronglySorted gt hs -> Forall (fun h => (h < hmax hs)%nat) hs.
Proof.
  intros H. destruct hs as [|h hs]; [constructor|]. simpl.
  apply StronglySorted_inv in H. destruct H as (_ & H).
  constructor; [lia|]. eapply Forall_impl; [|exact H]. simpl. intros; lia.
Qed.

Lemma sorted_app_lt (l1 l2 : list nat) :
  StronglySorted lt l1 -> StronglySorted lt l2 ->
  (forall x y, In x l1 -> In y l2 -> (x < y)%nat) ->
  StronglySorted lt (l1 ++ l2).
Proof.
  induction l1 as [|a l1 IH]; intros H1 H2 H; simpl; [exact H2|].
  apply StronglySorted_inv in H1. destruct H1 as (H1 & Ha).
  constructor.
  - apply IH; auto. intros; apply H; simpl; auto.
  - apply Forall_app. split; [exact Ha|].
    apply Forall_forall. intros y Hy. apply H; simpl; auto.
Qed.

Lemma sorted_app_inv (l1 l2 : list nat) :
  StronglySorted lt (l1 ++ l2) ->
  StronglySorted lt l1 /\ StronglySorted lt l2 /\
  (forall x y, In x l1 -> In y l2 -> (x < y)%nat).
Proof.
  induction l1 as [|a l1 IH]; simpl; intros H.
  - repeat split; auto. constructor. intros x y [].
  - apply StronglySorted_inv in H. destruct H as (H & Ha).
    destruct (IH H) as (I1 & I2 & I3). apply Forall_app in Ha. destruct Ha as (Ha1 & Ha2).
    repeat split; auto.
    + constructor; auto.
    + intros x y [Hx|Hx] Hy; [subst x|apply I3; auto].
      rewrite Forall_forall in Ha2. apply Ha2. exact Hy.
Qed.

Lemma sorted_firstn (l : list nat) k : StronglySorted lt l -> StronglySorted lt (firstn k l).
Proof.
  intros H. rewrite <- (firstn_skipn k l) in H. apply sorted_app_inv in H. tauto.
Qed.

(* handing over a strictly increasing run of fresh sequence numbers *)
Lemma hand_all_sorted : forall l hs,
  StronglySorted lt l -> Forall (fun x => (hmax hs <= x)%nat) l ->
  hand_all hs l = Some (rev l ++ hs).
Proof.
  induction l as [|x l IH]; intros hs Hs Hf; simpl; [reflexivity|].
  apply StronglySorted_inv in Hs. destruct Hs as (Hs & Hx).
  inversion Hf; subst.
  destruct (newer hs x) eqn:En.
  2:{ apply newer_hmax in H1. congruence. }
  rewrite IH; auto.
  now rewrite <- app_assoc.
Qed.

Lemma sorted_rev_app l hs :
  StronglySorted lt l -> StronglySorted gt hs -> Forall (fun x => (hmax hs <= x)%nat) l ->
  StronglySorted gt (rev l ++ hs).
Proof.
  revert hs. induction l as [|x l IH]; intros hs Hl Hh Hf; simpl; [exact Hh|].
  apply StronglySorted_inv in Hl. destruct Hl as (Hl & Hx). inversion Hf; subst.
  rewrite <- app_assoc. simpl. apply IH; auto.
  constructor; auto. pose proof (sorted_gt_hmax hs Hh) as Hb.
  eapply Forall_impl; [|exact Hb]. simpl. intros; lia.
Qed.

Lemma hmax_rev_app l hs :
  StronglySorted lt l -> Forall (fun x => (hmax hs <= x)%nat) l ->
  forall b, (hmax hs <= b)%nat -> Forall (fun x => (x < b)%nat) l -> (hmax (rev l ++ hs) <= b)%nat.
Proof.
  intros Hl Hf b Hb Hlb. destruct (rev l) as [|y r] eqn:E; simpl; [exact Hb|].
  assert (In y l). { apply in_rev. rewrite E. simpl. auto. }
  rewrite Forall_forall in Hlb. apply Hlb in H. lia.
Qed.

(* the last element handed is the largest *)
Lemma hmax_rev_app_ge l hs :
  StronglySorted lt l -> Forall (fun x => (hmax hs <= x)%nat) l ->
  forall b, (forall x, In x l -> (x < b)%nat) -> (hmax hs <= b)%nat -> (hmax (rev l ++ hs) <= b)%nat.
Proof.
  intros Hl Hf b Hlb Hb. apply hmax_rev_app; auto. apply Forall_forall. exact Hlb.
Qed.

Lemma mon_run_app : forall a b m,
  mon_run m (a ++ b) = match mon_run m a with Some m' => mon_run m' b | None => None end.
Proof.
  induction a as [|e a IH]; intros b m; simpl; [reflexivity|].
  destruct (mon_step m e); [apply IH|reflexivity].
Qed.

Lemma hand_all_app : forall a b hs,
  hand_all hs (a ++ b) = match hand_all hs a with Some h' => hand_all h' b | None => None end.
Proof.
  induction a as [|x a IH]; intros b hs; simpl; [reflexivity|].
  destruct (newer hs x); [apply IH|reflexivity].
Qed.

Definition ext (m : mon) (hs : list nat) (es : list (nat * Z)) : mon :=
  mkMon (m_owed m) (m_next m) hs (es ++ m_errs m) (m_closed m).

(* the monitor over system-call events only *)
Lemma mon_run_sys : forall ev m hs,
  forallb is_sys ev = true ->
  hand_all (m_hand m) (handed ev) = Some hs ->
  mon_run m ev = Some (ext m hs (rev (errs_of ev))).
Proof.
  induction ev as [|e ev IH]; intros m hs Hs Hh; simpl in *.
  - inversion Hh; subst. destruct m; reflexivity.
  - apply andb_prop in Hs. destruct Hs as (He & Hs).
    unfold handed in Hh. simpl in Hh. fold (handed ev) in Hh. rewrite hand_all_app in Hh.
    destruct (hand_all (m_hand m) (handed_by e)) as [h1|] eqn:E1; [|discriminate].
    assert (mon_step m e = Some (ext m h1 (rev (err_of e)))) as St.
    { destruct e; try discriminate; simpl in *.
      - destruct a as [r|p]; simpl in *.
        + unfold mon_sys. simpl. destruct (newer (m_hand m) seq); [|discriminate].
          inversion E1; subst. reflexivity.
        + inversion E1; subst. unfold mon_sys.
          destruct (real_err (Z.pos p)); destruct m; reflexivity.
      - destruct a as [r|p]; simpl in *.
        + unfold mon_sys. rewrite E1. destruct seqs; reflexivity.
        + inversion E1; subst. unfold mon_sys.
          destruct (real_err (Z.pos p)); destruct seqs; destruct m; reflexivity. }
    rewrite St. rewrite (IH (ext m h1 (rev (err_of e))) hs Hs Hh).
    unfold ext, errs_of. simpl. rewrite rev_app_distr, <- app_assoc. reflexivity.
Qed.

(* ---- the invariant ---- *)
Definition strip (r : req) : nat * dgram := (q_id r, q_d r).
Definition strips (s : st) : list (nat * dgram) := map strip (cq s ++ wq s).
Definition skey (p : nat * dgram) : okey := (fst p, d_seq (snd p), Z.of_N (d_len (snd p))).
Definition sseq (p : nat * dgram) : nat := d_seq (snd p).
Definition rseq (r : req) : nat := d_seq (q_d r).
Definition sbytes (l : list (nat * dgram)) : Z :=
  fold_right (fun p a => Z.of_N (d_len (snd p)) + a) 0 l.

Definition cq_ok (m : mon) (r : req) : Prop :=
  if 0 <=? q_status r then In (rseq r) (m_hand m)
  else ~ In (rseq r) (m_hand m) /\
       (In (rseq r, q_status r) (m_errs m) \/
        (q_status r = UV_ECANCELED /\ m_closed m = true)).

Record Inv (s : st) (m : mon) : Prop := mkInv {
  i_owed : m_owed m = map skey (strips s);
  i_count : sq_count s = Z.of_nat (length (strips s));
  i_size : sq_size s = sbytes (strips s);
  i_ids : StronglySorted lt (map fst (strips s));
  i_idb : Forall (fun p => (fst p < next_id s)%nat) (strips s);
  i_next : (m_next m <= next_id s)%nat;
  i_seqs : StronglySorted lt (map sseq (strips s));
  i_seqb : Forall (fun p => (sseq p < next_seq s)%nat) (strips s);
  i_hdesc : StronglySorted gt (m_hand m);
  i_hb : (hmax (m_hand m) <= next_seq s)%nat;
  i_hwq : Forall (fun r => (hmax (m_hand m) <= rseq r)%nat) (wq s);
  i_cq : Forall (cq_ok m) (cq s);
  i_cl : close_pending s = true -> m_closed m = true;
  i_cl2 : close_pending s = true -> closing s = true
}.

Lemma Inv_state s s' m :
  Inv s m ->
  wq s' = wq s -> cq s' = cq s -> sq_size s' = sq_size s -> sq_count s' = sq_count s ->
  (next_id s <= next_id s')%nat -> (next_seq s <= next_seq s')%nat ->
  (close_pending s' = true -> close_pending s = true) ->
  (closing s = true -> closing s' = true) ->
  Inv s' m.
Proof.
  intros [] Hw Hc Hsz Hct Hid Hsq Hcp Hcl.
  assert (Hs : strips s' = strips s) by (unfold strips; now rewrite Hw, Hc).
  constructor; rewrite ?Hs, ?Hw, ?Hc, ?Hsz, ?Hct; auto; try lia.
  - eapply Forall_impl; [|exact i_idb0]. simpl. intros; lia.
  - eapply Forall_impl; [|exact i_seqb0]. simpl. intros; lia.
Qed.

Lemma sseq_strip l : map sseq (map strip l) = map rseq l.
Proof. rewrite map_map. reflexivity. Qed.

Lemma owed_bytes_skey l : owed_bytes (map skey l) = sbytes l.
Proof. induction l as [|p l IH]; simpl; [reflexivity|]. now rewrite IH. Qed.

Lemma sorted_snoc l a :
  StronglySorted lt l -> Forall (fun x => (x < a)%nat) l -> StronglySorted lt (l ++ [a]).
Proof.
  intros H F. apply sorted_app_lt; auto.
  - repeat constructor.
  - intros x y Hx [Hy|[]]. subst y. rewrite Forall_forall in F. auto.
Qed.

Lemma sbytes_app a b : sbytes (a ++ b) = sbytes a + sbytes b.
Proof. induction a as [|p a IH]; simpl; [reflexivity|]. rewrite IH. lia. Qed.

(* uv_udp_send queues a request; the monitor sees ESend *)
Lemma Inv_append s m len addr nb s' :
  Inv s m ->
  wq s' = wq s ++ [mkReq (next_id s) (mkD (next_seq s) len addr nb) 0] -> cq s' = cq s ->
  sq_size s' = sq_size s + Z.of_N len -> sq_count s' = sq_count s + 1 ->
  next_id s' = S (next_id s) -> next_seq s' = (next_seq s + 1)%nat ->
  close_pending s' = close_pending s -> closing s' = closing s ->
  Inv s' (mkMon (m_owed m ++ [(next_id s, next_seq s, Z.of_N len)]) (S (next_id s))
                (m_hand m) (m_errs m) (m_closed m)).
Proof.
  intros [] Hw Hc Hsz Hct Hid Hsq Hcp Hcl.
  assert (Hs : strips s' = strips s ++ [(next_id s, mkD (next_seq s) len addr nb)]).
  { unfold strips. rewrite Hw, Hc, app_assoc, map_app. reflexivity. }
  constructor; simpl; rewrite ?Hs, ?Hcp, ?Hcl; auto.
  - rewrite map_app, i_owed0. reflexivity.
  - rewrite Hct, i_count0, app_length. simpl. lia.
  - rewrite Hsz, i_size0, sbytes_app. simpl. lia.
  - rewrite map_app. simpl. apply sorted_snoc; auto.
    apply Forall_map. exact i_idb0.
  - rewrite Hid. apply Forall_app. split.
    + eapply Forall_impl; [|exact i_idb0]. simpl. intros; lia.
    + repeat constructor.
  - lia.
  - rewrite map_app. simpl. apply sorted_snoc; auto.
    apply Forall_map. exact i_seqb0.
  - rewrite Hsq. apply Forall_app. split.
    + eapply Forall_impl; [|exact i_seqb0]. simpl. intros; lia.
    + repeat constructor. unfold sseq. simpl. lia.
  - rewrite Hsq. lia.
  - rewrite Hw. apply Forall_app. split; auto.
  - rewrite Hc. exact i_cq0.
Qed.

Lemma cq_ok_ext m r l es :
  cq_ok m r -> (forall x, In x l -> x <> rseq r) ->
  cq_ok (ext m (rev l ++ m_hand m) es) r.
Proof.
  unfold cq_ok. simpl. destruct (0 <=? q_status r).
  - intros H _. apply in_or_app. now right.
  - intros (H1 & H2) Hl. split.
    + intros Hin. apply in_app_or in Hin. destruct Hin as [Hin|Hin]; [|auto].
      apply in_rev in Hin. apply (Hl _ Hin). reflexivity.
    + destruct H2 as [H2|H2]; [left; apply in_or_app; now right|now right].
Qed.

Lemma strip_status l f : map strip (map (fun r => with_status r (f r)) l) = map strip l.
Proof. rewrite map_map. reflexivity. Qed.

Lemma rseq_status l f : map rseq (map (fun r => with_status r (f r)) l) = map rseq l.
Proof. rewrite map_map. reflexivity. Qed.

Lemma Inv_seqs_split s m :
  Inv s m ->
  StronglySorted lt (map rseq (cq s)) /\ StronglySorted lt (map rseq (wq s)) /\
  (forall x y, In x (map rseq (cq s)) -> In y (map rseq (wq s)) -> (x < y)%nat).
Proof.
  intros []. unfold strips in i_seqs0. rewrite sseq_strip, map_app in i_seqs0.
  apply sorted_app_inv. exact i_seqs0.
Qed.

Lemma hand_not_in hs x : StronglySorted gt hs -> (hmax hs <= x)%nat -> ~ In x hs.
Proof.
  intros H Hx Hin. pose proof (sorted_gt_hmax hs H) as F. rewrite Forall_forall in F.
  apply F in Hin. lia.
Qed.

Lemma in_firstn {A} k (l : list A) x : In x (firstn k l) -> In x l.
Proof. intros H. rewrite <- (firstn_skipn k l). apply in_or_app. now left. Qed.

Lemma in_skipn {A} k (l : list A) x : In x (skipn k l) -> In x l.
Proof. intros H. rewrite <- (firstn_skipn k l). apply in_or_app. now right. Qed.

(* the first k requests of the write queue were handed over and move to the completed queue *)
Lemma Inv_complete s m k es :
  Inv s m ->
  Inv (complete k s) (ext m (rev (map rseq (firstn k (wq s))) ++ m_hand m) es).
Proof.
  intros HI. destruct (Inv_seqs_split s m HI) as (Sc & Sw & Scw). destruct HI.
  assert (Hs : strips (complete k s) = strips s).
  { unfold strips, complete. simpl. rewrite <- app_assoc, !map_app, strip_status.
    rewrite <- (map_app strip (firstn k (wq s))), firstn_skipn. reflexivity. }
  assert (Sf : StronglySorted lt (map rseq (firstn k (wq s)))).
  { rewrite <- firstn_map. now apply sorted_firstn. }
  assert (Ff : Forall (fun x => (hmax (m_hand m) <= x)%nat) (map rseq (firstn k (wq s)))).
  { apply Forall_map. apply Forall_forall. intros r Hr.
    rewrite Forall_forall in i_hwq0. apply i_hwq0. eapply in_firstn; eauto. }
  assert (Sfs : forall x y, In x (map rseq (firstn k (wq s))) -> In y (map rseq (skipn k (wq s))) ->
                            (x < y)%nat).
  { rewrite <- (firstn_skipn k (wq s)), map_app in Sw. apply sorted_app_inv in Sw. tauto. }
  constructor; rewrite ?Hs; auto.
  - simpl. apply sorted_rev_app; auto.
  - simpl. apply hmax_rev_app_ge; auto. intros x Hx.
    apply in_map_iff in Hx. destruct Hx as (r & Hr & Hin). subst x.
    assert (Hin' : In (strip r) (strips s)).
    { unfold strips. apply in_map. apply in_or_app. right. eapply in_firstn; eauto. }
    rewrite Forall_forall in i_seqb0. apply (i_seqb0 _ Hin').
  - simpl. apply Forall_forall. intros r Hr.
    apply hmax_rev_app_ge; auto.
    + intros x Hx. apply Sfs; auto. now apply in_map.
    + rewrite Forall_forall in i_hwq0. apply i_hwq0. eapply in_skipn; eauto.
  - simpl. apply Forall_app. split.
    + apply Forall_forall. intros r Hr. apply cq_ok_ext.
      * rewrite Forall_forall in i_cq0. auto.
      * intros x Hx. assert (rseq r < x)%nat; [|lia].
        apply Scw; [now apply in_map|]. rewrite <- firstn_map in Hx. eapply in_firstn; eauto.
    + apply Forall_forall. intros r' Hr'. apply in_map_iff in Hr'.
      destruct Hr' as (r & Er & Hr). subst r'. unfold cq_ok. simpl.
      replace (0 <=? Z.of_N (d_len (q_d r))) with true by (symmetry; apply Z.leb_le; lia).
      apply in_or_app. left. rewrite <- in_rev. now apply (in_map rseq) in Hr.
Qed.

Lemma Inv_ext_errs s m es : Inv s m -> Inv s (ext m (m_hand m) es).
Proof.
  intros []. constructor; auto. simpl.
  eapply Forall_impl; [|exact i_cq0]. intros r Hr.
  apply (cq_ok_ext m r [] es Hr). intros x [].
Qed.

(* the head of the write queue failed with n *)
Lemma Inv_fail s m r w n es :
  Inv s m -> wq s = r :: w -> n < 0 -> In (rseq r, n) es ->
  Inv (fail_head n s) (ext m (m_hand m) es).
Proof.
  intros HI Hw Hn He. destruct HI. unfold fail_head. rewrite Hw.
  assert (Hs : strips (set_queues w (cq s ++ [with_status r n]) (sq_size s) (sq_count s) s) = strips s).
  { unfold strips. simpl. rewrite Hw, <- app_assoc. rewrite !map_app. reflexivity. }
  rewrite Hw in i_hwq0. inversion i_hwq0; subst.
  constructor; rewrite ?Hs; auto; simpl.
  - apply Forall_app. split.
    + eapply Forall_impl; [|exact i_cq0]. intros r' Hr'.
      apply (cq_ok_ext m r' [] es Hr'). intros x [].
    + repeat constructor. unfold cq_ok. simpl.
      replace (0 <=? n) with false by (symmetry; apply Z.leb_gt; lia).
      split.
      * apply hand_not_in; auto.
      * left. apply in_or_app. now left.
Qed.

Definition okr (m : mon) (r : st * list event) : Prop :=
  exists m', mon_run m (snd r) = Some m' /\ Inv (fst r) m'.

Lemma okr_bind m s1 e1 s2 e2 :
  okr m (s1, e1) -> (forall m1, Inv s1 m1 -> okr m1 (s2, e2)) -> okr m (s2, e1 ++ e2).
Proof.
  intros (m1 & R1 & I1) H. destruct (H m1 I1) as (m2 & R2 & I2).
  exists m2. simpl in *. rewrite mon_run_app, R1. auto.
Qed.

Lemma okr_nil m s : Inv s m -> okr m (s, []).
Proof. intros H. exists m. auto. Qed.

(* one round of uv__udp_sendmsg: the system calls of uv__udp_sendmsgv on the head of the
   write queue, then the queue update that follows from its result *)
Lemma sendmsgv_queue fx s m n ev o' :
  Inv s m -> sendmsgv fx (map q_d (firstn BATCH (wq s))) (os s) = (n, ev, o') ->
  exists m', mon_run m ev = Some m' /\
    (0 < n -> Inv (complete (Z.to_nat n) s) m') /\
    (n = 0 \/ n = UV_EAGAIN -> Inv s m') /\
    (n < 0 -> n <> UV_EAGAIN -> Inv (fail_head n s) m').
Proof.
  intros HI E.
  destruct (sendmsgv_basic _ _ _ _ _ _ E) as (Hsys & _ & Herr).
  destruct (sendmsgv_prefix _ _ _ _ _ _ E) as (k & K1 & K2 & K3 & K4).
  { right. rewrite map_length. apply batch_len. }
  assert (Hk : (k <= BATCH)%nat).
  { rewrite map_length in K1. pose proof (batch_len (wq s)). lia. }
  assert (Hh : handed ev = map rseq (firstn k (wq s))).
  { rewrite K2, firstn_map, map_map, firstn_firstn_le by exact Hk. reflexivity. }
  destruct (Inv_seqs_split s m HI) as (_ & Sw & _).
  assert (Sf : StronglySorted lt (map rseq (firstn k (wq s)))).
  { rewrite <- firstn_map. now apply sorted_firstn. }
  assert (Ff : Forall (fun x => (hmax (m_hand m) <= x)%nat) (map rseq (firstn k (wq s)))).
  { apply Forall_map. apply Forall_forall. intros r Hr.
    pose proof (i_hwq _ _ HI) as F. rewrite Forall_forall in F. apply F. eapply in_firstn; eauto. }
  pose proof (hand_all_sorted _ (m_hand m) Sf Ff) as Ha. rewrite <- Hh in Ha.
  pose proof (mon_run_sys ev m _ Hsys Ha) as Hr.
  eexists. split; [exact Hr|]. rewrite Hh. split; [|split].
  - intros Hn. rewrite (K3 Hn), Nat2Z.id. now apply Inv_complete.
  - intros Hn. assert (k = 0%nat) by (apply K4; unfold UV_EAGAIN in *; lia). subst k.
    simpl. now apply Inv_ext_errs.
  - intros Hn Hne. assert (k = 0%nat) by (apply K4; lia). subst k. simpl.
    destruct (Herr Hn Hne) as (_ & d0 & Hd0 & Hin).
    destruct (wq s) as [|r w] eqn:Ew.
    + rewrite firstn_nil in Hd0. discriminate.
    + rewrite BATCH_eq in Hd0. simpl in Hd0. inversion Hd0; subst d0.
      eapply Inv_fail; eauto. now rewrite <- in_rev.
Qed.

Lemma Inv_set_os s m o : Inv s m -> Inv (set_os o s) m.
Proof. intros H. eapply Inv_state; eauto. Qed.

Lemma Inv_set_fed s m b : Inv s m -> Inv (set_fed b s) m.
Proof. intros H. eapply Inv_state; eauto. Qed.

Lemma Inv_set_pout s m b : Inv s m -> Inv (set_pout b s) m.
Proof. intros H. eapply Inv_state; eauto. Qed.

Lemma sendmsg_loop_ok fx : forall fuel s m,
  Inv s m -> okr m (sendmsg_loop fx fuel s).
Proof.
  induction fuel as [|f IH]; intros s m HI; simpl.
  - now apply okr_nil.
  - destruct (sendmsgv fx (map q_d (firstn BATCH (wq s))) (os s)) as [[n ev] o'] eqn:E.
    destruct (sendmsgv_queue fx s m n ev o' HI E) as (m' & Hr & H1 & H2 & H3).
    destruct (0 <? n) eqn:En.
    + apply Z.ltb_lt in En. specialize (H1 En).
      assert (HI' : Inv (complete (Z.to_nat n) (set_os o' s)) m').
      { eapply Inv_state; [exact H1| | | | | | | |]; auto. }
      destruct (skipn (Z.to_nat n) (wq s)) eqn:Ew.
      * exists m'. simpl. split; [exact Hr|]. now apply Inv_set_fed.
      * destruct (sendmsg_loop fx f (complete (Z.to_nat n) (set_os o' s))) as [s3 ev'] eqn:E3.
        apply (okr_bind m (complete (Z.to_nat n) (set_os o' s)) ev s3 ev').
        -- exists m'. auto.
        -- intros m1 H1'. rewrite <- E3. now apply IH.
    + apply Z.ltb_ge in En. destruct (n =? 0) eqn:E0.
      * apply Z.eqb_eq in E0.
        destruct (sendmsg_loop fx f (set_os o' s)) as [s3 ev'] eqn:E3.
        apply (okr_bind m (set_os o' s) ev s3 ev').
        -- exists m'. split; [exact Hr|]. apply Inv_set_os. apply H2. now left.
        -- intros m1 H1'. rewrite <- E3. now apply IH.
      * apply Z.eqb_neq in E0. destruct (n =? UV_EAGAIN) eqn:Ea.
        -- apply Z.eqb_eq in Ea. exists m'. split; [exact Hr|]. apply Inv_set_os. apply H2. now right.
        -- apply Z.eqb_neq in Ea. exists m'. split; [exact Hr|].
           apply Inv_set_fed.
           assert (HI' : Inv (fail_head n s) m') by (apply H3; auto; lia).
           unfold fail_head in *. simpl. destruct (wq s) eqn:Ew.
           ++ now apply Inv_set_os.
           ++ eapply Inv_state; [exact HI'| | | | | | | |]; auto.
Qed.

Lemma udp_sendmsg_ok fx s m : Inv s m -> okr m (udp_sendmsg fx s).
Proof.
  intros HI. unfold udp_sendmsg. destruct (wq s).
  - now apply okr_nil.
  - now apply sendmsg_loop_ok.
Qed.

(* ---- try_send / try_send2: what they hand over is fresh and increasing ---- *)
Lemma seq_sorted : forall n s, StronglySorted lt (seq s n).
Proof.
  induction n as [|n IH]; intros s; simpl; constructor; auto.
  apply Forall_forall. intros x Hx. apply in_seq in Hx. lia.
Qed.

Lemma skipn_seq' : forall i n s, skipn i (seq s n) = seq (s + i) (n - i).
Proof.
  induction i as [|i IH]; intros n s; simpl.
  - now rewrite Nat.add_0_r, Nat.sub_0_r.
  - destruct n; simpl; [reflexivity|]. rewrite IH. f_equal. lia.
Qed.

Lemma chunk_loop_range fx : forall fuel ds i nsent o res ev o' s0,
  map d_seq ds = seq s0 (length ds) ->
  chunk_loop fx fuel ds i nsent o = (res, ev, o') ->
  StronglySorted lt (handed ev) /\
  Forall (fun x => (s0 + i <= x < s0 + length ds)%nat) (handed ev).
Proof.
  induction fuel as [|f IH]; intros ds i nsent o res ev o' s0 Hds H; simpl in H.
  - inversion H; subst. simpl. split; constructor.
  - destruct (length ds <=? i)%nat eqn:Ei.
    + inversion H; subst. simpl. split; constructor.
    + apply Nat.leb_gt in Ei.
      set (m := firstn BATCH (skipn i ds)) in *.
      destruct (send_retry (fun a => ESysN (map d_seq m) (clamp m a)) o)
        as [[a0 ev1] o1] eqn:E.
      pose proof (round_spec m o a0 ev1 o1 E) as R.
      assert (Hml : (length m <= length ds - i)%nat).
      { unfold m. pose proof (batch_len' (skipn i ds)). rewrite skipn_length in H0. lia. }
      assert (Hm1 : forall r, (r <= length m)%nat ->
                map d_seq (firstn r m) = seq (s0 + i) r).
      { intros r Hr. unfold m. rewrite firstn_firstn_le.
        2:{ pose proof (batch_len (skipn i ds)). fold m in H0. lia. }
        rewrite <- firstn_map, <- skipn_map, Hds, skipn_seq', firstn_seq_le; [reflexivity|lia]. }
      destruct (clamp m a0) as [r|p] eqn:Ec.
      * destruct R as (Rle & Rok & Rh).
        assert (Hh1 : handed ev1 = seq (s0 + i) (N.to_nat r)) by (rewrite Rh; apply Hm1; lia).
        assert (Hr1 : StronglySorted lt (handed ev1) /\
                      Forall (fun x => (s0 + i <= x < s0 + i + N.to_nat r)%nat) (handed ev1)).
        { rewrite Hh1. split; [apply seq_sorted|]. apply Forall_forall. intros x Hx.
          apply in_seq in Hx. lia. }
        destruct Hr1 as (Hs1 & Hf1).
        destruct (r <? 1)%N eqn:Er.
        -- inversion H; subst res ev o'. split; [exact Hs1|].
           eapply Forall_impl; [|exact Hf1]. simpl. intros; lia.
        -- apply N.ltb_ge in Er.
           destruct (chunk_loop fx f ds ((if fx then i else (i + length m)%nat) + N.to_nat r)
                       (nsent + Z.of_N r) o1) as [[res2 ev2] o2] eqn:E2.
           inversion H; subst res ev o'.
           destruct (IH _ _ _ _ _ _ _ s0 Hds E2) as (Hs2 & Hf2).
           rewrite handed_app. split.
           ++ apply sorted_app_lt; auto. intros x y Hx Hy.
              rewrite Forall_forall in Hf1, Hf2. apply Hf1 in Hx. apply Hf2 in Hy.
              destruct fx; lia.
           ++ apply Forall_app. split.
              ** eapply Forall_impl; [|exact Hf1]. simpl. intros; lia.
              ** eapply Forall_impl; [|exact Hf2]. simpl. intros. destruct fx; lia.
      * inversion H; subst res ev o'. rewrite R. split; constructor.
Qed.

Lemma sendmsgv_range fx ds o res ev o' s0 :
  map d_seq ds = seq s0 (length ds) ->
  sendmsgv fx ds o = (res, ev, o') ->
  StronglySorted lt (handed ev) /\
  Forall (fun x => (s0 <= x < s0 + length ds)%nat) (handed ev).
Proof.
  unfold sendmsgv. destruct ds as [|d [|d2 l]]; intros Hds H.
  - inversion H; subst. simpl. split; constructor.
  - simpl in Hds. inversion Hds.
    destruct (sendmsg1_spec _ _ _ _ _ H) as (_ & _ & _ & [(_ & Hh)|(_ & Hh & _)]); rewrite Hh.
    + split; repeat constructor; simpl; lia.
    + split; constructor.
  - destruct (chunk_loop_range _ _ _ _ _ _ _ _ _ s0 Hds H) as (H1 & H2).
    split; [exact H1|]. eapply Forall_impl; [|exact H2]. simpl. intros; lia.
Qed.

(* the monitor takes fresh sequence numbers while both queues are empty *)
Lemma Inv_ext_fresh s s' m l es :
  Inv s m -> strips s = [] ->
  StronglySorted lt l -> Forall (fun x => (next_seq s <= x < next_seq s')%nat) l ->
  wq s' = wq s -> cq s' = cq s -> sq_size s' = sq_size s -> sq_count s' = sq_count s ->
  (next_id s <= next_id s')%nat -> (next_seq s <= next_seq s')%nat ->
  (close_pending s' = true -> close_pending s = true) ->
  (closing s = true -> closing s' = true) ->
  Inv s' (ext m (rev l ++ m_hand m) es).
Proof.
  intros HI He Hl Hf Hw Hc Hsz Hct Hid Hsq Hcp Hcl.
  assert (Hwc : wq s = [] /\ cq s = []).
  { unfold strips in He. apply map_eq_nil in He. apply app_eq_nil in He. tauto. }
  destruct Hwc as (Hw0 & Hc0).
  assert (Hs : strips s' = []) by (unfold strips; now rewrite Hw, Hc, Hw0, Hc0).
  assert (Ff : Forall (fun x => (hmax (m_hand m) <= x)%nat) l).
  { eapply Forall_impl; [|exact Hf]. simpl. intros. pose proof (i_hb _ _ HI). lia. }
  destruct HI. rewrite He in *.
  constructor; simpl; rewrite ?Hs, ?Hw, ?Hc, ?Hw0, ?Hc0, ?Hsz, ?Hct; auto; try lia.
  - apply sorted_rev_app; auto.
  - apply hmax_rev_app_ge; auto; try lia.
    intros x Hx. rewrite Forall_forall in Hf. apply Hf in Hx. lia.
Qed.

(* ---- the API calls ---- *)
Lemma check_before_send_cases s addr :
  check_before_send s addr = 0 \/ check_before_send s addr < 0.
Proof.
  unfold check_before_send, UV_EISCONN, UV_EDESTADDRREQ. cbv zeta.
  destruct (_ && _); [right; lia|].
  destruct (_ && _); [right; lia|left; reflexivity].
Qed.

Lemma udp_send_ok fx s m len addr nb : Inv s m -> okr m (udp_send fx s len addr nb).
Proof.
  intros HI. unfold udp_send.
  destruct (check_before_send s addr <? 0) eqn:Ec.
  - apply Z.ltb_lt in Ec. exists m. simpl.
    replace (check_before_send s addr =? 0) with false by (symmetry; apply Z.eqb_neq; lia).
    split; [reflexivity|]. eapply Inv_state; [exact HI| | | | | | | |]; simpl; auto; lia.
  - set (s0 := bump_id (bump_seq 1 s)).
    set (s1 := set_active true
                 (set_queues (wq s0 ++ [mkReq (next_id s) (mkD (next_seq s) len addr nb) 0]) (cq s0)
                             (sq_size s0 + Z.of_N len) (sq_count s0 + 1) s0)).
    set (m1 := mkMon (m_owed m ++ [(next_id s, next_seq s, Z.of_N len)]) (S (next_id s))
                     (m_hand m) (m_errs m) (m_closed m)).
    assert (H1 : Inv s1 m1) by (apply (Inv_append s m len addr nb s1 HI); reflexivity).
    assert (St : mon_step m (ESend (next_id s) (next_seq s) (Z.of_N len) 0) = Some m1).
    { simpl. pose proof (i_next _ _ HI) as Hn. apply Nat.leb_le in Hn. now rewrite Hn. }
    destruct ((sq_count s0 =? 0) && negb (processing s1)).
    + destruct (udp_sendmsg fx s1) as [s2 ev] eqn:E.
      destruct (udp_sendmsg_ok fx s1 m1 H1) as (m2 & R2 & I2). rewrite E in R2, I2. simpl in R2, I2.
      exists m2. simpl mon_run. simpl in St. rewrite St. split; [exact R2|].
      simpl fst. destruct (wq s2); [exact I2|now apply Inv_set_pout].
    + exists m1. simpl mon_run. simpl in St. rewrite St. split; [reflexivity|].
      now apply Inv_set_pout.
Qed.

Lemma Inv_empty s m : Inv s m -> sq_count s = 0 -> strips s = [].
Proof.
  intros HI H0. pose proof (i_count _ _ HI) as Hc. rewrite H0 in Hc.
  destruct (strips s); [reflexivity|simpl in Hc; lia].
Qed.

Lemma mon_run_snoc_ignored m ev e m' :
  mon_run m ev = Some m' -> mon_step m' e = Some m' -> mon_run m (ev ++ [e]) = Some m'.
Proof. intros H1 H2. rewrite mon_run_app, H1. simpl. now rewrite H2. Qed.

Lemma mon_run_cons_name m l ev : mon_run m (EName l :: ev) = mon_run m ev.
Proof. reflexivity. Qed.

Lemma udp_try_send_ok s m len addr nb : Inv s m -> okr m (udp_try_send s len addr nb).
Proof.
  intros HI. unfold udp_try_send.
  assert (H0 : Inv (bump_seq 1 s) m).
  { eapply Inv_state; [exact HI| | | | | | | |]; simpl; auto; lia. }
  destruct (check_before_send s addr <? 0); [exists m; simpl; auto|].
  destruct (negb (sq_count (bump_seq 1 s) =? 0)) eqn:Eq; [exists m; simpl; auto|].
  apply negb_false_iff, Z.eqb_eq in Eq.
  destruct (sendmsg1 (mkD (next_seq s) len addr nb) (os (bump_seq 1 s))) as [[r ev] o'] eqn:E.
  destruct (sendmsg1_spec _ _ _ _ _ E) as (Hsys & _ & _ & Hc).
  assert (Hl : StronglySorted lt (handed ev) /\
               Forall (fun x => (next_seq s <= x < next_seq s + 1)%nat) (handed ev)).
  { destruct Hc as [(_ & Hh)|(_ & Hh & _)]; rewrite Hh; simpl.
    - split; repeat constructor; lia.
    - split; constructor. }
  destruct Hl as (Hl1 & Hl2).
  assert (Ha : hand_all (m_hand m) (handed ev) = Some (rev (handed ev) ++ m_hand m)).
  { apply hand_all_sorted; auto. eapply Forall_impl; [|exact Hl2]. simpl.
    intros. pose proof (i_hb _ _ HI). lia. }
  pose proof (mon_run_sys ev m _ Hsys Ha) as Hr.
  eexists. simpl snd. split.
  - rewrite mon_run_cons_name. apply mon_run_snoc_ignored; [exact Hr|reflexivity].
  - simpl fst. eapply (Inv_ext_fresh s); eauto; simpl; auto; try lia.
    apply (Inv_empty s m HI). exact Eq.
Qed.

Lemma udp_try_send2_ok fx s m lens flags addr : Inv s m -> okr m (udp_try_send2 fx s lens flags addr).
Proof.
  intros HI. unfold udp_try_send2.
  assert (H0 : Inv (bump_seq (length lens) s) m).
  { eapply Inv_state; [exact HI| | | | | | | |]; simpl; auto; lia. }
  destruct (length lens <? 1)%nat; [exists m; simpl; auto|].
  destruct (negb (flags =? 0)); [exists m; simpl; auto|].
  destruct (0 <? sq_count (bump_seq (length lens) s)) eqn:Eq; [exists m; simpl; auto|].
  apply Z.ltb_ge in Eq.
  assert (Hz : sq_count s = 0).
  { simpl in Eq. pose proof (i_count _ _ HI). lia. }
  destruct (sendmsgv fx (mk_batch (next_seq s) addr lens) (os (bump_seq (length lens) s)))
    as [[r ev] o'] eqn:E.
  destruct (sendmsgv_basic _ _ _ _ _ _ E) as (Hsys & _ & _).
  destruct (sendmsgv_range fx _ _ _ _ _ (next_seq s) (eq_trans (mk_batch_seq addr lens (next_seq s))
             (f_equal (seq (next_seq s)) (eq_sym (mk_batch_length addr lens (next_seq s))))) E)
    as (Hl1 & Hl2).
  rewrite mk_batch_length in Hl2.
  assert (Ha : hand_all (m_hand m) (handed ev) = Some (rev (handed ev) ++ m_hand m)).
  { apply hand_all_sorted; auto. eapply Forall_impl; [|exact Hl2]. simpl.
    intros. pose proof (i_hb _ _ HI). lia. }
  pose proof (mon_run_sys ev m _ Hsys Ha) as Hr.
  eexists. simpl snd. split.
  - rewrite mon_run_cons_name. apply mon_run_snoc_ignored; [exact Hr|reflexivity].
  - simpl fst. eapply (Inv_ext_fresh s); eauto; simpl; auto; try lia.
    apply (Inv_empty s m HI). exact Hz.
Qed.

Lemma cq_ok_closed m r :
  cq_ok m r -> cq_ok (mkMon (m_owed m) (m_next m) (m_hand m) (m_errs m) true) r.
Proof.
  unfold cq_ok. simpl. destruct (0 <=? q_status r); auto.
  intros (H1 & [H2|(H2 & _)]); split; auto.
Qed.

Lemma api_ok fx s m o : Inv s m -> okr m (api fx s o).
Proof.
  intros HI.
  assert (Hget : okr m (s, [EGet (sq_size s) (sq_count s) (active s)])).
  { exists m. split; [|exact HI]. simpl.
    rewrite (i_owed _ _ HI), map_length, owed_bytes_skey, (i_count _ _ HI), (i_size _ _ HI).
    now rewrite !Z.eqb_refl. }
  destruct o; simpl; auto; try (now apply okr_nil);
    destruct (closing s) eqn:Ecl; try (now apply okr_nil).
  - now apply udp_send_ok.
  - now apply udp_try_send_ok.
  - now apply udp_try_send2_ok.
  - unfold udp_connect. destruct (connected s); exists m; simpl; (split; [reflexivity|]); auto.
    eapply Inv_state; [exact HI| | | | | | | |]; simpl; auto.
  - unfold udp_disconnect. destruct (connected s); exists m; simpl; (split; [reflexivity|]); auto.
    eapply Inv_state; [exact HI| | | | | | | |]; simpl; auto.
  - unfold recv_start. destruct (pin s); exists m; simpl; (split; [reflexivity|]); auto.
    eapply Inv_state; [exact HI| | | | | | | |]; simpl; auto.
  - unfold recv_stop. exists m; simpl; (split; [reflexivity|]).
    eapply Inv_state; [exact HI| | | | | | | |]; simpl; auto.
  - unfold udp_close. eexists. simpl. split; [reflexivity|].
    destruct HI. constructor; simpl; auto.
    eapply Forall_impl; [|exact i_cq0]. intros r. apply cq_ok_closed.
Qed.

Lemma apis_ok fx : forall l s m, Inv s m -> okr m (apis fx s l).
Proof.
  induction l as [|o l IH]; intros s m HI; simpl.
  - now apply okr_nil.
  - destruct (api fx s o) as [s1 e1] eqn:E1. destruct (apis fx s1 l) as [s2 e2] eqn:E2.
    apply (okr_bind m s1 e1 s2 e2).
    + rewrite <- E1. now apply api_ok.
    + intros m1 H1. rewrite <- E2. now apply IH.
Qed.

(* ---- callbacks ---- *)
Lemma mem_nat_in x l : mem_nat x l = true <-> In x l.
Proof.
  unfold mem_nat. rewrite existsb_exists. split.
  - intros (y & Hy & E). apply Nat.eqb_eq in E. now subst.
  - intros H. exists x. split; auto. apply Nat.eqb_refl.
Qed.

Lemma mem_err_in x st l : In (x, st) l -> mem_err x st l = true.
Proof.
  intros H. unfold mem_err. apply existsb_exists. exists (x, st). split; auto.
  simpl. now rewrite Nat.eqb_refl, Z.eqb_refl.
Qed.

Lemma filter_all {A} (f : A -> bool) l : Forall (fun x => f x = true) l -> filter f l = l.
Proof. induction 1; simpl; auto. rewrite H. now f_equal. Qed.

Lemma cb_step s m r c :
  Inv s m -> cq s = r :: c ->
  mon_step m (ECb (q_id r) (if 0 <=? q_status r then 0 else q_status r)) =
  Some (mkMon (map skey (map strip (c ++ wq s))) (m_next m) (m_hand m) (m_errs m) (m_closed m)).
Proof.
  intros HI Hc. simpl. rewrite (i_owed _ _ HI). unfold strips. rewrite Hc. simpl.
  rewrite Nat.eqb_refl.
  pose proof (i_cq _ _ HI) as Hq. rewrite Hc in Hq. inversion Hq; subst.
  assert (Hok : cb_ok m (d_seq (q_d r)) (if 0 <=? q_status r then 0 else q_status r) = true).
  { unfold cq_ok, cb_ok in *. fold (rseq r). destruct (0 <=? q_status r) eqn:E.
    - apply mem_nat_in in H1. rewrite H1. reflexivity.
    - destruct H1 as (Hn & Hd).
      destruct (mem_nat (rseq r) (m_hand m)) eqn:Em; [apply mem_nat_in in Em; contradiction|].
      apply Z.leb_gt in E.
      replace (q_status r =? 0) with false by (symmetry; apply Z.eqb_neq; lia). simpl.
      destruct Hd as [Hd|(Hd1 & Hd2)].
      + now rewrite (mem_err_in _ _ _ Hd).
      + rewrite Hd1, Hd2. simpl. apply orb_true_r. }
  rewrite Hok. f_equal. f_equal.
  pose proof (i_ids _ _ HI) as Hi. unfold strips in Hi. rewrite Hc in Hi. simpl in Hi.
  apply StronglySorted_inv in Hi. destruct Hi as (_ & Hi).
  apply filter_all. rewrite Forall_map in Hi. rewrite Forall_map.
  eapply Forall_impl; [|exact Hi]. simpl. intros a Ha.
  apply negb_true_iff, Nat.eqb_neq. lia.
Qed.

Lemma Inv_pop s m r c s' :
  Inv s m -> cq s = r :: c ->
  wq s' = wq s -> cq s' = c ->
  sq_size s' = sq_size s - Z.of_N (d_len (q_d r)) -> sq_count s' = sq_count s - 1 ->
  next_id s' = next_id s -> next_seq s' = next_seq s ->
  close_pending s' = close_pending s -> closing s' = closing s ->
  Inv s' (mkMon (map skey (map strip (c ++ wq s))) (m_next m) (m_hand m) (m_errs m) (m_closed m)).
Proof.
  intros [] Hc Hw Hc' Hsz Hct Hid Hsq Hcp Hcl.
  assert (Hs : strips s = strip r :: strips s').
  { unfold strips. rewrite Hc, Hw, Hc'. reflexivity. }
  rewrite Hs in *. simpl in *.
  apply StronglySorted_inv in i_ids0, i_seqs0.
  apply Forall_inv_tail in i_idb0, i_seqb0.
  rewrite Hc in i_cq0. apply Forall_inv_tail in i_cq0.
  constructor; simpl; rewrite ?Hid, ?Hsq, ?Hcp, ?Hcl, ?Hw, ?Hc'; auto; try tauto.
  - unfold strips. now rewrite Hw, Hc'.
  - lia.
  - lia.
Qed.

Lemma completed_loop_ok fx beh : forall fuel s m, Inv s m -> okr m (completed_loop fx fuel beh s).
Proof.
  induction fuel as [|f IH]; intros s m HI; simpl.
  - now apply okr_nil.
  - destruct (cq s) as [|r c] eqn:Ec; [now apply okr_nil|].
    match goal with |- okr m (let '(_, _) := apis fx ?S2 ?B in _) => set (s2 := S2); set (bb := B) end.
    pose proof (cb_step s m r c HI Ec) as St.
    assert (H2 : Inv s2 (mkMon (map skey (map strip (c ++ wq s))) (m_next m) (m_hand m)
                               (m_errs m) (m_closed m))).
    { apply (Inv_pop s m r c s2 HI Ec); reflexivity. }
    destruct (apis fx s2 bb) as [s3 ev] eqn:E3.
    destruct (completed_loop fx f beh s3) as [s4 ev'] eqn:E4.
    change (ECb (q_id r) (if 0 <=? q_status r then 0 else q_status r) :: ev ++ ev')
      with ([ECb (q_id r) (if 0 <=? q_status r then 0 else q_status r)] ++ (ev ++ ev')).
    eapply okr_bind.
    + eexists. split; [|exact H2]. cbn [mon_run snd]. rewrite St. reflexivity.
    + intros m1 I1. apply (okr_bind m1 s3 ev s4 ev').
      * rewrite <- E3.
        now apply apis_ok.
      * intros m2 I2. rewrite <- E4. now apply IH.
Qed.

Lemma run_completed_ok fx beh s m : Inv s m -> okr m (run_completed fx beh s).
Proof.
  intros HI. unfold run_completed.
  destruct (completed_loop fx (length (cq (set_processing true s))) beh (set_processing true s))
    as [s1 ev] eqn:E.
  assert (H0 : Inv (set_processing true s) m) by (eapply Inv_state; eauto).
  destruct (completed_loop_ok fx beh (length (cq (set_processing true s))) _ _ H0) as (m1 & R1 & I1).
  rewrite E in R1, I1.
  simpl in R1, I1. exists m1. split; [exact R1|]. simpl fst.
  destruct (wq s1) eqn:Ew; [destruct (closing s1) eqn:Ecl|];
    (eapply Inv_state; [exact I1| | | | | | | |]); simpl; auto; congruence.
Qed.

(* ---- receive side: nothing the send monitor looks at, except what callbacks do ---- *)
Definition ignored (e : event) : Prop := forall m, mon_step m e = Some m.

Lemma mon_run_ignored ev m : Forall ignored ev -> mon_run m ev = Some m.
Proof. induction 1; simpl; auto. now rewrite H. Qed.

Lemma recv_retry_ignored mk : (forall a, ignored (mk a)) ->
  forall o a ev o', recv_retry mk o = (a, ev, o') -> Forall ignored ev.
Proof.
  intros Hmk. induction o as [|x o IH]; intros a ev o' H; simpl in H.
  - inversion H; subst. repeat constructor. apply Hmk.
  - destruct x as [l|e].
    + inversion H; subst. repeat constructor. apply Hmk.
    + destruct (e =? EINTR).
      * destruct (recv_retry mk o) as [[a1 ev1] o1] eqn:E. inversion H; subst.
        constructor; [apply Hmk|]. eapply IH; eauto.
      * inversion H; subst. repeat constructor. apply Hmk.
Qed.

Lemma okr_ignored m ev s e2 s2 :
  Forall ignored ev -> Inv s m -> (forall m1, Inv s m1 -> okr m1 (s2, e2)) ->
  okr m (s2, ev ++ e2).
Proof.
  intros Hi HI H. apply (okr_bind m s ev s2 e2); auto.
  exists m. split; [now apply mon_run_ignored|exact HI].
Qed.

Lemma recv_cb_ok fx rbeh s m b p nread msg flags :
  Inv s m -> okr m (recv_cb fx rbeh s b p nread msg flags).
Proof.
  intros HI. unfold recv_cb.
  set (s1 := set_ctr (next_seq s) (next_id s) (next_buf s) (ncb s) (S (nrcb s)) s).
  destruct (apis fx s1 _) as [s2 ev] eqn:E.
  change (ERecv b p nread msg flags :: ev) with ([ERecv b p nread msg flags] ++ ev).
  apply (okr_ignored m _ s1).
  - repeat constructor.
  - eapply Inv_state; eauto.
  - intros m1 I1. rewrite <- E. now apply apis_ok.
Qed.

Lemma chunk_cbs_ok fx rbeh b : forall ms k s m, Inv s m -> okr m (chunk_cbs fx rbeh s b k ms).
Proof.
  induction ms as [|x ms IH]; intros k s m HI; cbn [chunk_cbs].
  - now apply okr_nil.
  - destruct (recving s); [|now apply okr_nil].
    destruct (recv_cb fx rbeh s b (Chunk k) (m_len x) (Some (m_id x))
                      (UV_UDP_MMSG_CHUNK + msg_flags x)) as [s1 e1] eqn:E1.
    destruct (chunk_cbs fx rbeh s1 b (S k) ms) as [s2 e2] eqn:E2.
    apply (okr_bind m s1 e1 s2 e2).
    + rewrite <- E1. now apply recv_cb_ok.
    + intros m1 I1. rewrite <- E2. now apply IH.
Qed.

Lemma Inv_set_orv s m r al : Inv s m -> Inv (set_orv r al s) m.
Proof. intros H. eapply Inv_state; eauto. Qed.

Lemma ersys_ignored mm vlen n a : ignored (ERSys mm vlen (rclamp n a)).
Proof. intros m. reflexivity. Qed.

Lemma udp_recvmmsg_ok fx rbeh s m b len :
  Inv s m -> okr m (fst (udp_recvmmsg fx rbeh s b len)).
Proof.
  intros HI. unfold udp_recvmmsg.
  set (chunks := if Z.of_nat BATCH <? len / DGRAM_MAXSIZE then Z.of_nat BATCH else len / DGRAM_MAXSIZE).
  destruct (recv_retry (fun a => ERSys true chunks (rclamp (Z.to_nat chunks) a)) (orv s))
    as [[a0 ev] o'] eqn:E.
  pose proof (recv_retry_ignored _ (fun a => ersys_ignored true chunks (Z.to_nat chunks) a) _ _ _ _ E) as Hig.
  pose proof (Inv_set_orv s m o' (allocs s) HI) as H1.
  destruct (rclamp (Z.to_nat chunks) a0) as [[|x ms]|e].
  - destruct (recv_cb fx rbeh (set_orv o' (allocs s) s) b Whole 0 None 0) as [s2 e2] eqn:E2.
    simpl fst. apply (okr_ignored m ev _ e2 s2 Hig H1).
    intros m1 I1. rewrite <- E2. now apply recv_cb_ok.
  - destruct (chunk_cbs fx rbeh (set_orv o' (allocs s) s) b 0 (x :: ms)) as [s2 e2] eqn:E2.
    destruct (if recving s2 then recv_cb fx rbeh s2 b Whole 0 None UV_UDP_MMSG_FREE else (s2, []))
      as [s3 e3] eqn:E3.
    simpl fst. apply (okr_ignored m ev _ (e2 ++ e3) s3 Hig H1).
    intros m1 I1. apply (okr_bind m1 s2 e2 s3 e3).
    + rewrite <- E2. now apply chunk_cbs_ok.
    + intros m2 I2. rewrite <- E3. destruct (recving s2); [now apply recv_cb_ok|now apply okr_nil].
  - destruct (recv_cb fx rbeh (set_orv o' (allocs s) s) b Whole (if e =? EAGAIN then 0 else - e) None 0)
      as [s2 e2] eqn:E2.
    simpl fst. apply (okr_ignored m ev _ e2 s2 Hig H1).
    intros m1 I1. rewrite <- E2. now apply recv_cb_ok.
Qed.

Lemma recv_round_ok fx rbeh s m b len count s2 ev nread c' :
  Inv s m -> recv_round fx rbeh s b len count = (s2, ev, nread, c') -> okr m (s2, ev).
Proof.
  intros HI. unfold recv_round. destruct (mmsg s).
  - pose proof (udp_recvmmsg_ok fx rbeh s m b len HI) as H.
    destruct (udp_recvmmsg fx rbeh s b len) as [[s1 e1] nr] eqn:E. simpl in H.
    intros Heq. inversion Heq; subst. exact H.
  - destruct (recv_retry (fun a => ERSys false 1 (rclamp 1 a)) (orv s)) as [[a0 e0] o'] eqn:E.
    pose proof (recv_retry_ignored _ (fun a => ersys_ignored false 1 1 a) _ _ _ _ E) as Hig.
    pose proof (Inv_set_orv s m o' (allocs s) HI) as H1.
    destruct (rclamp 1 a0) as [[|x ms]|e].
    + destruct (recv_cb fx rbeh (set_orv o' (allocs s) s) b Whole 0 None 0) as [s3 e3] eqn:E3.
      intros Heq. inversion Heq; subst.
      apply (okr_ignored m e0 _ e3 s2 Hig H1). intros m1 I1. rewrite <- E3. now apply recv_cb_ok.
    + destruct (recv_cb fx rbeh (set_orv o' (allocs s) s) b Whole (m_len x) (Some (m_id x)) (msg_flags x))
        as [s3 e3] eqn:E3.
      intros Heq. inversion Heq; subst.
      apply (okr_ignored m e0 _ e3 s2 Hig H1). intros m1 I1. rewrite <- E3. now apply recv_cb_ok.
    + destruct (recv_cb fx rbeh (set_orv o' (allocs s) s) b Whole (if e =? EAGAIN then 0 else - e) None 0)
        as [s3 e3] eqn:E3.
      intros Heq. inversion Heq; subst.
      apply (okr_ignored m e0 _ e3 s2 Hig H1). intros m1 I1. rewrite <- E3. now apply recv_cb_ok.
Qed.

Lemma okr_cons_ignored m e s ev : ignored e -> okr m (s, ev) -> okr m (s, e :: ev).
Proof. intros Hi (m' & R & I). exists m'. simpl in *. rewrite Hi. auto. Qed.

Lemma recvmsg_loop_ok fx rbeh : forall fuel s m count,
  Inv s m -> okr m (recvmsg_loop fx fuel rbeh s count).
Proof.
  induction fuel as [|f IH]; intros s m count HI; cbn [recvmsg_loop].
  - now apply okr_nil.
  - set (len := match allocs s with [] => 0 | l :: _ => l end).
    set (s0 := set_ctr (next_seq s) (next_id s) (S (next_buf s)) (ncb s) (nrcb s)
                       (set_orv (orv s) (tl (allocs s)) s)).
    assert (H0 : Inv s0 m) by (eapply Inv_state; eauto).
    assert (Hal : ignored (EAlloc (next_buf s) len)) by (intros m0; reflexivity).
    destruct (len <=? 0).
    + destruct (recv_cb fx rbeh s0 (next_buf s) Whole UV_ENOBUFS None 0) as [s1 e1] eqn:E1.
      apply okr_cons_ignored; auto. rewrite <- E1. now apply recv_cb_ok.
    + destruct (recv_round fx rbeh s0 (next_buf s) len count) as [[[s2 ev] nread] c'] eqn:E.
      pose proof (recv_round_ok _ _ _ _ _ _ _ _ _ _ _ H0 E) as H2.
      destruct (negb (nread =? -1) && (0 <? c') && negb (closing s2) && recving s2).
      * destruct (recvmsg_loop fx f rbeh s2 c') as [s3 ev'] eqn:E3.
        apply okr_cons_ignored; auto.
        apply (okr_bind m s2 ev s3 ev' H2). intros m1 I1. rewrite <- E3. now apply IH.
      * apply okr_cons_ignored; auto.
Qed.

Lemma udp_io_ok fx beh rbeh s m rin rout : Inv s m -> okr m (udp_io fx beh rbeh s rin rout).
Proof.
  intros HI. unfold udp_io.
  assert (H1 : okr m (if rin then udp_recvmsg fx rbeh s else (s, []))).
  { destruct rin; [|now apply okr_nil]. unfold udp_recvmsg.
    destruct (recving s); [now apply recvmsg_loop_ok|now apply okr_nil]. }
  destruct (if rin then udp_recvmsg fx rbeh s else (s, [])) as [s1 e1].
  destruct (rout && negb (closing s1)); [|exact H1].
  destruct (udp_sendmsg fx s1) as [s2 e2] eqn:E2.
  destruct (run_completed fx beh s2) as [s3 e3] eqn:E3.
  apply (okr_bind m s1 e1 s3 (e2 ++ e3) H1). intros m1 I1.
  apply (okr_bind m1 s2 e2 s3 e3).
  - rewrite <- E2. now apply udp_sendmsg_ok.
  - intros m2 I2. rewrite <- E3. now apply run_completed_ok.
Qed.

Lemma pending_ok fx beh rbeh : forall n s m, Inv s m -> okr m (pending fx n beh rbeh s).
Proof.
  induction n as [|n IH]; intros s m HI; simpl.
  - now apply okr_nil.
  - destruct (fed s); [|now apply okr_nil].
    destruct (udp_io fx beh rbeh (set_fed false s) false true) as [s1 e1] eqn:E1.
    destruct (pending fx n beh rbeh s1) as [s2 e2] eqn:E2.
    apply (okr_bind m s1 e1 s2 e2).
    + rewrite <- E1. apply udp_io_ok. now apply Inv_set_fed.
    + intros m1 I1. rewrite <- E2. now apply IH.
Qed.

(* ---- close: nothing changes the queues of a closing handle except the completion run ---- *)
Lemma api_closing fx s o : closing s = true -> fst (api fx s o) = s.
Proof. intros H. destruct o; simpl; rewrite ?H; reflexivity. Qed.

Lemma apis_closing fx : forall l s, closing s = true -> fst (apis fx s l) = s.
Proof.
  induction l as [|o l IH]; intros s H; simpl; [reflexivity|].
  pose proof (api_closing fx s o H) as Ha. destruct (api fx s o) as [s1 e1]. simpl in Ha. subst s1.
  pose proof (IH s H) as Hb. destruct (apis fx s l) as [s2 e2]. exact Hb.
Qed.

Lemma completed_loop_closing fx beh : forall fuel s,
  closing s = true -> wq s = [] -> (length (cq s) <= fuel)%nat ->
  let s' := fst (completed_loop fx fuel beh s) in
  cq s' = [] /\ wq s' = [] /\ closing s' = true.
Proof.
  induction fuel as [|f IH]; intros s Hc Hw Hl; simpl.
  - destruct (cq s); [auto|simpl in Hl; lia].
  - destruct (cq s) as [|r c] eqn:Ec; [simpl; auto|].
    match goal with |- context [apis fx ?S2 ?B] => set (s2 := S2); set (bb := B) end.
    pose proof (apis_closing fx bb s2 Hc) as Ha.
    destruct (apis fx s2 bb) as [s3 ev]. simpl in Ha. subst s3.
    specialize (IH s2 Hc Hw). simpl in IH, Hl.
    destruct (completed_loop fx f beh s2) as [s4 ev']. simpl. apply IH. lia.
Qed.

Lemma run_completed_closing fx beh s :
  closing s = true -> wq s = [] ->
  let s' := fst (run_completed fx beh s) in cq s' = [] /\ wq s' = [].
Proof.
  intros Hc Hw. unfold run_completed.
  pose proof (completed_loop_closing fx beh (length (cq (set_processing true s)))
                (set_processing true s) Hc Hw (le_n _)) as H.
  destruct (completed_loop fx _ beh (set_processing true s)) as [s1 ev]. simpl in H.
  destruct H as (H1 & H2 & H3). simpl. rewrite H2, H3. simpl. auto.
Qed.

Lemma Inv_cancel s m :
  Inv s m -> m_closed m = true ->
  Inv (set_queues [] (cq s ++ map (fun r => with_status r UV_ECANCELED) (wq s))
                  (sq_size s) (sq_count s) s) m.
Proof.
  intros HI Hcl. destruct HI.
  match goal with |- Inv ?S _ => assert (Hs : strips S = strips s) end.
  { unfold strips. simpl. rewrite app_nil_r, !map_app. f_equal.
    apply (strip_status (wq s) (fun _ => UV_ECANCELED)). }
  constructor; rewrite ?Hs; auto; simpl.
  - constructor.
  - apply Forall_app. split; [exact i_cq0|].
    apply Forall_forall. intros r' Hr'. apply in_map_iff in Hr'. destruct Hr' as (r & Er & Hr).
    subst r'. unfold cq_ok. simpl. split.
    + apply hand_not_in; auto. rewrite Forall_forall in i_hwq0. exact (i_hwq0 r Hr).
    + right. auto.
Qed.

Lemma finish_close_ok fx beh s m :
  Inv s m -> m_closed m = true -> closing s = true -> okr m (finish_close fx beh s).
Proof.
  intros HI Hm Hc. unfold finish_close.
  set (s1 := set_queues [] (cq s ++ map (fun r => with_status r UV_ECANCELED) (wq s))
                        (sq_size s) (sq_count s) s).
  pose proof (Inv_cancel s m HI Hm) as H1. fold s1 in H1.
  pose proof (run_completed_closing fx beh s1 Hc eq_refl) as Hq.
  destruct (run_completed_ok fx beh s1 m H1) as (m2 & R2 & I2).
  destruct (run_completed fx beh s1) as [s2 ev]. simpl in Hq, R2, I2. destruct Hq as (Q1 & Q2).
  exists m2. simpl snd. split.
  - apply mon_run_snoc_ignored; [exact R2|]. simpl.
    rewrite (i_owed _ _ I2). unfold strips. now rewrite Q1, Q2.
  - simpl fst. eapply Inv_state; eauto.
Qed.

Lemma run_once_ok fx beh rbeh s m kin kout : Inv s m -> okr m (run_once fx beh rbeh s kin kout).
Proof.
  intros HI. unfold run_once.
  destruct (pending fx 1 beh rbeh s) as [s1 e1] eqn:E1.
  destruct (if (kin && pin s1) || (kout && pout s1)
            then udp_io fx beh rbeh s1 (kin && pin s1) (kout && pout s1) else (s1, []))
    as [s2 e2] eqn:E2.
  destruct (pending fx 8 beh rbeh s2) as [s3 e3] eqn:E3.
  destruct (if close_pending s3
            then finish_close fx beh (set_io (pin s3) (pout s3) (fed s3) (active s3) (closing s3) false s3)
            else (s3, [])) as [s4 e4] eqn:E4.
  apply okr_cons_ignored; [intros m0; reflexivity|].
  apply (okr_bind m s1 e1 s4 (e2 ++ e3 ++ e4)).
  { rewrite <- E1. now apply pending_ok. }
  intros m1 I1. apply (okr_bind m1 s2 e2 s4 (e3 ++ e4)).
  { rewrite <- E2. destruct ((kin && pin s1) || (kout && pout s1)); [now apply udp_io_ok|now apply okr_nil]. }
  intros m2 I2. apply (okr_bind m2 s3 e3 s4 e4).
  { rewrite <- E3. now apply pending_ok. }
  intros m3 I3. rewrite <- E4. destruct (close_pending s3) eqn:Ecp; [|now apply okr_nil].
  apply finish_close_ok.
  - eapply Inv_state; eauto; simpl; discriminate.
  - now apply (i_cl _ _ I3).
  - simpl. now apply (i_cl2 _ _ I3).
Qed.

Lemma run_ok fx beh rbeh : forall l s m, Inv s m -> okr m (run fx beh rbeh s l).
Proof.
  induction l as [|o l IH]; intros s m HI.
  - now apply okr_nil.
  - assert (Hgen : forall s1 e1, okr m (s1, e1) ->
                    okr m (let '(s2, e2) := run fx beh rbeh s1 l in (s2, e1 ++ e2))).
    { intros s1 e1 H1. destruct (run fx beh rbeh s1 l) as [s2 e2] eqn:E2.
      apply (okr_bind m s1 e1 s2 e2 H1). intros m1 I1. rewrite <- E2. now apply IH. }
    destruct o; cbn [run];
      try (match goal with |- okr m (let '(_, _) := api fx s ?O in _) =>
             pose proof (api_ok fx s m O HI) as Ha; destruct (api fx s O) as [s1 e1]; now apply Hgen end).
    pose proof (run_once_ok fx beh rbeh s m kin kout HI) as Ha.
    destruct (run_once fx beh rbeh s kin kout) as [s1 e1]. now apply Hgen.
Qed.

Lemma Inv_init conn mm o r al : Inv (init conn mm o r al) mon0.
Proof. constructor; simpl; auto; try constructor; try discriminate. Qed.

(* every trace of the model is accepted by the send monitor *)
Theorem model_accepted_send fx beh rbeh conn mm o r al ops :
  exists m, mon_run mon0 (snd (run fx beh rbeh (init conn mm o r al) ops)) = Some m.
Proof.
  destruct (run_ok fx beh rbeh ops _ _ (Inv_init conn mm o r al)) as (m & R & _). eauto.
Qed.

(* ------------------------------------------------------------------ *)
(* Part C.  What an accepted trace satisfies. *)

Lemma hand_all_inv : forall l hs hs',
  hand_all hs l = Some hs' ->
  hs' = rev l ++ hs /\ StronglySorted lt l /\ Forall (fun x => (hmax hs <= x)%nat) l.
Proof.
  induction l as [|x l IH]; intros hs hs' H; simpl in H.
  - inversion H; subst. repeat split; constructor.
  - destruct (newer hs x) eqn:En; [|discriminate]. apply newer_hmax in En.
    destruct (IH _ _ H) as (E & Hs & Hf). simpl in Hf.
    split; [simpl; now rewrite <- app_assoc|]. split.
    + constructor; auto; try (eapply Forall_impl; [|exact Hf]; simpl; intros; lia).
    + constructor; auto; try (eapply Forall_impl; [|exact Hf]; simpl; intros; lia).
Qed.

(* the monitor's record of what was handed over is the trace's *)
Lemma mon_step_hand m e m' :
  mon_step m e = Some m' ->
  hand_all (m_hand m) (handed_by e) = Some (m_hand m').
Proof.
  destruct e; simpl; intros H; try (inversion H; subst; reflexivity).
  - destruct (ret =? 0); [destruct (m_next m <=? id)%nat|]; inversion H; reflexivity.
  - destruct a as [r|p]; simpl in *.
    + unfold mon_sys in H. simpl in H. destruct (newer (m_hand m) seq); inversion H; reflexivity.
    + unfold mon_sys in H. destruct (real_err (Z.pos p)); inversion H; reflexivity.
  - destruct a as [r|p]; simpl in *.
    + unfold mon_sys in H. destruct (hand_all (m_hand m) (firstn (N.to_nat r) seqs)); inversion H; reflexivity.
    + unfold mon_sys in H. destruct (real_err (Z.pos p)); [destruct seqs|]; inversion H; reflexivity.
  - destruct (find_owed id (m_owed m)) as [[sq ln]|]; [|discriminate].
    destruct (cb_ok m sq status); inversion H; reflexivity.
  - destruct (_ && _); inversion H; reflexivity.
  - destruct (m_owed m); inversion H; reflexivity.
Qed.

Lemma mon_run_hand : forall tr m m',
  mon_run m tr = Some m' -> hand_all (m_hand m) (handed tr) = Some (m_hand m').
Proof.
  induction tr as [|e tr IH]; intros m m' H; simpl in H.
  - inversion H; reflexivity.
  - destruct (mon_step m e) as [m1|] eqn:E; [|discriminate].
    unfold handed. simpl. fold (handed tr). rewrite hand_all_app, (mon_step_hand _ _ _ E).
    now apply IH.
Qed.

(* C10_send_once_in_order *)
Theorem accepted_once_in_order tr m :
  mon_run mon0 tr = Some m -> StronglySorted lt (handed tr).
Proof.
  intros H. apply mon_run_hand in H. apply hand_all_inv in H. tauto.
Qed.

(* requests accepted by uv_udp_send / callbacks run, by request id *)
Definition sub_of (e : event) : list nat :=
  match e with ESend id _ _ ret => if ret =? 0 then [id] else [] | _ => [] end.
Definition cb_of (e : event) : list nat :=
  match e with ECb id _ => [id] | _ => [] end.
Definition subs (tr : list event) : list nat := flat_map sub_of tr.
Definition cbs (tr : list event) : list nat := flat_map cb_of tr.

Definition oid (k : okey) : nat := fst (fst k).

Record Ghost (m : mon) (S C : list nat) : Prop := mkGhost {
  g_ndS : NoDup S;
  g_ndC : NoDup C;
  g_next : Forall (fun i => (i < m_next m)%nat) S;
  g_union : forall i, In i S <-> In i (map oid (m_owed m)) \/ In i C;
  g_disj : forall i, In i (map oid (m_owed m)) -> ~ In i C
}.

Lemma find_owed_in id l sq ln : find_owed id l = Some (sq, ln) -> In (id, sq, ln) l.
Proof.
  induction l as [|[[i s] n] l IH]; simpl; [discriminate|].
  destruct (i =? id)%nat eqn:E.
  - apply Nat.eqb_eq in E. intros H; inversion H; subst. now left.
  - intros H. right. now apply IH.
Qed.

Lemma in_drop_owed id l i : In i (map oid (drop_owed id l)) <-> In i (map oid l) /\ i <> id.
Proof.
  unfold drop_owed. rewrite !in_map_iff. split.
  - intros (k & Ek & Hk). apply filter_In in Hk. destruct Hk as (Hk & Hne).
    apply negb_true_iff, Nat.eqb_neq in Hne. subst i. split; [exists k; auto|exact Hne].
  - intros ((k & Ek & Hk) & Hne). exists k. split; auto. apply filter_In. split; auto.
    apply negb_true_iff, Nat.eqb_neq. subst i. exact Hne.
Qed.

Lemma NoDup_snoc {A} (l : list A) x : NoDup l -> ~ In x l -> NoDup (l ++ [x]).
Proof.
  induction l as [|a l IH]; simpl; intros Hn Hx.
  - repeat constructor; auto.
  - inversion Hn; subst. constructor.
    + rewrite in_app_iff. simpl. intros [H|[H|[]]]; [auto|subst; apply Hx; now left].
    + apply IH; auto.
Qed.

Lemma ghost_step m e m' S C :
  Ghost m S C -> mon_step m e = Some m' -> Ghost m' (S ++ sub_of e) (C ++ cb_of e).
Proof.
  intros G H.
  assert (Same : m_owed m' = m_owed m -> m_next m' = m_next m -> sub_of e = [] -> cb_of e = [] ->
                 Ghost m' (S ++ sub_of e) (C ++ cb_of e)).
  { intros E1 E2 E3 E4. rewrite E3, E4, !app_nil_r. destruct G. constructor; rewrite ?E1, ?E2; auto. }
  destruct e; simpl in H; try (inversion H; subst; now apply Same).
  - destruct (ret =? 0) eqn:Er.
    2:{ inversion H; subst. apply Same; auto. simpl. now rewrite Er. }
    destruct (m_next m <=? id)%nat eqn:En; [|discriminate]. apply Nat.leb_le in En.
    inversion H; subst. clear H. destruct G. simpl. rewrite Er, app_nil_r.
    assert (Hfresh : ~ In id S).
    { intros Hin. rewrite Forall_forall in g_next0. apply g_next0 in Hin. lia. }
    constructor; simpl; auto.
    + now apply NoDup_snoc.
    + apply Forall_app. split; [|repeat constructor].
      eapply Forall_impl; [|exact g_next0]. simpl. intros; lia.
    + intros i. rewrite map_app, !in_app_iff, g_union0. simpl. tauto.
    + intros i Hi. rewrite map_app, in_app_iff in Hi. destruct Hi as [Hi|[Hi|[]]]; [now apply g_disj0|].
      simpl in Hi. subst i. intros Hc. apply Hfresh. apply g_union0. now right.
  - unfold mon_sys in H. destruct a as [r|p]; simpl in H.
    + destruct (newer (m_hand m) seq); inversion H; subst. now apply Same.
    + destruct (real_err (Z.pos p)); inversion H; subst; now apply Same.
  - unfold mon_sys in H. destruct a as [r|p].
    + destruct (hand_all (m_hand m) (firstn (N.to_nat r) seqs)); inversion H; subst. now apply Same.
    + destruct (real_err (Z.pos p)); [destruct seqs|]; inversion H; subst; now apply Same.
  - destruct (find_owed id (m_owed m)) as [[sq ln]|] eqn:Ef; [|discriminate].
    destruct (cb_ok m sq status); [|discriminate]. inversion H; subst. clear H.
    apply find_owed_in in Ef. apply (in_map oid) in Ef. unfold oid in Ef at 1. simpl in Ef.
    destruct G. simpl. rewrite app_nil_r. constructor; simpl; auto.
    + apply NoDup_snoc; auto.
    + intros i. rewrite in_drop_owed, in_app_iff, g_union0. simpl.
      destruct (Nat.eq_dec i id); [subst; intuition auto|intuition congruence].
    + intros i Hi. apply in_drop_owed in Hi. destruct Hi as (Hi & Hne).
      rewrite in_app_iff. simpl. intros [Hc|[Hc|[]]]; [now apply (g_disj0 i)|congruence].
  - destruct (_ && _); inversion H; subst. now apply Same.
  - destruct (m_owed m) eqn:Eo; inversion H; subst. apply Same; auto.
Qed.

Lemma ghost_run : forall tr m m' S C,
  Ghost m S C -> mon_run m tr = Some m' -> Ghost m' (S ++ subs tr) (C ++ cbs tr).
Proof.
  induction tr as [|e tr IH]; intros m m' S C G H; simpl in H.
  - inversion H; subst. unfold subs, cbs. simpl. now rewrite !app_nil_r.
  - destruct (mon_step m e) as [m1|] eqn:E; [|discriminate].
    unfold subs, cbs. simpl. fold (subs tr). fold (cbs tr). rewrite !app_assoc.
    apply (IH m1); auto. eapply ghost_step; eauto.
Qed.

Lemma ghost0 : Ghost mon0 [] [].
Proof. constructor; simpl; try constructor; try tauto. Qed.

(* C10_send_cb_exactly_once: at every point of an accepted trace the callbacks that have
   run belong to distinct accepted requests; when close_cb runs none is outstanding *)
Theorem accepted_cb_exactly_once tr m :
  mon_run mon0 tr = Some m ->
  forall pre post, tr = pre ++ post ->
    NoDup (subs pre) /\ NoDup (cbs pre) /\ incl (cbs pre) (subs pre) /\
    (forall post', post = EClosed :: post' -> incl (subs pre) (cbs pre)).
Proof.
  intros H pre post E. subst tr. rewrite mon_run_app in H.
  destruct (mon_run mon0 pre) as [m1|] eqn:E1; [|discriminate].
  pose proof (ghost_run pre mon0 m1 [] [] ghost0 E1) as G. simpl in G. destruct G.
  split; [auto|]. split; [auto|]. split.
  - intros i Hi. apply g_union0. now right.
  - intros post' Ep. subst post. simpl in H.
    destruct (m_owed m1) eqn:Eo; [|discriminate].
    intros i Hi. apply g_union0 in Hi. simpl in Hi. tauto.
Qed.

(* ---- status ---- *)
Record Track (m : mon) (pre : list event) : Prop := mkTrack {
  t_hand : m_hand m = rev (handed pre);
  t_errs : forall x, In x (m_errs m) -> In x (errs_of pre);
  t_closed : m_closed m = true -> In EClose pre;
  t_owed : forall id sq ln, In (id, sq, ln) (m_owed m) -> In (ESend id sq ln 0) pre
}.

Lemma handed_snoc acc e : handed (acc ++ [e]) = handed acc ++ handed_by e.
Proof. rewrite handed_app. unfold handed at 2. simpl. now rewrite app_nil_r. Qed.

Lemma errs_of_snoc acc e : errs_of (acc ++ [e]) = errs_of acc ++ err_of e.
Proof. rewrite errs_of_app. unfold errs_of at 2. simpl. now rewrite app_nil_r. Qed.

Lemma track_step m acc e m' :
  Track m acc -> mon_step m e = Some m' -> Track m' (acc ++ [e]).
Proof.
  intros T H.
  assert (Hh : m_hand m' = rev (handed (acc ++ [e]))).
  { pose proof (mon_step_hand _ _ _ H) as Hh. apply hand_all_inv in Hh. destruct Hh as (Hh & _).
    rewrite Hh, (t_hand _ _ T), handed_snoc, rev_app_distr. reflexivity. }
  assert (Same : m_errs m' = m_errs m -> m_closed m' = m_closed m ->
                 (forall k, In k (m_owed m') -> In k (m_owed m)) -> Track m' (acc ++ [e])).
  { intros E1 E2 E3. destruct T. constructor; auto.
    - rewrite E1. intros x Hx. rewrite errs_of_app. apply in_or_app. left. auto.
    - rewrite E2. intros Hc. apply in_or_app. left. auto.
    - intros id sq ln Hin. apply in_or_app. left. apply t_owed0. now apply E3. }
  destruct e; simpl in H; try (inversion H; subst; now apply Same).
  - destruct (ret =? 0) eqn:Er; [|inversion H; subst; now apply Same].
    destruct (m_next m <=? id)%nat; [|discriminate]. inversion H; subst. clear H.
    apply Z.eqb_eq in Er. subst ret. destruct T. constructor; auto; simpl.
    + intros x Hx. rewrite errs_of_app. apply in_or_app. left. auto.
    + intros Hc. apply in_or_app. left. auto.
    + intros i sq ln Hin. apply in_app_or in Hin. apply in_or_app.
      destruct Hin as [Hin|[Hin|[]]]; [left; auto|right]. inversion Hin; subst. now left.
  - unfold mon_sys in H. destruct a as [r|p]; simpl in H.
    + destruct (newer (m_hand m) seq); inversion H; subst. now apply Same.
    + destruct (real_err (Z.pos p)) eqn:Er; inversion H; subst; [|now apply Same].
      destruct T. constructor; auto; simpl.
      * intros x [Hx|Hx]; rewrite errs_of_snoc; apply in_or_app; [right|left; auto].
        subst x. simpl. rewrite Er. now left.
      * intros Hc. apply in_or_app. left. auto.
      * intros i sq ln Hin. apply in_or_app. left. auto.
  - unfold mon_sys in H. destruct a as [r|p].
    + destruct (hand_all (m_hand m) (firstn (N.to_nat r) seqs)); inversion H; subst. now apply Same.
    + destruct (real_err (Z.pos p)) eqn:Er; [destruct seqs as [|x0 seqs]|]; inversion H; subst;
        try (now apply Same).
      destruct T. constructor; auto; simpl.
      * intros x [Hx|Hx]; rewrite errs_of_snoc; apply in_or_app; [right|left; auto].
        subst x. simpl. rewrite Er. now left.
      * intros Hc. apply in_or_app. left. auto.
      * intros i sq ln Hin. apply in_or_app. left. auto.
  - destruct (find_owed id (m_owed m)) as [[sq ln]|]; [|discriminate].
    destruct (cb_ok m sq status); inversion H; subst. apply Same; auto.
    simpl. intros k Hk. unfold drop_owed in Hk. apply filter_In in Hk. tauto.
  - destruct (_ && _); inversion H; subst. now apply Same.
  - inversion H; subst. destruct T. constructor; auto; simpl.
    + intros x Hx. rewrite errs_of_app. apply in_or_app. left. auto.
    + intros _. apply in_or_app. right. now left.
    + intros i sq ln Hin. apply in_or_app. left. auto.
  - destruct (m_owed m) eqn:Eo; inversion H; subst. apply Same; auto.
    intros k Hk. now rewrite Eo in Hk.
Qed.

Lemma track_run : forall tr m m' acc,
  Track m acc -> mon_run m tr = Some m' -> Track m' (acc ++ tr).
Proof.
  induction tr as [|e tr IH]; intros m m' acc T H; simpl in H.
  - inversion H; subst. now rewrite app_nil_r.
  - destruct (mon_step m e) as [m1|] eqn:E; [|discriminate].
    replace (acc ++ e :: tr) with ((acc ++ [e]) ++ tr) by (now rewrite <- app_assoc).
    apply (IH m1); auto. eapply track_step; eauto.
Qed.

Lemma track0 : Track mon0 [].
Proof. constructor; simpl; auto; try tauto; discriminate. Qed.

Lemma mem_err_inv x st l : mem_err x st l = true -> In (x, st) l.
Proof.
  unfold mem_err. rewrite existsb_exists. intros ([a b] & Hin & Hp). simpl in Hp.
  apply andb_prop in Hp. destruct Hp as (H1 & H2).
  apply Nat.eqb_eq in H1. apply Z.eqb_eq in H2. now subst.
Qed.

(* C10_status *)
Theorem accepted_status tr m :
  mon_run mon0 tr = Some m ->
  forall pre post id st, tr = pre ++ ECb id st :: post ->
  exists sq ln, In (ESend id sq ln 0) pre /\
    ((In sq (handed pre) /\ st = 0) \/
     (~ In sq (handed pre) /\ st <> 0 /\
      (In (sq, st) (errs_of pre) \/ (st = UV_ECANCELED /\ In EClose pre)))).
Proof.
  intros H pre post id st E. subst tr. rewrite mon_run_app in H.
  destruct (mon_run mon0 pre) as [m1|] eqn:E1; [|discriminate].
  pose proof (track_run pre mon0 m1 [] track0 E1) as T. simpl in T. destruct T.
  simpl in H. destruct (find_owed id (m_owed m1)) as [[sq ln]|] eqn:Ef; [|discriminate].
  destruct (cb_ok m1 sq st) eqn:Ec; [|discriminate].
  exists sq, ln. split; [apply t_owed0; now apply find_owed_in|].
  unfold cb_ok in Ec. destruct (mem_nat sq (m_hand m1)) eqn:Em.
  - left. apply mem_nat_in in Em. rewrite t_hand0, <- in_rev in Em.
    split; auto. now apply Z.eqb_eq.
  - right. split.
    + intros Hin. rewrite in_rev, <- t_hand0 in Hin. apply mem_nat_in in Hin. congruence.
    + apply andb_prop in Ec. destruct Ec as (Ec1 & Ec2).
      apply negb_true_iff, Z.eqb_neq in Ec1. split; auto.
      apply orb_prop in Ec2. destruct Ec2 as [Ec2|Ec2].
      * left. apply t_errs0. now apply mem_err_inv.
      * right. apply andb_prop in Ec2. destruct Ec2 as (Ec2 & Ec3).
        apply Z.eqb_eq in Ec2. auto.
Qed.

(* ---- getters ---- *)
(* the requests owed a callback after a trace: accepted by uv_udp_send, callback not run *)
Fixpoint owed_after (l : list okey) (tr : list event) : list okey :=
  match tr with
  | [] => l
  | ESend id seq len ret :: t =>
      if ret =? 0 then owed_after (l ++ [(id, seq, len)]) t else owed_after l t
  | ECb id _ :: t => owed_after (drop_owed id l) t
  | _ :: t => owed_after l t
  end.

Lemma mon_run_owed : forall tr m m',
  mon_run m tr = Some m' -> m_owed m' = owed_after (m_owed m) tr.
Proof.
  induction tr as [|e tr IH]; intros m m' H; simpl in H.
  - inversion H; reflexivity.
  - destruct (mon_step m e) as [m1|] eqn:E; [|discriminate].
    rewrite (IH _ _ H). clear H IH.
    destruct e; simpl in *; try (inversion E; subst; reflexivity).
    + destruct (ret =? 0); [destruct (m_next m <=? id)%nat|]; inversion E; subst; reflexivity.
    + unfold mon_sys in E. destruct a as [r|p]; simpl in E.
      * destruct (newer (m_hand m) seq); inversion E; reflexivity.
      * destruct (real_err (Z.pos p)); inversion E; reflexivity.
    + unfold mon_sys in E. destruct a as [r|p].
      * destruct (hand_all (m_hand m) (firstn (N.to_nat r) seqs)); inversion E; reflexivity.
      * destruct (real_err (Z.pos p)); [destruct seqs|]; inversion E; reflexivity.
    + destruct (find_owed id (m_owed m)) as [[sq ln]|]; [|discriminate].
      destruct (cb_ok m sq status); inversion E; reflexivity.
    + destruct (_ && _); inversion E; reflexivity.
    + destruct (m_owed m) eqn:Eo; inversion E; subst; rewrite ?Eo; reflexivity.
Qed.

(* C10_queue_getters_exact, on traces *)
Theorem accepted_getters tr m :
  mon_run mon0 tr = Some m ->
  forall pre post sz ct act, tr = pre ++ EGet sz ct act :: post ->
  ct = Z.of_nat (length (owed_after [] pre)) /\ sz = owed_bytes (owed_after [] pre).
Proof.
  intros H pre post sz ct act E. subst tr. rewrite mon_run_app in H.
  destruct (mon_run mon0 pre) as [m1|] eqn:E1; [|discriminate].
  pose proof (mon_run_owed _ _ _ E1) as Ho.
  change (owed_after [] pre) with (owed_after (m_owed mon0) pre). rewrite <- Ho. simpl in H.
  destruct ((ct =? Z.of_nat (length (m_owed m1))) && (sz =? owed_bytes (m_owed m1))) eqn:Eg;
    [|discriminate].
  apply andb_prop in Eg. destruct Eg as (G1 & G2).
  apply Z.eqb_eq in G1. apply Z.eqb_eq in G2. auto.
Qed.

(* ... and on states: in every state the model reaches between API calls and loop
   iterations, the two counters are the number and bytes of the queued requests *)
Theorem getters_state fx beh rbeh conn mm o r al ops :
  let s := fst (run fx beh rbeh (init conn mm o r al) ops) in
  sq_count s = Z.of_nat (length (cq s ++ wq s)) /\ sq_size s = sum_len (cq s ++ wq s).
Proof.
  destruct (run_ok fx beh rbeh ops _ _ (Inv_init conn mm o r al)) as (m & _ & I).
  simpl. destruct I. unfold strips in *. rewrite map_length in i_count0. split; auto.
  rewrite i_size0. clear. induction (cq _ ++ wq _) as [|x l IH]; simpl; [reflexivity|].
  now rewrite IH.
Qed.

(* ------------------------------------------------------------------ *)
(* Part D.  Buffers: every alloc_cb result is handed back exactly once. *)

Definition bquiet (e : event) : bool :=
  match e with EAlloc _ _ | ERecv _ _ _ _ _ | ERecvStop _ => false | _ => true end.
Definition bsoft (e : event) : bool :=
  match e with EAlloc _ _ | ERecv _ _ _ _ _ => false | _ => true end.

Lemma bquiet_soft ev : forallb bquiet ev = true -> forallb bsoft ev = true.
Proof.
  induction ev as [|e ev IH]; simpl; auto. intros H. apply andb_prop in H. destruct H as (H1 & H2).
  rewrite (IH H2). destruct e; simpl in *; auto; discriminate.
Qed.

Lemma sys_bquiet ev : forallb is_sys ev = true -> forallb bquiet ev = true.
Proof.
  induction ev as [|e ev IH]; simpl; auto. intros H. apply andb_prop in H. destruct H as (H1 & H2).
  rewrite (IH H2). destruct e; simpl in *; auto; discriminate.
Qed.

Lemma bmon_quiet : forall ev m, forallb bquiet ev = true -> bmon_run m ev = Some m.
Proof.
  induction ev as [|e ev IH]; intros m H; simpl in *; auto.
  apply andb_prop in H. destruct H as (H1 & H2).
  assert (bmon_step m e = Some m) as St by (destruct m as [cur nb]; destruct e; simpl in *; auto; discriminate).
  rewrite St. now apply IH.
Qed.

Lemma bmon_soft_none : forall ev nb,
  forallb bsoft ev = true -> bmon_run (None, nb) ev = Some (None, nb).
Proof.
  induction ev as [|e ev IH]; intros nb H; cbn [bmon_run forallb] in *; auto.
  apply andb_prop in H. destruct H as (H1 & H2).
  assert (bmon_step (None, nb) e = Some (None, nb)) as St by (destruct e; simpl in *; auto; discriminate).
  rewrite St. now apply IH.
Qed.

Lemma bmon_run_app : forall a b m,
  bmon_run m (a ++ b) = match bmon_run m a with Some m' => bmon_run m' b | None => None end.
Proof.
  induction a as [|e a IH]; intros b m; simpl; [reflexivity|].
  destruct (bmon_step m e); [apply IH|reflexivity].
Qed.

(* send-side code: quiet events, receive callback and buffer counter untouched *)
Definition keeps (s : st) (r : st * list event) : Prop :=
  forallb bquiet (snd r) = true /\ recving (fst r) = recving s /\ next_buf (fst r) = next_buf s.

Lemma keeps_bind s s1 e1 s2 e2 :
  keeps s (s1, e1) -> keeps s1 (s2, e2) -> keeps s (s2, e1 ++ e2).
Proof.
  intros (A1 & A2 & A3) (B1 & B2 & B3). simpl in *. repeat split; simpl; try congruence.
  now rewrite forallb_app, A1, B1.
Qed.

Lemma sendmsg_loop_keeps fx : forall fuel s, keeps s (sendmsg_loop fx fuel s).
Proof.
  induction fuel as [|f IH]; intros s; simpl; [repeat split|].
  destruct (sendmsgv fx (map q_d (firstn BATCH (wq s))) (os s)) as [[n ev] o'] eqn:E.
  destruct (sendmsgv_basic _ _ _ _ _ _ E) as (Hs & _ & _). apply sys_bquiet in Hs.
  destruct (0 <? n).
  - destruct (skipn (Z.to_nat n) (wq s)) eqn:Ew.
    + repeat split; auto.
    + specialize (IH (complete (Z.to_nat n) (set_os o' s))).
      destruct (sendmsg_loop fx f (complete (Z.to_nat n) (set_os o' s))) as [s3 ev'].
      apply (keeps_bind s (complete (Z.to_nat n) (set_os o' s)) ev s3 ev'); auto. repeat split; auto.
  - destruct (n =? 0).
    + specialize (IH (set_os o' s)). destruct (sendmsg_loop fx f (set_os o' s)) as [s3 ev'].
      apply (keeps_bind s (set_os o' s) ev s3 ev'); auto. repeat split; auto.
    + destruct (n =? UV_EAGAIN); [repeat split; auto|].
      unfold fail_head. simpl. destruct (wq s); repeat split; auto.
Qed.

Lemma udp_sendmsg_keeps fx s : keeps s (udp_sendmsg fx s).
Proof. unfold udp_sendmsg. destruct (wq s); [repeat split|apply sendmsg_loop_keeps]. Qed.

Lemma udp_send_keeps fx s len addr nb : keeps s (udp_send fx s len addr nb).
Proof.
  unfold udp_send. destruct (check_before_send s addr <? 0); [repeat split|].
  match goal with |- keeps s (if ?c then _ else _) => destruct c end; [|repeat split].
  match goal with |- context [udp_sendmsg fx ?S1] => pose proof (udp_sendmsg_keeps fx S1) as K;
    destruct (udp_sendmsg fx S1) as [s2 ev] end.
  destruct K as (K1 & K2 & K3). simpl in *.
  destruct (wq s2); repeat split; simpl; auto.
Qed.

Lemma udp_try_send_keeps s len addr nb : keeps s (udp_try_send s len addr nb).
Proof.
  unfold udp_try_send. destruct (check_before_send s addr <? 0); [repeat split|].
  destruct (negb _); [repeat split|].
  destruct (sendmsg1 _ _) as [[r ev] o'] eqn:E.
  destruct (sendmsg1_spec _ _ _ _ _ E) as (Hs & _). apply sys_bquiet in Hs.
  repeat split; simpl; auto. now rewrite forallb_app, Hs.
Qed.

Lemma udp_try_send2_keeps fx s lens flags addr : keeps s (udp_try_send2 fx s lens flags addr).
Proof.
  unfold udp_try_send2. destruct (_ <? 1)%nat; [repeat split|].
  destruct (negb _); [repeat split|]. destruct (0 <? _); [repeat split|].
  destruct (sendmsgv _ _ _) as [[r ev] o'] eqn:E.
  destruct (sendmsgv_basic _ _ _ _ _ _ E) as (Hs & _). apply sys_bquiet in Hs.
  repeat split; simpl; auto. now rewrite forallb_app, Hs.
Qed.

(* any API call *)
Lemma api_soft fx s o :
  forallb bsoft (snd (api fx s o)) = true /\ next_buf (fst (api fx s o)) = next_buf s.
Proof.
  assert (K : forall r, keeps s r -> forallb bsoft (snd r) = true /\ next_buf (fst r) = next_buf s).
  { intros r (K1 & _ & K3). split; auto. now apply bquiet_soft. }
  destruct o; simpl; auto; destruct (closing s); simpl; auto.
  - apply K, udp_send_keeps.
  - apply K, udp_try_send_keeps.
  - apply K, udp_try_send2_keeps.
  - unfold udp_connect. destruct (connected s); simpl; auto.
  - unfold udp_disconnect. destruct (connected s); simpl; auto.
  - unfold recv_start. destruct (pin s); simpl; auto.
Qed.

Lemma api_nostop fx s o :
  o <> ORecvStop ->
  forallb bquiet (snd (api fx s o)) = true /\
  (recving s = true -> recving (fst (api fx s o)) = true) /\
  next_buf (fst (api fx s o)) = next_buf s.
Proof.
  intros Hne.
  assert (K : forall r, keeps s r -> forallb bquiet (snd r) = true /\
               (recving s = true -> recving (fst r) = true) /\ next_buf (fst r) = next_buf s).
  { intros r (K1 & K2 & K3). repeat split; auto. congruence. }
  destruct o; simpl; auto; try congruence; destruct (closing s); simpl; auto.
  - apply K, udp_send_keeps.
  - apply K, udp_try_send_keeps.
  - apply K, udp_try_send2_keeps.
  - unfold udp_connect. destruct (connected s); simpl; auto.
  - unfold udp_disconnect. destruct (connected s); simpl; auto.
  - unfold recv_start. destruct (pin s); simpl; auto.
Qed.

Lemma apis_soft fx : forall l s,
  forallb bsoft (snd (apis fx s l)) = true /\ next_buf (fst (apis fx s l)) = next_buf s.
Proof.
  induction l as [|o l IH]; intros s; simpl; auto.
  pose proof (api_soft fx s o) as (A1 & A2). destruct (api fx s o) as [s1 e1].
  pose proof (IH s1) as (B1 & B2). destruct (apis fx s1 l) as [s2 e2]. simpl in *.
  split; [now rewrite forallb_app, A1, B1|congruence].
Qed.

Lemma apis_nostop fx : forall l s,
  ~ In ORecvStop l ->
  forallb bquiet (snd (apis fx s l)) = true /\
  (recving s = true -> recving (fst (apis fx s l)) = true) /\
  next_buf (fst (apis fx s l)) = next_buf s.
Proof.
  induction l as [|o l IH]; intros s Hn; simpl; auto.
  assert (Ho : o <> ORecvStop) by (intros E; apply Hn; now left).
  assert (Hl : ~ In ORecvStop l) by (intros E; apply Hn; now right).
  pose proof (api_nostop fx s o Ho) as (A1 & A2 & A3). destruct (api fx s o) as [s1 e1].
  pose proof (IH s1 Hl) as (B1 & B2 & B3). destruct (apis fx s1 l) as [s2 e2]. simpl in *.
  repeat split; [now rewrite forallb_app, A1, B1|auto|congruence].
Qed.

(* the precondition DESIGN names: no uv_udp_recv_stop from inside a chunk callback *)
Definition no_stop_in_chunk_cb (rbeh : nat -> bool -> list op) : Prop :=
  forall k, ~ In ORecvStop (rbeh k true).

Definition whole_ok (ch : bool) (flags : Z) : bool :=
  negb (has_flag flags UV_UDP_MMSG_CHUNK) && (negb ch || has_flag flags UV_UDP_MMSG_FREE).

Lemma recv_cb_whole fx rbeh s b ch nb nread msg flags :
  whole_ok ch flags = true ->
  bmon_run (Some (b, ch, false), nb) (snd (recv_cb fx rbeh s b Whole nread msg flags)) = Some (None, nb) /\
  next_buf (fst (recv_cb fx rbeh s b Whole nread msg flags)) = next_buf s.
Proof.
  intros Hf. unfold recv_cb.
  match goal with |- context [apis fx ?S1 ?L] => pose proof (apis_soft fx L S1) as (A1 & A2);
    destruct (apis fx S1 L) as [s2 ev] end.
  simpl in *. rewrite Nat.eqb_refl. unfold whole_ok in Hf. rewrite Hf.
  split; [now apply bmon_soft_none|exact A2].
Qed.

Lemma recv_cb_chunk fx rbeh s b k ch nb nread msg flags :
  no_stop_in_chunk_cb rbeh -> recving s = true -> has_flag flags UV_UDP_MMSG_CHUNK = true ->
  let r := recv_cb fx rbeh s b (Chunk k) nread msg flags in
  bmon_run (Some (b, ch, false), nb) (snd r) = Some (Some (b, true, false), nb) /\
  recving (fst r) = true /\ next_buf (fst r) = next_buf s.
Proof.
  intros Hn Hr Hf. unfold recv_cb.
  match goal with |- context [apis fx ?S1 ?L] =>
    pose proof (apis_nostop fx L S1 (Hn _)) as (A1 & A2 & A3); destruct (apis fx S1 L) as [s2 ev] end.
  simpl in *. rewrite Nat.eqb_refl, Hf. split; [now apply bmon_quiet|]. split; auto.
Qed.

Lemma chunk_flag x : has_flag (UV_UDP_MMSG_CHUNK + msg_flags x) UV_UDP_MMSG_CHUNK = true.
Proof. unfold msg_flags. destruct (m_trunc x); reflexivity. Qed.

Lemma chunk_cbs_b fx rbeh b nb : forall ms k s ch,
  no_stop_in_chunk_cb rbeh -> recving s = true ->
  let r := chunk_cbs fx rbeh s b k ms in
  bmon_run (Some (b, ch, false), nb) (snd r) =
    Some (Some (b, match ms with [] => ch | _ :: _ => true end, false), nb) /\
  recving (fst r) = true /\ next_buf (fst r) = next_buf s.
Proof.
  induction ms as [|x ms IH]; intros k s ch Hn Hr; cbn [chunk_cbs].
  - simpl. auto.
  - rewrite Hr.
    pose proof (recv_cb_chunk fx rbeh s b k ch nb (m_len x) (Some (m_id x))
                  (UV_UDP_MMSG_CHUNK + msg_flags x) Hn Hr (chunk_flag x)) as (A1 & A2 & A3).
    destruct (recv_cb fx rbeh s b (Chunk k) (m_len x) (Some (m_id x)) (UV_UDP_MMSG_CHUNK + msg_flags x))
      as [s1 e1].
    destruct (IH (S k) s1 true Hn A2) as (B1 & B3 & B4).
    destruct (chunk_cbs fx rbeh s1 b (S k) ms) as [s2 e2]. cbn [fst snd] in *.
    rewrite bmon_run_app, A1, B1. split; [destruct ms; reflexivity|]. split; auto. congruence.
Qed.

Lemma recv_retry_bquiet mk : (forall a, bquiet (mk a) = true) ->
  forall o a ev o', recv_retry mk o = (a, ev, o') -> forallb bquiet ev = true.
Proof.
  intros Hmk. induction o as [|x o IH]; intros a ev o' H; simpl in H.
  - inversion H; subst. simpl. now rewrite Hmk.
  - destruct x as [l|e].
    + inversion H; subst. simpl. now rewrite Hmk.
    + destruct (e =? EINTR).
      * destruct (recv_retry mk o) as [[a1 ev1] o1] eqn:E. inversion H; subst.
        simpl. rewrite Hmk. eapply IH; eauto.
      * inversion H; subst. simpl. now rewrite Hmk.
Qed.

Lemma udp_recvmmsg_b fx rbeh s b len nb :
  no_stop_in_chunk_cb rbeh -> recving s = true ->
  let r := fst (udp_recvmmsg fx rbeh s b len) in
  bmon_run (Some (b, false, false), nb) (snd r) = Some (None, nb) /\ next_buf (fst r) = next_buf s.
Proof.
  intros Hn Hr. unfold udp_recvmmsg.
  set (chunks := if Z.of_nat BATCH <? len / DGRAM_MAXSIZE then Z.of_nat BATCH else len / DGRAM_MAXSIZE).
  destruct (recv_retry (fun a => ERSys true chunks (rclamp (Z.to_nat chunks) a)) (orv s))
    as [[a0 ev] o'] eqn:E.
  pose proof (recv_retry_bquiet (fun a => ERSys true chunks (rclamp (Z.to_nat chunks) a))
                (fun a => eq_refl) _ _ _ _ E) as Hq.
  destruct (rclamp (Z.to_nat chunks) a0) as [[|x ms]|e].
  - pose proof (recv_cb_whole fx rbeh (set_orv o' (allocs s) s) b false nb 0 None 0 eq_refl) as (A1 & A2).
    destruct (recv_cb fx rbeh (set_orv o' (allocs s) s) b Whole 0 None 0) as [s2 e2].
    simpl in *. rewrite bmon_run_app, (bmon_quiet _ _ Hq). auto.
  - destruct (chunk_cbs_b fx rbeh b nb (x :: ms) 0 (set_orv o' (allocs s) s) false Hn Hr)
      as (B1 & B3 & B4).
    destruct (chunk_cbs fx rbeh (set_orv o' (allocs s) s) b 0 (x :: ms)) as [s2 e2].
    cbn [fst snd] in B1, B3, B4. rewrite B3.
    pose proof (recv_cb_whole fx rbeh s2 b true nb 0 None UV_UDP_MMSG_FREE eq_refl) as (A1 & A2).
    destruct (recv_cb fx rbeh s2 b Whole 0 None UV_UDP_MMSG_FREE) as [s3 e3].
    simpl in *. rewrite bmon_run_app, (bmon_quiet _ _ Hq), bmon_run_app, B1. split; [exact A1|congruence].
  - pose proof (recv_cb_whole fx rbeh (set_orv o' (allocs s) s) b false nb
                  (if e =? EAGAIN then 0 else - e) None 0 eq_refl) as (A1 & A2).
    destruct (recv_cb fx rbeh (set_orv o' (allocs s) s) b Whole (if e =? EAGAIN then 0 else - e) None 0)
      as [s2 e2].
    simpl in *. rewrite bmon_run_app, (bmon_quiet _ _ Hq). auto.
Qed.

Lemma whole_ok_msg x : whole_ok false (msg_flags x) = true.
Proof. unfold msg_flags. destruct (m_trunc x); reflexivity. Qed.

Lemma recv_round_b fx rbeh s b len count nb s2 ev nread c' :
  no_stop_in_chunk_cb rbeh -> recving s = true ->
  recv_round fx rbeh s b len count = (s2, ev, nread, c') ->
  bmon_run (Some (b, false, false), nb) ev = Some (None, nb) /\ next_buf s2 = next_buf s.
Proof.
  intros Hn Hr. unfold recv_round. destruct (mmsg s).
  - pose proof (udp_recvmmsg_b fx rbeh s b len nb Hn Hr) as H.
    destruct (udp_recvmmsg fx rbeh s b len) as [[s1 e1] nr]. simpl in H.
    intros Heq. inversion Heq; subst. exact H.
  - destruct (recv_retry (fun a => ERSys false 1 (rclamp 1 a)) (orv s)) as [[a0 e0] o'] eqn:E.
    pose proof (recv_retry_bquiet (fun a => ERSys false 1 (rclamp 1 a)) (fun a => eq_refl) _ _ _ _ E) as Hq.
    destruct (rclamp 1 a0) as [[|x ms]|e].
    + pose proof (recv_cb_whole fx rbeh (set_orv o' (allocs s) s) b false nb 0 None 0 eq_refl) as (A1 & A2).
      destruct (recv_cb fx rbeh (set_orv o' (allocs s) s) b Whole 0 None 0) as [s3 e3].
      intros Heq. inversion Heq; subst. simpl in *. rewrite bmon_run_app, (bmon_quiet _ _ Hq). auto.
    + pose proof (recv_cb_whole fx rbeh (set_orv o' (allocs s) s) b false nb (m_len x) (Some (m_id x))
                    (msg_flags x) (whole_ok_msg x)) as (A1 & A2).
      destruct (recv_cb fx rbeh (set_orv o' (allocs s) s) b Whole (m_len x) (Some (m_id x)) (msg_flags x))
        as [s3 e3].
      intros Heq. inversion Heq; subst. simpl in *. rewrite bmon_run_app, (bmon_quiet _ _ Hq). auto.
    + pose proof (recv_cb_whole fx rbeh (set_orv o' (allocs s) s) b false nb
                    (if e =? EAGAIN then 0 else - e) None 0 eq_refl) as (A1 & A2).
      destruct (recv_cb fx rbeh (set_orv o' (allocs s) s) b Whole (if e =? EAGAIN then 0 else - e) None 0)
        as [s3 e3].
      intros Heq. inversion Heq; subst. simpl in *. rewrite bmon_run_app, (bmon_quiet _ _ Hq). auto.
Qed.

Lemma recvmsg_loop_b fx rbeh : forall fuel s count nb,
  no_stop_in_chunk_cb rbeh -> recving s = true -> (nb <= next_buf s)%nat ->
  let r := recvmsg_loop fx fuel rbeh s count in
  exists nb', bmon_run (None, nb) (snd r) = Some (None, nb') /\ (nb' <= next_buf (fst r))%nat.
Proof.
  induction fuel as [|f IH]; intros s count nb Hn Hr Hnb; cbn [recvmsg_loop].
  - exists nb. simpl. auto.
  - set (len := match allocs s with [] => 0 | l :: _ => l end).
    set (s0 := set_ctr (next_seq s) (next_id s) (S (next_buf s)) (ncb s) (nrcb s)
                       (set_orv (orv s) (tl (allocs s)) s)).
    assert (Hal : forall ev, bmon_run (None, nb) (EAlloc (next_buf s) len :: ev) =
                             bmon_run (Some (next_buf s, false, false), S (next_buf s)) ev).
    { intros ev. cbn [bmon_run bmon_step]. apply Nat.leb_le in Hnb. now rewrite Hnb. }
    destruct (len <=? 0).
    + pose proof (recv_cb_whole fx rbeh s0 (next_buf s) false (S (next_buf s)) UV_ENOBUFS None 0 eq_refl)
        as (A1 & A2).
      destruct (recv_cb fx rbeh s0 (next_buf s) Whole UV_ENOBUFS None 0) as [s1 e1].
      exists (S (next_buf s)). cbn [snd fst] in *. rewrite Hal. split; [exact A1|]. rewrite A2. simpl. lia.
    + destruct (recv_round fx rbeh s0 (next_buf s) len count) as [[[s2 ev] nread] c'] eqn:E.
      destruct (recv_round_b fx rbeh s0 (next_buf s) len count (S (next_buf s)) s2 ev nread c' Hn Hr E)
        as (A1 & A2).
      destruct (negb (nread =? -1) && (0 <? c') && negb (closing s2) && recving s2) eqn:Ec.
      * apply andb_prop in Ec. destruct Ec as (_ & Hr2).
        assert (Hnb2 : (S (next_buf s) <= next_buf s2)%nat) by (rewrite A2; simpl; lia).
        destruct (IH s2 c' (S (next_buf s)) Hn Hr2 Hnb2) as (nb' & B1 & B2).
        destruct (recvmsg_loop fx f rbeh s2 c') as [s3 ev']. cbn [snd fst] in *.
        exists nb'. rewrite Hal, bmon_run_app, A1. auto.
      * exists (S (next_buf s)). cbn [snd fst]. rewrite Hal. split; [exact A1|]. rewrite A2. simpl. lia.
Qed.

(* one POLLIN dispatch: every buffer alloc_cb handed out is handed back exactly once,
   chunks only in between, after chunks only with UV_UDP_MMSG_FREE *)
Theorem recv_buffers_returned_local fx rbeh s nb :
  no_stop_in_chunk_cb rbeh -> (nb <= next_buf s)%nat ->
  exists nb', bmon_run (None, nb) (snd (udp_recvmsg fx rbeh s)) = Some (None, nb') /\
              (nb' <= next_buf (fst (udp_recvmsg fx rbeh s)))%nat.
Proof.
  intros Hn Hnb. unfold udp_recvmsg. destruct (recving s) eqn:Hr.
  - now apply recvmsg_loop_b.
  - exists nb. simpl. auto.
Qed.

(* ---- whole runs ---- *)
Lemma completed_loop_soft fx beh : forall fuel s,
  let r := completed_loop fx fuel beh s in
  forallb bsoft (snd r) = true /\ next_buf (fst r) = next_buf s.
Proof.
  induction fuel as [|f IH]; intros s; simpl; auto.
  destruct (cq s) as [|q c]; simpl; auto.
  match goal with |- context [apis fx ?S2 ?B] => pose proof (apis_soft fx B S2) as (A1 & A2);
    destruct (apis fx S2 B) as [s3 ev] end.
  pose proof (IH s3) as (B1 & B2). destruct (completed_loop fx f beh s3) as [s4 ev']. simpl in *.
  split; [now rewrite forallb_app, A1, B1|congruence].
Qed.

Lemma run_completed_soft fx beh s :
  let r := run_completed fx beh s in
  forallb bsoft (snd r) = true /\ next_buf (fst r) = next_buf s.
Proof.
  unfold run_completed.
  pose proof (completed_loop_soft fx beh (length (cq (set_processing true s))) (set_processing true s))
    as (A1 & A2).
  destruct (completed_loop fx _ beh (set_processing true s)) as [s1 ev]. simpl in *.
  split; auto. destruct (wq s1); [destruct (closing s1)|]; simpl; auto.
Qed.

Definition bgood (s : st) (nb : nat) (r : st * list event) : Prop :=
  exists nb', bmon_run (None, nb) (snd r) = Some (None, nb') /\ (nb' <= next_buf (fst r))%nat.

Lemma bgood_soft s nb r :
  (nb <= next_buf s)%nat -> forallb bsoft (snd r) = true -> next_buf (fst r) = next_buf s -> bgood s nb r.
Proof. intros Hnb H1 H2. exists nb. split; [now apply bmon_soft_none|lia]. Qed.

Lemma bgood_bind s nb s1 e1 s2 e2 :
  bgood s nb (s1, e1) -> (forall nb1, (nb1 <= next_buf s1)%nat -> bgood s1 nb1 (s2, e2)) ->
  bgood s nb (s2, e1 ++ e2).
Proof.
  intros (nb1 & R1 & L1) H. destruct (H nb1 L1) as (nb2 & R2 & L2).
  exists nb2. simpl in *. rewrite bmon_run_app, R1. auto.
Qed.

Lemma udp_io_b fx beh rbeh s nb rin rout :
  no_stop_in_chunk_cb rbeh -> (nb <= next_buf s)%nat -> bgood s nb (udp_io fx beh rbeh s rin rout).
Proof.
  intros Hn Hnb. unfold udp_io.
  assert (H1 : bgood s nb (if rin then udp_recvmsg fx rbeh s else (s, []))).
  { destruct rin; [now apply recv_buffers_returned_local|]. exists nb. simpl. auto. }
  destruct (if rin then udp_recvmsg fx rbeh s else (s, [])) as [s1 e1].
  destruct (rout && negb (closing s1)); [|exact H1].
  pose proof (udp_sendmsg_keeps fx s1) as (K1 & _ & K3).
  destruct (udp_sendmsg fx s1) as [s2 e2].
  pose proof (run_completed_soft fx beh s2) as (C1 & C2).
  destruct (run_completed fx beh s2) as [s3 e3]. simpl in *.
  apply (bgood_bind s nb s1 e1 s3 (e2 ++ e3) H1). intros nb1 L1.
  apply bgood_soft; simpl; auto; [|congruence].
  rewrite forallb_app, C1. now rewrite (bquiet_soft _ K1).
Qed.

Lemma pending_b fx beh rbeh : forall n s nb,
  no_stop_in_chunk_cb rbeh -> (nb <= next_buf s)%nat -> bgood s nb (pending fx n beh rbeh s).
Proof.
  induction n as [|n IH]; intros s nb Hn Hnb; simpl.
  - exists nb. simpl. auto.
  - destruct (fed s); [|exists nb; simpl; auto].
    pose proof (udp_io_b fx beh rbeh (set_fed false s) nb false true Hn Hnb) as H1.
    destruct (udp_io fx beh rbeh (set_fed false s) false true) as [s1 e1].
    destruct (pending fx n beh rbeh s1) as [s2 e2] eqn:E2.
    apply (bgood_bind s nb s1 e1 s2 e2).
    + destruct H1 as (nb1 & R1 & L1). exists nb1. auto.
    + intros nb1 L1. rewrite <- E2. now apply IH.
Qed.

Lemma finish_close_soft fx beh s :
  let r := finish_close fx beh s in
  forallb bsoft (snd r) = true /\ next_buf (fst r) = next_buf s.
Proof.
  unfold finish_close.
  match goal with |- context [run_completed fx beh ?S1] =>
    pose proof (run_completed_soft fx beh S1) as (A1 & A2); destruct (run_completed fx beh S1) as [s2 ev] end.
  simpl in *. split; [now rewrite forallb_app, A1|exact A2].
Qed.

Lemma run_once_b fx beh rbeh s nb kin kout :
  no_stop_in_chunk_cb rbeh -> (nb <= next_buf s)%nat -> bgood s nb (run_once fx beh rbeh s kin kout).
Proof.
  intros Hn Hnb. unfold run_once.
  pose proof (pending_b fx beh rbeh 1 s nb Hn Hnb) as H1.
  destruct (pending fx 1 beh rbeh s) as [s1 e1].
  destruct (if (kin && pin s1) || (kout && pout s1)
            then udp_io fx beh rbeh s1 (kin && pin s1) (kout && pout s1) else (s1, []))
    as [s2 e2] eqn:E2.
  destruct (pending fx 8 beh rbeh s2) as [s3 e3] eqn:E3.
  destruct (if close_pending s3
            then finish_close fx beh (set_io (pin s3) (pout s3) (fed s3) (active s3) (closing s3) false s3)
            else (s3, [])) as [s4 e4] eqn:E4.
  assert (bgood s nb (s4, e1 ++ e2 ++ e3 ++ e4)) as (nb' & R & L).
  { apply (bgood_bind s nb s1 e1 s4 (e2 ++ e3 ++ e4)).
    { destruct H1 as (nb1 & R1 & L1). exists nb1. auto. }
    intros nb1 L1. apply (bgood_bind s1 nb1 s2 e2 s4 (e3 ++ e4)).
    { rewrite <- E2. destruct ((kin && pin s1) || (kout && pout s1)); [now apply udp_io_b|].
      exists nb1. simpl. auto. }
    intros nb2 L2. apply (bgood_bind s2 nb2 s3 e3 s4 e4).
    { rewrite <- E3. now apply pending_b. }
    intros nb3 L3. rewrite <- E4. destruct (close_pending s3).
    - pose proof (finish_close_soft fx beh
                    (set_io (pin s3) (pout s3) (fed s3) (active s3) (closing s3) false s3)) as (F1 & F2).
      apply bgood_soft; auto.
    - exists nb3. simpl. auto. }
  exists nb'. simpl in *. auto.
Qed.

Lemma run_b fx beh rbeh : forall l s nb,
  no_stop_in_chunk_cb rbeh -> (nb <= next_buf s)%nat -> bgood s nb (run fx beh rbeh s l).
Proof.
  induction l as [|o l IH]; intros s nb Hn Hnb.
  - exists nb. simpl. auto.
  - assert (Hgen : forall s1 e1, bgood s nb (s1, e1) ->
                    bgood s nb (let '(s2, e2) := run fx beh rbeh s1 l in (s2, e1 ++ e2))).
    { intros s1 e1 H1. destruct (run fx beh rbeh s1 l) as [s2 e2] eqn:E2.
      apply (bgood_bind s nb s1 e1 s2 e2 H1). intros nb1 L1. rewrite <- E2. now apply IH. }
    destruct o; cbn [run];
      try (match goal with |- bgood s nb (let '(_, _) := api fx s ?O in _) =>
             pose proof (api_soft fx s O) as (A1 & A2); destruct (api fx s O) as [s1 e1];
             apply Hgen; now apply bgood_soft end).
    pose proof (run_once_b fx beh rbeh s nb kin kout Hn Hnb) as Ha.
    destruct (run_once fx beh rbeh s kin kout) as [s1 e1]. now apply Hgen.
Qed.

(* C10_recv_buffers_returned *)
Theorem model_accepted_buffers fx beh rbeh conn mm o r al ops :
  no_stop_in_chunk_cb rbeh ->
  exists nb, bmon_run bmon0 (snd (run fx beh rbeh (init conn mm o r al) ops)) = Some (None, nb).
Proof.
  intros Hn. destruct (run_b fx beh rbeh ops (init conn mm o r al) 0 Hn (Nat.le_0_l _)) as (nb & R & _).
  eauto.
Qed.

(* ------------------------------------------------------------------ *)
(* Part E.  The kernel's IOV_MAX rule: a datagram made of more than IOV_MAX buffers is never
   handed to the OS (so by the status theorem its request never reports 0, and try_send /
   try_send2 never count it). *)
Lemma okp_firstn : forall m k, (k <= okp m)%nat ->
  Forall (fun d => (d_nb d <= IOV_MAX)%N) (firstn k m).
Proof.
  induction m as [|d m IH]; intros k Hk; simpl in *.
  - rewrite firstn_nil. constructor.
  - destruct k; [constructor|]. simpl.
    destruct (d_nb d <=? IOV_MAX)%N eqn:E; [|lia].
    constructor; [now apply N.leb_le|]. apply IH. lia.
Qed.

Definition small_enough (ds : list dgram) (sq : nat) : Prop :=
  exists d, In d ds /\ d_seq d = sq /\ (d_nb d <= IOV_MAX)%N.

Lemma chunk_loop_iov fx : forall fuel ds i nsent o res ev o',
  chunk_loop fx fuel ds i nsent o = (res, ev, o') -> Forall (small_enough ds) (handed ev).
Proof.
  induction fuel as [|f IH]; intros ds i nsent o res ev o' H; simpl in H.
  - inversion H; subst. constructor.
  - destruct (length ds <=? i)%nat; [inversion H; subst; constructor|].
    set (m := firstn BATCH (skipn i ds)) in *.
    destruct (send_retry (fun a => ESysN (map d_seq m) (clamp m a)) o) as [[a0 ev1] o1] eqn:E.
    pose proof (round_spec m o a0 ev1 o1 E) as R.
    destruct (clamp m a0) as [r|p] eqn:Ec.
    + destruct R as (Rle & Rok & Rh).
      assert (H1 : Forall (small_enough ds) (handed ev1)).
      { rewrite Rh. apply Forall_forall. intros sq Hin. apply in_map_iff in Hin.
        destruct Hin as (d & Ed & Hd). exists d. split; [|split; auto].
        - apply in_firstn in Hd. unfold m in Hd. apply in_firstn in Hd. now apply in_skipn in Hd.
        - pose proof (okp_firstn m (N.to_nat r)) as F. rewrite Forall_forall in F. apply F; auto. lia. }
      destruct (r <? 1)%N; [inversion H; subst; exact H1|].
      destruct (chunk_loop fx f ds _ _ o1) as [[res2 ev2] o2] eqn:E2.
      inversion H; subst. rewrite handed_app. apply Forall_app. split; auto. eapply IH; eauto.
    + inversion H; subst. rewrite R. constructor.
Qed.

Lemma sendmsg1_iov d o res ev o' :
  sendmsg1 d o = (res, ev, o') -> res = 1 -> (d_nb d <= IOV_MAX)%N.
Proof.
  unfold sendmsg1.
  destruct (send_retry (fun a => ESys1 (d_seq d) (clamp1 d a)) o) as [[a ev1] o1].
  intros H; inversion H; subst; clear H. unfold clamp1.
  destruct a as [r|p]; [|intros Hm; pose proof (map_errno_neg p); lia].
  destruct (d_nb d <=? IOV_MAX)%N eqn:E; [intros _; now apply N.leb_le|].
  intros Hm. pose proof (map_errno_neg EMSGSIZE). lia.
Qed.

Theorem oversized_not_handed fx ds o res ev o' :
  sendmsgv fx ds o = (res, ev, o') -> Forall (small_enough ds) (handed ev).
Proof.
  unfold sendmsgv. destruct ds as [|d [|d2 l]]; intros H.
  - inversion H; subst. constructor.
  - destruct (sendmsg1_spec _ _ _ _ _ H) as (_ & _ & _ & [(R & Hh)|(R & Hh & _)]); rewrite Hh.
    + repeat constructor. exists d. split; [now left|]. split; auto. eapply sendmsg1_iov; eauto.
    + constructor.
  - eapply chunk_loop_iov; eauto.
Qed.
