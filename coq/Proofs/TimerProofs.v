(* Proofs about Model/Timer.v: a state invariant preserved by every API
   operation, by the collection loop and by the firing loop of
   uv__run_timers, for every script and every callback behaviour; and the
   trace properties of C04 derived from it. *)
From UV Require Import Lib.Base Model.Heap Model.Timer Proofs.HeapProofs.
From Coq Require Import Permutation.
Local Open Scope Z_scope.

(* ---- the order on keys ---- *)
Definition klt (a b : key) : Prop :=
  k_timeout a < k_timeout b \/ (k_timeout a = k_timeout b /\ k_sid a < k_sid b).

Lemma key_lt_spec a b : key_lt a b = true <-> klt a b.
Proof.
  unfold key_lt, klt.
  destruct (Z.ltb_spec (k_timeout a) (k_timeout b)); [intuition lia|].
  destruct (Z.ltb_spec (k_timeout b) (k_timeout a)); [intuition (try lia; discriminate)|].
  destruct (Z.ltb_spec (k_sid a) (k_sid b)); intuition (try lia; discriminate).
Qed.

Lemma key_lt_false a b : key_lt a b = false <-> ~ klt a b.
Proof. rewrite <- key_lt_spec. destruct (key_lt a b); intuition congruence. Qed.

Lemma key_lt_asym a b : key_lt a b = true -> key_lt b a = false.
Proof. rewrite key_lt_spec, key_lt_false. unfold klt. lia. Qed.

Lemma key_le_trans a b c : le key_lt a b -> le key_lt b c -> le key_lt a c.
Proof. unfold le. rewrite !key_lt_false. unfold klt. lia. Qed.

Notation HI := (heap_inv key_lt).
Notation els s := (elements (h_tree (hp s))).

(* ---- get / set ---- *)
Lemma nth_upd_same {A} (l : list A) i f d :
  (i < length l)%nat -> nth i (upd i f l) d = f (nth i l d).
Proof.
  revert i; induction l as [|x xs IH]; intros [|i] H; simpl in *; try lia; auto.
  apply IH; lia.
Qed.

Lemma nth_upd_other {A} (l : list A) i j f d :
  i <> j -> nth j (upd i f l) d = nth j l d.
Proof.
  revert i j; induction l as [|x xs IH]; intros [|i] [|j] H; simpl; auto; try congruence.
Qed.

Lemma get_set_same s i f : (i < length (tms s))%nat -> get (set_tm s i f) i = f (get s i).
Proof. intros H. unfold get, set_tm; simpl. apply nth_upd_same; auto. Qed.

Lemma get_set_other s i j f : i <> j -> get (set_tm s i f) j = get s j.
Proof. intros H. unfold get, set_tm; simpl. apply nth_upd_other; auto. Qed.

Lemma len_set s i f : length (tms (set_tm s i f)) = length (tms s).
Proof. unfold set_tm; simpl. apply upd_length. Qed.

Lemma hp_set s i f : hp (set_tm s i f) = hp s. Proof. reflexivity. Qed.
Lemma now_set s i f : now (set_tm s i f) = now s. Proof. reflexivity. Qed.
Lemma ready_set s i f : ready (set_tm s i f) = ready s. Proof. reflexivity. Qed.
Lemma counter_set s i f : counter (set_tm s i f) = counter s. Proof. reflexivity. Qed.
Arguments set_tm : simpl never.
Arguments get : simpl never.
Ltac tset := rewrite ?hp_set, ?now_set, ?ready_set, ?counter_set, ?len_set; cbn [hp now ready counter tms].

(* ---- clamp ---- *)
Lemma clamp_sat nw t : 0 <= nw < two64 -> 0 <= t < two64 ->
  clamp nw t = if nw + t <? two64 then nw + t else max64.
Proof.
  intros Hn Ht. unfold clamp, wrap64, max64, two64 in *.
  destruct (Z.ltb_spec (nw + t) 18446744073709551616).
  - rewrite Z.mod_small by lia. destruct (Z.ltb_spec (nw + t) t); lia.
  - destruct (Z.ltb_spec ((nw + t) mod 18446744073709551616) t); lia.
Qed.

Lemma clamp_ge_now nw t : 0 <= nw < two64 -> 0 <= t < two64 -> nw <= clamp nw t.
Proof.
  intros Hn Ht. rewrite clamp_sat by assumption. unfold max64, two64 in *.
  destruct (Z.ltb_spec (nw + t) 18446744073709551616); lia.
Qed.

(* ---- the invariant ---- *)
Record TI (s : tstate) : Prop := {
  ti_heap : HI (hp s);
  ti_e1 : forall k, In k (els s) ->
          (k_id k < length (tms s))%nat /\ t_active (get s (k_id k)) = true /\
          t_timeout (get s (k_id k)) = k_timeout k /\ t_sid (get s (k_id k)) = k_sid k;
  ti_e2 : forall i, (i < length (tms s))%nat -> t_active (get s i) = true ->
          exists k, In k (els s) /\ k_id k = i;
  ti_e3 : NoDup (map k_id (els s));
  ti_r : forall i, In i (ready s) ->
         (i < length (tms s))%nat /\ t_active (get s i) = false /\ t_timeout (get s i) <= now s;
  ti_rn : NoDup (ready s);
  ti_g : forall i, (i < length (tms s))%nat ->
         t_timeout (get s i) = clamp (g_at (get s i)) (g_req (get s i))
}.

Lemma TI_init t0 : TI (tinit t0).
Proof.
  constructor; simpl.
  - apply heap_init_inv.
  - intros k [].
  - intros i H; lia.
  - constructor.
  - intros i [].
  - constructor.
  - intros i H; lia.
Qed.

Lemma get_app_old s i : (i < length (tms s))%nat ->
  nth i (tms s ++ [dflt_timer]) dflt_timer = get s i.
Proof. intros H. unfold get. apply app_nth1; auto. Qed.

Lemma clamp_0_0 : clamp 0 0 = 0.
Proof. reflexivity. Qed.

Lemma TI_timer_init s : TI s -> TI (timer_init s).
Proof.
  intros [H E1 E2 E3 R RN G]. unfold timer_init.
  assert (GET : forall i, get (mkT (now s) (counter s) (hp s) (tms s ++ [dflt_timer]) (ready s)) i = get s i).
  { intros i. unfold get; simpl. destruct (Nat.lt_ge_cases i (length (tms s))).
    - apply app_nth1; auto.
    - rewrite (nth_overflow (tms s)) by lia.
      destruct (Nat.eq_dec i (length (tms s))) as [->|].
      + rewrite app_nth2 by lia. rewrite Nat.sub_diag. reflexivity.
      + apply nth_overflow. rewrite app_length; simpl; lia. }
  constructor; simpl; auto.
  - intros k Hk. rewrite GET. destruct (E1 k Hk) as (A & B). split; auto.
    rewrite app_length; simpl; lia.
  - intros i Hi. rewrite GET. intros Ha.
    destruct (Nat.lt_ge_cases i (length (tms s))); [apply E2; auto|].
    unfold get in Ha. rewrite nth_overflow in Ha by lia. discriminate.
  - intros i Hi. rewrite GET. destruct (R i Hi) as (A & B). split; auto.
    rewrite app_length; simpl; lia.
  - intros i Hi. rewrite GET.
    destruct (Nat.lt_ge_cases i (length (tms s))); [apply G; auto|].
    unfold get. rewrite nth_overflow by lia. reflexivity.
Qed.

(* elements with a given identity are unique *)
Lemma NoDup_map_inj {A B} (f : A -> B) l x y :
  NoDup (map f l) -> In x l -> In y l -> f x = f y -> x = y.
Proof.
  induction l as [|a l IH]; simpl; intros Hn Hx Hy He; [contradiction|].
  inversion Hn as [|? ? Hnin Hn']; subst.
  destruct Hx as [->|Hx]; destruct Hy as [->|Hy]; auto.
  - exfalso. apply Hnin. rewrite He. apply in_map; auto.
  - exfalso. apply Hnin. rewrite <- He. apply in_map; auto.
Qed.

Lemma remove_id_in i j l : In j (remove_id i l) <-> In j l /\ i <> j.
Proof.
  unfold remove_id. rewrite filter_In. split; intros [A B]; split; auto.
  - intros ->. rewrite Nat.eqb_refl in B. discriminate.
  - destruct (Nat.eqb_spec i j); [contradiction|reflexivity].
Qed.

Lemma TI_timer_stop s i : TI s -> (i < length (tms s))%nat -> TI (timer_stop s i).
Proof.
  intros [H E1 E2 E3 R RN G] Hi. unfold timer_stop.
  destruct (t_active (get s i)) eqn:Ea.
  - (* active: remove from the heap *)
    destruct (E2 i Hi Ea) as (k0 & Hk0 & Hid0).
    destruct (heap_remove_spec key_lt k_id key_lt_asym key_le_trans (hp s) i H)
      as (H' & x & Hx & Hp); [eauto|].
    fold (hrem (hp s) i) in *.
    set (s1 := mkT (now s) (counter s) (hrem (hp s) i) (tms s) (ready s)).
    assert (NDx : NoDup (map k_id (x :: elements (h_tree (hrem (hp s) i))))).
    { eapply Permutation_NoDup; [apply Permutation_map; exact Hp| exact E3]. }
    simpl in NDx. apply NoDup_cons_iff in NDx. destruct NDx as [Hxn ND'].
    assert (Hin' : forall k, In k (elements (h_tree (hrem (hp s) i))) -> In k (els s) /\ k_id k <> k_id x).
    { intros k Hk. split.
      - eapply Permutation_in; [apply Permutation_sym; exact Hp| right; exact Hk].
      - intros He. apply Hxn. rewrite <- He. apply in_map; auto. }
    constructor.
    + tset. subst s1; exact H'.
    + tset. subst s1; cbn [hp tms]. intros k Hk. destruct (Hin' k Hk) as (Hko & Hne).
      rewrite get_set_other by congruence. apply E1; auto.
    + intros j Hj. rewrite len_set in Hj. rewrite <- Hx. tset. subst s1; cbn [hp tms] in *.
      destruct (Nat.eq_dec (k_id x) j) as [<-|Hne].
      * rewrite get_set_same by exact Hj. simpl. discriminate.
      * rewrite get_set_other by exact Hne. intros Ha.
        destruct (E2 j Hj Ha) as (k & Hk & Hkid). exists k. split; auto.
        eapply Permutation_in in Hk; [|exact Hp]. destruct Hk as [<-|Hk]; auto. congruence.
    + tset. subst s1; exact ND'.
    + tset. subst s1; cbn [ready tms now]. intros j Hj. destruct (R j Hj) as (A & B & C).
      assert (i <> j) by (intros <-; congruence).
      rewrite get_set_other by assumption. auto.
    + tset. subst s1; exact RN.
    + intros j Hj. rewrite len_set in Hj. rewrite <- Hx. subst s1; cbn [tms] in *.
      destruct (Nat.eq_dec (k_id x) j) as [<-|Hne].
      * rewrite get_set_same by exact Hj. simpl. apply G; auto.
      * rewrite get_set_other by exact Hne. apply G; auto.
  - (* inactive: unlink from the ready queue *)
    constructor; simpl; auto.
    + intros j Hj. apply remove_id_in in Hj. destruct Hj as [Hj _]. apply R; auto.
    + unfold remove_id. apply NoDup_filter. exact RN.
Qed.

Lemma timer_stop_effect s i : TI s -> (i < length (tms s))%nat ->
  let s' := timer_stop s i in
  t_active (get s' i) = false /\ ~ In i (ready s') /\
  now s' = now s /\ counter s' = counter s /\ length (tms s') = length (tms s) /\
  (forall j, In j (ready s') -> In j (ready s)) /\
  (forall j, t_timeout (get s' j) = t_timeout (get s j) /\ t_sid (get s' j) = t_sid (get s j) /\
             t_repeat (get s' j) = t_repeat (get s j) /\ t_cb (get s' j) = t_cb (get s j) /\
             t_closing (get s' j) = t_closing (get s j) /\
             g_at (get s' j) = g_at (get s j) /\ g_req (get s' j) = g_req (get s j)) /\
  (forall j, j <> i -> get s' j = get s j).
Proof.
  intros T Hi. unfold timer_stop. destruct (t_active (get s i)) eqn:Ea; simpl.
  - rewrite ?len_set, ?upd_length. rewrite get_set_same by exact Hi. simpl.
    repeat split; auto.
    + intros Hin. destruct (ti_r s T i Hin) as (_ & B & _). congruence.
    + destruct (Nat.eq_dec i j) as [->|]; [rewrite get_set_same by exact Hi|rewrite get_set_other by assumption]; reflexivity.
    + destruct (Nat.eq_dec i j) as [->|]; [rewrite get_set_same by exact Hi|rewrite get_set_other by assumption]; reflexivity.
    + destruct (Nat.eq_dec i j) as [->|]; [rewrite get_set_same by exact Hi|rewrite get_set_other by assumption]; reflexivity.
    + destruct (Nat.eq_dec i j) as [->|]; [rewrite get_set_same by exact Hi|rewrite get_set_other by assumption]; reflexivity.
    + destruct (Nat.eq_dec i j) as [->|]; [rewrite get_set_same by exact Hi|rewrite get_set_other by assumption]; reflexivity.
    + destruct (Nat.eq_dec i j) as [->|]; [rewrite get_set_same by exact Hi|rewrite get_set_other by assumption]; reflexivity.
    + destruct (Nat.eq_dec i j) as [->|]; [rewrite get_set_same by exact Hi|rewrite get_set_other by assumption]; reflexivity.
    + intros j Hne. rewrite get_set_other by congruence. reflexivity.
  - repeat split; auto.
    + intros Hin. apply remove_id_in in Hin. tauto.
    + intros j Hj. apply remove_id_in in Hj. tauto.
Qed.

Lemma no_elt_of_inactive s i : TI s -> t_active (get s i) = false ->
  ~ In i (map k_id (els s)).
Proof.
  intros T Ha Hin. apply in_map_iff in Hin. destruct Hin as (k & <- & Hk).
  destruct (ti_e1 s T k Hk) as (_ & B & _). congruence.
Qed.

Lemma TI_timer_start s i cb t r : TI s -> (i < length (tms s))%nat ->
  TI (fst (timer_start s i cb t r)).
Proof.
  intros T Hi. unfold timer_start. destruct cb as [c|]; [|exact T].
  destruct (t_closing (get s i)); [exact T|]. simpl.
  pose proof (TI_timer_stop s i T Hi) as T1.
  destruct (timer_stop_effect s i T Hi) as (Ea & Hnr & Hnow & Hctr & Hlen & Hrd & Hfld & Hoth).
  set (s1 := timer_stop s i) in *.
  assert (Hi1 : (i < length (tms s1))%nat) by lia.
  pose proof (no_elt_of_inactive s1 i T1 Ea) as Hnoel.
  destruct T1 as [H E1 E2 E3 R RN G].
  set (kk := mkKey (clamp (now s1) t) (counter s1) i).
  pose proof (heap_insert_inv key_lt (fun _ => O) key_lt_asym key_le_trans (hp s1) kk H) as H'.
  pose proof (heap_insert_elements key_lt (hp s1) kk H) as Hp.
  fold (hins (hp s1) kk) in *.
  constructor.
  - tset. exact H'.
  - tset. intros k Hk.
    eapply Permutation_in in Hk; [|exact Hp]. destruct Hk as [<-|Hk].
    + cbn [k_id kk k_timeout k_sid]. rewrite get_set_same by (cbn [tms]; exact Hi1). simpl. auto.
    + assert (k_id k <> i) by (intros <-; apply Hnoel; apply in_map; auto).
      rewrite get_set_other by congruence. apply E1; auto.
  - intros j Hj. rewrite len_set in Hj. cbn [tms] in Hj. tset.
    destruct (Nat.eq_dec i j) as [<-|Hne].
    + intros _. exists kk. split; [|reflexivity].
      eapply Permutation_in; [apply Permutation_sym; exact Hp| left; reflexivity].
    + rewrite get_set_other by exact Hne. intros Ha.
      destruct (E2 j Hj Ha) as (k & Hk & Hkid). exists k. split; auto.
      eapply Permutation_in; [apply Permutation_sym; exact Hp| right; exact Hk].
  - tset. eapply Permutation_NoDup; [apply Permutation_sym, Permutation_map; exact Hp|].
    simpl. constructor; auto.
  - tset. intros j Hj.
    assert (i <> j) by (intros <-; contradiction).
    rewrite get_set_other by assumption. apply R; auto.
  - tset. exact RN.
  - intros j Hj. rewrite len_set in Hj. cbn [tms] in Hj.
    destruct (Nat.eq_dec i j) as [<-|Hne].
    + rewrite get_set_same by (cbn [tms]; exact Hi1). reflexivity.
    + rewrite get_set_other by exact Hne. apply G; auto.
Qed.

Lemma timer_start_frame s i cb t r : TI s -> (i < length (tms s))%nat ->
  let s' := fst (timer_start s i cb t r) in
  now s' = now s /\ length (tms s') = length (tms s) /\
  (forall j, In j (ready s') -> In j (ready s)) /\
  (forall j, j <> i -> get s' j = get s j).
Proof.
  intros T Hi. unfold timer_start. destruct cb as [c|]; [|simpl; auto].
  destruct (t_closing (get s i)); [simpl; auto|]. simpl.
  destruct (timer_stop_effect s i T Hi) as (Ea & Hnr & Hnow & Hctr & Hlen & Hrd & Hfld & Hoth).
  rewrite ?len_set, ?upd_length. cbn [tms]. repeat split; auto.
  intros j Hne. rewrite get_set_other by congruence. apply Hoth; auto.
Qed.

Lemma TI_timer_again s i : TI s -> (i < length (tms s))%nat ->
  TI (fst (timer_again s i)).
Proof.
  intros T Hi. unfold timer_again. destruct (t_cb (get s i)); [|exact T].
  destruct (t_repeat (get s i) =? 0); [exact T|]. cbn [fst].
  pose proof (TI_timer_stop s i T Hi) as T1.
  destruct (timer_stop_effect s i T Hi) as (_ & _ & _ & _ & Hlen & _).
  apply TI_timer_start; [exact T1| lia].
Qed.

Lemma timer_again_frame s i : TI s -> (i < length (tms s))%nat ->
  let s' := fst (timer_again s i) in
  now s' = now s /\ length (tms s') = length (tms s) /\
  (forall j, In j (ready s') -> In j (ready s)) /\
  (forall j, j <> i -> get s' j = get s j).
Proof.
  intros T Hi. unfold timer_again. destruct (t_cb (get s i)); [|simpl; auto].
  destruct (t_repeat (get s i) =? 0); [simpl; auto|]. cbn [fst]. cbv zeta.
  pose proof (TI_timer_stop s i T Hi) as T1.
  destruct (timer_stop_effect s i T Hi) as (_ & _ & Hnow & _ & Hlen & Hrd & _ & Hoth).
  destruct (timer_start_frame (timer_stop s i) i (Some n) (t_repeat (get s i)) (t_repeat (get s i)) T1)
    as (A & B & C & D); [lia|].
  repeat split; try congruence.
  - intros j Hj. apply Hrd, C, Hj.
  - intros j Hne. rewrite D by exact Hne. apply Hoth; exact Hne.
Qed.

(* updates of fields that the invariant does not read *)
Lemma TI_set_inert s i f :
  TI s -> (i < length (tms s))%nat ->
  (forall t, t_active (f t) = t_active t /\ t_timeout (f t) = t_timeout t /\
             t_sid (f t) = t_sid t /\ g_at (f t) = g_at t /\ g_req (f t) = g_req t) ->
  TI (set_tm s i f).
Proof.
  intros [H E1 E2 E3 R RN G] Hi Hf.
  assert (GET : forall j, t_active (get (set_tm s i f) j) = t_active (get s j) /\
                          t_timeout (get (set_tm s i f) j) = t_timeout (get s j) /\
                          t_sid (get (set_tm s i f) j) = t_sid (get s j) /\
                          g_at (get (set_tm s i f) j) = g_at (get s j) /\
                          g_req (get (set_tm s i f) j) = g_req (get s j)).
  { intros j. destruct (Nat.eq_dec i j) as [<-|Hne].
    - rewrite get_set_same by exact Hi. apply Hf.
    - rewrite get_set_other by exact Hne. auto. }
  constructor; simpl; auto.
  - intros k Hk. rewrite upd_length. destruct (GET (k_id k)) as (A & B & C & _).
    rewrite A, B, C. apply E1; auto.
  - intros j Hj. rewrite upd_length in Hj. destruct (GET j) as (A & _). rewrite A. apply E2; auto.
  - intros j Hj. rewrite upd_length. destruct (GET j) as (A & B & _). rewrite A, B. apply R; auto.
  - intros j Hj. rewrite upd_length in Hj. destruct (GET j) as (_ & B & _ & D & E). rewrite B, D, E. apply G; auto.
Qed.

Lemma TI_set_repeat s i r : TI s -> (i < length (tms s))%nat -> TI (timer_set_repeat s i r).
Proof. intros T Hi. unfold timer_set_repeat. apply TI_set_inert; auto. Qed.

Lemma TI_close s i : TI s -> (i < length (tms s))%nat -> TI (timer_close s i).
Proof.
  intros T Hi. unfold timer_close.
  pose proof (TI_timer_stop s i T Hi) as T1.
  destruct (timer_stop_effect s i T Hi) as (_ & _ & _ & _ & Hlen & _).
  apply TI_set_inert; auto. lia.
Qed.

Lemma TI_advance s d : TI s -> TI (advance s d).
Proof.
  intros [H E1 E2 E3 R RN G]. constructor; simpl; auto.
  intros i Hi. destruct (R i Hi) as (A & B & C). unfold get in *; simpl. repeat split; auto. lia.
Qed.

Lemma valid_lt s i : valid s i = true -> (i < length (tms s))%nat.
Proof. unfold valid. apply Nat.ltb_lt. Qed.

Lemma TI_api s o : TI s -> TI (fst (api s o)).
Proof.
  intros T. destruct o; simpl; auto.
  - apply TI_timer_init; auto.
  - destruct (valid s i) eqn:V; auto. apply valid_lt in V.
    pose proof (TI_timer_start s i cb timeout repeat T V) as X.
    destruct (timer_start s i cb timeout repeat); exact X.
  - destruct (valid s i) eqn:V; auto. apply valid_lt in V. apply TI_timer_stop; auto.
  - destruct (valid s i) eqn:V; auto. apply valid_lt in V.
    pose proof (TI_timer_again s i T V) as X. destruct (timer_again s i); exact X.
  - destruct (valid s i) eqn:V; auto. apply valid_lt in V. apply TI_set_repeat; auto.
  - destruct (valid s i) eqn:V; auto. apply valid_lt in V. apply TI_close; auto.
  - destruct (valid s i); auto.
  - apply TI_advance; auto.
Qed.

(* what an API call does to the ready queue, the clock and the handle table *)
Definition frame (s s' : tstate) : Prop :=
  now s <= now s' /\ (length (tms s) <= length (tms s'))%nat /\
  (forall j, In j (ready s') -> In j (ready s)).

Lemma frame_refl s : frame s s.
Proof. unfold frame; repeat split; auto; lia. Qed.

Lemma frame_trans a b c : frame a b -> frame b c -> frame a c.
Proof. unfold frame. intros (A & B & C) (D & E & F). repeat split; auto; lia. Qed.

Lemma api_frame s o : TI s -> frame s (fst (api s o)).
Proof.
  intros T. destruct o; simpl; try apply frame_refl.
  - unfold frame, timer_init; simpl. rewrite app_length; simpl. repeat split; auto; lia.
  - destruct (valid s i) eqn:V; [|apply frame_refl]. apply valid_lt in V.
    destruct (timer_start_frame s i cb timeout repeat T V) as (A & B & C & _).
    destruct (timer_start s i cb timeout repeat); simpl in *. unfold frame. repeat split; auto; lia.
  - destruct (valid s i) eqn:V; [|apply frame_refl]. apply valid_lt in V.
    destruct (timer_stop_effect s i T V) as (_ & _ & A & _ & B & C & _).
    simpl. unfold frame. repeat split; auto; lia.
  - destruct (valid s i) eqn:V; [|apply frame_refl]. apply valid_lt in V.
    destruct (timer_again_frame s i T V) as (A & B & C & _).
    destruct (timer_again s i); simpl in *. unfold frame. repeat split; auto; lia.
  - destruct (valid s i); [|apply frame_refl]. simpl. unfold frame, timer_set_repeat; simpl.
    rewrite upd_length. repeat split; auto; lia.
  - destruct (valid s i) eqn:V; [|apply frame_refl]. apply valid_lt in V.
    destruct (timer_stop_effect s i T V) as (_ & _ & A & _ & B & C & _).
    simpl. unfold frame, timer_close; simpl. rewrite upd_length. repeat split; auto; lia.
  - destruct (valid s i); apply frame_refl.
  - unfold frame, advance; simpl. repeat split; auto; lia.
Qed.

(* API calls emit no Fire events *)
Definition is_fire (e : event) : bool :=
  match e with EFire _ _ _ _ _ _ _ => true | _ => false end.

Lemma api_no_fire s o : Forall (fun e => is_fire e = false) (snd (api s o)).
Proof.
  destruct o; simpl; repeat constructor;
    try (destruct (valid s i); simpl; repeat constructor).
  - destruct (timer_start s i cb timeout repeat); repeat constructor.
  - destruct (timer_again s i); repeat constructor.
Qed.

Lemma apis_spec s os : TI s ->
  TI (fst (apis s os)) /\ frame s (fst (apis s os)) /\
  Forall (fun e => is_fire e = false) (snd (apis s os)).
Proof.
  revert s; induction os as [|o os IH]; intros s T; simpl.
  - split; [exact T|split; [apply frame_refl|constructor]].
  - pose proof (TI_api s o T) as T1. pose proof (api_frame s o T) as F1.
    pose proof (api_no_fire s o) as N1.
    destruct (api s o) as [s1 e1]; simpl in *.
    destruct (IH s1 T1) as (T2 & F2 & N2).
    destruct (apis s1 os) as [s2 e2]; simpl in *.
    split; [exact T2|split].
    + eapply frame_trans; eauto.
    + apply Forall_app; split; auto.
Qed.

(* ---- the collection loop ---- *)
Lemma TI_push_ready s i :
  TI s -> (i < length (tms s))%nat -> t_active (get s i) = false ->
  ~ In i (ready s) -> t_timeout (get s i) <= now s ->
  TI (mkT (now s) (counter s) (hp s) (tms s) (ready s ++ [i])).
Proof.
  intros [H E1 E2 E3 R RN G] Hi Ha Hn Ht.
  constructor; unfold get in *; cbn [tms hp now ready counter] in *; auto.
  - intros j Hj. apply in_app_or in Hj. destruct Hj as [Hj|[<-|[]]]; auto.
  - clear - RN Hn. induction (ready s) as [|a l IH]; simpl.
    + constructor; [intros []|constructor].
    + inversion RN; subst. constructor.
      * intros Hin. apply in_app_or in Hin. destruct Hin as [Hin|[->|[]]]; [contradiction|].
        apply Hn; left; reflexivity.
      * apply IH; auto. intros Hin. apply Hn; right; exact Hin.
Qed.

Lemma TI_pop s i rest : TI s -> ready s = i :: rest ->
  TI (mkT (now s) (counter s) (hp s) (tms s) rest).
Proof.
  intros [H E1 E2 E3 R RN G] Hr.
  constructor; unfold get in *; cbn [tms hp now ready counter] in *; auto.
  - intros j Hj. apply R. rewrite Hr. right; exact Hj.
  - rewrite Hr in RN. inversion RN; auto.
Qed.

Lemma collect_spec fuel : forall s, TI s ->
  TI (collect fuel s) /\ now (collect fuel s) = now s /\
  length (tms (collect fuel s)) = length (tms s).
Proof.
  induction fuel as [|f IH]; intros s T; simpl; [auto|].
  destruct (heap_min (hp s)) as [k|] eqn:Em; [|auto].
  destruct (Z.ltb_spec (now s) (k_timeout k)); [auto|].
  assert (Hk : In k (els s)).
  { unfold heap_min in Em. destruct (h_tree (hp s)); simpl in *; [discriminate|].
    inversion Em; subst. left; reflexivity. }
  destruct (ti_e1 s T k Hk) as (Hi & Ha & Hto & Hsid).
  pose proof (TI_timer_stop s (k_id k) T Hi) as T1.
  destruct (timer_stop_effect s (k_id k) T Hi) as (Ea & Hnr & Hnow & Hctr & Hlen & Hrd & Hfld & Hoth).
  set (s1 := timer_stop s (k_id k)) in *.
  assert (T2 : TI (mkT (now s1) (counter s1) (hp s1) (tms s1) (ready s1 ++ [k_id k]))).
  { apply TI_push_ready; auto; try lia.
    destruct (Hfld (k_id k)) as (A & _). rewrite A, Hto, Hnow. lia. }
  destruct (IH _ T2) as (T3 & N3 & L3). cbn [now tms] in *.
  split; [exact T3|]. split; congruence.
Qed.

(* ---- the firing loop ---- *)
Definition ev_ok (e : event) : Prop :=
  match e with
  | EFire _ _ nw due _ at_ req => due <= nw /\ due = clamp at_ req
  | _ => True
  end.

Definition fire_ids (evs : list event) : list nat :=
  flat_map (fun e => match e with EFire i _ _ _ _ _ _ => [i] | _ => [] end) evs.

Lemma fire_ids_app a b : fire_ids (a ++ b) = fire_ids a ++ fire_ids b.
Proof. unfold fire_ids. apply flat_map_app. Qed.

Lemma no_fire_ids evs : Forall (fun e => is_fire e = false) evs -> fire_ids evs = [].
Proof.
  induction 1 as [|e evs He _ IH]; simpl; auto.
  destruct e; simpl in *; try discriminate; auto.
Qed.

Lemma no_fire_ok evs : Forall (fun e => is_fire e = false) evs -> Forall ev_ok evs.
Proof.
  intros H. eapply Forall_impl; [|exact H]. intros e He. destruct e; simpl in *; auto; discriminate.
Qed.

Lemma fire_spec fuel : forall s beh cnt, TI s ->
  let '(s', evs, _) := fire fuel s beh cnt in
  TI s' /\ frame s s' /\ Forall ev_ok evs /\
  incl (fire_ids evs) (ready s) /\ NoDup (fire_ids evs) /\
  ((length (ready s) <= fuel)%nat -> ready s' = []).
Proof.
  induction fuel as [|f IH]; intros s beh cnt T; simpl.
  - split; [exact T|]. split; [apply frame_refl|]. split; [constructor|].
    split; [intros x []|]. split; [constructor|].
    intros Hl. destruct (ready s); simpl in *; [auto|lia].
  - destruct (ready s) as [|i rest] eqn:Er.
    + split; [exact T|]. split; [apply frame_refl|]. split; [constructor|].
      split; [intros x []|]. split; [constructor|]. auto.
    + pose proof (TI_pop s i rest T Er) as T0.
      set (s0 := mkT (now s) (counter s) (hp s) (tms s) rest) in *.
      assert (Ri : In i (ready s)) by (rewrite Er; left; reflexivity).
      destruct (ti_r s T i Ri) as (Hi & Hina & Hto).
      pose proof (ti_g s T i Hi) as Hg.
      pose proof (TI_timer_again s0 i T0 Hi) as T1.
      destruct (timer_again_frame s0 i T0 Hi) as (An & Al & Ar & _).
      set (s1 := fst (timer_again s0 i)) in *.
      destruct (apis_spec s1 (beh cnt) T1) as (T2 & F2 & N2).
      destruct (apis s1 (beh cnt)) as [s2 evs] eqn:Ea. cbn [fst snd] in *.
      specialize (IH s2 beh (S cnt) T2).
      destruct (fire f s2 beh (S cnt)) as [[s3 evs'] cnt'] eqn:Ef.
      destruct IH as (T3 & F3 & O3 & I3 & D3 & Z3).
      assert (NDr : NoDup (i :: rest)) by (rewrite <- Er; apply (ti_rn s T)).
      assert (Sub : forall j, In j (ready s2) -> In j rest).
      { intros j Hj. apply Ar. destruct F2 as (_ & _ & C). apply C. exact Hj. }
      split; [exact T3|]. split.
      { eapply frame_trans; [|exact F3]. eapply frame_trans; [|exact F2].
        unfold frame. subst s0. cbn [now tms ready] in *. split; [lia|]. split; [lia|].
        intros j Hj. rewrite Er. right. apply Ar. exact Hj. }
      split.
      { constructor.
        - simpl. change (get s0 i) with (get s i). split; [exact Hto| exact Hg].
        - constructor; [exact I|].
          apply Forall_app; split; [apply no_fire_ok; exact N2| exact O3]. }
      match goal with |- context [fire_ids (?e :: ?e2 :: evs ++ evs')] =>
        change (fire_ids (e :: e2 :: evs ++ evs')) with (fire_ids ([e] ++ [e2] ++ evs ++ evs')) end.
      rewrite !fire_ids_app, (no_fire_ids evs N2). simpl.
      split.
      { intros j [<-|Hj]; [left; reflexivity|]. right. apply Sub, I3, Hj. }
      split.
      { constructor; auto. intros Hin. inversion NDr; subst. apply H1. apply Sub, I3, Hin. }
      { intros Hl. apply Z3.
        assert (length (ready s2) <= length rest)%nat.
        { apply NoDup_incl_length; [apply (ti_rn s2 T2)| exact Sub]. }
        simpl in Hl. lia. }
Qed.

(* ---- whole scripts ---- *)
Lemma frame_ready_nil s s' : frame s s' -> ready s = [] -> ready s' = [].
Proof.
  intros (_ & _ & C) Hr. destruct (ready s') as [|j l] eqn:E; auto.
  exfalso. specialize (C j). rewrite Hr in C. apply C. left; reflexivity.
Qed.

Lemma run_timers_spec s beh cnt : TI s -> ready s = [] ->
  let '(s', evs, _) := run_timers s beh cnt in
  TI s' /\ ready s' = [] /\ now s <= now s' /\ Forall ev_ok evs /\ NoDup (fire_ids evs).
Proof.
  intros T Hr. unfold run_timers.
  destruct (collect_spec (S (N.to_nat (h_n (hp s)))) s T) as (T1 & N1 & L1).
  set (s1 := collect (S (N.to_nat (h_n (hp s)))) s) in *.
  pose proof (fire_spec (length (ready s1)) s1 beh cnt T1) as F.
  destruct (fire (length (ready s1)) s1 beh cnt) as [[s' evs] c'].
  destruct F as (T' & (Fn & _) & O & _ & D & Z).
  split; [exact T'|]. split; [apply Z; lia|]. split; [lia|]. split; assumption.
Qed.

Lemma run_spec os : forall s beh cnt, TI s -> ready s = [] ->
  TI (fst (run s os beh cnt)) /\ ready (fst (run s os beh cnt)) = [] /\
  Forall ev_ok (snd (run s os beh cnt)).
Proof.
  induction os as [|o os IH]; intros s beh cnt T Hr; [simpl; auto|].
  assert (API : forall o', o' <> ORun ->
    let '(s1, e1) := api s o' in
    let '(s2, e2) := run s1 os beh cnt in
    TI s2 /\ ready s2 = [] /\ Forall ev_ok (e1 ++ e2)).
  { intros o' _. pose proof (TI_api s o' T) as T1. pose proof (api_frame s o' T) as F1.
    pose proof (api_no_fire s o') as N1.
    destruct (api s o') as [s1 e1]; cbn [fst snd] in *.
    destruct (IH s1 beh cnt T1 (frame_ready_nil _ _ F1 Hr)) as (T2 & R2 & O2).
    destruct (run s1 os beh cnt) as [s2 e2]; cbn [fst snd] in *.
    split; [exact T2|]. split; [exact R2|]. apply Forall_app; split; [apply no_fire_ok; exact N1| exact O2]. }
  assert (EQ : o <> ORun -> run s (o :: os) beh cnt =
    (let '(s1, e1) := api s o in let '(s2, e2) := run s1 os beh cnt in (s2, e1 ++ e2))).
  { destruct o; intros; try reflexivity; congruence. }
  assert (DEC : o = ORun \/ o <> ORun) by (destruct o; auto; right; discriminate).
  destruct DEC as [->|Hne].
  2: { rewrite (EQ Hne). specialize (API o Hne).
       destruct (api s o) as [s1 e1]. destruct (run s1 os beh cnt) as [s2 e2]. exact API. }
  clear API EQ.
  (* ORun *)
  simpl. pose proof (run_timers_spec s beh cnt T Hr) as RT.
  destruct (run_timers s beh cnt) as [[s1 e1] c1].
  destruct RT as (T1 & R1 & _ & O1 & _).
  destruct (IH s1 beh c1 T1 R1) as (T2 & R2 & O2).
  destruct (run s1 os beh c1) as [s2 e2]; cbn [fst snd] in *.
  split; [exact T2|]. split; [exact R2|].
  constructor; [exact I|]. apply Forall_app; split; [exact O1|]. constructor; [exact I| exact O2].
Qed.

(* C04: never early.  Every timer callback of every script, whatever the
   callbacks themselves do, runs at a loop time >= the saturated sum of the
   loop time and the timeout of the arm that made it due. *)
Theorem never_early t0 os beh :
  Forall ev_ok (snd (run (tinit t0) os beh 0)).
Proof. apply run_spec; [apply TI_init| reflexivity]. Qed.

Theorem fire_only_ready fuel s beh cnt i :
  TI s -> ~ In i (ready s) ->
  ~ In i (fire_ids (snd (fst (fire fuel s beh cnt)))).
Proof.
  intros T Hn Hin. pose proof (fire_spec fuel s beh cnt T) as F.
  destruct (fire fuel s beh cnt) as [[s' evs] c]. cbn [fst snd] in *.
  destruct F as (_ & _ & _ & I & _). apply Hn, I, Hin.
Qed.

Theorem start_leaves_ready s i cb t r :
  TI s -> (i < length (tms s))%nat -> snd (timer_start s i cb t r) = 0 ->
  ~ In i (ready (fst (timer_start s i cb t r))) /\
  t_active (get (fst (timer_start s i cb t r)) i) = true /\
  t_timeout (get (fst (timer_start s i cb t r)) i) = clamp (now s) t.
Proof.
  intros T Hi. unfold timer_start. destruct cb as [c|]; [|simpl; discriminate].
  destruct (t_closing (get s i)); [simpl; discriminate|]. intros _. cbn [fst].
  destruct (timer_stop_effect s i T Hi) as (Ea & Hnr & Hnow & Hctr & Hlen & Hrd & Hfld & Hoth).
  tset. rewrite get_set_same by (cbn [tms]; lia). simpl. rewrite Hnow. auto.
Qed.

Theorem stop_prevents s i :
  TI s -> (i < length (tms s))%nat ->
  ~ In i (ready (timer_stop s i)) /\ t_active (get (timer_stop s i) i) = false.
Proof.
  intros T Hi. destruct (timer_stop_effect s i T Hi) as (Ea & Hnr & _). auto.
Qed.

Theorem due_in_spec s i :
  timer_due_in s i = Z.max 0 (t_timeout (get s i) - now s).
Proof.
  unfold timer_due_in. destruct (Z.leb_spec (t_timeout (get s i)) (now s)); lia.
Qed.

Theorem next_timeout_bound s :
  -1 <= next_timeout s <= int_max /\
  (forall k, heap_min (hp s) = Some k -> now s + next_timeout s <= Z.max (now s) (k_timeout k)).
Proof.
  unfold next_timeout, int_max. destruct (heap_min (hp s)) as [k|]; [|split; [lia|discriminate]].
  split.
  - destruct (Z.leb_spec (k_timeout k) (now s)); [lia|].
    destruct (Z.ltb_spec 2147483647 (k_timeout k - now s)); lia.
  - intros k' E; inversion E; subst k'.
    destruct (Z.leb_spec (k_timeout k) (now s)); [lia|].
    destruct (Z.ltb_spec 2147483647 (k_timeout k - now s)); lia.
Qed.

Theorem now_monotone_api s o : TI s -> now s <= now (fst (api s o)).
Proof. intros T. apply api_frame; exact T. Qed.

(* uv_timer_again: a repeating timer is re-armed relative to the current loop
   time with the repeat value in force at that moment *)
Theorem again_rearms s i c :
  TI s -> (i < length (tms s))%nat ->
  t_cb (get s i) = Some c -> t_repeat (get s i) <> 0 -> t_closing (get s i) = false ->
  let s' := fst (timer_again s i) in
  snd (timer_again s i) = 0 /\
  t_active (get s' i) = true /\
  t_timeout (get s' i) = clamp (now s) (t_repeat (get s i)) /\
  t_repeat (get s' i) = t_repeat (get s i) /\
  ~ In i (ready s').
Proof.
  intros T Hi Hcb Hr Hcl. unfold timer_again. rewrite Hcb.
  destruct (Z.eqb_spec (t_repeat (get s i)) 0) as [E|_]; [contradiction|]. cbn [fst snd].
  pose proof (TI_timer_stop s i T Hi) as T1.
  destruct (timer_stop_effect s i T Hi) as (Ea & Hnr & Hnow & Hctr & Hlen & Hrd & Hfld & Hoth).
  assert (Hi1 : (i < length (tms (timer_stop s i)))%nat) by lia.
  destruct (Hfld i) as (_ & _ & _ & _ & Hclo & _).
  assert (Hsnd : snd (timer_start (timer_stop s i) i (Some c) (t_repeat (get s i)) (t_repeat (get s i))) = 0).
  { unfold timer_start. rewrite Hclo, Hcl. reflexivity. }
  destruct (start_leaves_ready (timer_stop s i) i (Some c) (t_repeat (get s i)) (t_repeat (get s i)) T1 Hi1 Hsnd)
    as (A & B & C).
  split; [reflexivity|]. split; [exact B|]. split; [rewrite C, Hnow; reflexivity|]. split; [|exact A].
  unfold timer_start. rewrite Hclo, Hcl. cbn [fst].
  destruct (timer_stop_effect (timer_stop s i) i T1 Hi1) as (_ & _ & _ & _ & Hlen2 & _).
  rewrite get_set_same by (cbn [tms]; lia). reflexivity.
Qed.
