(* Proofs about Model/Fs.v (C11), part A: dispatch and the three routes. *)
From UV Require Import Lib.Base Model.Fs Proofs.FsProofs.
Local Open Scope Z_scope.

Lemma IOV_MAX_pos : (1 <= IOV_MAX)%nat.
Proof. unfold IOV_MAX. lia. Qed.

Lemma s32_fdcwd : s32 (AT_FDCWD mod two32) = AT_FDCWD.
Proof. reflexivity. Qed.

Lemma norm_idem c : norm (norm c) = norm c.
Proof. destruct c; simpl; try reflexivity; now rewrite Z.mod_mod by (unfold two32; lia). Qed.

Lemma firstn1_nth (l : list nat) : l <> [] -> firstn 1 l = [nth 0 l O].
Proof. destruct l; [congruence|reflexivity]. Qed.

(* nb of uv__fs_read / uv__iou_fs_read_or_write for a non-empty list *)
Lemma nb_pos {T} (l : list T) :
  l <> [] -> (1 <= (if (IOV_MAX <? length l)%nat then IOV_MAX else length l))%nat.
Proof.
  intros H. destruct (IOV_MAX <? length l)%nat; [apply IOV_MAX_pos|].
  destruct l; [congruence|simpl; lia].
Qed.

Lemma kernel_readv fd off lens n :
  kernel_of_sqe (mkSqe IORING_OP_READV fd off (ARIov lens) ANull n 0) =
  if off =? -1 then PReadv fd lens else PPreadv fd lens off.
Proof. reflexivity. Qed.
Lemma kernel_writev fd off ds n :
  kernel_of_sqe (mkSqe IORING_OP_WRITEV fd off (AWIov ds) ANull n 0) =
  if off =? -1 then PWritev fd ds else PPwritev fd ds off.
Proof. reflexivity. Qed.

Opaque IOV_MAX.

(* Per operation: the SQE that uv__iou_fs_* fills in denotes, by the documented
   meaning of its opcode, the very call that uv__fs_work makes (the first call,
   for UV_FS_WRITE). *)
Theorem sqe_meaning :
  forall kv op s, sqe_of kv op = Some s -> api_check op = None ->
  norm (kernel_of_sqe s) = norm (work op).
Proof.
  intros kv op s Hs Ha.
  destruct op; simpl in Hs; try discriminate.
  - (* close *) destruct (kv_close_ok kv); inversion Hs; reflexivity.
  - (* fdatasync *) inversion Hs; reflexivity.
  - (* fstat *) inversion Hs; reflexivity.
  - (* fsync *) inversion Hs; reflexivity.
  - (* ftruncate *) destruct (kv_ge kv 395520); inversion Hs; reflexivity.
  - (* lstat *) inversion Hs; reflexivity.
  - (* link *) destruct (kv_ge kv 331520); inversion Hs; reflexivity.
  - (* mkdir *) destruct (kv_ge kv 331520); inversion Hs. cbn.
    now rewrite Z.mod_mod by (unfold two32; lia).
  - (* open *) inversion Hs. cbn. now rewrite Z.mod_mod by (unfold two32; lia).
  - (* read *)
    assert (Hl : lens <> []) by (destruct lens; [discriminate Ha|congruence]).
    pose proof (nb_pos lens Hl) as Hnb.
    inversion Hs; subst s; clear Hs. rewrite kernel_readv.
    unfold work, read_call.
    set (nb := (if (IOV_MAX <? length lens)%nat then IOV_MAX else length lens)) in *.
    destruct (off <? 0) eqn:Eo; cbv iota.
    + change (-1 =? -1) with true. cbv iota.
      destruct (nb =? 1)%nat eqn:E1.
      * apply Nat.eqb_eq in E1. rewrite E1. rewrite (firstn1_nth lens Hl). reflexivity.
      * destruct (1 <? nb)%nat eqn:E2; [reflexivity|].
        apply Nat.eqb_neq in E1. apply Nat.ltb_ge in E2. lia.
    + apply Z.ltb_ge in Eo.
      replace (off =? -1) with false by (symmetry; apply Z.eqb_neq; lia). cbv iota.
      destruct (nb =? 1)%nat eqn:E1.
      * apply Nat.eqb_eq in E1. rewrite E1. rewrite (firstn1_nth lens Hl). reflexivity.
      * destruct (1 <? nb)%nat eqn:E2; [reflexivity|].
        apply Nat.eqb_neq in E1. apply Nat.ltb_ge in E2. lia.
  - (* rename *) inversion Hs; reflexivity.
  - (* stat *) inversion Hs; reflexivity.
  - (* symlink *) destruct (kv_ge kv 331520); inversion Hs; reflexivity.
  - (* unlink *) inversion Hs; reflexivity.
  - (* write *)
    assert (Hl : bufs <> []) by (destruct bufs; [discriminate Ha|congruence]).
    destruct (IOV_MAX <? length bufs)%nat eqn:Ei; [discriminate|].
    inversion Hs; subst s; clear Hs. rewrite kernel_writev.
    unfold work. rewrite Ei. unfold pick_call.
    assert (Hf : firstn (length bufs) bufs = bufs) by apply firstn_all.
    destruct (off <? 0) eqn:Eo; cbv iota.
    + change (-1 =? -1) with true. cbv iota.
      destruct (length bufs =? 1)%nat eqn:E1.
      * destruct bufs as [|b [|b2 bs]]; try discriminate. cbn. now rewrite app_nil_r.
      * destruct (1 <? length bufs)%nat eqn:E2.
        -- unfold pcall_of_wcall. cbn [rk riov roff]. do 2 f_equal. symmetry. exact Hf.
        -- destruct bufs as [|b [|b2 bs]]; simpl in *; try congruence; discriminate.
    + apply Z.ltb_ge in Eo.
      replace (off =? -1) with false by (symmetry; apply Z.eqb_neq; lia). cbv iota.
      destruct (length bufs =? 1)%nat eqn:E1.
      * destruct bufs as [|b [|b2 bs]]; try discriminate. cbn. now rewrite app_nil_r.
      * destruct (1 <? length bufs)%nat eqn:E2.
        -- unfold pcall_of_wcall. cbn [rk riov roff]. do 2 f_equal. symmetry. exact Hf.
        -- destruct bufs as [|b [|b2 bs]]; simpl in *; try congruence; discriminate.
Qed.

(* History: before the repair uv__iou_fs_ftruncate put the length into sqe->len.
   The kernel takes it from sqe->off and rejects a non-zero sqe->len, so for
   every length that is not a multiple of 2^32 that SQE was invalid (EINVAL),
   and for the other non-zero ones it truncated to 0. *)
Definition old_ftruncate_sqe (fd off : Z) : sqe :=
  mkSqe IORING_OP_FTRUNCATE fd 0 ANull ANull (off mod two32) 0.

Theorem old_sqe_ftruncate_wrong :
  forall fd off, off <> 0 ->
  norm (kernel_of_sqe (old_ftruncate_sqe fd off)) <> norm (work (OFtruncate fd off)) /\
  (off mod two32 <> 0 -> kernel_of_sqe (old_ftruncate_sqe fd off) = PInvalid IORING_OP_FTRUNCATE).
Proof.
  intros fd off Ho. unfold old_ftruncate_sqe.
  cbn. destruct (off mod two32 =? 0) eqn:E; cbn.
  - split; [intros H; inversion H; congruence|]. apply Z.eqb_eq in E. congruence.
  - split; [discriminate|reflexivity].
Qed.

Lemma kernel_not_invalid kv op s :
  sqe_of kv op = Some s -> api_check op = None ->
  forall o, kernel_of_sqe s <> PInvalid o.
Proof.
  intros Hs Ha o H.
  pose proof (sqe_meaning _ _ _ Hs Ha) as Hm. rewrite H in Hm. simpl in Hm.
  destruct op; simpl in Hs; try discriminate; simpl in Hm; try discriminate.
  - unfold work, read_call in Hm.
    destruct (off <? 0); destruct (_ =? 1)%nat; try discriminate;
      destruct (1 <? _)%nat; discriminate.
  - destruct (IOV_MAX <? length bufs)%nat; [discriminate|]. unfold pick_call in Hm.
    destruct (off <? 0); destruct (_ =? 1)%nat; try discriminate;
      destruct (1 <? _)%nat; discriminate.
Qed.

(* ------------------------------------------------------------------ *)
Section Routes.
Variable fs : Type.
Variable out : Type.
Variable posix : pcall -> fs -> pres out * fs.
Variable no_out : out.
(* the oracle does not distinguish a legacy entry point from its *at / vector form *)
Hypothesis posix_norm : forall c st, posix c st = posix (norm c) st.

Notation run := (run fs out posix no_out).
Notation fs_work := (fs_work fs out posix no_out).

(* sync = pool: both are uv__fs_work (the POST macro) *)
Theorem sync_is_pool :
  forall ring_ok kv fuel op st, run RSync ring_ok kv fuel op st = run RPool ring_ok kv fuel op st.
Proof. reflexivity. Qed.

(* when the ring is not taken the ring route is the pool route *)
Theorem ring_falls_back :
  forall ring_ok kv fuel op st, takes_ring ring_ok kv op = false ->
  run RRing ring_ok kv fuel op st = run RPool ring_ok kv fuel op st.
Proof.
  intros ring_ok kv fuel op st H. unfold Fs.run, takes_ring in *.
  destruct (api_check op); auto. destruct (sqe_of kv op); auto.
  destruct ring_ok; [discriminate|reflexivity].
Qed.

(* r == -1 ? UV__ERR(errno) : r on every route *)
Theorem errno_mapping :
  forall r : pres out,
  (rc out r = -1 -> result_z out r = - perrno out r) /\ (rc out r <> -1 -> result_z out r = rc out r).
Proof.
  intros r. unfold result_z. split; intros H.
  - rewrite H. reflexivity.
  - apply Z.eqb_neq in H. now rewrite H.
Qed.

(* answers on which the pool route does something the ring route does not:
   EINTR (retried), EOPNOTSUPP (the ring re-posts), EINPROGRESS on close
   (mapped to 0), statx unusable (stat fallback) *)
Definition special (op : fsop) (r : pres out) : bool :=
  ((rc out r =? -1) && ((perrno out r =? EINTR) || (perrno out r =? EOPNOTSUPP))) ||
  match op with
  | OClose _ => (rc out r =? -1) && (perrno out r =? EINPROGRESS)
  | OStat _ | OLstat _ | OFstat _ => is_statx_unusable out r
  | _ => false
  end.

Definition is_write (op : fsop) : bool := match op with OWrite _ _ _ => true | _ => false end.

Lemma retry_once fuel act retry st r st' :
  act st = (r, st') -> ((rc out r =? -1) && (perrno out r =? EINTR)) = false ->
  retry_loop fs out fuel act retry st = (r, st').
Proof.
  intros Ha Hn. destruct fuel; simpl; rewrite Ha; auto.
  rewrite <- andb_assoc, Hn, andb_false_r. reflexivity.
Qed.

(* The three routes agree, operation by operation: same result, same output,
   same resulting state, for every oracle, state and kernel version. *)
Theorem routes_agree :
  forall kv fuel op st,
  is_write op = false ->
  special op (fst (posix (work op) st)) = false ->
  -1 <= rc out (fst (posix (work op) st)) ->
  run RRing true kv fuel op st = run RPool true kv fuel op st /\
  run RSync true kv fuel op st = run RPool true kv fuel op st.
Proof.
  intros kv fuel op st Hw Hsp Hwf. split; [|reflexivity].
  unfold Fs.run. destruct (api_check op) eqn:Ha; auto.
  destruct (sqe_of kv op) as [s|] eqn:Hs; auto.
  pose proof (sqe_meaning _ _ _ Hs Ha) as Hm.
  pose proof (kernel_not_invalid _ _ _ Hs Ha) as Hni.
  unfold ring_complete.
  assert (Hk : posix (kernel_of_sqe s) st = posix (work op) st)
    by (rewrite posix_norm, Hm, <- posix_norm; reflexivity).
  rewrite Hk. destruct (posix (work op) st) as [r st'] eqn:Hp. simpl in Hsp, Hwf.
  unfold special in Hsp. apply orb_false_iff in Hsp as [Hsp1 Hsp2].
  assert (Hres : (result_z out r =? - EOPNOTSUPP) = false).
  { unfold result_z. destruct (rc out r =? -1) eqn:E.
    - simpl in Hsp1. apply orb_false_iff in Hsp1 as [_ H2].
      apply Z.eqb_neq in H2. apply Z.eqb_neq. lia.
    - apply Z.eqb_neq in E. apply Z.eqb_neq. unfold EOPNOTSUPP. lia. }
  assert (Hgo : forall (X : Type) (a b : X),
             match kernel_of_sqe s with PInvalid _ => a | _ => b end = b).
  { intros X a b. destruct (kernel_of_sqe s) eqn:E; auto. exfalso. exact (Hni _ eq_refl). }
  rewrite !Hgo. cbv zeta. rewrite Hres.
  assert (Hei : ((rc out r =? -1) && (perrno out r =? EINTR)) = false).
  { destruct (rc out r =? -1); auto. simpl in *. apply orb_false_iff in Hsp1. tauto. }
  assert (Hact : action fs out posix no_out fuel op st = (r, st')).
  { destruct op; simpl in Hs; try discriminate; simpl in Hw; try discriminate;
      unfold action; try exact Hp.
    - (* close *) simpl in Hp. rewrite Hp.
      destruct (rc out r =? -1) eqn:E; auto. simpl in *.
      apply orb_false_iff in Hsp1 as [H1 _]. rewrite H1, Hsp2. reflexivity.
    - (* fstat *) rewrite Hp, Hsp2. reflexivity.
    - (* lstat *) rewrite Hp, Hsp2. reflexivity.
    - (* read *)
      assert (Hl : lens <> []) by (destruct lens; [discriminate Ha|congruence]).
      pose proof (nb_pos lens Hl) as Hnb.
      unfold work in Hp. destruct (read_call fd lens off) eqn:Er; [exact Hp|].
      exfalso. unfold read_call in Er.
      set (nb := (if (IOV_MAX <? length lens)%nat then IOV_MAX else length lens)) in *.
      destruct (off <? 0); destruct (nb =? 1)%nat eqn:E1; try discriminate;
        destruct (1 <? nb)%nat eqn:E2; try discriminate;
        apply Nat.eqb_neq in E1; apply Nat.ltb_ge in E2; lia.
    - (* stat *) rewrite Hp, Hsp2. reflexivity. }
  unfold Fs.fs_work. rewrite (retry_once _ _ _ _ _ _ Hact Hei). reflexivity.
Qed.

(* req->result is the errno of the system call itself: uv__fs_work reads errno
   right after the call of the X(...) table returns, nothing of libuv runs in
   between except uv__free in the helpers' error paths, and uv__free saves and
   restores errno (uv-common.c:81-90; the model has no step there).  For the
   operations whose action is the bare call: *)
Definition plain_action (op : fsop) : bool :=
  match op with
  | OClose _ | OStat _ | OLstat _ | OFstat _ | ORead _ _ _ | OWrite _ _ _ => false
  | _ => true
  end.

Theorem result_is_call_errno :
  forall fuel op st r st',
  plain_action op = true -> posix (work op) st = (r, st') ->
  ((rc out r =? -1) && (perrno out r =? EINTR)) = false ->
  fs_work fuel op st = (result_z out r, pout out r, st') /\
  (rc out r = -1 -> result_z out r = - perrno out r).
Proof.
  intros fuel op st r st' Hpl Hp Hn. split.
  - assert (Hact : action fs out posix no_out fuel op st = (r, st'))
      by (destruct op; try discriminate Hpl; exact Hp).
    unfold Fs.fs_work. rewrite (retry_once _ _ _ _ _ _ Hact Hn). reflexivity.
  - intros H. unfold result_z. now rewrite H.
Qed.

(* -EOPNOTSUPP in the completion: the request is handed to the thread pool *)
Theorem ring_eopnotsupp_reposts :
  forall fuel op s st r st',
  (forall o, kernel_of_sqe s <> PInvalid o) ->
  posix (kernel_of_sqe s) st = (r, st') -> rc out r = -1 -> perrno out r = EOPNOTSUPP ->
  ring_complete fs out posix no_out fuel op s st = fs_work fuel op st'.
Proof.
  intros fuel op s st r st' Hni Hp Hr He. unfold ring_complete. rewrite Hp.
  assert (Hgo : forall (X : Type) (a b : X),
             match kernel_of_sqe s with PInvalid _ => a | _ => b end = b).
  { intros X a b. destruct (kernel_of_sqe s) eqn:E; auto. exfalso. exact (Hni _ eq_refl). }
  rewrite !Hgo. cbv zeta. unfold result_z. rewrite Hr, He. reflexivity.
Qed.

(* ---- UV_FS_WRITE: one writev on the ring, a loop in the pool ---- *)
Lemma buf_offset_all (bufs : list (list byte)) :
  Forall (fun b => b <> []) bufs -> buf_offset bufs (total_len bufs) = (length bufs, bufs).
Proof.
  unfold total_len. induction bufs as [|b rest IH]; intros Hf; [reflexivity|].
  inversion Hf; subst. simpl. rewrite app_length.
  assert (0 < length b)%nat by (destruct b; [congruence|simpl; lia]).
  replace ((0 <? length b + length (concat rest))%nat) with true
    by (symmetry; apply Nat.ltb_lt; lia).
  replace ((length b <=? length b + length (concat rest))%nat) with true
    by (symmetry; apply Nat.leb_le; lia).
  simpl. replace (length b + length (concat rest) - length b)%nat with (length (concat rest)) by lia.
  rewrite IH; auto.
Qed.

Definition res_state (x : Z * out * fs) : Z * fs := (fst (fst x), snd x).

(* If the kernel takes the whole request at once, or refuses it, the ring's
   single writev and the pool's uv__fs_write_all end in the same result and
   state. *)
Theorem write_routes_agree_partial :
  forall kv fuel fd bufs off st,
  let op := OWrite fd bufs off in
  bufs <> [] -> (length bufs <= IOV_MAX)%nat -> Forall (fun b => b <> []) bufs ->
  let r := fst (posix (work op) st) in
  (rc out r = Z.of_nat (total_len bufs) \/
   (rc out r = -1 /\ perrno out r <> EINTR /\ perrno out r <> EOPNOTSUPP)) ->
  res_state (run RRing true kv (S fuel) op st) = res_state (run RPool true kv (S fuel) op st).
Proof.
  intros kv fuel fd bufs off st op Hne Hlen Hf r Hr.
  assert (Ha : api_check op = None) by (destruct bufs; [congruence|reflexivity]).
  unfold Fs.run. rewrite Ha.
  assert (Hs : exists s, sqe_of kv op = Some s).
  { simpl. apply Nat.ltb_ge in Hlen. rewrite Hlen. eauto. }
  destruct Hs as [s Hs]. rewrite Hs.
  pose proof (sqe_meaning _ _ _ Hs Ha) as Hm.
  pose proof (kernel_not_invalid _ _ _ Hs Ha) as Hni.
  unfold ring_complete.
  assert (Hk : posix (kernel_of_sqe s) st = posix (work op) st)
    by (rewrite posix_norm, Hm, <- posix_norm; reflexivity).
  rewrite Hk. subst r. destruct (posix (work op) st) as [r st'] eqn:Hp. simpl in Hr.
  assert (Hgo : forall (X : Type) (a b : X),
             match kernel_of_sqe s with PInvalid _ => a | _ => b end = b).
  { intros X a b. destruct (kernel_of_sqe s) eqn:E; auto. exfalso. exact (Hni _ eq_refl). }
  rewrite !Hgo. cbv zeta.
  (* the pool side: first call of the loop *)
  unfold Fs.fs_work. unfold op at 2. unfold op at 2.
  assert (Hcall : exists c,
            pick_call bufs (if (IOV_MAX <? length bufs)%nat then IOV_MAX else length bufs) off = Some c /\
            work op = pcall_of_wcall fd c).
  { unfold op, work.
    destruct (pick_call bufs (if (IOV_MAX <? length bufs)%nat then IOV_MAX else length bufs) off) eqn:E.
    - eauto.
    - exfalso. revert E. apply pick_call_is_some. now apply nb_pos. }
  destruct Hcall as (c & Hc & Hwc).
  assert (Hsys : sys_posix fs out posix fd st c = (ans_of out r, st'))
    by (unfold sys_posix; rewrite <- Hwc, Hp; reflexivity).
  pose proof (fun total => write_all_loop_step (sys_posix fs out posix fd) fuel IOV_MAX st bufs off total c Hne Hc)
    as Hloop1.
  destruct Hr as [Hfull | (Hm1 & Hne1 & Hne2)].
  - (* everything accepted at once *)
    assert (Hpos : (0 < total_len bufs)%nat).
    { destruct bufs as [|b0 bs]; [congruence|]. inversion Hf; subst. unfold total_len. simpl.
      rewrite app_length. destruct b0; [congruence|simpl; lia]. }
    assert (Hans : ans_of out r = AOk (total_len bufs)).
    { unfold ans_of. rewrite Hfull.
      replace (Z.of_nat (total_len bufs) =? -1) with false by (symmetry; apply Z.eqb_neq; lia).
      now rewrite Nat2Z.id. }
    assert (Hrz : result_z out r = Z.of_nat (total_len bufs)).
    { unfold result_z. rewrite Hfull.
      replace (Z.of_nat (total_len bufs) =? -1) with false by (symmetry; apply Z.eqb_neq; lia).
      reflexivity. }
    rewrite Hrz.
    replace (Z.of_nat (total_len bufs) =? - EOPNOTSUPP) with false
      by (symmetry; apply Z.eqb_neq; unfold EOPNOTSUPP; lia).
    assert (Hact : action fs out posix no_out (S fuel) op st =
                   (mkRes out (Z.of_nat (total_len bufs)) 0 no_out, st')).
    { unfold action, op, write_all. rewrite Hloop1, Hsys, Hans.
      destruct (total_len bufs) as [|m] eqn:Et; [lia|]. cbv iota. rewrite <- Et.
      rewrite buf_offset_all by exact Hf. cbv iota beta. rewrite skipn_all.
      destruct fuel; reflexivity. }
    rewrite (retry_once _ _ _ _ _ _ Hact).
    2:{ simpl. replace (Z.of_nat (total_len bufs) =? -1) with false
          by (symmetry; apply Z.eqb_neq; lia). reflexivity. }
    unfold res_state, result_z. simpl.
    replace (Z.of_nat (total_len bufs) =? -1) with false by (symmetry; apply Z.eqb_neq; lia).
    reflexivity.
  - (* refused *)
    assert (Hans : ans_of out r = AErr (perrno out r)) by (unfold ans_of; now rewrite Hm1).
    assert (Hrz : result_z out r = - perrno out r) by (unfold result_z; now rewrite Hm1).
    rewrite Hrz.
    replace (- perrno out r =? - EOPNOTSUPP) with false by (symmetry; apply Z.eqb_neq; lia).
    assert (Hact : action fs out posix no_out (S fuel) op st =
                   (mkRes out (-1) (perrno out r) no_out, st')).
    { unfold action, op, write_all. rewrite Hloop1, Hsys, Hans.
      replace (perrno out r =? EINTR) with false by (symmetry; apply Z.eqb_neq; exact Hne1).
      reflexivity. }
    rewrite (retry_once _ _ _ _ _ _ Hact).
    2:{ simpl. replace (perrno out r =? EINTR) with false by (symmetry; apply Z.eqb_neq; exact Hne1).
        reflexivity. }
    reflexivity.
Qed.

End Routes.

(* ---- the unconditional statement fails: a kernel that takes one byte per call ---- *)
Definition toy_posix (c : pcall) (st : list byte) : pres unit * list byte :=
  match norm c with
  | PWritev _ ds | PPwritev _ ds _ =>
      match concat ds with
      | [] => (mkRes unit 0 0 tt, st)
      | x :: _ => (mkRes unit 1 0 tt, st ++ [x])
      end
  | _ => (mkRes unit 0 0 tt, st)
  end.

Lemma toy_posix_norm : forall c st, toy_posix c st = toy_posix (norm c) st.
Proof. intros c st. unfold toy_posix. now rewrite norm_idem. Qed.

Theorem write_routes_agree_refuted :
  exists (posix : pcall -> list byte -> pres unit * list byte),
    (forall c st, posix c st = posix (norm c) st) /\
    exists kv fuel fd bufs off st,
      bufs <> [] /\ (length bufs <= IOV_MAX)%nat /\ Forall (fun b => b <> []) bufs /\
      res_state (list byte) unit (run (list byte) unit posix tt RRing true kv fuel (OWrite fd bufs off) st) <>
      res_state (list byte) unit (run (list byte) unit posix tt RPool true kv fuel (OWrite fd bufs off) st).
Proof.
  exists toy_posix. split; [exact toy_posix_norm|].
  exists 400000, 5%nat, 3, [[1%N; 2%N]], (-1), [].
  split; [discriminate|]. split; [|split].
  - Transparent IOV_MAX. unfold IOV_MAX. simpl. lia.
  - repeat constructor; discriminate.
  - vm_compute. discriminate.
Qed.
