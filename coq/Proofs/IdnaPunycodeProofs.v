(* uv__idna_toascii_label (Model/Idna.v) against RFC 3492 section 6.3
   (Spec/PunycodeSpec.v) on well-formed UTF-8 (Spec/Utf8Spec.v). *)
From UV Require Import Lib.Base Model.Idna Spec.Utf8Spec Spec.PunycodeSpec
  Proofs.IdnaBits Proofs.IdnaUtf8Proofs Proofs.IdnaWriterProofs.
Local Open Scope N_scope.

Definition two32 : N := 4294967296.

Lemma u32_small x : x < 4294967296 -> u32 x = x.
Proof. intros H. unfold u32. apply N.mod_small. exact H. Qed.

Lemma usub_small a b : b <= a -> a < 4294967296 -> usub a b = a - b.
Proof. intros H1 H2. unfold usub. lia. Qed.

(* ------------------------------------------------------------------ *)
(* N.size_nat as a bound                                               *)
(* ------------------------------------------------------------------ *)
Lemma pos_size_bound p : Npos p < 2 ^ N.of_nat (Pos.size_nat p).
Proof.
  induction p as [p IH|p IH|]; cbn [Pos.size_nat].
  - rewrite Nat2N.inj_succ, N.pow_succ_r by lia. lia.
  - rewrite Nat2N.inj_succ, N.pow_succ_r by lia. lia.
  - cbn. lia.
Qed.

Lemma size_nat_bound n : n < 2 ^ N.of_nat (N.size_nat n).
Proof. destruct n as [|p]; [cbn; lia|apply pos_size_bound]. Qed.

Lemma pos_size_le p : forall k, Npos p < 2 ^ N.of_nat k -> (Pos.size_nat p <= k)%nat.
Proof.
  induction p as [p IH|p IH|]; intros k H; cbn [Pos.size_nat].
  - destruct k as [|k]; [cbn in H; lia|].
    rewrite Nat2N.inj_succ, N.pow_succ_r in H by lia. specialize (IH k). lia.
  - destruct k as [|k]; [cbn in H; lia|].
    rewrite Nat2N.inj_succ, N.pow_succ_r in H by lia. specialize (IH k). lia.
  - destruct k as [|k]; [cbn in H; lia|lia].
Qed.

Lemma size_nat_le n k : n < 2 ^ N.of_nat k -> (N.size_nat n <= k)%nat.
Proof. destruct n as [|p]; [cbn; lia|apply pos_size_le]. Qed.

Lemma size_nat_32 n : n < 4294967296 -> (N.size_nat n <= 32)%nat.
Proof. intros H. apply size_nat_le. exact H. Qed.

Lemma size_nat_half n m : 0 < n -> m <= n / 2 -> (S (N.size_nat m) <= N.size_nat n)%nat.
Proof.
  intros Hn Hm. pose proof (size_nat_bound n) as Hb.
  destruct (N.size_nat n) as [|s] eqn:E; [cbn in Hb; lia|].
  rewrite Nat2N.inj_succ, N.pow_succ_r in Hb by lia.
  assert (m < 2 ^ N.of_nat s) by lia. apply size_nat_le in H. lia.
Qed.

(* ------------------------------------------------------------------ *)
(* The digit loop and the bias adaptation                              *)
(* ------------------------------------------------------------------ *)
Lemma threshold_range k bias : 1 <= threshold k bias <= 26.
Proof.
  unfold threshold, tmin, tmax. destruct (N.leb_spec k bias); [lia|].
  destruct (N.leb_spec (bias + 26) k); lia.
Qed.

Lemma threshold_model k bias : k < 4294967296 -> bias < 4294967296 ->
  (if 26 <? (if bias <? k then usub k bias else 1) then 26
   else (if bias <? k then usub k bias else 1)) = threshold k bias.
Proof.
  intros Hk Hb. unfold threshold, tmin, tmax.
  destruct (N.ltb_spec bias k).
  - rewrite usub_small by lia. destruct (N.leb_spec k bias); [lia|].
    destruct (N.ltb_spec 26 (k - bias)); destruct (N.leb_spec (bias + 26) k); lia.
  - destruct (N.leb_spec k bias); [reflexivity|lia].
Qed.

Lemma alphabet_digit t : alphabet t = digit_cp t.
Proof. reflexivity. Qed.

Lemma digits_eq : forall fuel k q bias w,
  q < 4294967296 -> bias < 4294967296 -> k + 36 * N.of_nat fuel < 4294967296 ->
  digits_loop (list N) cons fuel k q bias w = rev (encode_int fuel q k bias) ++ w.
Proof.
  induction fuel as [|f IH]; intros k q bias w Hq Hb Hk; [reflexivity|].
  cbn [digits_loop encode_int].
  rewrite (threshold_model k bias) by lia.
  pose proof (threshold_range k bias) as Ht. set (t := threshold k bias) in *.
  destruct (N.ltb_spec q t).
  - rewrite alphabet_digit. reflexivity.
  - rewrite (usub_small q t) by lia. rewrite (usub_small 36 t) by lia.
    unfold base. rewrite (u32_small (t + (q - t) mod (36 - t))) by lia.
    rewrite (u32_small (k + 36)) by lia.
    rewrite IH; [|assert ((q - t) / (36 - t) <= q - t) by (apply N.div_le_upper_bound; nia); lia|lia|lia].
    cbn [rev]. rewrite <- app_assoc. reflexivity.
Qed.

Lemma adapt_loop_eq : forall fuel bias delta,
  bias + 36 * N.of_nat fuel < 4294967296 ->
  adapt_loop fuel bias delta = (snd (adapt_while fuel delta bias), fst (adapt_while fuel delta bias)).
Proof.
  induction fuel as [|f IH]; intros bias delta H; [reflexivity|].
  cbn [adapt_loop adapt_while]. change ((base - tmin) * tmax / 2) with 455.
  change (base - tmin) with 35. unfold base.
  destruct (455 <? delta); [|reflexivity].
  rewrite (u32_small (bias + 36)) by lia. apply IH. lia.
Qed.

Lemma adapt_while_small : forall fuel delta k,
  (N.size_nat delta <= fuel)%nat -> fst (adapt_while fuel delta k) <= 455.
Proof.
  induction fuel as [|f IH]; intros delta k H.
  - cbn. pose proof (size_nat_bound delta). replace (N.size_nat delta) with O in * by lia. cbn in *. lia.
  - cbn [adapt_while]. change ((base - tmin) * tmax / 2) with 455. change (base - tmin) with 35.
    destruct (N.ltb_spec 455 delta); [|cbn; lia].
    apply IH. pose proof (size_nat_half delta (delta / 35) ltac:(lia) ltac:(lia)). lia.
Qed.

Lemma adapt_while_k : forall fuel delta k,
  snd (adapt_while fuel delta k) <= k + 36 * N.of_nat fuel.
Proof.
  induction fuel as [|f IH]; intros delta k; [cbn; lia|].
  cbn [adapt_while]. change ((base - tmin) * tmax / 2) with 455.
  destruct (455 <? delta); [|cbn [snd]; lia].
  specialize (IH (delta / (base - tmin)) (k + base)). unfold base in *. lia.
Qed.

(* lines 289-305 compute adapt(delta, h + 1, first) *)
Lemma adapt_model delta h (frst : bool) :
  delta < 4294967296 -> h + 1 < 4294967296 ->
  (let d := delta / 2 in
   let d := if frst then d / 350 else d in
   let h' := u32 (h + 1) in
   let d := u32 (d + d / h') in
   let (bias, d) := adapt_loop (S (N.size_nat d)) 0 d in
   u32 (bias + u32 (36 * d) / u32 (d + 38)))
  = adapt delta (h + 1) frst /\ adapt delta (h + 1) frst < 2048.
Proof.
  intros Hd Hh. cbv zeta. unfold adapt.
  rewrite (u32_small (h + 1)) by lia.
  assert (E : (if frst then delta / 2 / 350 else delta / 2) = (if frst then delta / damp else delta / 2)).
  { destruct frst; [|reflexivity]. unfold damp. rewrite N.div_div by lia. reflexivity. }
  rewrite E. set (d0 := if frst then delta / damp else delta / 2).
  assert (Hd0 : d0 <= delta / 2).
  { unfold d0, damp. destruct frst; [|lia]. apply N.div_le_lower_bound; lia. }
  assert (Hq : d0 / (h + 1) <= d0) by (apply N.div_le_upper_bound; nia).
  rewrite (u32_small (d0 + d0 / (h + 1))) by lia.
  set (d1 := d0 + d0 / (h + 1)).
  assert (Hd1 : d1 < 4294967296) by (unfold d1; lia).
  pose proof (size_nat_32 d1 Hd1) as Hs.
  rewrite adapt_loop_eq by lia.
  pose proof (adapt_while_small (S (N.size_nat d1)) d1 0 ltac:(lia)) as Hsm.
  pose proof (adapt_while_k (S (N.size_nat d1)) d1 0) as Hk.
  destruct (adapt_while (S (N.size_nat d1)) d1 0) as [d2 k]. cbn [fst snd] in *.
  change (base - tmin + 1) with 36. unfold skew.
  rewrite (u32_small (36 * d2)) by lia. rewrite (u32_small (d2 + 38)) by lia.
  assert (36 * d2 / (d2 + 38) < 36) by (apply N.div_lt_upper_bound; lia).
  rewrite u32_small by lia. split; [reflexivity|lia].
Qed.
